From Coq Require Import Extraction ExtrOcamlBasic.
From PV Require Import Lib.ExtBase C38.Model.
Extraction "model.ml" ext_base_z ext_base_n ext_base_nat ext_base_res ext_base_list
  remove_artifacts detect_artifacts patch_first new_stream wm_content
  add_page add_seq remove_page detect_page page_bytes clean_page add_doc remove_doc detect_doc detect_tdoc flat_doc.
