// C23 mode: (K) the writer's per-object dispatch with a key set, run on the real writer and parsed back,
// against write_iobj of the model; (O) real encrypted outputs byte-searched for the planted markers,
// raw, hex-encoded and inside every stream of the output that inflates without a key.
package main

import (
	"context"
	"sort"
	"bufio"
	"bytes"
	"compress/zlib"
	"encoding/hex"
	"fmt"
	"io"
	"strings"

	"github.com/pdfcpu/pdfcpu/pkg/pdfcpu"
	"github.com/pdfcpu/pdfcpu/pkg/pdfcpu/model"
	"github.com/pdfcpu/pdfcpu/pkg/pdfcpu/types"
	"verif/vh"
)

func mainC23(r *vh.Run) {
	primsTrees(r)
	writerDispatch(r)
	readerDispatch(r)
	markerSearch(r)
	sampleStringSearch(r)
}

// ---- K: writer dispatch ----

func noNullValues(t *tnode) {
	for i, k := range t.kids {
		if t.kind == 'D' && k.kind == 'n' {
			t.kids[i] = &tnode{kind: 'i', z: 7}
		}
		noNullValues(t.kids[i])
	}
}

func pdfString(o types.Object) string {
	if o == nil {
		return "null"
	}
	return o.PDFString()
}

func newWriteCtx(objNr, gen int, o types.Object, key []byte, rev int) (*model.Context, *bytes.Buffer) {
	n := objNr + 10
	xt := &model.XRefTable{Table: map[int]*model.XRefTableEntry{}}
	xt.Size = &n
	xt.Root = types.NewIndirectRef(objNr+1, 0)
	conf := model.NewDefaultConfiguration()
	conf.WriteXRefStream = false
	conf.WriteObjectStream = false
	wc := model.NewWriteContext("\n")
	var buf bytes.Buffer
	wc.Writer = bufio.NewWriter(&buf)
	ctx := &model.Context{Configuration: conf, XRefTable: xt, Write: wc}
	g := gen
	xt.Table[objNr] = &model.XRefTableEntry{Generation: &g, Object: o}
	zero := int64(0)
	g0 := 65535
	xt.Table[0] = &model.XRefTableEntry{Free: true, Offset: &zero, Generation: &g0}
	ctx.EncKey = key
	ctx.E = &model.Enc{R: rev}
	return ctx, &buf
}

// parse "n g obj\n<body>\nendobj\n"
func parseWritten(out []byte) string {
	i := bytes.Index(out, []byte(" obj\n"))
	j := bytes.LastIndex(out, []byte("\nendobj"))
	if i < 0 || j < 0 || j < i+5 {
		return "unparsable:" + vh.Hex(trunc(out))
	}
	body := out[i+5 : j]
	if k := bytes.Index(body, []byte("\nstream\n")); k >= 0 {
		e := bytes.LastIndex(body, []byte("\nendstream"))
		if e < k+8 {
			return "unparsable-stream"
		}
		ds := string(body[:k])
		o, err := model.ParseObject(&ds)
		if err != nil {
			return "unparsable-dict:" + err.Error()
		}
		d, ok := o.(types.Dict)
		if !ok {
			return "stream-without-dict"
		}
		delete(d, "Length")
		return "ok:stream " + serObj(d) + " raw=" + vh.Hex(body[k+8:e])
	}
	s := string(body)
	o, err := model.ParseObject(&s)
	if err != nil {
		return "unparsable-object:" + err.Error()
	}
	return "ok:top " + serObj(o)
}

func sigDictTree(r *vh.Run) *tnode {
	t := &tnode{kind: 'D'}
	put := func(k string, v *tnode) { t.keys = append(t.keys, k); t.kids = append(t.kids, v) }
	put("ByteRange", &tnode{kind: 'A', kids: []*tnode{{kind: 'i', z: 0}, {kind: 'i', z: 10}, {kind: 'i', z: 20}, {kind: 'i', z: 30}}})
	put("Contents", &tnode{kind: 'h', b: rbytes(r, 1+r.Rand.Intn(40))})
	put("Filter", &tnode{kind: 'N', b: []byte("Adobe.PPKLite")})
	if r.Rand.Intn(2) == 0 {
		put("Location", &tnode{kind: 's', b: strBytesGen(r)})
	}
	put("M", &tnode{kind: 's', b: []byte("D:20240101120000Z")})
	put("Name", &tnode{kind: 's', b: strBytesGen(r)})
	put("Reason", &tnode{kind: []byte{'s', 'h'}[r.Rand.Intn(2)], b: strBytesGen(r)})
	put("SubFilter", &tnode{kind: 'N', b: []byte("adbe.pkcs7.detached")})
	put("Type", &tnode{kind: 'N', b: []byte([]string{"Sig", "DocTimeStamp"}[r.Rand.Intn(2)])})
	return t
}

func isTopSig(t *tnode) bool {
	if t.kind != 'D' {
		return false
	}
	hasC, hasB := false, false
	for i, k := range t.keys {
		if k == "Type" && t.kids[i].kind == 'N' && string(t.kids[i].b) == "Sig" {
			return true
		}
		if k == "Contents" {
			hasC = true
		}
		if k == "ByteRange" {
			hasB = true
		}
	}
	return hasC && hasB
}

func writerDispatch(r *vh.Run) {
	n := r.Pick(500, 5000)
	for i := 0; i < n; i++ {
		objNr, gen := 1+r.Rand.Intn(1<<16), r.Rand.Intn(2)
		rev := []int{2, 3}[r.Rand.Intn(2)]
		key := rbytes(r, []int{5, 16}[rev-2])
		kind := []string{"obj", "obj", "obj", "stream", "stream", "lazy"}[r.Rand.Intn(6)]
		var t *tnode
		switch r.Rand.Intn(8) {
		case 0:
			t = sigDictTree(r)
		case 1, 2, 3:
			t = genDict(r, 4)
		default:
			t = genTree(r, 4)
		}
		noNullValues(t)
		if kind == "stream" {
			t = genDict(r, 3)
			noNullValues(t)
			// no Length key (the writer maintains it), Type from a pool with XRef / Metadata / ObjStm
			var ks []string
			var vs []*tnode
			for j, k := range t.keys {
				if k != "Type" {
					ks, vs = append(ks, k), append(vs, t.kids[j])
				}
			}
			if ty := []string{"", "XRef", "Metadata", "ObjStm", "EmbeddedFile", "XObject"}[r.Rand.Intn(6)]; ty != "" {
				// keep keys sorted
				ins := len(ks)
				for j, k := range ks {
					if k > "Type" {
						ins = j
						break
					}
				}
				ks = append(ks[:ins], append([]string{"Type"}, ks[ins:]...)...)
				vs = append(vs[:ins], append([]*tnode{{kind: 'N', b: []byte(ty)}}, vs[ins:]...)...)
			}
			t.keys, t.kids = ks, vs
		}
		if isTopSig(t) && !(len(t.keys) > 0 && t.keys[0] == "ByteRange") {
			// writeDictObject prints signature dictionaries through sigDictPDFString, which needs
			// ByteRange/Filter/SubFilter: only well-formed ones at the top level
			t = sigDictTree(r)
		}
		if t.kind == 'R' || (kind == "obj" && t.kind == 'n') { // an xref entry never holds null-as-object or a bare reference
			t = &tnode{kind: 'i', z: 3}
		}
		var o types.Object
		filters := ""
		rawHex := ""
		switch kind {
		case "obj":
			o = t.obj()
		case "stream":
			raw := rbytes(r, r.Rand.Intn(80))
			l := int64(len(raw))
			sd := types.StreamDict{Dict: t.obj().(types.Dict), Raw: raw, StreamLength: &l}
			switch r.Rand.Intn(4) {
			case 0:
				sd.FilterPipeline = []types.PDFFilter{{Name: "Crypt"}}
				filters = vh.Hex([]byte("Crypt"))
			case 1:
				sd.FilterPipeline = []types.PDFFilter{{Name: "FlateDecode"}}
				filters = vh.Hex([]byte("FlateDecode"))
			case 2:
				sd.FilterPipeline = []types.PDFFilter{{Name: "Crypt"}, {Name: "FlateDecode"}}
				filters = vh.Hex([]byte("Crypt")) + "," + vh.Hex([]byte("FlateDecode"))
			}
			o = sd
			rawHex = vh.Hex(raw)
		case "lazy":
			data := []byte(pdfString(t.obj()))
			osd := &types.ObjectStreamDict{}
			osd.Content = data
			o = types.NewLazyObjectStreamObject(osd, 0, -1, func(_ context.Context, s string) (types.Object, error) { return model.ParseObject(&s) })
		}
		// without a key nothing is enciphered; an undecoded member is still decoded first
		keyed := r.Rand.Intn(5) != 0
		wkey := key
		if !keyed {
			wkey = nil
		}
		ctx, buf := newWriteCtx(objNr, gen, o, wkey, rev)
		var err error
		if kind == "lazy" || r.Rand.Intn(2) == 0 {
			err = guard(func() error { return pdfcpu.VerifC23WriteIndirectObject(ctx, *types.NewIndirectRef(objNr, gen)) })
		} else {
			err = guard(func() error { return pdfcpu.VerifC23WriteFlatObject(ctx, objNr) })
		}
		ctx.Write.Flush()
		res := "err"
		if err == nil {
			res = parseWritten(buf.Bytes())
		} else if strings.HasPrefix(err.Error(), "PANIC") {
			res = "panic:" + err.Error()
		}
		r.Case("writeIobj", []string{kind, t.ser(), filters, rawHex, "false", vh.Int(int64(objNr)), vh.Int(int64(gen)), vh.Hex(key), vh.Int(int64(rev)), vh.Bool(keyed)}, res)
		r.Count("class:writer-" + kind + map[bool]string{true: "-keyed", false: "-nokey"}[keyed])
	}
}

// ---- O: marker search ----

func forms(m string) [][]byte {
	h := hex.EncodeToString([]byte(m))
	return [][]byte{[]byte(m), []byte(h), []byte(strings.ToUpper(h))}
}

// inflatable returns the inflated data of every stream of the file that is valid zlib data without
// any key (an encrypted stream is not; xref streams are).
func inflatable(b []byte) [][]byte {
	var out [][]byte
	pos := 0
	for {
		i := bytes.Index(b[pos:], []byte("stream"))
		if i < 0 {
			break
		}
		s := pos + i + 6
		pos = s
		if s >= 9 && bytes.Equal(b[s-9:s-6], []byte("end")) {
			continue
		}
		for s < len(b) && (b[s] == '\r' || b[s] == '\n') {
			s++
		}
		e := bytes.Index(b[s:], []byte("endstream"))
		if e < 0 {
			break
		}
		seg := b[s : s+e]
		if hx := bytes.TrimRight(bytes.TrimSpace(seg), ">"); len(hx) >= 8 && len(hx)%2 == 0 {
			if raw, err := hex.DecodeString(string(hx)); err == nil { // ASCIIHexDecode in front
				out = append(out, raw)
				seg = raw
			}
		}
		zr, err := zlib.NewReader(bytes.NewReader(seg))
		if err != nil {
			continue
		}
		data, _ := io.ReadAll(io.LimitReader(zr, 8<<20))
		if len(data) > 0 {
			out = append(out, data)
		}
	}
	return out
}

func containsAny(hay []byte, extra [][]byte, m string) string {
	for _, f := range forms(m) {
		if bytes.Contains(hay, f) {
			return "raw"
		}
		for _, x := range extra {
			if bytes.Contains(x, f) {
				return "inflatable-stream"
			}
		}
	}
	return ""
}

func markerSearch(r *vh.Run) {
	docs := genDocs(r)
	for _, d := range docs {
		plain, err := plainRewrite(d.Bytes, d.ObjStreams)
		if err != nil {
			r.Count("skip:baseline-failed")
			continue
		}
		plainInfl := inflatable(plain)
		lazyN := countLazy(d.Bytes)
		// which markers survive an unencrypted rewrite (the optimizer drops e.g. PieceInfo): only those can leak
		var live []marker
		for _, m := range d.Markers {
			if containsAny(plain, plainInfl, m.Text) != "" {
				live = append(live, m)
			} else {
				r.Count("marker-not-in-plain-rewrite:" + m.Loc)
			}
		}
		for _, a := range algs {
			for _, cross := range []bool{false, true} {
				if cross && !r.Thorough() && a.Len != 128 {
					continue
				}
				osOut := d.ObjStreams != cross
				in := map[string]any{"doc": d.Name, "alg": a.Name, "write-objstreams": osOut}
				enc, err := encryptBytesDoc(d.Bytes, confFor(a, "user", "owner", model.PermissionsPrint, osOut))
				if err != nil {
					r.OracleFail("encrypt-failed", in, err.Error())
					continue
				}
				infl := inflatable(enc)
				for _, m := range live {
					where := containsAny(enc, infl, m.Text)
					r.Count("searched:" + m.Loc)
					switch {
					case m.Identity:
						// the stream's only filter is the Identity crypt filter: not enciphered by definition
						if where != "" {
							r.Count("identity-crypt-filter-stream-in-clear")
						}
						r.OracleOK()
					case m.Sig:
						// signature values may stay in clear (the one exemption inside objects)
						if where != "" {
							r.Count("sig-contents-in-clear")
						}
						r.OracleOK()
					case where == "":
						r.OracleOK()
					default:
						class := "plaintext:" + m.Loc
						if strings.Contains(m.Loc, "crypt-stdcf") {
							// sole filter /Crypt naming a NON-Identity crypt filter: the writer skips it like Identity
							class = "plaintext:sole-crypt-filter-not-identity"
						}
						if lazyN > 0 && strings.HasPrefix(m.Loc, "private-") {
							class = "plaintext:lazy-objstream-member"
						}
						in2 := map[string]any{"doc": d.Name, "alg": a.Name, "write-objstreams": osOut, "marker": m.Text, "location": m.Loc}
						r.OracleFail(class, in2, fmt.Sprintf("marker of %s found %s in the encrypted output", m.Loc, where))
					}
				}
			}
		}
	}
}

// ---- O on sample documents: long strings of the document itself serve as markers ----

func collectStrings(ctx *model.Context, max int) [][]byte {
	var out [][]byte
	seen := map[int]bool{}
	uniq := map[string]bool{}
	var walk func(o types.Object, depth int)
	walk = func(o types.Object, depth int) {
		if depth > 100 || len(out) >= max {
			return
		}
		if ir, ok := o.(types.IndirectRef); ok {
			n := ir.ObjectNumber.Value()
			if seen[n] {
				return
			}
			seen[n] = true
			d, err := ctx.Dereference(ir)
			if err != nil {
				return
			}
			walk(d, depth+1)
			return
		}
		if b, ok := strBytes(o); ok {
			distinct := map[byte]bool{}
			for _, c := range b {
				distinct[c] = true
			}
			if len(b) >= 16 && len(distinct) >= 9 && !uniq[string(b)] {
				uniq[string(b)] = true
				out = append(out, b)
			}
			return
		}
		switch v := o.(type) {
		case types.Dict:
			for _, k := range sortedKeys(v) {
				walk(v[k], depth+1)
			}
		case types.StreamDict:
			for _, k := range sortedKeys(v.Dict) {
				walk(v.Dict[k], depth+1)
			}
		case types.Array:
			for _, x := range v {
				walk(x, depth+1)
			}
		}
	}
	if ctx.Root != nil {
		walk(*ctx.Root, 0)
	}
	if ctx.Info != nil {
		walk(*ctx.Info, 0)
	}
	return out
}

func sortedKeys(d types.Dict) []string {
	ks := make([]string, 0, len(d))
	for k := range d {
		ks = append(ks, k)
	}
	sort.Strings(ks)
	return ks
}

func sampleStringSearch(r *vh.Run) {
	for _, d := range sampleDocs(r) {
		plain, err := plainRewrite(d.Bytes, d.ObjStreams)
		if err != nil {
			r.Count("skip:sample-baseline-failed")
			continue
		}
		ctx, err := readCtx(plain, "", "")
		if err != nil {
			r.Count("skip:sample-read-failed")
			continue
		}
		strs := collectStrings(ctx, 300)
		if len(strs) == 0 {
			r.Count("sample-without-long-strings")
			continue
		}
		lazyN := countLazy(d.Bytes)
		for ai, a := range algs {
			if !r.Thorough() && ai%2 == 0 {
				continue
			}
			enc, err := encryptBytesDoc(d.Bytes, confFor(a, "user", "owner", model.PermissionsPrint, d.ObjStreams))
			if err != nil {
				r.OracleFail("encrypt-failed", map[string]any{"doc": d.Name, "alg": a.Name}, err.Error())
				continue
			}
			infl := inflatable(enc)
			for _, s := range strs {
				r.Count("searched:sample-string")
				hit := bytes.Contains(enc, s)
				for _, x := range infl {
					hit = hit || bytes.Contains(x, s)
				}
				if !hit {
					r.OracleOK()
					continue
				}
				class := "plaintext:sample-document-string"
				if lazyN > 0 {
					class = "plaintext:lazy-objstream-member"
				}
				r.OracleFail(class, map[string]any{"doc": d.Name, "alg": a.Name, "string": vh.Hex(trunc(s))}, "a string of the document is present in clear in the encrypted output")
			}
		}
	}
}


// ---- K: the reader's per-stream decision (crypt filter / empty data / unencrypted metadata) ----

var filterLists = [][]string{nil, {"Crypt"}, {"FlateDecode"}, {"Crypt", "FlateDecode"}, {"FlateDecode", "Crypt"},
	{"Crypt", "ASCIIHexDecode", "FlateDecode"}, {"Crypt", "Crypt"}, {"ASCIIHexDecode"}, {"crypt"}, {"Crypt", "Crypt", "FlateDecode"}}

func readerDispatch(r *vh.Run) {
	n := r.Pick(400, 4000)
	for i := 0; i < n; i++ {
		objNr, gen := 1+r.Rand.Intn(1<<16), r.Rand.Intn(2)
		rev := []int{2, 3}[r.Rand.Intn(2)]
		key := rbytes(r, []int{5, 16}[rev-2])
		fl := filterLists[i%len(filterLists)]
		ty := []string{"", "Metadata", "EmbeddedFile", "XObject", "ObjStm"}[r.Rand.Intn(5)] // not XRef: xref streams never reach this function with a ctx
		emd := r.Rand.Intn(3) != 0
		raw := rbytes(r, []int{0, 1, 16, 40}[r.Rand.Intn(4)])
		d := types.NewDict()
		tree := "D0"
		if ty != "" {
			d["Type"] = types.Name(ty)
			tree = "D1 k" + vh.Hex([]byte("Type")) + " N" + vh.Hex([]byte(ty))
		}
		l := int64(len(raw))
		sd := &types.StreamDict{Dict: d, Raw: clone(raw), StreamLength: &l}
		var fh []string
		for j, f := range fl {
			pf := types.PDFFilter{Name: f}
			if f == "Crypt" && j == 0 && r.Rand.Intn(2) == 0 {
				pf.DecodeParms = types.Dict{"Name": types.Name("Identity")}
			}
			sd.FilterPipeline = append(sd.FilterPipeline, pf)
			fh = append(fh, vh.Hex([]byte(f)))
		}
		ctx, _ := newWriteCtx(objNr, gen, *sd, key, rev)
		ctx.E.Emd = emd
		err := guard(func() error { return pdfcpu.VerifC22SaveDecodedStreamContent(ctx, sd, objNr, gen, false) })
		res := "err"
		if err == nil {
			res = "ok:" + vh.Hex(sd.Raw)
		}
		r.Case("readStream", []string{tree, strings.Join(fh, ","), vh.Hex(raw), vh.Bool(emd), vh.Int(int64(objNr)), vh.Int(int64(gen)), vh.Hex(key), vh.Int(int64(rev))}, res)
		r.Count("class:reader-filters=" + strings.Join(fl, "+"))
	}
}
