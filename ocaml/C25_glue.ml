(* C25 glue: histories of api operations through the extracted model.
   run <prep> <cands> <history>
     prep    : entries "hexpw:hexprepared" or "hexpw:!" (preparation error), separated by ';'
     cands   : hex passwords separated by ','
     history : operations separated by ';'
               E:r:opw:upw:p | D:opw:upw | U:opw:old:new | O:upw:old:new | P:opw:upw:p
   reply: per step "<result>=<probe codes,...>" joined by '|' *)
open Model
open Common

let split c s = String.split_on_char c s

let mk_prep (tbl : string) : n list -> n list option =
  let entries = if tbl = "" then [] else split ';' tbl in
  let assoc = List.map (fun e -> match split ':' e with
    | [k; "!"] -> (String.lowercase_ascii k, None)
    | [k; v] -> (String.lowercase_ascii k, Some (bytes_of_hex v))
    | _ -> failwith ("bad prep entry " ^ e)) entries in
  fun b -> let k = hex_of_bytes b in
    (try List.assoc k assoc with Not_found -> failwith ("prep: no entry for " ^ k))

let parse_op (s : string) : op = match split ':' s with
  | ["E"; r; o; u; p] -> OpEncrypt (n_of_hex r, bytes_of_hex o, bytes_of_hex u, z_of_hex p)
  | ["D"; o; u] -> OpDecrypt (bytes_of_hex o, bytes_of_hex u)
  | ["U"; o; uo; un] -> OpChangeUser (bytes_of_hex o, bytes_of_hex uo, bytes_of_hex un)
  | ["O"; u; oo; on] -> OpChangeOwner (bytes_of_hex u, bytes_of_hex oo, bytes_of_hex on)
  | ["P"; o; u; p] -> OpSetPerms (bytes_of_hex o, bytes_of_hex u, z_of_hex p)
  | _ -> failwith ("bad op " ^ s)

let vres_of = function "ok" -> VOk | "no" -> VNo | "err" -> VErr | s -> failwith ("bad vres " ^ s)

let dispatch fn args = match fn, args with
  | "run", [tbl; cands; hist] ->
    let prep = mk_prep tbl in
    let cs = List.map bytes_of_hex (split ',' cands) in
    let h = if hist = "" then [] else List.map parse_op (split ';' hist) in
    let rep = run_report prep Plain h cs in
    let pc c = match int_of_n c with 0 -> "p" | 1 | 2 -> "o" | k -> string_of_int k in
    String.concat "|" (List.map (fun (r, pr) -> hex_of_n r ^ "=" ^ String.concat "," (List.map pc pr)) rep)
  | "prepared", [tbl; pw] ->
    (* the password bytes of an AES-256 password: Model.prepared127 *)
    (match prepared127 (mk_prep tbl) (bytes_of_hex pw) with Some x -> hex_of_bytes x | None -> "!")
  | "setup_key", [nb; ow; us; pk; be; hp] ->
    (match setup_key (bool_of_str nb) (vres_of ow) (vres_of us) (bool_of_str pk) (bool_of_str be) (bool_of_str hp) with
     | OpenOwner | OpenUser -> "open" | EOwnerRequired -> "owner-required" | EWrongPassword -> "wrong-password"
     | EInvalidPerms -> "invalid-perms" | EPermDenied -> "permission-denied" | EValidate -> "validate"
     | ENotEncrypted -> "not-encrypted" | EEncrypted -> "encrypted")
  | _ -> failwith ("unknown function " ^ fn)
let () = main dispatch
