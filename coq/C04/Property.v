(* C04 -- The CLI never overwrites existing outputs without --force.
   Property theorems only; each is closed by an exact lemma and followed by Print Assumptions.

   FULL STATEMENT (property text): for every command of the generated table, an explicit output
   file that exists, without --force => non-zero exit, refusal message, every file unchanged;
   output directories: non-empty without --force => refused; with --force, or no output named,
   or nothing there => the command proceeds.
   What is proved: exactly that, over the hand model of the guards and the table regenerated
   from the source, EXCEPT two classes for which the negation is proved (findings):
     - "import" reaches no guard at all            (C04_import_unguarded_refuted),
     - "outDir [ outFile ]" commands with an outFile named do not look at the directory
                                                   (C04_dirfile_commands_named_refuted).
   The ..._partial theorems are the statement under the exact complement of those classes. *)
From Coq Require Import String List NArith Bool.
From PV Require Import C04.Model C04.Generated C04.Proofs.
Import ListNotations.
Open Scope string_scope.

(* ---- the guards, for all inputs ---- *)

(* named, exists (file or directory), no --force  =>  refusal with the "existing file" message *)
Theorem C04_guard_refuses : forall s, present s = true ->
  ensureOutputFileAvailable Named false s = Refuse MsgFile.
Proof. exact file_guard_refuses. Qed.
Print Assumptions C04_guard_refuses.

Theorem C04_dir_guard_refuses : ensureOutputDirEmpty Named false NonEmptyDir = Refuse MsgDir.
Proof. exact dir_guard_refuses. Qed.
Print Assumptions C04_dir_guard_refuses.

(* --force, or nothing named ("" / "-"), or nothing there  =>  proceeds *)
Theorem C04_guard_allows : forall n force s,
  force = true \/ n <> Named \/ s = Absent ->
  ensureOutputFileAvailable n force s = Proceed.
Proof. exact file_guard_allows. Qed.
Print Assumptions C04_guard_allows.

Theorem C04_dir_guard_allows : forall n force s,
  force = true \/ n <> Named \/ s = Absent \/ s = EmptyDir ->
  ensureOutputDirEmpty n force s = Proceed.
Proof. exact dir_guard_allows. Qed.
Print Assumptions C04_dir_guard_allows.

(* totality / exactness: the three outcomes partition the inputs *)
Theorem C04_guard_total : forall n force s,
  (ensureOutputFileAvailable n force s = Refuse MsgFile <-> n = Named /\ force = false /\ present s = true)
  /\ (ensureOutputFileAvailable n force s = Fail <-> n = Named /\ force = false /\ s = StatErr)
  /\ (ensureOutputFileAvailable n force s = Proceed <-> n <> Named \/ force = true \/ s = Absent)
  /\ ensureOutputFileAvailable n force s <> Refuse MsgDir.
Proof. exact file_guard_exact. Qed.
Print Assumptions C04_guard_total.

Theorem C04_dir_guard_total : forall n force s,
  (ensureOutputDirEmpty n force s = Refuse MsgDir <-> n = Named /\ force = false /\ s = NonEmptyDir)
  /\ (ensureOutputDirEmpty n force s = Fail <-> n = Named /\ force = false /\ (s = RegFile \/ s = StatErr))
  /\ (ensureOutputDirEmpty n force s = Proceed <-> n <> Named \/ force = true \/ s = Absent \/ s = EmptyDir)
  /\ ensureOutputDirEmpty n force s <> Refuse MsgFile.
Proof. exact dir_guard_exact. Qed.
Print Assumptions C04_dir_guard_total.

(* a run whose guard did not say Proceed performs no file system operation and exits non-zero *)
Theorem C04_refused_run_touches_nothing : forall (FS : Type) d (op : FS -> bool * FS) fs,
  d <> Proceed -> fs_after (run d op fs) = fs /\ exit_nonzero (run d op fs) = true.
Proof. exact run_not_proceed_no_fs_change. Qed.
Print Assumptions C04_refused_run_touches_nothing.

(* ---- the command table regenerated from cmd/pdfcpu/*.go ---- *)

(* every output-taking command other than "import": exactly the guard of its output kind is reached,
   no dispatch is reachable without a guard call before it, the guard is applied to the output
   argument, and only under reviewed conditions *)
Theorem C04_every_output_command_guarded_partial :
  forall r, In r table -> r_path r <> "import" -> guarded r = true.
Proof. exact every_output_command_guarded_partial. Qed.
Print Assumptions C04_every_output_command_guarded_partial.

Theorem C04_import_unguarded_refuted :
  exists r, find is_import table = Some r /\ guarded r = false /\ r_guards r = [] /\
    forall d f j force sd sf sj, decide_row r d f j force sd sf sj = Proceed.
Proof. exact import_unguarded_refuted. Qed.
Print Assumptions C04_import_unguarded_refuted.

(* the property, command by command *)
Theorem C04_file_commands_refuse_partial :
  forall r, In r table -> r_path r <> "import" -> r_kind r = OFile ->
  forall (FS : Type) (op : FS -> bool * FS) fs d j sd sj s, present s = true ->
  run (decide_row r d Named j false sd s sj) op fs = mkOutcome true (Some MsgFile) fs.
Proof. exact rows_file_refuse. Qed.
Print Assumptions C04_file_commands_refuse_partial.

Theorem C04_dir_commands_refuse : forall r, In r table -> r_kind r = ODir ->
  forall (FS : Type) (op : FS -> bool * FS) fs f j sf sj,
  run (decide_row r Named f j false NonEmptyDir sf sj) op fs = mkOutcome true (Some MsgDir) fs.
Proof. exact rows_dir_refuse. Qed.
Print Assumptions C04_dir_commands_refuse.

Theorem C04_dirfile_commands_refuse_partial : forall r, In r table -> r_kind r = ODirFile ->
  forall (FS : Type) (op : FS -> bool * FS) fs j sf sj,
  run (decide_row r Named NoName j false NonEmptyDir sf sj) op fs = mkOutcome true (Some MsgDir) fs.
Proof. exact rows_dirfile_refuse_partial. Qed.
Print Assumptions C04_dirfile_commands_refuse_partial.

Theorem C04_dirfile_commands_named_refuted :
  exists r, In r table /\ r_kind r = ODirFile /\ guarded r = true /\
    exists f j sf sj, decide_row r Named f j false NonEmptyDir sf sj = Proceed.
Proof. exact rows_dirfile_named_refuted. Qed.
Print Assumptions C04_dirfile_commands_named_refuted.

Theorem C04_commands_proceed : forall r, In r table ->
  forall d f j force sd sf sj,
    force = true
    \/ (d <> Named /\ f <> Named /\ j <> Named)
    \/ (sd = Absent /\ sf = Absent /\ sj = Absent) ->
  forall (FS : Type) (op : FS -> bool * FS) fs,
  run (decide_row r d f j force sd sf sj) op fs = mkOutcome (fst (op fs)) None (snd (op fs)).
Proof. exact rows_proceed. Qed.
Print Assumptions C04_commands_proceed.

Theorem C04_file_commands_unnamed_proceed : forall r, In r table -> r_kind r = OFile ->
  forall d f j force sd sf sj, f <> Named ->
  decide_row r d f j force sd sf sj = Proceed.
Proof. exact rows_file_unnamed_proceed. Qed.
Print Assumptions C04_file_commands_unnamed_proceed.

(* the guards' current source text is the text Model.v was transcribed from *)
Theorem C04_guard_sources_as_transcribed :
  src_ensureOutputFileAvailable = expected_src_ensureOutputFileAvailable
  /\ src_ensureOutputDirEmpty = expected_src_ensureOutputDirEmpty
  /\ src_ensureOutputDirOrFileAvailable = expected_src_ensureOutputDirOrFileAvailable.
Proof. exact guard_sources_as_transcribed. Qed.
Print Assumptions C04_guard_sources_as_transcribed.

(* root.go: --force (default false) is bound to the variable the guards read; nothing else assigns it *)
Theorem C04_force_flag_binding : force_flag_ok = true.
Proof. exact force_flag_binding. Qed.
Print Assumptions C04_force_flag_binding.

(* non-vacuity: the table is not empty, has rows of every kind, hypotheses are satisfiable,
   and all three outcomes occur *)
Example C04_nonvacuous :
  (50 <= length table)%nat
  /\ existsb (fun r => match r_kind r with OFile => true | _ => false end) table = true
  /\ existsb (fun r => match r_kind r with ODir => true | _ => false end) table = true
  /\ existsb (fun r => match r_kind r with ODirFile => true | _ => false end) table = true
  /\ existsb (fun r => String.eqb (r_path r) "optimize" && guarded r) table = true
  /\ present RegFile = true
  /\ ensureOutputFileAvailable Named false RegFile = Refuse MsgFile
  /\ ensureOutputFileAvailable Named true RegFile = Proceed
  /\ ensureOutputFileAvailable Named false StatErr = Fail
  /\ ensureOutputDirEmpty Named false RegFile = Fail.
Proof. vm_compute. repeat split; try reflexivity. repeat constructor. Qed.

(* the extracted model used by the correspondence stream answers with the rows of the table *)
Theorem C04_lookup_is_table : forall i d f j force sd sf sj,
  Lookup.decide_idx i d f j force sd sf sj =
  option_map (fun r => decide_row r d f j force sd sf sj) (nth_error table (N.to_nat i))
  /\ Lookup.guarded_idx i = option_map guarded (nth_error table (N.to_nat i)).
Proof. exact lookup_is_table. Qed.
Print Assumptions C04_lookup_is_table.
