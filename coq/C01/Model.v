(* C01 — the staging protocols of pdfcpu, transcribed line by line onto the M-FS model (FS.v).
   No proofs here.  Every definition cites the Go code it follows. *)
From stdpp Require Import gmap.
From Coq Require Import NArith.
From PV Require Import C01.FS.

(* which variable the commit/cleanup decision of a function reads, and whether it is deferred *)
Inductive key := KFlag | KErr | KNone | KAlways.
Inductive action := ACommit | ACleanup | ANothing | ACommitKeep.
(* what runs after the body, given how the body ended:
   KFlag:  defer func() { if !ok { cleanup; return }; commit }()   with `ok = true` the last statement
           of the body: commit iff the body returned nil; cleanup otherwise, also on panic.
   KErr:   defer func() { if err != nil { cleanup; return }; commit }(): the named result err is non-nil
           only when the body RETURNED an error; when the body panics err is still nil: commit.
   KNone:  no defer:  if err := body(); err != nil { return cleanup(err) }; return commit()
           nothing runs when the body panics.
   KAlways: defer func() { err = finish(…, err) }() where `err` is a LOCAL variable that shadows the named
           result (declared by `:=` in a nested block together with the staging file) and is nil when
           the defer is registered: the commit branch runs however the body ended, and its outcome is
           assigned to the local: the function returns what the body returned (pdfcpu.WriteContext). *)
Definition decide (k : key) (r : ctl) : action :=
  match k, r with
  | KAlways, _ => ACommitKeep
  | _, COk => ACommit
  | _, CErr => ACleanup
  | KFlag, CPanic => ACleanup
  | KErr, CPanic => ACommit
  | KNone, CPanic => ANothing
  end.

Definition opt_eqb (a b : option positive) : bool :=
  match a, b with
  | Some x, Some y => Pos.eqb x y
  | None, None => true
  | _, _ => false
  end.

Section Protocols.
Variable fault : plan.
Variable fresh : gmap positive file -> positive.

Notation open_rd := (open_rd fault).
Notation open_excl := (open_excl fault).
Notation create_temp := (create_temp fault fresh).
Notation stat := (stat fault).
Notation chmod := (chmod fault).
Notation write := (write fault).
Notation close := (close fault).
Notation rename := (rename fault).
Notation remove := (remove fault).
Notation close_all := (close_all fault).
Notation body := (body fault).

(* ================= pkg/api/file.go : stagedOutput ================= *)
(* s_out: the open output file; s_tmp: stagedOutput.temporaryFile; s_dest: stagedOutput.destination
   ("" = None); s_ins: the non-nil input files that closeInputs closes, in order *)
Record staged := Staged { s_out : positive; s_tmp : positive; s_dest : option positive; s_ins : list positive }.

(* os.Stat(target); os.Stat("") is a call that fails with ENOENT *)
Definition stat_opt (t : option positive) (w : world) : outcome file :=
  match t with
  | Some p => stat p w
  | None => call fault OpStat 1%positive 1%positive w (fun m => (m, inr ENOENT))
  end.

(* openStagedOutputWithOperations, second half: fi := stat(target); f := createTemp; chmod(f, fi.Mode().Perm());
   on chmod failure errors.Join(err, closeFile(f), removeFile(name)); destination = target in both callers *)
Definition open_tmp (ins : list positive) (target : option positive) (w : world) : outcome staged :=
  match stat_opt target w with
  | Fail e w => Fail e w
  | Done fi w =>
    match create_temp mode_tmp w with
    | Fail e w => Fail e w
    | Done t w =>
      match chmod t (fmode fi) w with
      | Fail e w => let w := world_of (close t w) in
                    let w := world_of (remove t w) in
                    Fail e w
      | Done _ w => Done (Staged t t target ins) w
      end
    end
  end.

(* openStagedOutputWithOperations(input, inFile, outFile, operation, ops) *)
Definition open_staged (ins : list positive) (inF outF : option positive) (w : world) : outcome staged :=
  match outF with
  | Some o =>
    if negb (opt_eqb inF outF) then
      match open_excl o w with
      | Done _ w => Done (Staged o o None ins) w      (* newStagedOutput(…, outFile, …, replaceOut = "") : destination "" *)
      | Fail EEXIST w => open_tmp ins (Some o) w       (* target = outFile; replaceOut = outFile *)
      | Fail e w => Fail e w
      end
    else open_tmp ins inF w
  | None => open_tmp ins inF w
  end.

(* removeFile: os.Remove, ENOENT tolerated; the boolean is `err != nil` *)
Definition remove_file (p : positive) (w : world) : bool * world :=
  let o := remove p w in (remove_failed o, world_of o).

(* stagedOutput.cleanup(processErr): errors.Join(processErr, closeFile(output), closeInputs(), removeFile(temporaryFile)) *)
Definition cleanup (s : staged) (w : world) : world :=
  let w := world_of (close (s_out s) w) in
  let '(_, w) := close_all (s_ins s) w in
  snd (remove_file (s_tmp s) w).

(* stagedOutput.commit() *)
Definition commit (s : staged) (w : world) : ctl * world :=
  match close (s_out s) w with
  | Fail _ w =>
      let '(_, w) := close_all (s_ins s) w in
      (CErr, snd (remove_file (s_tmp s) w))
  | Done _ w =>
      let '(bad, w) := close_all (s_ins s) w in
      if bad then
        match s_dest s with
        | Some _ => (CErr, snd (remove_file (s_tmp s) w))
        | None => (CErr, w)                               (* `return err` : the new output stays *)
        end
      else
        match s_dest s with
        | None => (COk, w)
        | Some d =>
          match rename (s_tmp s) d w with
          | Fail _ w => (CErr, snd (remove_file (s_tmp s) w))
          | Done _ w => (COk, w)
          end
        end
  end.

(* f1, err = os.Open(inFile1); f2, err = os.Open(inFile2) { _ = f1.Close() } … *)
Fixpoint open_all (opened todo : list positive) (w : world) : bool * world :=
  match todo with
  | [] => (false, w)
  | p :: ps => match open_rd p w with
               | Fail _ w => (true, snd (close_all (rev opened) w))
               | Done _ w => open_all (p :: opened) ps w
               end
  end.

(* The skeleton of every single-output *File function of pkg/api (TrimFile, OptimizeFile, …,
   MergeCreateFile with ins = [] and inF = None, MergeCreateZipFile with two inputs):
     open the inputs; tmpFile := outFile if outFile != "" && inFile != outFile else "";
     staged, err := openStagedOutput(f1, inFile, tmpFile, op); on error close the inputs;
     defer func() { if <key> { err = staged.cleanup(err); return }; err = staged.commit() }()   (see `decide`)
     body (writes into staged.output.file); ok = true *)
Definition api_file (k : key) (ins : list positive) (inF outF : option positive)
           (chunks : list bytes) (fin : ctl) (w : world) : ctl * world :=
  match open_all [] ins w with
  | (true, w) => (CErr, w)
  | (false, w) =>
    let tmpFile := match outF with
                   | Some _ => if negb (opt_eqb inF outF) then outF else None
                   | None => None end in
    match open_staged ins inF tmpFile w with
    | Fail _ w => (CErr, snd (close_all ins w))
    | Done s w =>
        with_defer (body (s_out s) chunks fin)
                   (fun r w => match decide k r with
                               | ACommit => commit s w
                               | ACleanup => (CErr, cleanup s w)
                               | ANothing => (r, w)
                               | ACommitKeep => (r, snd (commit s w))
                               end) w
    end
  end.

(* ================= pkg/pdfcpu/io.go : createStagedFile / finishStagedFile ================= *)
(* createStagedFile(path): openStagedFile (O_RDWR|O_CREATE|O_EXCL, 0666, a random name that does not
   exist: retried on ErrExist); `if fi, err := os.Stat(path); err == nil { f.Chmod(fi.Mode().Perm()) }`
   (a failing stat is ignored); on chmod failure errors.Join(err, f.Close(), os.Remove(name)) *)
Definition create_staged_file (path : positive) (w : world) : outcome positive :=
  match create_temp mode_new w with
  | Fail e w => Fail e w
  | Done t w =>
    match stat path w with
    | Fail _ w => Done t w
    | Done fi w =>
      match chmod t (fmode fi) w with
      | Fail e w => let w := world_of (close t w) in
                    let w := world_of (remove t w) in
                    Fail e w
      | Done _ w => Done t w
      end
    end
  end.

(* finishStagedFile(path, w, writeErr, closeInput, replace, remove):
   closeErr := w.Close(); inputErr := closeInput();
   if errors.Join(writeErr, closeErr, inputErr) != nil { remove(tmp) (ENOENT tolerated); return err }
   if replace(tmp, path) fails { remove(tmp); return err }; return nil *)
Definition finish_staged_file (path t : positive) (writeErr : bool) (input : option positive) (w : world) : ctl * world :=
  let o := close t w in
  let w := world_of o in
  let '(inErr, w) := match input with
                     | Some i => let o2 := close i w in (failed o2, world_of o2)
                     | None => (false, w) end in
  if writeErr || failed o || inErr then (CErr, snd (remove_file t w))
  else match rename t path w with
       | Fail _ w => (CErr, snd (remove_file t w))
       | Done _ w => (COk, w)
       end.

(* The write path of pkg/pdfcpu:
     WriteContext (write.go), file path:  file := createStagedFile(fileName);
         defer func() { err = finishWriteFile(file, fileName, err) }()            — k = KErr, input = None
     writeReader (io.go): w := createTemp(path); io.Copy(w, r); return finishStagedFile(path, w, writeErr, nil, …)
                                                                                   — k = KNone, input = None
     CopyFile(src, dest, overwrite = true): from := os.Open(src); from.Stat(); os.Stat(dest);
         to := createStagedFile(dest) (on error from.Close()); io.Copy(to, from);
         return finishStagedFile(dest, to, copyErr, closeInput, …)                 — k = KNone, input = Some src
   The decision is `decide k r`: ACommit = finishStagedFile with writeErr == nil, ACleanup = with writeErr != nil. *)
Definition pdf_staged (k : key) (input : option positive) (path : positive)
           (chunks : list bytes) (fin : ctl) (w : world) : ctl * world :=
  match (match input with
         | Some i => match open_rd i w with
                     | Fail e w => Fail e w
                     | Done _ w => let w := world_of (stat i w) in
                                   let w := world_of (stat path w) in
                                   Done tt w
                     end
         | None => Done tt w end) with
  | Fail _ w => (CErr, w)
  | Done _ w =>
    match create_staged_file path w with
    | Fail _ w => (CErr, match input with Some i => world_of (close i w) | None => w end)
    | Done t w =>
        with_defer (body t chunks fin)
                   (fun r w => match decide k r with
                               | ACommit => finish_staged_file path t false input w
                               | ACleanup => finish_staged_file path t true input w
                               | ANothing => (r, w)
                               | ACommitKeep => (r, snd (finish_staged_file path t false input w))
                               end) w
    end
  end.

(* pkg/pdfcpu/io.go writeNewFile(rd, filePath): O_EXCL create (ErrExist: (false, nil), nothing written);
   io.Copy; Close; on error errors.Join(err, os.Remove(filePath)).  No defer: nothing runs on panic. *)
Definition write_new_file (path : positive) (chunks : list bytes) (fin : ctl) (w : world) : ctl * world :=
  match open_excl path w with
  | Fail EEXIST w => (COk, w)
  | Fail _ w => (CErr, w)
  | Done _ w =>
      with_defer (body path chunks fin)
                 (fun r w => match r with
                             | CPanic => (r, w)
                             | _ => let o := close path w in
                                    match r, failed o with
                                    | COk, false => (COk, world_of o)
                                    | _, _ => (CErr, world_of (remove path (world_of o)))
                                    end
                             end) w
  end.

(* ================= pkg/api/form.go : form multi-fill, a multi-output transaction ================= *)
(* rollbackMultiFillOutputs(outFiles): removeFile for every recorded file, all attempted (errors joined) *)
Fixpoint rollback (outs : list positive) (w : world) : bool * world :=
  match outs with
  | [] => (false, w)
  | p :: ps => let '(b1, w1) := remove_file p w in
               let '(b2, w2) := rollback ps w1 in
               (b1 || b2, w2)
  end.

(* one record of the data file: how its validation / filling ended before any output was opened
   (p_early: an option value that is not among the options, no field affected, a panic, ...), the output
   file of this record, what is written into it and how that write ends *)
Record part := Part { p_early : ctl; p_out : positive; p_chunks : list bytes; p_fin : ctl }.

(* the record loop of multiFillFormJSONWith / multiFillFormCSVWith:
     for each record { outFile, fillErr := multiFillJSONForm / multiFillCSVRecord(...)   -- fill, then
                          writeMultiFillOutputWith = openStagedOutput(nil, "", outFile); writeContext; cleanup | commit
                       if outFile != "" { outFiles = append(outFiles, outFile) }; if fillErr != nil { return fillErr } }
   k is the key of writeMultiFillOutputWith (from the table; not deferred today: KNone) *)
Fixpoint fill_loop (k : key) (parts : list part) (done : list positive) (w : world) : ctl * list positive * world :=
  match parts with
  | [] => (COk, done, w)
  | p :: ps =>
      match p_early p with
      | COk =>
          match api_file k [] None (Some (p_out p)) (p_chunks p) (p_fin p) w with
          | (COk, w') => fill_loop k ps (done ++ [p_out p]) w'
          | (r, w') => (r, done, w')
          end
      | r => (r, done, w)
      end
  end.

(* multiFillFormJSONWith / multiFillFormCSVWith(…, merge, …):
     var outFiles []string
     if merge { defer func() { err = errors.Join(err, rollbackMultiFillOutputs(outFiles)) }() }   -- before the loop
     record loop
     if merge { return mergeForms(…) = MergeCreateFile(outFiles, final) }                        -- flag-keyed *File skeleton
   The deferred rollback runs on every exit of a merge-mode run: error, panic and success (the parts are
   intermediates then).  In non-merge mode nothing is rolled back. *)
Definition multi_fill (merge : bool) (k : key) (parts : list part) (final : positive)
           (mchunks : list bytes) (mfin : ctl) (w : world) : ctl * world :=
  let '(r, done, w1) := fill_loop k parts [] w in
  if merge then
    let '(r2, w2) := match r with
                     | COk => api_file KFlag [] None (Some final) mchunks mfin w1
                     | _ => (r, w1)
                     end in
    let '(bad, w3) := rollback done w2 in
    (match r2 with
     | CPanic => CPanic
     | CErr => CErr
     | COk => if bad then CErr else COk
     end, w3)
  else (r, w1).

(* ================= pkg/api/attach.go : attachment extraction with output reservations ================= *)
(* one attachment: its hidden reservation marker `.<name>.pdfcpu-reservation-<token>`, its output path, what
   is written and how that write ends *)
Record att := Att { a_mark : positive; a_out : positive; a_chunks : list bytes; a_fin : ctl }.

(* os.OpenFile(reservationPath, O_WRONLY|O_CREATE|O_EXCL, 0o600) *)
Definition reserve_one (p : positive) (w : world) : outcome unit :=
  call fault OpOpenExcl p p w (fun m => match m !! p with
                                        | Some _ => (m, inr EEXIST)
                                        | None => (<[p := File [] mode_tmp]> m, inl tt) end).

(* reserveAttachmentOutputs: reserve marker after marker; EVERY error return hands the list reserved so far
   (rr) to the caller.  On ErrExist attachmentReservationConflictID stats the marker and the reservations
   (read-only calls; modelled as one stat of the marker and one per reservation).
   Result: (failed?, rr, world). *)
Fixpoint reserve_all (aa : list att) (rr : list positive) (w : world) : bool * list positive * world :=
  match aa with
  | [] => (false, rr, w)
  | a :: rest =>
      match reserve_one (a_mark a) w with
      | Done _ w' => reserve_all rest (rr ++ [a_mark a]) w'
      | Fail EEXIST w' =>
          let w1 := world_of (stat (a_mark a) w') in
          (true, rr, fold_left (fun wx p => world_of (stat p wx)) rr w1)
      | Fail _ w' => (true, rr, w')
      end
  end.

(* releaseAttachmentOutputReservations(rr): closeFile + removeFile for every reservation, all attempted *)
Fixpoint release_all (rr : list positive) (w : world) : bool * world :=
  match rr with
  | [] => (false, w)
  | p :: ps => let o := close p w in
               let '(b1, w1) := remove_file p (world_of o) in
               let '(b2, w2) := release_all ps w1 in
               (failed o || b1 || b2, w2)
  end.

(* writeAttachments(outDir, aa):
     rr, err := reserveAttachmentOutputs(paths, aa)
     if err != nil { return errors.Join(err, releaseAttachmentOutputReservations(rr)) }
     defer func() { err = errors.Join(err, releaseAttachmentOutputReservations(rr)) }()
     for each attachment { writeAttachmentToPath = openStagedOutput(nil, "", path); io.Copy; cleanup | commit  (key k) }
   The write loop is `fill_loop` (no early failure, nothing recorded for a rollback: earlier outputs stay). *)
Definition att_part (a : att) : part := Part COk (a_out a) (a_chunks a) (a_fin a).
Definition extract_attachments (k : key) (aa : list att) (w : world) : ctl * world :=
  let '(failed, rr, w1) := reserve_all aa [] w in
  if failed then (CErr, snd (release_all rr w1))
  else
    let '(r, _, w2) := fill_loop k (map att_part aa) [] w1 in
    let '(bad, w3) := release_all rr w2 in
    (match r with
     | CPanic => CPanic
     | CErr => CErr
     | COk => if bad then CErr else COk
     end, w3).

End Protocols.

(* ---------- entry points for the correspondence harness (extracted) ---------- *)
Definition plan_of (n : option nat) : plan := match n with Some k => single k | None => nofault end.

Definition fs_of_list (l : list (positive * file)) : gmap positive file := list_to_map l.
Definition fs_to_list (m : gmap positive file) : list (positive * file) := map_to_list m.

(* the temp-name supply of the extracted runs: unused, and never one of the harness's fixed names (< 16) *)
Definition fresh_hi (m : gmap positive file) : positive := Pos.max 16%positive (fresh_path m).

Definition run_api (n : option nat) (k : key) (ins : list positive) (inF outF : option positive)
           (init : list (positive * file)) (chunks : list bytes) (fin : ctl) : ctl * world :=
  api_file (plan_of n) fresh_hi k ins inF outF chunks fin (W (fs_of_list init) 0 []).

Definition run_pdf (n : option nat) (k : key) (input : option positive) (path : positive)
           (init : list (positive * file)) (chunks : list bytes) (fin : ctl) : ctl * world :=
  pdf_staged (plan_of n) fresh_hi k input path chunks fin (W (fs_of_list init) 0 []).
Definition run_newfile (n : option nat) (path : positive)
           (init : list (positive * file)) (chunks : list bytes) (fin : ctl) : ctl * world :=
  write_new_file (plan_of n) path chunks fin (W (fs_of_list init) 0 []).
