(* C12 — String escaping and name encoding are lossless.
   Hand-written executable model of pkg/pdfcpu/types/string.go:
     Escape, escaped, regularChar, ByteForOctalString, Unescape,
     needsHexSequence, EncodeName, DecodeName
   and of the scanner the literal-string parser relies on,
     pkg/pdfcpu/model/parse.go: balancedParenthesesPrefix, parseStringLiteral.
   Bytes are N (well-formed: < 256), byte strings are list N.  No proofs here. *)
From Coq Require Import NArith ZArith List Bool.
From PV Require Import Lib.GoInt.
Import ListNotations.
Open Scope N_scope.

Definition bytes := list N.
Definition bytes_ok (s : bytes) : bool := forallb (fun b => b <? 256) s.

(* linear-time reversal of a reversed accumulator (List.rev is quadratic when extracted) *)
Definition revl (l : bytes) : bytes := rev_append l [].

(* ------------------------------------------------------------------ Escape *)

(* string.go:Escape, loop body: the switch maps the five control characters to
   their letter, keeps '\\' '(' ')' and writes '\\' c; every other byte is
   written unchanged. *)
Definition esc1 (c : N) : bytes :=
  if c =? 10 then [92; 110]        (* 0x0A -> \n *)
  else if c =? 13 then [92; 114]   (* 0x0D -> \r *)
  else if c =? 9 then [92; 116]    (* 0x09 -> \t *)
  else if c =? 8 then [92; 98]     (* 0x08 -> \b *)
  else if c =? 12 then [92; 102]   (* 0x0C -> \f *)
  else if (c =? 92) || (c =? 40) || (c =? 41) then [92; c]
  else [c].

(* string.go:Escape (the error result is always nil) *)
Definition Escape (s : bytes) : bytes := flat_map esc1 s.

(* ---------------------------------------------------------------- Unescape *)

(* state of the loop in string.go:Unescape; [out] is the buffer b, reversed *)
Record ust := { esc : bool; longEol : bool; octal : bytes; out : bytes }.

Definition is_oct (c : N) : bool := (48 <=? c) && (c <=? 55).   (* strings.ContainsRune("01234567", c) *)

(* string.go:ByteForOctalString on 1..3 octal digits: ParseUint(s, 8, 16) & 0xff *)
Definition octval (o : bytes) : N :=
  (fold_left (fun a d => a * 8 + (d - 48)) o 0) mod 256.

(* string.go:escaped *)
Definition escaped (c : N) : bool * N :=
  if c =? 110 then (false, 10) else if c =? 114 then (false, 13) else if c =? 116 then (false, 9)
  else if c =? 98 then (false, 8) else if c =? 102 then (false, 12)
  else if is_oct c then (true, c) else (false, c).

Inductive ures := R (s : ust) | ErrOct.

(* one iteration of the for loop of string.go:Unescape *)
Definition ustep (s : ust) (c : N) : ures :=
  (* if longEol { esc = false; longEol = false; if c == 0x0A { continue } } *)
  let '(s, skip) :=
    if longEol s then
      let s' := {| esc := false; longEol := false; octal := octal s; out := out s |} in
      if c =? 10 then (s', true) else (s', false)
    else (s, false) in
  if skip then R s else
  (* if len(octalCode) > 0 { ... } *)
  let '(s, done) :=
    match octal s with
    | [] => (s, false)
    | oc =>
      if is_oct c then
        let oc' := oc ++ [c] in
        if (N.of_nat (length oc') =? 3) then
          ({| esc := false; longEol := longEol s; octal := []; out := octval oc' :: out s |}, true)
        else ({| esc := esc s; longEol := longEol s; octal := oc'; out := out s |}, true)
      else ({| esc := false; longEol := longEol s; octal := []; out := octval oc :: out s |}, false)
    end in
  if done then R s else
  (* if regularChar(c, esc) { b.WriteByte(c); continue } *)
  if negb (c =? 92) && negb (esc s)
  then R {| esc := esc s; longEol := longEol s; octal := octal s; out := c :: out s |} else
  (* if c == 0x5c { ... continue } *)
  if c =? 92 then
    if negb (esc s) then R {| esc := true; longEol := longEol s; octal := octal s; out := out s |}
    else match octal s with
         | [] => R {| esc := false; longEol := longEol s; octal := []; out := c :: out s |}
         | _ => ErrOct       (* "illegal \\ in octal code sequence" *)
         end
  else
  (* \eol *)
  if c =? 10 then R {| esc := false; longEol := longEol s; octal := octal s; out := out s |} else
  if c =? 13 then R {| esc := esc s; longEol := true; octal := octal s; out := out s |} else
  let '(o, c') := escaped c in
  if o then R {| esc := esc s; longEol := longEol s; octal := octal s ++ [c']; out := out s |}
  else R {| esc := false; longEol := longEol s; octal := octal s; out := c' :: out s |}.

Fixpoint urun (s : ust) (l : bytes) : option ust :=
  match l with
  | [] => Some s
  | c :: l' => match ustep s c with R s' => urun s' l' | ErrOct => None end
  end.

(* after the loop: a pending octal code is flushed *)
Definition ufinish (s : ust) : bytes :=
  revl (match octal s with [] => out s | oc => octval oc :: out s end).

Definition uinit : ust := {| esc := false; longEol := false; octal := []; out := [] |}.

(* string.go:Unescape *)
Definition Unescape (l : bytes) : res bytes :=
  match urun uinit l with Some s => Ok (ufinish s) | None => Err end.

(* ------------------------------------- the literal-string scanner (parser) *)

(* parse.go:balancedParenthesesPrefix; i = loop index, j = nesting counter *)
Fixpoint balLoop (i j : Z) (escd : bool) (l : bytes) : Z :=
  match l with
  | [] => (-1)%Z
  | c :: r =>
    if negb escd && (c =? 92) then balLoop (i + 1)%Z j true r
    else if escd then balLoop (i + 1)%Z j false r
    else
      let j1 := if c =? 40 then (j + 1)%Z else j in
      let j2 := if c =? 41 then (j1 - 1)%Z else j1 in
      if (j2 =? 0)%Z then i else balLoop (i + 1)%Z j2 false r
  end.
Definition balancedParenthesesPrefix (l : bytes) : Z := balLoop 0%Z 0%Z false l.

(* parse.go:parseStringLiteral: Ok (literal between the parentheses, rest of the buffer) *)
Definition parseStringLiteral (l : bytes) : res (bytes * bytes) :=
  match l with
  | 40 :: _ :: _ =>
    let i := balancedParenthesesPrefix l in
    if (i <? 0)%Z then Err
    else Ok (skipn 1 (firstn (Z.to_nat i) l), skipn (Z.to_nat i + 1) l)
  | _ => Err
  end.

(* the property of an escaped literal that the scanner relies on: read left to
   right, a backslash escapes the next byte; no '(' or ')' occurs unescaped and
   the text does not end inside an escape *)
Fixpoint parensEscaped (escd : bool) (l : bytes) : bool :=
  match l with
  | [] => negb escd
  | c :: r =>
    if escd then parensEscaped false r
    else if c =? 92 then parensEscaped true r
    else negb (c =? 40) && negb (c =? 41) && parensEscaped false r
  end.

(* ------------------------------------------------------------- name coding *)

Definition isDelimiter (c : N) : bool :=
  (c =? 40) || (c =? 41) || (c =? 60) || (c =? 62) || (c =? 91) || (c =? 93)
  || (c =? 123) || (c =? 125) || (c =? 47) || (c =? 37).

(* string.go:needsHexSequence *)
Definition needsHexSequence (c : N) : bool :=
  if isDelimiter c || (c =? 35) then true
  else (c <? 33) || (126 <? c).

(* encoding/hex: hextable = "0123456789abcdef" *)
Definition hexdig (v : N) : N := if v <? 10 then 48 + v else 87 + v.

(* encoding/hex: fromHexChar *)
Definition unhex (c : N) : option N :=
  if (48 <=? c) && (c <=? 57) then Some (c - 48)
  else if (97 <=? c) && (c <=? 102) then Some (c - 87)
  else if (65 <=? c) && (c <=? 70) then Some (c - 55)
  else None.

(* loop of string.go:EncodeName.  preR = s[:i] reversed, sbR = sb reversed. *)
Fixpoint encLoop (preR : bytes) (replaced : bool) (sbR : bytes) (l : bytes) : bool * bytes :=
  match l with
  | [] => (replaced, sbR)
  | ch :: r =>
    if needsHexSequence ch then
      let sb1 := if replaced then sbR else preR ++ sbR in     (* if !replaced { sb.WriteString(s[:i]) } *)
      encLoop (ch :: preR) true (hexdig (ch mod 16) :: hexdig (ch / 16) :: 35 :: sb1) r
    else
      encLoop (ch :: preR) replaced (if replaced then ch :: sbR else sbR) r
  end.

(* string.go:EncodeName *)
Definition EncodeName (s : bytes) : bytes :=
  let '(replaced, sbR) := encLoop [] false [] s in
  if replaced then revl sbR else s.

Inductive derr := ENul | EShort | EHex.
Inductive dres := DOk (b : bytes) | DErr (e : derr).

(* loop of string.go:DecodeName; `i += 2` is the nested match on the two bytes after '#' *)
Fixpoint decLoop (preR : bytes) (replaced : bool) (sbR : bytes) (l : bytes) : derr + bool * bytes :=
  match l with
  | [] => inr (replaced, sbR)
  | c :: r =>
    if c =? 0 then inl ENul
    else if negb (c =? 35) then decLoop (c :: preR) replaced (if replaced then c :: sbR else sbR) r
    else
      match r with
      | h1 :: h2 :: r' =>
        match unhex h1, unhex h2 with                            (* hex.DecodeString(s[i+1:i+3]) *)
        | Some a, Some b =>
          let d := a * 16 + b in
          if d =? 0 then inl ENul
          else
            let sb1 := if replaced then sbR else preR ++ sbR in (* if !replaced { sb.WriteString(s[:i]) } *)
            decLoop (h2 :: h1 :: c :: preR) true (d :: sb1) r'
        | _, _ => inl EHex
        end
      | _ => inl EShort                                (* len(s) < i+3 *)
      end
  end.

(* string.go:DecodeName *)
Definition DecodeName (s : bytes) : dres :=
  match decLoop [] false [] s with
  | inl e => DErr e
  | inr (replaced, sbR) => DOk (if replaced then revl sbR else s)
  end.

(* the shape the property demands of an encoded name: regular printable
   characters other than delimiters, '#' only as the introducer of two hex digits *)
Definition regularNameChar (c : N) : bool :=
  (33 <=? c) && (c <=? 126) && negb (isDelimiter c) && negb (c =? 35).
Definition isHexDigit (c : N) : bool := match unhex c with Some _ => true | None => false end.
Fixpoint nameWF (l : bytes) : bool :=
  match l with
  | [] => true
  | c :: r =>
    if c =? 35 then
      match r with
      | h1 :: h2 :: r' => isHexDigit h1 && isHexDigit h2 && nameWF r'
      | _ => false
      end
    else regularNameChar c && nameWF r
  end.
