(* C27 — definitions on top of the shared signed-byte-range model (coq/C28/Model.v, which
   transcribes signedData / bytesForByteRange / validateContentsGap of pkg/pdfcpu/sign/sign.go).
   No proofs. *)
From Coq Require Import ZArith NArith List Bool.
From PV Require Import Lib.GoInt C28.Generated C28.Model.
Import ListNotations.
Open Scope Z_scope.

(* the byte of f at offset i *)
Definition byteAt (f : list N) (i : Z) : N := nth (Z.to_nat i) f 0%N.

(* offset i lies inside one of the two signed ranges of /ByteRange arr *)
Definition inSigned (arr : list Z) (i : Z) : Prop :=
  match arr with
  | [o1; l1; o2; l2] => (o1 <= i < o1 + l1) \/ (o2 <= i < o2 + l2)
  | _ => False
  end.

(* offset i lies inside the excluded gap *)
Definition inGap (arr : list Z) (i : Z) : Prop :=
  match arr with
  | [o1; l1; o2; l2] => o1 + l1 <= i < o2
  | _ => False
  end.

(* What every SubFilter handler does with the signed bytes: signedData must succeed and the
   digest of its result is compared with the digest protected by the signature value
   (pkcs7.VerifyMessageDigestDetached / VerifyMessageDigestEmbedded / sha1+rsa.VerifyPKCS1v15).
   [digest] is the external hash function. *)
Definition accepts (digest : list N -> list N) (f : list N) (arr : list Z)
    (contents : option (list N)) (signedDigest : list N) : Prop :=
  exists d, signedData f arr contents = Ok d /\ digest d = signedDigest.
