(* C16 / C15 — executable model of pdfcpu's stream filters (pkg/filter) and of the
   StreamDict filter pipeline (pkg/pdfcpu/types/streamdict.go).  No proofs here.

   Conventions: bytes are N, Go ints / int64 are Z (all lengths here are far below 2^62, the
   "length overflow" guards of asciiHexDecode are therefore not modelled), nat is used for fuel,
   run counters (<= 128) and row lengths only.

   External code (not modelled, passed as function arguments so that the theorems quantify over
   it): the zlib / LZW / ASCII85 stream decoders.  A decoder applied to its input is represented
   by what an io.Reader can deliver: the bytes it yields and how the stream ends (rstream). *)
From Coq Require Import ZArith NArith List Bool.
Import ListNotations.
Open Scope Z_scope.

(* ------------------------------------------------------------------ results *)

Inductive derr :=
| ELimit      (* filter.ErrDecodeLimitExceeded *)
| EEOF        (* io.EOF (io.CopyN: fewer bytes than requested) *)
| EUnexpEOF   (* io.ErrUnexpectedEOF *)
| EOther      (* any other error *)
| EFuel.      (* model artefact: fuel exhausted; proved unreachable *)

Inductive dres := DOk (l : list N) | DErr (e : derr).

Definition dcons (x : N) (r : dres) : dres := match r with DOk l => DOk (x :: l) | DErr e => DErr e end.
Definition dapp (p : list N) (r : dres) : dres := match r with DOk l => DOk (p ++ l) | DErr e => DErr e end.

Definition len (l : list N) : Z := Z.of_nat (length l).
Definition take (n : Z) (l : list N) : list N := firstn (Z.to_nat n) l.

(* ------------------------------------------------------------------ filter.go *)

Definition default_max : Z := 536870912.          (* DefaultMaxDecodeBytes = 512 << 20 *)
Definition max_int64 : Z := 9223372036854775807.

(* baseFilter.decodeLimit *)
Definition decode_limit (maxLen mdb : Z) : Z :=
  if 0 <=? maxLen then maxLen else if mdb =? 0 then default_max else mdb.

(* How a decoder's output stream ends: clean EOF, io.ErrUnexpectedEOF, any other error. *)
Inductive rstatus := REof | RUnexp | RErr.
Definition rstream := (list N * rstatus)%type.

Definition st_err (st : rstatus) : option derr :=
  match st with REof => None | RUnexp => Some EUnexpEOF | RErr => Some EOther end.

(* baseFilter.copyDecoded: returns (buffer contents, error).  The reader is assumed to report
   its terminal error by a separate Read call (n = 0), as bytes.Reader/zlib/lzw/ascii85 do. *)
Definition copy_decoded (s : rstream) (maxLen mdb : Z) : list N * option derr :=
  let (data, st) := s in
  if 0 <=? maxLen then
    (* io.CopyN(&b, r, maxLen) *)
    if maxLen <=? len data then (take maxLen data, None)
    else (data, Some (match st with REof => EEOF | RUnexp => EUnexpEOF | RErr => EOther end))
  else
    let limit := decode_limit maxLen mdb in
    if (limit <? 0) || (limit =? max_int64) then (data, st_err st)
    else
      (* io.Copy from LimitedReader{N: limit+1}; then b.Len() > limit *)
      if limit + 1 <=? len data then ([], Some ELimit)
      else (data, st_err st).

Definition of_copy (r : list N * option derr) : dres :=
  match r with (b, None) => DOk b | (_, Some e) => DErr e end.

(* ------------------------------------------------------------------ asciiHexDecode.go *)

Definition is_ws (b : N) : bool :=
  ((b =? 9) || (b =? 10) || (b =? 12) || (b =? 13) || (b =? 32))%N.

(* "Remove any white space and cut off on eod" *)
Fixpoint ahx_strip (bb : list N) : list N :=
  match bb with
  | [] => []
  | b :: r => if (b =? 62)%N then [] else if is_ws b then ahx_strip r else b :: ahx_strip r
  end.

(* encoding/hex: reverseHexTable *)
Definition hexval (c : N) : option N :=
  if ((48 <=? c) && (c <=? 57))%N then Some (c - 48)%N
  else if ((97 <=? c) && (c <=? 102))%N then Some (c - 87)%N
  else if ((65 <=? c) && (c <=? 70))%N then Some (c - 55)%N
  else None.

(* encoding/hex.Decode on an even-length source *)
Fixpoint hex_decode (p : list N) : option (list N) :=
  match p with
  | a :: b :: r =>
    match hexval a, hexval b with
    | Some x, Some y => match hex_decode r with Some d => Some ((x * 16 + y)%N :: d) | None => None end
    | _, _ => None
    end
  | _ => Some []
  end.

Definition ahx_finish (p : list N) (n : Z) : dres :=
  match hex_decode (take (2 * n) p) with Some d => DOk d | None => DErr EOther end.

(* asciiHexDecode.DecodeLength *)
Definition ahx_decode_length (bb : list N) (maxLen mdb : Z) : dres :=
  let p0 := ahx_strip bb in
  let p := if Z.odd (len p0) then p0 ++ [48%N] else p0 in
  let decodedLen := len p / 2 in
  if maxLen <? 0 then
    let limit := decode_limit (-1) mdb in
    if (0 <=? limit) && (limit <? decodedLen) then DErr ELimit else ahx_finish p decodedLen
  else if decodedLen <? maxLen then DErr EUnexpEOF
  else ahx_finish p maxLen.

Definition hexdigit (d : N) : N := if (d <? 10)%N then (48 + d)%N else (87 + d)%N.

(* asciiHexDecode.Encode: hex.Encode (lower case) + '>' *)
Fixpoint hex_encode (bb : list N) : list N :=
  match bb with
  | [] => []
  | b :: r => hexdigit (b / 16) :: hexdigit (b mod 16) :: hex_encode r
  end.
Definition ahx_encode (bb : list N) : list N := hex_encode bb ++ [62%N].

(* ------------------------------------------------------------------ runLengthDecode.go *)

Inductive stop := GoOn | StopOk | StopErr.

(* the inner "for range c { limit check; w.WriteByte(src[i]); written++ }" of a repeat run *)
Fixpoint rl_rep (c : nat) (x : N) (written limit maxLen : Z) : list N * stop :=
  match c with
  | O => ([], GoOn)
  | S c' =>
    if (0 <=? limit) && (limit =? written) then ([], if 0 <=? maxLen then StopOk else StopErr)
    else let (l, s) := rl_rep c' x (written + 1) limit maxLen in (x :: l, s)
  end.

(* runLengthDecode.decode.  k > 0: inside the copy loop of a literal run with k bytes to go
   (the availability of these bytes was checked when the run started). *)
Fixpoint rl_dec (src : list N) (k : nat) (written limit maxLen : Z) : dres :=
  match src with
  | [] => DOk []
  | b :: rest =>
    match k with
    | S k' =>
      if (0 <=? limit) && (limit =? written) then (if 0 <=? maxLen then DOk [] else DErr ELimit)
      else dcons b (rl_dec rest k' (written + 1) limit maxLen)
    | O =>
      if (b =? 128)%N then DOk []                                   (* eod *)
      else if (b <? 128)%N then
        let c := S (N.to_nat b) in
        if (length rest <? c)%nat then DErr EUnexpEOF               (* len(src)-i < c *)
        else rl_dec rest c written limit maxLen
      else
        match rest with
        | [] => DErr EUnexpEOF                                      (* i >= len(src) *)
        | x :: rest' =>
          let (l, s) := rl_rep (257 - N.to_nat b) x written limit maxLen in
          match s with
          | GoOn => dapp l (rl_dec rest' O (written + len l) limit maxLen)
          | StopOk => DOk l
          | StopErr => DErr ELimit
          end
        end
    end
  end.

(* runLengthDecode.DecodeLength *)
Definition rl_decode_length (src : list N) (maxLen mdb : Z) : dres :=
  rl_dec src O 0 (decode_limit maxLen mdb) maxLen.

(* detect(i, start, maxLen=0x80, b, src): returns i - start; l is src[i:], cnt is i - start *)
Fixpoint detect (b : N) (l : list N) (cnt : nat) : nat :=
  match l with
  | x :: r => if (x =? b)%N && (cnt <? 128)%nat then detect b r (S cnt) else cnt
  | [] => cnt
  end.

(* "for i < len(src) && src[i] != b && (i-start < maxLen) { b = src[i]; i++ }" *)
Fixpoint varscan (b : N) (l : list N) (cnt : nat) : nat :=
  match l with
  | x :: r => if negb (x =? b)%N && (cnt <? 128)%nat then varscan x r (S cnt) else cnt
  | [] => cnt
  end.

(* The outer loop of runLengthDecode.encode; l is src[start:] (i = start at every loop head). *)
Fixpoint rl_enc_loop (fuel : nat) (l : list N) : option (list N) :=
  match fuel with
  | O => None
  | S f =>
    match l with
    | [] => None
    | b :: tl_l =>
      let c := detect b l 0 in
      if (1 <? c)%nat then
        let blk := [N.of_nat (257 - c); b] in
        match skipn c l with
        | [] => Some (blk ++ [128%N])
        | rest => option_map (app blk) (rl_enc_loop f rest)
        end
      else
        let k := varscan b tl_l 1 in
        if (k =? length l)%nat || (k =? 128)%nat then
          let blk := N.of_nat (k - 1) :: firstn k l in
          match skipn k l with
          | [] => Some (blk ++ [128%N])
          | rest => option_map (app blk) (rl_enc_loop f rest)
          end
        else
          let blk := N.of_nat (k - 2) :: firstn (k - 1) l in
          option_map (app blk) (rl_enc_loop f (skipn (k - 1) l))
    end
  end.

(* runLengthDecode.encode *)
Definition rl_encode (src : list N) : option (list N) :=
  match src with
  | [] => Some [128%N]
  | _ => rl_enc_loop (length src) src
  end.

(* ------------------------------------------------------------------ ascii85Decode.go *)

Definition is_crlf (b : N) : bool := ((b =? 13) || (b =? 10))%N.

Fixpoint drop_crlf (l : list N) : list N :=
  match l with
  | x :: r => if is_crlf x then drop_crlf r else l
  | [] => []
  end.

(* bytes.TrimRight(bb, "\r\n") *)
Definition trim_right_crlf (bb : list N) : list N := rev (drop_crlf (rev bb)).

(* ascii85Decode.DecodeLength; a85open = reading ascii85.NewDecoder(bytes.NewReader(.)) *)
Definition a85_decode_length (a85open : list N -> rstream) (bb : list N) (maxLen mdb : Z) : dres :=
  match rev (trim_right_crlf bb) with
  | g :: t :: r =>
    if ((g =? 62) && (t =? 126))%N then of_copy (copy_decoded (a85open (rev r)) maxLen mdb)
    else DErr EOther                     (* missing eod marker *)
  | _ => DErr EOther
  end.

(* ascii85Decode.Encode *)
Definition a85_encode (a85enc : list N -> list N) (bb : list N) : list N := a85enc bb ++ [126%N; 62%N].

(* ------------------------------------------------------------------ decode parameters *)

Record parms := {
  p_pred : option Z; p_colors : option Z; p_bpc : option Z; p_cols : option Z; p_early : option Z }.

Definition no_parms : parms := Build_parms None None None None None.

(* ------------------------------------------------------------------ lzwDecode.go *)

Definition lzw_early (pm : parms) : bool := match p_early pm with None => true | Some ec => ec =? 1 end.

Definition lzw_decode_length (lzwopen : bool -> list N -> rstream) (pm : parms) (bb : list N) (maxLen mdb : Z) : dres :=
  match p_pred pm with
  | Some p => if 1 <? p then DErr EOther
              else of_copy (copy_decoded (lzwopen (lzw_early pm) bb) maxLen mdb)
  | None => of_copy (copy_decoded (lzwopen (lzw_early pm) bb) maxLen mdb)
  end.

Definition lzw_encode (lzwenc : bool -> list N -> list N) (pm : parms) (bb : list N) : list N :=
  lzwenc (lzw_early pm) bb.

(* ------------------------------------------------------------------ flateDecode.go *)

(* flate.passThru *)
Definition pass_thru (s : rstream) (maxLen mdb : Z) : dres :=
  match copy_decoded s maxLen mdb with
  | (b, None) => DOk b
  | (b, Some EUnexpEOF) => DOk b          (* "ignoring unexpected EOF" *)
  | (_, Some e) => DErr e
  end.

Definition valid_predictor (p : Z) : bool :=
  (p =? 2) || (p =? 10) || (p =? 11) || (p =? 12) || (p =? 13) || (p =? 14) || (p =? 15).

(* flate.parameters *)
Definition flate_parameters (pm : parms) : option (Z * Z * Z) :=
  let colors := match p_colors pm with None => Some 1 | Some c => if c <=? 0 then None else Some c end in
  let bpc := match p_bpc pm with
             | None => Some 8
             | Some b => if (b =? 1) || (b =? 2) || (b =? 4) || (b =? 8) || (b =? 16) then Some b else None
             end in
  let cols := match p_cols pm with None => Some 1 | Some c => if c <=? 0 then None else Some c end in
  match colors, bpc, cols with
  | Some a, Some b, Some c => Some (a, b, c)
  | _, _, _ => None
  end.

(* safemath.MultiplyInt / AddInt on a 64-bit int (see property C42) *)
Definition mul_int (a b : Z) : option Z :=
  if (a <? 0) || (b <? 0) || (max_int64 <? a * b) then None else Some (a * b).
Definition add_int (a b : Z) : option Z :=
  if (a <? 0) || (b <? 0) || (max_int64 <? a + b) then None else Some (a + b).

(* predictorRowParams: (rowSize, rowLen, bytesPerPixel) *)
Definition predictor_row_params (predictor colors bpc columns : Z) : option (Z * Z * Z) :=
  match mul_int bpc colors with
  | None => None
  | Some bitsPerPixel =>
    match add_int bitsPerPixel 7 with
    | None => None
    | Some bppr =>
      let bytesPerPixel := bppr / 8 in
      match mul_int bitsPerPixel columns with
      | None => None
      | Some rowBits =>
        match add_int rowBits 7 with
        | None => None
        | Some rbr =>
          let rowSize := rbr / 8 in
          if predictor =? 2 then Some (rowSize, rowSize, bytesPerPixel)
          else match add_int rowSize 1 with
               | None => None
               | Some rowLen => Some (rowSize, rowLen, bytesPerPixel)
               end
        end
      end
    end
  end.

(* In-place row filters.  scan walks the current row left to right; acc / pacc are the already
   reconstructed bytes of the current row and the consumed bytes of the prior row, reversed. *)
Fixpoint scan (f : list N -> list N -> N -> N -> N) (acc pacc cdat pdat : list N) : list N :=
  match cdat with
  | [] => []
  | c :: cs =>
    let p := hd 0%N pdat in
    let v := f acc pacc c p in
    v :: scan f (v :: acc) (p :: pacc) cs (tl pdat)
  end.

Definition back (bpp : nat) (acc : list N) : N := nth (bpp - 1) acc 0%N.

Definition f_sub (bpp : nat) (acc pacc : list N) (c p : N) : N := ((c + back bpp acc) mod 256)%N.
Definition f_up (acc pacc : list N) (c p : N) : N := ((c + p) mod 256)%N.
Definition f_avg (bpp : nat) (acc pacc : list N) (c p : N) : N := ((c + (back bpp acc + p) / 2) mod 256)%N.
Definition f_paeth (bpp : nat) (acc pacc : list N) (c p : N) : N :=
  let a := Z.of_N (back bpp acc) in
  let b := Z.of_N p in
  let cc := Z.of_N (back bpp pacc) in
  let pa := b - cc in
  let pb := a - cc in
  let pc := Z.abs (pa + pb) in
  let pa := Z.abs pa in
  let pb := Z.abs pb in
  let pred := if (pa <=? pb) && (pa <=? pc) then a else if pb <=? pc then b else cc in
  Z.to_N ((pred + Z.of_N c) mod 256).

(* applyHorDiff(row, colors) *)
Definition hor_diff (row : list N) (colors : nat) : list N :=
  let n := ((length row / colors) * colors)%nat in
  scan (f_sub colors) [] [] (firstn n row) [] ++ skipn n row.

(* processRow(pr, cr, p, colors, bytesPerPixel) with pdat = pr[1:] (reconstructed prior row) *)
Definition process_row (p : Z) (colors bpp : nat) (pdat cr : list N) : option (list N) :=
  if p =? 2 then Some (hor_diff cr colors)
  else match cr with
       | [] => None
       | f :: cdat =>
         if (f =? 0)%N then Some cdat
         else if (f =? 1)%N then Some (scan (f_sub bpp) [] [] cdat pdat)
         else if (f =? 2)%N then Some (scan f_up [] [] cdat pdat)
         else if (f =? 3)%N then Some (scan (f_avg bpp) [] [] cdat pdat)
         else if (f =? 4)%N then Some (scan (f_paeth bpp) [] [] cdat pdat)
         else None
       end.

(* flate.decodePostProcessRows.  raw/st: the inflated stream; pd: reconstructed prior row;
   blen = b.Len(); m = row length.  proc pd cr = processRow. *)
Fixpoint flate_rows (proc : list N -> list N -> option (list N)) (fuel : nat) (raw : list N) (st : rstatus)
         (pd : list N) (blen maxLen mdb : Z) (m : nat) : dres :=
  match fuel with
  | O => DErr EFuel
  | S fuel' =>
    if negb ((maxLen <? 0) || (blen <? maxLen)) then DOk []          (* checkBufLen *)
    else if (m <=? length raw)%nat then
      match proc pd (firstn m raw) with
      | None => DErr EOther
      | Some d =>
        let blen' := blen + len d in
        if (maxLen <? 0) && (0 <=? decode_limit maxLen mdb) && (decode_limit maxLen mdb <? blen')
        then DErr ELimit
        else dapp d (flate_rows proc fuel' (skipn m raw) st d blen' maxLen mdb m)
      end
    else if (length raw =? 0)%nat then
      match st with RErr => DErr EOther | _ => DOk [] end
    else
      match st with RErr => DErr EOther | _ => DErr EUnexpEOF end
  end.

(* flate.decodePostProcess, generic in the row function (given the row parameters) *)
Definition flate_post_with (procf : Z -> nat -> nat -> list N -> list N -> option (list N))
           (pm : parms) (s : rstream) (maxLen mdb : Z) : dres :=
  let pass := pass_thru s maxLen mdb in
  match p_pred pm with
  | None => pass
  | Some predictor =>
    if predictor =? 1 then pass
    else if negb (valid_predictor predictor) then DErr EOther
    else match flate_parameters pm with
         | None => DErr EOther
         | Some (colors, bpc, columns) =>
           match predictor_row_params predictor colors bpc columns with
           | None => DErr EOther
           | Some (rowSize, rowLen, bytesPerPixel) =>
             let limit := decode_limit (-1) mdb in
             if (0 <=? limit) && (limit <? rowLen) then DErr ELimit
             else
               let m := Z.to_nat rowLen in
               match flate_rows (procf predictor (Z.to_nat colors) (Z.to_nat bytesPerPixel))
                                (S (length (fst s))) (fst s) (snd s) (repeat 0%N (m - 1)) 0 maxLen mdb m with
               | DErr e => DErr e
               | DOk b =>
                 if (maxLen <? 0) && (0 <? len b mod rowSize) then DErr EOther else DOk b
               end
           end
         end
  end.

Definition flate_post := flate_post_with process_row.

(* flate.DecodeLength; zopen = zlib.NewReader (None: header error) followed by reading it *)
Definition flate_decode_length (zopen : list N -> option rstream) (pm : parms) (bb : list N) (maxLen mdb : Z) : dres :=
  match zopen bb with
  | None => DErr EOther
  | Some s => flate_post pm s maxLen mdb
  end.

(* flate.Encode: the decode parameters are not consulted ("TODO ... predictor preprocessing") *)
Definition flate_encode (zenc : list N -> list N) (pm : parms) (bb : list N) : list N := zenc bb.

(* ------------------------------------------------------------------ streamdict.go *)

Record stage := {
  s_enc : list N -> option (list N);          (* Filter.Encode *)
  s_dec : list N -> Z -> Z -> dres }.         (* Filter.DecodeLength(input, maxLen) of a filter built with maxDecodeBytes *)

(* the loop of StreamDict.decodeLength: Decode for all stages but the last when maxLen >= 0 *)
Fixpoint pipe_stages (sts : list stage) (b : list N) (maxLen mdb : Z) : dres :=
  match sts with
  | [] => DOk b
  | s :: rest =>
    let ml := match rest with [] => if 0 <=? maxLen then maxLen else -1 | _ => -1 end in
    match s_dec s b ml mdb with
    | DOk c => pipe_stages rest c maxLen mdb
    | DErr e => DErr e
    end
  end.

(* StreamDict.decodeLength *)
Definition pipe_decode (sts : list stage) (raw : list N) (maxLen mdb : Z) : dres :=
  match pipe_stages sts raw maxLen mdb with
  | DOk data =>
    if maxLen <? 0 then DOk data
    else if len data <? maxLen then DErr EUnexpEOF
    else DOk (take maxLen data)
  | DErr e => DErr e
  end.

(* StreamDict.Encode: filters applied from the last to the first *)
Fixpoint pipe_encode (sts : list stage) (content : list N) : option (list N) :=
  match sts with
  | [] => Some content
  | s :: rest => match pipe_encode rest content with Some c => s_enc s c | None => None end
  end.

Definition ahx_stage : stage := Build_stage (fun x => Some (ahx_encode x)) ahx_decode_length.
Definition rl_stage : stage := Build_stage rl_encode rl_decode_length.
