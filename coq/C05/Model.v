(* C05 — Extracted files never escape the output directory or clobber each other.
   Executable model, hand-transcribed from
     /repo/pkg/pdfcpu/sanitize/path.go   (pathPart, Path, PathOr)
     /repo/pkg/api/attach.go             (attachmentOutputPath, attachmentReservationPath,
                                          reserveAttachmentOutputs, writeAttachments)
     /repo/pkg/api/extract.go, split.go, form.go, pkg/font/install.go (output name composition)
   plus the Go standard library pieces they call (modelled, not verified; tied by the harness):
     utf8.DecodeRuneInString / `for _, r := range s`, utf8.AppendRune (strings.Builder.WriteRune),
     unicode.IsSpace, unicode.IsControl, unicode.ToUpper (only "is the result an ASCII letter"),
     strings.TrimSpace/Trim/FieldsFunc/ToUpper/Join, path/filepath Clean, Join, Base, Dir (Unix).
   Strings are lists of bytes (N); inside Path a string is the list of (code point, width) items
   produced by Go's UTF-8 decoding.  NO proofs in this file. *)
From Coq Require Import NArith List Bool.
From PV Require Import Lib.GoInt.
Import ListNotations.
Open Scope N_scope.

Definition bytes := list N.
Definition runes := list N.

(* ------------------------------------------------------------------ UTF-8 *)
Definition RuneError : N := 0xFFFD.

Definition inr (lo hi b : N) : bool := (lo <=? b) && (b <=? hi).
Definition cont (b : N) : bool := inr 0x80 0xBF b.

(* unicode/utf8 DecodeRuneInString applied repeatedly (= `for _, r := range s`):
   invalid or truncated sequences yield (RuneError, width 1).  Structural: every recursive
   call is on a tail of the argument. *)
Fixpoint decode (s : bytes) : list (N * N) :=
  match s with
  | [] => []
  | s0 :: t =>
    if s0 <? 0x80 then (s0, 1) :: decode t                        (* first[s0] = as *)
    else if (s0 <? 0xC2) || (0xF4 <? s0) then (RuneError, 1) :: decode t   (* xx *)
    else if s0 <? 0xE0 then                                        (* s1: size 2, 80..BF *)
      match t with
      | s1 :: t1 =>
        if cont s1 then ((s0 mod 32) * 64 + s1 mod 64, 2) :: decode t1
        else (RuneError, 1) :: decode t
      | [] => (RuneError, 1) :: decode t
      end
    else if s0 <? 0xF0 then                                        (* s2,s3,s4: size 3 *)
      match t with
      | s1 :: s2 :: t2 =>
        let lo := if s0 =? 0xE0 then 0xA0 else 0x80 in
        let hi := if s0 =? 0xED then 0x9F else 0xBF in
        if inr lo hi s1 && cont s2
        then ((s0 mod 16) * 4096 + (s1 mod 64) * 64 + s2 mod 64, 3) :: decode t2
        else (RuneError, 1) :: decode t
      | _ => (RuneError, 1) :: decode t
      end
    else                                                           (* s5,s6,s7: size 4 *)
      match t with
      | s1 :: s2 :: s3 :: t3 =>
        let lo := if s0 =? 0xF0 then 0x90 else 0x80 in
        let hi := if s0 =? 0xF4 then 0x8F else 0xBF in
        if inr lo hi s1 && cont s2 && cont s3
        then ((s0 mod 8) * 262144 + (s1 mod 64) * 4096 + (s2 mod 64) * 64 + s3 mod 64, 4) :: decode t3
        else (RuneError, 1) :: decode t
      | _ => (RuneError, 1) :: decode t
      end
  end.

(* utf8.AppendRune / strings.Builder.WriteRune *)
Definition encodeRune (r : N) : bytes :=
  if r <? 0x80 then [r]
  else if r <? 0x800 then [0xC0 + r / 64; 0x80 + r mod 64]
  else if (0x10FFFF <? r) || inr 0xD800 0xDFFF r then [0xEF; 0xBF; 0xBD]
  else if r <? 0x10000 then [0xE0 + r / 4096; 0x80 + (r / 64) mod 64; 0x80 + r mod 64]
  else [0xF0 + r / 262144; 0x80 + (r / 4096) mod 64; 0x80 + (r / 64) mod 64; 0x80 + r mod 64].

Definition encode (rs : runes) : bytes := flat_map encodeRune rs.

(* ------------------------------------------------------------------ unicode *)
(* unicode.IsSpace: Latin-1 switch + White_Space table (unicode/tables.go) *)
Definition isSpace (r : N) : bool :=
  inr 0x09 0x0D r || (r =? 0x20) || (r =? 0x85) || (r =? 0xA0) || (r =? 0x1680)
  || inr 0x2000 0x200A r || inr 0x2028 0x2029 r || (r =? 0x202F) || (r =? 0x205F) || (r =? 0x3000).

(* unicode.IsControl: properties[r]&pC for r <= MaxLatin1, false above *)
Definition isControl (r : N) : bool := (r <? 0x20) || inr 0x7F 0x9F r.

(* unicode.ToUpper, exact on ASCII; above ASCII the only facts used are which code points map
   INTO ASCII (U+0131 -> 'I', U+017F -> 'S'); every other non-ASCII code point is left
   unchanged here (Go maps it to some non-ASCII code point).  The result is only ever compared
   with pure-ASCII device names, so this is observationally exact (checked for every code
   point by the harness, function classRange). *)
Definition toUpper (r : N) : N :=
  if inr 0x61 0x7A r then r - 32
  else if r =? 0x131 then 0x49 else if r =? 0x17F then 0x53 else r.

(* ------------------------------------------------------------------ strings helpers *)
Fixpoint dropWhile {A} (f : A -> bool) (l : list A) : list A :=
  match l with [] => [] | x :: t => if f x then dropWhile f t else l end.
Definition trimBoth {A} (f : A -> bool) (l : list A) : list A :=
  rev (dropWhile f (rev (dropWhile f l))).
Fixpoint takeWhile {A} (f : A -> bool) (l : list A) : list A :=
  match l with [] => [] | x :: t => if f x then x :: takeWhile f t else [] end.

Fixpoint leqb (a b : list N) : bool :=
  match a, b with
  | [], [] => true
  | x :: a', y :: b' => (x =? y) && leqb a' b'
  | _, _ => false
  end.
Definition isNil {A} (l : list A) : bool := match l with [] => true | _ => false end.

(* strings.Split semantics: never returns an empty list *)
Fixpoint splitOn (sep : N) (s : list N) : list (list N) :=
  match s with
  | [] => [[]]
  | b :: t =>
    if b =? sep then [] :: splitOn sep t
    else match splitOn sep t with
         | c :: cs => (b :: c) :: cs
         | [] => [[b]]
         end
  end.

Fixpoint joinWith (sep : list N) (l : list (list N)) : list N :=
  match l with
  | [] => []
  | [x] => x
  | x :: t => x ++ sep ++ joinWith sep t
  end.

(* ------------------------------------------------------------------ sanitize/path.go *)
(* pathPart: r < 0x20 || strings.ContainsRune(SPECIALS, r) || unicode.IsControl(r), SPECIALS = less-than, greater-than, colon, double quote, bar, question mark, asterisk *)
Definition special (r : N) : bool :=
  (r =? 0x3C) || (r =? 0x3E) || (r =? 0x3A) || (r =? 0x22) || (r =? 0x7C) || (r =? 0x3F) || (r =? 0x2A).
Definition badRune (r : N) : bool := (r <? 0x20) || special r || isControl r.

(* the `for _, r := range s` loop of pathPart with its lastUnderscore flag *)
Fixpoint ppLoop (rs : runes) (lastU : bool) : runes :=
  match rs with
  | [] => []
  | r :: t =>
    if badRune r then (if lastU then ppLoop t true else 0x5F :: ppLoop t true)
    else r :: ppLoop t (r =? 0x5F)
  end.

Definition spaceOrDot (r : N) : bool := (r =? 0x20) || (r =? 0x2E).

Definition s_ (l : list N) := l.
Definition reserved : list (list N) :=
  [ [0x43;0x4F;0x4E]; [0x50;0x52;0x4E]; [0x41;0x55;0x58]; [0x4E;0x55;0x4C] ] ++
  map (fun d => [0x43;0x4F;0x4D;d]) [0x31;0x32;0x33;0x34;0x35;0x36;0x37;0x38;0x39] ++
  map (fun d => [0x4C;0x50;0x54;d]) [0x31;0x32;0x33;0x34;0x35;0x36;0x37;0x38;0x39].

Definition pathPart (rs : runes) : runes :=
  let s := trimBoth spaceOrDot (ppLoop rs false) in
  if isNil s then []
  else
    let stem := takeWhile (fun r => negb (r =? 0x2E)) s in
    if existsb (leqb (map toUpper stem)) reserved then 0x5F :: s else s.

(* the body of the `for _, part := range parts` loop of Path *)
Definition cleanPart (part : runes) : list runes :=
  let p := trimBoth isSpace part in
  if isNil p || leqb p [0x2E] || leqb p [0x2E; 0x2E] then []
  else let q := pathPart p in if isNil q then [] else [q].

(* len(s) >= 2 && s[1] == ':'  on decoded items: s[1] is ':' iff the first item is one byte
   wide and the second item is the rune ':' *)
Definition dropDrive (it : list (N * N)) : list (N * N) :=
  match it with
  | (_, w0) :: (c1, _) :: rest => if (w0 =? 1) && (c1 =? 0x3A) then rest else it
  | _ => it
  end.

(* Path, up to the joined rune string *)
Definition pathRunes (s : bytes) : res runes :=
  if existsb (N.eqb 0) s then Err                                  (* strings.ContainsRune(s, 0) *)
  else
    let s1 := map (fun b => if b =? 0x5C then 0x2F else b) s in    (* ReplaceAll(s, "\\", "/") *)
    let it := trimBoth (fun x => isSpace (fst x)) (decode s1) in    (* TrimSpace *)
    let it := dropDrive it in
    let parts := splitOn 0x2F (map fst it) in                       (* FieldsFunc(r == '/'): empty
                                                                       fields are skipped by cleanPart *)
    let cleanParts := flat_map cleanPart parts in
    if isNil cleanParts then Err else Ok (joinWith [0x5F] cleanParts).

Definition Path (s : bytes) : res bytes :=
  match pathRunes s with Ok rs => Ok (encode rs) | Err => Err end.

Definition PathOr (s fallback : bytes) : bytes :=
  match Path s with Ok n => n | Err => fallback end.

(* ------------------------------------------------------------------ path/filepath (Unix) *)
Definition SL : N := 0x2F.
Definition DOT : list N := [0x2E].
Definition DOTDOT : list N := [0x2E; 0x2E].

(* one path element of Clean; the stack is kept reversed (head = last element written) *)
Definition cleanStep (rooted : bool) (st : list bytes) (c : bytes) : list bytes :=
  if isNil c || leqb c DOT then st
  else if leqb c DOTDOT then
    match st with
    | top :: rest => if leqb top DOTDOT then c :: st else rest
    | [] => if rooted then [] else [c]
    end
  else c :: st.

Definition isRooted (p : bytes) : bool := match p with b :: _ => b =? SL | [] => false end.

Definition render (rooted : bool) (st : list bytes) : bytes :=
  if rooted then SL :: joinWith [SL] (rev st)
  else if isNil st then DOT else joinWith [SL] (rev st).

Definition cleanStack (p : bytes) : list bytes :=
  fold_left (cleanStep (isRooted p)) (splitOn SL p) [].

Definition clean (p : bytes) : bytes :=
  if isNil p then DOT else render (isRooted p) (cleanStack p).

(* filepath.Join of exactly two elements *)
Definition join2 (a b : bytes) : bytes :=
  if negb (isNil a) then clean (a ++ SL :: b)
  else if negb (isNil b) then clean b else [].

(* filepath.Base / filepath.Dir *)
Definition notSL (b : N) : bool := negb (b =? SL).
Definition baseOf (p : bytes) : bytes :=
  if isNil p then DOT
  else
    let p1 := rev (dropWhile (fun b => b =? SL) (rev p)) in
    let b := rev (takeWhile notSL (rev p1)) in
    if isNil b then [SL] else b.
Definition dirOf (p : bytes) : bytes := clean (rev (dropWhile notSL (rev p))).

(* ------------------------------------------------------------------ formatting *)
Fixpoint decAux (fuel : nat) (n : N) (acc : list N) : list N :=
  match fuel with
  | O => acc
  | S f => let acc' := (0x30 + n mod 10) :: acc in
           if n / 10 =? 0 then acc' else decAux f (n / 10) acc'
  end.
(* strconv.Itoa / %d for a non-negative number *)
Definition dec (n : N) : list N := decAux (S (N.size_nat n)) n [].

(* ------------------------------------------------------------------ api/attach.go *)
Definition ATTACHMENT_ : bytes := [0x61;0x74;0x74;0x61;0x63;0x68;0x6D;0x65;0x6E;0x74;0x5F].

(* the name attachmentOutputPath joins to outDir: sanitize.Path, else fmt.Sprintf("attachment_%d", i+1) *)
Definition attachmentName (i : N) (fileName : bytes) : bytes :=
  match Path fileName with Ok fn => fn | Err => ATTACHMENT_ ++ dec (i + 1) end.

Definition attachmentOutputPath (outDir : bytes) (i : N) (fileName : bytes) : bytes :=
  clean (join2 outDir (attachmentName i fileName)).

Fixpoint outputPathsFrom (outDir : bytes) (i : N) (names : list bytes) : list bytes :=
  match names with
  | [] => []
  | a :: t => attachmentOutputPath outDir i a :: outputPathsFrom outDir (i + 1) t
  end.
Definition attachmentOutputPaths (outDir : bytes) (names : list bytes) := outputPathsFrom outDir 0 names.

Definition RESERVATION : bytes :=   (* ".pdfcpu-reservation-" *)
  [0x2E;0x70;0x64;0x66;0x63;0x70;0x75;0x2D;0x72;0x65;0x73;0x65;0x72;0x76;0x61;0x74;0x69;0x6F;0x6E;0x2D].

Definition attachmentReservationPath (fileName token : bytes) : bytes :=
  join2 (dirOf fileName) (0x2E :: baseOf fileName ++ RESERVATION ++ token).

(* abstract file system: the set of existing paths; O_CREATE|O_EXCL fails iff the path exists *)
Definition memb (p : bytes) (fs : list bytes) : bool := existsb (leqb p) fs.
Definition fsRemove (p : bytes) (fs : list bytes) : list bytes := filter (fun q => negb (leqb p q)) fs.

(* reserveAttachmentOutputs: returns (file system, reservations made so far, status):
   status 0 = all reserved, 1 = os.ErrExist on a marker (ErrAttachmentOutputCollision),
   2 = any other OpenFile error on a marker ("reserve output ...", e.g. ENAMETOOLONG).
   failsOther says for which marker paths the O_EXCL create fails with a non-EEXIST error; it is
   an arbitrary predicate in the theorems.  Both error branches `return rr, err`. *)
Fixpoint reserve (failsOther : bytes -> bool) (fs : list bytes) (token : bytes) (paths rr : list bytes)
  : list bytes * list bytes * N :=
  match paths with
  | [] => (fs, rr, 0)
  | p :: t =>
    let rp := attachmentReservationPath p token in
    if failsOther rp then (fs, rr, 2)
    else if memb rp fs then (fs, rr, 1)
    else reserve failsOther (rp :: fs) token t (rr ++ [rp])
  end.

Definition release (fs rr : list bytes) : list bytes := fold_left (fun f r => fsRemove r f) rr fs.

Definition fsWrite (fs : list bytes) (p : bytes) : list bytes := if memb p fs then fs else p :: fs.

(* writeAttachments: (final file system, output files written in order, status).
   err != nil from reserveAttachmentOutputs => return errors.Join(err, release(rr)) before the
   write loop.  Writing itself is assumed to succeed (I/O errors are outside the model). *)
Definition writeAttachments (failsOther : bytes -> bool) (fs : list bytes) (outDir : bytes)
  (names : list bytes) (token : bytes) : list bytes * list bytes * N :=
  let paths := attachmentOutputPaths outDir names in
  match reserve failsOther fs token paths [] with
  | (fs1, rr, 0) => (release (fold_left fsWrite paths fs1) rr, paths, 0)
  | (fs1, rr, st) => (release fs1 rr, [], st)
  end.

(* the concrete non-EEXIST failure of a Linux file system: last path element longer than
   NAME_MAX = 255 bytes (ENAMETOOLONG); used by the harness instance *)
Definition nameTooLong (p : bytes) : bool := Nat.ltb 255 (length (baseOf p)).

(* ------------------------------------------------------------------ other call sites *)
(* api/extract.go sanitizeFilenamePart = sanitize.PathOr; compositions with fmt.Sprintf.
   Numbers arrive already formatted (digs). *)
Definition US : bytes := [0x5F].
Definition str_file : bytes := [0x66;0x69;0x6C;0x65].
Definition str_image : bytes := [0x69;0x6D;0x61;0x67;0x65].
Definition str_img : bytes := [0x69;0x6D;0x67].
Definition str_fontName : bytes := [0x66;0x6F;0x6E;0x74;0x4E;0x61;0x6D;0x65].
Definition str_fontType : bytes := [0x66;0x6F;0x6E;0x74;0x54;0x79;0x70;0x65].
Definition str_metadata : bytes := [0x6D;0x65;0x74;0x61;0x64;0x61;0x74;0x61].
Definition str_form : bytes := [0x66;0x6F;0x72;0x6D].
Definition str_dotpdf : bytes := [0x2E;0x70;0x64;0x66].
Definition str_bookmark_ : bytes := [0x62;0x6F;0x6F;0x6B;0x6D;0x61;0x72;0x6B;0x5F].
Definition str_form_ : bytes := [0x66;0x6F;0x72;0x6D;0x5F].
Definition str_dotgob : bytes := [0x2E;0x67;0x6F;0x62].

(* WriteImageToDisk: "%s_%0Nd_%s.%s" *)
Definition imageFileName (fileName digs qual fileType : bytes) : bytes :=
  PathOr fileName str_file ++ US ++ digs ++ US ++ PathOr qual str_image ++ [0x2E] ++ PathOr fileType str_img.
(* WriteFontToDisk: "%s_%s.%s" *)
Definition fontFileName (fnBase fontName fontType : bytes) : bytes :=
  PathOr fnBase str_file ++ US ++ PathOr fontName str_fontName ++ [0x2E] ++ PathOr fontType str_fontType.
(* writePageSpansSplitAlongBookmarks + splitOutPath(forBookmark): Path(title) or "bookmark_<i+1>", + ".pdf" *)
Definition bookmarkFileName (i : N) (title : bytes) : bytes :=
  match Path title with Ok fn => fn | Err => str_bookmark_ ++ dec (i + 1) end ++ str_dotpdf.
(* multiFillCSVOutputFile with requested != "": Path(requested) or "form_%02d" (digs = formatted nr) *)
Definition multiFillCSVName (requested digs : bytes) : bytes :=
  match Path requested with Ok fn => fn | Err => str_form_ ++ digs end.
(* installTrueTypeRep: Path(PostscriptName)+".gob", error otherwise *)
Definition gobFileName (ps : bytes) : res bytes :=
  match Path ps with Ok fn => Ok (fn ++ str_dotgob) | Err => Err end.

(* WriteMetadataToDisk: "%s_Metadata_%s_%d_%d.txt" (ParentType comes from the document) *)
Definition str__Metadata_ : bytes := [0x5F;0x4D;0x65;0x74;0x61;0x64;0x61;0x74;0x61;0x5F].
Definition str_dottxt : bytes := [0x2E;0x74;0x78;0x74].
Definition metadataFileName (fnBase parentType digs1 digs2 : bytes) : bytes :=
  PathOr fnBase str_file ++ str__Metadata_ ++ PathOr parentType str_metadata ++ US ++ digs1 ++ US ++ digs2 ++ str_dottxt.

(* api/split.go writePageSpansSplitAlongBookmarks: for i, bm := range bms: name from
   sanitize.Path(bm.Title) (else "bookmark_<i+1>"), splitOutPath = Join(outDir, name+".pdf"),
   writePageSpan; the first write error aborts the loop (earlier parts stay).  fails = the
   paths whose write fails (arbitrary in the theorem).  Returns (paths written, success). *)
Fixpoint splitBookmarksFrom (fails : bytes -> bool) (outDir : bytes) (i : N) (titles : list bytes)
  : list bytes * bool :=
  match titles with
  | [] => ([], true)
  | t :: rest =>
    let p := join2 outDir (bookmarkFileName i t) in
    if fails p then ([], false)
    else let r := splitBookmarksFrom fails outDir (i + 1) rest in (p :: fst r, snd r)
  end.
Definition splitAlongBookmarks (fails : bytes -> bool) (outDir : bytes) (titles : list bytes) :=
  splitBookmarksFrom fails outDir 0 titles.
Fixpoint bookmarkPathsFrom (outDir : bytes) (i : N) (titles : list bytes) : list bytes :=
  match titles with
  | [] => []
  | t :: rest => join2 outDir (bookmarkFileName i t) :: bookmarkPathsFrom outDir (i + 1) rest
  end.
(* harness instance: pdfcpu.WriteReader stages into "."+base+".tmp-"+16 hex digits (22 bytes
   longer than the target name); that name must fit NAME_MAX *)
Definition stagedTooLong (p : bytes) : bool := Nat.ltb 255 (length (baseOf p) + 22).

(* ------------------------------------------------------------------ harness helpers *)
(* code points in [lo, lo+n) whose classification is not the default, as (r, flags, up):
   flags = 1*isSpace + 2*isControl, up = toUpper r if that is ASCII and differs from r, else 0 *)
Definition classOf (r : N) : N * N :=
  ((if isSpace r then 1 else 0) + (if isControl r then 2 else 0),
   let u := toUpper r in if (u <? 0x80) && negb (u =? r) then u else 0).
Fixpoint classRange (n : nat) (lo : N) : list (N * (N * N)) :=
  match n with
  | O => []
  | S m => let c := classOf lo in
           (if (fst c =? 0) && (snd c =? 0) then [] else [(lo, c)]) ++ classRange m (lo + 1)
  end.
