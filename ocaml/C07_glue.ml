(* C07 glue: recorded operation traces from go/cmd/c06 (--mode C07) -> the extracted durable-layer checks.
   Wire formats
     dir       hex components joined by '.'
     path      D:<dir>  |  F:<dir>:<name>
     event     op,path,path,res,hexdata      (res: ok | eio | nat)   events joined by ';'
     listing   dir=name:hexdata,name:hexdata ; ...
     reps      name:hexdata,name:hexdata
   chk  F bound old new init trace        -> ok | bad      (bad = some event violates the safety condition)
   dur  F init trace name hexdata         -> true | false  (name durably bound to data after the trace)
   goberr / fontserr  (arguments as the C06 requests gob / fonts) -> e0 | e1 : does the C06 program model of
   writeGobWithOperations / api.installFonts return an error under the given fault plan *)
open Model
open Common

let pos_of_hex_exn s = match pos_of_hex s with Some p -> p | None -> failwith ("bad positive " ^ s)
let split c s = if s = "" then [] else String.split_on_char c s
let dir_of s = List.map pos_of_hex_exn (split '.' s)
let path_of s = match String.split_on_char ':' s with
  | ["D"; d] -> PDir (dir_of d)
  | ["F"; d; n] -> PFile (dir_of d, pos_of_hex_exn n)
  | _ -> failwith ("bad path " ^ s)
let op_of = function
  | "mkdirtemp" -> DMkdirTemp | "createtemp" -> DCreateTemp | "lstat" -> DLstat | "encode" -> DEncode
  | "chmod" -> DChmod | "sync" -> DSync | "close" -> DClose | "verify" -> DVerify | "rename" -> DRename
  | "remove" -> DRemove | "removeall" -> DRemoveAll | "syncdir" -> DSyncDir | "save" -> DSave
  | s -> failwith ("bad op " ^ s)
let res_of = function "ok" -> None | "eio" -> Some EIO | "nat" -> Some ENOENT | s -> failwith ("bad res " ^ s)
let event_of s = match String.split_on_char ',' s with
  | [op; p; q; r; d] -> { de_op = op_of op; de_p = path_of p; de_q = path_of q; de_res = res_of r; de_data = bytes_of_hex d }
  | _ -> failwith ("bad event " ^ s)
let trace_of s = List.map event_of (split ';' s)
let rep_of e = match String.split_on_char ':' e with
  | [n; d] -> (pos_of_hex_exn n, bytes_of_hex d)
  | _ -> failwith ("bad rep " ^ e)
let reps_of s = List.map rep_of (split ',' s)
let listing_of s = List.map (fun e -> match String.index_opt e '=' with
    | Some i -> (dir_of (String.sub e 0 i), reps_of (String.sub e (i + 1) (String.length e - i - 1)))
    | None -> failwith ("bad listing " ^ e)) (split ';' s)

let fault s = if s = "-" then None else Some (nat_of_int (int_of_string ("0x" ^ s)))
let file_of e = match String.split_on_char ':' e with
  | [n; md; d] -> (pos_of_hex_exn n, { fdata = bytes_of_hex d; fmode = n_of_hex md })
  | _ -> failwith ("bad file entry " ^ e)
let content_list s = List.map file_of (split ',' s)
let tree_of_string s =
  tree_of_list (List.map (fun e -> match String.index_opt e '=' with
    | Some i -> (dir_of (String.sub e 0 i), content_list (String.sub e (i + 1) (String.length e - i - 1)))
    | None -> failwith ("bad tree entry " ^ e)) (split ';' s))
(* the per-member syscall shape: the calls on the file that ends up as `target`, followed backwards through its
   renames to its createTemp; a rename is followed by "syncdir" when the directory it moved the file into is
   fsync'ed before the file moves again *)
let shape (tr : devent list) (target : positive list * positive) : string =
  let rec go evs cur seen out = match evs with
    | [] -> out
    | e :: rest ->
      if e.de_res <> None then go rest cur seen out else
      (match e.de_op, e.de_p, e.de_q with
       | DSyncDir, PDir d, _ -> go rest cur (d :: seen) out
       | DRename, PFile (d1, n1), PFile (d2, n2) when (d2, n2) = cur ->
         let out = if List.mem d2 seen then "rename" :: "syncdir" :: out else "rename" :: out in
         go rest (d1, n1) [] out
       | DCreateTemp, PFile (d, n), _ when (d, n) = cur -> "createtemp" :: out
       | DEncode, PFile (d, n), _ when (d, n) = cur ->
         go rest cur seen (match out with "encode" :: _ -> out | _ -> "encode" :: out)
       | DChmod, PFile (d, n), _ when (d, n) = cur -> go rest cur seen ("chmod" :: out)
       | DSync, PFile (d, n), _ when (d, n) = cur -> go rest cur seen ("sync" :: out)
       | _ -> go rest cur seen out) in
  String.concat " " (go tr target [] [])   (* tr is latest-first, as dtr *)
let member_of s = match String.split_on_char ':' s with
  | ["i"] -> MInvalid
  | ["v"; raw; n; d] -> MValid (pos_of_hex_exn raw, pos_of_hex_exn n, bytes_of_hex d)
  | _ -> failwith ("bad member " ^ s)
let eflag (e : oerr) = if e = None then "e0" else "e1"

let dispatch fn args = match fn, args with
  | "goberr", [f1; f2; kp; bound; init; d; n; data] ->
    let ((e, _), _) = run_gob (fault f1) (fault f2) (nat_of_int (int_of_string ("0x" ^ kp))) (pos_of_hex_exn bound)
                        (tree_of_string init) (dir_of d) (pos_of_hex_exn n) (bytes_of_hex data) in
    eflag e
  | "shape", ["collection"; bound; init; f; ms; n] ->
    let (_, w) = run_collection None None (nat_of_int 0) (pos_of_hex_exn bound) (tree_of_string init) (dir_of f)
                   (List.map member_of (split ',' ms)) in
    shape w.dtr (dir_of f, pos_of_hex_exn n)
  | "shape", ["gob"; bound; init; d; n; data] ->
    let (_, w) = run_gob None None (nat_of_int 0) (pos_of_hex_exn bound) (tree_of_string init) (dir_of d)
                   (pos_of_hex_exn n) (bytes_of_hex data) in
    shape w.dtr (dir_of d, pos_of_hex_exn n)
  | "fontserr", [f1; f2; init; f; sc; junk; sok; names; rok] ->
    if junk <> "" then failwith "junk not supported here" else
    let (r, _) = run_fonts (fault f1) (fault f2) (tree_of_string init) (dir_of f) (content_of_list (content_list sc))
                   [] (bool_of_str sok) (List.map pos_of_hex_exn (split ',' names)) (bool_of_str rok) in
    eflag r.r_err
  | "chk", [f; bound; o; n; init; tr] ->
    (match check_trace (dir_of f) (pos_of_hex_exn bound) (reps_of o) (reps_of n) (listing_of init) (trace_of tr) with
     | None -> "ok" | Some _ -> "bad")
  | "dur", [f; init; tr; n; d] ->
    str_of_bool (durable_after (dir_of f) (listing_of init) (trace_of tr) (pos_of_hex_exn n) (bytes_of_hex d))
  | _ -> failwith ("unknown function " ^ fn)
let () = main dispatch
