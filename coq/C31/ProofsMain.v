(* C31 — lemmas.  Part 5: the statements of Property.v. *)
From Coq Require Import ZArith NArith Bool List Lia ZifyBool ZifyNat ZifyN.
From PV Require Import Lib.GoInt C31.Model C31.Spec C31.Proofs C31.ProofsHandlers C31.ProofsSel C31.ProofsSyntax.
Import ListNotations.
Open Scope Z_scope.

Lemma selectedPages_spec n e : 0 <= n -> forallb wf e = true ->
  match selectedPages n (map render_term e) with
  | Err => expr_fails n e = true
  | Ok m => expr_fails n e = false /\ forall p, mfind p m = sel_den n e p
  end.
Proof.
  intros Hn Hwf. unfold selectedPages. rewrite calc_spec_ok by assumption.
  apply (sel_calc_spec n e Hn [] (fun _ => None)). reflexivity.
Qed.

Lemma selection_is_fold n e ens : 0 <= n -> e <> [] -> forallb wf e = true ->
  match PagesForPageSelection n (map render_term e) ens with
  | Err => expr_fails n e = true
  | Ok None => False
  | Ok (Some m) => expr_fails n e = false /\ forall p, mfind p m = sel_den n e p
  end.
Proof.
  intros Hn Hne Hwf. pose proof (selectedPages_spec n e Hn Hwf) as H.
  unfold PagesForPageSelection. destruct e as [|t e]; [contradiction|]. cbn [map] in *.
  destruct (selectedPages n (render_term t :: map render_term e)); assumption.
Qed.

Lemma selection_in_range n e ens m : 0 <= n -> e <> [] -> forallb wf e = true ->
  PagesForPageSelection n (map render_term e) ens = Ok (Some m) ->
  forall p b, In (p, b) m -> 1 <= p <= n.
Proof.
  intros Hn Hne Hwf Hm p b Hin.
  pose proof (selection_is_fold n e ens Hn Hne Hwf) as H. rewrite Hm in H. destruct H as [_ H].
  pose proof (mfind_in p b m Hin) as Hf. rewrite H in Hf.
  destruct (sel_den n e p) as [b'|] eqn:E; [|contradiction].
  unfold sel_den in E. eapply sel_den_in_range; [|exact E]. discriminate.
Qed.

Lemma collection_is_fold n e : 0 <= n -> forallb wf e = true ->
  PagesForPageCollection n (map render_term e) =
  if expr_fails n e then CErrToken
  else match col_den n e with [] => CErrNoPage | p :: l => COk (p :: l) end.
Proof.
  intros Hn Hwf. unfold PagesForPageCollection, calcPagesForPageCollection.
  rewrite calc_spec_ok by assumption. rewrite col_calc_spec by assumption.
  destruct (expr_fails n e); reflexivity.
Qed.

Lemma collection_in_range n e l : 0 <= n -> forallb wf e = true ->
  PagesForPageCollection n (map render_term e) = COk l -> Forall (in_pages n) l.
Proof.
  intros Hn Hwf H. rewrite collection_is_fold in H by assumption.
  destruct (expr_fails n e); [discriminate|].
  pose proof (col_den_in_range n e [] (Forall_nil _)) as Hr. fold (col_den n e) in Hr.
  destruct (col_den n e); [discriminate|]. inversion H. subst l. exact Hr.
Qed.

(* ------------------------------------------------------------ everything ParsePageSelection accepts *)
Lemma parse_cons c s : ParsePageSelection (c :: s) =
  if re_match (c :: s) then Some (split_on cComma (c :: s)) else None.
Proof. reflexivity. Qed.

Lemma rejects_outside_syntax s toks : ParsePageSelection s = Some toks ->
  (s = [] /\ toks = []) \/
  (exists e, e <> [] /\ forallb wf e = true /\ s = render e /\ toks = map render_term e).
Proof.
  destruct s as [|c s].
  - intros H. inversion H. left. split; reflexivity.
  - rewrite parse_cons. destruct (re_match (c :: s)) eqn:E; [|discriminate]. intros H. injection H as <-. right.
    destruct (re_match_sound _ E) as (e & Hne & Hwf & Hs).
    exists e. split; [exact Hne|]. split; [exact Hwf|]. split; [exact Hs|].
    change (split_on cComma (c :: s) = map render_term e). rewrite Hs. apply split_render; assumption.
Qed.

Lemma all_pages_in_range n p b : In (p, b) (all_pages n) -> 1 <= p <= n.
Proof.
  intros Hin. apply mfind_in in Hin. unfold all_pages in Hin. rewrite for_range_eq in Hin.
  change (fold_left (fun (s : smap) (j : Z) => mset j true s) (zrange 1 n) [])
    with (put_list smap sel_put false (zrange 1 n) []) in Hin.
  rewrite mfind_put_list, existsb_zrange in Hin.
  destruct ((1 <=? p) && (p <=? n)) eqn:E; [lia|]. cbn in Hin. contradiction.
Qed.

Lemma selection_in_range_full s toks n ens m : 0 <= n ->
  ParsePageSelection s = Some toks -> PagesForPageSelection n toks ens = Ok (Some m) ->
  forall p b, In (p, b) m -> 1 <= p <= n.
Proof.
  intros Hn Hp Hm p b Hin.
  destruct (rejects_outside_syntax s toks Hp) as [[_ ->]|(e & Hne & Hwf & _ & ->)].
  - unfold PagesForPageSelection in Hm. destruct (negb ens); [discriminate|].
    inversion Hm. subst m. eapply all_pages_in_range. exact Hin.
  - eapply selection_in_range; eassumption.
Qed.

Lemma collection_in_range_full s toks n l : 0 <= n ->
  ParsePageSelection s = Some toks -> PagesForPageCollection n toks = COk l -> Forall (in_pages n) l.
Proof.
  intros Hn Hp Hl.
  destruct (rejects_outside_syntax s toks Hp) as [[_ ->]|(e & Hne & Hwf & _ & ->)].
  - discriminate.
  - eapply collection_in_range; eassumption.
Qed.

(* strings the regular expression let through before it was anchored *)
Definition w_123 : str := [49; 45; 50; 45; 51]%N.          (* "1-2-3" *)
Definition w_plus5 : str := [43; 53]%N.                     (* "+5" *)
Definition w_lmm5 : str := [45; 108; 45; 45; 53]%N.         (* "-l--5" *)
Definition w_foo1 : str := [102; 111; 111; 49]%N.           (* "foo1" *)
Definition w_xoddx : str := [120; 111; 100; 100; 120]%N.    (* "xoddx" *)
