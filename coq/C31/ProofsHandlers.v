(* C31 — lemmas.  Part 2: the token handlers on rendered terms of the syntax, for any state. *)
From Coq Require Import ZArith NArith Bool List Lia ZifyBool ZifyNat ZifyN.
From PV Require Import Lib.GoInt C31.Model C31.Spec C31.Proofs.
Import ListNotations.
Open Scope Z_scope.

Lemma digit_neq' d c : is_digit d = true -> ((c <? 48) || (57 <? c))%N = true -> N.eqb c d = false.
Proof. intros. rewrite N.eqb_sym. apply digit_neq; assumption. Qed.

Lemma num_nodash a : is_num a = true -> nochar cMinus a = true.
Proof. intros H. apply num_nochar; [apply is_num_digits, H|reflexivity]. Qed.

Lemma num_not_l a : is_num a = true -> str_eqb a sL = false.
Proof.
  intros H. destruct (is_num_cons a H) as (d & a' & -> & Hd & _). cbn [str_eqb sL].
  rewrite (digit_neq d cL Hd eq_refl). reflexivity.
Qed.

Lemma removelast_snoc (x : str) c : removelast (x ++ [c]) = x.
Proof. apply removelast_last. Qed.

Section HandlerSpec.
  Variable St : Type.
  Variable put : bool -> Z -> St -> St.
  Variable fill : Z -> St -> St.

  Definition put_list (neg : bool) (l : list Z) (st : St) : St := fold_left (fun s j => put neg j s) l st.
  Definition R (neg : bool) (st : St) (lo hi : Z) : res St := Ok (put_list neg (zrange lo hi) st).

  Lemma R_empty neg st lo hi : hi < lo -> Ok st = R neg st lo hi.
  Proof. intros H. unfold R. rewrite zrange_empty by assumption. reflexivity. Qed.
  Lemma R_single neg st x : Ok (put neg x st) = R neg st x x.
  Proof. unfold R. rewrite zrange_single. reflexivity. Qed.
  Lemma R_range neg st lo hi : Ok (for_range St lo hi (put neg) st) = R neg st lo hi.
  Proof. unfold R. rewrite for_range_eq. reflexivity. Qed.
  Lemma R_ext neg st lo hi lo' hi' :
    (lo <= hi -> lo = lo' /\ hi = hi') -> (hi < lo -> hi' < lo') -> R neg st lo hi = R neg st lo' hi'.
  Proof. intros H1 H2. unfold R. rewrite (zrange_ext lo hi lo' hi') by assumption. reflexivity. Qed.

  (* --- handleSpecificPageOrLastXPages --- *)
  Lemma handleSpecific_num a neg n st : is_num a = true ->
    handleSpecific St put a neg n st =
    if bad a then Err else if (dval a <? 1) || (dval a >? n) then Ok st else Ok (put neg (dval a) st).
  Proof.
    intros H. unfold handleSpecific. rewrite (num_not_l a H), (atoi_num a H).
    destruct (is_num_cons a H) as (d & a' & -> & Hd & _).
    assert (Hp : has_prefix sLm (d :: a') = false).
    { cbn [has_prefix sLm]. rewrite (digit_neq' d cL Hd eq_refl). reflexivity. }
    rewrite Hp. destruct (bad (d :: a')); reflexivity.
  Qed.

  Lemma handleSpecific_l neg n st :
    handleSpecific St put sL neg n st = if n <? 1 then Ok st else Ok (put neg n st).
  Proof. reflexivity. Qed.

  Lemma handleSpecific_lm a neg n st : is_num a = true ->
    handleSpecific St put (cL :: cMinus :: a) neg n st =
    if bad a then Err else if n - dval a <? 1 then Ok st
    else Ok (for_range St (n - dval a) (n - dval a) (put neg) st).
  Proof.
    intros H. unfold handleSpecific.
    change (str_eqb (cL :: cMinus :: a) sL) with false.
    change (has_prefix sLm (cL :: cMinus :: a)) with true. cbv iota.
    change (skipn 2 (cL :: cMinus :: a)) with a.
    rewrite (split_on_none cMinus a (num_nodash a H)). cbn [nth].
    rewrite (atoi_num a H).
    change (cL :: cMinus :: a) with ([cL; cMinus] ++ a).
    rewrite (ends_with_app_num cMinus [cL; cMinus] a H eq_refl).
    destruct (bad a); reflexivity.
  Qed.

  Lemma handleSpecific_lmto a neg n st : is_num a = true ->
    handleSpecific St put (cL :: cMinus :: a ++ [cMinus]) neg n st =
    if bad a then Err else if n - dval a <? 1 then Ok st
    else Ok (for_range St (n - dval a) n (put neg) st).
  Proof.
    intros H. unfold handleSpecific.
    change (str_eqb (cL :: cMinus :: a ++ [cMinus]) sL) with false.
    change (has_prefix sLm (cL :: cMinus :: a ++ [cMinus])) with true. cbv iota.
    change (skipn 2 (cL :: cMinus :: a ++ [cMinus])) with (a ++ [cMinus]).
    rewrite (split_on_app cMinus a [] (num_nodash a H)). cbn [nth].
    rewrite (atoi_num a H).
    change (cL :: cMinus :: a ++ [cMinus]) with ((cL :: cMinus :: a) ++ [cMinus]).
    rewrite ends_with_snoc.
    destruct (bad a); reflexivity.
  Qed.

  (* --- handlePrefix --- *)
  Lemma handlePrefix_l neg n st : handlePrefix St put sL neg n st = Ok (for_range St 1 n (put neg) st).
  Proof. reflexivity. Qed.

  Lemma handlePrefix_lm a neg n st : is_num a = true ->
    handlePrefix St put (cL :: cMinus :: a) neg n st =
    if bad a then Err else if n - dval a <? 1 then Ok st else Ok (for_range St 1 (n - dval a) (put neg) st).
  Proof.
    intros H. unfold handlePrefix.
    change (str_eqb (cL :: cMinus :: a) sL) with false.
    change (has_prefix sLm (cL :: cMinus :: a)) with true. cbv iota.
    change (skipn 2 (cL :: cMinus :: a)) with a.
    rewrite (atoi_num a H). destruct (bad a); reflexivity.
  Qed.

  Lemma handlePrefix_num a neg n st : is_num a = true ->
    handlePrefix St put a neg n st =
    if bad a then Err else Ok (for_range St 1 (if dval a >? n then n else dval a) (put neg) st).
  Proof.
    intros H. unfold handlePrefix. rewrite (num_not_l a H), (atoi_num a H).
    destruct (is_num_cons a H) as (d & a' & -> & Hd & _).
    assert (Hp : has_prefix sLm (d :: a') = false).
    { cbn [has_prefix sLm]. rewrite (digit_neq' d cL Hd eq_refl). reflexivity. }
    rewrite Hp. destruct (bad (d :: a')); reflexivity.
  Qed.

  (* --- handleSuffix --- *)
  Lemma handleSuffix_num a neg n st : is_num a = true ->
    handleSuffix St put a neg n st =
    if bad a then Err else if dval a >? n then Ok st
    else Ok (for_range St (if dval a <? 1 then 1 else dval a) n (put neg) st).
  Proof. intros H. unfold handleSuffix. rewrite (atoi_num a H). destruct (bad a); reflexivity. Qed.

  (* --- parsePageRange --- *)
  Definition finish_range neg n st (from thru : Z) : res St :=
    if thru <? from then Ok st
    else Ok (for_range St from (if thru >? n then n else thru) (put neg) st).

  Lemma parsePageRange_nn a b neg n st : is_num a = true -> is_num b = true ->
    parsePageRange St put [a; b] n neg st =
    if bad a then Err else if dval a >? n then Ok st
    else if bad b then Err
    else finish_range neg n st (if dval a <? 1 then 1 else dval a) (dval b).
  Proof.
    intros Ha Hb. unfold parsePageRange, finish_range. cbn [nth length].
    rewrite (atoi_num a Ha), (num_not_l b Hb), (atoi_num b Hb).
    destruct (bad a); [reflexivity|]. destruct (dval a >? n); [reflexivity|].
    destruct (bad b); reflexivity.
  Qed.

  Lemma parsePageRange_nl a neg n st : is_num a = true ->
    parsePageRange St put [a; sL] n neg st =
    if bad a then Err else if dval a >? n then Ok st
    else finish_range neg n st (if dval a <? 1 then 1 else dval a) n.
  Proof.
    intros Ha. unfold parsePageRange, finish_range. cbn [nth length].
    rewrite (atoi_num a Ha). change (str_eqb sL sL) with true. change (Nat.eqb 2 3) with false. cbv iota.
    destruct (bad a); [reflexivity|]. destruct (dval a >? n); reflexivity.
  Qed.

  Lemma parsePageRange_nln a b neg n st : is_num a = true -> is_num b = true ->
    parsePageRange St put [a; sL; b] n neg st =
    if bad a then Err else if dval a >? n then Ok st
    else if bad b then Err
    else finish_range neg n st (if dval a <? 1 then 1 else dval a) (n - dval b).
  Proof.
    intros Ha Hb. unfold parsePageRange, finish_range. cbn [nth length].
    rewrite (atoi_num a Ha), (atoi_num b Hb).
    change (str_eqb sL sL) with true. change (Nat.eqb 3 3) with true. cbv iota.
    destruct (bad a); [reflexivity|]. destruct (dval a >? n); [reflexivity|].
    destruct (bad b); reflexivity.
  Qed.

  (* --- handleNormalized...Token: dispatch on the shape of the rendered term --- *)
  Lemma handleNorm_dash w neg n st : handleNorm St put n (cMinus :: w) neg st = handlePrefix St put w neg n st.
  Proof. reflexivity. Qed.

  Lemma handleNorm_l w neg n st : handleNorm St put n (cL :: w) neg st = handleSpecific St put (cL :: w) neg n st.
  Proof. reflexivity. Qed.

  Lemma handleNorm_num a neg n st : is_num a = true ->
    handleNorm St put n a neg st = handleSpecific St put a neg n st.
  Proof.
    intros H. pose proof (ends_with_app_num cMinus [] a H eq_refl) as He. simpl app in He.
    pose proof (split_on_none cMinus a (num_nodash a H)) as Hs.
    destruct (is_num_cons a H) as (d & a' & -> & Hd & _).
    unfold handleNorm. rewrite (digit_neq d cMinus Hd eq_refl), (digit_neq d cL Hd eq_refl), He, Hs.
    reflexivity.
  Qed.

  Lemma handleNorm_num_dash a neg n st : is_num a = true ->
    handleNorm St put n (a ++ [cMinus]) neg st = handleSuffix St put a neg n st.
  Proof.
    intros H. pose proof (ends_with_snoc cMinus a) as He.
    pose proof (removelast_snoc a cMinus) as Hr.
    destruct (is_num_cons a H) as (d & a' & -> & Hd & _).
    simpl app in *. unfold handleNorm.
    rewrite (digit_neq d cMinus Hd eq_refl), (digit_neq d cL Hd eq_refl), He, Hr.
    reflexivity.
  Qed.

  Lemma handleNorm_num_range a w neg n st : is_num a = true -> ends_with cMinus (a ++ cMinus :: w) = false ->
    handleNorm St put n (a ++ cMinus :: w) neg st = parsePageRange St put (a :: split_on cMinus w) n neg st.
  Proof.
    intros H He.
    pose proof (split_on_app cMinus a w (num_nodash a H)) as Hs.
    pose proof (split_on_nonempty cMinus w) as Hne.
    destruct (is_num_cons a H) as (d & a' & -> & Hd & _).
    simpl app in *. unfold handleNorm.
    rewrite (digit_neq d cMinus Hd eq_refl), (digit_neq d cL Hd eq_refl), He, Hs.
    cbn [negb andb]. destruct (split_on cMinus w); [contradiction|]. reflexivity.
  Qed.

  Lemma ends_with_last c (x : str) y : ends_with c (x ++ [y]) = N.eqb y c.
  Proof.
    induction x as [|z x IH]; simpl; [reflexivity|].
    destruct (x ++ [y]) eqn:E; [destruct x; discriminate|]. exact IH.
  Qed.

  Ltac fin := first
    [ reflexivity
    | rewrite R_range; apply R_ext; lia
    | rewrite R_single; apply R_ext; lia
    | apply R_empty; lia ].

  Lemma handleNorm_spec n r neg st : 0 <= n -> wf_r r = true ->
    handleNorm St put n (render_r r) neg st =
    if term_err n r then Err else R neg st (fst (bounds n r)) (snd (bounds n r)).
  Proof.
    intros Hn Hwf.
    destruct r as [a|a|a|a b| |a|a| |a|a|a b]; cbn [wf_r] in Hwf; cbn [render_r term_err];
      unfold bounds; cbn [raw_bounds fst snd].
    - (* # *)
      pose proof (dval_nonneg a Hwf) as Ha.
      rewrite (handleNorm_num a neg n st Hwf), (handleSpecific_num a neg n st Hwf).
      destruct (bad a); [reflexivity|].
      destruct (dval a <? 1) eqn:E1; destruct (dval a >? n) eqn:E2; cbn [orb]; fin.
    - (* -# *)
      pose proof (dval_nonneg a Hwf) as Ha.
      rewrite handleNorm_dash, (handlePrefix_num a neg n st Hwf).
      destruct (bad a); [reflexivity|].
      destruct (dval a >? n) eqn:E2; fin.
    - (* #- *)
      pose proof (dval_nonneg a Hwf) as Ha.
      rewrite (handleNorm_num_dash a neg n st Hwf), (handleSuffix_num a neg n st Hwf).
      destruct (bad a); [reflexivity|].
      destruct (dval a >? n) eqn:E2; destruct (dval a <? 1) eqn:E1; fin.
    - (* #-# *)
      apply andb_true_iff in Hwf as [Ha Hb].
      pose proof (dval_nonneg a Ha) as Hav. pose proof (dval_nonneg b Hb) as Hbv.
      assert (He : ends_with cMinus (a ++ cMinus :: b) = false).
      { replace (a ++ cMinus :: b) with ((a ++ [cMinus]) ++ b) by (rewrite <- app_assoc; reflexivity).
        apply ends_with_app_num; [assumption|reflexivity]. }
      rewrite (handleNorm_num_range a b neg n st Ha He), (split_on_none cMinus b (num_nodash b Hb)).
      rewrite (parsePageRange_nn a b neg n st Ha Hb). unfold finish_range.
      destruct (bad a); [reflexivity|]. cbn [orb].
      destruct (dval a >? n) eqn:E1; destruct (dval a <=? n) eqn:E2; try lia; cbn [andb]; [fin|].
      destruct (bad b); [reflexivity|].
      destruct (dval a <? 1) eqn:E3; destruct (dval b >? n) eqn:E4;
        match goal with |- context [?x <? ?y] => destruct (x <? y) eqn:E5 end; fin.
    - (* l *)
      rewrite handleNorm_l. change [cL] with sL. rewrite handleSpecific_l.
      destruct (n <? 1) eqn:E1; fin.
    - (* l-# *)
      pose proof (dval_nonneg a Hwf) as Ha.
      rewrite handleNorm_l, (handleSpecific_lm a neg n st Hwf).
      destruct (bad a); [reflexivity|].
      destruct (n - dval a <? 1) eqn:E1; fin.
    - (* l-#- *)
      pose proof (dval_nonneg a Hwf) as Ha.
      rewrite handleNorm_l, (handleSpecific_lmto a neg n st Hwf).
      destruct (bad a); [reflexivity|].
      destruct (n - dval a <? 1) eqn:E1; cbn [fst snd]; fin.
    - (* -l *)
      rewrite handleNorm_dash. change [cL] with sL. rewrite handlePrefix_l. fin.
    - (* -l-# *)
      pose proof (dval_nonneg a Hwf) as Ha.
      rewrite handleNorm_dash, (handlePrefix_lm a neg n st Hwf).
      destruct (bad a); [reflexivity|].
      destruct (n - dval a <? 1) eqn:E1; fin.
    - (* #-l *)
      pose proof (dval_nonneg a Hwf) as Ha.
      assert (He : ends_with cMinus (a ++ cMinus :: [cL]) = false).
      { replace (a ++ cMinus :: [cL]) with ((a ++ [cMinus]) ++ [cL]) by (rewrite <- app_assoc; reflexivity).
        rewrite ends_with_last. reflexivity. }
      change (a ++ [cMinus; cL]) with (a ++ cMinus :: [cL]).
      rewrite (handleNorm_num_range a [cL] neg n st Hwf He).
      change (split_on cMinus [cL]) with [sL].
      rewrite (parsePageRange_nl a neg n st Hwf). unfold finish_range.
      destruct (bad a); [reflexivity|].
      destruct (dval a >? n) eqn:E1; [fin|].
      destruct (dval a <? 1) eqn:E3; destruct (n >? n) eqn:E4; try lia;
        match goal with |- context [?x <? ?y] => destruct (x <? y) eqn:E5 end; fin.
    - (* #-l-# *)
      apply andb_true_iff in Hwf as [Ha Hb].
      pose proof (dval_nonneg a Ha) as Hav. pose proof (dval_nonneg b Hb) as Hbv.
      assert (He : ends_with cMinus (a ++ cMinus :: cL :: cMinus :: b) = false).
      { replace (a ++ cMinus :: cL :: cMinus :: b) with ((a ++ [cMinus; cL; cMinus]) ++ b)
          by (rewrite <- app_assoc; reflexivity).
        apply ends_with_app_num; [assumption|reflexivity]. }
      rewrite (handleNorm_num_range a (cL :: cMinus :: b) neg n st Ha He).
      change (cL :: cMinus :: b) with ([cL] ++ cMinus :: b).
      rewrite (split_on_app cMinus [cL] b eq_refl), (split_on_none cMinus b (num_nodash b Hb)).
      change [cL] with sL.
      rewrite (parsePageRange_nln a b neg n st Ha Hb). unfold finish_range.
      destruct (bad a); [reflexivity|]. cbn [orb].
      destruct (dval a >? n) eqn:E1; destruct (dval a <=? n) eqn:E2; try lia; cbn [andb]; [fin|].
      destruct (bad b); [reflexivity|].
      destruct (dval a <? 1) eqn:E3; destruct (n - dval b >? n) eqn:E4;
        match goal with |- context [?x <? ?y] => destruct (x <? y) eqn:E5 end; fin.
  Qed.

  (* --- tokens --- *)
  Lemma render_r_head r : wf_r r = true ->
    exists c w, render_r r = c :: w /\ N.eqb c 101 = false /\ N.eqb c 111 = false /\ negation c = false.
  Proof.
    intros Hwf.
    assert (Hnum : forall a x, is_num a = true -> exists c w, a ++ x = c :: w /\
              N.eqb c 101 = false /\ N.eqb c 111 = false /\ negation c = false).
    { intros a x H. destruct (is_num_cons a H) as (d & a' & -> & Hd & _).
      exists d, (a' ++ x). split; [reflexivity|]. unfold negation.
      rewrite (digit_neq d 101%N Hd eq_refl), (digit_neq d 111%N Hd eq_refl),
        (digit_neq d cBang Hd eq_refl), (digit_neq d cN Hd eq_refl). auto. }
    destruct r as [a|a|a|a b| |a|a| |a|a|a b]; cbn [wf_r] in Hwf; cbn [render_r];
      try (apply andb_true_iff in Hwf as [Hwf Hb]);
      try (eexists; eexists; split; [reflexivity|]; repeat split; reflexivity);
      try (apply Hnum; assumption).
    rewrite <- (app_nil_r a). apply Hnum; assumption.
  Qed.

  Definition fill_list (l : list Z) (st : St) : St := fold_left (fun s j => fill j s) l st.

  Definition tok_spec (n : Z) (t : term) (st : St) : res St :=
    match t with
    | TEven => Ok (fill_list (zstep2 2 (Z.to_nat ((n - 2) / 2 + 1))) st)
    | TOdd => Ok (fill_list (zstep2 1 (Z.to_nat ((n - 1) / 2 + 1))) st)
    | TR k r => if term_err n r then Err else R (negated k) st (fst (bounds n r)) (snd (bounds n r))
    end.

  Lemma handleToken_spec n t st : 0 <= n -> wf t = true ->
    handleToken St put fill n (render_term t) st = tok_spec n t st.
  Proof.
    intros Hn Hwf. destruct t as [| |k r].
    - cbn. rewrite for_step2_eq. reflexivity.
    - cbn. rewrite for_step2_eq. reflexivity.
    - cbn [wf] in Hwf. destruct (render_r_head r Hwf) as (c & w & Hr & H1 & H2 & H3).
      cbn [tok_spec]. rewrite <- (handleNorm_spec n r (negated k) st Hn Hwf).
      destruct k; cbn [render_term negated].
      + rewrite Hr. unfold handleToken. cbn [str_eqb sEven sOdd]. rewrite H1, H2, H3. reflexivity.
      + rewrite Hr. reflexivity.
      + rewrite Hr. reflexivity.
  Qed.

  Fixpoint calc_spec (n : Z) (e : list term) (st : St) : res St :=
    match e with
    | [] => Ok st
    | t :: e' => match tok_spec n t st with Err => Err | Ok st' => calc_spec n e' st' end
    end.

  Lemma calc_spec_ok n e : forall st, 0 <= n -> forallb wf e = true ->
    calc St put fill n (map render_term e) st = calc_spec n e st.
  Proof.
    induction e as [|t e IH]; intros st Hn Hwf; [reflexivity|].
    cbn [forallb] in Hwf. apply andb_true_iff in Hwf as [Ht He].
    cbn [map calc calc_spec]. rewrite (handleToken_spec n t st Hn Ht).
    destruct (tok_spec n t st); [|reflexivity]. apply IH; assumption.
  Qed.
End HandlerSpec.
