(* C31 — page selections.  Executable model of pkg/api/selectPages.go (hand-transcribed, no proofs).
   Strings are byte lists (list N).  Go ints are Z (no wrap-around: page counts are >= 0 and the
   numbers of syntactically valid terms are >= 0, so no subtraction in the code can overflow).
   The selection handlers and the collection handlers of the Go file are the same text twice, with
   `selectedPages[j] = !negated` replaced by `processPageForCollection(cp, negated, j)`; the model
   writes that text once (Section Handlers) over an abstract state with `put` (the loop body of the
   range terms) and `fill` (the loop body of even/odd) and instantiates it twice.  The harness runs
   both instantiations against the two real call chains. *)
From Coq Require Import ZArith NArith Bool List.
From PV Require Import Lib.GoInt.
Import ListNotations.
Open Scope Z_scope.

Definition str := list N.

Definition cMinus : N := 45.
Definition cPlus : N := 43.
Definition cComma : N := 44.
Definition cL : N := 108.
Definition cBang : N := 33.
Definition cN : N := 110.
Definition sEven : str := [101; 118; 101; 110]%N.
Definition sOdd : str := [111; 100; 100]%N.
Definition sL : str := [cL].
Definition sLm : str := [cL; cMinus].
Definition sMinus : str := [cMinus].
Definition sMinusL : str := [cMinus; cL].
Definition sComma : str := [cComma].

Fixpoint str_eqb (a b : str) : bool :=
  match a, b with
  | [], [] => true
  | x :: a', y :: b' => N.eqb x y && str_eqb a' b'
  | _, _ => false
  end.

(* strings.HasPrefix(s, p) *)
Fixpoint has_prefix (p s : str) : bool :=
  match p, s with
  | [], _ => true
  | x :: p', y :: s' => N.eqb x y && has_prefix p' s'
  | _ :: _, [] => false
  end.

(* strings.HasSuffix(s, string(c)) *)
Fixpoint ends_with (c : N) (s : str) : bool :=
  match s with
  | [] => false
  | x :: r => match r with [] => N.eqb x c | _ :: _ => ends_with c r end
  end.

(* strings.Split(s, string(c)) — always at least one element *)
Fixpoint split_on (c : N) (s : str) : list str :=
  match s with
  | [] => [[]]
  | x :: r =>
      if N.eqb x c then [] :: split_on c r
      else match split_on c r with
           | h :: t => (x :: h) :: t
           | [] => [[x]]
           end
  end.

(* ---- strconv.Atoi on a 64-bit platform; every error is Err ---- *)
Definition is_digit (c : N) : bool := (48 <=? c)%N && (c <=? 57)%N.

Fixpoint digits_val (acc : Z) (s : str) : option Z :=
  match s with
  | [] => Some acc
  | c :: r => if is_digit c then digits_val (acc * 10 + (Z.of_N c - 48)) r else None
  end.

Definition atoi (s : str) : res Z :=
  let '(neg, body) :=
    match s with
    | c :: r => if N.eqb c cMinus then (true, r) else if N.eqb c cPlus then (false, r) else (false, s)
    | [] => (false, [])
    end in
  match body with
  | [] => Err
  | _ :: _ =>
      match digits_val 0 body with
      | None => Err
      | Some v =>
          let v' := if neg then - v else v in
          if (minS 64 <=? v') && (v' <=? maxS 64) then Ok v' else Err
      end
  end.

(* ---- the regular expression of setupRegExpForPageSelection, as a nondeterministic matcher:
        a matcher maps a string to the list of remainders left after matching a prefix ---- *)
Definition matcher := str -> list str.
Definition m_lit (l : str) : matcher := fun s => if has_prefix l s then [skipn (length l) s] else [].
Fixpoint m_digits1 (s : str) : list str :=           (* \d+ *)
  match s with
  | c :: r => if is_digit c then r :: m_digits1 r else []
  | [] => []
  end.
Definition m_class (cs : list N) : matcher :=
  fun s => match s with c :: r => if existsb (N.eqb c) cs then [r] else [] | [] => [] end.
Definition m_opt (m : matcher) : matcher := fun s => s :: m s.
Definition m_cat (a b : matcher) : matcher := fun s => flat_map b (a s).
Definition m_alt (a b : matcher) : matcher := fun s => a s ++ b s.
(* g*$ : for every suffix of s, whether it is a concatenation of strings matched by g.  The table
   lists the answers for s, tl s, tl (tl s), ..., []; g must consume at least one byte. *)
Fixpoint star_tab (g : matcher) (s : str) : list bool :=
  match s with
  | [] => [true]
  | _ :: r =>
      let t := star_tab g r in
      existsb (fun rem => (length rem <=? length r)%nat && nth (length r - length rem) t false) (g s) :: t
  end.

(* (-\d+)|(\d+(-(\d+)?)?)|(\d+)?-l(-\d+)?|l(-(\d+)-?)? *)
Definition reT : matcher :=
  m_alt (m_cat (m_lit sMinus) m_digits1)
 (m_alt (m_cat m_digits1 (m_opt (m_cat (m_lit sMinus) (m_opt m_digits1))))
 (m_alt (m_cat (m_opt m_digits1) (m_cat (m_lit sMinusL) (m_opt (m_cat (m_lit sMinus) m_digits1))))
        (m_cat (m_lit sL) (m_opt (m_cat (m_lit sMinus) (m_cat m_digits1 (m_opt (m_lit sMinus)))))))).
(* [!n]?( ... ) *)
Definition reNT : matcher := m_cat (m_opt (m_class [cBang; cN])) reT.
(* e = (?:\Qeven\E|\Qodd\E|[!n]?(...)) *)
Definition reE : matcher := m_alt (m_lit sEven) (m_alt (m_lit sOdd) reNT).
(* the group (,e) *)
Definition reG : matcher := m_cat (m_lit sComma) reE.

Definition is_nil (s : str) : bool := match s with [] => true | _ :: _ => false end.

(* exp = "^" + e + "(," + e + ")*$" with e a (non-capturing) group: anchored at both ends, so
   MatchString is a match of the whole string: e, then (group)* up to the end. *)
Definition re_match (s : str) : bool :=
  let tab := star_tab reG s in
  existsb (fun r => nth (length s - length r) tab false) (reE s).

(* ParsePageSelection: None = syntax error *)
Definition ParsePageSelection (s : str) : option (list str) :=
  match s with
  | [] => Some []
  | _ :: _ => if re_match s then Some (split_on cComma s) else None
  end.

(* ---- the token handlers ---- *)
Section Handlers.
  Variable St : Type.
  Variable put : bool -> Z -> St -> St.
  Variable fill : Z -> St -> St.

  (* for j := start; <count iterations>; j += step { s = f j s } *)
  Definition for_loop (start step count : Z) (f : Z -> St -> St) (s : St) : St :=
    snd (Z.iter count (fun js => (fst js + step, f (fst js) (snd js))) (start, s)).
  (* for j := lo; j <= hi; j++ *)
  Definition for_range (lo hi : Z) := for_loop lo 1 (hi - lo + 1).
  (* for i := start; i <= n; i += 2 *)
  Definition for_step2 (start n : Z) := for_loop start 2 ((n - start) / 2 + 1).

  (* handlePrefix / handlePrefixForCollection *)
  Definition handlePrefix (v : str) (neg : bool) (n : Z) (st : St) : res St :=
    if str_eqb v sL then Ok (for_range 1 n (put neg) st)
    else if has_prefix sLm v then
      match atoi (skipn 2 v) with
      | Err => Err
      | Ok i => if n - i <? 1 then Ok st else Ok (for_range 1 (n - i) (put neg) st)
      end
    else
      match atoi v with
      | Err => Err
      | Ok i => let i := if i >? n then n else i in Ok (for_range 1 i (put neg) st)
      end.

  (* handleSuffix / handleSuffixForCollection *)
  Definition handleSuffix (v : str) (neg : bool) (n : Z) (st : St) : res St :=
    match atoi v with
    | Err => Err
    | Ok i =>
        if i >? n then Ok st
        else let i := if i <? 1 then 1 else i in Ok (for_range i n (put neg) st)
    end.

  (* handleSpecificPageOrLastXPages / ...ForCollection *)
  Definition handleSpecific (s : str) (neg : bool) (n : Z) (st : St) : res St :=
    if str_eqb s sL then (if n <? 1 then Ok st else Ok (put neg n st))
    else if has_prefix sLm s then
      let pr := split_on cMinus (skipn 2 s) in
      match atoi (nth 0 pr []) with
      | Err => Err
      | Ok i =>
          if n - i <? 1 then Ok st
          else let j := if ends_with cMinus s then n else n - i in
               Ok (for_range (n - i) j (put neg) st)
      end
    else
      match atoi s with
      | Err => Err
      | Ok i => if (i <? 1) || (i >? n) then Ok st else Ok (put neg i st)
      end.

  (* parsePageRange / parsePageRangeForCollection *)
  Definition parsePageRange (pr : list str) (n : Z) (neg : bool) (st : St) : res St :=
    match atoi (nth 0 pr []) with
    | Err => Err
    | Ok from =>
        if from >? n then Ok st
        else
          let from := if from <? 1 then 1 else from in
          let thru_r :=
            if str_eqb (nth 1 pr []) sL then
              (if Nat.eqb (length pr) 3
               then match atoi (nth 2 pr []) with Err => Err | Ok i => Ok (n - i) end
               else Ok n)
            else atoi (nth 1 pr []) in
          match thru_r with
          | Err => Err
          | Ok thru =>
              if thru <? from then Ok st
              else let thru := if thru >? n then n else thru in
                   Ok (for_range from thru (put neg) st)
          end
    end.

  (* handleNormalizedPageSelectionToken / handleNormalizedPageCollectionToken (v is not empty) *)
  Definition handleNorm (n : Z) (v : str) (neg : bool) (st : St) : res St :=
    match v with
    | [] => Err
    | c0 :: rest =>
        if N.eqb c0 cMinus then handlePrefix rest neg n st
        else if negb (N.eqb c0 cL) && ends_with cMinus v then handleSuffix (removelast v) neg n st
        else if N.eqb c0 cL then handleSpecific v neg n st
        else
          let pr := split_on cMinus v in
          if (2 <=? length pr)%nat then parsePageRange pr n neg st
          else handleSpecific (nth 0 pr []) neg n st
    end.

  Definition negation (c : N) : bool := N.eqb c cBang || N.eqb c cN.

  (* handlePageSelectionToken / handlePageCollectionToken *)
  Definition handleToken (n : Z) (tok : str) (st : St) : res St :=
    match tok with
    | [] => Err
    | c :: rest =>
        if str_eqb tok sEven then Ok (for_step2 2 n fill st)
        else if str_eqb tok sOdd then Ok (for_step2 1 n fill st)
        else if negation c then
          match rest with
          | [] => Err
          | _ :: _ => handleNorm n rest true st
          end
        else handleNorm n tok false st
    end.

  (* calcSelPages / calcPagesForPageCollection *)
  Fixpoint calc (n : Z) (toks : list str) (st : St) : res St :=
    match toks with
    | [] => Ok st
    | t :: r => match handleToken n t st with Err => Err | Ok st' => calc n r st' end
    end.
End Handlers.

(* ---- selections: types.IntSet (map[int]bool) as an association list kept sorted by key ---- *)
Definition smap := list (Z * bool).
Fixpoint mset (k : Z) (v : bool) (m : smap) : smap :=
  match m with
  | [] => [(k, v)]
  | (k', v') :: r =>
      if k <? k' then (k, v) :: m
      else if k =? k' then (k, v) :: r
      else (k', v') :: mset k v r
  end.
Fixpoint mfind (k : Z) (m : smap) : option bool :=
  match m with
  | [] => None
  | (k', v') :: r => if k =? k' then Some v' else mfind k r
  end.

Definition sel_put (neg : bool) (j : Z) (m : smap) : smap := mset j (negb neg) m.
(* selectEvenPages / selectOddPages loop body *)
Definition sel_fill (i : Z) (m : smap) : smap :=
  match mfind i m with None => mset i true m | Some _ => m end.

Definition selectedPages (n : Z) (toks : list str) : res smap := calc smap sel_put sel_fill n toks [].

Definition all_pages (n : Z) : smap := for_range smap 1 n (fun i m => mset i true m) [].

(* PagesForPageSelection: Ok None is the nil map *)
Definition PagesForPageSelection (n : Z) (toks : list str) (ensureAllforNone : bool) : res (option smap) :=
  match toks with
  | _ :: _ => match selectedPages n toks with Err => Err | Ok m => Ok (Some m) end
  | [] => if negb ensureAllforNone then Ok None else Ok (Some (all_pages n))
  end.

(* RemainingPagesForPageRemoval *)
Definition RemainingPagesForPageRemoval (n : Z) (toks : list str) : res smap :=
  match selectedPages n toks with
  | Err => Err
  | Ok rm => Ok (fold_left (fun (m : smap) (kv : Z * bool) => if snd kv then mset (fst kv) false m else m) rm (all_pages n))
  end.

(* ---- collections ---- *)
(* processPageForCollection / deletePageFromCollection *)
Definition col_put (neg : bool) (j : Z) (cp : list Z) : list Z :=
  if neg then filter (fun i => negb (i =? j)) cp else cp ++ [j].
Definition col_fill (i : Z) (cp : list Z) : list Z := cp ++ [i].

Definition calcPagesForPageCollection (n : Z) (toks : list str) : res (list Z) :=
  calc (list Z) col_put col_fill n toks [].

Inductive cres := COk (l : list Z) | CErrToken | CErrNoPage.
Definition PagesForPageCollection (n : Z) (toks : list str) : cres :=
  match calcPagesForPageCollection n toks with
  | Err => CErrToken
  | Ok [] => CErrNoPage
  | Ok (p :: l) => COk (p :: l)
  end.
