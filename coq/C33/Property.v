(* C33 — Split and merge preserve the page sequence.
   Property theorems only; each is closed by an exact lemma and followed by Print Assumptions.
   Documents are page trees (C33/Pages.v); `pages_of` is the observable page list (marker, effective
   rotation and boxes after inheritance), `ids_of` the marker sequence. *)
From Coq Require Import ZArith List Bool.
From PV Require Import Lib.GoInt C33.Pages C33.Model C33.ProofsSplit C33.ProofsMerge C33.ProofsMain.
Import ListNotations.
Open Scope Z_scope.

(* 1. span arithmetic of writePageSpans/pageSpans: for EVERY page count n >= 0 and span >= 1 the parts
      tile [1..n] in order, every part is non-empty and inside the document, all parts but a possible
      last one have exactly span pages, the last one fewer; span <= 0 is rejected. *)
Theorem C33_span_parts : forall n span, 0 <= n -> 1 <= span ->
  exists full last,
    span_parts n span = Ok (full ++ last) /\
    concat (map rng (full ++ last)) = page_range 1 n /\
    Forall (fun p => snd p - fst p + 1 = span) full /\
    (last = [] \/ exists f, last = [(f, n)] /\ 1 <= n - f + 1 < span) /\
    lenZ full = n / span /\
    Forall (fun p => 1 <= fst p <= snd p /\ snd p <= n) (full ++ last).
Proof. exact span_parts_ok. Qed.
Print Assumptions C33_span_parts.

(* 2. split before page numbers: accepted lists (first in 2..n, strictly increasing) cut [1..n] exactly
      before the listed pages that exist (numbers > n are ignored), all parts non-empty. *)
Theorem C33_along_parts : forall n nrs, valid_page_nrs n nrs = true ->
  exists parts, along_parts n nrs = Ok parts /\
    concat (map rng parts) = page_range 1 n /\
    Forall (fun p => 1 <= fst p <= snd p /\ snd p <= n) parts /\
    map fst parts = 1 :: filter (fun p => p <=? n) nrs.
Proof. exact along_parts_ok. Qed.
Print Assumptions C33_along_parts.

(* 3. invalid requests (span <= 0; empty / unsorted / duplicate page numbers, first < 2 or > n) fail *)
Theorem C33_split_rejects : forall t span nrs,
  (span <= 0 -> split_span t span = Err) /\
  (valid_page_nrs (count_of t) nrs = false -> split_along t nrs = Err).
Proof. exact split_invalid. Qed.
Print Assumptions C33_split_rejects.

(* 4. splitting a document by span: the parts' marker sequences, concatenated in order, are the
      original marker sequence; every part holds exactly the pages of its span; and (extra fact, the
      attributes are C32's business) every observable page attribute is preserved too, rotation taken
      modulo 360, for documents whose pages have a MediaBox (xsafe) -- inherited CropBox and Rotate
      included since addPage makes them explicit. *)
Theorem C33_split_span : forall t span, wf_count t = true -> 1 <= span ->
  exists parts docs,
    span_parts (count_of t) span = Ok parts /\ split_span t span = Ok docs /\
    concat (map ids_of docs) = ids_of t /\
    (Forall xsafe (rpages t) -> concat (map npages_of docs) = npages_of t) /\
    Forall2 part_ok docs parts.
Proof. exact split_span_main. Qed.
Print Assumptions C33_split_span.

Theorem C33_split_along : forall t nrs, wf_count t = true -> valid_page_nrs (count_of t) nrs = true ->
  exists parts docs,
    along_parts (count_of t) nrs = Ok parts /\ split_along t nrs = Ok docs /\
    concat (map ids_of docs) = ids_of t /\
    (Forall xsafe (rpages t) -> concat (map npages_of docs) = npages_of t) /\
    Forall2 part_ok docs parts.
Proof. exact split_along_main. Qed.
Print Assumptions C33_split_along.

(* the two documents on which the code before the fixes lost an inherited CropBox / a negative inherited
   rotation are now reproduced exactly *)
Theorem C33_split_former_witnesses :
  (exists docs, split_span doc_inh_crop 1 = Ok docs /\ concat (map pages_of docs) = pages_of doc_inh_crop) /\
  (exists docs, split_span doc_inh_negrot 1 = Ok docs /\ concat (map pages_of docs) = pages_of doc_inh_negrot).
Proof. exact split_witnesses_fixed. Qed.
Print Assumptions C33_split_former_witnesses.

(* 5. merge without dividers: for any number of documents of any size the result shows exactly the
      concatenation of their page lists (all attributes, thanks to the neutral root), /Count stays right *)
Theorem C33_merge_concat : forall docs, docs <> [] -> Forall (fun d => is_node d = true) docs ->
  exists t, merge_create docs false = Ok t /\
    pages_of t = concat (map pages_of docs) /\
    (Forall (fun d => wf_count d = true) docs -> wf_count t = true).
Proof. exact merge_concat. Qed.
Print Assumptions C33_merge_concat.

(* 6. merge with dividers: exactly one blank page in front of every appended document, nothing else *)
Theorem C33_merge_divider : forall d r t, merge_create (d :: r) true = Ok t ->
  ids_of t = ids_of d ++ flat_map (fun x => 0 :: ids_of x) r /\
  (exists divs, Forall2 (fun (_ : list vpage) v => is_blank v) (map pages_of r) divs /\
     pages_of t = pages_of d ++ concat (map (fun dv => snd dv :: fst dv) (combine (map pages_of r) divs))) /\
  (Forall (fun x => wf_count x = true) (d :: r) -> wf_count t = true).
Proof. exact merge_divider. Qed.
Print Assumptions C33_merge_divider.

(* 7. zip merge: markers interleave a1 b1 a2 b2 ... followed by the remainder of the longer document *)
Theorem C33_zip_ids : forall dest src, is_node dest = true ->
  exists t, zip_merge dest src = Ok t /\
    ids_of t = interleave (ids_of dest) (ids_of src) /\ wf_count t = true.
Proof. exact zip_ids. Qed.
Print Assumptions C33_zip_ids.

(* ... and (extra fact) all page attributes interleave too, whatever the source document inherits
   (weaveInPage / AppendPages pin Rotate, MediaBox, CropBox and Resources), provided no /Pages node of the
   DESTINATION carries a CropBox *)
Theorem C33_zip_pages_partial : forall dest src t, zip_merge dest src = Ok t ->
  no_node_crop dest = true ->
  Forall (fun v => v_media v <> None) (pages_of src) ->
  pages_of t = interleave (pages_of dest) (pages_of src).
Proof. exact zip_pages. Qed.
Print Assumptions C33_zip_pages_partial.

(* the document on which zip merge used to lose the inherited CropBox is now woven in unchanged *)
Theorem C33_zip_former_witness :
  exists t, zip_merge doc_plain doc_inh_crop = Ok t /\
    pages_of t = interleave (pages_of doc_plain) (pages_of doc_inh_crop).
Proof. exact zip_witness_fixed. Qed.
Print Assumptions C33_zip_former_witness.

(* the remaining condition is needed: a source page without any CropBox, woven in below a destination
   /Pages node that has one, shows that CropBox afterwards *)
Theorem C33_zip_pages_refuted :
  exists t, zip_merge doc_inh_crop doc_plain = Ok t /\
    pages_of t <> interleave (pages_of doc_inh_crop) (pages_of doc_plain).
Proof. exact zip_refuted. Qed.
Print Assumptions C33_zip_pages_refuted.

(* 8. object renumbering of a merged source (patchSourceObjectNumbers / lookupTable / appendSourceObjects-
      ToDest): whatever order the map iteration produces, every source object gets a fresh number in
      [dest Size, dest Size + #source objects), no two the same -- so, as all destination numbers are below
      its Size (also when its numbering has holes), no destination object is overwritten, and the
      invariant holds again for the next source. *)
Theorem C33_renumber_fresh : forall keys dsize,
  Forall (fun n => dsize <= n < dsize + lenZ keys) (new_numbers keys dsize) /\
  NoDup (new_numbers keys dsize) /\ length (new_numbers keys dsize) = length keys.
Proof. exact renumber_fresh. Qed.
Print Assumptions C33_renumber_fresh.

Theorem merge_preserves_dest_objects : forall (O : Type) (dest : Z -> option O) (src : list (Z * O)) dsize,
  0 <= dsize -> (forall n, dest n <> None -> 0 <= n < dsize) ->
  (forall n, dest n <> None -> merged_table dest src dsize n = dest n) /\
  (forall n, merged_table dest src dsize n <> None -> 0 <= n < merged_size src dsize).
Proof. exact @merge_dest_objects. Qed.
Print Assumptions merge_preserves_dest_objects.

(* non-vacuity: hypotheses are satisfiable and the functions really compute on a nested document *)
Definition ex_doc : tree :=
  Node (mkAttrs (Some 90) (Some mb1) None false) 3
    [Leaf (mkPage 1 (mkAttrs None None None true) None None None);
     Node (mkAttrs None None None false) 2
       [Leaf (mkPage 2 (mkAttrs (Some 180) (Some (0,0,10,20)) (Some (1,1,9,19)) true) None None None);
        Leaf (mkPage 3 (mkAttrs None None None true) (Some (2,2,8,8)) None None)]].

Example C33_nonvacuous :
  wf_count ex_doc = true /\ Forall xsafe (rpages ex_doc) /\ no_node_crop ex_doc = true /\
  ids_of ex_doc = [1; 2; 3] /\
  span_parts 7 3 = Ok [(1, 3); (4, 6); (7, 7)] /\
  along_parts 7 [3; 6; 9] = Ok [(1, 2); (3, 5); (6, 7)] /\
  (exists docs, split_span ex_doc 2 = Ok docs /\ map ids_of docs = [[1; 2]; [3]]) /\
  (exists t, merge_create [ex_doc; doc_plain; ex_doc] true = Ok t /\ ids_of t = [1; 2; 3; 0; 7; 0; 1; 2; 3]) /\
  (exists t, zip_merge ex_doc doc_plain = Ok t /\ ids_of t = [1; 7; 2; 3]) /\
  (exists t, zip_merge doc_plain ex_doc = Ok t /\ ids_of t = [7; 1; 2; 3]).
Proof.
  split; [reflexivity|]. split.
  { repeat constructor; unfold xsafe; simpl; congruence. }
  split; [reflexivity|]. split; [reflexivity|]. split; [reflexivity|]. split; [reflexivity|].
  repeat split; eexists; split; vm_compute; reflexivity.
Qed.
