package main

import (
	"bytes"
	"fmt"
	"math/rand"

	"github.com/pdfcpu/pdfcpu/pkg/api"
	"github.com/pdfcpu/pdfcpu/pkg/pdfcpu/types"
)

func show(tag string, pdf []byte) {
	obs, err := observe(pdf)
	if err != nil {
		fmt.Println(tag, "observe err", err)
		return
	}
	has, err := api.HasWatermarks(bytes.NewReader(pdf), newConf())
	fmt.Println(tag, "has=", has, err)
	for i, p := range obs {
		fmt.Printf("  page %d kind=%d ownres=%v gs=%v xo=%v annots=%d\n", i+1, p.Kind, p.OwnRes, p.GS, p.XO, p.Annots)
		for _, s := range p.Streams {
			fmt.Printf("     %q\n", s)
		}
	}
}

func main() {
	api.DisableConfigDir()
	rnd := rand.New(rand.NewSource(3))
	_ = rnd
	d := docSpec{Pages: []pageSpec{
		{Kind: 1, Streams: [][]byte{[]byte("0.5 g 10 10 100 50 re f")}},
		{Kind: 2, Streams: [][]byte{[]byte("q 1 0 0 RG"), []byte("0 0 m 100 100 l S"), []byte("Q")}, Flate: true},
		{Kind: 0},
		{Kind: 1, Streams: [][]byte{[]byte("/GS0 gs n")}, Res: 1},
		{Kind: 2, Streams: [][]byte{}},
	}}
	pdf := buildPDF(d)
	show("orig", pdf)
	for _, onTop := range []bool{true, false} {
		for _, sel := range [][]string{nil, {"1-2"}, {"1"}} {
			wm, err := api.TextWatermark("Draft", "rot:30, scale:0.5 abs", onTop, false, types.POINTS)
			if err != nil {
				panic(err)
			}
			var out bytes.Buffer
			err = api.AddWatermarks(bytes.NewReader(pdf), &out, sel, wm, newConf())
			fmt.Println("ADD onTop", onTop, "sel", sel, "err", err)
			if err != nil {
				continue
			}
			show("added", out.Bytes())
			var out2 bytes.Buffer
			err = api.RemoveWatermarks(bytes.NewReader(out.Bytes()), &out2, nil, newConf())
			fmt.Println("REMOVE all err", err)
			if err == nil {
				show("removed", out2.Bytes())
			}
			out2.Reset()
			err = api.RemoveWatermarks(bytes.NewReader(out.Bytes()), &out2, sel, newConf())
			fmt.Println("REMOVE sel err", err)
			if err == nil {
				show("removed-sel", out2.Bytes())
			}
		}
	}
}
