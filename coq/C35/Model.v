(* C35 — document metadata edits as a key/value store.  Executable model, NO proofs.

   Every pdfcpu API call re-reads the document, edits the in-memory context and writes it
   back, so the model is a step function over the *persisted* document:

     d_kw    Info /Keywords text            (pkg/pdfcpu/keyword.go, validate/info.go validateKeywords)
     d_info  the other Info entries         (pkg/pdfcpu/property.go, validate/info.go handleProperties)
     d_pl    Root /PageLayout name          (pkg/api/pageLayout.go, model/document.go)
     d_pm    Root /PageMode name            (pkg/api/pageMode.go,   model/document.go)
     d_vp    Root /ViewerPreferences dict   (pkg/api/viewerPreferences.go, model/document.go, xreftable.go)
     d_att   EmbeddedFiles name tree, as the sorted map it refines (C39)  (model/attach.go)
     d_xmp   catalog /Metadata XMP packet: its <pdf:Keywords> text  (validate/metaData.go
             populateKeywordList, keyword.go removeKeywordsFromMetadata, model/metadata.go)
     d_hasinfo  the trailer has an Info dictionary (KeywordsRemove gives up without one)

   Text strings (keywords, property values) are lists of Unicode code points; the text
   codec (EscapedUTF16String / StringLiteral -> text) is the identity here, that is C13.
   Property names and attachment ids are lists of bytes (UTF-8), because EncodeName /
   DecodeName work on bytes. *)
From Coq Require Import NArith List Bool String Ascii.
Import ListNotations.
Open Scope N_scope.

Definition str := list N.

(* ------------------------------------------------------------------ strings *)
Fixpoint seqb (a b : str) : bool :=
  match a, b with
  | [], [] => true
  | x :: a', y :: b' => (x =? y) && seqb a' b'
  | _, _ => false
  end.

(* Go string < : lexicographic on bytes (= on code points for valid UTF-8) *)
Fixpoint sltb (a b : str) : bool :=
  match a, b with
  | _, [] => false
  | [], _ :: _ => true
  | x :: a', y :: b' => (x <? y) || ((x =? y) && sltb a' b')
  end.

Definition smem (k : str) (l : list str) : bool := existsb (seqb k) l.

Fixpoint asc (s : string) : str :=
  match s with EmptyString => [] | String c r => N_of_ascii c :: asc r end.

Definition to_lower (s : str) : str :=
  map (fun c => if (65 <=? c) && (c <=? 90) then c + 32 else c) s.

(* ------------------------------------------- Go map[string]bool + sort.Strings *)
(* a set of strings kept as a strictly increasing list *)
Fixpoint set_ins (k : str) (l : list str) : list str :=
  match l with
  | [] => [k]
  | x :: r => if seqb k x then l else if sltb k x then k :: l else x :: set_ins k r
  end.

(* ------------------------------------------------- Go map[string]T, listed sorted *)
Section Map.
  Context {V : Type}.
  Fixpoint m_set (k : str) (v : V) (m : list (str * V)) : list (str * V) :=
    match m with
    | [] => [(k, v)]
    | (x, w) :: r => if seqb k x then (k, v) :: r
                     else if sltb k x then (k, v) :: m else (x, w) :: m_set k v r
    end.
  Fixpoint m_get (k : str) (m : list (str * V)) : option V :=
    match m with [] => None | (x, w) :: r => if seqb k x then Some w else m_get k r end.
  Definition m_mem (k : str) (m : list (str * V)) : bool :=
    match m_get k m with Some _ => true | None => false end.
  Definition m_del (k : str) (m : list (str * V)) : list (str * V) :=
    filter (fun kv => negb (seqb k (fst kv))) m.
End Map.

(* ------------------------------------------------------------------ keywords *)
(* validate/info.go validateKeywords: FieldsFunc(c == ',' || c == ';' || c == '\r') *)
Definition is_sep (c : N) : bool := (c =? 44) || (c =? 59) || (c =? 13).

(* unicode.IsSpace *)
Definition is_space (c : N) : bool :=
  ((9 <=? c) && (c <=? 13)) || (c =? 32) || (c =? 133) || (c =? 160) || (c =? 5760)
  || ((8192 <=? c) && (c <=? 8202)) || (c =? 8232) || (c =? 8233) || (c =? 8239)
  || (c =? 8287) || (c =? 12288).

Fixpoint trim_left (s : str) : str :=
  match s with [] => [] | c :: r => if is_space c then trim_left r else s end.
(* strings.TrimSpace *)
Definition trim (s : str) : str := rev (trim_left (rev (trim_left s))).

Definition blank (s : str) : bool := match trim s with [] => true | _ => false end.

(* strings.FieldsFunc: cur = the field being collected *)
Fixpoint fields_aux (cur : str) (s : str) : list str :=
  match s with
  | [] => match cur with [] => [] | _ => [cur] end
  | c :: r => if is_sep c
              then match cur with [] => fields_aux [] r | _ => cur :: fields_aux [] r end
              else fields_aux (cur ++ [c]) r
  end.
Definition fields (s : str) : list str := fields_aux [] s.

(* strings.Join(ss, "; ") *)
Fixpoint join (l : list str) : str :=
  match l with
  | [] => []
  | x :: r => match r with [] => x | _ => x ++ 59 :: 32 :: join r end
  end.

(* validateKeywords: KeywordList[TrimSpace(field)] = true ; KeywordsList: sorted active keys *)
Definition kw_of_text (s : str) : list str :=
  fold_left (fun acc f => set_ins (trim f) acc) (fields s) [].

(* api/string_validation.go validateNoEmptyStrings *)
Definition no_blank (ks : list str) : bool := forallb (fun k => negb (blank k)) ks.

(* ------------------------------------------------------------ property names *)
(* types/string.go needsHexSequence *)
Definition needs_hex (c : N) : bool :=
  (c =? 40) || (c =? 41) || (c =? 60) || (c =? 62) || (c =? 91) || (c =? 93) || (c =? 123)
  || (c =? 125) || (c =? 47) || (c =? 37) || (c =? 35) || (c <? 33) || (126 <? c).

Definition hexd (n : N) : N := if n <? 10 then 48 + n else 87 + n.

(* types/string.go EncodeName (used by writeObjects_pdf.go appendPDFDictEntry) *)
Fixpoint encode_name (s : str) : str :=
  match s with
  | [] => []
  | c :: r => if needs_hex c then 35 :: hexd (c / 16) :: hexd (c mod 16) :: encode_name r
              else c :: encode_name r
  end.

Definition unhex (c : N) : option N :=
  if (48 <=? c) && (c <=? 57) then Some (c - 48)
  else if (97 <=? c) && (c <=? 102) then Some (c - 87)
  else if (65 <=? c) && (c <=? 70) then Some (c - 55)
  else None.

(* types/string.go DecodeName (used by model/parse.go parseName) *)
Fixpoint decode_name (s : str) : option str :=
  match s with
  | [] => Some []
  | c :: r =>
    if c =? 0 then None
    else if c =? 35 then
      match r with
      | h :: l :: r' =>
        match unhex h, unhex l with
        | Some a, Some b =>
          if 16 * a + b =? 0 then None
          else match decode_name r' with Some t => Some ((16 * a + b) :: t) | None => None end
        | _, _ => None
        end
      | _ => None
      end
    else match decode_name r with Some t => Some (c :: t) | None => None end
  end.

(* a byte string that is all white space for strings.TrimSpace (UTF-8 decoded) *)
Fixpoint blank_b (s : str) : bool :=
  match s with
  | [] => true
  | c :: r =>
    if ((9 <=? c) && (c <=? 13)) || (c =? 32) then blank_b r
    else if c =? 194 then                                  (* U+0085, U+00A0 *)
      match r with x :: r1 => ((x =? 133) || (x =? 160)) && blank_b r1 | [] => false end
    else if c =? 225 then                                  (* U+1680 *)
      match r with x :: r1 => match r1 with y :: r2 => (x =? 154) && (y =? 128) && blank_b r2 | [] => false end | [] => false end
    else if c =? 226 then                                  (* U+2000-200A, 2028, 2029, 202F, 205F *)
      match r with x :: r1 => match r1 with y :: r2 =>
        (((x =? 128) && (((128 <=? y) && (y <=? 138)) || (y =? 168) || (y =? 169) || (y =? 175)))
         || ((x =? 129) && (y =? 159))) && blank_b r2 | [] => false end | [] => false end
    else if c =? 227 then                                  (* U+3000 *)
      match r with x :: r1 => match r1 with y :: r2 => (x =? 128) && (y =? 128) && blank_b r2 | [] => false end | [] => false end
    else false
  end.

(* validate/info.go DocumentProperty: names AddProperties / RemoveProperties refuse *)
(* (the string constants are evaluated to code lists so that no Coq string is extracted) *)
Definition reserved_keys : list str :=
  Eval vm_compute in [asc "Keywords"; asc "Producer"; asc "CreationDate"; asc "ModDate"; asc "Trapped"].
Definition reserved_key (k : str) : bool := smem k reserved_keys.

(* validate/info.go validateDocInfoDictEntry: entries that have their own case and never
   reach handleProperties (stored by AddProperties, not listed by Properties) *)
Definition std_keys : list str :=
  Eval vm_compute in [asc "Title"; asc "Author"; asc "Subject"; asc "Creator"; asc "AAPL:Keywords"].
Definition std_key (k : str) : bool := smem k std_keys.

Definition info := list (str * str).

(* validate/info.go handleProperties over every Info entry: Properties[key] = v for a
   non-empty text value (the key was decoded once, by the parser) *)
Fixpoint props_read (i : info) : info :=
  match i with
  | [] => []
  | (k, v) :: r =>
    let m := props_read r in
    if std_key k then m
    else match v with
         | [] => m
         | _ => m_set k v m
         end
  end.

(* write (EncodeName) then parse (parseName: DecodeName); a name the parser rejects
   (NUL) is lost *)
Fixpoint persist_info (i : info) : info :=
  match i with
  | [] => []
  | (k, v) :: r => match decode_name (encode_name k) with
                   | Some k' => m_set k' v (persist_info r)
                   | None => persist_info r
                   end
  end.

(* api/string_validation.go validateProperties *)
Definition padd_valid (kvs : list (str * str)) : bool :=
  forallb (fun kv => negb (blank_b (fst kv)) && negb (reserved_key (fst kv)) && negb (blank (snd kv))) kvs.
(* validateNoEmptyStrings + validatePropertyNames *)
Definition prem_valid (ks : list str) : bool :=
  forallb (fun k => negb (blank_b k) && negb (reserved_key k)) ks.

(* ------------------------------------------------------- page layout / mode *)
Definition pl_names : list str := Eval vm_compute in
  [asc "SinglePage"; asc "TwoColumnLeft"; asc "TwoColumnRight"; asc "TwoPageLeft"; asc "TwoPageRight"; asc "OneColumn"].
Definition pm_names : list str := Eval vm_compute in
  [asc "UseNone"; asc "UseOutlines"; asc "UseThumbs"; asc "FullScreen"; asc "UseOC"; asc "UseAttachments"].

(* PageLayout.String / PageMode.String *)
Definition qmark : str := Eval vm_compute in asc "?".
Definition enum_name (tbl : list str) (v : N) : str := nth (N.to_nat v) tbl qmark.
(* PageLayoutFor / PageModeFor: switch strings.ToLower(s) *)
Fixpoint enum_for_aux (tbl : list str) (i : N) (s : str) : option N :=
  match tbl with
  | [] => None
  | x :: r => if seqb (to_lower x) s then Some i else enum_for_aux r (i + 1) s
  end.
Definition enum_for (tbl : list str) (s : str) : option N :=
  match s with [] => None | _ => enum_for_aux tbl 0 (to_lower s) end.

(* ------------------------------------------------------- viewer preferences *)
(* slots: 0 HideToolbar 1 HideMenubar 2 HideWindowUI 3 FitWindow 4 CenterWindow 5 DisplayDocTitle
          6 NonFullScreenPageMode (a PageMode number) 7 Direction 8 ViewArea 9 ViewClip
          10 PrintArea 11 PrintClip 12 PrintScaling 13 Duplex 14 PickTrayByPDFSize 15 NumCopies
   (PrintPageRange and Enforce are not modelled) *)
Definition vprefs := list (option N).
Definition vp_slot (vp : vprefs) (i : nat) : option N := nth i vp None.
Definition has (o : option N) : bool := match o with Some _ => true | None => false end.

(* model/document.go ViewerPreferences.Validate(version); version is 10*major+minor *)
Definition vp_validate (ver : N) (vp : vprefs) : bool :=
  negb (has (vp_slot vp 7) && (ver <? 13))
  && negb ((has (vp_slot vp 8) || has (vp_slot vp 9) || has (vp_slot vp 10) || has (vp_slot vp 11))
           && ((ver <? 14) || (17 <? ver)))
  && negb (has (vp_slot vp 12) && (ver <? 16))
  && negb ((has (vp_slot vp 13) || has (vp_slot vp 14) || has (vp_slot vp 15)) && (ver <? 17)).

(* Populate: a field that is set in the new value replaces the old one *)
Fixpoint vp_merge (old new : vprefs) : vprefs :=
  match old, new with
  | o :: old', n :: new' => (match n with Some _ => n | None => o end) :: vp_merge old' new'
  | [], _ => new
  | _, [] => old
  end.

Definition in_range (o : option N) (n : N) : bool := match o with Some v => v <? n | None => true end.

(* validate/viewerPreferences.go on what BindViewerPreferences wrote:
   NonFullScreenPageMode must be one of UseNone UseOutlines UseThumbs UseOC (PageOnly) *)
Definition vp_readable (vp : vprefs) : bool :=
  (match vp_slot vp 6 with
   | Some v => (v =? 0) || (v =? 1) || (v =? 2) || (v =? 4)
   | None => true end)
  && in_range (vp_slot vp 7) 2 && in_range (vp_slot vp 8) 5 && in_range (vp_slot vp 9) 5
  && in_range (vp_slot vp 10) 5 && in_range (vp_slot vp 11) 5 && in_range (vp_slot vp 12) 2
  && in_range (vp_slot vp 13) 3
  && (match vp_slot vp 15 with Some v => 1 <=? v | None => true end).

(* ------------------------------------------------------------- attachments *)
(* an attachment: name tree key -> (file name = file spec UF/F, description = Desc, bytes);
   Names.Process visits the entries in key order *)
Definition att_val := (str * str * list N)%type.
Definition atts := list (str * att_val).
Definition a_fname (v : att_val) : str := fst (fst v).
Definition a_desc (v : att_val) : str := snd (fst v).
Definition a_data (v : att_val) : list N := snd v.

(* model/attach.go SearchEmbeddedFilesNameTreeNodeByContent: the first entry, in key order,
   whose file name or description equals s *)
Fixpoint att_search (p : str) (m : atts) : option (str * att_val) :=
  match m with
  | [] => None
  | (k, v) :: r => if seqb p (a_fname v) || seqb p (a_desc v) then Some (k, v) else att_search p r
  end.

(* ExtractAttachments / removeAttachment: the exact name tree key first, the content search
   only when no key matches *)
Definition att_find (p : str) (m : atts) : option (str * att_val) :=
  match m_get p m with Some v => Some (p, v) | None => att_search p m end.

(* ExtractAttachments(ids): names that resolve to nothing are skipped; [] = all, in key order *)
Definition extract_many (ids : list str) (m : atts) : list (str * att_val) :=
  match ids with
  | [] => m
  | _ => flat_map (fun id => match att_find id m with Some e => [e] | None => [] end) ids
  end.

(* RemoveAttachments(ids): one after the other; a name that resolves to nothing refuses the call *)
Fixpoint remove_seq (ids : list str) (m : atts) : option atts :=
  match ids with
  | [] => Some m
  | id :: r => match att_find id m with
               | Some (k, _) => remove_seq r (m_del k m)
               | None => None
               end
  end.

(* nameTree.go insertUniqueIntoLeaf in rename mode: a present key gets "\x01" appended
   until it is free (the tree-level behaviour, and its defect, are C39's) *)
Fixpoint uniq_id (fuel : nat) (id : str) (m : atts) : str :=
  match fuel with
  | O => id
  | S f => if m_mem id m then uniq_id f (id ++ [1]) m else id
  end.

(* ---------------------------------------------------------------- document *)
(* catalog XMP: None = no /Metadata; Some None = a packet without <pdf:Keywords>;
   Some (Some t) = a packet whose <pdf:Keywords> element has the (XML-decoded) text t *)
Definition xmpst := option (option str).

Record doc := Doc {
  d_ver : N;
  d_kw : option str;
  d_info : info;
  d_pl : option str;
  d_pm : option str;
  d_vp : option vprefs;
  d_att : atts;
  d_xmp : xmpst;
  d_hasinfo : bool
}.

Definition empty_doc (ver : N) : doc := Doc ver None [] None None None [] None false.
(* a starting document with an Info dictionary (possibly with /Keywords) and catalog XMP *)
Definition init_doc (ver : N) (hasinfo : bool) (kw : option str) (x : xmpst) : doc :=
  Doc ver (if hasinfo then kw else None) [] None None None [] x hasinfo.
(* ... and with an EmbeddedFiles name tree (entries sorted by key by the harness) *)
Definition init_doc_att (ver : N) (hasinfo : bool) (kw : option str) (x : xmpst) (a : atts) : doc :=
  Doc ver (if hasinfo then kw else None) [] None None None
      (fold_left (fun m e => m_set (fst e) (snd e) m) a []) x hasinfo.

Definition set_kw d x := Doc (d_ver d) x (d_info d) (d_pl d) (d_pm d) (d_vp d) (d_att d) (d_xmp d) (d_hasinfo d).
Definition set_info d x := Doc (d_ver d) (d_kw d) x (d_pl d) (d_pm d) (d_vp d) (d_att d) (d_xmp d) (d_hasinfo d).
Definition set_pl d x := Doc (d_ver d) (d_kw d) (d_info d) x (d_pm d) (d_vp d) (d_att d) (d_xmp d) (d_hasinfo d).
Definition set_pm d x := Doc (d_ver d) (d_kw d) (d_info d) (d_pl d) x (d_vp d) (d_att d) (d_xmp d) (d_hasinfo d).
Definition set_vp d x := Doc (d_ver d) (d_kw d) (d_info d) (d_pl d) (d_pm d) x (d_att d) (d_xmp d) (d_hasinfo d).
Definition set_att d x := Doc (d_ver d) (d_kw d) (d_info d) (d_pl d) (d_pm d) (d_vp d) x (d_xmp d) (d_hasinfo d).
Definition set_xmp d x := Doc (d_ver d) (d_kw d) (d_info d) (d_pl d) (d_pm d) (d_vp d) (d_att d) x (d_hasinfo d).

(* ReadAndValidate succeeds *)
Definition readable (d : doc) : bool :=
  match d_vp d with Some vp => vp_readable vp | None => true end.

(* api.Write followed by the next read; write.go writes the header %PDF-1.7 for every
   document that is not PDF 2.0 and drops a Root /Version *)
Definition persist (d : doc) : doc :=
  Doc (if d_ver d =? 20 then 20 else 17) (d_kw d) (persist_info (d_info d)) (d_pl d) (d_pm d) (d_vp d) (d_att d)
      (d_xmp d) true.   (* write.go ensureInfoDictAndFileID: every written document has an Info dictionary *)

(* validate/xReftable.go validateRootObject: the Root entry Metadata (sinceVersion 1.4) is
   skipped for older documents; validateRootMetadata -> populateKeywordList otherwise *)
Definition xmp_text3 (ver : N) (x : xmpst) : str :=
  if ver <? 14 then [] else match x with Some (Some t) => t | _ => [] end.

(* KeywordList after reading: the Info /Keywords fields and the XMP pdf:Keywords fields,
   each trimmed, in one map *)
Definition kw_read3 (ver : N) (kw : option str) (x : xmpst) : list str :=
  fold_left (fun acc f => set_ins (trim f) acc) (fields (xmp_text3 ver x))
            (match kw with None => [] | Some s => kw_of_text s end).
Definition kw_read (d : doc) : list str := kw_read3 (d_ver d) (d_kw d) (d_xmp d).

(* keyword.go removeKeywordsFromMetadata (model/metadata.go removeKeywords cuts the
   Keywords element out of the packet): new state, and whether the packet changed *)
Definition xmp_scrub (x : xmpst) : xmpst * bool :=
  match x with Some (Some _) => (Some None, true) | _ => (x, false) end.

Inductive op :=
| KAdd (ks : list str)
| KRemove (ks : list str)             (* [] = remove all *)
| PAdd (kvs : list (str * str))
| PRemove (ks : list str)             (* [] = remove all *)
| LSet (v : N) | LReset
| MSet (v : N) | MReset
| VSet (vp : vprefs) | VReset
| AAdd (id : str) (desc : str) (data : list N)   (* file "id,desc" *)
| ARemove (ids : list str).           (* [] = remove all *)

Definition fail (d : doc) : doc * bool := (d, false).
Definition done (d : doc) : doc * bool := (persist d, true).

Definition step (d : doc) (o : op) : doc * bool :=
  if negb (readable d) then fail d else
  match o with
  | KAdd ks =>          (* api.AddKeywords, pdfcpu.KeywordsAdd, finalizeKeywords *)
    if negb (no_blank ks) then fail d else
    let cur := fold_left (fun acc k => set_ins (trim k) acc) ks (kw_read d) in
    done (set_xmp (set_kw d (Some (join cur))) (fst (xmp_scrub (d_xmp d))))
  | KRemove [] =>       (* pdfcpu.KeywordsRemove, len(keywords) == 0 *)
    if negb (d_hasinfo d) then fail d else
    let removed := (match d_kw d with Some _ => true | None => false end)
                   || snd (xmp_scrub (d_xmp d))
                   || (match kw_read d with [] => false | _ => true end) in
    if removed then done (set_xmp (set_kw d None) (fst (xmp_scrub (d_xmp d)))) else fail d
  | KRemove ks =>
    if negb (no_blank ks) then fail d else
    if negb (d_hasinfo d) then fail d else
    let rs := map trim ks in
    let cur := kw_read d in
    if existsb (fun k => smem k rs) cur
    then done (set_xmp (set_kw d (Some (join (filter (fun k => negb (smem k rs)) cur))))
                       (fst (xmp_scrub (d_xmp d))))   (* finalizeKeywords scrubs the XMP keywords *)
    else fail d
  | PAdd kvs =>         (* api.AddProperties, pdfcpu.PropertiesAdd *)
    if negb (padd_valid kvs) then fail d else
    done (set_info d (fold_left (fun m kv => m_set (fst kv) (snd kv) m) kvs (d_info d)))
  | PRemove [] =>       (* pdfcpu.removeAllProperties: delete(d, k) for k in ctx.Properties *)
    (* ... and drops the catalog /Metadata ("removes all properties and catalog XMP metadata") *)
    let ps := props_read (d_info d) in
    match ps, d_xmp d with
    | [], None => fail d
    | _, _ => done (set_xmp (set_info d (fold_left (fun m kv => m_del (fst kv) m) ps (d_info d))) None)
    end
  | PRemove ks =>       (* pdfcpu.PropertiesRemove *)
    if negb (prem_valid ks) then fail d else
    if existsb (fun k => m_mem k (d_info d)) ks
    then done (set_info d (fold_left (fun m k => m_del k m) ks (d_info d)))
    else fail d
  | LSet v => if v <? 6 then done (set_pl d (Some (enum_name pl_names v))) else fail d
  | LReset => done (set_pl d None)
  | MSet v => if v <? 6 then done (set_pm d (Some (enum_name pm_names v))) else fail d
  | MReset => done (set_pm d None)
  | VSet vp =>          (* api.SetViewerPreferences: Validate, Populate, BindViewerPreferences *)
    if negb (vp_validate (d_ver d) vp) then fail d else
    done (set_vp d (Some (match d_vp d with None => vp | Some old => vp_merge old vp end)))
  | VReset => done (set_vp d None)
  | AAdd id desc data =>   (* api.AddAttachments with one file "id,desc"; F = UF = the (renamed) key *)
    let k := uniq_id (S (List.length (d_att d))) id (d_att d) in
    done (set_att d (m_set k (k, desc, data) (d_att d)))
  | ARemove [] =>       (* RemoveAttachments: no name tree -> false; else drop the tree *)
    match d_att d with [] => fail d | _ => done (set_att d []) end
  | ARemove ids =>
    if negb (forallb (fun k => negb (blank_b k)) ids) then fail d else
    match remove_seq ids (d_att d) with
    | Some m => done (set_att d m)
    | None => fail d
    end
  end.

Fixpoint run (d : doc) (h : list op) : doc :=
  match h with [] => d | o :: r => run (fst (step d o)) r end.

(* status of the last operation of a history *)
Fixpoint last_ok (d : doc) (h : list op) : bool :=
  match h with
  | [] => true
  | [o] => snd (step d o)
  | o :: r => last_ok (fst (step d o)) r
  end.

(* --------------------------------------------------- what the list calls show *)
Record store := Store {
  s_ver : N;
  s_kw : list str;               (* api.Keywords *)
  s_pr : info;                   (* api.Properties, sorted by name *)
  s_pl : option N;               (* api.PageLayout *)
  s_pm : option N;               (* api.PageMode *)
  s_vp : option vprefs;          (* api.ViewerPreferences *)
  s_att : atts                   (* api.Attachments + ExtractAttachmentsRaw *)
}.

Definition observe (d : doc) : option store :=
  if negb (readable d) then None else
    Some (Store (d_ver d) (kw_read d) (props_read (d_info d))
                (match d_pl d with None => None | Some n => enum_for pl_names n end)
                (match d_pm d with None => None | Some n => enum_for pm_names n end)
                (d_vp d) (d_att d)).

(* api.ExtractAttachmentsRaw(rs, "", []string{id}): the bytes it returns *)
Definition extract (d : doc) (id : str) : option (list N) :=
  if readable d then match att_find id (d_att d) with Some (_, v) => Some (a_data v) | None => None end
  else None.

(* the names the harness asks for after every step: every key, file name and description
   of the store and one absent name, without blanks, sorted *)
Definition att_probes (m : atts) : list str :=
  filter (fun p => negb (blank_b p))
    (fold_left (fun acc p => set_ins p acc)
       (map fst m ++ map (fun e => a_fname (snd e)) m ++ map (fun e => a_desc (snd e)) m ++ [[122; 122]]) []).

(* ------------------------------------------------ the specification (M-KV) *)
(* the abstract store is the same record; its operations never encode anything *)
Definition empty_store (ver : N) : store := Store ver [] [] None None None [].

Definition astep (s : store) (o : op) : store :=
  let '(Store ver kw pr pl pm vp att) := s in
  match o with
  | KAdd ks => if no_blank ks then Store ver (fold_left (fun acc k => set_ins k acc) ks kw) pr pl pm vp att else s
  | KRemove [] => Store ver [] pr pl pm vp att
  | KRemove ks => if no_blank ks then Store ver (filter (fun k => negb (smem k ks)) kw) pr pl pm vp att else s
  | PAdd kvs => if padd_valid kvs then Store ver kw (fold_left (fun m kv => m_set (fst kv) (snd kv) m) kvs pr) pl pm vp att else s
  | PRemove [] => Store ver kw [] pl pm vp att
  | PRemove ks => if prem_valid ks then Store ver kw (fold_left (fun m k => m_del k m) ks pr) pl pm vp att else s
  | LSet v => if v <? 6 then Store ver kw pr (Some v) pm vp att else s
  | LReset => Store ver kw pr None pm vp att
  | MSet v => if v <? 6 then Store ver kw pr pl (Some v) vp att else s
  | MReset => Store ver kw pr pl None vp att
  | VSet new => if vp_validate ver new
                then Store ver kw pr pl pm (Some (match vp with None => new | Some old => vp_merge old new end)) att
                else s
  | VReset => Store ver kw pr pl pm None att
  | AAdd id desc data => Store ver kw pr pl pm vp (m_set id (id, desc, data) att)
  | ARemove [] => Store ver kw pr pl pm vp []
  | ARemove ids =>
    if forallb (fun k => negb (blank_b k)) ids
    then match remove_seq ids att with Some m => Store ver kw pr pl pm vp m | None => s end
    else s
  end.

Definition arun (s : store) (h : list op) : store := fold_left astep h s.

(* ------------------------------------------------ well-formedness of inputs *)
(* defect (i): a keyword lists back as added only if it has no separator and no outer blank *)
Definition wfk (k : str) : bool :=
  negb (existsb is_sep k) && seqb (trim k) k && (match k with [] => false | _ => true end).

(* open finding: NUL cannot be written in a name (the property is silently dropped) *)
Definition name_bytes (k : str) : bool := forallb (fun c => negb (c =? 0) && (c <? 256)) k.

(* a property name: bytes without NUL, and not one of the Info entries that pdfcpu keeps
   outside the properties (Title, Author, Subject, Creator, AAPL:Keywords) *)
Definition wfname (k : str) : bool := name_bytes k && negb (std_key k).

(* every field holds a value of its enumeration: NonFullScreenPageMode one of
   NFSPageModeUseNone/UseOutlines/UseThumb/UseOC (= PageMode 0,1,2,4), Direction < 2, ... ,
   NumCopies >= 1 (api.SetViewerPreferences does not check ranges; a value outside them is
   written as "?" or as a name the reader rejects) *)
Definition wf_vp (vp : vprefs) : bool := vp_readable vp.

Definition wf_op (o : op) : bool :=
  match o with
  | KAdd ks | KRemove ks => forallb wfk ks
  | PAdd kvs => forallb (fun kv => wfname (fst kv)) kvs
  | PRemove ks => forallb wfname ks
  | VSet vp => wf_vp vp && Nat.eqb (List.length vp) 16
  | _ => true
  end.

(* attachments: the id of every add is not in the store at that moment (rename mode is C39's) *)
Fixpoint fresh_adds (h : list op) (s : store) : bool :=
  match h with
  | [] => true
  | o :: r =>
    (match o with AAdd id _ _ => negb (m_mem id (s_att s)) | _ => true end)
    && fresh_adds r (astep s o)
  end.

(* ------------------------------------------------ wire helpers for the glue *)
Definition run_from_empty (ver : N) (h : list op) : doc := run (empty_doc ver) h.
Definition last_ok_from_empty (ver : N) (h : list op) : bool := last_ok (empty_doc ver) h.
Definition init_store (d : doc) : store := Store (d_ver d) (kw_read d) [] None None None (d_att d).
