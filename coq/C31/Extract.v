From Coq Require Import Extraction ExtrOcamlBasic.
From PV Require Import Lib.ExtBase C31.Model C31.Spec.
Extraction "model.ml" ext_base_z ext_base_n ext_base_nat ext_base_res ext_base_list
  ParsePageSelection PagesForPageSelection RemainingPagesForPageRemoval PagesForPageCollection in_syntax.
