(* C27 — definitions on top of the shared signed-byte-range model (coq/C28/Model.v, which
   transcribes signedData / bytesForByteRange / validateContentsGap of pkg/pdfcpu/sign/sign.go).
   No proofs. *)
From Coq Require Import ZArith NArith List Bool.
From PV Require Import Lib.GoInt C28.Generated C28.Model.
Import ListNotations.
Open Scope Z_scope.

(* the byte of f at offset i *)
Definition byteAt (f : list N) (i : Z) : N := nth (Z.to_nat i) f 0%N.

(* offset i lies inside one of the two signed ranges of /ByteRange arr *)
Definition inSigned (arr : list Z) (i : Z) : Prop :=
  match arr with
  | [o1; l1; o2; l2] => (o1 <= i < o1 + l1) \/ (o2 <= i < o2 + l2)
  | _ => False
  end.

(* offset i lies inside the excluded gap *)
Definition inGap (arr : list Z) (i : Z) : Prop :=
  match arr with
  | [o1; l1; o2; l2] => o1 + l1 <= i < o2
  | _ => False
  end.

(* What every SubFilter handler does with the signed bytes: signedData must succeed and the
   digest of its result is compared with the digest protected by the signature value
   (pkcs7.VerifyMessageDigestDetached / VerifyMessageDigestEmbedded / sha1+rsa.VerifyPKCS1v15).
   [digest] is the external hash function. *)
Definition accepts (digest : list N -> list N) (f : list N) (arr : list Z)
    (contents : option (list N)) (signedDigest : list N) : Prop :=
  exists d, signedData f arr contents = Ok d /\ digest d = signedDigest.

(* ---------- which data is verified (pkg/pdfcpu/sign/pkcs7.go:217-219, verifyP7Digest :579,
   verifyP7Signature -> pkcs7.checkSignature, pkcs7/verify.go:105) ----------
   cmsContent = p7.Content as parsed from the CMS in /Contents (empty: no eContent).
     detached := len(p7.Content) == 0 ; if detached { p7.Content = data }
   The decision does NOT look at the SubFilter. *)
Definition isNil {A} (l : list A) : bool := match l with [] => true | _ => false end.

Inductive digestCheck :=
| AttrDigestOf (hashed : list N)                  (* VerifyMessageDigestDetached: H(hashed) = messageDigest attribute *)
| Sha1EqualsContent (hashed content : list N).    (* VerifyMessageDigestEmbedded: SHA1(hashed) = p7.Content *)

Definition dataToVerify (cmsContent data : list N) : digestCheck :=
  if isNil cmsContent then AttrDigestOf data else Sha1EqualsContent data cmsContent.

Definition hashedData (c : digestCheck) : list N :=
  match c with AttrDigestOf d => d | Sha1EqualsContent d _ => d end.

(* the content the signer's signature (its messageDigest attribute) is checked against *)
Definition signatureContent (cmsContent data : list N) : list N :=
  if isNil cmsContent then data else cmsContent.

(* verifyP7SignerWithContentType (sign/pkcs7.go:330), DocModified only, one signer whose
   certificate is found.  The case split (CMS content encapsulated?, signed attributes present?)
   is transcribed from verifyP7Digest (sign/pkcs7.go:579) and pkcs7.checkSignature
   (pkcs7/verify.go:105):
     attrOK x        : H(x) equals the messageDigest attribute (VerifyMessageDigestDetached)
     sha1eq d c      : SHA1(d) = c                              (VerifyMessageDigestEmbedded)
     sigAttrsOK      : the cryptographic signature over the signed attributes verifies
     sigContentOK x  : the cryptographic signature verifies directly over x (no signed attributes)
   verifyP7Digest chooses by DETACHED vs ENCAPSULATED, not by the presence of attributes:
     detached, no attributes -> malformed (DocModified stays Unknown)
     detached                -> H(ByteRange bytes) vs messageDigest attribute
     encapsulated            -> SHA1(ByteRange bytes) vs p7.Content, with or without attributes
   checkSignature: with attributes the crypto check over the attributes comes first (failure:
   Unknown), then the content binding H(content) vs messageDigest (mismatch: True); without
   attributes the signature is checked over the content itself (failure: Unknown). *)
Inductive digestOutcome := DigestOK | DigestMismatch | DigestMalformed.

Definition p7Digest (attrOK : list N -> bool) (sha1eq : list N -> list N -> bool)
    (hasAttrs : bool) (cmsContent data : list N) : digestOutcome :=
  match dataToVerify cmsContent data with
  | AttrDigestOf d => if negb hasAttrs then DigestMalformed
                      else if attrOK d then DigestOK else DigestMismatch
  | Sha1EqualsContent d c => if sha1eq d c then DigestOK else DigestMismatch
  end.

Definition p7Verdict (attrOK : list N -> bool) (sha1eq : list N -> list N -> bool)
    (hasAttrs sigAttrsOK : bool) (sigContentOK : list N -> bool) (cmsContent data : list N) : tri :=
  let content := signatureContent cmsContent data in
  let after_signature :=
    match p7Digest attrOK sha1eq hasAttrs cmsContent data with
    | DigestOK => TFalse            (* markDocumentUnmodified *)
    | DigestMismatch => TTrue       (* markInvalidEvidence(DocModified, True) *)
    | DigestMalformed => TUnknown   (* markMalformedEvidence *)
    end in
  if hasAttrs then
    if negb sigAttrsOK then TUnknown
    else if negb (attrOK content) then TTrue
    else after_signature
  else
    if negb (sigContentOK content) then TUnknown else after_signature.

(* sign/pkcs1.go:290 verifyRSASHA1Signature + handleP1VerificationError (adbe.x509.rsa_sha1):
   sigMatches d: rsa.VerifyPKCS1v15(key, SHA1, SHA1(d), signature) succeeds *)
Definition p1Verdict (sigMatches : list N -> bool) (data : list N) : tri :=
  if sigMatches data then TFalse else TTrue.

Fixpoint eqbList (a b : list N) : bool :=
  match a, b with
  | [], [] => true
  | x :: a', y :: b' => (x =? y)%N && eqbList a' b'
  | _, _ => false
  end.

(* harness entry points: the messageDigest attribute is the digest of [good]; the attribute-less
   signature was made over [goodSig]; sha1ok tells whether SHA1(ByteRange bytes) = cmsContent
   (computed by the harness) *)
Definition docModifiedP7With (good goodSig : list N) (hasAttrs sha1ok sigAttrsOK : bool) (cmsContent : list N) :=
  docModified (p7Verdict (fun x => eqbList x good) (fun _ _ => sha1ok) hasAttrs sigAttrsOK
                         (fun x => eqbList x goodSig) cmsContent).
Definition docModifiedP1With (good : list N) :=
  docModified (p1Verdict (fun x => eqbList x good)).

(* ---------- several signers (sign/pkcs7.go:222-249 validatePKCS7Signatures loop,
   finalizePKCS7Result, sign.go:finalizeLocalSignatureResult, evidence.go:merge/complete) ----------
   Per signer: sigAuth (the cryptographic signature verifies), digestOK (content digest
   matches), otherOK (profile, certificate, path and revocation assessments all good).
   auth = certified || authoritative; all = validateAll.
     for i, signer := range p7.Signers { verify; merge; if auth && !all { break } } *)
Record signerAssess := mkSigner { sigAuth : bool; digestOK : bool; otherOK : bool }.
Inductive p7Status := StValid | StInvalid | StUnknown.

Definition processedSigners {A} (auth all : bool) (l : list A) : list A :=
  if auth && negb all then firstn 1 l else l.

Definition signerFails (s : signerAssess) : bool := negb (sigAuth s) || negb (digestOK s).
Definition signerComplete (s : signerAssess) : bool := sigAuth s && digestOK s && otherOK s.

Definition p7StatusOf (auth all : bool) (signers : list signerAssess) : p7Status :=
  let ps := processedSigners auth all signers in
  if existsb signerFails ps then StInvalid                 (* markInvalidEvidence: sticky *)
  else if negb (isNil ps) && forallb signerComplete ps then StValid
  else StUnknown.
