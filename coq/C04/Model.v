(* C04 -- The CLI never overwrites existing outputs without --force.
   Hand-written model (no proofs). Transcribed from /repo/cmd/pdfcpu/common.go
   (ensureOutputFileAvailable, ensureOutputDirEmpty, ensureOutputDirOrFileAvailable),
   root.go (--force persistent flag -> global `force`), main.go (error -> stderr, exit 1)
   and the common shape of every handler:
       if err := ensureOutput...(out); err != nil { return err }
       return runCommand(cli.XCommand(...))
   The table of commands (which command calls which guard) is NOT written here: it is
   coq/C04/Generated.v, regenerated from the source by go/cmd/genc04 on every run. *)
From Coq Require Import String List NArith Bool.
Import ListNotations.
Open Scope string_scope.

(* ---------- what the guards look at ---------- *)

(* the output argument as the guards classify it: "" (no output named) | "-" (stdout) | a path *)
Inductive oname := NoName | Dash | Named.

(* what os.Stat / os.ReadDir observe at a path.
   StatErr = any error other than "does not exist" (EACCES, ENOTDIR below a regular file, ...). *)
Inductive pstate := Absent | RegFile | EmptyDir | NonEmptyDir | StatErr.

Inductive msg :=
  | MsgFile   (* "refusing to overwrite existing file: %s\nUse --force to overwrite." *)
  | MsgDir.   (* "refusing to write to non-empty directory: %s\nUse --force to write anyway." *)

Inductive decision :=
  | Proceed            (* guard returned nil *)
  | Refuse (m : msg)   (* guard returned one of the two refusal errors *)
  | Fail.              (* guard returned the error of os.Stat / os.ReadDir *)

(* common.go: ensureOutputFileAvailable
     if outFile == "" || outFile == "-" || force { return nil }
     if _, err := os.Stat(outFile); err != nil { if os.IsNotExist(err) { return nil }; return err }
     return fmt.Errorf("refusing to overwrite existing file: ...") *)
Definition ensureOutputFileAvailable (outFile : oname) (force : bool) (s : pstate) : decision :=
  match outFile with
  | NoName | Dash => Proceed
  | Named =>
    if force then Proceed else
    match s with
    | Absent => Proceed
    | StatErr => Fail
    | RegFile | EmptyDir | NonEmptyDir => Refuse MsgFile
    end
  end.

(* common.go: ensureOutputDirEmpty
     if outDir == "" || outDir == "-" || force { return nil }
     entries, err := os.ReadDir(outDir)
     if err != nil { if os.IsNotExist(err) { return nil }; return err }    -- a regular file gives ENOTDIR
     if len(entries) == 0 { return nil }
     return fmt.Errorf("refusing to write to non-empty directory: ...") *)
Definition ensureOutputDirEmpty (outDir : oname) (force : bool) (s : pstate) : decision :=
  match outDir with
  | NoName | Dash => Proceed
  | Named =>
    if force then Proceed else
    match s with
    | Absent => Proceed
    | RegFile | StatErr => Fail
    | EmptyDir => Proceed
    | NonEmptyDir => Refuse MsgDir
    end
  end.

(* common.go: ensureOutputDirOrFileAvailable
     if outFile == "" { return ensureOutputDirEmpty(outDir) }
     return ensureOutputFileAvailable(filepath.Join(outDir, outFile))
   `joined` is the class of filepath.Join(outDir, outFile), sJoined what is at that path. *)
Definition ensureOutputDirOrFileAvailable (outDir outFile joined : oname) (force : bool)
           (sDir sJoined : pstate) : decision :=
  match outFile with
  | NoName => ensureOutputDirEmpty outDir force sDir
  | _ => ensureOutputFileAvailable joined force sJoined
  end.

(* ---------- the command table (rows are produced by genc04) ---------- *)

Inductive okind := OFile | ODir | ODirFile.     (* Use: outFile* | outDir | outDir [ outFile ] *)
Inductive guard := GFile | GDir | GDirOrFile.

Record row := mkRow {
  r_path : string;          (* command path, e.g. "pages insert" *)
  r_kind : okind;           (* from the out* placeholders of the Use string *)
  r_guards : list guard;    (* distinct guard functions the RunE path reaches *)
  r_dispatches : N;         (* runCommand / cli.* / file writing calls the RunE path reaches *)
  r_uncovered : N;          (* ... of which reached on some path on which no guard was called before *)
  r_conds : list string;    (* conditions enclosing the guard calls (through the call chain) *)
  r_gargs : list string     (* printed argument lists of the guard calls *)
}.

Definition guard_eqb (a b : guard) : bool :=
  match a, b with GFile, GFile | GDir, GDir | GDirOrFile, GDirOrFile => true | _, _ => false end.

Definition expected_guard (k : okind) : guard :=
  match k with OFile => GFile | ODir => GDir | ODirFile => GDirOrFile end.

Definition mem (s : string) (l : list string) : bool := existsb (String.eqb s) l.

(* Conditions under which the handlers call the guard, each reviewed against the source:
   when one of them is false the output is not named at all (the optional argument is absent,
   or the argument in that position has no .pdf extension and is therefore a keyword / field id /
   object number), or it is "-" (stdout). None of them depends on anything else. *)
Definition benign_conds : list string := [
  "len(args) == 2"; "len(args) == 3"; "len(args) == 4"; "!(len(args) == 4)";
  "len(args) > 1"; "argCount > 2"; "range args"; "i == 1";
  "hasPDFExtension(inFile) || inFile == ""-""";            (* pages insert: first arg is inFile, not a description *)
  "hasPDFExtension(arg) || arg == ""-""";                  (* annotations remove: args[1] is an outFile *)
  "hasPDFExtension(args[1]) || args[1] == ""-""";          (* form remove/lock/unlock/reset *)
  "hasPDFExtension(args[2]) || args[2] == ""-""";          (* images update *)
  "len(args) > 1 && (hasPDFExtension(args[1]) || args[1] == ""-"")";   (* keywords / properties *)
  "outFile != ""-"""; "outFileJSON != ""-"""; "!(outFile == ""-"")"
].

(* Documented exemption: `merge -m append outFile inFile...` is asked to extend outFile
   (document_usage.go: "if outFile already exists, inFiles will be appended to outFile"). *)
Definition exempt_conds : list (string * string) := [ ("merge", "mode != ""append""") ].

Definition cond_ok (path c : string) : bool :=
  mem c benign_conds
  || existsb (fun pc => String.eqb (fst pc) path && String.eqb (snd pc) c) exempt_conds.

(* the guard must be applied to the output argument(s) *)
Definition allowed_gargs (k : okind) : list string :=
  match k with
  | OFile => ["outFile"; "outFileJSON"; "arg"]     (* arg = args[1] in annotationRemovalArgs *)
  | ODir => ["outDir"]
  | ODirFile => ["outDir, outFile"; "outDir, """""]
  end.

Definition guarded (r : row) : bool :=
  match r_guards r with
  | [g] => guard_eqb g (expected_guard (r_kind r))
  | _ => false
  end
  && N.ltb 0 (r_dispatches r)
  && N.eqb (r_uncovered r) 0
  && forallb (cond_ok (r_path r)) (r_conds r)
  && negb (match r_gargs r with [] => true | _ => false end)
  && forallb (fun a => mem a (allowed_gargs (r_kind r))) (r_gargs r).

(* the guard decision of a command, from its row *)
Definition decide_row (r : row) (outDir outFile joined : oname) (force : bool)
           (sDir sFile sJoined : pstate) : decision :=
  match r_guards r with
  | [GFile] => ensureOutputFileAvailable outFile force sFile
  | [GDir] => ensureOutputDirEmpty outDir force sDir
  | [GDirOrFile] => ensureOutputDirOrFileAvailable outDir outFile joined force sDir sJoined
  | _ => Proceed     (* no guard reached: the handler goes straight to runCommand *)
  end.

(* ---------- a command run: guard, then the operation ---------- *)

Record outcome (FS : Type) := mkOutcome {
  exit_nonzero : bool;        (* main.go: err != nil -> printError; os.Exit(1) *)
  message : option msg;       (* the refusal text on stderr *)
  fs_after : FS
}.
Arguments mkOutcome {FS}. Arguments exit_nonzero {FS}. Arguments message {FS}. Arguments fs_after {FS}.

(* `op` is whatever runCommand(cli.XCommand(...)) does to the file system; it may fail. *)
Definition run {FS : Type} (d : decision) (op : FS -> bool * FS) (fs : FS) : outcome FS :=
  match d with
  | Proceed => let r := op fs in mkOutcome (fst r) None (snd r)
  | Refuse m => mkOutcome true (Some m) fs
  | Fail => mkOutcome true None fs
  end.

(* the text the model was transcribed from (compared with the current source in Proofs.v) *)
Definition expected_src_ensureOutputFileAvailable : string :=
"func ensureOutputFileAvailable(outFile string) error {
	if outFile == """" || outFile == ""-"" || force {
		return nil
	}

	if _, err := os.Stat(outFile); err != nil {
		if os.IsNotExist(err) {
			return nil
		}
		return err
	}

	return fmt.Errorf(""refusing to overwrite existing file: %s\nUse --force to overwrite."", outFile)
}".

Definition expected_src_ensureOutputDirEmpty : string :=
"func ensureOutputDirEmpty(outDir string) error {
	if outDir == """" || outDir == ""-"" || force {
		return nil
	}

	entries, err := os.ReadDir(outDir)
	if err != nil {
		if os.IsNotExist(err) {
			return nil
		}
		return err
	}
	if len(entries) == 0 {
		return nil
	}

	return fmt.Errorf(""refusing to write to non-empty directory: %s\nUse --force to write anyway."", outDir)
}".

Definition expected_src_ensureOutputDirOrFileAvailable : string :=
"func ensureOutputDirOrFileAvailable(outDir, outFile string) error {
	if outFile == """" {
		return ensureOutputDirEmpty(outDir)
	}
	return ensureOutputFileAvailable(filepath.Join(outDir, outFile))
}".
