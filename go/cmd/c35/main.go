// Harness for C35: document metadata edits behave like a simple key/value store.
//
// Histories of real API calls (AddKeywords/RemoveKeywords, AddProperties/RemoveProperties,
// Set/ResetPageLayout, Set/ResetPageMode, Set/ResetViewerPreferences, AddAttachments/
// RemoveAttachments) are applied to a small generated PDF. After EVERY step everything is
// listed back through the real API (Keywords, Properties, PageLayout, PageMode,
// ViewerPreferences, Attachments, ExtractAttachmentsRaw) and
//   K: compared with the extracted Coq model run on the same history prefix (fn "hist");
//   O: compared with an abstract key/value store kept here (the property itself).
package main

import (
	"bytes"
	"fmt"
	"io"
	"os"
	"path/filepath"
	"sort"
	"strconv"
	"strings"
	"unicode"

	"github.com/pdfcpu/pdfcpu/pkg/api"
	"github.com/pdfcpu/pdfcpu/pkg/pdfcpu/model"
	"github.com/pdfcpu/pdfcpu/pkg/pdfcpu/types"
	"verif/vh"
)

// ---------------------------------------------------------------- document

func makePDF(ver string) []byte {
	var b bytes.Buffer
	offs := []int{}
	obj := func(s string) {
		offs = append(offs, b.Len())
		fmt.Fprintf(&b, "%d 0 obj\n%s\nendobj\n", len(offs), s)
	}
	b.WriteString("%PDF-" + ver + "\n")
	obj("<< /Type /Catalog /Pages 2 0 R >>")
	obj("<< /Type /Pages /Kids [3 0 R] /Count 1 >>")
	obj("<< /Type /Page /Parent 2 0 R /MediaBox [0 0 200 300] /Resources << >> /Contents 4 0 R >>")
	content := "0 0 m 10 100 l S"
	obj(fmt.Sprintf("<< /Length %d >>\nstream\n%s\nendstream", len(content), content))
	x := b.Len()
	fmt.Fprintf(&b, "xref\n0 %d\n0000000000 65535 f \n", len(offs)+1)
	for _, o := range offs {
		fmt.Fprintf(&b, "%010d 00000 n \n", o)
	}
	fmt.Fprintf(&b, "trailer\n<< /Size %d /Root 1 0 R >>\nstartxref\n%d\n%%%%EOF\n", len(offs)+1, x)
	return b.Bytes()
}

func conf() *model.Configuration { return model.NewDefaultConfiguration() }

// ---------------------------------------------------------------- operations

type op struct {
	code string      // KA KR PA PR LS LR MS MR VS VR AA AR
	strs []string    // keywords / property names / attachment ids
	kvs  [][2]string // PA
	v    int         // LS MS
	vp   [16]int     // VS: -1 = not set
	data []byte      // AA
	desc string      // AA: description (file spec "name,desc")
	// VS: vp[6] is the number handed to the API, i.e. the value of one of the constants
	// model.NFSPageModeUseNone/UseOutlines/UseThumb/UseOC; nfsWant is the PageMode the
	// constant stands for (0, 1, 2, 4), which is what listing must show
	nfsWant int
}

var nfsConst = []model.NonFullScreenPageMode{model.NFSPageModeUseNone, model.NFSPageModeUseOutlines, model.NFSPageModeUseThumb, model.NFSPageModeUseOC}
var nfsMeans = []int{int(model.PageModeUseNone), int(model.PageModeUseOutlines), int(model.PageModeUseThumbs), int(model.PageModeUseOC)}

func (o *op) setNFS(sym int) {
	o.vp[6] = int(nfsConst[sym])
	o.nfsWant = nfsMeans[sym]
}

func runes(s string) string {
	rr := []rune(s)
	p := make([]string, len(rr))
	for i, r := range rr {
		p[i] = strconv.FormatInt(int64(r), 16)
	}
	return "s" + strings.Join(p, ",")
}
func byteS(s string) string {
	p := make([]string, len(s))
	for i := 0; i < len(s); i++ {
		p[i] = strconv.FormatInt(int64(s[i]), 16)
	}
	return "s" + strings.Join(p, ",")
}

func (o op) wire() string {
	p := []string{o.code}
	switch o.code {
	case "KA", "KR":
		for _, s := range o.strs {
			p = append(p, runes(s))
		}
	case "PR", "AR":
		for _, s := range o.strs {
			p = append(p, byteS(s))
		}
	case "PA":
		for _, kv := range o.kvs {
			p = append(p, byteS(kv[0]), runes(kv[1]))
		}
	case "LS", "MS":
		p = append(p, strconv.FormatInt(int64(o.v), 16))
	case "VS":
		for _, v := range o.vp {
			if v < 0 {
				p = append(p, "n")
			} else {
				p = append(p, "v"+strconv.FormatInt(int64(v), 16))
			}
		}
	case "AA":
		p = append(p, byteS(o.strs[0]), byteS(o.desc), vh.Hex(o.data))
	}
	return strings.Join(p, "|")
}

func bptr(v int) *bool { b := v != 0; return &b }

func vpOf(s [16]int) model.ViewerPreferences {
	vp := model.ViewerPreferences{}
	flag := func(i int, dst **bool) {
		if s[i] >= 0 {
			*dst = bptr(s[i])
		}
	}
	flag(0, &vp.HideToolbar)
	flag(1, &vp.HideMenubar)
	flag(2, &vp.HideWindowUI)
	flag(3, &vp.FitWindow)
	flag(4, &vp.CenterWindow)
	flag(5, &vp.DisplayDocTitle)
	if s[6] >= 0 {
		v := model.NonFullScreenPageMode(s[6])
		vp.NonFullScreenPageMode = &v
	}
	if s[7] >= 0 {
		v := model.Direction(s[7])
		vp.Direction = &v
	}
	pb := func(i int, dst **model.PageBoundary) {
		if s[i] >= 0 {
			v := model.PageBoundary(s[i])
			*dst = &v
		}
	}
	pb(8, &vp.ViewArea)
	pb(9, &vp.ViewClip)
	pb(10, &vp.PrintArea)
	pb(11, &vp.PrintClip)
	if s[12] >= 0 {
		v := model.PrintScaling(s[12])
		vp.PrintScaling = &v
	}
	if s[13] >= 0 {
		v := model.PaperHandling(s[13])
		vp.Duplex = &v
	}
	flag(14, &vp.PickTrayByPDFSize)
	if s[15] >= 0 {
		v := types.Integer(s[15])
		vp.NumCopies = &v
	}
	return vp
}

func slotsOf(vp *model.ViewerPreferences) [16]int {
	var s [16]int
	for i := range s {
		s[i] = -1
	}
	flag := func(i int, b *bool) {
		if b != nil {
			if *b {
				s[i] = 1
			} else {
				s[i] = 0
			}
		}
	}
	flag(0, vp.HideToolbar)
	flag(1, vp.HideMenubar)
	flag(2, vp.HideWindowUI)
	flag(3, vp.FitWindow)
	flag(4, vp.CenterWindow)
	flag(5, vp.DisplayDocTitle)
	if vp.NonFullScreenPageMode != nil {
		s[6] = int(*vp.NonFullScreenPageMode)
	}
	if vp.Direction != nil {
		s[7] = int(*vp.Direction)
	}
	if vp.ViewArea != nil {
		s[8] = int(*vp.ViewArea)
	}
	if vp.ViewClip != nil {
		s[9] = int(*vp.ViewClip)
	}
	if vp.PrintArea != nil {
		s[10] = int(*vp.PrintArea)
	}
	if vp.PrintClip != nil {
		s[11] = int(*vp.PrintClip)
	}
	if vp.PrintScaling != nil {
		s[12] = int(*vp.PrintScaling)
	}
	if vp.Duplex != nil {
		s[13] = int(*vp.Duplex)
	}
	flag(14, vp.PickTrayByPDFSize)
	if vp.NumCopies != nil {
		s[15] = int(*vp.NumCopies)
	}
	return s
}

// apply runs one operation through the real API; a panic is a result.
func apply(doc []byte, o op, tmp string) (out []byte, ok bool, panicked string) {
	defer func() {
		if x := recover(); x != nil {
			out, ok, panicked = doc, false, fmt.Sprint(x)
		}
	}()
	var w bytes.Buffer
	rs := bytes.NewReader(doc)
	var err error
	switch o.code {
	case "KA":
		err = api.AddKeywords(rs, &w, o.strs, conf())
	case "KR":
		err = api.RemoveKeywords(rs, &w, o.strs, conf())
	case "PA":
		m := map[string]string{}
		for _, kv := range o.kvs {
			m[kv[0]] = kv[1]
		}
		err = api.AddProperties(rs, &w, m, conf())
	case "PR":
		err = api.RemoveProperties(rs, &w, o.strs, conf())
	case "LS":
		err = api.SetPageLayout(rs, &w, model.PageLayout(o.v), conf())
	case "LR":
		err = api.ResetPageLayout(rs, &w, conf())
	case "MS":
		err = api.SetPageMode(rs, &w, model.PageMode(o.v), conf())
	case "MR":
		err = api.ResetPageMode(rs, &w, conf())
	case "VS":
		err = api.SetViewerPreferences(rs, &w, vpOf(o.vp), conf())
	case "VR":
		err = api.ResetViewerPreferences(rs, &w, conf())
	case "AA":
		dir, e := os.MkdirTemp(tmp, "a")
		if e != nil {
			panic(e)
		}
		defer os.RemoveAll(dir)
		fn := filepath.Join(dir, o.strs[0])
		if e := os.WriteFile(fn, o.data, 0o644); e != nil {
			panic(e)
		}
		spec := fn
		if o.desc != "" {
			spec += "," + o.desc
		}
		err = api.AddAttachments(rs, &w, []string{spec}, false, conf())
	case "AR":
		err = api.RemoveAttachments(rs, &w, o.strs, conf())
	}
	if err != nil {
		return doc, false, ""
	}
	return w.Bytes(), true, ""
}

// ---------------------------------------------------------------- observation

type obs struct {
	bad  string // non-empty: which list call failed
	kw   []string
	pr   map[string]string
	pl   int // -1 none
	pm   int
	vp   *[16]int
	att  map[string]attV
	xo   string // extract one name at a time: probe>key:data | ...
	xs   string // extract all the probe names in one call: key:data | ...
	errs string
}

// attV is what the name tree stores under a key.
type attV struct {
	fname, desc string
	data        []byte
}

// probes: every key, file name and description and one absent name, without blanks, sorted.
func probes(att map[string]attV) []string {
	set := map[string]bool{"zz": true}
	for k, v := range att {
		set[k], set[v.fname], set[v.desc] = true, true, true
	}
	var ps []string
	for _, p := range sortedKeys(set) {
		if !blankS(p) {
			ps = append(ps, p)
		}
	}
	return ps
}

// find is the lookup the property asks for: the value whose KEY is p whenever such a key
// exists; the file name / description of an entry only when no key matches (first in key order).
func find(att map[string]attV, p string) (string, bool) {
	if _, ok := att[p]; ok {
		return p, true
	}
	for _, k := range sortedKeys(att) {
		if att[k].fname == p || att[k].desc == p {
			return k, true
		}
	}
	return "", false
}

func observe(doc []byte) (o obs) {
	defer func() {
		if x := recover(); x != nil {
			o.bad += "panic:" + fmt.Sprint(x)
		}
	}()
	o.pl, o.pm = -1, -1
	note := func(what string, err error) {
		if err != nil {
			o.bad += what + ","
			o.errs += what + ": " + err.Error() + "; "
		}
	}
	kw, err := api.Keywords(bytes.NewReader(doc), conf())
	note("kw", err)
	o.kw = kw
	pr, err := api.Properties(bytes.NewReader(doc), conf())
	note("pr", err)
	o.pr = pr
	pl, err := api.PageLayout(bytes.NewReader(doc), conf())
	note("pl", err)
	if pl != nil {
		o.pl = int(*pl)
	}
	pm, err := api.PageMode(bytes.NewReader(doc), conf())
	note("pm", err)
	if pm != nil {
		o.pm = int(*pm)
	}
	vp, _, err := api.ViewerPreferences(bytes.NewReader(doc), conf())
	note("vp", err)
	if vp != nil {
		s := slotsOf(vp)
		o.vp = &s
	}
	aa, err := api.Attachments(bytes.NewReader(doc), conf())
	note("at", err)
	o.att = map[string]attV{}
	o.xo = byteS("zz") + ">-"
	if err == nil && len(aa) > 0 {
		xx, err := api.ExtractAttachmentsRaw(bytes.NewReader(doc), "", nil, conf())
		note("ax", err)
		got := map[string][]byte{}
		for _, a := range xx {
			b, e := io.ReadAll(a)
			note("ar", e)
			got[a.ID] = b
		}
		for _, a := range aa {
			b, ok := got[a.ID]
			if !ok {
				o.bad += "listed-not-extracted,"
			}
			o.att[a.ID] = attV{fname: a.FileName, desc: a.Desc, data: b}
		}
		if len(got) != len(aa) {
			o.bad += "extract-count,"
		}
		// extract by name: one at a time, then all the names in one call
		ps := probes(o.att)
		var xo, xs []string
		for _, p := range ps {
			one, err := api.ExtractAttachmentsRaw(bytes.NewReader(doc), "", []string{p}, conf())
			note("x1", err)
			switch len(one) {
			case 0:
				xo = append(xo, byteS(p)+">-")
			case 1:
				b, e := io.ReadAll(one[0])
				note("xr", e)
				xo = append(xo, byteS(p)+">"+byteS(one[0].ID)+":"+vh.Hex(b))
			default:
				o.bad += "extract-one-returned-many,"
			}
		}
		many, err := api.ExtractAttachmentsRaw(bytes.NewReader(doc), "", ps, conf())
		note("xm", err)
		for _, a := range many {
			b, e := io.ReadAll(a)
			note("xr", e)
			xs = append(xs, byteS(a.ID)+":"+vh.Hex(b))
		}
		o.xo, o.xs = strings.Join(xo, "|"), strings.Join(xs, "|")
	}
	return o
}

func hx(i int) string {
	if i < 0 {
		return "-"
	}
	return strconv.FormatInt(int64(i), 16)
}

func sortedKeys[T any](m map[string]T) []string {
	ks := make([]string, 0, len(m))
	for k := range m {
		ks = append(ks, k)
	}
	sort.Strings(ks)
	return ks
}

// show prints an observation in the format of ocaml/C35_glue.ml show_store.
func (o obs) show() string {
	if o.bad != "" {
		if o.bad == "kw,pr,pl,pm,vp,at," {
			return "bad"
		}
		return "bad:" + o.bad
	}
	var kw, pr, at []string
	for _, k := range o.kw {
		kw = append(kw, runes(k))
	}
	for _, k := range sortedKeys(o.pr) {
		pr = append(pr, byteS(k)+"="+runes(o.pr[k]))
	}
	for _, k := range sortedKeys(o.att) {
		at = append(at, byteS(k)+"="+vh.Hex(o.att[k].data)+":"+byteS(o.att[k].fname)+":"+byteS(o.att[k].desc))
	}
	vp := "-"
	if o.vp != nil {
		p := make([]string, 16)
		for i, v := range o.vp {
			if v < 0 {
				p[i] = "n"
			} else {
				p[i] = hx(v)
			}
		}
		vp = "[" + strings.Join(p, ",") + "]"
	}
	return "kw=" + strings.Join(kw, "|") + ";pr=" + strings.Join(pr, "|") + ";pl=" + hx(o.pl) + ";pm=" + hx(o.pm) +
		";vp=" + vp + ";at=" + strings.Join(at, "|") + ";xo=" + o.xo + ";xs=" + o.xs
}

// ---------------------------------------------------------------- abstract store (the property)

type store struct {
	kw  map[string]bool
	pr  map[string]string
	pl  int
	pm  int
	vp  *[16]int
	att map[string]attV
}

func newStore() *store {
	return &store{kw: map[string]bool{}, pr: map[string]string{}, pl: -1, pm: -1, att: map[string]attV{}}
}

var reserved = map[string]bool{"Keywords": true, "Producer": true, "CreationDate": true, "ModDate": true, "Trapped": true}

// names that AddProperties stores in their own Info entries (Title, ...): pdfcpu does not
// call them properties; they are outside the store.
var stdKeys = map[string]bool{"Title": true, "Author": true, "Subject": true, "Creator": true, "AAPL:Keywords": true}

func blankS(s string) bool { return strings.TrimSpace(s) == "" }

// edit applies the plain meaning of an operation; ok=false means the documented
// validation refuses it (nothing changes).
func (s *store) edit(o op, ver int) {
	switch o.code {
	case "KA":
		for _, k := range o.strs {
			if blankS(k) {
				return
			}
		}
		for _, k := range o.strs {
			s.kw[k] = true
		}
	case "KR":
		for _, k := range o.strs {
			if blankS(k) {
				return
			}
		}
		if len(o.strs) == 0 {
			s.kw = map[string]bool{}
		}
		for _, k := range o.strs {
			delete(s.kw, k)
		}
	case "PA":
		for _, kv := range o.kvs {
			if blankS(kv[0]) || reserved[kv[0]] || blankS(kv[1]) {
				return
			}
		}
		for _, kv := range o.kvs {
			if !stdKeys[kv[0]] {
				s.pr[kv[0]] = kv[1]
			}
		}
	case "PR":
		for _, k := range o.strs {
			if blankS(k) || reserved[k] {
				return
			}
		}
		if len(o.strs) == 0 {
			s.pr = map[string]string{}
		}
		for _, k := range o.strs {
			delete(s.pr, k)
		}
	case "LS":
		if o.v >= 0 && o.v < 6 {
			s.pl = o.v
		}
	case "LR":
		s.pl = -1
	case "MS":
		if o.v >= 0 && o.v < 6 {
			s.pm = o.v
		}
	case "MR":
		s.pm = -1
	case "VS":
		if !vpValid(o.vp, ver) {
			return
		}
		if o.vp[6] >= 0 {
			o.vp[6] = o.nfsWant // what the constant means
		}
		if s.vp == nil {
			c := o.vp
			s.vp = &c
			return
		}
		for i, v := range o.vp {
			if v >= 0 {
				s.vp[i] = v
			}
		}
	case "VR":
		s.vp = nil
	case "AA":
		s.att[o.strs[0]] = attV{fname: o.strs[0], desc: o.desc, data: o.data}
	case "AR":
		if len(o.strs) == 0 {
			s.att = map[string]attV{}
			return
		}
		// the names are resolved (find) and removed one after the other; if one of them
		// resolves to nothing, the call is refused and nothing changes
		left := map[string]attV{}
		for k, v := range s.att {
			left[k] = v
		}
		for _, p := range o.strs {
			k, ok := find(left, p)
			if blankS(p) || !ok {
				return
			}
			delete(left, k)
		}
		s.att = left
	}
}

// the documented version rules of the viewer preferences (ISO 32000 table 147 "since")
func vpValid(s [16]int, ver int) bool {
	if s[7] >= 0 && ver < 13 {
		return false
	}
	for i := 8; i <= 11; i++ {
		if s[i] >= 0 && (ver < 14 || ver > 17) {
			return false
		}
	}
	if s[12] >= 0 && ver < 16 {
		return false
	}
	for i := 13; i <= 15; i++ {
		if s[i] >= 0 && ver < 17 {
			return false
		}
	}
	return true
}

func (s *store) obs() obs {
	o := obs{pl: s.pl, pm: s.pm, pr: map[string]string{}, att: map[string]attV{}}
	o.kw = sortedKeys(s.kw)
	for k, v := range s.pr {
		o.pr[k] = v
	}
	if s.vp != nil {
		c := *s.vp
		o.vp = &c
	}
	for k, v := range s.att {
		o.att[k] = v
	}
	// what extracting by name must return
	ps := probes(o.att)
	var xo, xs []string
	for _, p := range ps {
		if k, ok := find(o.att, p); ok {
			xo = append(xo, byteS(p)+">"+byteS(k)+":"+vh.Hex(o.att[k].data))
			xs = append(xs, byteS(k)+":"+vh.Hex(o.att[k].data))
		} else {
			xo = append(xo, byteS(p)+">-")
		}
	}
	o.xo, o.xs = strings.Join(xo, "|"), strings.Join(xs, "|")
	return o
}

// ---------------------------------------------------------------- generator

var kwGood = []string{"a", "b", "Zeta", "ключ", "日本", "naïve", "in ner", "p(q)", "back\\slash", "x#y", "tab\tin",
	"é", "(", ")", "\\", "nl\nx", "😀", "a.b:c", "q\"uote", "<x>", "%", "0"}
var kwBad = []string{"a,b", " lead", "semi;colon", "trail ", "cr\rx", " nb", ";", "x ,y", "\tt", "u "}
var kwBlank = []string{"", "  ", " "}

var nameGood = []string{"k", "Key2", "abc", "a.b", "x-y_z", "Z"}
var nameEsc = []string{"a b", "Ключ", "p(q)", "x/y", "日本", "per%cent", "tab\tk", " k ", "<<", "é", "{}", "[1]", "~\x7f"}
var nameStd = []string{"Title", "Author", "Subject", "Creator"}
var nameHash = []string{"A#B", "A#41", "h#", "#"}
var nameRefused = []string{"Producer", "Keywords", "", " ", "ModDate", " "}

var valGood = []string{"v", "w w", " sp ", "знач (x) \\ y", "a\rb\nc", "日本語", "(", ")", "\\", "é", "line1\nline2",
	"a\x00b", "😀 astral", "((", "))", "\\(", "x\\", "1", "\ufeffbom", "þÿ", "tab\t", "D:2020"}
var valBlank = []string{"", " ", "\t\n"}

// prefixes, case variants, NFC/NFD variants of each other
var idGood = []string{"a.txt", "b.txt", "a", "A.TXT", "a.txt.bak", "b.bin", "данные.txt", "sp ace.txt", "p(1).dat", "日本.txt", "x#y", "Z", "semi;colon", "\u00e9.e", "e\u0301.e"}

func pick(r *vh.Run, l []string) string { return l[r.Rand.Intn(len(l))] }

type genCfg struct {
	defects bool // may draw the inputs of the known defect classes
}

func genOp(r *vh.Run, g genCfg, ver int, st *store) op {
	p := r.Rand.Intn(100)
	rare := func(n int) bool { return r.Rand.Intn(n) == 0 }
	some := func(m map[string]bool) (string, bool) {
		ks := sortedKeys(m)
		if len(ks) == 0 {
			return "", false
		}
		return ks[r.Rand.Intn(len(ks))], true
	}
	switch {
	case p < 22: // KA
		n := 1 + r.Rand.Intn(3)
		o := op{code: "KA"}
		for i := 0; i < n; i++ {
			switch {
			case g.defects && rare(5):
				o.strs = append(o.strs, pick(r, kwBad))
			case rare(40):
				o.strs = append(o.strs, pick(r, kwBlank))
			default:
				o.strs = append(o.strs, pick(r, kwGood))
			}
		}
		if rare(30) {
			o.strs = nil
		}
		return o
	case p < 34: // KR
		o := op{code: "KR"}
		if rare(5) {
			return o // remove all
		}
		n := 1 + r.Rand.Intn(2)
		for i := 0; i < n; i++ {
			if k, ok := some(st.kw); ok && !rare(4) {
				o.strs = append(o.strs, k)
			} else if g.defects && rare(6) {
				o.strs = append(o.strs, pick(r, kwBad))
			} else if rare(30) {
				o.strs = append(o.strs, pick(r, kwBlank))
			} else {
				o.strs = append(o.strs, pick(r, kwGood))
			}
		}
		return o
	case p < 54: // PA
		n := 1 + r.Rand.Intn(3)
		o := op{code: "PA"}
		seen := map[string]bool{}
		for i := 0; i < n; i++ {
			var k string
			switch {
			case g.defects && rare(8):
				k = pick(r, nameHash)
			case rare(12):
				k = pick(r, nameStd)
			case rare(30):
				k = pick(r, nameRefused)
			case rare(2):
				k = pick(r, nameEsc)
			default:
				k = pick(r, nameGood)
			}
			if seen[k] {
				continue
			}
			seen[k] = true
			v := pick(r, valGood)
			if rare(40) {
				v = pick(r, valBlank)
			}
			o.kvs = append(o.kvs, [2]string{k, v})
		}
		return o
	case p < 66: // PR
		o := op{code: "PR"}
		if rare(5) {
			return o
		}
		n := 1 + r.Rand.Intn(2)
		for i := 0; i < n; i++ {
			ks := sortedKeys(st.pr)
			if len(ks) > 0 && !rare(4) {
				k := ks[r.Rand.Intn(len(ks))]
				for tries := 0; tries < 3 && i > 0 && k == o.strs[0]; tries++ {
					k = ks[r.Rand.Intn(len(ks))] // prefer two different present names
				}
				o.strs = append(o.strs, k)
			} else if rare(20) {
				o.strs = append(o.strs, pick(r, nameRefused))
			} else if rare(8) {
				o.strs = append(o.strs, pick(r, nameStd))
			} else if rare(2) {
				o.strs = append(o.strs, pick(r, nameEsc))
			} else {
				o.strs = append(o.strs, pick(r, nameGood))
			}
		}
		return o
	case p < 72:
		return op{code: "LS", v: r.Rand.Intn(7)}
	case p < 75:
		return op{code: "LR"}
	case p < 81:
		return op{code: "MS", v: r.Rand.Intn(7)}
	case p < 84:
		return op{code: "MR"}
	case p < 91: // VS
		o := op{code: "VS"}
		for i := range o.vp {
			o.vp[i] = -1
		}
		lim := []int{2, 2, 2, 2, 2, 2, 0, 2, 5, 5, 5, 5, 2, 3, 2, 0}
		n := r.Rand.Intn(5)
		for j := 0; j < n; j++ {
			i := r.Rand.Intn(16)
			if i >= 7 && !vpValid(func() [16]int { c := o.vp; c[i] = 0; return c }(), ver) && !rare(6) {
				continue // mostly stay inside the version rules
			}
			switch i {
			case 6:
				o.setNFS(r.Rand.Intn(4))
			case 15:
				o.vp[i] = 1 + r.Rand.Intn(300)
			default:
				o.vp[i] = r.Rand.Intn(lim[i])
			}
		}
		return o
	case p < 93:
		return op{code: "VR"}
	case p < 97: // AA, fresh id
		id := pick(r, idGood)
		for tries := 0; tries < 5; tries++ {
			if _, dup := st.att[id]; !dup {
				break
			}
			id = pick(r, idGood)
		}
		if _, dup := st.att[id]; dup || len(st.att) >= 3 {
			// at most three at a time: a fourth makes the name tree grow kid nodes (separate probe)
			return op{code: "LR"}
		}
		n := r.Rand.Intn(40)
		if rare(6) {
			n = 0
		}
		data := make([]byte, n)
		r.Rand.Read(data)
		o := op{code: "AA", strs: []string{id}, data: data}
		// descriptions are mostly the names of other attachments (present or still to come)
		switch r.Rand.Intn(4) {
		case 0:
		case 1:
			o.desc = pick(r, []string{"notes", "a description, with a comma", "Ünï cödé", " padded "})
		default:
			o.desc = pick(r, idGood)
			if ks := sortedKeys(st.att); len(ks) > 0 && rare(2) {
				o.desc = ks[r.Rand.Intn(len(ks))]
			}
		}
		return o
	default: // AR
		o := op{code: "AR"}
		if rare(4) {
			return o
		}
		ks := sortedKeys(st.att)
		if len(ks) > 0 && !rare(4) {
			k := ks[r.Rand.Intn(len(ks))]
			if d := st.att[k].desc; rare(3) && !blankS(d) {
				k = d // by description (or by a name that is also somebody's description)
			}
			o.strs = append(o.strs, k)
			if k2 := ks[r.Rand.Intn(len(ks))]; len(ks) > 1 && rare(3) {
				// several names in one call: distinct keys (see the probe "fallback after a removal")
				if _, isKey := st.att[k]; isKey && k2 != k {
					o.strs = append(o.strs, k2)
				}
			}
		} else {
			o.strs = append(o.strs, pick(r, idGood))
		}
		return o
	}
}

// ---------------------------------------------------------------- taint: inputs of the known defect classes

func kwIllFormed(k string) bool {
	return strings.ContainsAny(k, ",;\r") || strings.TrimSpace(k) != k
}
func needsEscape(k string) bool { return types.EncodeName(k) != k }

type taint struct{ kwSep, hash, nul, esc, rmAll, nfs3, dupAtt, noInfo, prAllLive bool }

func (t *taint) see(o op, st *store) {
	switch o.code {
	case "KA", "KR":
		for _, k := range o.strs {
			if kwIllFormed(k) && !blankS(k) {
				t.kwSep = true
			}
		}
	case "PA":
		for _, kv := range o.kvs {
			if strings.Contains(kv[0], "#") {
				t.hash = true
			}
			if strings.Contains(kv[0], "\x00") {
				t.nul = true
			}
			if needsEscape(kv[0]) {
				t.esc = true
			}
		}
	case "PR":
		if len(o.strs) == 0 {
			t.rmAll = true
		}
	case "VS":
		if o.vp[6] >= 0 && o.nfsWant == int(model.PageModeUseOC) {
			t.nfs3 = true // model.NFSPageModeUseOC
		}
	case "AA":
		if _, dup := st.att[o.strs[0]]; dup {
			t.dupAtt = true
		}
	}
}

func eqObs(a, b obs) string {
	if a.bad != "" {
		return "unreadable"
	}
	if strings.Join(a.kw, "\x00") != strings.Join(b.kw, "\x00") || len(a.kw) != len(b.kw) {
		return "kw"
	}
	if len(a.pr) != len(b.pr) {
		return "pr"
	}
	for k, v := range a.pr {
		if w, ok := b.pr[k]; !ok || w != v {
			return "pr"
		}
	}
	if a.pl != b.pl {
		return "pl"
	}
	if a.pm != b.pm {
		return "pm"
	}
	if (a.vp == nil) != (b.vp == nil) || (a.vp != nil && *a.vp != *b.vp) {
		return "vp"
	}
	if len(a.att) != len(b.att) {
		return "at"
	}
	for k, v := range a.att {
		if w, ok := b.att[k]; !ok || !bytes.Equal(v.data, w.data) || v.fname != w.fname || v.desc != w.desc {
			return "at"
		}
	}
	if a.xo != b.xo || a.xs != b.xs {
		return "extract-by-name"
	}
	return ""
}

func (o op) human() string {
	switch o.code {
	case "PA":
		return fmt.Sprintf("PA%q", o.kvs)
	case "LS", "MS":
		return fmt.Sprintf("%s(%d)", o.code, o.v)
	case "VS":
		return fmt.Sprintf("VS%v", o.vp)
	case "AA":
		return fmt.Sprintf("AA(%q,desc %q,%d bytes)", o.strs[0], o.desc, len(o.data))
	}
	return fmt.Sprintf("%s%q", o.code, o.strs)
}

// history runs one history; returns false when the oracle stopped it.
func history(r *vh.Run, ver string, ops []op, gen func(st *store) op, n int, tmp string, useOracle bool) {
	vn := int(ver[0]-'0')*10 + int(ver[2]-'0')
	historyFrom(r, start{doc: makePDF(ver), init: strconv.FormatInt(int64(vn), 16), ver: ver, hasInfo: false}, ops, gen, n, tmp, useOracle)
}

// start is a starting document: init is its description for the model ("" = no K),
// kw the keywords its Info dictionary and its catalog XMP packet carry.
type start struct {
	doc     []byte
	init    string
	ver     string
	desc    string
	hasInfo bool
	xmpLive bool     // the XMP packet has pdf:Keywords that a read merges in
	kw      []string // expected initial listing (generated documents)
	att     map[string]attV
	corpus  bool // initial store = initial listing
	kids    bool // probe of a name tree with kid nodes (O only)
}

type attEntry struct {
	key, fname, desc string
	data             []byte
}

// attPDF builds the small PDF with a hand-made EmbeddedFiles name tree whose file names
// (UF/F) and descriptions are independent of the keys. ASCII without ( ) \ only.
func attPDF(ver string, ee []attEntry) start {
	sort.Slice(ee, func(i, j int) bool { return ee[i].key < ee[j].key })
	var b bytes.Buffer
	offs := []int{}
	obj := func(s string) {
		offs = append(offs, b.Len())
		fmt.Fprintf(&b, "%d 0 obj\n%s\nendobj\n", len(offs), s)
	}
	b.WriteString("%PDF-" + ver + "\n")
	names := ""
	for i, e := range ee {
		names += fmt.Sprintf("(%s) %d 0 R ", e.key, 5+2*i)
	}
	obj("<< /Type /Catalog /Pages 2 0 R /Names << /EmbeddedFiles << /Names [" + names + "] >> >> >>")
	obj("<< /Type /Pages /Kids [3 0 R] /Count 1 >>")
	obj("<< /Type /Page /Parent 2 0 R /MediaBox [0 0 200 300] /Resources << >> /Contents 4 0 R >>")
	content := "0 0 m 10 100 l S"
	obj(fmt.Sprintf("<< /Length %d >>\nstream\n%s\nendstream", len(content), content))
	att := map[string]attV{}
	var wire []string
	for i, e := range ee {
		d := ""
		if e.desc != "" {
			d = " /Desc (" + e.desc + ")"
		}
		obj(fmt.Sprintf("<< /Type /Filespec /F (%s) /UF (%s)%s /EF << /F %d 0 R /UF %d 0 R >> >>", e.fname, e.fname, d, 6+2*i, 6+2*i))
		obj(fmt.Sprintf("<< /Type /EmbeddedFile /Length %d >>\nstream\n%s\nendstream", len(e.data), e.data))
		att[e.key] = attV{fname: e.fname, desc: e.desc, data: e.data}
		wire = append(wire, byteS(e.key)+"~"+byteS(e.fname)+"~"+byteS(e.desc)+"~"+vh.Hex(e.data))
	}
	xr := b.Len()
	fmt.Fprintf(&b, "xref\n0 %d\n0000000000 65535 f \n", len(offs)+1)
	for _, o := range offs {
		fmt.Fprintf(&b, "%010d 00000 n \n", o)
	}
	fmt.Fprintf(&b, "trailer\n<< /Size %d /Root 1 0 R >>\nstartxref\n%d\n%%%%EOF\n", len(offs)+1, xr)
	vn := int(ver[0]-'0')*10 + int(ver[2]-'0')
	return start{doc: b.Bytes(), ver: ver, att: att, kw: []string{},
		init: strconv.FormatInt(int64(vn), 16) + "|0|-|-|" + strings.Join(wire, ";"),
		desc: fmt.Sprintf("generated PDF %s with EmbeddedFiles %q", ver, ee)}
}

func xmlEsc(s string) string {
	return strings.NewReplacer("&", "&amp;", "<", "&lt;", ">", "&gt;").Replace(s)
}

// xmpPDF builds the small PDF with a catalog /Metadata XMP packet.
// xmpKw == nil: packet without pdf:Keywords. infoKw == nil: Info without /Keywords.
func xmpPDF(ver string, hasInfo bool, infoKw []string, infoSep string, xmpKw []string, xmpSep string, xmpTag bool) start {
	var b bytes.Buffer
	offs := []int{}
	obj := func(s string) {
		offs = append(offs, b.Len())
		fmt.Fprintf(&b, "%d 0 obj\n%s\nendobj\n", len(offs), s)
	}
	b.WriteString("%PDF-" + ver + "\n")
	obj("<< /Type /Catalog /Pages 2 0 R /Metadata 5 0 R >>")
	obj("<< /Type /Pages /Kids [3 0 R] /Count 1 >>")
	obj("<< /Type /Page /Parent 2 0 R /MediaBox [0 0 200 300] /Resources << >> /Contents 4 0 R >>")
	content := "0 0 m 10 100 l S"
	obj(fmt.Sprintf("<< /Length %d >>\nstream\n%s\nendstream", len(content), content))
	xt := strings.Join(xmpKw, xmpSep)
	tag := ""
	if xmpTag {
		tag = "<pdf:Keywords>" + xmlEsc(xt) + "</pdf:Keywords>"
	}
	x := `<?xpacket begin="" id="W5M0MpCehiHzreSzNTczkc9d"?><x:xmpmeta xmlns:x="adobe:ns:meta/"><rdf:RDF xmlns:rdf="http://www.w3.org/1999/02/22-rdf-syntax-ns#"><rdf:Description rdf:about="" xmlns:pdf="http://ns.adobe.com/pdf/1.3/">` +
		tag + `<pdf:Producer>gen</pdf:Producer></rdf:Description></rdf:RDF></x:xmpmeta><?xpacket end="w"?>`
	obj(fmt.Sprintf("<< /Type /Metadata /Subtype /XML /Length %d >>\nstream\n%s\nendstream", len(x), x))
	tr := ""
	it := strings.Join(infoKw, infoSep) // ASCII without ( ) \
	if hasInfo {
		e := "/Producer (gen)" // an entry that is not a property and not Title/Author/... (the model starts with no Info entries)
		if infoKw != nil {
			e += " /Keywords (" + it + ")"
		}
		obj("<< " + e + " >>")
		tr = " /Info 6 0 R"
	}
	xr := b.Len()
	fmt.Fprintf(&b, "xref\n0 %d\n0000000000 65535 f \n", len(offs)+1)
	for _, o := range offs {
		fmt.Fprintf(&b, "%010d 00000 n \n", o)
	}
	fmt.Fprintf(&b, "trailer\n<< /Size %d /Root 1 0 R%s >>\nstartxref\n%d\n%%%%EOF\n", len(offs)+1, tr, xr)
	vn := int(ver[0]-'0')*10 + int(ver[2]-'0')
	h, ik, xs := "0", "-", "n"
	if hasInfo {
		h = "1"
		if infoKw != nil {
			ik = runes(it)
		}
	}
	if xmpTag {
		xs = runes(xt)
	}
	st := start{doc: b.Bytes(), ver: ver, hasInfo: hasInfo,
		init: strconv.FormatInt(int64(vn), 16) + "|" + h + "|" + ik + "|" + xs,
		desc: fmt.Sprintf("generated PDF %s, Info=%v /Keywords=%q, catalog XMP pdf:Keywords=%q (tag %v)", ver, hasInfo, it, xt, xmpTag)}
	set := map[string]bool{}
	if hasInfo {
		for _, k := range infoKw {
			set[k] = true
		}
	}
	if vn >= 14 && xmpTag {
		for _, k := range xmpKw {
			set[k] = true
			st.xmpLive = true
		}
	}
	st.kw = sortedKeys(set)
	return st
}

func historyFrom(r *vh.Run, s0 start, ops []op, gen func(st *store) op, n int, tmp string, useOracle bool) {
	ver := s0.ver
	vn := int(ver[0]-'0')*10 + int(ver[2]-'0')
	doc := s0.doc
	st := newStore()
	var t taint
	t.noInfo = !s0.hasInfo && s0.xmpLive
	xmpLive := s0.xmpLive
	var wires, humans []string
	oracle := useOracle
	if s0.corpus || s0.kw != nil || s0.att != nil {
		got := observe(doc)
		if got.bad != "" {
			r.OracleFail("start-document-unreadable", map[string]any{"start": s0.desc}, hexs(got.errs))
			return
		}
		if s0.corpus { // the store starts as what the document lists
			for _, k := range got.kw {
				st.kw[k] = true
			}
			for k, v := range got.pr {
				st.pr[k] = v
			}
			st.pl, st.pm, st.vp = got.pl, got.pm, got.vp
			for k, v := range got.att {
				st.att[k] = v
			}
		} else {
			for _, k := range s0.kw {
				st.kw[k] = true
			}
			for k, v := range s0.att {
				st.att[k] = v
			}
			if oracle {
				if d := eqObs(got, st.obs()); d != "" {
					r.OracleFail("start-listing:"+d, map[string]any{"start": s0.desc}, "listed "+got.show()+" ; the document carries "+st.obs().show())
					return
				}
				r.OracleOK()
			}
		}
	}
	for i := 0; i < n; i++ {
		var o op
		if ops != nil {
			o = ops[i]
		} else {
			o = gen(st)
		}
		t.see(o, st)
		wires = append(wires, o.wire())
		humans = append(humans, o.human())
		r.Count("op:" + o.code)
		out, ok, pan := apply(doc, o, tmp)
		input := map[string]any{"version": ver, "history": humans, "wire": wires}
		if s0.desc != "" {
			input["start"] = s0.desc
			input["init"] = s0.init
		}
		if pan != "" {
			r.OracleFail("panic:"+o.code, input, pan)
			return
		}
		doc = out
		cur := vn // version the operation saw
		if ok {
			vn = 17 // write.go: every written document has the header %PDF-1.7
			t.noInfo = false
			switch {
			case o.code == "KA" || o.code == "KR":
				xmpLive = false // finalizeKeywords / remove all: the XMP keywords are scrubbed
			case o.code == "PR" && len(o.strs) == 0:
				if xmpLive {
					t.prAllLive = true
				}
				xmpLive = false
			}
		}
		got := observe(doc)
		if s0.init != "" {
			args := append([]string{s0.init}, wires...)
			r.Case("hist", args, "st="+vh.Bool(ok)+";"+got.show())
		}
		if !oracle {
			continue
		}
		st.edit(o, cur)
		want := st.obs()
		if d := eqObs(got, want); d != "" {
			class := "store-mismatch:" + d
			switch {
			case (d == "pr" || d == "unreadable") && t.hash:
				class = "property-name-with-hash"
			case d == "pr" && t.nul:
				class = "property-name-with-nul"
			case d == "pr" && t.rmAll && t.esc:
				class = "remove-all-properties-keeps-escaped-name"
			case d == "kw" && t.kwSep:
				class = "keyword-with-separator-or-outer-blank"
			case d == "kw" && t.noInfo && (o.code == "KR"):
				class = "keyword-remove-refused-without-info-dict"
			case s0.kids && (d == "unreadable" || d == "at" || d == "extract-by-name"):
				class = "attachment-remove-corrupts-name-tree-with-kids"
			case d == "kw" && t.prAllLive:
				class = "remove-all-properties-drops-xmp-keywords"
			case (d == "vp" || d == "unreadable") && t.nfs3:
				class = "viewerpref-nfspagemode-useoc-written-as-fullscreen"
			}
			r.OracleFail(class, input, fmt.Sprintf("after step %d (%s): %s differs: listed %s ; the edits describe %s ; %s",
				i+1, o.human(), d, got.show(), want.show(), hexs(got.errs)))
			return
		}
		r.OracleOK()
	}
	switch {
	case t.kwSep || t.hash || t.nul || t.nfs3:
		r.Count("class:history-with-defect-input")
	default:
		r.Count("class:history-well-formed")
	}
}

func hexs(s string) string {
	// error texts may carry arbitrary bytes: keep the result ASCII
	var b strings.Builder
	for _, c := range s {
		if c < 0x20 || c > 0x7e || c == '"' {
			fmt.Fprintf(&b, "\\u%04x", c)
		} else {
			b.WriteRune(c)
		}
	}
	return b.String()
}

func main() {
	api.DisableConfigDir()
	r := vh.Start("C35")
	defer r.Finish()
	tmp := filepath.Join(r.Dir, "tmp")
	os.RemoveAll(tmp)
	if err := os.MkdirAll(tmp, 0o755); err != nil {
		panic(err)
	}
	defer os.RemoveAll(tmp)

	none := [16]int{-1, -1, -1, -1, -1, -1, -1, -1, -1, -1, -1, -1, -1, -1, -1, -1}
	vs := func(i, v int) op {
		o := op{code: "VS", vp: none}
		if i == 6 {
			o.setNFS(v)
		} else {
			o.vp[i] = v
		}
		return o
	}
	pa := func(kv ...string) op {
		o := op{code: "PA"}
		for i := 0; i+1 < len(kv); i += 2 {
			o.kvs = append(o.kvs, [2]string{kv[i], kv[i+1]})
		}
		return o
	}
	// fixed histories: every enumeration value, the boundary cases, one probe per defect class
	fixed := [][]op{}
	for v := 0; v < 7; v++ {
		fixed = append(fixed, []op{{code: "LS", v: v}, {code: "MS", v: v}, {code: "LR"}, {code: "MR"}})
	}
	for i, lim := range []int{2, 2, 2, 2, 2, 2, 4, 2, 5, 5, 5, 5, 2, 3, 2, 3} {
		h := []op{}
		for v := 0; v < lim; v++ {
			if i == 15 && v == 0 {
				continue
			}
			h = append(h, vs(i, v))
		}
		h = append(h, op{code: "VR"}, op{code: "VR"})
		fixed = append(fixed, h)
	}
	fixed = append(fixed,
		[]op{{code: "KA", strs: []string{"b", "a"}}, {code: "KA", strs: []string{"a"}}, {code: "KR", strs: []string{"a"}}, {code: "KR", strs: []string{"a"}}, {code: "KR", strs: []string{"b"}}, {code: "KR"}, {code: "KR"}},
		[]op{{code: "KA", strs: []string{"a,b"}}},
		[]op{{code: "KA", strs: []string{" lead"}}},
		[]op{{code: "KA", strs: []string{";"}}},
		[]op{{code: "KA", strs: []string{"a, ,b"}}},
		[]op{pa("A#B", "v"), {code: "KA", strs: []string{"a"}}},
		[]op{pa("A#41", "v")},
		[]op{pa("nul\x00x", "v", "ok", "w"), {code: "KA", strs: []string{"zz"}}},
		[]op{pa("a b", "v", "plain", "w"), {code: "PR"}, {code: "PR"}},
		[]op{pa("plain", "w", "k2", "x"), {code: "PR"}, {code: "PR"}},
		[]op{pa("Title", "t", "Foo", "f"), {code: "PR", strs: []string{"Title"}}, {code: "PR", strs: []string{"Title"}}, {code: "PR"}},
		[]op{pa("k", "v"), pa("k", "w"), {code: "PR", strs: []string{"k", "zz"}}, {code: "PR", strs: []string{"k"}}},
		[]op{pa("k1", "v", "k2", "w", "k3", "x", "Ключ", "y"), {code: "PR", strs: []string{"k1", "k3"}}, {code: "PR", strs: []string{"zz", "Ключ", "k2"}}},
		[]op{{code: "KA", strs: []string{"k1", "k2", "k3", "ключ"}}, {code: "KR", strs: []string{"k1", "k3"}}, {code: "KR", strs: []string{"zz", "ключ", "k2"}}},
		[]op{vs(6, 3), {code: "KA", strs: []string{"a"}}},
		[]op{{code: "AA", strs: []string{"a.txt"}, data: []byte("hello")}, {code: "AA", strs: []string{"b.txt"}, data: []byte{}}, {code: "AR", strs: []string{"a.txt", "zz"}}, {code: "AR", strs: []string{"a.txt"}}, {code: "AR"}, {code: "AR"}},
	)
	for _, ver := range []string{"1.2", "1.4", "1.6", "1.7"} {
		for _, h := range fixed {
			history(r, ver, h, nil, len(h), tmp, true)
		}
	}
	// attachment added twice under the same name: rename mode (K only; what it means for the store is C39's subject)
	dup := []op{{code: "AA", strs: []string{"a.txt"}, data: []byte("one")}, {code: "AA", strs: []string{"a.txt"}, data: []byte("two")},
		{code: "AA", strs: []string{"a.txt"}, data: []byte("three")}, {code: "AR", strs: []string{"a.txt"}}}
	history(r, "1.7", dup, nil, len(dup), tmp, false)

	// ---- attachments: the name tree key wins over file names and descriptions.
	// descriptions that are the names of other attachments, both sort orders, prefixes, case
	// and normalisation variants; list / extract one / several / all after every step
	// (observe), remove one, add again
	aa := func(id, desc, data string) op { return op{code: "AA", strs: []string{id}, desc: desc, data: []byte(data)} }
	ar := func(ids ...string) op { return op{code: "AR", strs: ids} }
	nfc, nfd := "\u00e9.e", "e\u0301.e"
	attH := [][]op{
		{aa("a.txt", "b.txt", "bytes of a"), aa("b.txt", "", "bytes of b"), ar("b.txt"), aa("b.txt", "a.txt", "b again"), ar("a.txt"), ar("a.txt")},
		{aa("b.txt", "a.txt", "bytes of b"), aa("a.txt", "", "bytes of a"), ar("a.txt"), aa("a.txt", "b.txt", "a again"), ar("b.txt"), ar("b.txt")},
		{aa("a", "", "1"), aa("a.txt", "a", "2"), aa("A.TXT", "a.txt", "3"), ar("a"), ar("a"), aa("a.txt.bak", "A.TXT", "4"), aa("a", "a.txt.bak", "5"), ar("A.TXT", "A.TXT"), ar("a")},
		{aa(nfc, nfd, "nfc"), aa(nfd, nfc, "nfd"), ar(nfc), ar(nfc), aa(nfc, "", "nfc again")},
		{aa("x", "y", "1"), aa("y", "z", "2"), aa("z", "x", "3"), ar("y"), ar("y"), ar("y")},
		{aa("k1", "same", "1"), aa("k2", "same", "2"), aa("k0", "k2", "0"), ar("same"), ar("same"), ar("same")},
	}
	for _, ver := range []string{"1.4", "1.7"} {
		for _, h := range attH {
			history(r, ver, h, nil, len(h), tmp, true)
		}
	}
	// O only (the model keeps the name tree as the map it refines): more than three
	// attachments make the name tree grow kid nodes; removing entries until a kid is empty
	for _, h := range [][]op{
		{aa("a", "", "1"), aa("b", "", "2"), aa("c", "", "3"), aa("d", "", "4"), ar("a"), ar("b"), ar("c")},
		{aa("a", "", "1"), aa("b", "", "2"), aa("c", "", "3"), aa("d", "", "4"), ar("d"), ar("c"), aa("c", "a", "5")},
		{aa("a", "", "1"), aa("b", "", "2"), aa("c", "", "3"), aa("d", "", "4"), aa("e", "", "5"), ar("a"), ar("c"), ar("b")},
	} {
		historyFrom(r, start{doc: makePDF("1.7"), ver: "1.7", desc: "generated PDF 1.7 (name tree with kid nodes)", kids: true}, h, nil, len(h), tmp, true)
	}
	// hand-made name trees: equal UF/F under different keys, file names / descriptions that
	// are other entries' keys
	for _, ee := range [][]attEntry{
		{{"k1", "same.txt", "k2", []byte("one")}, {"k2", "same.txt", "k1", []byte("two")}, {"k3", "k1", "", []byte("three")}},
		{{"b", "a", "c", []byte("B")}, {"a", "b", "b", []byte("A")}, {"c", "c", "a", []byte("C")}},
		{{"m", "zz", "zz", []byte("M")}, {"zz0", "m", "", []byte("Z")}},
	} {
		s0 := attPDF("1.7", ee)
		for _, h := range [][]op{
			{{code: "LS", v: 1}, ar("same.txt"), ar("k1"), ar("k1")},
			{ar("b"), ar("b"), ar("b")},
			{aa("zz", "m", "new"), ar("zz"), ar("zz"), ar("m")},
			{ar("c", "a"), aa("a", "k2", "again")},
		} {
			historyFrom(r, s0, h, nil, len(h), tmp, true)
		}
	}

	// per-character keyword and name probes (single add, then list)
	for c := rune(1); c < 0x180; c++ {
		if !r.Thorough() && c > 0x7f && c%7 != 0 {
			continue
		}
		k := "x" + string(c) + "y"
		history(r, "1.7", []op{{code: "KA", strs: []string{k}}}, nil, 1, tmp, true)
		history(r, "1.7", []op{pa(k, "v"), {code: "PR", strs: []string{k}}}, nil, 2, tmp, true)
	}
	for _, c := range []rune{0x85, 0xa0, 0x1680, 0x2000, 0x200a, 0x200b, 0x2028, 0x2029, 0x202f, 0x205f, 0x3000, 0xfeff, 0xfffd, 0x10000, 0x10ffff, 0xe000, 0xd7ff} {
		for _, k := range []string{"x" + string(c) + "y", string(c) + "y", "x" + string(c)} {
			history(r, "1.7", []op{{code: "KA", strs: []string{k}}}, nil, 1, tmp, true)
			history(r, "1.7", []op{pa(k, "v"+string(c))}, nil, 1, tmp, true)
		}
	}

	// ---- starting documents with catalog XMP metadata (pdf:Keywords merged in on read,
	// scrubbed by every keyword edit): the FIRST keyword operations are by-name removals
	xk := []string{"x1", "x2", "ключ", "in ner", "a&b", "<x>", "日本"}
	ik := []string{"i1", "x2", "in fo"}
	var starts []start
	for _, ver := range []string{"1.4", "1.6", "1.7"} {
		starts = append(starts,
			xmpPDF(ver, true, nil, "", xk[:3], "; ", true),
			xmpPDF(ver, true, ik, ", ", xk, ", ", true),
			xmpPDF(ver, true, ik[:1], "; ", xk[3:], ";", true),
			xmpPDF(ver, true, ik, "; ", nil, "", false), // packet without pdf:Keywords
			xmpPDF(ver, true, nil, "", []string{}, "", true), // empty pdf:Keywords element
			xmpPDF(ver, false, nil, "", xk[:2], "; ", true)) // no Info dictionary
	}
	kr := func(k ...string) op { return op{code: "KR", strs: k} }
	ka := func(k ...string) op { return op{code: "KA", strs: k} }
	kwAt := func(s0 start, i int) string {
		if len(s0.kw) == 0 {
			return "zz"
		}
		return s0.kw[i%len(s0.kw)]
	}
	for _, s0 := range starts {
		hs := [][]op{
			{kr(kwAt(s0, 0)), kr(kwAt(s0, 1)), ka("n"), kr(), kr()},
			{kr("zz"), kr(kwAt(s0, 0), kwAt(s0, 2)), {code: "LS", v: 1}, ka(kwAt(s0, 0))},
			{{code: "LS", v: 2}, kr(kwAt(s0, len(s0.kw)-1+len(s0.kw))), pa("k", "v"), {code: "MS", v: 1}, kr()},
			{ka("n"), {code: "PR"}, kr("n"), kr(kwAt(s0, 0))},
			{kr(), ka(kwAt(s0, 0))},
			{{code: "PR"}, ka("n")}, // "remove all properties" also drops the catalog XMP
		}
		for _, h := range hs {
			historyFrom(r, s0, h, nil, len(h), tmp, true)
		}
	}
	// before PDF 1.4 the Root entry Metadata is not evaluated (the first write makes the
	// document 1.7, then it is): K only
	for _, s0 := range []start{xmpPDF("1.2", true, ik[:2], ", ", xk[:3], "; ", true), xmpPDF("1.2", false, nil, "", xk[:2], "; ", true)} {
		for _, h := range [][]op{{kr("x2"), kr("x1"), ka("n")}, {{code: "LS", v: 1}, kr("x1")}, {ka("n"), kr()}, {{code: "PR"}, ka("n")}} {
			historyFrom(r, s0, h, nil, len(h), tmp, false)
		}
	}
	nx := r.Pick(90, 900)
	for i := 0; i < nx; i++ {
		s0 := starts[r.Rand.Intn(len(starts))]
		vn := int(s0.ver[0]-'0')*10 + int(s0.ver[2]-'0')
		g := genCfg{defects: i%5 == 4}
		n := 2 + r.Rand.Intn(r.Pick(6, 8))
		step := 0
		first := 1 + r.Rand.Intn(2)
		historyFrom(r, s0, nil, func(st *store) op {
			step++
			ks := sortedKeys(st.kw)
			if step <= first && len(ks) > 0 {
				o := kr(ks[r.Rand.Intn(len(ks))])
				if r.Rand.Intn(3) == 0 {
					o.strs = append(o.strs, ks[r.Rand.Intn(len(ks))])
				}
				return o
			}
			return genOp(r, g, vn, st)
		}, n, tmp, true)
	}
	// corpus documents with catalog XMP keywords (O only: the store starts as what they list)
	for _, f := range []string{"pkg/testdata/WaldenFull.pdf", "pkg/samples/signatures/adbe.pkcs7.detached/usageRights.pdf"} {
		repo := os.Getenv("VERIF_REPO")
		if repo == "" {
			repo = "/repo"
		}
		b, err := os.ReadFile(filepath.Join(repo, f))
		if err != nil {
			r.Count("corpus-missing:" + f)
			continue
		}
		s0 := start{doc: b, ver: "1.7", desc: f, hasInfo: true, corpus: true, xmpLive: true}
		step := 0
		historyFrom(r, s0, nil, func(st *store) op {
			step++
			ks := sortedKeys(st.kw)
			switch {
			case step == 1 && len(ks) > 0:
				return kr(ks[0])
			case step == 2:
				return ka("n", "ключ")
			case step == 3:
				return kr("n")
			case step == 4:
				return pa("c35k", "v")
			}
			return kr()
		}, 5, tmp, true)
	}

	// random histories
	nh := r.Pick(260, 4000)
	for i := 0; i < nh; i++ {
		ver := []string{"1.2", "1.4", "1.6", "1.7", "1.7", "1.7"}[r.Rand.Intn(6)]
		vn := int(ver[0]-'0')*10 + int(ver[2]-'0')
		g := genCfg{defects: i%4 == 3}
		n := 1 + r.Rand.Intn(r.Pick(8, 10))
		history(r, ver, nil, func(st *store) op { return genOp(r, g, vn, st) }, n, tmp, true)
	}
	_ = unicode.IsSpace
}
