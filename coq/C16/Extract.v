From Coq Require Import Extraction ExtrOcamlBasic.
From PV Require Import Lib.ExtBase C16.Model.
Extraction "model.ml" ext_base_z ext_base_n ext_base_nat ext_base_res ext_base_list
  decode_limit copy_decoded of_copy ahx_decode_length ahx_encode rl_decode_length rl_encode detect
  predictor_row_params process_row flate_post pipe_decode pipe_encode ahx_stage rl_stage
  trim_right_crlf a85_decode_length lzw_decode_length.
