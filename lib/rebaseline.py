#!/usr/bin/env python3
"""Re-run, on a quiet machine, the load-sensitive baseline tests (TestReadLargeDictObject*, 10 s deadline)
for every seeded change whose recorded suite result shows only those tests as not passing, and update
seeded/<name>/meta.json (verification.baseline_passes, baseline_note)."""
import json, glob, os, subprocess, re, sys
env = dict(os.environ, GOFLAGS="-mod=mod", GOPROXY="off")
FLAKY = re.compile(r"TestReadLargeDictObject(Stream)?\b")
for d in sorted(glob.glob("/verif/seeded/*")):
    mp = d + "/meta.json"
    try: m = json.load(open(mp))
    except Exception: continue
    v = m.get("verification", {})
    if v.get("baseline_passes", True): continue
    bad = [l for l in v.get("baseline_summary", []) if "NOT PASSING" in l]
    if not bad or not all(FLAKY.search(l) for l in bad):
        print(os.path.basename(d), "non-flaky failures:", bad); continue
    wt = "/tmp/rb-" + os.path.basename(d)
    subprocess.run("git -C /repo worktree remove --force %s; rm -rf %s" % (wt, wt), shell=True, stdout=subprocess.DEVNULL, stderr=subprocess.DEVNULL)
    subprocess.run(["git", "-C", "/repo", "worktree", "add", "--detach", "-q", wt, "HEAD"], check=True)
    r = subprocess.run(["git", "-C", wt, "apply", d + "/patch.diff"])
    ok = False
    if r.returncode == 0:
        for attempt in range(3):
            p = subprocess.run("go test -vet=off -count=1 -run 'TestReadLargeDictObject' ./pkg/pdfcpu/", shell=True, cwd=wt, env=env, stdout=subprocess.PIPE, stderr=subprocess.STDOUT, text=True)
            if p.returncode == 0: ok = True; break
    subprocess.run("git -C /repo worktree remove --force %s" % wt, shell=True)
    print(os.path.basename(d), "flaky tests pass alone:" , ok)
    if ok:
        v["baseline_passes"] = True
        v["baseline_note"] = "TestReadLargeDictObject* (10 s wall-clock deadline) failed under machine load during the suite run and pass when re-run alone with the change applied"
        m["verification"] = v
        json.dump(m, open(mp, "w"), indent=1)
