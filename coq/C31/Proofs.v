(* C31 — lemmas.  Part 1: strings, numbers, loops. *)
From Coq Require Import ZArith NArith Bool List Lia ZifyBool ZifyNat ZifyN.
From PV Require Import Lib.GoInt C31.Model C31.Spec.
Import ListNotations.
Open Scope Z_scope.

(* ------------------------------------------------------------ digits and numbers *)
Lemma is_digit_range c : is_digit c = true -> (48 <= c <= 57)%N.
Proof. unfold is_digit. lia. Qed.

Lemma digit_neq d c : is_digit d = true -> ((c <? 48) || (57 <? c))%N = true -> N.eqb d c = false.
Proof. intros Hd Hc. apply is_digit_range in Hd. lia. Qed.

Lemma is_num_cons a : is_num a = true ->
  exists d a', a = d :: a' /\ is_digit d = true /\ forallb is_digit a' = true.
Proof.
  destruct a as [|d a']; simpl; [discriminate|].
  intros H. apply andb_true_iff in H as [H1 H2]. eauto.
Qed.

Lemma is_num_digits a : is_num a = true -> forallb is_digit a = true.
Proof. destruct a; simpl; [discriminate|auto]. Qed.

Definition dfold (acc : Z) (a : str) : Z := fold_left (fun acc c => acc * 10 + (Z.of_N c - 48)) a acc.

Lemma digits_val_ok a : forall acc, forallb is_digit a = true -> digits_val acc a = Some (dfold acc a).
Proof.
  induction a as [|c a IH]; intros acc H; simpl in *; [reflexivity|].
  apply andb_true_iff in H as [H1 H2]. rewrite H1. apply IH, H2.
Qed.

Lemma dfold_nonneg a : forall acc, forallb is_digit a = true -> 0 <= acc -> 0 <= dfold acc a.
Proof.
  induction a as [|c a IH]; intros acc H Hacc; simpl in *; [assumption|].
  apply andb_true_iff in H as [H1 H2]. apply IH; [assumption|].
  apply is_digit_range in H1. lia.
Qed.

Lemma dval_nonneg a : is_num a = true -> 0 <= dval a.
Proof. intros H. apply (dfold_nonneg a 0); [apply is_num_digits, H|lia]. Qed.

Lemma atoi_num a : is_num a = true ->
  atoi a = if bad a then Err else Ok (dval a).
Proof.
  intros H. pose proof (dval_nonneg a H) as Hnn.
  destruct (is_num_cons a H) as (d & a' & -> & Hd & Ha').
  unfold atoi, bad.
  rewrite (digit_neq d cMinus Hd eq_refl), (digit_neq d cPlus Hd eq_refl).
  rewrite digits_val_ok by (simpl; rewrite Hd, Ha'; reflexivity).
  change (dfold 0 (d :: a')) with (dval (d :: a')).
  assert (Hmin : (minS 64 <=? dval (d :: a')) = true).
  { apply Z.leb_le. unfold minS. simpl. lia. }
  rewrite Hmin. simpl andb.
  destruct (dval (d :: a') <=? maxS 64); reflexivity.
Qed.

(* ------------------------------------------------------------ strings *)
Definition nochar (c : N) (a : str) : bool := forallb (fun x => negb (N.eqb x c)) a.

Lemma num_nochar a c : forallb is_digit a = true -> ((c <? 48) || (57 <? c))%N = true -> nochar c a = true.
Proof.
  intros H Hc. induction a as [|d a IH]; simpl in *; [reflexivity|].
  apply andb_true_iff in H as [H1 H2]. rewrite (digit_neq d c H1 Hc). simpl. apply IH, H2.
Qed.

Lemma split_on_cons_ne c x r : N.eqb x c = false ->
  split_on c (x :: r) = match split_on c r with h :: t => (x :: h) :: t | [] => [[x]] end.
Proof. intros H. simpl. rewrite H. reflexivity. Qed.

Lemma split_on_nonempty c s : split_on c s <> [].
Proof.
  induction s as [|x r IH]; simpl; [discriminate|].
  destruct (N.eqb x c); [discriminate|]. destruct (split_on c r); [contradiction|discriminate].
Qed.

Lemma split_on_app c a rest : nochar c a = true ->
  split_on c (a ++ c :: rest) = a :: split_on c rest.
Proof.
  induction a as [|x a IH]; intros H; simpl in *.
  - rewrite N.eqb_refl. reflexivity.
  - apply andb_true_iff in H as [H1 H2]. apply negb_true_iff in H1. rewrite H1.
    rewrite IH by assumption. reflexivity.
Qed.

Lemma split_on_none c a : nochar c a = true -> split_on c a = [a].
Proof.
  induction a as [|x a IH]; intros H; simpl in *; [reflexivity|].
  apply andb_true_iff in H as [H1 H2]. apply negb_true_iff in H1. rewrite H1.
  rewrite IH by assumption. reflexivity.
Qed.

Lemma ends_with_app_num c x a : is_num a = true -> ((c <? 48) || (57 <? c))%N = true ->
  ends_with c (x ++ a) = false.
Proof.
  intros H Hc. destruct (is_num_cons a H) as (d & a' & -> & Hd & Ha'). clear H.
  revert d Hd. revert x. induction a' as [|e a' IH]; intros x d Hd.
  - induction x as [|y x IHx]; simpl.
    + apply digit_neq; assumption.
    + destruct (x ++ [d]) eqn:E; [destruct x; discriminate|]. exact IHx.
  - simpl in Ha'. apply andb_true_iff in Ha' as [He Ha'].
    replace (x ++ d :: e :: a') with ((x ++ [d]) ++ e :: a') by (rewrite <- app_assoc; reflexivity).
    apply IH; assumption.
Qed.

Lemma ends_with_snoc c x : ends_with c (x ++ [c]) = true.
Proof.
  induction x as [|y x IH]; simpl.
  - apply N.eqb_refl.
  - destruct (x ++ [c]) eqn:E; [destruct x; discriminate|]. exact IH.
Qed.

Lemma str_eqb_refl a : str_eqb a a = true.
Proof. induction a; simpl; [reflexivity|]. rewrite N.eqb_refl. assumption. Qed.

Lemma str_eqb_eq a : forall b, str_eqb a b = true -> a = b.
Proof.
  induction a as [|x a IH]; intros [|y b] H; simpl in H; try discriminate; [reflexivity|].
  apply andb_true_iff in H as [H1 H2]. apply N.eqb_eq in H1. f_equal; auto.
Qed.

(* ------------------------------------------------------------ loops *)
Fixpoint lseq (start step : Z) (k : nat) : list Z :=
  match k with O => [] | S k' => start :: lseq (start + step) step k' end.

Lemma lseq_snoc step k : forall start,
  lseq start step (S k) = lseq start step k ++ [start + step * Z.of_nat k].
Proof.
  induction k as [|k IH]; intros start.
  - simpl. f_equal. lia.
  - change (lseq start step (S (S k))) with (start :: lseq (start + step) step (S k)).
    rewrite IH. simpl. do 2 f_equal. f_equal. lia.
Qed.

Lemma zseq_lseq k : forall lo, zseq lo k = lseq lo 1 k.
Proof. induction k as [|k IH]; intros lo; simpl; [reflexivity|]. rewrite IH. reflexivity. Qed.

Lemma zstep2_lseq k : forall lo, zstep2 lo k = lseq lo 2 k.
Proof. induction k as [|k IH]; intros lo; simpl; [reflexivity|]. rewrite IH. reflexivity. Qed.

Section Loops.
  Variable St : Type.

  Lemma nat_iter_loop (f : Z -> St -> St) start step s k :
    nat_rect (fun _ => (Z * St)%type) (start, s) (fun _ js => (fst js + step, f (fst js) (snd js))) k
    = (start + step * Z.of_nat k, fold_left (fun s j => f j s) (lseq start step k) s).
  Proof.
    induction k as [|k IH].
    - simpl. f_equal. lia.
    - cbn [nat_rect].
      rewrite IH. cbn [fst snd]. rewrite lseq_snoc, fold_left_app. simpl. f_equal. lia.
  Qed.

  Lemma for_loop_eq start step count (f : Z -> St -> St) s :
    for_loop St start step count f s = fold_left (fun s j => f j s) (lseq start step (Z.to_nat count)) s.
  Proof.
    unfold for_loop. destruct (Z_le_gt_dec 0 count) as [Hc|Hc].
    - rewrite iter_nat_of_Z by assumption. rewrite nat_iter_loop. simpl.
      rewrite Zabs2Nat.abs_nat_nonneg by assumption. reflexivity.
    - destruct count; try lia. reflexivity.
  Qed.

  Lemma for_range_eq lo hi (f : Z -> St -> St) s :
    for_range St lo hi f s = fold_left (fun s j => f j s) (zrange lo hi) s.
  Proof. unfold for_range, zrange. rewrite for_loop_eq, zseq_lseq. reflexivity. Qed.

  Lemma for_step2_eq start n (f : Z -> St -> St) s :
    for_step2 St start n f s = fold_left (fun s j => f j s) (zstep2 start (Z.to_nat ((n - start) / 2 + 1))) s.
  Proof. unfold for_step2. rewrite for_loop_eq, zstep2_lseq. reflexivity. Qed.
End Loops.

Lemma zrange_empty lo hi : hi < lo -> zrange lo hi = [].
Proof. intros H. unfold zrange. replace (Z.to_nat (hi - lo + 1)) with O by lia. reflexivity. Qed.

Lemma zrange_single a : zrange a a = [a].
Proof. unfold zrange. replace (Z.to_nat (a - a + 1)) with 1%nat by lia. reflexivity. Qed.

Lemma zrange_ext lo hi lo' hi' :
  (lo <= hi -> lo = lo' /\ hi = hi') -> (hi < lo -> hi' < lo') -> zrange lo hi = zrange lo' hi'.
Proof.
  intros H1 H2. destruct (Z_le_gt_dec lo hi) as [H|H].
  - destruct (H1 H) as [-> ->]. reflexivity.
  - rewrite !zrange_empty by lia. reflexivity.
Qed.

Lemma in_zseq k : forall lo p, In p (zseq lo k) <-> lo <= p < lo + Z.of_nat k.
Proof.
  induction k as [|k IH]; intros lo p; simpl.
  - lia.
  - rewrite IH. lia.
Qed.

Lemma in_zrange lo hi p : In p (zrange lo hi) <-> lo <= p <= hi.
Proof. unfold zrange. rewrite in_zseq. lia. Qed.

Lemma existsb_zrange lo hi p : existsb (Z.eqb p) (zrange lo hi) = (lo <=? p) && (p <=? hi).
Proof.
  apply eq_true_iff_eq. rewrite existsb_exists, andb_true_iff, !Z.leb_le. split.
  - intros (x & Hin & Hx). apply Z.eqb_eq in Hx. subst x. apply in_zrange in Hin. lia.
  - intros H. exists p. split; [apply in_zrange; lia|apply Z.eqb_refl].
Qed.
