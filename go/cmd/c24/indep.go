// Independent implementation of the standard security handler algorithms, written from
// ISO 32000-1:2008 7.6 (Algorithms 1-7) and ISO 32000-2:2020 7.6 (Algorithms 1.A, 2.A, 2.B, 8-13),
// on the Go standard library only.  Nothing in this file calls pdfcpu.
package main

import (
	"bytes"
	"crypto/aes"
	"crypto/cipher"
	"crypto/md5"
	"crypto/rc4"
	"crypto/sha256"
	"crypto/sha512"
	"encoding/binary"
	"encoding/hex"
	"math/big"
	"unicode/utf8"

	"golang.org/x/text/unicode/norm"
)

// ---- primitive layer with an optional tape: every call of SHA-2 / AES made by the independent implementation can be
// recorded ("md5(prim:arghex:...)=resulthex") and replayed by the extracted Coq model, whose primitives are parameters.
var tape *[]string

func rec(prim string, out []byte, args ...[]byte) []byte {
	if tape != nil {
		h := md5.New()
		h.Write([]byte(prim))
		for _, a := range args {
			h.Write([]byte(":" + hex.EncodeToString(a)))
		}
		*tape = append(*tape, hex.EncodeToString(h.Sum(nil))+"="+hex.EncodeToString(out))
	}
	return out
}

func h256(b []byte) []byte { s := sha256.Sum256(b); return rec("h256", s[:], b) }
func h384(b []byte) []byte { s := sha512.Sum384(b); return rec("h384", s[:], b) }
func h512(b []byte) []byte { s := sha512.Sum512(b); return rec("h512", s[:], b) }

func ecb(key, block []byte, enc bool) []byte {
	c, err := aes.NewCipher(key)
	if err != nil {
		panic(err)
	}
	out := make([]byte, 16)
	if enc {
		c.Encrypt(out, block)
		return rec("ee", out, key, block)
	}
	c.Decrypt(out, block)
	return rec("ed", out, key, block)
}

var padding = []byte("\x28\xBF\x4E\x5E\x4E\x75\x8A\x41\x64\x00\x4E\x56\xFF\xFA\x01\x08\x2E\x2E\x00\xB6\xD0\x68\x3E\x80\x2F\x0C\xA9\xFE\x64\x53\x69\x7A")

func padOrTruncate(pw []byte) []byte {
	b := append(append([]byte{}, pw...), padding...)
	return b[:32]
}

func keyLen(r, length int) int {
	if r == 2 {
		return 5
	}
	return length / 8
}

// Algorithm 2
func iAlg2(pw, o []byte, p int64, id []byte, r, length int, encMeta bool) []byte {
	h := md5.New()
	h.Write(padOrTruncate(pw))
	h.Write(o)
	var pb [4]byte
	binary.LittleEndian.PutUint32(pb[:], uint32(p))
	h.Write(pb[:])
	h.Write(id)
	if r >= 4 && !encMeta {
		h.Write([]byte{0xff, 0xff, 0xff, 0xff})
	}
	d := h.Sum(nil)
	n := keyLen(r, length)
	if r >= 3 {
		for i := 0; i < 50; i++ {
			s := md5.Sum(d[:n])
			d = s[:]
		}
	}
	return d[:n]
}

func iAlg3Key(opw, upw []byte, r, length int) []byte {
	pw := opw
	if len(pw) == 0 {
		pw = upw
	}
	s := md5.Sum(padOrTruncate(pw))
	d := s[:]
	if r >= 3 {
		for i := 0; i < 50; i++ {
			s := md5.Sum(d)
			d = s[:]
		}
	}
	return d[:keyLen(r, length)]
}

func rc4x(key, data []byte) []byte {
	c, err := rc4.NewCipher(key)
	if err != nil {
		panic(err)
	}
	out := make([]byte, len(data))
	c.XORKeyStream(out, data)
	return out
}

func xorKey(key []byte, c byte) []byte {
	k := make([]byte, len(key))
	for i := range key {
		k[i] = key[i] ^ c
	}
	return k
}

// Algorithm 3
func iAlg3(opw, upw []byte, r, length int) []byte {
	key := iAlg3Key(opw, upw, r, length)
	x := rc4x(key, padOrTruncate(upw))
	if r >= 3 {
		for c := 1; c <= 19; c++ {
			x = rc4x(xorKey(key, byte(c)), x)
		}
	}
	return x
}

// Algorithms 4 / 5: the significant bytes of U (32 for R2, 16 for R>=3)
func iAlgU(key, id []byte, r int) []byte {
	if r == 2 {
		return rc4x(key, padding)
	}
	h := md5.New()
	h.Write(padding)
	h.Write(id)
	x := rc4x(key, h.Sum(nil))
	for c := 1; c <= 19; c++ {
		x = rc4x(xorKey(key, byte(c)), x)
	}
	return x
}

// Algorithm 6
func iAlg6(pw, o, u []byte, p int64, id []byte, r, length int, encMeta bool) (bool, []byte) {
	key := iAlg2(pw, o, p, id, r, length, encMeta)
	x := iAlgU(key, id, r)
	if r == 2 {
		return bytes.Equal(x, u), key
	}
	return len(u) >= 16 && bytes.Equal(x, u[:16]), key
}

// Algorithm 7
func iAlg7(opw, upw, o, u []byte, p int64, id []byte, r, length int, encMeta bool) (bool, []byte) {
	key := iAlg3Key(opw, upw, r, length)
	var x []byte
	if r == 2 {
		x = rc4x(key, o)
	} else {
		x = o
		for c := 19; c >= 0; c-- {
			x = rc4x(xorKey(key, byte(c)), x)
		}
	}
	return iAlg6(x, o, u, p, id, r, length, encMeta)
}

// ---- revisions 5 and 6

func aesCBC(key, iv, data []byte, enc bool) []byte {
	b, err := aes.NewCipher(key)
	if err != nil {
		panic(err)
	}
	out := make([]byte, len(data))
	if enc {
		cipher.NewCBCEncrypter(b, iv).CryptBlocks(out, data)
		return rec("ce", out, key, iv, data)
	}
	cipher.NewCBCDecrypter(b, iv).CryptBlocks(out, data)
	return rec("cd", out, key, iv, data)
}

// Algorithm 2.B; returns the hash and the number of rounds
func iAlg2B(input, pw, udata []byte) ([]byte, int) {
	k := h256(input)
	round := 0
	for {
		seq := append(append(append([]byte{}, pw...), k...), udata...)
		k1 := bytes.Repeat(seq, 64)
		e := aesCBC(k[:16], k[16:32], k1, true)
		switch new(big.Int).Mod(new(big.Int).SetBytes(e[:16]), big.NewInt(3)).Int64() {
		case 0:
			k = h256(e)
		case 1:
			k = h384(e)
		default:
			k = h512(e)
		}
		round++ // number of the next round
		if round >= 64 && int(e[len(e)-1]) <= round-32 {
			break
		}
	}
	return k[:32], round
}

func iHash(r int, input, pw, udata []byte) []byte {
	if r == 6 {
		h, _ := iAlg2B(input, pw, udata)
		return h
	}
	return h256(input)
}

func cat(bs ...[]byte) []byte {
	var o []byte
	for _, b := range bs {
		o = append(o, b...)
	}
	return o
}

var zeroIV = make([]byte, 16)

// Algorithm 8 (pw already prepared)
func iAlg8(r int, pw, vsalt, ksalt, fileKey []byte) (u, ue []byte) {
	u = cat(iHash(r, cat(pw, vsalt), pw, nil), vsalt, ksalt)
	ue = aesCBC(iHash(r, cat(pw, ksalt), pw, nil), zeroIV, fileKey, true)
	return
}

// Algorithm 9
func iAlg9(r int, pw, vsalt, ksalt, u, fileKey []byte) (o, oe []byte) {
	o = cat(iHash(r, cat(pw, vsalt, u), pw, u), vsalt, ksalt)
	oe = aesCBC(iHash(r, cat(pw, ksalt, u), pw, u), zeroIV, fileKey, true)
	return
}

// Algorithm 10 (bytes 12-15 random)
func iAlg10(p int64, encMeta bool, rnd4, fileKey []byte) []byte {
	b := make([]byte, 16)
	binary.LittleEndian.PutUint32(b, uint32(p))
	copy(b[4:], []byte{0xff, 0xff, 0xff, 0xff})
	b[8] = 'F'
	if encMeta {
		b[8] = 'T'
	}
	copy(b[9:], "adb")
	copy(b[12:], rnd4)
	return ecb(fileKey, b, true)
}

// Algorithm 11 + 2.A(e)
func iAlg11(r int, pw, u, ue []byte) (bool, []byte) {
	if len(u) < 48 {
		return false, nil
	}
	if !bytes.Equal(iHash(r, cat(pw, u[32:40]), pw, nil), u[:32]) {
		return false, nil
	}
	return true, aesCBC(iHash(r, cat(pw, u[40:48]), pw, nil), zeroIV, ue, false)
}

// Algorithm 12 + 2.A(d)
func iAlg12(r int, pw, o, oe, u []byte) (bool, []byte) {
	if len(o) < 48 {
		return false, nil
	}
	if !bytes.Equal(iHash(r, cat(pw, o[32:40], u), pw, u), o[:32]) {
		return false, nil
	}
	return true, aesCBC(iHash(r, cat(pw, o[40:48], u), pw, u), zeroIV, oe, false)
}

// Algorithm 13
func iAlg13(perms, fileKey []byte, p int64, encMeta bool) bool {
	if len(fileKey) != 32 || len(perms) < 16 {
		return false
	}
	d := ecb(fileKey, perms[:16], false)
	want := byte('F')
	if encMeta {
		want = 'T'
	}
	return string(d[9:12]) == "adb" && binary.LittleEndian.Uint32(d) == uint32(p) && d[8] == want
}

// Algorithm 1 / 1.A: per-object encryption of strings and streams
func iObjKey(fileKey []byte, objNr, gen int, aesv2 bool) []byte {
	h := md5.New()
	h.Write(fileKey)
	h.Write([]byte{byte(objNr), byte(objNr >> 8), byte(objNr >> 16), byte(gen), byte(gen >> 8)})
	if aesv2 {
		h.Write([]byte("sAlT"))
	}
	n := len(fileKey) + 5
	if n > 16 {
		n = 16
	}
	return h.Sum(nil)[:n]
}

type cryptMethod int

const (
	cmRC4 cryptMethod = iota
	cmAESV2
	cmAESV3
)

func iDecryptData(cm cryptMethod, fileKey []byte, objNr, gen int, data []byte) ([]byte, bool) {
	switch cm {
	case cmRC4:
		return rc4x(iObjKey(fileKey, objNr, gen, false), data), true
	default:
		key := fileKey
		if cm == cmAESV2 {
			key = iObjKey(fileKey, objNr, gen, true)
		}
		if len(data) < 32 || len(data)%16 != 0 {
			return nil, false
		}
		pt := aesCBC(key, data[:16], data[16:], false)
		n := int(pt[len(pt)-1])
		if n < 1 || n > 16 || n > len(pt) {
			return nil, false
		}
		return pt[:len(pt)-n], true
	}
}

func iEncryptData(cm cryptMethod, fileKey []byte, objNr, gen int, data, iv []byte) []byte {
	switch cm {
	case cmRC4:
		return rc4x(iObjKey(fileKey, objNr, gen, false), data)
	default:
		key := fileKey
		if cm == cmAESV2 {
			key = iObjKey(fileKey, objNr, gen, true)
		}
		n := 16 - len(data)%16
		pt := append(append([]byte{}, data...), bytes.Repeat([]byte{byte(n)}, n)...)
		return append(append([]byte{}, iv...), aesCBC(key, iv, pt, true)...)
	}
}

// ---- SASLprep (RFC 4013) for the repertoire used by this harness: ASCII, Latin-1/Latin Extended letters,
// compatibility characters, CJK, the mapped-to-nothing and non-ASCII-space tables, the prohibited control tables.
// ok=false: prohibited output.  supported=false: the string contains code points this implementation does not
// classify (right-to-left scripts, unassigned code points ...) and must not be used as a test input.
func saslprep(s string) (out string, ok bool, supported bool) {
	if !utf8.ValidString(s) {
		return "", false, false
	}
	var b []rune
	for _, r := range s {
		switch {
		case r == 0x00AD || r == 0x034F || r == 0x1806 || (r >= 0x180B && r <= 0x180D) || (r >= 0x200B && r <= 0x200D) ||
			r == 0x2060 || (r >= 0xFE00 && r <= 0xFE0F) || r == 0xFEFF: // B.1
			continue
		case r == 0x00A0 || r == 0x1680 || (r >= 0x2000 && r <= 0x200A) || r == 0x202F || r == 0x205F || r == 0x3000: // C.1.2
			b = append(b, ' ')
		default:
			b = append(b, r)
		}
	}
	n := norm.NFKC.String(string(b))
	for _, r := range n {
		switch {
		case r < 0x20 || r == 0x7F: // C.2.1
			return "", false, true
		case (r >= 0x80 && r <= 0x9F) || r == 0x06DD || r == 0x070F || r == 0x180E || r == 0x2028 || r == 0x2029 ||
			(r >= 0x2061 && r <= 0x2063) || (r >= 0x206A && r <= 0x206F) || (r >= 0xFFF9 && r <= 0xFFFD): // C.2.2, C.6
			return "", false, true
		case (r >= 0xE000 && r <= 0xF8FF) || r >= 0xF0000: // C.3
			return "", false, true
		case (r >= 0xFDD0 && r <= 0xFDEF) || r&0xFFFE == 0xFFFE: // C.4
			return "", false, true
		case (r >= 0x2FF0 && r <= 0x2FFB) || r == 0x0340 || r == 0x0341 || r == 0x200E || r == 0x200F || (r >= 0x202A && r <= 0x202E) ||
			(r >= 0xE0000 && r <= 0xE007F): // C.7, C.8, C.9
			return "", false, true
		case r < 0x0250, r >= 0x1E00 && r <= 0x1EFF, r >= 0x3040 && r <= 0x30FF, r >= 0x4E00 && r <= 0x9FA5:
			// Latin, Latin Extended Additional, kana, CJK unified: left-to-right, assigned in Unicode 3.2
		default:
			return "", false, false
		}
	}
	return n, true, true
}

func trunc127(b []byte) []byte {
	if len(b) > 127 {
		return b[:127]
	}
	return b
}
