(* C25 — wrong passwords are rejected and password changes take effect.
   Executable model, transcribed from
     pkg/pdfcpu/read.go    handleUnencryptedFile, needsOwnerAndUserPassword, handlePermissions,
                           setupEncryptionKey, checkForEncryption
     pkg/pdfcpu/crypto.go  key / encKey (password padding), validateUserPassword*, validateOwnerPassword*
                           (which password goes into which digest), calcOAndU* (what the writer stores)
     pkg/pdfcpu/write.go   updateEncryption, handleEncryption
     pkg/api/crypto.go, pkg/api/permission.go   which configuration slot each api operation fills.
   The digests themselves (MD5/RC4/SHA-2/AES: property C24) are idealised: a stored O or U entry is
   represented by the prepared password it was derived from, and a candidate matches exactly when its
   prepared form is equal to it.  No proofs in this file. *)
From Coq Require Import NArith ZArith List Bool.
Import ListNotations.
Open Scope N_scope.

Definition bytes := list N.

Fixpoint beq (a b : bytes) : bool :=
  match a, b with
  | [], [] => true
  | x :: a', y :: b' => (x =? y) && beq a' b'
  | _, _ => false
  end.

Definition is_empty (a : bytes) : bool := match a with [] => true | _ => false end.

(* crypto.go: var pad *)
Definition pad : bytes :=
  [0x28; 0xBF; 0x4E; 0x5E; 0x4E; 0x75; 0x8A; 0x41; 0x64; 0x00; 0x4E; 0x56; 0xFF; 0xFA; 0x01; 0x08;
   0x2E; 0x2E; 0x00; 0xB6; 0xD0; 0x68; 0x3E; 0x80; 0x2F; 0x0C; 0xA9; 0xFE; 0x64; 0x53; 0x69; 0x7A].

(* crypto.go key()/encKey()/o(): if len(pw) >= 32 { pw = pw[:32] } else { pw = append(pw, pad[:32-len(pw)]...) } *)
Definition pad32 (pw : bytes) : bytes := firstn 32 (pw ++ pad).

(* crypto.go validate*AES256*: if len(pw) > 127 { pw = pw[:127] } *)
Definition trunc127 (pw : bytes) : bytes := firstn 127 pw.

(* R 5 and 6 (AES-256) use the SHA-2 based algorithms *)
Definition aes256 (r : N) : bool := 5 <=? r.

(* crypto.go key(): pw := ownerpw; if len(pw) == 0 { pw = userpw } *)
Definition eff_owner (opw upw : bytes) : bytes := if is_empty opw then upw else opw.

(* What the encryption dictionary remembers about the passwords. *)
Record enc := mkEnc {
  eR : N;          (* /R *)
  eO : bytes;      (* R<=4: the padded password the RC4 key of /O is derived from; R>=5: the prepared bytes hashed into /O *)
  eU : bytes;      (* R<=4: the padded password /U is derived from (also what /O decrypts to); R>=5: bytes hashed into /U *)
  eP : Z           (* /P *)
}.

Inductive doc := Plain | Encrypted (e : enc).

Inductive vres := VOk | VNo | VErr.

Section Prep.
(* crypto.go processInput: the PRECIS profile applied by the reader to AES-256 passwords (golang.org/x/text,
   not modelled): None = error ("precis: disallowed rune encountered") *)
Variable prep : bytes -> option bytes.

(* preparedPasswordAES256 (since dd3e7ff0): processInput, then truncation to 127 bytes *)
Definition prepared127 (pw : bytes) : option bytes := option_map trunc127 (prep pw).

(* calcOAndU (o, u) for R<=4: o() uses key(ownerpw, userpw) and the padded user password; u() uses encKey(userpw).
   calcOAndUAES256 / calcOAndUAES256Rev6: upw, err := preparedPasswordAES256(ctx.UserPW), then
   opw, err := preparedPasswordAES256(ctx.OwnerPW); an error aborts the operation (None). *)
Definition write_enc (r : N) (opw upw : bytes) (p : Z) : option enc :=
  if aes256 r then
    match prepared127 upw with
    | None => None
    | Some u => match prepared127 opw with
                | None => None
                | Some o => Some (mkEnc r o u p)
                end
    end
  else Some (mkEnc r (pad32 (eff_owner opw upw)) (pad32 upw) p).

(* validateUserPassword / validateUserPasswordAES256 / validateUserPasswordAES256Rev6 *)
Definition validate_user (e : enc) (upw : bytes) : vres :=
  if aes256 (eR e) then
    match prepared127 upw with
    | None => VErr
    | Some p => if beq p (eU e) then VOk else VNo
    end
  else if beq (pad32 upw) (eU e) then VOk else VNo.

(* validateOwnerPassword / validateOwnerPasswordAES256 / validateOwnerPasswordAES256Rev6.
   R<=4: key(ownerpw, userpw) decrypts /O; the result is validated as a user password: it validates exactly when
   the key is the one /O was encrypted with (then /O decrypts to the padded user password /U was made from). *)
Definition validate_owner (e : enc) (opw upw : bytes) : vres :=
  if aes256 (eR e) then
    if is_empty opw then VNo
    else match prepared127 opw with
         | None => VErr
         | Some p => if beq p (eO e) then VOk else VNo
         end
  else if beq (pad32 (eff_owner opw upw)) (eO e) then VOk else VNo.

Inductive outcome :=
| OpenOwner | OpenUser
| EOwnerRequired | EWrongPassword | EInvalidPerms | EPermDenied | EValidate
| ENotEncrypted | EEncrypted
| EPrepare.    (* the writer cannot prepare a new AES-256 password: "password entries: %w" *)

(* read.go setupEncryptionKey + handlePermissions, as a function of the two validation results.
   needs_both = needsOwnerAndUserPassword(ctx.Cmd); perms_ok = validatePermissions(ctx);
   both_empty = ctx.OwnerPW == "" && ctx.UserPW == ""; has_perm = hasNeededPermissions(ctx.Cmd, ctx.E). *)
Definition setup_key (needs_both : bool) (ow us : vres) (perms_ok both_empty has_perm : bool) : outcome :=
  match ow with
  | VErr => EValidate                                   (* "validate owner password: %w" *)
  | _ =>
    let ok := match ow with VOk => true | _ => false end in
    if negb ok && needs_both then EOwnerRequired
    else if ok && negb needs_both then
      (if perms_ok then OpenOwner else EInvalidPerms)
    else
      match us with
      | VErr => EValidate                               (* "validate user password: %w" *)
      | VNo => EWrongPassword
      | VOk =>
        (* handlePermissions *)
        if negb perms_ok then EInvalidPerms
        else if both_empty then OpenUser
        else if has_perm then OpenUser else EPermDenied
      end
  end.

(* The decision for a document written by pdfcpu (its /Perms entry validates: C24/C26) and a command
   without permission requirements (the commands of this property: perm[...] = {0,0} or no entry). *)
Definition access (needs_both : bool) (e : enc) (opw upw : bytes) : outcome :=
  setup_key needs_both (validate_owner e opw upw) (validate_user e upw) true
            (is_empty opw && is_empty upw) true.

Definition opened (o : outcome) : bool :=
  match o with OpenOwner | OpenUser => true | _ => false end.

(* Opening for reading (api.ReadValidateAndOptimize with a listing command): the content is available iff opened. *)
Definition opens (e : enc) (opw upw : bytes) : bool := opened (access false e opw upw).

(* The api operations of pkg/api/crypto.go and permission.go, with the configuration slots they fill. *)
Inductive op :=
| OpEncrypt (r : N) (opw upw : bytes) (p : Z)      (* api.Encrypt: conf.OwnerPW, conf.UserPW, conf.Permissions;
                                                      r follows from key length / AES / PDF version (newEncryptDict) *)
| OpDecrypt (opw upw : bytes)                      (* api.Decrypt *)
| OpChangeUser (opw upw_old upw_new : bytes)       (* api.ChangeUserPassword: conf.UserPW = pwOld, conf.UserPWNew = &pwNew *)
| OpChangeOwner (upw opw_old opw_new : bytes)      (* api.ChangeOwnerPassword: conf.OwnerPW = pwOld, conf.OwnerPWNew = &pwNew *)
| OpSetPerms (opw upw : bytes) (p : Z).            (* api.SetPermissions *)

Inductive result := ROk | RErr (o : outcome).

(* the encryption dictionary is rewritten, or the operation fails before anything is written *)
Definition rewrite_with (d : doc) (w : option enc) : result * doc :=
  match w with
  | Some e' => (ROk, Encrypted e')
  | None => (RErr EPrepare, d)
  end.

(* One api call: (result, document afterwards).  On an error nothing is written: the document is unchanged. *)
Definition step (d : doc) (o : op) : result * doc :=
  match o with
  | OpEncrypt r opw upw p =>
    match d with
    | Encrypted _ => (RErr EEncrypted, d)                                (* checkForEncryption: ErrEncrypted *)
    | Plain => if is_empty opw then (RErr EOwnerRequired, d)             (* handleUnencryptedFile *)
               else rewrite_with d (write_enc r opw upw p)               (* setupEncryption, calcOAndU *)
    end
  | OpDecrypt opw upw =>
    match d with
    | Plain => (RErr ENotEncrypted, d)                                   (* handleUnencryptedFile *)
    | Encrypted e =>
      let a := access false e opw upw in
      if opened a then (ROk, Plain) else (RErr a, d)                     (* handleEncryption: ctx.EncKey = nil *)
    end
  | OpChangeUser opw upw_old upw_new =>
    match d with
    | Plain => (RErr ENotEncrypted, d)                                   (* updateEncryption: ctx.Encrypt == nil *)
    | Encrypted e =>
      let a := access true e opw upw_old in
      if opened a
      then rewrite_with d (write_enc (eR e) opw upw_new (eP e))          (* updateEncryption: ctx.UserPW = *ctx.UserPWNew *)
      else (RErr a, d)
    end
  | OpChangeOwner upw opw_old opw_new =>
    if is_empty opw_new then (RErr EOwnerRequired, d)                    (* api.ChangeOwnerPassword: pwNew == "" *)
    else
    match d with
    | Plain => (RErr ENotEncrypted, d)
    | Encrypted e =>
      let a := access true e opw_old upw in
      if opened a
      then rewrite_with d (write_enc (eR e) opw_new upw (eP e))          (* updateEncryption: ctx.OwnerPW = *ctx.OwnerPWNew *)
      else (RErr a, d)
    end
  | OpSetPerms opw upw p =>
    match d with
    | Plain => (RErr ENotEncrypted, d)                                   (* handleUnencryptedFile *)
    | Encrypted e =>
      let a := access true e opw upw in
      if opened a
      then rewrite_with d (write_enc (eR e) opw upw p)                   (* updateEncryption: ctx.E.P = ctx.Permissions; O, U recomputed *)
      else (RErr a, d)
    end
  end.

Fixpoint run (d : doc) (h : list op) : doc :=
  match h with
  | [] => d
  | o :: h' => run (snd (step d o)) h'
  end.

(* ---- harness interface: run a history, report every result and, after every step, which of the candidate
   credentials open the document ---- *)
Definition outcome_code (o : outcome) : N :=
  match o with
  | OpenOwner => 1 | OpenUser => 2 | EOwnerRequired => 3 | EWrongPassword => 4 | EInvalidPerms => 5
  | EPermDenied => 6 | EValidate => 7 | ENotEncrypted => 8 | EEncrypted => 9 | EPrepare => 10
  end.

Definition result_code (r : result) : N := match r with ROk => 0 | RErr o => outcome_code o end.

(* for every candidate x: outcome with x in the owner slot, then with x in the user slot; 0 for a plain document *)
Definition probe (d : doc) (cands : list bytes) : list N :=
  match d with
  | Plain => flat_map (fun _ => [0; 0]) cands
  | Encrypted e => flat_map (fun x => [outcome_code (access false e x []); outcome_code (access false e [] x)]) cands
  end.

Fixpoint run_report (d : doc) (h : list op) (cands : list bytes) : list (N * list N) :=
  match h with
  | [] => []
  | o :: h' =>
    let '(r, d') := step d o in
    (result_code r, probe d' cands) :: run_report d' h' cands
  end.

End Prep.
