// Signature parsing (pkg/pdfcpu/pkcs7/ber.go behind api.ValidateSignatures):
//   K  — pkcs7.readLength / isIndefiniteTermination (verif hook) against the extracted bounds model;
//   O  — a structure-aware BER/CMS stream through pkcs7.Parse in process (recover) and, written IN PLACE over
//        the /Contents of the shipped signed samples (same length, so offsets stay valid), through
//        api.ValidateSignatures (all = false / true) and api.ValidateSignaturesFile in child processes.
package main

import (
	"encoding/hex"
	"fmt"
	"math/rand"
	"os"
	"os/exec"
	"path/filepath"
	"regexp"
	"sort"
	"strings"
	"time"

	"github.com/pdfcpu/pdfcpu/pkg/pdfcpu/pkcs7"
	"verif/vh"
)

var sigOps = []string{"sig", "sigall", "sigfile"}

// ------------------------------------------------------------------ K: bounds arithmetic

func kBER(r *vh.Run) {
	call := func(fn string, ber []byte, off int) {
		var res string
		func() {
			defer func() {
				if e := recover(); e != nil {
					res = "panic"
					r.OracleFail("panic:pkcs7."+fn, map[string]any{"hex": vh.Hex(ber), "offset": off}, fmt.Sprint(e))
				}
			}()
			if fn == "readLength" {
				l, ind, nx, err := pkcs7.VerifReadLength(ber, off)
				if err != nil {
					res = "err"
				} else {
					res = "ok:" + vh.Int(int64(l)) + ":" + vh.Bool(ind) + ":" + vh.Int(int64(nx))
					if l < 0 || nx <= off || nx > len(ber) {
						r.OracleFail("ber-readlength-result-out-of-range", map[string]any{"hex": vh.Hex(ber), "offset": off}, res)
					}
				}
			} else {
				t, err := pkcs7.VerifIsIndefiniteTermination(ber, off)
				if err != nil {
					res = "err"
				} else {
					res = "ok:" + vh.Bool(t)
				}
			}
		}()
		if res != "panic" {
			r.OracleOK()
		}
		m := map[string]string{"readLength": "read_length", "isIndefiniteTermination": "is_indef_term"}[fn]
		r.Case(m, []string{vh.Hex(ber), vh.Int(int64(off))}, res)
	}
	var bufs [][]byte
	bufs = append(bufs, nil, []byte{0}, []byte{0, 0}, []byte{0x80}, []byte{0x81}, []byte{0x30, 0x80, 2, 1, 1, 0}, []byte{0x30, 0x80, 2, 1, 1, 0, 0})
	for _, first := range []byte{0, 1, 0x7f, 0x80, 0x81, 0x82, 0x83, 0x84, 0x85, 0x88, 0xff} {
		for n := 0; n <= 6; n++ {
			for _, fill := range []byte{0, 1, 0x7f, 0x80, 0xff} {
				b := []byte{first}
				for i := 0; i < n; i++ {
					b = append(b, fill)
				}
				bufs = append(bufs, b, append([]byte{0x30}, b...))
			}
		}
	}
	for i := 0; i < r.Pick(300, 5000); i++ {
		b := make([]byte, r.Rand.Intn(9))
		for k := range b {
			b[k] = []byte{0, 0, 1, 0x7f, 0x80, 0x81, 0x82, 0x84, 0xff, byte(r.Rand.Intn(256))}[r.Rand.Intn(10)]
		}
		bufs = append(bufs, b)
	}
	for _, b := range bufs {
		for off := -2; off <= len(b)+2; off++ {
			call("readLength", b, off)
			call("isIndefiniteTermination", b, off)
		}
		for _, off := range []int{-1 << 63, 1<<63 - 1, 1 << 32, -(1 << 31)} {
			call("readLength", b, off)
			call("isIndefiniteTermination", b, off)
		}
	}
}

// ------------------------------------------------------------------ BER building blocks

func berLen(n int) []byte {
	switch {
	case n < 128:
		return []byte{byte(n)}
	case n < 256:
		return []byte{0x81, byte(n)}
	case n < 65536:
		return []byte{0x82, byte(n >> 8), byte(n)}
	case n < 1<<24:
		return []byte{0x83, byte(n >> 16), byte(n >> 8), byte(n)}
	}
	return []byte{0x84, byte(n >> 24), byte(n >> 16), byte(n >> 8), byte(n)}
}

func tlv(tag byte, content []byte) []byte {
	return append(append([]byte{tag}, berLen(len(content))...), content...)
}

// tlvNode is one element of a definite-length DER tree.
type tlvNode struct{ tag, lenOff, contentOff, end int }

// walkDER lists the elements of well-formed DER (best effort, stops at anything unexpected).
func walkDER(b []byte) []tlvNode {
	var out []tlvNode
	var rec func(lo, hi, depth int)
	rec = func(lo, hi, depth int) {
		for lo < hi && len(out) < 4000 {
			tagOff := lo
			if b[lo]&0x1f == 0x1f {
				return
			}
			lo++
			if lo >= hi {
				return
			}
			lenOff := lo
			n := int(b[lo])
			lo++
			if n >= 0x80 {
				c := n & 0x7f
				if c == 0 || c > 4 || lo+c > hi {
					return
				}
				n = 0
				for i := 0; i < c; i++ {
					n = n<<8 | int(b[lo+i])
				}
				lo += c
			}
			if lo+n > hi {
				return
			}
			out = append(out, tlvNode{tagOff, lenOff, lo, lo + n})
			if b[tagOff]&0x20 != 0 && depth < 40 {
				rec(lo, lo+n, depth+1)
			}
			lo += n
		}
	}
	rec(0, len(b), 0)
	return out
}

// toIndefinite rewrites the element at node (constructed) with an indefinite length; eoc = number of
// end-of-contents octets appended (2 = correct).
func toIndefinite(b []byte, nd tlvNode, eoc int) []byte {
	out := append([]byte(nil), b[:nd.lenOff]...)
	out = append(out, 0x80)
	out = append(out, b[nd.contentOff:nd.end]...)
	for i := 0; i < eoc; i++ {
		out = append(out, 0)
	}
	return append(out, b[nd.end:]...)
}

// reencodeIndef re-encodes well-formed DER with every constructed element in indefinite-length form.
func reencodeIndef(b []byte, depth int) ([]byte, bool) {
	var out []byte
	for lo := 0; lo < len(b); {
		tagOff := lo
		if b[lo]&0x1f == 0x1f || lo+1 >= len(b) {
			return nil, false
		}
		lo++
		n := int(b[lo])
		lo++
		if n >= 0x80 {
			c := n & 0x7f
			if c == 0 || c > 4 || lo+c > len(b) {
				return nil, false
			}
			n = 0
			for i := 0; i < c; i++ {
				n = n<<8 | int(b[lo+i])
			}
			lo += c
		}
		if lo+n > len(b) {
			return nil, false
		}
		if b[tagOff]&0x20 != 0 && depth < 40 {
			inner, ok := reencodeIndef(b[lo:lo+n], depth+1)
			if !ok {
				inner = b[lo : lo+n]
				out = append(out, b[tagOff:lo]...)
				out = append(out, inner...)
			} else {
				out = append(out, b[tagOff], 0x80)
				out = append(out, inner...)
				out = append(out, 0, 0)
			}
		} else {
			out = append(out, b[tagOff:lo+n]...)
		}
		lo += n
	}
	return out, true
}

type berCase struct {
	name string
	data []byte
	pad  byte // '0' or ' ' : how the rest of the /Contents hex string is filled
}

// systematicBER: payloads that do not depend on a sample.
func systematicBER(maxLen int) []berCase {
	var out []berCase
	add := func(name string, b []byte) {
		out = append(out, berCase{name, b, '0'}, berCase{name + "-ws", b, ' '})
	}
	add("eoc-one-octet-short", []byte{0x30, 0x80, 2, 1, 1, 0})
	add("eoc-missing", []byte{0x30, 0x80, 2, 1, 1})
	add("eoc-ok", []byte{0x30, 0x80, 2, 1, 1, 0, 0})
	add("indef-empty", []byte{0x30, 0x80})
	add("indef-only-one-zero", []byte{0x30, 0x80, 0})
	add("indef-nested-short", []byte{0x30, 0x80, 0x30, 0x80, 0x30, 0x80, 0, 0, 0, 0, 0})
	add("indef-primitive", []byte{0x04, 0x80, 1, 2, 0, 0})
	add("eoc-at-top", []byte{0, 0})
	add("empty-seq", []byte{0x30, 0})
	add("zero-length-elements", tlv(0x30, []byte{0x04, 0, 0x05, 0, 0x31, 0, 0x30, 0, 0x06, 0, 0x02, 0, 0xa0, 0}))
	add("single-byte", []byte{0x30})
	for _, c := range []int{1, 2, 3, 4, 5, 8, 126, 127} {
		b := []byte{0x30, byte(0x80 | c)}
		add(fmt.Sprintf("lenlen-%d-no-octets", c), b)
		for _, fill := range []byte{0, 1, 0x7f, 0x80, 0xff} {
			bb := append([]byte(nil), b...)
			for i := 0; i < c; i++ {
				bb = append(bb, fill)
			}
			add(fmt.Sprintf("lenlen-%d-fill-%02x", c, fill), bb)
			if c > 1 {
				add(fmt.Sprintf("lenlen-%d-fill-%02x-short", c, fill), bb[:len(bb)-1])
			}
			add(fmt.Sprintf("lenlen-%d-fill-%02x-data", c, fill), append(bb, 2, 1, 1))
		}
	}
	for _, l := range [][]byte{{0x84, 0x7f, 0xff, 0xff, 0xff}, {0x84, 0x80, 0, 0, 0}, {0x84, 0xff, 0xff, 0xff, 0xff}, {0x83, 0xff, 0xff, 0xff}, {0x82, 0xff, 0xff}, {0x81, 0xff}, {0x7f},
		{0x88, 0x7f, 0xff, 0xff, 0xff, 0xff, 0xff, 0xff, 0xff}, {0x88, 0x80, 0, 0, 0, 0, 0, 0, 0}, {0x84, 0, 0, 0, 1}} {
		add("huge-length-"+hex.EncodeToString(l), append(append([]byte{0x30}, l...), 2, 1, 1))
		add("huge-length-inner-"+hex.EncodeToString(l), tlv(0x30, append(append([]byte{0x04}, l...), 1, 2, 3)))
	}
	// tag number continuation octets
	for _, first := range []byte{0x1f, 0x3f, 0x9f, 0xbf, 0xff} {
		add(fmt.Sprintf("hightag-%02x-unterminated", first), []byte{first})
		add(fmt.Sprintf("hightag-%02x-leading-zero", first), []byte{first, 0x80, 0x01, 0})
		add(fmt.Sprintf("hightag-%02x-one", first), []byte{first, 0x01, 0})
		add(fmt.Sprintf("hightag-%02x-one-indef", first), []byte{first, 0x01, 0x80, 0, 0})
		for _, k := range []int{1, 8, 9, 10, 100, 1000} {
			b := []byte{first}
			for i := 0; i < k; i++ {
				b = append(b, 0xff)
			}
			add(fmt.Sprintf("hightag-%02x-cont-%d-unterminated", first, k), b)
			add(fmt.Sprintf("hightag-%02x-cont-%d", first, k), append(b, 0x7f, 0))
			add(fmt.Sprintf("hightag-%02x-cont-%d-in-seq", first, k), tlv(0x30, append(b, 0x7f, 1, 0)))
		}
	}
	// deep nesting: indefinite (2 octets a level) and definite (exact lengths)
	for _, n := range []int{10, 100, 1000, maxLen / 2, maxLen/2 - 1} {
		if n <= 0 {
			continue
		}
		var b []byte
		for i := 0; i < n; i++ {
			b = append(b, 0x30, 0x80)
		}
		add(fmt.Sprintf("deep-indef-%d-unterminated", n), b)
		if 4*n <= maxLen {
			bb := append([]byte(nil), b...)
			for i := 0; i < 2*n; i++ {
				bb = append(bb, 0)
			}
			add(fmt.Sprintf("deep-indef-%d", n), bb)
			add(fmt.Sprintf("deep-indef-%d-one-short", n), bb[:len(bb)-1])
		}
	}
	for _, n := range []int{10, 100, 1000, maxLen / 4} {
		inner := []byte{}
		for i := 0; i < n && len(inner)+4 < maxLen; i++ {
			inner = tlv(0x30, inner)
		}
		add(fmt.Sprintf("deep-definite-%d", n), inner)
		add(fmt.Sprintf("deep-definite-%d-explicit", n), func() []byte {
			b := []byte{}
			for i := 0; i < n && len(b)+4 < maxLen; i++ {
				b = tlv(0xa0, b)
			}
			return b
		}())
	}
	return out
}

// sampleBER: payloads derived from a sample's own CMS blob.
func sampleBER(r *rand.Rand, orig []byte, nTrunc, nRand int) []berCase {
	var out []berCase
	// strip the zero padding of the original
	end := len(orig)
	for end > 0 && orig[end-1] == 0 {
		end--
	}
	der := orig[:end]
	nodes := walkDER(der)
	// truncations
	lens := map[int]bool{}
	for l := 0; l <= 80 && l <= len(der); l++ {
		lens[l] = true
	}
	for _, nd := range nodes {
		for _, l := range []int{nd.tag, nd.tag + 1, nd.lenOff + 1, nd.contentOff, nd.contentOff + 1, nd.end - 1, nd.end} {
			if l >= 0 && l <= len(der) && len(lens) < 80+nTrunc/2 {
				lens[l] = true
			}
		}
	}
	for len(lens) < 80+nTrunc && len(lens) < len(der) {
		lens[r.Intn(len(der)+1)] = true
	}
	var ll []int
	for l := range lens {
		ll = append(ll, l)
	}
	sort.Ints(ll)
	for _, l := range ll {
		pad := byte('0')
		if l%2 == 1 {
			pad = ' '
		}
		out = append(out, berCase{fmt.Sprintf("trunc-%d", l), der[:l], pad})
	}
	// indefinite forms of constructed elements
	cnt := 0
	for _, nd := range nodes {
		if der[nd.tag]&0x20 == 0 || cnt >= 40 {
			continue
		}
		cnt++
		for eoc := 0; eoc <= 2; eoc++ {
			b := toIndefinite(der, nd, eoc)
			pad := byte(' ')
			if eoc == 2 {
				pad = '0'
			}
			out = append(out, berCase{fmt.Sprintf("indef-at-%d-eoc%d", nd.tag, eoc), b, pad})
			if nd.tag == 0 {
				out = append(out, berCase{fmt.Sprintf("indef-at-0-eoc%d-zeropad", eoc), b, '0'})
			}
		}
	}
	// all constructed elements indefinite, with the EOCs cut at each count
	if b, ok := reencodeIndef(der, 0); ok {
		out = append(out, berCase{"indef-everywhere", b, '0'})
		for _, cut := range []int{1, 2, 3, 4, 5} {
			if cut < len(b) {
				out = append(out, berCase{fmt.Sprintf("indef-everywhere-cut%d", cut), b[:len(b)-cut], ' '})
			}
		}
	}
	// random structure-aware edits of tag / length octets
	for i := 0; i < nRand && len(nodes) > 0; i++ {
		b := append([]byte(nil), der...)
		var names []string
		for k := 0; k < 1+r.Intn(3); k++ {
			nd := nodes[r.Intn(len(nodes))]
			switch r.Intn(7) {
			case 0:
				b[nd.lenOff] = []byte{0x80, 0x81, 0x84, 0x85, 0x88, 0xff, 0, 0x7f}[r.Intn(8)]
				names = append(names, fmt.Sprintf("len@%d", nd.lenOff))
			case 1:
				if nd.contentOff-nd.lenOff > 1 {
					b[nd.lenOff+1+r.Intn(nd.contentOff-nd.lenOff-1)] = []byte{0, 0xff, 0x7f, 0x80, byte(r.Intn(256))}[r.Intn(5)]
					names = append(names, fmt.Sprintf("lenoctet@%d", nd.lenOff))
				}
			case 2:
				b[nd.tag] = []byte{0x1f, 0x3f, 0xbf, 0, 0x30, 0x31, 0x04, 0x24, 0xa0, byte(r.Intn(256))}[r.Intn(10)]
				names = append(names, fmt.Sprintf("tag@%d", nd.tag))
			case 3:
				b[nd.tag] ^= 0x20
				names = append(names, fmt.Sprintf("constructed-bit@%d", nd.tag))
			case 4:
				if nd.end > nd.contentOff {
					b[nd.contentOff+r.Intn(nd.end-nd.contentOff)] = byte(r.Intn(256))
					names = append(names, fmt.Sprintf("content@%d", nd.contentOff))
				}
			case 5:
				if int(b[nd.lenOff]) < 0x80 {
					b[nd.lenOff] = byte(int(b[nd.lenOff]) + []int{1, -1, 2, 100}[r.Intn(4)])
					names = append(names, fmt.Sprintf("len+-@%d", nd.lenOff))
				}
			case 6:
				if nd.end <= len(b) && nd.end-1 > 0 {
					b[nd.end-1] = 0
					if nd.end-2 >= 0 {
						b[nd.end-2] = 0
					}
					names = append(names, fmt.Sprintf("zeros-before@%d", nd.end))
				}
			}
		}
		pad := byte('0')
		if r.Intn(3) == 0 {
			pad = ' '
		}
		out = append(out, berCase{"edit-" + strings.Join(names, "+"), b, pad})
	}
	return out
}

// ------------------------------------------------------------------ samples

type sigSample struct {
	name  string
	raw   []byte
	spans [][2]int // hex digits of each /Contents <...> (without the brackets)
}

var contentsRe = regexp.MustCompile(`/Contents\s*<([0-9a-fA-F\s]{64,})>`)

func loadSigSamples(repo string) []sigSample {
	var files []string
	if out, err := exec.Command("git", "-C", repo, "ls-files").Output(); err == nil {
		re := regexp.MustCompile(`(?i)pades|signatures/.*\.pdf$`)
		for _, l := range strings.Split(string(out), "\n") {
			if re.MatchString(l) && strings.HasSuffix(strings.ToLower(l), ".pdf") {
				files = append(files, filepath.Join(repo, l))
			}
		}
	}
	if len(files) == 0 {
		files, _ = filepath.Glob(filepath.Join(repo, "pkg/samples/signatures/*/*.pdf"))
	}
	sort.Strings(files)
	skip := emptied()
	var out []sigSample
	for _, f := range files {
		if skip[filepath.Base(f)] {
			continue
		}
		b, err := os.ReadFile(f)
		if err != nil || len(b) < 1000 {
			continue
		}
		s := sigSample{name: filepath.Base(filepath.Dir(f)) + "-" + strings.TrimSuffix(filepath.Base(f), ".pdf"), raw: b}
		for _, m := range contentsRe.FindAllSubmatchIndex(b, -1) {
			s.spans = append(s.spans, [2]int{m[2], m[3]})
		}
		if len(s.spans) > 0 {
			out = append(out, s)
		}
	}
	return out
}

// overwrite puts the payload's hex over span k of the sample, same length.
func (s sigSample) overwrite(k int, c berCase) []byte {
	b := append([]byte(nil), s.raw...)
	lo, hi := s.spans[k][0], s.spans[k][1]
	h := []byte(hex.EncodeToString(c.data))
	if len(h) > hi-lo {
		h = h[:hi-lo]
	}
	copy(b[lo:], h)
	for i := lo + len(h); i < hi; i++ {
		b[i] = c.pad
	}
	return b
}

func (s sigSample) blob(k int) []byte {
	h := strings.Map(func(c rune) rune {
		if c == ' ' || c == '\n' || c == '\r' || c == '\t' {
			return -1
		}
		return c
	}, string(s.raw[s.spans[k][0]:s.spans[k][1]]))
	if len(h)%2 == 1 {
		h += "0"
	}
	b, _ := hex.DecodeString(h)
	return b
}

// parseInProcess: pkcs7.Parse must return a result or an error on every payload.
func parseInProcess(r *vh.Run, name string, c berCase) {
	t0 := time.Now()
	defer func() {
		if d := time.Since(t0); d > 500*time.Millisecond {
			fmt.Fprintf(os.Stderr, "slow pkcs7.Parse %v: %s/%s len=%d\n", d, name, c.name, len(c.data))
		}
	}()
	func() {
		defer func() {
			if e := recover(); e != nil {
				r.OracleFail("panic:pkcs7.Parse", map[string]any{"hex": vh.Hex(c.data), "case": name + "/" + c.name}, fmt.Sprint(e))
			}
		}()
		_, err := pkcs7.Parse(c.data)
		if err != nil {
			r.Count("pkcs7parse:err")
		} else {
			r.Count("pkcs7parse:ok")
		}
		r.OracleOK()
	}()
}

// syntheticSigned: a minimal document with one signature field whose /Contents is the given payload.
func syntheticSigned(payload []byte) []byte {
	d := baseDoc()
	d.objs[1] = "<</Type/Catalog/Pages 2 0 R/AcroForm<</Fields[6 0 R]/SigFlags 3>>>>"
	d.objs[3] = "<</Type/Page/Parent 2 0 R/Contents 4 0 R/Annots[6 0 R]/Resources<</Font<</F1 5 0 R>>>>>>"
	d.objs[6] = "<</Type/Annot/Subtype/Widget/FT/Sig/T(Signature1)/Rect[0 0 0 0]/P 3 0 R/F 132/V 7 0 R>>"
	d.objs[7] = "<</Type/Sig/Filter/Adobe.PPKLite/SubFilter/adbe.pkcs7.detached/M(D:20240101000000Z)/ByteRange[0 100 200 100]/Contents<" +
		hex.EncodeToString(payload) + ">>>"
	return d.bytes()
}

// sigJobs adds the signature inputs through addJob and runs the in-process stream.
func sigJobs(r *vh.Run, repo string, addJob func(name string, data []byte, ops []string, recipe, expect string)) {
	samples := loadSigSamples(repo)
	r.CountN("sig:samples", len(samples))
	if len(samples) == 0 {
		return
	}
	// unmodified samples first
	for _, s := range samples {
		addJob("sig-"+s.name+"-orig", s.raw, sigOps, "signed sample "+s.name, "")
	}
	// the smallest sample carries the systematic payloads (cheapest to read)
	small := samples[0]
	for _, s := range samples {
		if len(s.raw) < len(small.raw) {
			small = s
		}
	}
	maxLen := (small.spans[0][1] - small.spans[0][0]) / 2
	for _, c := range systematicBER(maxLen) {
		if !(strings.HasPrefix(c.name, "deep-") && len(c.data) > 2100) { // the deep ones cost seconds: children only
			parseInProcess(r, "systematic", c)
		}
		addJob("sig-"+small.name+"-"+c.name, small.overwrite(0, c), sigOps, fmt.Sprintf("sample=%s /Contents overwritten in place: %s (pad %q)", small.name, c.name, c.pad), "")
		r.Count("input:sig-systematic")
	}
	// synthetic documents: payloads longer than any sample's /Contents (nesting without a depth limit)
	for _, n := range []int{3, 1000, 20000, 100000, r.Pick(300000, 1500000)} {
		var b []byte
		for i := 0; i < n; i++ {
			b = append(b, 0x30, 0x80)
		}
		addJob(fmt.Sprintf("sig-synthetic-deep-indef-%d-unterminated", n), syntheticSigned(b), sigOps, fmt.Sprintf("syntheticSigned: 3080 x %d", n), "")
		bb := append([]byte(nil), b...)
		for i := 0; i < 2*n; i++ {
			bb = append(bb, 0)
		}
		addJob(fmt.Sprintf("sig-synthetic-deep-indef-%d", n), syntheticSigned(bb), sigOps, fmt.Sprintf("syntheticSigned: 3080 x %d + EOCs", n), "")
	}
	addJob("sig-synthetic-eoc-one-octet-short", syntheticSigned([]byte{0x30, 0x80, 2, 1, 1, 0}), sigOps, "syntheticSigned: 308002010100", "")
	// per sample: in process everything, in children a share
	for _, s := range samples {
		for k := range s.spans {
			cases := sampleBER(r.Rand, s.blob(k), r.Pick(120, 100000), r.Pick(150, 4000))
			for _, c := range cases {
				parseInProcess(r, s.name, c)
			}
			share := r.Pick(45, 1500)
			step := len(cases)/share + 1
			for i, c := range cases {
				if i%step != 0 && !strings.HasPrefix(c.name, "indef-") {
					continue
				}
				if strings.HasPrefix(c.name, "indef-at-") && i%3 != 0 && !strings.HasPrefix(c.name, "indef-at-0-") && r.Tier != "thorough" {
					continue
				}
				addJob(fmt.Sprintf("sig-%s-%d-%s", s.name, k, c.name), s.overwrite(k, c), sigOps,
					fmt.Sprintf("sample=%s /Contents #%d overwritten in place: %s (pad %q) harness-seed=%d", s.name, k, c.name, c.pad, r.Seed), "")
				r.Count("input:sig-sample")
			}
		}
	}
}
