// Parent side of the C08 search: a pool of child workers (re-exec of this binary with "child"),
// per (input, entry point) time bound, attribution of fatal errors and hangs.
package main

import (
	"bufio"
	"fmt"
	"os"
	"os/exec"
	"path/filepath"
	"regexp"
	"strings"
	"sync"
	"syscall"
	"time"
)

type job struct {
	id     string
	path   string
	ops    []string
	recipe string // how the input was made (for the replay)
}

type finding struct {
	job    job
	op     string
	class  string
	detail string
	stack  []string // timeouts: pdfcpu frames of the hung goroutine, innermost first
}

type worker struct {
	cmd     *exec.Cmd
	stdin   *bufio.Writer
	lines   chan string
	errPath string
}

func startWorker(dir string, n int) (*worker, error) {
	errPath := filepath.Join(dir, fmt.Sprintf("worker%d.stderr", n))
	ef, err := os.Create(errPath)
	if err != nil {
		return nil, err
	}
	cmd := exec.Command(os.Args[0], "child")
	cmd.Stderr = ef
	os.MkdirAll(filepath.Join(dir, "certs"), 0o755)
	cmd.Env = append(os.Environ(), "GOTRACEBACK=all", "C08_CERTDIR="+filepath.Join(dir, "certs"))
	in, err := cmd.StdinPipe()
	if err != nil {
		return nil, err
	}
	outp, err := cmd.StdoutPipe()
	if err != nil {
		return nil, err
	}
	if err := cmd.Start(); err != nil {
		return nil, err
	}
	ef.Close()
	w := &worker{cmd: cmd, stdin: bufio.NewWriter(in), lines: make(chan string, 64), errPath: errPath}
	go func() {
		sc := bufio.NewScanner(outp)
		sc.Buffer(make([]byte, 1<<20), 1<<20)
		for sc.Scan() {
			w.lines <- sc.Text()
		}
		close(w.lines)
	}()
	return w, nil
}

func (w *worker) kill() {
	if w.cmd.Process != nil {
		w.cmd.Process.Kill()
	}
	w.cmd.Wait()
}

var fatalFrameRe = regexp.MustCompile(`(?m)^(github\.com/pdfcpu/pdfcpu/[^\s(]+(?:\([^)]*\))?[^\s(]*)\(`)

// frames lists the pdfcpu functions of the first goroutine block that has any, innermost first.
func frames(stderr string, must string) []string {
	blocks := strings.Split(stderr, "\n\ngoroutine ")
	for _, b := range blocks {
		if must != "" && !strings.Contains(b, must) {
			continue
		}
		var l []string
		for _, m := range fatalFrameRe.FindAllStringSubmatch(b, -1) {
			l = append(l, strings.TrimPrefix(m[1], "github.com/pdfcpu/pdfcpu/pkg/"))
		}
		if len(l) > 0 {
			return l
		}
	}
	return nil
}

// recursing returns the most frequent function of a trace (ties: alphabetical) and its count.
func recursing(l []string) (string, int) {
	cnt := map[string]int{}
	for _, f := range l {
		cnt[f]++
	}
	n := 0
	for _, c := range cnt {
		if c > n {
			n = c
		}
	}
	// mutual recursion: the members' counts differ by one depending on where the trace was cut
	best := "unknown"
	for f, c := range cnt {
		if c >= n-1 && c*2 > n && (best == "unknown" || f < best) {
			best = f
		}
	}
	return best, n
}

func lowLevel(f string) bool {
	return strings.HasPrefix(f, "pdfcpu/model.") || strings.HasPrefix(f, "pdfcpu/types.") || strings.HasPrefix(f, "log.")
}

// hangFrame names the function a hung child was in: the recursing function if the trace repeats one,
// else the innermost function above the dereference/type helpers.
func hangFrame(stderr string) string {
	if o := profileOwner(stderr); o != "" {
		return o
	}
	l := frames(stderr, "main.runOp")
	if len(l) == 0 {
		l = frames(stderr, "") // dump cut short: take the first goroutine that shows pdfcpu frames
	}
	if len(l) == 0 {
		return "unknown"
	}
	if f, n := recursing(l); n >= 3 {
		return f
	}
	for _, f := range l {
		if !lowLevel(f) {
			return f
		}
	}
	return l[0]
}

// classifyFatal turns the stderr of a dead child into a narrow class.
func classifyFatal(stderr string, op string) (string, string) {
	l := frames(stderr, "")
	top := "unknown"
	if len(l) > 0 {
		top = l[0]
	}
	first := stderr
	if i := strings.Index(first, "\n\n"); i > 0 {
		first = first[:i]
	}
	if len(first) > 300 {
		first = first[:300]
	}
	switch {
	case strings.Contains(stderr, "stack overflow") || strings.Contains(stderr, "goroutine stack exceeds"):
		rec, _ := recursing(l)
		if rec == "pdfcpu/model.EqualObjects" || rec == "pdfcpu/model.equalDicts" || rec == "pdfcpu/model.equalArrays" {
			// the open defect shared with C20 (recursion without bound on a cycle alternating direct objects and references)
			return "fatal:stack-overflow-equalobjects-mixed-cycle", first
		}
		return "fatal:stack-overflow:" + rec, first
	case strings.Contains(stderr, "out of memory") || strings.Contains(stderr, "cannot allocate memory"):
		return "fatal:out-of-memory:" + op, first
	case strings.Contains(stderr, "fatal error:"):
		return "fatal:" + top, first
	case strings.Contains(stderr, "panic:"):
		// a panic on another goroutine than the worker's (not recoverable there)
		return "panic:" + top, first
	}
	return "fatal:child-died:" + op, first
}

// runJobs runs all jobs on nw workers; perOp is the time bound for one entry point on one input.
func runJobs(dir string, jobs []job, nw int, perOp time.Duration, onResult func(j job, op, class, detail string)) []finding {
	var mu sync.Mutex
	var finds []finding
	ch := make(chan job, len(jobs))
	for _, j := range jobs {
		ch <- j
	}
	close(ch)
	var wg sync.WaitGroup
	for n := 0; n < nw; n++ {
		wg.Add(1)
		go func(n int) {
			defer wg.Done()
			var w *worker
			defer func() {
				if w != nil {
					w.stdin.Flush()
					w.kill()
				}
			}()
			for j := range ch {
				if w == nil {
					var err error
					if w, err = startWorker(dir, n); err != nil {
						panic(err)
					}
				}
				fmt.Fprintf(w.stdin, "%s\t%s\t%s\n", j.id, j.path, strings.Join(j.ops, ","))
				w.stdin.Flush()
				curOp := ""
				done := false
				for !done {
					select {
					case line, ok := <-w.lines:
						if !ok {
							// child died
							w.cmd.Wait()
							b, _ := os.ReadFile(w.errPath)
							class, detail := classifyFatal(string(b), curOp)
							mu.Lock()
							finds = append(finds, finding{j, curOp, class, detail, nil})
							mu.Unlock()
							w = nil
							done = true
							break
						}
						f := strings.Split(line, "\t")
						switch f[0] {
						case "B":
							curOp = f[2]
						case "E":
							if len(f) >= 5 {
								mu.Lock()
								if strings.HasPrefix(f[3], "panic:") {
									finds = append(finds, finding{j, f[2], f[3], f[4], nil})
								}
								if onResult != nil {
									onResult(j, f[2], f[3], f[4])
								}
								mu.Unlock()
							}
						case "D", "X":
							done = true
						}
					case <-time.After(perOp):
						// ask the child for a stack profile (SIGUSR1, see child.go hangProfile), then for its
						// goroutine stacks (SIGQUIT), then kill it
						w.cmd.Process.Signal(syscall.SIGUSR1)
						for k := 0; k < 60; k++ {
							time.Sleep(100 * time.Millisecond)
							if b, _ := os.ReadFile(w.errPath); strings.Contains(string(b), "HANGPROFILE\t") {
								break
							}
						}
						w.cmd.Process.Signal(syscall.SIGQUIT)
						waitDone := make(chan struct{})
						go func(w *worker) {
							for range w.lines {
							}
							close(waitDone)
						}(w)
						select {
						case <-waitDone:
						case <-time.After(8 * time.Second):
						}
						w.kill()
						b, _ := os.ReadFile(w.errPath)
						mu.Lock()
						hf := hangFrame(string(b))
						hstack := frames(string(b), "main.runOp")
						if len(hstack) == 0 {
							hstack = frames(string(b), "")
						}
						cls := "timeout:" + hf
						if hf == "pdfcpu/model.EqualObjects" || hf == "pdfcpu/model.equalDicts" || hf == "pdfcpu/model.equalArrays" {
							cls = "fatal:stack-overflow-equalobjects-mixed-cycle" // the same unbounded recursion, caught before the stack cap
						}
						finds = append(finds, finding{j, curOp, cls, fmt.Sprintf("%s: no result within %v%s", curOp, perOp, map[bool]string{true: " (profiled)", false: ""}[profileOwner(string(b)) != ""]), hstack})
						mu.Unlock()
						w = nil
						done = true
					}
				}
			}
		}(n)
	}
	wg.Wait()
	return finds
}

// loopOwner names a hang from TWO goroutine dumps of the same input: the innermost function that both
// stacks share counted from the outermost frame — the function whose loop (or recursion) does not end;
// what it happened to be calling at the moment of each dump differs and is ignored.
func loopOwner(a, b []string) string {
	if len(a) == 0 || len(b) == 0 {
		return ""
	}
	if f, n := recursing(a); n >= 3 {
		return f
	}
	i, j := len(a)-1, len(b)-1
	owner := ""
	for i >= 0 && j >= 0 && a[i] == b[j] {
		if !lowLevel(a[i]) && !strings.HasPrefix(a[i], "api.") {
			owner = a[i]
		}
		i--
		j--
	}
	return owner
}

// profileOwner reads the HANGPROFILE line: a recursion is named after its (alphabetically first) recursing
// function as before; otherwise the innermost function that was on the stack in every sample.
func profileOwner(stderr string) string {
	i := strings.Index(stderr, "HANGPROFILE\t")
	if i < 0 {
		return ""
	}
	line := stderr[i:]
	if j := strings.Index(line, "\n"); j >= 0 {
		line = line[:j]
	}
	f := strings.Split(line, "\t")
	if len(f) < 3 {
		return ""
	}
	if l := frames(stderr[i:], "main.runOp"); len(l) > 0 {
		if rf, n := recursing(l); n >= 3 {
			return rf
		}
	}
	var n int
	fmt.Sscanf(f[1], "%d", &n)
	for _, e := range strings.Split(f[2], ";") {
		k := strings.LastIndex(e, "=")
		if k < 0 {
			continue
		}
		var c int
		fmt.Sscanf(e[k+1:], "%d", &c)
		name := e[:k]
		if c == n && !lowLevel(name) && !strings.HasPrefix(name, "api.") {
			return name
		}
	}
	return ""
}
