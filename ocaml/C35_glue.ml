(* C35 glue.  Wire format (see go/cmd/c35/main.go):
   a string is "s" followed by comma separated hex numbers (code points or bytes);
   an operation is CODE|item|item...; fn "hist" takes the version and the operations of a
   history prefix and answers the status of the last operation and everything the list
   calls show afterwards. *)
open Model
open Common

let str_of s = nlist_of_string (String.sub s 1 (String.length s - 1))
let show s = "s" ^ string_of_nlist s
let split c s = if s = "" then [] else String.split_on_char c s

let rec pairs = function a :: b :: r -> (str_of a, str_of b) :: pairs r | [] -> [] | _ -> failwith "odd pairs"

let slot s = if s = "n" then None else Some (n_of_hex (String.sub s 1 (String.length s - 1)))

let op_of (s : string) : op =
  match String.split_on_char '|' s with
  | "KA" :: r -> KAdd (List.map str_of r)
  | "KR" :: r -> KRemove (List.map str_of r)
  | "PA" :: r -> PAdd (pairs r)
  | "PR" :: r -> PRemove (List.map str_of r)
  | ["LS"; v] -> LSet (n_of_hex v)
  | ["LR"] -> LReset
  | ["MS"; v] -> MSet (n_of_hex v)
  | ["MR"] -> MReset
  | "VS" :: r -> VSet (List.map slot r)
  | ["VR"] -> VReset
  | ["AA"; id; desc; data] -> AAdd (str_of id, str_of desc, bytes_of_hex data)
  | "AR" :: r -> ARemove (List.map str_of r)
  | _ -> failwith ("bad op " ^ s)

let opt = function None -> "-" | Some v -> hex_of_n v

let show_store (st : store) : string =
  "kw=" ^ String.concat "|" (List.map show st.s_kw)
  ^ ";pr=" ^ String.concat "|" (List.map (fun (k, v) -> show k ^ "=" ^ show v) st.s_pr)
  ^ ";pl=" ^ opt st.s_pl ^ ";pm=" ^ opt st.s_pm
  ^ ";vp=" ^ (match st.s_vp with None -> "-" | Some l -> "[" ^ String.concat "," (List.map (function None -> "n" | Some v -> hex_of_n v) l) ^ "]")
  ^ ";at=" ^ String.concat "|" (List.map (fun (k, v) -> show k ^ "=" ^ hex_of_bytes (a_data v) ^ ":" ^ show (a_fname v) ^ ":" ^ show (a_desc v)) st.s_att)
  (* extract one name at a time, then all the names in one call *)
  ^ (let ps = att_probes st.s_att in
     ";xo=" ^ String.concat "|" (List.map (fun p -> show p ^ ">" ^
         (match att_find p st.s_att with None -> "-" | Some (k, v) -> show k ^ ":" ^ hex_of_bytes (a_data v))) ps)
     ^ ";xs=" ^ String.concat "|" (List.map (fun (k, v) -> show k ^ ":" ^ hex_of_bytes (a_data v)) (extract_many ps st.s_att)))

(* starting document: "ver" (generated PDF without Info and XMP) or
   "ver|hasinfo|infokw|xmp": infokw "-" or a string; xmp "-" (no /Metadata), "n" (packet
   without pdf:Keywords) or the pdf:Keywords text *)
let init_of (s : string) : doc =
  match String.split_on_char '|' s with
  | [v] -> empty_doc (n_of_hex v)
  | [v; h; kw; x] ->
    init_doc (n_of_hex v) (h = "1") (if kw = "-" then None else Some (str_of kw))
      (if x = "-" then None else if x = "n" then Some None else Some (Some (str_of x)))
  | [v; h; kw; x; a] ->
    (* attachments of the starting document: key~filename~description~hexdata;... *)
    let ent e = match String.split_on_char '~' e with
      | [k; f; d; b] -> (str_of k, ((str_of f, str_of d), bytes_of_hex b))
      | _ -> failwith ("bad attachment " ^ e) in
    init_doc_att (n_of_hex v) (h = "1") (if kw = "-" then None else Some (str_of kw))
      (if x = "-" then None else if x = "n" then Some None else Some (Some (str_of x)))
      (List.map ent (split ';' a))
  | _ -> failwith ("bad init " ^ s)

let dispatch fn args = match fn, args with
  | "hist", init :: ops ->
    let h = List.map op_of ops in
    let d0 = init_of init in
    let d = run d0 h in
    "st=" ^ str_of_bool (last_ok d0 h) ^ ";" ^
    (match observe d with None -> "bad" | Some st -> show_store st)
  | "spec", init :: ops ->
    (* the abstract store, only asked for histories whose inputs are well formed *)
    let h = List.map op_of ops in
    let s0 = init_store (init_of init) in
    if List.for_all wf_op h && fresh_adds h s0 then show_store (arun s0 h) else "notwf"
  | "kwtext", [s] -> String.concat "|" (List.map show (kw_of_text (str_of s)))
  | "encname", [s] -> show (encode_name (str_of s))
  | "decname", [s] -> (match decode_name (str_of s) with None -> "err" | Some t -> show t)
  | "blankb", [s] -> str_of_bool (blank_b (str_of s))
  | _ -> failwith ("unknown function " ^ fn)
let () = main dispatch
