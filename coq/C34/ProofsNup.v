(* C34: n-up / grid slot sequence and output page count; counting corollary; the multi-folio witness. *)
From PV Require Import Lib.GoInt Lib.GoIntFacts C34.Generated C34.Model C34.ProofsBase C34.ProofsOrder.
From Coq Require Import Lia ZifyBool Permutation.
Open Scope Z_scope.

Lemma nupPageNumber_getPage IW i sorted bt ls nn tf : nupPageNumber IW i sorted bt ls nn tf = getPage sorted i.
Proof.
  unfold nupPageNumber, getPage. cbv zeta.
  destruct (Z.ltb_spec i (slice_len sorted)); destruct (Z.geb_spec i (slice_len sorted)); try lia; reflexivity.
Qed.

Lemma nupSlots_spec IW N sorted : 0 < N ->
  nupSlots IW N sorted = sorted ++ repeat 0 (Z.to_nat (padTo (slice_len sorted) N - slice_len sorted)).
Proof.
  intros HN. unfold nupSlots. cbv zeta.
  destruct (padTo_spec (slice_len sorted) N (slice_len_nonneg sorted) HN) as (_ & Hr).
  rewrite (map_ext _ (getPage sorted)) by (intros i; apply nupPageNumber_getPage).
  apply getPage_zrange. lia.
Qed.

Lemma filter_none (A : Type) (f : A -> bool) (l : list A) : (forall x, In x l -> f x = false) -> filter f l = [].
Proof.
  induction l as [|x l IH]; intros H; [reflexivity|]. cbn [filter].
  rewrite (H x (or_introl eq_refl)). apply IH. intros y Hy. apply H. right. exact Hy.
Qed.

Definition newPage (N i : Z) : bool := (0 <? i) && (Z.rem i N =? 0).

Lemma rem_block N q x : 0 < N -> 0 <= q -> 0 <= x < N -> Z.rem (N * q + x) N = x.
Proof.
  intros HN Hq Hx. rewrite Z.rem_mod_nonneg by nia.
  rewrite Z.add_comm, Z.mul_comm, Z.mod_add by lia. apply Z.mod_small. lia.
Qed.

Lemma block_count N q : 0 < N -> 0 <= q ->
  length (filter (newPage N) (map (fun x => N * q + x) (zrange N))) = if q =? 0 then 0%nat else 1%nat.
Proof.
  intros HN Hq.
  assert (Hz : zrange N = 0 :: map (fun x => 1 + x) (zrange (N - 1))).
  { replace N with (1 + (N - 1)) at 1 by lia. rewrite zrange_app by lia. reflexivity. }
  rewrite Hz. cbn [app map filter]. rewrite Z.add_0_r.
  rewrite (filter_none _ (newPage N) (map _ (map _ _))).
  - unfold newPage. replace (Z.rem (N * q) N) with 0 by (rewrite <- (Z.add_0_r (N * q)), rem_block; lia).
    destruct (Z.eqb_spec q 0) as [->|Hq0].
    + rewrite Z.mul_0_r. reflexivity.
    + destruct (Z.ltb_spec 0 (N * q)); [reflexivity|nia].
  - intros y Hy. apply in_map_iff in Hy. destruct Hy as (x & <- & Hx).
    apply in_map_iff in Hx. destruct Hx as (z & <- & Hzr). apply zrange_in in Hzr.
    unfold newPage. rewrite rem_block by lia.
    destruct (Z.eqb_spec (1 + z) 0); [lia|]. apply andb_false_r.
Qed.

Lemma newPage_count N (q : nat) : 0 < N ->
  Z.of_nat (length (filter (newPage N) (zrange (N * Z.of_nat q)))) = Z.max 0 (Z.of_nat q - 1).
Proof.
  intros HN. induction q as [|q IH].
  - rewrite Z.mul_0_r. reflexivity.
  - rewrite Nat2Z.inj_succ. unfold Z.succ. rewrite Z.mul_add_distr_l, Z.mul_1_r.
    rewrite zrange_app by nia. rewrite filter_app, app_length, Nat2Z.inj_add, IH.
    rewrite block_count by lia. destruct (Z.eqb_spec (Z.of_nat q) 0); lia.
Qed.

Lemma padTo_ceil k N : 0 <= k -> 0 < N -> padTo k N = N * ceilDiv k N.
Proof.
  intros Hk HN. destruct (padTo_spec k N Hk HN) as (Hm & Hr).
  apply Z.mod_divide in Hm; [|lia]. destruct Hm as (c & Hc). rewrite Hc in *.
  unfold ceilDiv. rewrite (Z.div_unique (k + N - 1) N c (k + N - 1 - c * N)); lia.
Qed.

Lemma nupOutputPages_spec N sorted : 0 < N -> 1 <= slice_len sorted ->
  nupOutputPages N sorted = ceilDiv (slice_len sorted) N.
Proof.
  intros HN Hk. unfold nupOutputPages. cbv zeta. fold (newPage N).
  rewrite padTo_ceil by lia.
  assert (Hc : 1 <= ceilDiv (slice_len sorted) N) by (apply ceilDiv_spec; lia).
  rewrite <- (Z2Nat.id (ceilDiv (slice_len sorted) N)) at 1 by lia.
  rewrite newPage_count by lia. lia.
Qed.

(* ---- counting form of "each selected page exactly once" *)
Lemma count_occ_repeat0 (b : nat) (p : Z) : p <> 0 -> count_occ Z.eq_dec (repeat 0 b) p = 0%nat.
Proof. intros Hp. induction b as [|b IH]; [reflexivity|]. cbn [repeat count_occ]. destruct (Z.eq_dec 0 p); [lia|exact IH]. Qed.

Lemma count_occ_repeat00 (b : nat) : count_occ Z.eq_dec (repeat 0 b) 0 = b.
Proof. induction b as [|b IH]; [reflexivity|]. cbn [repeat count_occ]. destruct (Z.eq_dec 0 0); [lia|lia]. Qed.

Lemma once_each (slots pages : list Z) (b : nat) : Permutation slots (pages ++ repeat 0 b) ->
  NoDup pages -> ~ In 0 pages ->
  (forall p, In p pages -> count_occ Z.eq_dec slots p = 1%nat) /\
  count_occ Z.eq_dec slots 0 = b /\
  (forall p, p <> 0 -> ~ In p pages -> count_occ Z.eq_dec slots p = 0%nat).
Proof.
  intros Hperm Hnd H0. repeat split.
  - intros p Hp. rewrite (Permutation_count_occ Z.eq_dec) in Hperm. rewrite Hperm, count_occ_app.
    rewrite count_occ_repeat0 by (intros ->; contradiction).
    rewrite (NoDup_count_occ' Z.eq_dec) in Hnd. rewrite (Hnd p Hp). reflexivity.
  - rewrite (Permutation_count_occ Z.eq_dec) in Hperm. rewrite Hperm, count_occ_app, count_occ_repeat00.
    rewrite (proj1 (count_occ_not_In Z.eq_dec pages 0) H0). reflexivity.
  - intros p Hp Hnin. rewrite (Permutation_count_occ Z.eq_dec) in Hperm. rewrite Hperm, count_occ_app.
    rewrite count_occ_repeat0 by assumption. rewrite (proj1 (count_occ_not_In Z.eq_dec pages p) Hnin). reflexivity.
Qed.

(* ---- the multi-folio defect: signatures of folio*4 pages for N >= 4 *)
Lemma multifolio_panics : getBookletOrdering 64 4 0 0 false false true 1 [1;2;3;4;5;6;7;8;9] = Err.
Proof. vm_compute. reflexivity. Qed.
