(* C21 — each modelled transformation preserves the structural core of validation. *)
From Coq Require Import List ZArith NArith Bool Lia.
From PV Require Import C19.Model C19.ProofsClosed C21.Model.
Import ListNotations.

(* ---------- induction principle for page trees ---------- *)
Section PtreeInd.
  Variable P : ptree -> Prop.
  Hypothesis Hleaf : forall id d, P (PLeaf id d).
  Hypothesis Hnode : forall d kids, Forall P kids -> P (PNode d kids).
  Fixpoint ptree_ind' (t : ptree) : P t :=
    match t with
    | PLeaf id d => Hleaf id d
    | PNode d kids => Hnode d kids ((fix go (l : list ptree) : Forall P l :=
                         match l with [] => Forall_nil _ | x :: r => Forall_cons _ (ptree_ind' x) (go r) end) kids)
    end.
End PtreeInd.

(* ---------- dictionaries ---------- *)
Lemma dtype_dset : forall k v d, beqb k kType = false -> beqb kType k = false -> dtype (dset k v d) = dtype d.
Proof. intros k v d H1 H2. unfold dtype. rewrite dfind_dset_other by assumption. reflexivity. Qed.

Lemma type_is_dset : forall k v d t, beqb k kType = false -> beqb kType k = false ->
  type_is (dset k v d) t = type_is d t.
Proof. intros. unfold type_is. rewrite dtype_dset by assumption. reflexivity. Qed.

Lemma has_box_dset : forall k v d inh, beqb k kMediaBox = false -> beqb kMediaBox k = false ->
  has_box inh (dset k v d) = has_box inh d.
Proof. intros. unfold has_box. rewrite dfind_dset_other by assumption. reflexivity. Qed.

Lemma count_is_dset : forall d c, count_is (dset kCount (OInt c) d) c = true.
Proof. intros. unfold count_is. rewrite dfind_dset_same. apply Z.eqb_refl. Qed.

(* ---------- select ---------- *)
Definition sel_kids (keep : N -> bool) : list ptree -> list ptree :=
  fix go (l : list ptree) : list ptree :=
    match l with
    | [] => []
    | k :: r =>
      match k with
      | PLeaf id _ => if keep id then k :: go r else go r
      | PNode _ _ => select keep k :: go r
      end
    end.

Lemma select_node : forall keep d kids,
  select keep (PNode d kids) = PNode (dset kCount (OInt (count_list (sel_kids keep kids))) d) (sel_kids keep kids).
Proof. reflexivity. Qed.

Lemma select_shape : forall keep t inh, shape_ok inh t = true -> tree_ok inh (select keep t) = true.
Proof.
  intros keep. induction t as [id d|d kids IH] using ptree_ind'; intros inh H.
  - exact H.
  - rewrite select_node. simpl in H. apply andb_true_iff in H. destruct H as [Ht Hk].
    cbn [tree_ok]. rewrite type_is_dset by reflexivity. rewrite Ht, count_is_dset. simpl.
    rewrite has_box_dset by reflexivity.
    induction kids as [|k r IHr]; [reflexivity|].
    simpl in Hk. apply andb_true_iff in Hk. destruct Hk as [Hk1 Hk2].
    inversion IH as [|? ? IHk IHrest]; subst.
    destruct k as [id dk|dk kk].
    + simpl. destruct (keep id); [|exact (IHr IHrest Hk2)].
      cbn [forallb tree_ok]. simpl in Hk1. rewrite Hk1. exact (IHr IHrest Hk2).
    + cbn [sel_kids forallb]. rewrite (IHk _ Hk1). exact (IHr IHrest Hk2).
Qed.

Lemma select_leaves_kids : forall keep kids,
  Forall (fun t => forall d' kk, t = PNode d' kk ->
            leaves (select keep t) = filter (fun p => keep (fst p)) (leaves t)) kids ->
  flat_map leaves (sel_kids keep kids) = filter (fun p => keep (fst p)) (flat_map leaves kids).
Proof.
  intros keep kids H. induction kids as [|k r IHr]; [reflexivity|].
  inversion H as [|? ? Hk Hr]; subst. destruct k as [id dk|dk kk].
  - simpl. destruct (keep id); simpl; rewrite (IHr Hr); reflexivity.
  - cbn [sel_kids flat_map]. rewrite filter_app, (Hk dk kk eq_refl), (IHr Hr). reflexivity.
Qed.

Lemma select_leaves : forall keep t d kids, t = PNode d kids ->
  leaves (select keep t) = filter (fun p => keep (fst p)) (leaves t).
Proof.
  intros keep. induction t as [id d0|d0 kids0 IH] using ptree_ind'; intros d kids E; [discriminate|].
  rewrite select_node. cbn [leaves]. apply select_leaves_kids. exact IH.
Qed.

(* ---------- extract ---------- *)
Definition leaf_own_box (p : N * dict) : Prop := type_is (snd p) kPage = true /\ has_box false (snd p) = true.

Lemma eff_leaves_ok : forall t inh, shape_ok (is_some inh) t = true ->
  forall p, In p (eff_leaves inh t) -> leaf_own_box p.
Proof.
  induction t as [id d|d kids IH] using ptree_ind'; intros inh H p Hp.
  - simpl in Hp. destruct Hp as [<-|[]]. simpl in H. apply andb_true_iff in H. destruct H as [Ht Hb].
    unfold leaf_own_box. simpl. unfold has_box in *. destruct (dfind kMediaBox d) eqn:F.
    + split; [exact Ht|]. rewrite F. reflexivity.
    + destruct inh as [b|]; simpl in Hb; [|discriminate].
      split; [rewrite type_is_dset by reflexivity; exact Ht|]. rewrite dfind_dset_same. reflexivity.
  - simpl in Hp. apply in_flat_map in Hp. destruct Hp as [k [Hk Hp]].
    simpl in H. apply andb_true_iff in H. destruct H as [_ Hks].
    rewrite forallb_forall in Hks. rewrite Forall_forall in IH.
    apply (IH k Hk (orelse (dfind kMediaBox d) inh)); [|exact Hp].
    rewrite <- (Hks k Hk). f_equal. unfold has_box. destruct (dfind kMediaBox d); destruct inh; reflexivity.
Qed.

Lemma find_leaf_ok : forall id ls, (forall p, In p ls -> leaf_own_box p) ->
  forallb (tree_ok false) (find_leaf id ls) = true.
Proof.
  intros id ls H. unfold find_leaf. destruct (find (fun p => N.eqb (fst p) id) ls) as [[i d]|] eqn:F; [|reflexivity].
  apply find_some in F. destruct F as [Hin _]. destruct (H (i, d) Hin) as [Ht Hb].
  simpl in *. rewrite Ht, Hb. reflexivity.
Qed.

Lemma extract_ok : forall sel t, shape_ok false t = true -> tree_ok false (extract sel t) = true.
Proof.
  intros sel t H. unfold extract. cbn [tree_ok].
  assert (Ht : type_is [(kType, OName kPages); (kCount, OInt (count_list (flat_map (fun id => find_leaf id (eff_leaves None t)) sel)))] kPages = true) by reflexivity.
  rewrite Ht. unfold count_is at 1. cbn [dfind]. simpl beqb. cbn iota. rewrite Z.eqb_refl. simpl andb.
  pose proof (eff_leaves_ok t None H) as Hl. clear Ht.
  induction sel as [|id sel IH]; [reflexivity|].
  cbn [flat_map]. rewrite forallb_app. rewrite IH, andb_true_r.
  assert (forallb (tree_ok false) (find_leaf id (eff_leaves None t)) = true) by (apply find_leaf_ok; exact Hl).
  unfold has_box. simpl. exact H0.
Qed.

Lemma extract_ids : forall sel t, NoDup (map fst (eff_leaves None t)) -> incl sel (map fst (eff_leaves None t)) ->
  map fst (leaves (extract sel t)) = sel.
Proof.
  intros sel t _ Hi. unfold extract. cbn [leaves]. induction sel as [|id sel IH]; [reflexivity|].
  cbn [flat_map]. rewrite flat_map_app, map_app, IH by (intros x Hx; apply Hi; right; exact Hx).
  assert (Hin : In id (map fst (eff_leaves None t))) by (apply Hi; left; reflexivity).
  unfold find_leaf. destruct (find (fun p => N.eqb (fst p) id) (eff_leaves None t)) as [[i d]|] eqn:F.
  - apply find_some in F. destruct F as [_ E]. simpl in E. apply N.eqb_eq in E. subst. reflexivity.
  - exfalso. apply in_map_iff in Hin. destruct Hin as [p [Ep Hp]].
    pose proof (find_none _ _ F p Hp) as Hn. simpl in Hn. rewrite Ep, N.eqb_refl in Hn. discriminate.
Qed.

(* ---------- insert_blank ---------- *)
Definition ins_kids (before : bool) (sel : N -> bool) (box : obj) : list ptree -> list ptree :=
  fix go (l : list ptree) : list ptree :=
    match l with
    | [] => []
    | k :: r =>
      match k with
      | PLeaf id _ =>
          if sel id then
            (if before then PLeaf 0 (blank_page box) :: k :: go r
             else k :: PLeaf 0 (blank_page box) :: go r)
          else k :: go r
      | PNode _ _ => insert_blank before sel box k :: go r
      end
    end.

Lemma insert_node : forall before sel box d kids,
  insert_blank before sel box (PNode d kids) =
  PNode (dset kCount (OInt (count_list (ins_kids before sel box kids))) d) (ins_kids before sel box kids).
Proof. reflexivity. Qed.

Lemma blank_ok : forall box inh, tree_ok inh (PLeaf 0 (blank_page box)) = true.
Proof. intros. simpl. unfold type_is, has_box. simpl. rewrite orb_true_r. reflexivity. Qed.

Lemma insert_shape : forall before sel box t inh, shape_ok inh t = true ->
  tree_ok inh (insert_blank before sel box t) = true.
Proof.
  intros before sel box. induction t as [id d|d kids IH] using ptree_ind'; intros inh H.
  - exact H.
  - rewrite insert_node. simpl in H. apply andb_true_iff in H. destruct H as [Ht Hk].
    cbn [tree_ok]. rewrite type_is_dset by reflexivity. rewrite Ht, count_is_dset. simpl.
    rewrite has_box_dset by reflexivity.
    induction kids as [|k r IHr]; [reflexivity|].
    simpl in Hk. apply andb_true_iff in Hk. destruct Hk as [Hk1 Hk2].
    inversion IH as [|? ? IHk IHrest]; subst.
    destruct k as [id dk|dk kk].
    + cbn [ins_kids]. simpl in Hk1. destruct (sel id); [destruct before|]; cbn [forallb];
        try rewrite blank_ok; cbn [tree_ok]; rewrite Hk1; simpl; exact (IHr IHrest Hk2).
    + cbn [ins_kids forallb]. rewrite (IHk _ Hk1). exact (IHr IHrest Hk2).
Qed.

(* the original pages stay, in their order *)
Lemma insert_leaves_kids : forall before sel box kids,
  Forall (fun t => forall d' kk, t = PNode d' kk ->
            filter (fun p => negb (N.eqb (fst p) 0)) (leaves (insert_blank before sel box t)) =
            filter (fun p => negb (N.eqb (fst p) 0)) (leaves t)) kids ->
  filter (fun p => negb (N.eqb (fst p) 0)) (flat_map leaves (ins_kids before sel box kids)) =
  filter (fun p => negb (N.eqb (fst p) 0)) (flat_map leaves kids).
Proof.
  intros before sel box kids H. induction kids as [|k r IHr]; [reflexivity|].
  inversion H as [|? ? Hk Hr]; subst. destruct k as [id dk|dk kk].
  - cbn [ins_kids]. destruct (sel id); [destruct before|]; simpl; rewrite (IHr Hr); try reflexivity.
  - cbn [ins_kids flat_map]. rewrite !filter_app, (Hk dk kk eq_refl), (IHr Hr). reflexivity.
Qed.

Lemma insert_leaves : forall before sel box t d kids, t = PNode d kids ->
  filter (fun p => negb (N.eqb (fst p) 0)) (leaves (insert_blank before sel box t)) =
  filter (fun p => negb (N.eqb (fst p) 0)) (leaves t).
Proof.
  intros before sel box. induction t as [id d0|d0 kids0 IH] using ptree_ind'; intros d kids E; [discriminate|].
  rewrite insert_node. cbn [leaves]. apply insert_leaves_kids. exact IH.
Qed.

(* ---------- set_leaf ---------- *)
Lemma set_leaf_count : forall sel k v t, length (leaves (set_leaf sel k v t)) = length (leaves t).
Proof.
  intros sel k v. induction t as [id d|d kids IH] using ptree_ind'.
  - simpl. destruct (sel id); reflexivity.
  - simpl. induction kids as [|x r IHr]; [reflexivity|].
    inversion IH as [|? ? Hx Hr]; subst. simpl. rewrite !app_length, Hx, (IHr Hr). reflexivity.
Qed.

Lemma set_leaf_ok : forall sel k v, beqb k kType = false -> beqb kType k = false ->
  beqb k kMediaBox = false -> beqb kMediaBox k = false ->
  forall t inh, tree_ok inh t = true -> tree_ok inh (set_leaf sel k v t) = true.
Proof.
  intros sel k v H1 H2 H3 H4. induction t as [id d|d kids IH] using ptree_ind'; intros inh H.
  - simpl. destruct (sel id); [|exact H]. simpl in *. rewrite type_is_dset, has_box_dset by assumption. exact H.
  - simpl in *. apply andb_true_iff in H. destruct H as [H Hk]. apply andb_true_iff in H. destruct H as [Ht Hc].
    rewrite Ht. simpl.
    assert (Ec : count_list (map (set_leaf sel k v) kids) = count_list kids).
    { unfold count_list. f_equal. clear -IH. induction kids as [|x r IHr]; [reflexivity|].
      simpl. rewrite !app_length, set_leaf_count. f_equal. apply IHr. inversion IH; assumption. }
    rewrite Ec, Hc. simpl. rewrite forallb_forall in Hk. apply forallb_forall. intros x Hx.
    apply in_map_iff in Hx. destruct Hx as [y [<- Hy]]. rewrite Forall_forall in IH. exact (IH y Hy _ (Hk y Hy)).
Qed.

(* ---------- Info ---------- *)
Lemma info_set_ok : forall k v d, info_ok d = true -> info_ok (info_set k v d) = true.
Proof.
  intros k v d H. unfold info_set, info_ok in *. induction d as [|[k' v'] d IH]; simpl.
  - unfold info_entry_ok. simpl. destruct (beqb k kTrapped); reflexivity.
  - simpl in H. apply andb_true_iff in H. destruct H as [H1 H2]. destruct (beqb k' k) eqn:E; simpl.
    + rewrite H2. unfold info_entry_ok. simpl. destruct (beqb k' kTrapped); reflexivity.
    + rewrite H1. exact (IH H2).
Qed.

Lemma info_del_ok : forall k d, info_ok d = true -> info_ok (info_del k d) = true.
Proof.
  intros k d H. unfold info_del, info_ok in *. induction d as [|[k' v'] d IH]; simpl; [reflexivity|].
  simpl in H. apply andb_true_iff in H. destruct H as [H1 H2].
  destruct (beqb k' k); [exact (IH H2)|]. simpl. rewrite H1. exact (IH H2).
Qed.

(* ---------- catalog ---------- *)
Lemma catalog_set_name_ok : forall k v d, (k = kPageMode \/ k = kPageLayout) ->
  catalog_ok d = true -> catalog_ok (catalog_set_name k v d) = true.
Proof.
  intros k v d Hk H. unfold catalog_ok, catalog_set_name in *.
  apply andb_true_iff in H. destruct H as [H Hl]. apply andb_true_iff in H. destruct H as [H Hm].
  apply andb_true_iff in H. destruct H as [Ht Hp].
  destruct Hk as [->| ->].
  - rewrite type_is_dset by reflexivity. rewrite Ht. rewrite dfind_dset_other by reflexivity.
    simpl. unfold name_entry_ok. rewrite dfind_dset_same. rewrite dfind_dset_other by reflexivity.
    fold (name_entry_ok kPageLayout d). rewrite Hl. simpl.
    destruct (dfind kPages d); [rewrite Hp; reflexivity|discriminate].
  - rewrite type_is_dset by reflexivity. rewrite Ht. rewrite dfind_dset_other by reflexivity.
    simpl. unfold name_entry_ok. rewrite dfind_dset_same. rewrite dfind_dset_other by reflexivity.
    fold (name_entry_ok kPageMode d). rewrite Hm. simpl.
    destruct (dfind kPages d); [rewrite Hp; reflexivity|discriminate].
Qed.

(* ---------- name tree leaf ---------- *)
Lemma blt_irrefl : forall a, blt a a = false.
Proof. induction a as [|x a IH]; simpl; [reflexivity|]. rewrite N.ltb_irrefl, N.eqb_refl, IH. reflexivity. Qed.

Lemma blt_trans : forall a b c, blt a b = true -> blt b c = true -> blt a c = true.
Proof.
  induction a as [|x a IH]; intros b c H1 H2.
  - destruct b; [discriminate|]. destruct c; [discriminate|reflexivity].
  - destruct b as [|y b]; [discriminate|]. destruct c as [|z c]; [discriminate|].
    simpl in *. apply orb_true_iff in H1. apply orb_true_iff in H2. apply orb_true_iff.
    destruct H1 as [H1|H1]; destruct H2 as [H2|H2].
    + left. apply N.ltb_lt in H1. apply N.ltb_lt in H2. apply N.ltb_lt. lia.
    + apply andb_true_iff in H2. destruct H2 as [E _]. apply N.eqb_eq in E. subst. left. exact H1.
    + apply andb_true_iff in H1. destruct H1 as [E _]. apply N.eqb_eq in E. subst. left. exact H2.
    + apply andb_true_iff in H1. destruct H1 as [E1 L1]. apply andb_true_iff in H2. destruct H2 as [E2 L2].
      apply N.eqb_eq in E1. apply N.eqb_eq in E2. subst. right. rewrite N.eqb_refl. exact (IH _ _ L1 L2).
Qed.

(* not (k < k') and k <> k' gives k' < k: the order is total *)
Lemma blt_total : forall a b, blt a b = false -> beqb a b = false -> blt b a = true.
Proof.
  induction a as [|x a IH]; intros b H1 H2.
  - destruct b; [discriminate|discriminate].
  - destruct b as [|y b]; [reflexivity|]. simpl in *.
    apply orb_false_iff in H1. destruct H1 as [L E].
    apply N.ltb_ge in L. destruct (N.eqb x y) eqn:Exy.
    + apply N.eqb_eq in Exy. subst. simpl in *. rewrite N.ltb_irrefl, N.eqb_refl. simpl. exact (IH b E H2).
    + apply N.eqb_neq in Exy. replace (N.ltb y x) with true; [reflexivity|]. symmetry. apply N.ltb_lt. lia.
Qed.

Definition lower (k : bytes) (l : list (bytes * obj)) : bool :=
  match l with [] => true | (k', _) :: _ => blt k k' end.

Lemma sorted_cons : forall k v l, sorted ((k, v) :: l) = lower k l && sorted l.
Proof. intros k v l. destruct l as [|[k' v'] r]; reflexivity. Qed.

Lemma nt_insert_lower : forall k0 k v l, lower k0 l = true -> blt k0 k = true -> lower k0 (nt_insert k v l) = true.
Proof.
  intros k0 k v l Hl Hk. destruct l as [|[k' v'] r]; simpl; [exact Hk|].
  destruct (blt k k'); [exact Hk|]. destruct (beqb k k'); [exact Hk|exact Hl].
Qed.

Lemma nt_insert_sorted : forall k v l, sorted l = true -> sorted (nt_insert k v l) = true.
Proof.
  intros k v l. induction l as [|[k' v'] r IH]; intros H; [reflexivity|].
  rewrite sorted_cons in H. apply andb_true_iff in H. destruct H as [Hl Hs].
  cbn [nt_insert]. destruct (blt k k') eqn:L.
  - rewrite sorted_cons. simpl lower. rewrite L. rewrite sorted_cons, Hl, Hs. reflexivity.
  - destruct (beqb k k') eqn:E.
    + apply beqb_eq in E. subst. rewrite sorted_cons, Hl, Hs. reflexivity.
    + rewrite sorted_cons, (IH Hs), andb_true_r. apply nt_insert_lower; [exact Hl|exact (blt_total _ _ L E)].
Qed.

Lemma lower_sorted_tail : forall k v l k0, sorted ((k, v) :: l) = true -> blt k0 k = true -> lower k0 l = true.
Proof.
  intros k v l k0 H Hk. destruct l as [|[k' v'] r]; [reflexivity|].
  simpl in H. apply andb_true_iff in H. destruct H as [H _]. simpl. exact (blt_trans _ _ _ Hk H).
Qed.

Lemma nt_remove_sorted : forall k l, sorted l = true -> sorted (nt_remove k l) = true.
Proof.
  intros k l. induction l as [|[k' v'] r IH]; intros H; [reflexivity|].
  pose proof H as H0. rewrite sorted_cons in H. apply andb_true_iff in H. destruct H as [Hl Hs].
  cbn [nt_remove]. destruct (beqb k k'); [exact Hs|].
  rewrite sorted_cons, (IH Hs), andb_true_r.
  destruct r as [|[k2 v2] r2]; [reflexivity|].
  cbn [nt_remove]. destruct (beqb k k2).
  - apply (lower_sorted_tail k2 v2 r2 k' Hs). simpl in Hl. exact Hl.
  - exact Hl.
Qed.

(* ---------- versions ---------- *)
Lemma write_versions_effective : forall ensured h r,
  let '(h', r') := write_versions ensured h r in
  r' = None /\ effective h' r' = h' /\ (17 <= h')%N.
Proof.
  intros ensured h r. unfold write_versions. simpl.
  destruct (N.eqb (if ensured then 17%N else effective h r) 20); repeat split; lia.
Qed.

Lemma write_versions_covers : forall ensured h r since,
  (since <= 17)%N -> (since <= effective (fst (write_versions ensured h r)) (snd (write_versions ensured h r)))%N.
Proof.
  intros ensured h r since Hs. unfold write_versions. simpl.
  destruct (N.eqb (if ensured then 17%N else effective h r) 20); simpl; lia.
Qed.

Lemma write_versions_monotone : forall h r,
  valid_version (effective h r) = true ->
  (effective h r <= effective (fst (write_versions false h r)) (snd (write_versions false h r)))%N.
Proof.
  intros h r. unfold write_versions. cbn [fst snd]. generalize (effective h r). intros e Hv.
  unfold valid_version in Hv. unfold effective.
  destruct (N.eqb e 20) eqn:E.
  - apply N.eqb_eq in E. lia.
  - rewrite orb_false_r in Hv. apply andb_true_iff in Hv. destruct Hv as [_ H2]. apply N.leb_le in H2. exact H2.
Qed.
