(* C33 — proofs about the span arithmetic of split and about ExtractPages. *)
From Coq Require Import ZArith List Bool Lia ZifyBool ZifyNat.
From PV Require Import Lib.GoInt C33.Pages C33.Model.
Import ListNotations.
Open Scope Z_scope.

Definition rng (p : Z * Z) : list Z := page_range (fst p) (snd p).
Definition zseq (a : Z) (len : nat) : list Z := map (fun i => a + Z.of_nat i) (seq 0 len).

(* ---------- induction principle for page trees ---------- *)
Section TreeInd.
  Variable P : tree -> Prop.
  Hypothesis HL : forall p, P (Leaf p).
  Hypothesis HN : forall a c kids, Forall P kids -> P (Node a c kids).
  Fixpoint tree_ind' (t : tree) : P t :=
    match t with
    | Leaf p => HL p
    | Node a c kids =>
        HN a c kids ((fix go (ks : list tree) : Forall P ks :=
                        match ks with
                        | [] => Forall_nil P
                        | k :: r => Forall_cons k (tree_ind' k) (go r)
                        end) kids)
    end.
End TreeInd.

(* ---------- integer ranges ---------- *)
Lemma zseq_S a len : zseq a (S len) = a :: zseq (a + 1) len.
Proof.
  unfold zseq. simpl. rewrite Z.add_0_r. f_equal.
  rewrite <- seq_shift, map_map. apply map_ext. intros i. lia.
Qed.

Lemma zseq_app a n m : zseq a (n + m) = zseq a n ++ zseq (a + Z.of_nat n) m.
Proof.
  revert a. induction n as [|n IH]; intros a.
  - simpl. rewrite Z.add_0_r. reflexivity.
  - change (S n + m)%nat with (S (n + m)). rewrite !zseq_S, IH. simpl. do 3 f_equal. lia.
Qed.

Lemma zseq_length a n : length (zseq a n) = n.
Proof. unfold zseq. rewrite map_length, seq_length. reflexivity. Qed.

Lemma page_range_zseq f t : 1 <= f -> f <= t + 1 -> page_range f t = zseq f (Z.to_nat (t - f + 1)).
Proof.
  intros Hf Ht. unfold page_range. destruct ((f <? 1) || (t <? f)) eqn:E.
  - assert (t - f + 1 = 0) as -> by lia. reflexivity.
  - reflexivity.
Qed.

Lemma page_range_empty f t : t < f -> page_range f t = [].
Proof. intros H. unfold page_range. replace (t <? f) with true by lia. rewrite orb_true_r. reflexivity. Qed.

Lemma page_range_app a b c : 1 <= a -> a <= b + 1 -> b <= c ->
  page_range a b ++ page_range (b + 1) c = page_range a c.
Proof.
  intros Ha Hb Hc. rewrite !page_range_zseq by lia.
  replace (Z.to_nat (c - a + 1)) with (Z.to_nat (b - a + 1) + Z.to_nat (c - (b + 1) + 1))%nat by lia.
  rewrite zseq_app. do 2 f_equal. lia.
Qed.

Lemma page_range_length f t : 1 <= f -> f <= t + 1 -> lenZ (page_range f t) = t - f + 1.
Proof. intros. unfold lenZ. rewrite page_range_zseq, zseq_length by lia. lia. Qed.

Lemma page_range_bounds f t : Forall (fun k => f <= k <= t) (page_range f t).
Proof.
  unfold page_range. destruct ((f <? 1) || (t <? f)) eqn:E; [constructor|].
  apply Forall_forall. intros k Hk. apply in_map_iff in Hk. destruct Hk as [i [<- Hi]].
  apply in_seq in Hi. lia.
Qed.

(* ---------- writePageSpans ---------- *)
Definition full_part (span : Z) (i : nat) : Z * Z := (Z.of_nat i * span + 1, Z.of_nat i * span + span).

Lemma full_concat span q : 1 <= span -> forall k,
  concat (map rng (map (full_part span) (seq k q))) =
  page_range (Z.of_nat k * span + 1) (Z.of_nat (k + q) * span).
Proof.
  intros Hs. induction q as [|q IH]; intros k.
  - simpl. rewrite Nat.add_0_r. symmetry. apply page_range_empty. lia.
  - simpl. rewrite IH. unfold rng, full_part. simpl fst. simpl snd.
    replace (Z.of_nat (S k) * span + 1) with ((Z.of_nat k * span + span) + 1) by lia.
    replace (k + S q)%nat with (S k + q)%nat by lia.
    apply page_range_app; nia.
Qed.

Lemma span_parts_ok n span : 0 <= n -> 1 <= span ->
  exists full last,
    span_parts n span = Ok (full ++ last) /\
    concat (map rng (full ++ last)) = page_range 1 n /\
    Forall (fun p => snd p - fst p + 1 = span) full /\
    (last = [] \/ exists f, last = [(f, n)] /\ 1 <= n - f + 1 < span) /\
    lenZ full = n / span /\
    Forall (fun p => 1 <= fst p <= snd p /\ snd p <= n) (full ++ last).
Proof.
  intros Hn Hs. unfold span_parts. replace (span <=? 0) with false by lia.
  rewrite Z.quot_div_nonneg, Z.rem_mod_nonneg by lia.
  set (q := n / span). set (r := n mod span).
  assert (Hqr : n = span * q + r /\ 0 <= r < span /\ 0 <= q).
  { subst q r. pose proof (Z.div_mod n span). pose proof (Z.mod_pos_bound n span).
    pose proof (Z.div_pos n span). lia. }
  destruct Hqr as [Hnq [Hr Hq]].
  exists (map (fun i : nat => (Z.of_nat i * span + 1, Z.of_nat i * span + span)) (seq 0 (Z.to_nat q))).
  exists (if 0 <? r then [(q * span + 1, n)] else []).
  split; [reflexivity|].
  assert (Hfull : concat (map rng (map (full_part span) (seq 0 (Z.to_nat q)))) = page_range 1 (q * span)).
  { rewrite full_concat by lia. f_equal; lia. }
  split.
  { rewrite map_app, concat_app. change (fun i : nat => (Z.of_nat i * span + 1, Z.of_nat i * span + span)) with (full_part span).
    rewrite Hfull. destruct (0 <? r) eqn:Er.
    - simpl. rewrite app_nil_r. unfold rng. simpl fst. simpl snd. apply page_range_app; nia.
    - simpl. rewrite app_nil_r. f_equal. nia. }
  split.
  { apply Forall_forall. intros p Hp. apply in_map_iff in Hp. destruct Hp as [i [<- _]]. simpl. lia. }
  split.
  { destruct (0 <? r) eqn:Er; [right|left; reflexivity]. eexists. split; [reflexivity|]. nia. }
  split.
  { unfold lenZ. rewrite map_length, seq_length. lia. }
  apply Forall_app. split.
  - apply Forall_forall. intros p Hp. apply in_map_iff in Hp. destruct Hp as [i [<- Hi]].
    apply in_seq in Hi. simpl. nia.
  - destruct (0 <? r) eqn:Er; constructor; [|constructor]. simpl. nia.
Qed.

Lemma span_parts_invalid n span : span <= 0 -> span_parts n span = Err.
Proof. intros H. unfold span_parts. replace (span <=? 0) with true by lia. reflexivity. Qed.

(* ---------- writePageSpansSplitAlongPages ---------- *)
Lemma strictly_inc_filter n : forall r p, n < p -> strictly_inc p r = true ->
  filter (fun x => x <=? n) r = [].
Proof.
  induction r as [|x r IH]; intros p Hp Hs; simpl in *; [reflexivity|].
  apply andb_true_iff in Hs. destruct Hs as [Hx Hr].
  replace (x <=? n) with false by lia. apply (IH x); [lia|assumption].
Qed.

Lemma along_loop_ok n : forall nrs from, 1 <= from <= n -> strictly_inc from nrs = true ->
  concat (map rng (along_loop n from nrs)) = page_range from n /\
  Forall (fun p => from <= fst p <= snd p /\ snd p <= n) (along_loop n from nrs) /\
  map fst (along_loop n from nrs) = from :: filter (fun p => p <=? n) nrs.
Proof.
  induction nrs as [|p r IH]; intros from Hf Hs.
  - simpl. rewrite app_nil_r. repeat split; try reflexivity. constructor; [simpl; lia|constructor].
  - simpl in Hs. apply andb_true_iff in Hs. destruct Hs as [Hp Hr]. simpl.
    destruct (n <=? p - 1) eqn:E.
    + simpl. rewrite app_nil_r. replace (p <=? n) with false by lia.
      rewrite (strictly_inc_filter n r p) by (lia || assumption).
      repeat split; try reflexivity. constructor; [simpl; lia|constructor].
    + replace (p <=? n) with true by lia.
      replace (p - 1 + 1) with p by lia.
      destruct (IH p) as [Hc [Hfa Hm]]; [lia|assumption|].
      simpl. rewrite Hc, Hm. repeat split.
      * unfold rng. simpl fst. simpl snd.
        replace (page_range p n) with (page_range (p - 1 + 1) n) by (f_equal; lia).
        apply page_range_app; lia.
      * constructor; [simpl; lia|]. eapply Forall_impl; [|exact Hfa]. simpl. intros a Ha. lia.
Qed.

Lemma along_parts_ok n nrs : valid_page_nrs n nrs = true ->
  exists parts, along_parts n nrs = Ok parts /\
    concat (map rng parts) = page_range 1 n /\
    Forall (fun p => 1 <= fst p <= snd p /\ snd p <= n) parts /\
    map fst parts = 1 :: filter (fun p => p <=? n) nrs.
Proof.
  intros Hv. unfold along_parts. rewrite Hv. eexists. split; [reflexivity|].
  destruct nrs as [|p r]; [discriminate|]. unfold valid_page_nrs in Hv.
  apply andb_true_iff in Hv. destruct Hv as [Hv Hr]. apply andb_true_iff in Hv. destruct Hv as [H2 Hn].
  apply along_loop_ok; [lia|]. simpl. rewrite Hr. replace (1 <? p) with true by lia. reflexivity.
Qed.

Lemma along_parts_invalid n nrs : valid_page_nrs n nrs = false -> along_parts n nrs = Err.
Proof. intros H. unfold along_parts. rewrite H. reflexivity. Qed.

(* ---------- page counts ---------- *)
Lemma flat_map_length_sum {A B} (f : A -> list B) (g : A -> Z) l :
  Forall (fun x => g x = lenZ (f x)) l -> sumZ (map g l) = lenZ (flat_map f l).
Proof.
  induction 1 as [|x l Hx Hl IH]; [reflexivity|].
  simpl. unfold lenZ in *. rewrite app_length, IH, Hx. lia.
Qed.

Lemma wf_count_len : forall t, wf_count t = true -> forall inh, count_of t = lenZ (resolve inh t).
Proof.
  induction t as [p|a c kids IH] using tree_ind'; intros Hwf inh; [reflexivity|].
  simpl in *. apply andb_true_iff in Hwf. destruct Hwf as [Hc Hk].
  apply Z.eqb_eq in Hc. rewrite Hc. apply flat_map_length_sum.
  rewrite forallb_forall in Hk. rewrite Forall_forall in *. intros k Hin. apply IH; auto.
Qed.

(* ---------- ExtractPages ---------- *)
Definition xres (r : rpage) : rpage :=
  (xpage r, inherit (inherit no_attrs new_root_attrs) (pg_attrs (xpage r))).
Definition xview (r : rpage) : vpage := view (xres r).

Lemma resolve_leaves inh l :
  flat_map (resolve inh) (map Leaf l) = map (fun p => (p, inherit inh (pg_attrs p))) l.
Proof. induction l as [|p l IH]; simpl; [reflexivity|]. rewrite IH. reflexivity. Qed.

Lemma rpages_flat_tree l :
  rpages (flat_tree l) = map (fun p => (p, inherit (inherit no_attrs new_root_attrs) (pg_attrs p))) l.
Proof. unfold rpages, flat_tree. simpl. apply resolve_leaves. Qed.

Lemma pages_flat_tree_x (rs : list rpage) :
  pages_of (flat_tree (map xpage rs)) = map xview rs.
Proof. unfold pages_of. rewrite rpages_flat_tree, !map_map. reflexivity. Qed.

Lemma sum_count_leaves l : sumZ (map count_of (map Leaf l)) = lenZ l.
Proof.
  induction l as [|x l IH]; [reflexivity|].
  change (sumZ (map count_of (map Leaf (x :: l)))) with (1 + sumZ (map count_of (map Leaf l))).
  rewrite IH. unfold lenZ. simpl length. lia.
Qed.

Lemma collect_ok rs n d : n = lenZ rs -> forall nrs, Forall (fun k => 1 <= k <= n) nrs ->
  collect_pages rs n nrs = Ok (map (fun k => xpage (nth (Z.to_nat (k - 1)) rs d)) nrs).
Proof.
  intros Hn. induction nrs as [|k ks IH]; intros Hall; [reflexivity|].
  inversion Hall as [|? ? Hk Hks]; subst. simpl.
  replace ((1 <=? k) && (k <=? lenZ rs)) with true by lia.
  rewrite (nth_error_nth' rs d) by (unfold lenZ in Hk; lia).
  rewrite IH by assumption. reflexivity.
Qed.

Lemma collect_bad rs n : forall nrs, Exists (fun k => ~ (1 <= k <= n)) nrs -> collect_pages rs n nrs = Err.
Proof.
  induction nrs as [|k ks IH]; intros Hex; inversion Hex; subst; simpl.
  - replace ((1 <=? k) && (k <=? n)) with false by lia. reflexivity.
  - destruct ((1 <=? k) && (k <=? n)); [|reflexivity].
    rewrite IH by assumption. destruct (nth_error rs (Z.to_nat (k - 1))); reflexivity.
Qed.

Lemma extract_range_ok t f th d : wf_count t = true -> 1 <= f <= th -> th <= count_of t ->
  extract_pages t (page_range f th) =
  Ok (flat_tree (map xpage (map (fun k => nth (Z.to_nat (k - 1)) (rpages t) d) (page_range f th)))).
Proof.
  intros Hwf Hf Hth. unfold extract_pages.
  pose proof (page_range_length f th) as Hlen.
  pose proof (page_range_bounds f th) as Hb.
  destruct (page_range f th) as [|k ks] eqn:E.
  - unfold lenZ in Hlen. simpl in Hlen. lia.
  - rewrite (collect_ok (rpages t) (count_of t) d).
    + rewrite map_map. reflexivity.
    + apply wf_count_len. assumption.
    + eapply Forall_impl; [|exact Hb]. simpl. intros a Ha. lia.
Qed.

Lemma extract_parts_ok t d : wf_count t = true -> forall parts,
  Forall (fun p => 1 <= fst p <= snd p /\ snd p <= count_of t) parts ->
  exists docs, extract_parts t parts = Ok docs /\
    concat (map pages_of docs) =
      map (fun k => xview (nth (Z.to_nat (k - 1)) (rpages t) d)) (concat (map rng parts)) /\
    Forall2 (fun doc p => lenZ (pages_of doc) = snd p - fst p + 1 /\ wf_count doc = true) docs parts.
Proof.
  intros Hwf. induction parts as [|[f th] r IH]; intros Hall.
  - exists []. repeat split; constructor.
  - inversion Hall as [|? ? Hp Hr]; subst. simpl in Hp.
    destruct (IH Hr) as [docs [He [Hc HF]]].
    simpl. rewrite (extract_range_ok t f th d) by (assumption || lia). rewrite He.
    eexists. split; [reflexivity|]. split.
    + simpl. rewrite Hc, pages_flat_tree_x, map_app, map_map. reflexivity.
    + constructor; [|assumption]. simpl. split.
      * rewrite pages_flat_tree_x. unfold lenZ. rewrite !map_length.
        pose proof (page_range_length f th) as Hl. unfold lenZ in Hl. rewrite Hl by lia. reflexivity.
      * unfold flat_tree. simpl. apply andb_true_iff. split.
        -- apply Z.eqb_eq. symmetry. apply sum_count_leaves.
        -- apply forallb_forall. intros x Hx. apply in_map_iff in Hx. destruct Hx as [y [<- _]]. reflexivity.
Qed.

Lemma map_nth_seq {A} (l : list A) d : map (fun i => nth i l d) (seq 0 (length l)) = l.
Proof.
  induction l as [|x l IH]; [reflexivity|].
  simpl. f_equal. rewrite <- seq_shift, map_map. exact IH.
Qed.

Lemma map_nth_range {A} (l : list A) d :
  map (fun k => nth (Z.to_nat (k - 1)) l d) (page_range 1 (lenZ l)) = l.
Proof.
  unfold lenZ. rewrite page_range_zseq by lia. unfold zseq. rewrite map_map.
  replace (Z.to_nat (Z.of_nat (length l) - 1 + 1)) with (length l) by lia.
  rewrite <- (map_nth_seq l d) at 2. apply map_ext. intros i. f_equal. lia.
Qed.

(* the parts of any split whose ranges tile [1..n] reproduce, concatenated, every page of the original
   after ExtractPages' per-page copy *)
Lemma split_cover t parts : wf_count t = true ->
  Forall (fun p => 1 <= fst p <= snd p /\ snd p <= count_of t) parts ->
  concat (map rng parts) = page_range 1 (count_of t) ->
  exists docs, extract_parts t parts = Ok docs /\
    concat (map pages_of docs) = map xview (rpages t) /\
    Forall2 (fun doc p => lenZ (pages_of doc) = snd p - fst p + 1 /\ wf_count doc = true) docs parts.
Proof.
  intros Hwf Hall Hcat.
  set (d := (blank_page a4, no_attrs)).
  destruct (extract_parts_ok t d Hwf parts Hall) as [docs [He [Hc HF]]].
  exists docs. split; [assumption|]. split; [|assumption].
  rewrite Hc, Hcat. rewrite (wf_count_len t Hwf no_attrs).
  rewrite <- (map_map (fun k => nth (Z.to_nat (k - 1)) (rpages t) d) xview).
  unfold rpages at 1. rewrite (map_nth_range (resolve no_attrs t) d). reflexivity.
Qed.

Lemma xview_id r : v_id (xview r) = v_id (view r).
Proof. destruct r as [p a]. reflexivity. Qed.

(* the only requirement for a page to be reproduced by ExtractPages' copy: it has a MediaBox
   (required by the PDF specification and by pdfcpu's validation) *)
Definition xsafe (r : rpage) : Prop := a_media (snd r) <> None.

Definition npages_of (t : tree) : list vpage := map norm_view (pages_of t).

Definition own_consistent (r : rpage) : Prop :=
  exists inh, snd r = inherit inh (pg_attrs (fst r)).

Lemma resolve_own : forall t inh, Forall own_consistent (resolve inh t).
Proof.
  induction t as [p|a c kids IH] using tree_ind'; intros inh.
  - simpl. constructor; [|constructor]. exists inh. reflexivity.
  - simpl. induction IH as [|k ks Hk _ IHks]; simpl; [constructor|].
    apply Forall_app. split; [apply Hk|apply IHks].
Qed.

Lemma xview_safe r : own_consistent r -> xsafe r -> norm_view (xview r) = norm_view (view r).
Proof.
  destruct r as [p a]. intros [inh Hown] Hm. unfold xsafe in Hm. simpl in *.
  unfold xview, xres, view, xpage, norm_view. simpl.
  destruct (a_media a) as [m|] eqn:Em; [|congruence]. simpl.
  f_equal.
  - unfold rot_of at 1. simpl. destruct (Z.rem (rot_of a) 360 =? 0) eqn:E; simpl; [|reflexivity].
    apply Z.eqb_eq in E. subst a. unfold rot_of in *. simpl in *.
    destruct (a_rot (pg_attrs p)) as [r0|] eqn:Er; simpl in *; [reflexivity|].
    apply Z.rem_mod_eq_0 in E; [|lia]. rewrite E. reflexivity.
  - destruct (a_crop a) as [c|] eqn:Ec; simpl; [reflexivity|].
    subst a. simpl in Ec. destruct (a_crop (pg_attrs p)); [discriminate|reflexivity].
Qed.

Lemma map_xview_safe rs : Forall own_consistent rs -> Forall xsafe rs ->
  map norm_view (map xview rs) = map norm_view (map view rs).
Proof.
  intros Ho Hs. induction rs as [|r rs IH]; [reflexivity|].
  inversion Ho; inversion Hs; subst. simpl. rewrite xview_safe, IH by assumption. reflexivity.
Qed.
