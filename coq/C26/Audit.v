(* C26 — AUDITED tables of entry points (hand-maintained; no proofs).

   Which command mode does each entry point run under?  The permission check (handlePermissions ->
   hasNeededPermissions) is asked about conf.Cmd, which every pkg/api entry point sets itself.  These tables
   are a reviewed copy: each function appears with the CommandMode constant(s) its NAME and documentation
   say (getters such as Annotations, Keywords, PageMode are the LIST* commands; ExtractX is EXTRACTX; ...),
   and, for pkg/api, with the kind of thing the entry point does (Spec.kind, judged from the name / doc
   comment: Extract* / Collect / Split copy content out; Add* Remove* Set* ... write a changed document;
   NUp/Grid/Booklet/Cut/NDown/Poster/Export* derive documents or data; the rest inspects or manages security).
   Property.v proves that the tables regenerated from the source (Generated.api_entry_modes,
   cli_command_modes, cli_dispatch) are EQUAL to these, and that the kind of every entry point equals the
   kind Spec.v gives its command mode.  A changed constant in pkg/api or pkg/cli, a new entry point, or a
   removed one therefore breaks the proof until this file has been re-audited. *)
From Coq Require Import ZArith List String.
From PV Require Import C26.Generated C26.Spec.
Import ListNotations.
Open Scope Z_scope.

(* pkg/api: (function, (kind by name/doc, command modes)) sorted by function name *)
Definition audited_api : list (string * (kind * list Z)) :=
  [("AddAnnotations"%string, (KModify, [CM_ADDANNOTATIONS]));
   ("AddAnnotationsAsIncrement"%string, (KModify, [CM_ADDANNOTATIONS]));
   ("AddAnnotationsMap"%string, (KModify, [CM_ADDANNOTATIONS]));
   ("AddAnnotationsMapAsIncrement"%string, (KModify, [CM_ADDANNOTATIONS]));
   ("AddAttachments"%string, (KModify, [CM_ADDATTACHMENTS; CM_ADDATTACHMENTSPORTFOLIO]));
   ("AddBookmarks"%string, (KModify, [CM_ADDBOOKMARKS]));
   ("AddBoxes"%string, (KModify, [CM_ADDBOXES]));
   ("AddKeywords"%string, (KModify, [CM_ADDKEYWORDS]));
   ("AddProperties"%string, (KModify, [CM_ADDPROPERTIES]));
   ("AddWatermarks"%string, (KModify, [CM_ADDWATERMARKS]));
   ("AddWatermarksMap"%string, (KModify, [CM_ADDWATERMARKS]));
   ("AddWatermarksSliceMap"%string, (KModify, [CM_ADDWATERMARKS]));
   ("Annotations"%string, (KFree, [CM_LISTANNOTATIONS]));
   ("Attachments"%string, (KFree, [CM_LISTATTACHMENTS]));
   ("Booklet"%string, (KEither, [CM_BOOKLET]));
   ("BookletFromImages"%string, (KEither, [CM_BOOKLET]));
   ("Bookmarks"%string, (KFree, [CM_LISTBOOKMARKS]));
   ("ChangeOwnerPassword"%string, (KFree, [CM_CHANGEOPW]));
   ("ChangeUserPassword"%string, (KFree, [CM_CHANGEUPW]));
   ("Collect"%string, (KExtract, [CM_COLLECT]));
   ("Create"%string, (KModify, [CM_CREATE]));
   ("Crop"%string, (KModify, [CM_CROP]));
   ("Cut"%string, (KEither, [CM_CUT]));
   ("Decrypt"%string, (KFree, [CM_DECRYPT]));
   ("DecryptFile"%string, (KFree, [CM_DECRYPT]));
   ("Encrypt"%string, (KFree, [CM_ENCRYPT]));
   ("EncryptFile"%string, (KFree, [CM_ENCRYPT]));
   ("ExportBookmarksJSON"%string, (KEither, [CM_EXPORTBOOKMARKS]));
   ("ExportForm"%string, (KEither, [CM_EXPORTFORMFIELDS]));
   ("ExportFormJSON"%string, (KEither, [CM_EXPORTFORMFIELDS]));
   ("ExtractAttachmentsRaw"%string, (KExtract, [CM_EXTRACTATTACHMENTS]));
   ("ExtractContent"%string, (KExtract, [CM_EXTRACTCONTENT]));
   ("ExtractFonts"%string, (KExtract, [CM_EXTRACTFONTS]));
   ("ExtractImages"%string, (KExtract, [CM_EXTRACTIMAGES]));
   ("ExtractImagesRaw"%string, (KExtract, [CM_EXTRACTIMAGES]));
   ("ExtractMetadata"%string, (KExtract, [CM_EXTRACTMETADATA]));
   ("ExtractPages"%string, (KExtract, [CM_EXTRACTPAGES]));
   ("FillForm"%string, (KModify, [CM_FILLFORMFIELDS]));
   ("FormFields"%string, (KFree, [CM_LISTFORMFIELDS]));
   ("Grid"%string, (KEither, [CM_GRID]));
   ("GridFromImage"%string, (KEither, [CM_GRID]));
   ("ImportBookmarks"%string, (KModify, [CM_IMPORTBOOKMARKS]));
   ("ImportImages"%string, (KModify, [CM_IMPORTIMAGES]));
   ("InsertPages"%string, (KModify, [CM_INSERTPAGESBEFORE; CM_INSERTPAGESAFTER]));
   ("Keywords"%string, (KFree, [CM_LISTKEYWORDS]));
   ("ListBookmarks"%string, (KFree, [CM_LISTBOOKMARKS]));
   ("ListFormFields"%string, (KFree, [CM_LISTFORMFIELDS]));
   ("ListPageLayout"%string, (KFree, [CM_LISTPAGELAYOUT]));
   ("ListPageMode"%string, (KFree, [CM_LISTPAGEMODE]));
   ("ListViewerPreferences"%string, (KFree, [CM_LISTVIEWERPREFERENCES]));
   ("LockFormFields"%string, (KModify, [CM_LOCKFORMFIELDS]));
   ("MergeCreateZip"%string, (KModify, [CM_MERGECREATEZIP]));
   ("MergeRaw"%string, (KModify, [CM_MERGECREATE]));
   ("MultiFillForm"%string, (KModify, [CM_MULTIFILLFORMFIELDS]));
   ("NDown"%string, (KEither, [CM_NDOWN]));
   ("NUp"%string, (KEither, [CM_NUP]));
   ("NUpFromImage"%string, (KEither, [CM_NUP]));
   ("Optimize"%string, (KFree, [CM_OPTIMIZE]));
   ("OptimizeFile"%string, (KFree, [CM_OPTIMIZE]));
   ("PDFInfo"%string, (KFree, [CM_LISTINFO]));
   ("PageLayout"%string, (KFree, [CM_LISTPAGELAYOUT]));
   ("PageMode"%string, (KFree, [CM_LISTPAGEMODE]));
   ("Permissions"%string, (KFree, [CM_LISTPERMISSIONS]));
   ("Poster"%string, (KEither, [CM_POSTER]));
   ("Properties"%string, (KFree, [CM_LISTPROPERTIES]));
   ("RemoveAnnotations"%string, (KModify, [CM_REMOVEANNOTATIONS]));
   ("RemoveAnnotationsAsIncrement"%string, (KModify, [CM_REMOVEANNOTATIONS]));
   ("RemoveAttachments"%string, (KModify, [CM_REMOVEATTACHMENTS]));
   ("RemoveBookmarks"%string, (KModify, [CM_REMOVEBOOKMARKS]));
   ("RemoveBoxes"%string, (KModify, [CM_REMOVEBOXES]));
   ("RemoveFormFields"%string, (KModify, [CM_REMOVEFORMFIELDS]));
   ("RemoveKeywords"%string, (KModify, [CM_REMOVEKEYWORDS]));
   ("RemovePages"%string, (KModify, [CM_REMOVEPAGES]));
   ("RemoveProperties"%string, (KModify, [CM_REMOVEPROPERTIES]));
   ("RemoveSignatures"%string, (KModify, [CM_REMOVESIGNATURES]));
   ("RemoveWatermarks"%string, (KModify, [CM_REMOVEWATERMARKS]));
   ("ResetFormFields"%string, (KModify, [CM_RESETFORMFIELDS]));
   ("ResetPageLayout"%string, (KModify, [CM_RESETPAGELAYOUT]));
   ("ResetPageMode"%string, (KModify, [CM_RESETPAGEMODE]));
   ("ResetViewerPreferences"%string, (KModify, [CM_RESETVIEWERPREFERENCES]));
   ("Resize"%string, (KModify, [CM_RESIZE]));
   ("Rotate"%string, (KModify, [CM_ROTATE]));
   ("SetPageLayout"%string, (KModify, [CM_SETPAGELAYOUT]));
   ("SetPageMode"%string, (KModify, [CM_SETPAGEMODE]));
   ("SetPermissions"%string, (KFree, [CM_SETPERMISSIONS]));
   ("SetViewerPreferences"%string, (KModify, [CM_SETVIEWERPREFERENCES]));
   ("Trim"%string, (KModify, [CM_TRIM]));
   ("UnlockFormFields"%string, (KModify, [CM_UNLOCKFORMFIELDS]));
   ("UpdateImages"%string, (KModify, [CM_UPDATEIMAGES]));
   ("Validate"%string, (KFree, [CM_VALIDATE]));
   ("ViewerPreferences"%string, (KFree, [CM_LISTVIEWERPREFERENCES]));
   ("Zoom"%string, (KModify, [CM_ZOOM]));
   ("mergeConfiguration"%string, (KModify, [CM_MERGECREATE; CM_MERGEAPPEND]));
   ("prepareBoxListing"%string, (KFree, [CM_LISTBOXES]));
   ("prepareImagesContext"%string, (KFree, [CM_LISTIMAGES]));
   ("readSplitContext"%string, (KExtract, [CM_SPLIT]));
   ("validateSignaturesRaw"%string, (KFree, [CM_VALIDATESIGNATURES]))].

(* pkg/cli: (function, (modes assigned to conf.Cmd, modes given to Command.Mode)) sorted by function name.
   Dump and extractSelectedPageToStdout are handlers that set conf.Cmd themselves; all others are the
   <X>Command constructors. *)
Definition audited_cli_commands : list (string * (list Z * list Z)) :=
  [("AddAttachmentsCommand"%string, ([CM_ADDATTACHMENTS], [CM_ADDATTACHMENTS]));
   ("AddAttachmentsPortfolioCommand"%string, ([CM_ADDATTACHMENTSPORTFOLIO], [CM_ADDATTACHMENTSPORTFOLIO]));
   ("AddBoxesCommand"%string, ([CM_ADDBOXES], [CM_ADDBOXES]));
   ("AddKeywordsCommand"%string, ([CM_ADDKEYWORDS], [CM_ADDKEYWORDS]));
   ("AddPropertiesCommand"%string, ([CM_ADDPROPERTIES], [CM_ADDPROPERTIES]));
   ("AddWatermarksCommand"%string, ([CM_ADDWATERMARKS], [CM_ADDWATERMARKS]));
   ("BookletCommand"%string, ([CM_BOOKLET], [CM_BOOKLET]));
   ("ChangeOwnerPWCommand"%string, ([CM_CHANGEOPW], [CM_CHANGEOPW]));
   ("ChangeUserPWCommand"%string, ([CM_CHANGEUPW], [CM_CHANGEUPW]));
   ("CollectCommand"%string, ([CM_COLLECT], [CM_COLLECT]));
   ("CreateCheatSheetsFontsCommand"%string, ([CM_CHEATSHEETSFONTS], [CM_CHEATSHEETSFONTS]));
   ("CreateCommand"%string, ([CM_CREATE], [CM_CREATE]));
   ("CropCommand"%string, ([CM_CROP], [CM_CROP]));
   ("CutCommand"%string, ([CM_CUT], [CM_CUT]));
   ("DecryptCommand"%string, ([CM_DECRYPT], [CM_DECRYPT]));
   ("Dump"%string, ([CM_DUMP], []));
   ("DumpCommand"%string, ([CM_DUMP], [CM_DUMP]));
   ("EncryptCommand"%string, ([CM_ENCRYPT], [CM_ENCRYPT]));
   ("ExportBookmarksCommand"%string, ([CM_EXPORTBOOKMARKS], [CM_EXPORTBOOKMARKS]));
   ("ExportFormCommand"%string, ([CM_EXPORTFORMFIELDS], [CM_EXPORTFORMFIELDS]));
   ("ExtractAttachmentsCommand"%string, ([CM_EXTRACTATTACHMENTS], [CM_EXTRACTATTACHMENTS]));
   ("ExtractContentCommand"%string, ([CM_EXTRACTCONTENT], [CM_EXTRACTCONTENT]));
   ("ExtractFontsCommand"%string, ([CM_EXTRACTFONTS], [CM_EXTRACTFONTS]));
   ("ExtractImagesCommand"%string, ([CM_EXTRACTIMAGES], [CM_EXTRACTIMAGES]));
   ("ExtractMetadataCommand"%string, ([CM_EXTRACTMETADATA], [CM_EXTRACTMETADATA]));
   ("ExtractPagesCommand"%string, ([CM_EXTRACTPAGES], [CM_EXTRACTPAGES]));
   ("FillFormCommand"%string, ([CM_FILLFORMFIELDS], [CM_FILLFORMFIELDS]));
   ("GridCommand"%string, ([CM_GRID], [CM_GRID]));
   ("ImportBookmarksCommand"%string, ([CM_IMPORTBOOKMARKS], [CM_IMPORTBOOKMARKS]));
   ("ImportCertificatesCommand"%string, ([CM_IMPORTCERTIFICATES], [CM_IMPORTCERTIFICATES]));
   ("ImportImagesCommand"%string, ([CM_IMPORTIMAGES], [CM_IMPORTIMAGES]));
   ("InfoCommand"%string, ([CM_LISTINFO], [CM_LISTINFO]));
   ("InsertPagesCommand"%string, ([CM_INSERTPAGESBEFORE; CM_INSERTPAGESAFTER], [CM_INSERTPAGESBEFORE; CM_INSERTPAGESAFTER]));
   ("InspectCertificatesCommand"%string, ([CM_INSPECTCERTIFICATES], [CM_INSPECTCERTIFICATES]));
   ("InstallFontsCommand"%string, ([CM_INSTALLFONTS], [CM_INSTALLFONTS]));
   ("ListAttachmentsCommand"%string, ([CM_LISTATTACHMENTS], [CM_LISTATTACHMENTS]));
   ("ListBookmarksCommand"%string, ([CM_LISTBOOKMARKS], [CM_LISTBOOKMARKS]));
   ("ListBoxesCommand"%string, ([CM_LISTBOXES], [CM_LISTBOXES]));
   ("ListCertificatesCommand"%string, ([CM_LISTCERTIFICATES], [CM_LISTCERTIFICATES]));
   ("ListFontsCommand"%string, ([CM_LISTFONTS], [CM_LISTFONTS]));
   ("ListImagesCommand"%string, ([CM_LISTIMAGES], [CM_LISTIMAGES]));
   ("ListKeywordsCommand"%string, ([CM_LISTKEYWORDS], [CM_LISTKEYWORDS]));
   ("ListPageLayoutCommand"%string, ([CM_LISTPAGELAYOUT], [CM_LISTPAGELAYOUT]));
   ("ListPageModeCommand"%string, ([CM_LISTPAGEMODE], [CM_LISTPAGEMODE]));
   ("ListPermissionsCommand"%string, ([CM_LISTPERMISSIONS], [CM_LISTPERMISSIONS]));
   ("ListPropertiesCommand"%string, ([CM_LISTPROPERTIES], [CM_LISTPROPERTIES]));
   ("ListViewerPreferencesCommand"%string, ([CM_LISTVIEWERPREFERENCES], [CM_LISTVIEWERPREFERENCES]));
   ("LockFormCommand"%string, ([CM_LOCKFORMFIELDS], [CM_LOCKFORMFIELDS]));
   ("MergeAppendCommand"%string, ([CM_MERGEAPPEND], [CM_MERGEAPPEND]));
   ("MergeCreateCommand"%string, ([CM_MERGECREATE], [CM_MERGECREATE]));
   ("MergeCreateZipCommand"%string, ([CM_MERGECREATEZIP], [CM_MERGECREATEZIP]));
   ("MultiFillFormCommand"%string, ([CM_MULTIFILLFORMFIELDS], [CM_MULTIFILLFORMFIELDS]));
   ("NDownCommand"%string, ([CM_NDOWN], [CM_NDOWN]));
   ("NUpCommand"%string, ([CM_NUP], [CM_NUP]));
   ("OptimizeCommand"%string, ([CM_OPTIMIZE], [CM_OPTIMIZE]));
   ("PosterCommand"%string, ([CM_POSTER], [CM_POSTER]));
   ("RemoveAnnotationsCommand"%string, ([CM_REMOVEANNOTATIONS], [CM_REMOVEANNOTATIONS]));
   ("RemoveAttachmentsCommand"%string, ([CM_REMOVEATTACHMENTS], [CM_REMOVEATTACHMENTS]));
   ("RemoveBookmarksCommand"%string, ([CM_REMOVEBOOKMARKS], [CM_REMOVEBOOKMARKS]));
   ("RemoveBoxesCommand"%string, ([CM_REMOVEBOXES], [CM_REMOVEBOXES]));
   ("RemoveFormFieldsCommand"%string, ([CM_REMOVEFORMFIELDS], [CM_REMOVEFORMFIELDS]));
   ("RemoveKeywordsCommand"%string, ([CM_REMOVEKEYWORDS], [CM_REMOVEKEYWORDS]));
   ("RemovePagesCommand"%string, ([CM_REMOVEPAGES], [CM_REMOVEPAGES]));
   ("RemovePropertiesCommand"%string, ([CM_REMOVEPROPERTIES], [CM_REMOVEPROPERTIES]));
   ("RemoveSignaturesCommand"%string, ([CM_REMOVESIGNATURES], [CM_REMOVESIGNATURES]));
   ("RemoveWatermarksCommand"%string, ([CM_REMOVEWATERMARKS], [CM_REMOVEWATERMARKS]));
   ("ResetFormCommand"%string, ([CM_RESETFORMFIELDS], [CM_RESETFORMFIELDS]));
   ("ResetPageLayoutCommand"%string, ([CM_RESETPAGELAYOUT], [CM_RESETPAGELAYOUT]));
   ("ResetPageModeCommand"%string, ([CM_RESETPAGEMODE], [CM_RESETPAGEMODE]));
   ("ResetViewerPreferencesCommand"%string, ([CM_RESETVIEWERPREFERENCES], [CM_RESETVIEWERPREFERENCES]));
   ("ResizeCommand"%string, ([CM_RESIZE], [CM_RESIZE]));
   ("RotateCommand"%string, ([CM_ROTATE], [CM_ROTATE]));
   ("SetPageLayoutCommand"%string, ([CM_SETPAGELAYOUT], [CM_SETPAGELAYOUT]));
   ("SetPageModeCommand"%string, ([CM_SETPAGEMODE], [CM_SETPAGEMODE]));
   ("SetPermissionsCommand"%string, ([CM_SETPERMISSIONS], [CM_SETPERMISSIONS]));
   ("SetViewerPreferencesCommand"%string, ([CM_SETVIEWERPREFERENCES], [CM_SETVIEWERPREFERENCES]));
   ("SplitByPageNrCommand"%string, ([CM_SPLITBYPAGENR], [CM_SPLITBYPAGENR]));
   ("SplitCommand"%string, ([CM_SPLIT], [CM_SPLIT]));
   ("TrimCommand"%string, ([CM_TRIM], [CM_TRIM]));
   ("UnlockFormCommand"%string, ([CM_UNLOCKFORMFIELDS], [CM_UNLOCKFORMFIELDS]));
   ("UpdateImagesCommand"%string, ([CM_UPDATEIMAGES], [CM_UPDATEIMAGES]));
   ("ValidateCommand"%string, ([CM_VALIDATE], [CM_VALIDATE]));
   ("ValidateSignaturesCommand"%string, ([CM_VALIDATESIGNATURES], [CM_VALIDATESIGNATURES]));
   ("ZoomCommand"%string, ([CM_ZOOM], [CM_ZOOM]));
   ("extractSelectedPageToStdout"%string, ([CM_EXTRACTPAGES], []));
   ("listAnnotationsCommand"%string, ([CM_LISTANNOTATIONS], [CM_LISTANNOTATIONS]));
   ("listFormFieldsCommand"%string, ([CM_LISTFORMFIELDS], [CM_LISTFORMFIELDS]))].

(* pkg/cli/dispatch.go dispatchTable: (command mode, handler) in source order *)
Definition audited_cli_dispatch : list (Z * string) :=
  [(CM_VALIDATE, "Validate"%string);
   (CM_OPTIMIZE, "Optimize"%string);
   (CM_LISTINFO, "ListInfo"%string);
   (CM_DUMP, "Dump"%string);
   (CM_CREATE, "Create"%string);
   (CM_MERGECREATE, "MergeCreate"%string);
   (CM_MERGECREATEZIP, "MergeCreateZip"%string);
   (CM_MERGEAPPEND, "MergeAppend"%string);
   (CM_SPLIT, "Split"%string);
   (CM_SPLITBYPAGENR, "SplitByPageNr"%string);
   (CM_TRIM, "Trim"%string);
   (CM_COLLECT, "Collect"%string);
   (CM_INSERTPAGESBEFORE, "dispatchPages"%string);
   (CM_INSERTPAGESAFTER, "dispatchPages"%string);
   (CM_REMOVEPAGES, "dispatchPages"%string);
   (CM_ROTATE, "Rotate"%string);
   (CM_NUP, "NUp"%string);
   (CM_GRID, "Grid"%string);
   (CM_BOOKLET, "Booklet"%string);
   (CM_RESIZE, "Resize"%string);
   (CM_POSTER, "Poster"%string);
   (CM_NDOWN, "NDown"%string);
   (CM_CUT, "Cut"%string);
   (CM_CROP, "dispatchPageBoundaries"%string);
   (CM_ZOOM, "Zoom"%string);
   (CM_ADDWATERMARKS, "AddWatermarks"%string);
   (CM_REMOVEWATERMARKS, "RemoveWatermarks"%string);
   (CM_LISTANNOTATIONS, "dispatchPageAnnotations"%string);
   (CM_REMOVEANNOTATIONS, "dispatchPageAnnotations"%string);
   (CM_LISTBOOKMARKS, "dispatchBookmarks"%string);
   (CM_EXPORTBOOKMARKS, "dispatchBookmarks"%string);
   (CM_IMPORTBOOKMARKS, "dispatchBookmarks"%string);
   (CM_REMOVEBOOKMARKS, "dispatchBookmarks"%string);
   (CM_LISTPAGEMODE, "dispatchPageMode"%string);
   (CM_SETPAGEMODE, "dispatchPageMode"%string);
   (CM_RESETPAGEMODE, "dispatchPageMode"%string);
   (CM_LISTPAGELAYOUT, "dispatchPageLayout"%string);
   (CM_SETPAGELAYOUT, "dispatchPageLayout"%string);
   (CM_RESETPAGELAYOUT, "dispatchPageLayout"%string);
   (CM_LISTVIEWERPREFERENCES, "dispatchViewerPreferences"%string);
   (CM_SETVIEWERPREFERENCES, "dispatchViewerPreferences"%string);
   (CM_RESETVIEWERPREFERENCES, "dispatchViewerPreferences"%string);
   (CM_IMPORTIMAGES, "ImportImages"%string);
   (CM_CHEATSHEETSFONTS, "CreateCheatSheetsFonts"%string);
   (CM_INSTALLFONTS, "InstallFonts"%string);
   (CM_LISTFONTS, "ListFonts"%string);
   (CM_LISTIMAGES, "dispatchImages"%string);
   (CM_UPDATEIMAGES, "dispatchImages"%string);
   (CM_LISTATTACHMENTS, "dispatchAttachments"%string);
   (CM_ADDATTACHMENTS, "dispatchAttachments"%string);
   (CM_ADDATTACHMENTSPORTFOLIO, "dispatchAttachments"%string);
   (CM_REMOVEATTACHMENTS, "dispatchAttachments"%string);
   (CM_EXTRACTATTACHMENTS, "dispatchAttachments"%string);
   (CM_LISTKEYWORDS, "dispatchKeywords"%string);
   (CM_ADDKEYWORDS, "dispatchKeywords"%string);
   (CM_REMOVEKEYWORDS, "dispatchKeywords"%string);
   (CM_LISTPROPERTIES, "dispatchProperties"%string);
   (CM_ADDPROPERTIES, "dispatchProperties"%string);
   (CM_REMOVEPROPERTIES, "dispatchProperties"%string);
   (CM_LISTBOXES, "dispatchPageBoundaries"%string);
   (CM_ADDBOXES, "dispatchPageBoundaries"%string);
   (CM_REMOVEBOXES, "dispatchPageBoundaries"%string);
   (CM_EXTRACTIMAGES, "ExtractImages"%string);
   (CM_EXTRACTFONTS, "ExtractFonts"%string);
   (CM_EXTRACTPAGES, "ExtractPages"%string);
   (CM_EXTRACTCONTENT, "ExtractContent"%string);
   (CM_EXTRACTMETADATA, "ExtractMetadata"%string);
   (CM_LISTFORMFIELDS, "dispatchForm"%string);
   (CM_REMOVEFORMFIELDS, "dispatchForm"%string);
   (CM_LOCKFORMFIELDS, "dispatchForm"%string);
   (CM_UNLOCKFORMFIELDS, "dispatchForm"%string);
   (CM_RESETFORMFIELDS, "dispatchForm"%string);
   (CM_EXPORTFORMFIELDS, "dispatchForm"%string);
   (CM_FILLFORMFIELDS, "dispatchForm"%string);
   (CM_MULTIFILLFORMFIELDS, "dispatchForm"%string);
   (CM_ENCRYPT, "dispatchEncryption"%string);
   (CM_DECRYPT, "dispatchEncryption"%string);
   (CM_CHANGEUPW, "dispatchEncryption"%string);
   (CM_CHANGEOPW, "dispatchEncryption"%string);
   (CM_LISTPERMISSIONS, "dispatchPermissions"%string);
   (CM_SETPERMISSIONS, "dispatchPermissions"%string);
   (CM_LISTCERTIFICATES, "dispatchCertificates"%string);
   (CM_INSPECTCERTIFICATES, "dispatchCertificates"%string);
   (CM_IMPORTCERTIFICATES, "dispatchCertificates"%string);
   (CM_VALIDATESIGNATURES, "dispatchSignatures"%string);
   (CM_REMOVESIGNATURES, "dispatchSignatures"%string)].
