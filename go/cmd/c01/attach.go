package main

import (
	"fmt"
	"os"
	"path/filepath"
	"strings"

	"github.com/pdfcpu/pdfcpu/pkg/api"
	"github.com/pdfcpu/pdfcpu/pkg/log"
	"verif/vh"
)

// (b'') attachment extraction: api.ExtractAttachmentsFile / api.ExtractAttachments on PDFs with 1..4
// attachments where one attachment cannot be extracted, at every position:
//   long:   a legal 219..255-byte attachment name: the hidden reservation marker
//           `.<name>.pdfcpu-reservation-<token>` exceeds NAME_MAX (fails in the reservation phase);
//   dir:    the attachment's name is an existing directory of the output directory (fails in the write phase);
// plus a sweep of name lengths 200..255 and a panicking logger at log-call indices.
// Oracle: directory snapshot before/after (hidden files included): when the call does not return nil no
// reservation marker and no staging file may remain and bystanders are intact; completed earlier
// attachments that stay are the documented multi-output class.

type atCase struct {
	entry string // ExtractAttachmentsFile | ExtractAttachments
	n     int    // attachments
	bad   int    // 1-based position (in extraction order) of the failing attachment, 0 = none
	kind  string // long | dir | none
	blen  int    // length of the long name
	at    int    // panic at this log call (-1 none)
}

func (c atCase) input() map[string]any {
	return map[string]any{"part": "attachments", "entry": c.entry, "attachments": c.n, "failing_position": c.bad,
		"kind": c.kind, "name_length": c.blen, "panic_at_log_call": c.at}
}

// attachment names sort by their first byte: position i gets prefix 'a'+i
func atName(i int, c atCase) string {
	p := string(rune('a' + i))
	if i+1 == c.bad {
		switch c.kind {
		case "long":
			return p + strings.Repeat("x", c.blen-5) + ".txt"
		case "dir":
			return p + "_is_a_directory"
		}
	}
	return fmt.Sprintf("%s_att%d.txt", p, i+1)
}

// build a PDF with the attachments of case c; returns its path and the extraction order of the names
func buildAttachPDF(r *vh.Run, small, work string, c atCase) (string, []string) {
	os.RemoveAll(work)
	os.MkdirAll(work, 0o755)
	var files []string
	for i := 0; i < c.n; i++ {
		f := filepath.Join(work, atName(i, c))
		if err := os.WriteFile(f, []byte(fmt.Sprintf("attachment %d payload", i+1)), 0o644); err != nil {
			panic(err)
		}
		files = append(files, f)
	}
	pdf := filepath.Join(work, "with-attachments.pdf")
	if err := api.AddAttachmentsFile(small, pdf, files, false, nil); err != nil {
		panic("cannot build the attachment sample: " + err.Error())
	}
	f, err := os.Open(pdf)
	if err != nil {
		panic(err)
	}
	defer f.Close()
	aa, err := api.Attachments(f, nil)
	if err != nil {
		panic("cannot list attachments: " + err.Error())
	}
	var order []string
	for _, a := range aa {
		order = append(order, a.FileName)
	}
	return pdf, order
}

func runAT(r *vh.Run, n int, pdf string, c atCase) wholeResult {
	dir := mkdir(r, "t", n)
	defer os.RemoveAll(dir)
	in := filepath.Join(dir, "in.pdf")
	copyFile(pdf, in, 0o644)
	os.WriteFile(filepath.Join(dir, "other.dat"), []byte("other"), 0o600)
	if c.kind == "dir" && c.bad > 0 {
		d := filepath.Join(dir, atName(c.bad-1, c))
		os.MkdirAll(d, 0o755)
		os.WriteFile(filepath.Join(d, "inside.dat"), []byte("inside"), 0o600)
	}
	res := wholeResult{ctl: "ok", before: rawSnapshot(dir)}
	l := &panicLogger{at: c.at}
	install(l)
	func() {
		defer func() {
			if p := recover(); p != nil {
				res.ctl = "panic"
				res.msg = fmt.Sprint(p)
			}
		}()
		var err error
		if c.entry == "ExtractAttachmentsFile" {
			err = api.ExtractAttachmentsFile(in, dir, nil, nil)
		} else {
			f, oerr := os.Open(in)
			if oerr != nil {
				panic(oerr)
			}
			defer f.Close()
			err = api.ExtractAttachments(f, dir, nil, nil)
		}
		if err != nil {
			res.ctl = "err"
			res.msg = err.Error()
		}
	}()
	log.DisableLoggers()
	res.calls = l.n
	res.after = rawSnapshot(dir)
	return res
}

func classifyAT(c atCase, res wholeResult) string {
	b := map[string]bool{}
	bl := map[string]string{}
	for _, e := range strings.Split(res.before, ";") {
		name := strings.SplitN(e, ":", 2)[0]
		b[name] = true
		bl[name] = e
	}
	marker, staging, damaged, parts := false, false, false, 0
	for _, e := range strings.Split(res.after, ";") {
		name := strings.SplitN(e, ":", 2)[0]
		existed := b[name]
		delete(b, name)
		switch {
		case strings.Contains(name, ".pdfcpu-reservation-"):
			marker = true
		case strings.Contains(name, ".tmp-"):
			staging = true
		case existed && bl[name] != e:
			damaged = true
		case !existed:
			parts++
		}
	}
	if len(b) > 0 {
		damaged = true
	}
	cause := "failure"
	if res.ctl == "panic" {
		cause = "panic"
	}
	switch {
	case damaged:
		return cause + "-damages-existing-file:" + c.entry
	case marker:
		return cause + "-leaks-reservation:" + c.entry
	case staging:
		return cause + "-leaks-staging:" + c.entry
	case parts > 0 && cause == "panic":
		return "panic-multi-output-leaves-parts:" + c.entry
	case parts > 0:
		return "multi-output-keeps-earlier-parts:" + c.entry
	}
	return cause + "-leaves-files:" + c.entry
}

func partAttachments(r *vh.Run) {
	repo := os.Getenv("VERIF_REPO")
	if repo == "" {
		repo = "/repo"
	}
	small := filepath.Join(repo, "pkg/testdata/test.pdf")
	work := mkdir(r, "twork", 0)
	defer os.RemoveAll(work)
	n := 0
	check := func(c atCase, res wholeResult) {
		r.Count(fmt.Sprintf("at:%s:%s:%s", c.entry, c.kind, res.ctl))
		if res.ctl == "ok" {
			if c.bad != 0 && !(c.kind == "long" && c.blen < 219) {
				r.OracleFail("attachments-bad-name-accepted:"+c.entry, c.input(), "extraction succeeded although one attachment cannot be written")
			} else {
				r.OracleOK()
			}
			return
		}
		if c.bad == 0 && c.at < 0 {
			r.OracleFail("attachments-good-data-fails:"+c.entry, c.input(), res.msg)
			return
		}
		if res.after != res.before {
			r.OracleFail(classifyAT(c, res), c.input(), fmt.Sprintf("result=%s (%s) before=%s after=%s", res.ctl, res.msg, res.before, res.after))
		} else {
			r.OracleOK()
		}
	}
	run := func(c atCase) {
		pdf, order := buildAttachPDF(r, small, work, c)
		// the failing position is meant in extraction order: check the assumption about the order
		for i := range order {
			if order[i] != atName(i, c) {
				panic(fmt.Sprintf("unexpected attachment order %v", order))
			}
		}
		n++
		check(c, runAT(r, n, pdf, c))
	}
	for _, entry := range []string{"ExtractAttachmentsFile", "ExtractAttachments"} {
		for cnt := 1; cnt <= 4; cnt++ {
			if entry == "ExtractAttachments" && !r.Thorough() && cnt != 3 {
				continue
			}
			run(atCase{entry, cnt, 0, "none", 0, -1})
			for bad := 1; bad <= cnt; bad++ {
				for _, blen := range []int{219, 255} {
					run(atCase{entry, cnt, bad, "long", blen, -1})
				}
				run(atCase{entry, cnt, bad, "dir", 0, -1})
			}
		}
		// name lengths 200..255 for the last of three attachments
		step := r.Pick(5, 1)
		for blen := 200; blen <= 255; blen += step {
			run(atCase{entry, 3, 3, "long", blen, -1})
		}
		// panic at every log call of a 3-attachment extraction
		if entry == "ExtractAttachments" && !r.Thorough() {
			continue
		}
		base := atCase{entry, 3, 0, "none", 0, -1}
		pdf, _ := buildAttachPDF(r, small, work, base)
		n++
		rec := runAT(r, n, pdf, base)
		if rec.ctl != "ok" {
			continue
		}
		limit := r.Pick(40, 400)
		for i := 0; i < rec.calls && i < limit; i++ {
			c := base
			c.at = i
			n++
			check(c, runAT(r, n, pdf, c))
		}
		for i := rec.calls - 12; i < rec.calls; i++ {
			if i >= limit {
				c := base
				c.at = i
				n++
				check(c, runAT(r, n, pdf, c))
			}
		}
	}
}
