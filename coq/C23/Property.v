(* C23 — Encrypted output reveals no document plaintext (structural statement; no claim of
   cryptographic hiding: "the ciphertext does not contain the marker" is not a theorem).
   Property theorems only. *)
From Coq Require Import ZArith NArith List Bool.
From PV Require Import Lib.GoInt C22.Model C22.Proofs C23.Model C23.Proofs.
Import ListNotations.

(* encryptDeepObject: at every path, the output holds the encryption of what the input holds there;
   for a string leaf this is the cipher applied exactly once to its bytes.  The only exemption is
   below the /Contents entry of a dictionary whose FT (or, without FT, Type) is Sig or DocTimeStamp,
   where the input is kept. *)
Theorem C23_every_string_leaf_enciphered : forall E p o o' b,
  encryptDeep E o = Ok o' -> exempt o p = false ->
  (get o p = Some (OStr b) -> exists c, E b = Ok c /\ get o' p = Some (OStr c)) /\
  (get o p = Some (OHex b) -> exists c, E b = Ok c /\ get o' p = Some (OHex c)).
Proof. exact string_leaf_enciphered. Qed.
Print Assumptions C23_every_string_leaf_enciphered.

Theorem C23_subobject_enciphered : forall E p o o' x,
  encryptDeep E o = Ok o' -> get o p = Some x ->
  if exempt o p then get o' p = Some x
  else exists x', get o' p = Some x' /\ encryptDeep E x = Ok x'.
Proof. exact subobject_enciphered. Qed.
Print Assumptions C23_subobject_enciphered.

Theorem C23_shape_kept : forall E p o o', encryptDeep E o = Ok o' -> get o p = None -> get o' p = None.
Proof. exact shape_kept. Qed.
Print Assumptions C23_shape_kept.

(* The writer with a key set (writeIndirectObject + writeObjectGeneric / writeFlatObject): whatever is
   emitted for an indirect object is covered: top-level objects and stream dictionaries leaf by leaf as
   above, stream data by the stream cipher except xref streams and Crypt-only filter pipelines,
   object-stream members by the enclosing object stream, and members of the input's object streams that
   were never decoded (ILazy) after being decoded (decoded io).  No exclusion. *)
Theorem C23_emitted_covered : forall strE stmE to_os io e,
  write_iobj true strE stmE to_os io = Ok e -> covered strE stmE to_os (decoded io) e.
Proof. exact emitted_covered. Qed.
Print Assumptions C23_emitted_covered.

(* streams: everything but xref streams and Crypt-only pipelines — XMP metadata included, since the
   writer has no EncryptMetadata=false mode; an object stream (Type ObjStm, filter Flate) included,
   which covers the members placed in it in clear *)
Theorem C23_every_stream_enciphered : forall strE stmE to_os d filters raw d' raw',
  write_iobj true strE stmE to_os (IStream d filters raw) = Ok (EmTopStream d' raw') ->
  type_is nXRef d = false -> skips_crypt filters = false -> stmE raw = Ok raw'.
Proof. exact stream_data_enciphered. Qed.
Print Assumptions C23_every_stream_enciphered.

(* an undecoded member is emitted as the encryption of the decoded object when a key is set; without a
   key it is written exactly like the decoded object (there is no verbatim fast path any more) *)
Theorem C23_lazy_enciphered : forall strE stmE o e,
  write_iobj true strE stmE false (ILazy o) = Ok e ->
  exists o', e = EmTop o' /\ encryptDeep strE o = Ok o'.
Proof. exact lazy_enciphered. Qed.
Print Assumptions C23_lazy_enciphered.

Theorem C23_lazy_unkeyed_decoded : forall strE stmE to_os o,
  write_iobj false strE stmE to_os (ILazy o) = write_plain to_os (IObj o).
Proof. exact lazy_unkeyed_decoded. Qed.
Print Assumptions C23_lazy_unkeyed_decoded.

(* non-vacuity: a path to a covered leaf, a path to an exempt leaf, a nested non-signature /Contents *)
Example C23_nonvacuous :
  let o := ODict [(kType, OName nSig); (kContents, OHex [1%N]);
                  ([65%N], OArr [OStr [2%N]; ODict [(kContents, OStr [3%N])]])] in
  exempt o [SKey 1] = true /\ get o [SKey 1] = Some (OHex [1%N]) /\
  exempt o [SKey 2; SIdx 0] = false /\ get o [SKey 2; SIdx 0] = Some (OStr [2%N]) /\
  exempt o [SKey 2; SIdx 1; SKey 0] = false /\
  leaves 10 false o = [(true, [1%N]); (false, [2%N]); (false, [3%N])].
Proof. vm_compute. repeat split; reflexivity. Qed.
