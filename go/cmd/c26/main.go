package main

import (
	"bytes"
	"errors"
	"fmt"
	"io"
	"os"

	"github.com/pdfcpu/pdfcpu/pkg/api"
	"github.com/pdfcpu/pdfcpu/pkg/pdfcpu"
	"github.com/pdfcpu/pdfcpu/pkg/pdfcpu/model"
)

func main() {
	api.DisableConfigDir()
	src, err := os.ReadFile("/repo/pkg/testdata/testWithText.pdf")
	if err != nil {
		panic(err)
	}
	for _, kl := range []struct {
		aes bool
		l   int
	}{{false, 40}, {false, 128}, {true, 128}, {true, 256}} {
		for _, perm := range []model.PermissionFlags{model.PermissionsNone, model.PermissionsAll, model.PermissionsNone | model.PermissionExtract | model.PermissionExtractRev3, model.PermissionsNone | model.PermissionModify | model.PermissionAssembleRev3} {
			conf := model.NewDefaultConfiguration()
			conf.UserPW = "upw"
			conf.OwnerPW = "opw"
			conf.EncryptUsingAES = kl.aes
			conf.EncryptKeyLength = kl.l
			conf.Permissions = perm
			var enc bytes.Buffer
			if err := api.Encrypt(bytes.NewReader(src), &enc, conf); err != nil {
				fmt.Println("encrypt", kl, perm, err)
				continue
			}
			run := func(name string, f func(c *model.Configuration) error) {
				c := model.NewDefaultConfiguration()
				c.UserPW = "upw"
				err := f(c)
				fmt.Printf("aes=%v len=%d perm=%04x %-14s denied=%v err=%v\n", kl.aes, kl.l, int(perm), name, errors.Is(err, pdfcpu.ErrPermissionDenied), err)
			}
			b := enc.Bytes()
			run("info", func(c *model.Configuration) error { _, err := api.PDFInfo(bytes.NewReader(b), "x", nil, false, c); return err })
			run("extractContent", func(c *model.Configuration) error {
				return api.ExtractContent(bytes.NewReader(b), nil, func(r io.Reader, n int) error { return nil }, c)
			})
			run("rotate", func(c *model.Configuration) error { return api.Rotate(bytes.NewReader(b), &bytes.Buffer{}, 90, nil, c) })
			run("resize", func(c *model.Configuration) error {
				return api.Resize(bytes.NewReader(b), &bytes.Buffer{}, nil, &model.Resize{Scale: 0.5}, c)
			})
			run("optimize", func(c *model.Configuration) error { return api.Optimize(bytes.NewReader(b), &bytes.Buffer{}, c) })
			run("decrypt", func(c *model.Configuration) error { return api.Decrypt(bytes.NewReader(b), &bytes.Buffer{}, c) })
		}
	}
}
