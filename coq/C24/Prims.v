(* C24 — primitives shared by the code model and the specification model: bytes, MD5 (RFC 1321) and RC4,
   concretely in Gallina over N.  No proofs in this file (test vectors are in Proofs.v). *)
From Coq Require Import NArith ZArith List Bool.
Import ListNotations.
Open Scope N_scope.

Definition bytes := list N.

Definition len (b : bytes) : N := N.of_nat (length b).
Definition take (n : N) (b : bytes) : bytes := firstn (N.to_nat n) b.
Definition drop (n : N) (b : bytes) : bytes := skipn (N.to_nat n) b.

Fixpoint beq (a b : bytes) : bool :=
  match a, b with
  | [], [] => true
  | x :: a', y :: b' => (x =? y) && beq a' b'
  | _, _ => false
  end.

Definition wf_bytes (b : bytes) : bool := forallb (fun x => x <? 256) b.

Fixpoint xor_bytes (a b : bytes) : bytes :=
  match a, b with
  | x :: a', y :: b' => N.lxor x y :: xor_bytes a' b'
  | _, _ => []
  end.

(* ------------------------------------------------------------------ MD5 *)
Definition mask32 : N := 0xFFFFFFFF.
Definition add32 (a b : N) : N := N.land (a + b) mask32.
Definition not32 (a : N) : N := N.lxor (N.land a mask32) mask32.
Definition rotl32 (x s : N) : N := N.land (N.lor (N.shiftl x s) (N.shiftr x (32 - s))) mask32.

(* (round function 0..3, K[i], message word index g, shift s) for i = 0..63; K[i] = floor(2^32 * |sin(i+1)|) *)
Definition md5_table : list (N * N * N * N) :=
  [
   (0, 0xd76aa478, 0, 7); (0, 0xe8c7b756, 1, 12); (0, 0x242070db, 2, 17);
   (0, 0xc1bdceee, 3, 22); (0, 0xf57c0faf, 4, 7); (0, 0x4787c62a, 5, 12);
   (0, 0xa8304613, 6, 17); (0, 0xfd469501, 7, 22); (0, 0x698098d8, 8, 7);
   (0, 0x8b44f7af, 9, 12); (0, 0xffff5bb1, 10, 17); (0, 0x895cd7be, 11, 22);
   (0, 0x6b901122, 12, 7); (0, 0xfd987193, 13, 12); (0, 0xa679438e, 14, 17);
   (0, 0x49b40821, 15, 22); (1, 0xf61e2562, 1, 5); (1, 0xc040b340, 6, 9);
   (1, 0x265e5a51, 11, 14); (1, 0xe9b6c7aa, 0, 20); (1, 0xd62f105d, 5, 5);
   (1, 0x02441453, 10, 9); (1, 0xd8a1e681, 15, 14); (1, 0xe7d3fbc8, 4, 20);
   (1, 0x21e1cde6, 9, 5); (1, 0xc33707d6, 14, 9); (1, 0xf4d50d87, 3, 14);
   (1, 0x455a14ed, 8, 20); (1, 0xa9e3e905, 13, 5); (1, 0xfcefa3f8, 2, 9);
   (1, 0x676f02d9, 7, 14); (1, 0x8d2a4c8a, 12, 20); (2, 0xfffa3942, 5, 4);
   (2, 0x8771f681, 8, 11); (2, 0x6d9d6122, 11, 16); (2, 0xfde5380c, 14, 23);
   (2, 0xa4beea44, 1, 4); (2, 0x4bdecfa9, 4, 11); (2, 0xf6bb4b60, 7, 16);
   (2, 0xbebfbc70, 10, 23); (2, 0x289b7ec6, 13, 4); (2, 0xeaa127fa, 0, 11);
   (2, 0xd4ef3085, 3, 16); (2, 0x04881d05, 6, 23); (2, 0xd9d4d039, 9, 4);
   (2, 0xe6db99e5, 12, 11); (2, 0x1fa27cf8, 15, 16); (2, 0xc4ac5665, 2, 23);
   (3, 0xf4292244, 0, 6); (3, 0x432aff97, 7, 10); (3, 0xab9423a7, 14, 15);
   (3, 0xfc93a039, 5, 21); (3, 0x655b59c3, 12, 6); (3, 0x8f0ccc92, 3, 10);
   (3, 0xffeff47d, 10, 15); (3, 0x85845dd1, 1, 21); (3, 0x6fa87e4f, 8, 6);
   (3, 0xfe2ce6e0, 15, 10); (3, 0xa3014314, 6, 15); (3, 0x4e0811a1, 13, 21);
   (3, 0xf7537e82, 4, 6); (3, 0xbd3af235, 11, 10); (3, 0x2ad7d2bb, 2, 15);
   (3, 0xeb86d391, 9, 21)].

Definition md5_f (kind b c d : N) : N :=
  match kind with
  | 0 => N.lor (N.land b c) (N.land (not32 b) d)
  | 1 => N.lor (N.land b d) (N.land c (not32 d))
  | 2 => N.lxor b (N.lxor c d)
  | _ => N.lxor c (N.lor b (not32 d))
  end.

Definition md5_state := (N * N * N * N)%type.

Definition md5_init : md5_state := (0x67452301, 0xefcdab89, 0x98badcfe, 0x10325476).

Definition md5_round (m : list N) (st : md5_state) (row : N * N * N * N) : md5_state :=
  let '(a, b, c, d) := st in
  let '(kind, k, g, s) := row in
  let f := add32 (add32 (add32 (md5_f kind b c d) a) k) (nth (N.to_nat g) m 0) in
  (d, add32 b (rotl32 f s), b, c).

(* little-endian 32-bit words of a byte string whose length is a multiple of 4 *)
Fixpoint words_le (l : bytes) : list N :=
  match l with
  | a :: b :: c :: d :: r => (a + 256 * b + 65536 * c + 16777216 * d) :: words_le r
  | _ => []
  end.

Definition bytes_le32 (w : N) : bytes :=
  [N.land w 255; N.land (N.shiftr w 8) 255; N.land (N.shiftr w 16) 255; N.land (N.shiftr w 24) 255].

Definition md5_compress (st : md5_state) (block : bytes) : md5_state :=
  let m := words_le block in
  let '(a0, b0, c0, d0) := st in
  let '(a, b, c, d) := fold_left (md5_round m) md5_table st in
  (add32 a0 a, add32 b0 b, add32 c0 c, add32 d0 d).

(* feed bytes, compressing whenever 64 have accumulated; buf is the current partial block, reversed *)
Fixpoint md5_feed (st : md5_state) (buf : bytes) (n : N) (l : bytes) : md5_state * bytes * N :=
  match l with
  | [] => (st, buf, n)
  | x :: l' =>
    if n + 1 =? 64 then md5_feed (md5_compress st (rev (x :: buf))) [] 0 l'
    else md5_feed st (x :: buf) (n + 1) l'
  end.

Definition zeros (n : N) : bytes := repeat 0 (N.to_nat n).

(* 0x80, zeros up to 56 mod 64, bit length as 64-bit little endian *)
Definition md5_padding (msglen : N) : bytes :=
  let r := (msglen + 1) mod 64 in
  let z := if r <=? 56 then 56 - r else 120 - r in
  let bits := msglen * 8 in
  0x80 :: zeros z ++ bytes_le32 (N.land bits mask32) ++ bytes_le32 (N.land (N.shiftr bits 32) mask32).

Definition md5 (msg : bytes) : bytes :=
  let '(st, _, _) := md5_feed md5_init [] 0 (msg ++ md5_padding (len msg)) in
  let '(a, b, c, d) := st in
  bytes_le32 a ++ bytes_le32 b ++ bytes_le32 c ++ bytes_le32 d.

(* ------------------------------------------------------------------ RC4 *)
Definition nthN (l : list N) (i : N) : N := nth (N.to_nat i) l 0.

(* the 256-entry permutation as a binary tree indexed by the bits of the index, least significant bit first *)
Inductive tree := Leaf (v : N) | Node (l r : tree).

Fixpoint tget (t : tree) (i : N) : N :=
  match t with
  | Leaf v => v
  | Node l r => if N.odd i then tget r (N.div2 i) else tget l (N.div2 i)
  end.

Fixpoint tset (t : tree) (i v : N) : tree :=
  match t with
  | Leaf _ => Leaf v
  | Node l r => if N.odd i then Node l (tset r (N.div2 i) v) else Node (tset l (N.div2 i) v) r
  end.

(* S[i] = i for i = 0..2^d-1 *)
Fixpoint tinit (d : nat) (base step : N) : tree :=
  match d with
  | O => Leaf base
  | S d' => Node (tinit d' base (2 * step)) (tinit d' (base + step) (2 * step))
  end.

Definition swap (s : tree) (i j : N) : tree :=
  let si := tget s i in let sj := tget s j in
  tset (tset s i sj) j si.

Definition idx256 : list N := map N.of_nat (seq 0 256).

(* key scheduling; the key must be non-empty (crypto/rc4 NewCipher: KeySizeError for 0 or more than 256 bytes) *)
Definition rc4_ksa (key : bytes) : tree :=
  let kl := len key in
  fst (fold_left (fun '(s, j) i =>
         let j' := (j + tget s i + nthN key (i mod kl)) mod 256 in
         (swap s i j', j')) idx256 (tinit 8 0 1, 0)).

Fixpoint rc4_prga (s : tree) (i j : N) (data : bytes) : bytes :=
  match data with
  | [] => []
  | x :: r =>
    let i' := (i + 1) mod 256 in
    let j' := (j + tget s i') mod 256 in
    let s' := swap s i' j' in
    let k := tget s' ((tget s' i' + tget s' j') mod 256) in
    N.lxor x k :: rc4_prga s' i' j' r
  end.

(* one fresh cipher applied to data: rc4.NewCipher(key); c.XORKeyStream(data, data) *)
Definition rc4 (key data : bytes) : bytes := rc4_prga (rc4_ksa key) 0 0 data.

Definition rc4_key_ok (key : bytes) : bool := (1 <=? len key) && (len key <=? 256).
