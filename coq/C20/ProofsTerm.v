(* C20 — EqualObjects does not terminate on a cycle that alternates between a direct object
   and a reference on either side (pairs are only recorded when BOTH sides are references). *)
From Coq Require Import List ZArith NArith Bool Lia.
From PV Require Import C20.Model C20.Spec C20.Proofs.
Import ListNotations.
Open Scope Z_scope.

(* 1 0 obj [[1 0 R]] endobj   2 0 obj [1 0 R] endobj *)
Definition mixed_g : graph := fun nr =>
  match nr with
  | 1 => OArr [OArr [ORef 1 0]]
  | 2 => OArr [ORef 1 0]
  | _ => ONull
  end.

Lemma mixed_loop : forall f pairs,
  EqualObjects f mixed_g (OArr [ORef 1 0]) (ORef 1 0) pairs = CFuel /\
  EqualObjects f mixed_g (ORef 1 0) (OArr [ORef 1 0]) pairs = CFuel.
Proof.
  induction f as [|f IH]; intro pairs. split; reflexivity.
  destruct (IH pairs) as [IH1 IH2]. split.
  - change (EqualObjects (S f) mixed_g (OArr [ORef 1 0]) (ORef 1 0) pairs)
      with (match EqualObjects f mixed_g (ORef 1 0) (OArr [ORef 1 0]) pairs with
            | CT => CT | r => r end).
    rewrite IH2. reflexivity.
  - change (EqualObjects (S f) mixed_g (ORef 1 0) (OArr [ORef 1 0]) pairs)
      with (match EqualObjects f mixed_g (OArr [ORef 1 0]) (ORef 1 0) pairs with
            | CT => CT | r => r end).
    rewrite IH1. reflexivity.
Qed.

Lemma mixed_wf : wfg mixed_g.
Proof. intro nr. unfold mixed_g. destruct nr as [|p|p]; try reflexivity. do 2 (destruct p; try reflexivity). Qed.

Lemma mixed_sim : forall n,
  sim n mixed_g (ORef 1 0) mixed_g (OArr [ORef 1 0]) /\
  sim n mixed_g (OArr [ORef 1 0]) mixed_g (ORef 1 0).
Proof.
  induction n as [|m [IH1 IH2]]. split; exact I.
  split; simpl; constructor; auto.
Qed.

Theorem termination_refuted : exists g o1 o2,
  wfg g /\ (forall n, sim n g o1 g o2) /\ forall fuel, EqualObjects fuel g o1 o2 [] = CFuel.
Proof.
  exists mixed_g, (ORef 1 0), (ORef 2 0). split. exact mixed_wf. split.
  - intro n. destruct n as [|m]. exact I. simpl. constructor; [|constructor]. apply (proj2 (mixed_sim m)).
  - intro fuel. destruct fuel as [|f]. reflexivity.
    change (EqualObjects (S f) mixed_g (ORef 1 0) (ORef 2 0) [])
      with (match EqualObjects f mixed_g (OArr [ORef 1 0]) (ORef 1 0) (appendPair [] 1 2) with
            | CT => CT | r => r end).
    rewrite (proj1 (mixed_loop f _)). reflexivity.
Qed.
