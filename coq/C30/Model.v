(* C30 — model of pdfcpu's outbound-fetch address policy.  Executable Gallina, no proofs.

   Transcribed by hand from
     Go 1.25 src/net/ip.go        : IP.To4, IP.Equal, isZeros, IsUnspecified, IsLoopback, IsPrivate,
                                    IsMulticast, IsInterfaceLocalMulticast, IsLinkLocalMulticast,
                                    IsLinkLocalUnicast, and the To4-based choice made by IP.String
     /repo/pkg/pdfcpu/sign/revocation_http.go   : normalizeRevocationHost, allowedRevocationHostSet,
                                    validateRevocationURL, revocationBlockedIP, validateRevocationIPs,
                                    revocationDialContext, revocationRedirect
     /repo/pkg/pdfcpu/primitives/imageBoxHTTP.go: imageBoxRemoteURL, validateImageBoxRemoteURL,
                                    rejectPrivateImageBoxHost/IP, imageBoxBlockedIP, rejectImageBoxIPs,
                                    imageBoxDialContext, imageBoxRedirect

   An IP address (net.IP) is a list of bytes (N, each < 256) of ANY length; Go only gives meaning to
   lengths 4 and 16, every classification method answers false for other lengths, and so does the model.
   Host names / schemes are byte strings (list N).  URL parsing (net/url), net.SplitHostPort,
   net.JoinHostPort, net.ParseIP and the text form of IP.String are Go standard library and are outside
   the model: the model receives the parsed fields. *)
From Coq Require Import NArith List Bool.
Import ListNotations.
Open Scope N_scope.

Definition ip := list N.
Definition bstr := list N.

Definition byteb (b : N) : bool := b <? 256.
Definition bytesb (l : list N) : bool := forallb byteb l.

Fixpoint list_eqb (a b : list N) : bool :=
  match a, b with
  | [], [] => true
  | x :: a', y :: b' => (x =? y) && list_eqb a' b'
  | _, _ => false
  end.

(* ip[i]; only used below guards that make i < len(ip) *)
Definition at_ (a : list N) (i : nat) : N := nth i a 0.
(* ip[lo:hi] *)
Definition slice (a : list N) (lo hi : nat) : list N := firstn (hi - lo) (skipn lo a).

(* ---------------------------------------------------------------- net/ip.go *)

(* func isZeros(p IP) bool *)
Definition isZeros (p : list N) : bool := forallb (fun b => b =? 0) p.

Definition v4InV6Prefix : list N := [0;0;0;0;0;0;0;0;0;0;255;255].
(* func IPv4(a, b, c, d byte) IP : 16-byte form *)
Definition IPv4 (a b c d : N) : ip := v4InV6Prefix ++ [a; b; c; d].
Definition IPv4zero : ip := IPv4 0 0 0 0.
Definition IPv6unspecified : ip := [0;0;0;0;0;0;0;0;0;0;0;0;0;0;0;0].
Definition IPv6loopback : ip := [0;0;0;0;0;0;0;0;0;0;0;0;0;0;0;1].

(* func (ip IP) To4() IP ; None = nil *)
Definition To4 (a : ip) : option ip :=
  if Nat.eqb (length a) 4 then Some a
  else if Nat.eqb (length a) 16 && isZeros (slice a 0 10) && (at_ a 10 =? 255) && (at_ a 11 =? 255)
       then Some (slice a 12 16)
       else None.

(* func (ip IP) Equal(x IP) bool *)
Definition Equal (a x : ip) : bool :=
  if Nat.eqb (length a) (length x) then list_eqb a x
  else if Nat.eqb (length a) 4 && Nat.eqb (length x) 16
       then list_eqb (slice x 0 12) v4InV6Prefix && list_eqb a (skipn 12 x)
  else if Nat.eqb (length a) 16 && Nat.eqb (length x) 4
       then list_eqb (slice a 0 12) v4InV6Prefix && list_eqb (skipn 12 a) x
  else false.

Definition IsUnspecified (a : ip) : bool := Equal a IPv4zero || Equal a IPv6unspecified.

Definition IsLoopback (a : ip) : bool :=
  match To4 a with
  | Some ip4 => at_ ip4 0 =? 127
  | None => Equal a IPv6loopback
  end.

Definition IsPrivate (a : ip) : bool :=
  match To4 a with
  | Some ip4 => (at_ ip4 0 =? 10)
                || ((at_ ip4 0 =? 172) && (N.land (at_ ip4 1) 240 =? 16))
                || ((at_ ip4 0 =? 192) && (at_ ip4 1 =? 168))
  | None => Nat.eqb (length a) 16 && (N.land (at_ a 0) 254 =? 252)
  end.

Definition IsMulticast (a : ip) : bool :=
  match To4 a with
  | Some ip4 => N.land (at_ ip4 0) 240 =? 224
  | None => Nat.eqb (length a) 16 && (at_ a 0 =? 255)
  end.

Definition IsInterfaceLocalMulticast (a : ip) : bool :=
  Nat.eqb (length a) 16 && (at_ a 0 =? 255) && (N.land (at_ a 1) 15 =? 1).

Definition IsLinkLocalMulticast (a : ip) : bool :=
  match To4 a with
  | Some ip4 => (at_ ip4 0 =? 224) && (at_ ip4 1 =? 0) && (at_ ip4 2 =? 0)
  | None => Nat.eqb (length a) 16 && (at_ a 0 =? 255) && (N.land (at_ a 1) 15 =? 2)
  end.

Definition IsLinkLocalUnicast (a : ip) : bool :=
  match To4 a with
  | Some ip4 => (at_ ip4 0 =? 169) && (at_ ip4 1 =? 254)
  | None => Nat.eqb (length a) 16 && (at_ a 0 =? 254) && (N.land (at_ a 1) 192 =? 128)
  end.

(* The address that a dialer sees when it is handed net.JoinHostPort(ip.String(), port) and parses the
   host part again: IP.String prints the dotted form whenever To4 succeeds (so a 16-byte IPv4-mapped
   address arrives as its 4-byte IPv4 address), the IPv6 text form for other 16-byte values; for other
   lengths the text is "?<hex>" / "<nil>" which the harness decodes back to the same bytes. *)
Definition dialTarget (a : ip) : ip :=
  match To4 a with Some ip4 => ip4 | None => a end.

(* ---------------------------------------------------------------- sign/revocation_http.go *)

(* func revocationBlockedIP(ip net.IP) bool *)
Definition revocationBlockedIP (a : ip) : bool :=
  IsLoopback a || IsPrivate a || IsLinkLocalUnicast a || IsLinkLocalMulticast a || IsMulticast a
  || IsUnspecified a.

(* strings.ToLower / strings.TrimSpace restricted to ASCII input (every byte < 128; for such input both
   take their byte-wise fast path).  Non-ASCII host names are outside the model. *)
Definition toLowerAscii (b : N) : N := if (65 <=? b) && (b <=? 90) then b + 32 else b.
Definition isSpaceAscii (b : N) : bool :=
  (b =? 9) || (b =? 10) || (b =? 11) || (b =? 12) || (b =? 13) || (b =? 32).
Fixpoint trimLeft (l : bstr) : bstr :=
  match l with
  | b :: r => if isSpaceAscii b then trimLeft r else l
  | [] => []
  end.
Definition trimRight (l : bstr) : bstr := rev (trimLeft (rev l)).
Definition TrimSpace (l : bstr) : bstr := trimRight (trimLeft l).
(* strings.TrimSuffix(s, ".") : removes ONE trailing dot *)
Definition TrimSuffixDot (l : bstr) : bstr :=
  match rev l with
  | 46 :: r => rev r
  | _ => l
  end.

(* func normalizeRevocationHost(host string) string *)
Definition normalizeRevocationHost (h : bstr) : bstr :=
  TrimSuffixDot (TrimSpace (map toLowerAscii h)).

Definition isEmpty (l : bstr) : bool := match l with [] => true | _ => false end.

(* func allowedRevocationHostSet(hosts []string) map[string]bool ; the map is the list of its keys *)
Definition allowedRevocationHostSet (hosts : list bstr) : list bstr :=
  filter (fun h => negb (isEmpty h)) (map normalizeRevocationHost hosts).
(* allowed[k] *)
Definition allowedLookup (allowed : list bstr) (k : bstr) : bool := existsb (list_eqb k) allowed.

(* parsed URL: the fields the code looks at. hostIP = net.ParseIP(u.Hostname()) (None = nil) *)
Record purl := mkURL { uScheme : bstr; uHasUser : bool; uHostname : bstr; uHostIP : option ip }.

Definition s_http : bstr := [104;116;116;112].
Definition s_https : bstr := [104;116;116;112;115].

(* func validateRevocationURL(u *url.URL) error ; None = nil pointer ; true = no error *)
Definition validateRevocationURL (u : option purl) : bool :=
  match u with
  | None => false
  | Some u =>
    if negb (list_eqb (uScheme u) s_http) && negb (list_eqb (uScheme u) s_https) then false
    else if uHasUser u then false
    else if isEmpty (uHostname u) then false
    else true
  end.

(* func validateRevocationIPs(host string, ips []net.IPAddr, allowed map[string]bool) error ; true = nil *)
Definition validateRevocationIPs (host : bstr) (ips : list ip) (allowed : list bstr) : bool :=
  match ips with
  | [] => false
  | _ =>
    if allowedLookup allowed (normalizeRevocationHost host) then true
    else forallb (fun a => negb (revocationBlockedIP a)) ips
  end.

(* the loop of revocationDialContext: the i-th call of the dialer succeeds iff the i-th element of
   script is true (missing = failure).  Result: the targets handed to the dialer, in order, and whether
   a connection was obtained. *)
Fixpoint dialLoop (ips : list ip) (script : list bool) : list ip * bool :=
  match ips with
  | [] => ([], false)
  | a :: rest =>
    if hd false script then ([dialTarget a], true)
    else let (ts, c) := dialLoop rest (tl script) in (dialTarget a :: ts, c)
  end.

Inductive dialOutcome :=
| DResolveErr                                        (* resolver.LookupIPAddr failed: nothing dialled *)
| DRejected                                          (* validation failed: nothing dialled *)
| DDialled (targets : list ip) (connected : bool).

(* func revocationDialContext(resolver, dial, allowed)(ctx, network, addr) after SplitHostPort;
   answer = what the resolver returned (None = error) *)
Definition revocationDial (allowed : list bstr) (host : bstr) (answer : option (list ip))
           (script : list bool) : dialOutcome :=
  match answer with
  | None => DResolveErr
  | Some ips =>
    if validateRevocationIPs host ips allowed
    then let (ts, c) := dialLoop ips script in DDialled ts c
    else DRejected
  end.

(* One dial context lives as long as its http.Client and serves every connection the client opens
   (each CRL distribution point, each OCSP request, each redirect hop).  The Go closure keeps NO state
   between calls (it captures only resolver, dial and allowed, and never writes to them), so a client's
   whole dialling history is the request-wise map of revocationDial. *)
Record dialReq := mkReq { rqHost : bstr; rqAnswer : option (list ip); rqScript : list bool }.
Definition revocationDialHistory (allowed : list bstr) (reqs : list dialReq) : list dialOutcome :=
  map (fun q => revocationDial allowed (rqHost q) (rqAnswer q) (rqScript q)) reqs.

(* revocationHTTPClient: the allow set is allowedRevocationHostSet(conf.AllowedRevocationHosts) *)
Definition revocationClientDial (allowedHosts : list bstr) (host : bstr) (answer : option (list ip))
           (script : list bool) : dialOutcome :=
  revocationDial (allowedRevocationHostSet allowedHosts) host answer script.

Definition maxRevocationRedirects : N := 10.
(* func revocationRedirect(req, via) error ; nvia = len(via) ; true = follow *)
Definition revocationRedirect (nvia : N) (u : option purl) : bool :=
  if maxRevocationRedirects <=? nvia then false else validateRevocationURL u.

(* ---------------------------------------------------------------- primitives/imageBoxHTTP.go *)

Definition imageBoxBlockedIP (a : ip) : bool :=
  IsLoopback a || IsPrivate a || IsLinkLocalUnicast a || IsLinkLocalMulticast a || IsMulticast a
  || IsUnspecified a.

(* rejectPrivateImageBoxHost: only literal IP hosts are judged here ; true = no error *)
Definition rejectPrivateImageBoxHost (hostIP : option ip) : bool :=
  match hostIP with
  | Some a => negb (imageBoxBlockedIP a)
  | None => true
  end.

(* func validateImageBoxRemoteURL(u *url.URL) error ; true = nil *)
Definition validateImageBoxRemoteURL (u : purl) : bool :=
  if uHasUser u then false
  else if isEmpty (uHostname u) then false
  else rejectPrivateImageBoxHost (uHostIP u).

(* func imageBoxRemoteURL(s) returning ( *url.URL, bool, error) ; input None = url.Parse failed.
   Result (remote, ok): remote=false -> Src is treated as a local file name. *)
Definition imageBoxRemoteURL (u : option purl) : bool * bool :=
  match u with
  | None => (false, true)
  | Some u =>
    if isEmpty (uScheme u) then (false, true)
    else if negb (list_eqb (uScheme u) s_http) && negb (list_eqb (uScheme u) s_https) then (false, true)
    else if validateImageBoxRemoteURL u then (true, true) else (true, false)
  end.

(* func imageBoxRedirect(req, via) error *)
Definition imageBoxRedirect (u : purl) : bool := validateImageBoxRemoteURL u.

(* func rejectImageBoxIPs(host, ips) error ; true = nil *)
Definition rejectImageBoxIPs (ips : list ip) : bool :=
  match ips with
  | [] => false
  | _ => forallb (fun a => negb (imageBoxBlockedIP a)) ips
  end.

(* func imageBoxDialContext(dialer)(ctx, network, addr): all answers validated, only ips[0] dialled *)
Definition imageBoxDial (answer : option (list ip)) (script : list bool) : dialOutcome :=
  match answer with
  | None => DResolveErr
  | Some ips =>
    if rejectImageBoxIPs ips
    then DDialled [dialTarget (hd [] ips)] (hd false script)
    else DRejected
  end.

(* history of one image-box dial context (equally stateless) *)
Definition imageBoxDialHistory (reqs : list dialReq) : list dialOutcome :=
  map (fun q => imageBoxDial (rqAnswer q) (rqScript q)) reqs.

(* ---------------------------------------------------------------- check-then-use: what is dialled is what was vetted
   Both dial contexts call resolver.LookupIPAddr exactly ONCE per connection, vet that answer, and hand
   the dialer the text of addresses taken from that very answer (net.JoinHostPort(ip.IP.String(), port)),
   never the host name; a dialer given an IP literal does not resolve.  The resolver is modelled as the
   list of answers it WOULD give to the 1st, 2nd, 3rd ... lookup of the host (a rebinding resolver
   changes its answer between lookups); a connection consumes the head only.

   Explicit decision outputs: the vetted addresses (as resolved, before the text round trip) that the
   dialer may be given, in order. *)

(* imageBoxDialContext: Some ips[0] iff the whole answer was vetted *)
Definition imageBoxDialDecision (answer : option (list ip)) : option ip :=
  match answer with
  | Some ips => if rejectImageBoxIPs ips then Some (hd [] ips) else None
  | None => None
  end.

(* revocationDialContext: the loop walks ips, all of them vetted (or the host is allow-listed) *)
Definition revocationDialCandidates (allowed : list bstr) (host : bstr) (answer : option (list ip)) : list ip :=
  match answer with
  | Some ips => if validateRevocationIPs host ips allowed then ips else []
  | None => []
  end.

(* one connection against a scripted resolver: outcome, number of resolver calls, unconsumed answers.
   An exhausted script is a resolver error. *)
Definition nextAnswer (lookups : list (option (list ip))) : option (list ip) :=
  match lookups with a :: _ => a | [] => None end.

Definition imageBoxConnect (lookups : list (option (list ip))) (script : list bool)
  : dialOutcome * N * list (option (list ip)) :=
  (imageBoxDial (nextAnswer lookups) script, 1, tl lookups).

Definition revocationConnect (allowed : list bstr) (host : bstr) (lookups : list (option (list ip)))
           (script : list bool) : dialOutcome * N * list (option (list ip)) :=
  (revocationDial allowed host (nextAnswer lookups) script, 1, tl lookups).

(* ---------------------------------------------------------------- redirect chains
   net/http's Client calls CheckRedirect(req, via) before EVERY redirected request, with via = the
   requests made so far (oldest first), and stops at the first error.  The decision of pdfcpu's two
   CheckRedirect functions looks at the target URL and at len(via) only -- never at WHERE the redirect
   comes from (there is no "same origin" shortcut): redirect_ok via target = validate target && len via < max.
   A chain = the initial URL followed by the Location targets the servers would send; the result is
   the list of URLs that are actually requested. *)
Fixpoint revocationFollow (nvia : N) (targets : list (option purl)) : list (option purl) :=
  match targets with
  | [] => []
  | t :: rest => if revocationRedirect nvia t then t :: revocationFollow (nvia + 1) rest else []
  end.

(* processCurrentCRLs / processCurrentOCSPResponse: validateRevocationURLString(url) first, then client.Get/Post *)
Definition revocationFetchChain (first : option purl) (targets : list (option purl)) : list (option purl) :=
  if validateRevocationURL first then first :: revocationFollow 1 targets else [].

Fixpoint imageBoxFollow (targets : list purl) : list purl :=
  match targets with
  | [] => []
  | t :: rest => if imageBoxRedirect t then t :: imageBoxFollow rest else []
  end.

(* ImageBox.resource: imageBoxRemoteURL(ib.Src) must say (remote, no error), then client.Do *)
Definition imageBoxFetchChain (first : purl) (targets : list purl) : list purl :=
  match imageBoxRemoteURL (Some first) with
  | (true, true) => first :: imageBoxFollow targets
  | _ => []
  end.
