From Coq Require Import Extraction ExtrOcamlBasic.
From PV Require Import Lib.ExtBase C19.Model C21.Model.
Extraction "model.ml" ext_base_z ext_base_n ext_base_nat ext_base_res ext_base_list
  op_trim op_remove op_collect op_write op_insert ids root_count tree_ok info_ok sorted nt_insert write_versions effective.
