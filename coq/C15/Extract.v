From Coq Require Import Extraction ExtrOcamlBasic.
From PV Require Import Lib.ExtBase C16.Model.
Extraction "model.ml" ext_base_z ext_base_n ext_base_nat ext_base_res ext_base_list
  ahx_decode_length ahx_encode rl_decode_length rl_encode pipe_decode pipe_encode ahx_stage rl_stage
  flate_post.
