(* C19 — Writing then reading a document preserves its content.
   Property theorems only; each is closed by an exact lemma and followed by Print Assumptions.

   Full statement (kept here as the target): for every document g, every writer configuration
   and renumbering phi, the graph read back from the written file, restricted to what is
   reachable from the trailer, is isomorphic (via phi) to g restricted to what is reachable from
   the trailer, up to the documented normalisations; hence the same page sequence, attributes,
   info dict.  It is REFUTED for pdfcpu as it is (C19_no_loss_refuted_*: objects referenced only
   from entries the writer does not list are dropped), and proved in the three parts below:
     (A) what is read back is exactly what the writer emitted, up to phi      [all documents]
     (B) what the writer emitted is the original object, up to the documented normalisations
                                                                               [all documents]
     (C) every reference the writer followed is answered by an emitted object, the writer
         follows every reference outside the three special dictionaries, so nothing reachable
         is lost when the special dictionaries hold no reference under an unlisted entry
                                                                               [..._partial]  *)
From Coq Require Import List ZArith NArith Bool.
From PV Require Import C19.Generated C19.Model C19.Spec C19.ProofsClosed C19.ProofsIso C19.ProofsFuel C19.ProofsWitness C19.ProofsUnique.
Import ListNotations.

(* ---------- (A) read (write s) = s up to the renumbering ---------- *)
(* phi: renumbering; print/parse/wf: C11; enc/dec: C22; layout/locate: C18 (any configuration) *)
Theorem C19_read_write_table :
  forall (phi : N -> N), (forall a b, phi a = phi b -> a = b) ->
  forall (print : obj -> bytes) (parse : bytes -> option obj) (wf : obj -> Prop),
  (forall o, wf o -> parse (print o) = Some o) ->
  forall (enc dec : N -> obj -> obj), (forall n o, dec n (enc n o) = o) ->
  forall (file : Type) (layout : list (N * bytes) -> file) (locate : file -> N -> option bytes),
  (forall recs n, locate (layout recs) n = assoc recs n) ->
  forall s, wf_out phi wf enc s ->
  (forall n, read_file parse dec file locate (write_file phi print enc file layout s) (phi n)
             = option_map (rename phi) (rfind s n)) /\
  (forall m, (forall n, In n (dom s) -> phi n <> m) ->
             read_file parse dec file locate (write_file phi print enc file layout s) m = None).
Proof.
  intros phi Hinj print parse wf Hpp enc dec Hde file layout locate Hll s Hwf. split.
  - exact (read_write_exact phi Hinj print parse wf Hpp enc dec Hde file layout locate Hll s Hwf).
  - exact (read_write_none phi print parse enc dec file layout locate Hll s).
Qed.
Print Assumptions C19_read_write_table.

(* the numbering-free view (every finite unfolding from any object, in particular from the
   catalog and from the info dict) is the same *)
Theorem C19_read_write_unfold :
  forall (phi : N -> N), (forall a b, phi a = phi b -> a = b) ->
  forall (print : obj -> bytes) (parse : bytes -> option obj) (wf : obj -> Prop),
  (forall o, wf o -> parse (print o) = Some o) ->
  forall (enc dec : N -> obj -> obj), (forall n o, dec n (enc n o) = o) ->
  forall (file : Type) (layout : list (N * bytes) -> file) (locate : file -> N -> option bytes),
  (forall recs n, locate (layout recs) n = assoc recs n) ->
  forall s, wf_out phi wf enc s ->
  forall d o, unfold (read_file parse dec file locate (write_file phi print enc file layout s)) d (rename phi o)
              = unfold (rfind s) d o.
Proof. exact read_write_unfold. Qed.
Print Assumptions C19_read_write_unfold.

(* the numbering-free view does not depend on the object numbers at all: two tables that differ
   by a renumbering (sparse numbering, numbers beyond every byte offset, ...) have the same
   unfoldings — the snapshot the harness compares is invariant under the permutation *)
Theorem C19_snapshot_invariant_under_renumbering :
  forall (phi : N -> N) (t t' : N -> option obj),
  (forall n, t' (phi n) = option_map (rename phi) (t n)) ->
  forall d o, unfold t' d (rename phi o) = unfold t d o.
Proof. exact unfold_rename. Qed.
Print Assumptions C19_snapshot_invariant_under_renumbering.

(* phi is an isomorphism between the parts reachable from any object *)
Theorem C19_reachable_isomorphic :
  forall (phi : N -> N), (forall a b, phi a = phi b -> a = b) ->
  forall (print : obj -> bytes) (parse : bytes -> option obj) (wf : obj -> Prop),
  (forall o, wf o -> parse (print o) = Some o) ->
  forall (enc dec : N -> obj -> obj), (forall n o, dec n (enc n o) = o) ->
  forall (file : Type) (layout : list (N * bytes) -> file) (locate : file -> N -> option bytes),
  (forall recs n, locate (layout recs) n = assoc recs n) ->
  forall s, wf_out phi wf enc s -> forall a,
  (forall n, reach (rfind s) a n ->
             reach (read_file parse dec file locate (write_file phi print enc file layout s)) (phi a) (phi n)) /\
  (forall m, reach (read_file parse dec file locate (write_file phi print enc file layout s)) (phi a) m ->
             exists n, m = phi n /\ reach (rfind s) a n).
Proof. exact reach_iso. Qed.
Print Assumptions C19_reachable_isomorphic.

(* page sequence with effective Resources / MediaBox / CropBox / Rotate and all page entries *)
Theorem C19_pages_preserved :
  forall (phi : N -> N), (forall a b, phi a = phi b -> a = b) ->
  forall (print : obj -> bytes) (parse : bytes -> option obj) (wf : obj -> Prop),
  (forall o, wf o -> parse (print o) = Some o) ->
  forall (enc dec : N -> obj -> obj), (forall n o, dec n (enc n o) = o) ->
  forall (file : Type) (layout : list (N * bytes) -> file) (locate : file -> N -> option bytes),
  (forall recs n, locate (layout recs) n = assoc recs n) ->
  forall s, wf_out phi wf enc s -> forall root d d',
  doc_pages d' (unfold (read_file parse dec file locate (write_file phi print enc file layout s)) d (ORef (phi root)))
  = doc_pages d' (unfold (rfind s) d (ORef root)).
Proof. exact read_write_pages. Qed.
Print Assumptions C19_pages_preserved.

(* ---------- (B) emitted = original up to the documented normalisations ---------- *)
Theorem C19_emitted_is_original_normalised :
  forall g delv maxd fuel root info s,
  write_model g maxd fuel delv root info = WOk s ->
  forall n md o, In (n, (md, o)) s -> norm_of g delv md n o.
Proof. exact write_model_good. Qed.
Print Assumptions C19_emitted_is_original_normalised.

(* ---------- (C) which references can dangle ---------- *)
(* every reference the writer followed is answered (or is a page dict it refuses: not Valid) *)
Theorem C19_followed_references_survive :
  forall g maxd fuel delv root info s,
  write_model g maxd fuel delv root info = WOk s ->
  forall n r, In (n, r) s -> forall m, In m (followed r) -> In m (dom s) \/ refused g m.
Proof. exact write_model_closed. Qed.
Print Assumptions C19_followed_references_survive.

(* outside page writing the writer follows every reference of an object *)
Theorem C19_generic_follows_all :
  forall o, wfobj o = true -> followed (MGen false false, o) = refs o.
Proof. exact wrefs_values_nopages_all. Qed.
Print Assumptions C19_generic_follows_all.

(* nothing reachable is lost: under the negation of the defect class (every reference held by
   a record written as catalog / page tree node / page, or reached while pages are written, sits
   where the writer follows it; no unvalidated page dict is referenced; the table holds no
   nested streams or bare references) the emitted graph is closed, and its unfoldings are those
   of the original table with the normalised objects in place.  Records written outside page
   writing (MGen false false) need no hypothesis: undecoded object stream members included. *)
Theorem C19_nothing_lost_partial :
  forall g maxd fuel delv root info s,
  write_model g maxd fuel delv root info = WOk s ->
  (forall n o, In (n, (MGen false false, o)) s -> wfobj o = true) ->
  (forall n md o, In (n, (md, o)) s -> md <> MGen false false -> incl (refs o) (followed (md, o))) ->
  (forall m, ~ refused g m) ->
  closed s /\
  forall d o, incl (refs o) (dom s) -> unfold (rfind s) d o = unfold (ntbl g s) d o.
Proof.
  intros g maxd fuel delv root info s H Hwf Hsp Href.
  assert (Hc : closed s) by exact (special_followed_closed g delv maxd fuel root info s H Hwf Hsp Href).
  split; [exact Hc|exact (closed_unfold g s Hc)].
Qed.
Print Assumptions C19_nothing_lost_partial.

(* the statement without those hypotheses is false for the writer as it is *)
Theorem C19_no_loss_refuted_unlisted_catalog_entry :
  exists g s, write_model g 101 (fuel_for g) false 1%N (Some 5%N) = WOk s /\ dangling s = [6%N].
Proof.
  exists (doc [(kDSS, ORef 6)] FValid).
  destruct (write_model (doc [(kDSS, ORef 6)] FValid) 101 (fuel_for (doc [(kDSS, ORef 6)] FValid)) false 1%N (Some 5%N)) as [s| |] eqn:E.
  - exists s. split; [reflexivity|]. pose proof witness_unlisted_catalog as W. unfold run in W. rewrite E in W. exact W.
  - pose proof witness_unlisted_catalog as W. unfold run in W. rewrite E in W. discriminate.
  - pose proof witness_unlisted_catalog as W. unfold run in W. rewrite E in W. discriminate.
Qed.
Print Assumptions C19_no_loss_refuted_unlisted_catalog_entry.

Theorem C19_no_loss_refuted_unlisted_page_entry :
  dangling_of (write_model doc_page_oi 101 (fuel_for doc_page_oi) false 1%N None) = [6%N].
Proof. exact witness_unlisted_page. Qed.
Print Assumptions C19_no_loss_refuted_unlisted_page_entry.

(* an object stream member that validation never decoded no longer loses what it references
   (fixed in pdfcpu 606427ef; the oracle class stays armed) *)
Theorem C19_undecoded_objstream_member_followed :
  dangling_of (run (doc [(kMetadata, ORef 6)] FInvalid)) = [].
Proof. exact witness_undecoded_member. Qed.
Print Assumptions C19_undecoded_objstream_member_followed.

(* ---------- the key lists regenerated from the source ---------- *)
Theorem C19_listed_keys_cover_iso32000_1 :
  forallb (fun k => memk k (root_keys_pre ++ root_keys_post)) iso32000_1_catalog_keys = true /\
  forallb (fun k => memk k page_keys) iso32000_1_page_keys = true /\
  forallb (fun k => memk k pages_keys) iso32000_1_pages_keys = true.
Proof. exact listed_keys_cover_iso32000_1. Qed.
Print Assumptions C19_listed_keys_cover_iso32000_1.

Theorem C19_pdf20_entries_not_listed_refuted :
  memk kDSS (root_keys_pre ++ root_keys_post) = false /\
  memk kAF (root_keys_pre ++ root_keys_post) = false /\
  memk kDPartRoot (root_keys_pre ++ root_keys_post) = false /\
  memk kOutputIntents page_keys = false /\ memk kAF page_keys = false /\ memk kDPart page_keys = false.
Proof. exact pdf20_keys_not_listed. Qed.
Print Assumptions C19_pdf20_entries_not_listed_refuted.

(* ---------- object numbers of the emitted records ---------- *)
(* every emitted record is the only one under its number, except that a page tree node may be
   written again by the page tree traversal (the later record wins); without such a second
   write the numbers are pairwise distinct.  The numbers of the objects the writer creates
   (fresh info dict, encryption dict, object streams, xref stream) are not modelled: the
   harness checks on the implementation that none of them is a number the document still
   references (oracle classes recycled-number-still-referenced:KIND). *)
Theorem C19_records_unique_partial :
  forall g maxd fuel delv root info s,
  write_model g maxd fuel delv root info = WOk s ->
  uniq s /\
  ((forall s1 n o s2, s = s1 ++ (n, (MPages, o)) :: s2 -> written s2 n = false) -> NoDup (dom s)).
Proof.
  intros g maxd fuel delv root info s H.
  pose proof (write_model_uniq g maxd fuel delv root info s H) as U.
  split; [exact U|exact (uniq_nodup s U)].
Qed.
Print Assumptions C19_records_unique_partial.

(* ---------- the model never runs out of fuel ---------- *)
Theorem C19_fuel_suffices :
  forall g maxd delv root info, write_model g maxd (fuel_for g) delv root info <> WFuel.
Proof. exact write_model_nofuel. Qed.
Print Assumptions C19_fuel_suffices.

(* non-vacuity: a document that is written completely; the hypotheses of (C) hold for it *)
Example C19_nonvacuous :
  dangling_of (run (doc [(kMetadata, ORef 6)] FValid)) = [] /\
  survivors (run (doc [(kMetadata, ORef 6)] FValid)) = [5;7;6;2;4;3;1]%N.
Proof. exact witness_listed. Qed.
