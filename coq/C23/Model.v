(* C23 — Encrypted output reveals no document plaintext: addressing of string leaves.
   The executable model of the writer (write_iobj, encryptDeep, ...) is shared: C22/Model.v.
   Here: paths into object trees and the exemption predicate.  NO proofs. *)
From Coq Require Import ZArith NArith List Bool.
From PV Require Import Lib.GoInt C22.Model.
Import ListNotations.

(* i-th array element / i-th dictionary entry *)
Inductive step := SIdx (i : nat) | SKey (i : nat).

Fixpoint get (o : obj) (p : list step) : option obj :=
  match p with
  | [] => Some o
  | SIdx i :: p' =>
      match o with
      | OArr l => match nth_error l i with Some x => get x p' | None => None end
      | _ => None
      end
  | SKey i :: p' =>
      match o with
      | ODict d => match nth_error d i with Some (_, v) => get v p' | None => None end
      | _ => None
      end
  end.

(* the path passes through the /Contents entry of a dictionary with FT or Type = Sig | DocTimeStamp:
   the ONLY exemption inside an object (signature values) *)
Fixpoint exempt (o : obj) (p : list step) : bool :=
  match p with
  | [] => false
  | SIdx i :: p' =>
      match o with
      | OArr l => match nth_error l i with Some x => exempt x p' | None => false end
      | _ => false
      end
  | SKey i :: p' =>
      match o with
      | ODict d => match nth_error d i with
                   | Some (k, v) => (is_sig d && bytes_eqb k kContents) || exempt v p'
                   | None => false
                   end
      | _ => false
      end
  end.

(* all string leaves with their exemption status (used by the harness to cross-check coverage) *)
Fixpoint leaves (fuel : nat) (ex : bool) (o : obj) : list (bool * bytes) :=
  match fuel with
  | O => []
  | S f =>
      match o with
      | OStr b | OHex b => [(ex, b)]
      | OArr l => flat_map (leaves f ex) l
      | ODict d => flat_map (fun kv : bytes * obj =>
                     leaves f (ex || (is_sig d && bytes_eqb (fst kv) kContents)) (snd kv)) d
      | _ => []
      end
  end.
