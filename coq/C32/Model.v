(* C32 — page operations on the page-tree model of C33/Pages.v.  Executable Gallina only; NO proofs.
   Transcribed from pkg/pdfcpu/model/xreftable.go (InsertBlankPages / insertBlankPagesDepth /
   appendBlankPageForPage / emptyPage), pkg/pdfcpu/rotate.go (RotatePages / composePageRotation),
   pkg/pdfcpu/model/box.go (AddPageBoundaries / applyBoxDefinitions / ApplyBox / RemovePageBoundaries /
   Crop with explicit rectangles and with absolute margins relative to the parent box),
   pkg/api/page.go, trim.go, collect.go (RemovePages / Trim / Collect = ExtractPages of a page list). *)
From Coq Require Import ZArith List Bool.
From PV Require Import Lib.GoInt C33.Pages.
Import ListNotations.
Open Scope Z_scope.

(* pages in document order, each with the attributes inherited from its ANCESTORS only *)
Definition wpage := (pageD * attrs)%type.
Fixpoint walk (inh : attrs) (t : tree) : list wpage :=
  match t with
  | Leaf d => [(d, inh)]
  | Node a _ kids => flat_map (walk (inherit inh a)) kids
  end.
(* PageDict's view of such a page: the dict and the attributes in effect (own entries override) *)
Definition eff (w : wpage) : rpage := (fst w, inherit (snd w) (pg_attrs (fst w))).
Definition wpages (t : tree) : list wpage := walk no_attrs t.

(* a selection is an explicit set of 1-based page numbers *)
Definition selb (sel : list Z) (k : Z) : bool := existsb (Z.eqb k) sel.

(* ---------- per-page updates: for k in selected { d, inhPAttrs := PageDict(k); mutate d } ---------- *)
Section Upd.
  Variable sel : Z -> bool.
  Variable pf : pageD -> attrs -> pageD.      (* new page dict from the dict and the attributes in effect *)
  Section UpdKids.
    Variable ut : tree -> attrs -> Z -> tree * Z.
    Fixpoint upd_kids (ks : list tree) (inh : attrs) (p : Z) : list tree * Z :=
      match ks with
      | [] => ([], p)
      | k :: r => let '(k', p1) := ut k inh p in
                  let '(r', p2) := upd_kids r inh p1 in (k' :: r', p2)
      end.
  End UpdKids.
  Fixpoint upd_tree (t : tree) (inh : attrs) (p : Z) : tree * Z :=
    match t with
    | Leaf d => (if sel (p + 1) then Leaf (pf d (inherit inh (pg_attrs d))) else t, p + 1)
    | Node a c kids => let '(ks, p1) := upd_kids upd_tree kids (inherit inh a) p in (Node a c ks, p1)
    end.
End Upd.

Definition set_attrs (d : pageD) (a : attrs) : pageD :=
  mkPage (pg_id d) a (pg_trim d) (pg_bleed d) (pg_art d).

(* rotate.go composePageRotation: (current%360 + delta%360) % 360, +360 if negative (Go % truncates) *)
Definition compose_rot (cur delta : Z) : Z :=
  let r := Z.rem (Z.rem cur 360 + Z.rem delta 360) 360 in if r <? 0 then r + 360 else r.

(* rotatePage: d.Update("Rotate", composePageRotation(inhPAttrs.Rotate, j)) *)
Definition pf_rotate (delta : Z) (d : pageD) (e : attrs) : pageD :=
  let o := pg_attrs d in
  set_attrs d (mkAttrs (Some (compose_rot (rot_of e) delta)) (a_media o) (a_crop o) (a_res o)).

(* A box definition (model.Box): an explicit rectangle, or margins (left, right, top, bottom, absolute,
   >= 0) applied to a PARENT box.  ApplyBox:  Rect -> the rectangle;
   margins -> [parent.LL.X+mLeft, parent.LL.Y+mBot, parent.UR.X-mRight, parent.UR.Y-mTop]. *)
Inductive boxdef := BRect (r : rect) | BMarg (l r t b : Z).
Definition apply_def (bd : boxdef) (parent : rect) : rect :=
  match bd with
  | BRect r => r
  | BMarg ml mr mt mb => let '(x0, y0, x1, y1) := parent in (x0 + ml, y0 + mb, x1 - mr, y1 - mt)
  end.
Definition opt_def (o : option boxdef) (parent : rect) (old : option rect) : option rect :=
  match o with Some bd => Some (apply_def bd parent) | None => old end.

(* AddPageBoundaries / applyBoxDefinitions (definitions without RefBox):
     boxes := {mediaBox: inhPAttrs.MediaBox, cropBox: inhPAttrs.CropBox, ...}
     parentBox := b.mediaBox
     if pb.Media != nil { b.mediaBox = ApplyBox("MediaBox", pb.Media, d, parentBox) }
     if pb.Crop  != nil { b.cropBox  = ApplyBox("CropBox",  pb.Crop,  d, parentBox) }
     if b.cropBox != nil { parentBox = b.cropBox }          <- the page's EFFECTIVE crop box, defined now,
     Trim / Bleed / Art: ApplyBox(name, def, d, parentBox)      earlier on the page, or inherited
   The media box in effect before the call is the parent of Media and Crop. *)
Record boxreq := mkBoxReq {
  b_media : option boxdef; b_crop : option boxdef; b_trim : option boxdef;
  b_bleed : option boxdef; b_art : option boxdef }.
Definition media_parent (e : attrs) : rect :=
  match a_media e with Some m => m | None => a4 end.   (* None: unreachable for pages with a MediaBox *)
Definition pf_addbox (b : boxreq) (d : pageD) (e : attrs) : pageD :=
  let o := pg_attrs d in
  let m := media_parent e in
  let crop_b := opt_def (b_crop b) m (a_crop e) in               (* b.cropBox after the crop definition *)
  let parent := match crop_b with Some c => c | None => m end in
  mkPage (pg_id d)
    (mkAttrs (a_rot o) (opt_def (b_media b) m (a_media o)) (opt_def (b_crop b) m (a_crop o)) (a_res o))
    (opt_def (b_trim b) parent (pg_trim d)) (opt_def (b_bleed b) parent (pg_bleed d))
    (opt_def (b_art b) parent (pg_art d)).

(* RemovePageBoundaries: CropBox: delete the page's own entry; if it had none, CropBox := effective MediaBox;
   Trim/Bleed/Art: delete *)
Record rmreq := mkRmReq { r_crop : bool; r_trim : bool; r_bleed : bool; r_art : bool }.
Definition pf_rmbox (q : rmreq) (d : pageD) (e : attrs) : pageD :=
  let o := pg_attrs d in
  mkPage (pg_id d)
    (mkAttrs (a_rot o) (a_media o)
       (if r_crop q then match a_crop o with Some _ => None | None => a_media e end else a_crop o)
       (a_res o))
    (if r_trim q then None else pg_trim d) (if r_bleed q then None else pg_bleed d)
    (if r_art q then None else pg_art d).

(* ---------- InsertBlankPages ----------
   insertBlankPagesDepth walks the tree with the page counter p and ONE shared *InheritedPageAttrs that
   every visited /Pages node updates (checkInheritedPageAttrs) and that is never reset when the walk
   leaves a sub tree: modelled by the threaded state st.  appendBlankPageForPage / emptyPage: the blank
   page gets dim if given, else pAttrs.MediaBox, else the selected page's own MediaBox; it is inserted
   under the same parent directly before/after the selected page.  /Count := number of pages below. *)
Section Ins.
  Variable sel : Z -> bool.
  Variable before : bool.
  Variable dim : option rect.
  Definition blank_mb (st : attrs) (d : pageD) : rect :=
    match dim with
    | Some r => r
    | None => match orelse (a_media st) (a_media (pg_attrs d)) with
              | Some m => m
              | None => a4        (* unreachable when every page has an effective MediaBox: Go returns an error *)
              end
    end.
  Section InsKids.
    Variable it : tree -> attrs -> Z -> tree * attrs * Z.
    Fixpoint ins_kids (ks : list tree) (st : attrs) (p : Z) : list tree * Z * attrs * Z :=
      match ks with
      | [] => ([], 0, st, p)
      | k :: r =>
          match k with
          | Leaf d =>
              let '(r', c, st', p') := ins_kids r st (p + 1) in
              if sel (p + 1) then
                let b := Leaf (blank_page (blank_mb st d)) in
                (if before then b :: k :: r' else k :: b :: r', c + 2, st', p')
              else (k :: r', c + 1, st', p')
          | Node _ _ _ =>
              let '(k', st1, p1) := it k st p in
              let '(r', c, st', p') := ins_kids r st1 p1 in
              (k' :: r', c + count_of k', st', p')
          end
      end.
  End InsKids.
  Fixpoint ins_tree (t : tree) (st : attrs) (p : Z) : tree * attrs * Z :=
    match t with
    | Leaf _ => (t, st, p)
    | Node a _ kids =>
        let '(ks, c, st', p') := ins_kids ins_tree kids (inherit st a) p in (Node a c ks, st', p')
    end.
End Ins.

(* ---------- operations ---------- *)
Inductive op :=
| OInsert (sel : list Z) (before : bool) (dim : option rect)
| ORemove (sel : list Z)
| OTrim (sel : list Z)
| OCollect (pages : list Z)
| ORotate (sel : list Z) (delta : Z)
| OAddBox (sel : list Z) (b : boxreq)
| ORmBox (sel : list Z) (q : rmreq)
| OCrop (sel : list Z) (bd : boxdef).

Definition all_pages (t : tree) : list Z := page_range 1 (count_of t).

Definition upd_op (sel : list Z) (pf : pageD -> attrs -> pageD) (t : tree) : tree :=
  fst (upd_tree (selb sel) pf t no_attrs 0).

Definition apply_op (o : op) (t : tree) : res tree :=
  match o with
  | OInsert sel before dim =>
      match t with
      | Node _ _ _ => Ok (fst (fst (ins_tree (selb sel) before dim t no_attrs 0)))
      | Leaf _ => Err
      end
  | ORemove sel => extract_pages t (filter (fun k => negb (selb sel k)) (all_pages t))   (* remaining pages, sorted *)
  | OTrim sel => extract_pages t (filter (selb sel) (all_pages t))                       (* selected pages, sorted *)
  | OCollect l => extract_pages t l                                                      (* given order, repetitions *)
  | ORotate sel delta => if Z.rem delta 90 =? 0 then Ok (upd_op sel (pf_rotate delta) t) else Err
  | OAddBox sel b => Ok (upd_op sel (pf_addbox b) t)
  | ORmBox sel q => Ok (upd_op sel (pf_rmbox q) t)
  | OCrop sel bd => Ok (upd_op sel (pf_addbox (mkBoxReq None (Some bd) None None None)) t)   (* Crop: ApplyBox("CropBox", b, d, inhPAttrs.MediaBox) *)
  end.

Fixpoint run (ops : list op) (t : tree) : res tree :=
  match ops with
  | [] => Ok t
  | o :: r => match apply_op o t with Ok t' => run r t' | Err => Err end
  end.

(* ---------- list-level specification ---------- *)
(* update the selected pages of a page list (positions p+1, p+2, ...) *)
Fixpoint upd_list (sel : Z -> bool) (pf : pageD -> attrs -> pageD) (p : Z) (l : list wpage) : list wpage :=
  match l with
  | [] => []
  | (d, i) :: r =>
      (if sel (p + 1) then (pf d (inherit i (pg_attrs d)), i) else (d, i)) :: upd_list sel pf (p + 1) r
  end.

(* insert one blank page (of some size, under the same parent) before/after exactly each selected page *)
Inductive ins_rel (sel : Z -> bool) (before : bool) : Z -> list wpage -> list wpage -> Prop :=
| ins_nil p : ins_rel sel before p [] []
| ins_skip p w l l' : sel (p + 1) = false -> ins_rel sel before (p + 1) l l' ->
    ins_rel sel before p (w :: l) (w :: l')
| ins_sel p d i mb l l' : sel (p + 1) = true -> ins_rel sel before (p + 1) l l' ->
    ins_rel sel before p ((d, i) :: l)
      (if before then (blank_page mb, i) :: (d, i) :: l' else (d, i) :: (blank_page mb, i) :: l').

(* the same on marker sequences *)
Fixpoint ins_ids (sel : Z -> bool) (before : bool) (p : Z) (l : list Z) : list Z :=
  match l with
  | [] => []
  | x :: r => (if sel (p + 1) then (if before then [0; x] else [x; 0]) else [x]) ++ ins_ids sel before (p + 1) r
  end.

Definition pick_ids (ids : list Z) (nrs : list Z) : list Z :=
  map (fun k => nth (Z.to_nat (k - 1)) ids 0) nrs.

Definition in_range (n : Z) (nrs : list Z) : bool := forallb (fun k => (1 <=? k) && (k <=? n)) nrs.

(* what every operation does to the marker sequence *)
Definition spec_op (o : op) (ids : list Z) : option (list Z) :=
  let n := lenZ ids in
  let all := page_range 1 n in
  match o with
  | OInsert sel before _ => Some (ins_ids (selb sel) before 0 ids)
  | ORemove sel => match filter (fun k => negb (selb sel k)) all with [] => None | l => Some (pick_ids ids l) end
  | OTrim sel => match filter (selb sel) all with [] => None | l => Some (pick_ids ids l) end
  | OCollect l => match l with [] => None | _ => if in_range n l then Some (pick_ids ids l) else None end
  | ORotate _ delta => if Z.rem delta 90 =? 0 then Some ids else None
  | OAddBox _ _ | ORmBox _ _ | OCrop _ _ => Some ids
  end.

Fixpoint spec_run (ops : list op) (ids : list Z) : option (list Z) :=
  match ops with
  | [] => Some ids
  | o :: r => match spec_op o ids with Some ids' => spec_run r ids' | None => None end
  end.

(* ---------- view-level specification of rotate / add boxes / crop and of their sequences ---------- *)
Definition set_rot (v : vpage) (r : Z) : vpage :=
  mkV (v_id v) r (v_media v) (v_crop v) (v_trim v) (v_bleed v) (v_art v).
Definition vf_rotate (delta : Z) (v : vpage) : vpage := set_rot v (compose_rot (v_rot v) delta).

(* add boxes on an observable page: Media and Crop are defined relative to the media box in effect;
   Trim, Bleed and Art relative to the EFFECTIVE CROP BOX if the page has one (defined in this call,
   earlier, or inherited) and to the media box otherwise *)
Definition vf_addbox (b : boxreq) (v : vpage) : vpage :=
  let m := match v_media v with Some m => m | None => a4 end in
  let crop' := opt_def (b_crop b) m (v_crop v) in
  let parent := match crop' with Some c => c | None => m end in
  mkV (v_id v) (v_rot v) (opt_def (b_media b) m (v_media v)) crop'
      (opt_def (b_trim b) parent (v_trim v)) (opt_def (b_bleed b) parent (v_bleed v))
      (opt_def (b_art b) parent (v_art v)).

Definition op_vf (o : op) : option (list Z * (vpage -> vpage)) :=
  match o with
  | ORotate sel delta => if Z.rem delta 90 =? 0 then Some (sel, vf_rotate delta) else None
  | OAddBox sel b => Some (sel, vf_addbox b)
  | OCrop sel bd => Some (sel, vf_addbox (mkBoxReq None (Some bd) None None None))
  | _ => None
  end.

Fixpoint vupd_list (sel : Z -> bool) (vf : vpage -> vpage) (p : Z) (l : list vpage) : list vpage :=
  match l with
  | [] => []
  | v :: r => (if sel (p + 1) then vf v else v) :: vupd_list sel vf (p + 1) r
  end.

(* a history of rotate / add-boxes / crop steps folded over the observable page list *)
Fixpoint vspec_run (ops : list op) (l : list vpage) : option (list vpage) :=
  match ops with
  | [] => Some l
  | o :: r => match op_vf o with
              | Some (sel, vf) => vspec_run r (vupd_list (selb sel) vf 0 l)
              | None => None
              end
  end.
