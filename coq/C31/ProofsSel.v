(* C31 — lemmas.  Part 3: selections (map state) and collections (list state). *)
From Coq Require Import ZArith NArith Bool List Lia ZifyBool ZifyNat ZifyN.
From PV Require Import Lib.GoInt C31.Model C31.Spec C31.Proofs C31.ProofsHandlers.
Import ListNotations.
Open Scope Z_scope.

(* ------------------------------------------------------------ even / odd *)
Lemma even_mod p : Z.even p = true <-> p mod 2 = 0.
Proof.
  rewrite Z.even_spec. split.
  - intros [q ->]. rewrite Z.mul_comm. apply Z_mod_mult.
  - intros H. exists (p / 2). pose proof (Z_div_mod_eq_full p 2). lia.
Qed.
Lemma odd_mod p : Z.odd p = true <-> p mod 2 = 1.
Proof.
  rewrite Z.odd_spec. split.
  - intros [q ->]. rewrite Z.add_comm, Z.mul_comm. rewrite Z_mod_plus_full. reflexivity.
  - intros H. exists (p / 2). pose proof (Z_div_mod_eq_full p 2). lia.
Qed.

Lemma in_zstep2 k : forall s p, In p (zstep2 s k) <-> s <= p < s + 2 * Z.of_nat k /\ (p - s) mod 2 = 0.
Proof.
  induction k as [|k IH]; intros s p.
  - simpl. lia.
  - cbn [zstep2 In]. rewrite IH. split.
    + intros [->|[H1 H2]].
      * rewrite Z.sub_diag. split; [lia|reflexivity].
      * split; [lia|]. replace (p - s) with ((p - (s + 2)) + 1 * 2) by lia.
        rewrite Z_mod_plus_full. assumption.
    + intros [H1 H2]. destruct (Z.eq_dec s p) as [E|E]; [left; assumption|right].
      assert (p <> s + 1).
      { intros ->. replace (s + 1 - s) with 1 in H2 by lia. discriminate. }
      split; [lia|]. replace (p - (s + 2)) with ((p - s) + (-1) * 2) by lia.
      rewrite Z_mod_plus_full. assumption.
Qed.

Lemma existsb_iff {A} (f : A -> bool) l (b : bool) :
  ((exists x, In x l /\ f x = true) <-> b = true) -> existsb f l = b.
Proof.
  intros H. apply eq_true_iff_eq. rewrite existsb_exists. exact H.
Qed.

Lemma existsb_evens n p : 0 <= n ->
  existsb (Z.eqb p) (zstep2 2 (Z.to_nat ((n - 2) / 2 + 1))) = (1 <=? p) && (p <=? n) && Z.even p.
Proof.
  intros Hn. apply existsb_iff.
  rewrite !andb_true_iff, !Z.leb_le, even_mod. split.
  - intros (x & Hin & Hx). apply Z.eqb_eq in Hx. subst x. apply in_zstep2 in Hin.
    destruct Hin as [H1 H2].
    replace (p - 2) with (p + (-1) * 2) in H2 by lia. rewrite Z_mod_plus_full in H2.
    pose proof (Z_div_mod_eq_full (n - 2) 2). pose proof (Z.mod_pos_bound (n - 2) 2). lia.
  - intros [[H1 H2] H3]. exists p. split; [|apply Z.eqb_refl]. apply in_zstep2.
    replace (p - 2) with (p + (-1) * 2) by lia. rewrite Z_mod_plus_full.
    pose proof (Z_div_mod_eq_full (n - 2) 2). pose proof (Z.mod_pos_bound (n - 2) 2).
    pose proof (Z_div_mod_eq_full p 2). pose proof (Z_div_mod_eq_full n 2). pose proof (Z.mod_pos_bound n 2).
    split; [|assumption]. lia.
Qed.

Lemma existsb_odds n p : 0 <= n ->
  existsb (Z.eqb p) (zstep2 1 (Z.to_nat ((n - 1) / 2 + 1))) = (1 <=? p) && (p <=? n) && Z.odd p.
Proof.
  intros Hn. apply existsb_iff.
  rewrite !andb_true_iff, !Z.leb_le, odd_mod. split.
  - intros (x & Hin & Hx). apply Z.eqb_eq in Hx. subst x. apply in_zstep2 in Hin.
    destruct Hin as [H1 H2].
    pose proof (Z_div_mod_eq_full (n - 1) 2). pose proof (Z.mod_pos_bound (n - 1) 2).
    pose proof (Z_div_mod_eq_full (p - 1) 2). pose proof (Z_div_mod_eq_full p 2). pose proof (Z.mod_pos_bound p 2).
    lia.
  - intros [[H1 H2] H3]. exists p. split; [|apply Z.eqb_refl]. apply in_zstep2.
    pose proof (Z_div_mod_eq_full (n - 1) 2). pose proof (Z.mod_pos_bound (n - 1) 2).
    pose proof (Z_div_mod_eq_full (p - 1) 2). pose proof (Z.mod_pos_bound (p - 1) 2).
    pose proof (Z_div_mod_eq_full p 2).
    lia.
Qed.

(* ------------------------------------------------------------ the map *)
Lemma mfind_mset p k v m : mfind p (mset k v m) = if p =? k then Some v else mfind p m.
Proof.
  induction m as [|[k' v'] m IH]; cbn [mset mfind].
  - reflexivity.
  - destruct (k <? k') eqn:E1; [reflexivity|].
    destruct (k =? k') eqn:E2.
    + apply Z.eqb_eq in E2. subst k'. cbn [mfind]. destruct (p =? k); reflexivity.
    + cbn [mfind]. rewrite IH. destruct (p =? k') eqn:E3; [|reflexivity].
      destruct (p =? k) eqn:E4; [lia|reflexivity].
Qed.

Lemma mfind_put_list neg l : forall m p,
  mfind p (put_list smap sel_put neg l m) = if existsb (Z.eqb p) l then Some (negb neg) else mfind p m.
Proof.
  induction l as [|j l IH]; intros m p; cbn [put_list fold_left existsb]; [reflexivity|].
  fold (put_list smap sel_put neg l (sel_put neg j m)). rewrite IH.
  unfold sel_put. rewrite mfind_mset.
  destruct (existsb (Z.eqb p) l); [rewrite orb_true_r; reflexivity|]. rewrite orb_false_r. reflexivity.
Qed.

Lemma mfind_fill_list l : forall m p,
  mfind p (fill_list smap sel_fill l m) =
  match mfind p m with None => if existsb (Z.eqb p) l then Some true else None | Some b => Some b end.
Proof.
  induction l as [|j l IH]; intros m p; cbn [fill_list fold_left existsb].
  - destruct (mfind p m); reflexivity.
  - fold (fill_list smap sel_fill l (sel_fill j m)). rewrite IH.
    unfold sel_fill. destruct (mfind j m) eqn:Ej.
    + destruct (mfind p m) eqn:Ep; [reflexivity|].
      destruct (p =? j) eqn:E; [|reflexivity]. apply Z.eqb_eq in E. subst j. congruence.
    + rewrite mfind_mset. destruct (p =? j) eqn:E.
      * apply Z.eqb_eq in E. subst j. rewrite Ej. reflexivity.
      * cbn [orb]. reflexivity.
Qed.

Lemma mfind_in p b m : In (p, b) m -> mfind p m <> None.
Proof.
  induction m as [|[k v] m IH]; cbn [In mfind]; [tauto|].
  intros [H|H].
  - inversion H. subst. rewrite Z.eqb_refl. discriminate.
  - destruct (p =? k); [discriminate|auto].
Qed.

(* ------------------------------------------------------------ selections *)
Lemma sel_calc_spec n e : 0 <= n -> forall m (f : Z -> option bool),
  (forall p, mfind p m = f p) ->
  match calc_spec smap sel_put sel_fill n e m with
  | Err => expr_fails n e = true
  | Ok m' => expr_fails n e = false /\ forall p, mfind p m' = fold_left (sel_step n p) e (f p)
  end.
Proof.
  intros Hn. induction e as [|t e IH]; intros m f Hf.
  - cbn. split; [reflexivity|assumption].
  - cbn [calc_spec expr_fails existsb fold_left]. destruct t as [| |k r]; cbn [tok_spec term_fails orb].
    + apply IH. intros p. rewrite mfind_fill_list, existsb_evens, Hf by assumption.
      cbn [sel_step]. destruct (f p); reflexivity.
    + apply IH. intros p. rewrite mfind_fill_list, existsb_odds, Hf by assumption.
      cbn [sel_step]. destruct (f p); reflexivity.
    + destruct (term_err n r); [reflexivity|]. cbn [orb]. unfold R. apply IH.
      intros p. rewrite mfind_put_list, existsb_zrange, Hf. reflexivity.
Qed.

Lemma sel_step_in_range n p t st b :
  (forall b', st = Some b' -> 1 <= p <= n) -> sel_step n p st t = Some b -> 1 <= p <= n.
Proof.
  intros Hst. destruct t as [| |k r]; cbn [sel_step].
  - destruct st; [intros _; eapply Hst; reflexivity|].
    destruct ((1 <=? p) && (p <=? n) && Z.even p) eqn:E; [lia|discriminate].
  - destruct st; [intros _; eapply Hst; reflexivity|].
    destruct ((1 <=? p) && (p <=? n) && Z.odd p) eqn:E; [lia|discriminate].
  - unfold in_term, bounds. cbn [fst snd].
    destruct ((Z.max 1 (fst (raw_bounds n r)) <=? p) && (p <=? Z.min n (snd (raw_bounds n r)))) eqn:E.
    + lia.
    + intros H. eapply Hst. exact H.
Qed.

Lemma sel_den_in_range n e p : forall st b,
  (forall b', st = Some b' -> 1 <= p <= n) -> fold_left (sel_step n p) e st = Some b -> 1 <= p <= n.
Proof.
  induction e as [|t e IH]; intros st b Hst; cbn [fold_left].
  - intros H. eapply Hst. exact H.
  - apply IH. intros b' Hb'. eapply sel_step_in_range; eassumption.
Qed.

(* ------------------------------------------------------------ collections *)
Lemma col_put_list_pos l : forall cp, put_list (list Z) col_put false l cp = cp ++ l.
Proof.
  induction l as [|j l IH]; intros cp; cbn [put_list fold_left]; [rewrite app_nil_r; reflexivity|].
  fold (put_list (list Z) col_put false l (col_put false j cp)). rewrite IH.
  unfold col_put. rewrite <- app_assoc. reflexivity.
Qed.

Lemma col_put_list_neg l : forall cp,
  put_list (list Z) col_put true l cp = filter (fun q => negb (existsb (Z.eqb q) l)) cp.
Proof.
  induction l as [|j l IH]; intros cp; cbn [put_list fold_left].
  - cbn [existsb negb]. induction cp as [|x cp IHc]; [reflexivity|]. cbn [filter]. f_equal. assumption.
  - fold (put_list (list Z) col_put true l (col_put true j cp)). rewrite IH.
    unfold col_put. clear IH. induction cp as [|x cp IHc]; [reflexivity|].
    cbn [filter existsb]. destruct (x =? j); cbn [negb orb filter]; rewrite IHc; reflexivity.
Qed.

Lemma col_fill_list l : forall cp, fill_list (list Z) col_fill l cp = cp ++ l.
Proof.
  induction l as [|j l IH]; intros cp; cbn [fill_list fold_left]; [rewrite app_nil_r; reflexivity|].
  fold (fill_list (list Z) col_fill l (col_fill j cp)). rewrite IH.
  unfold col_fill. rewrite <- app_assoc. reflexivity.
Qed.

Lemma zseq_SS a m : zseq a (S (S m)) = a :: (a + 1) :: zseq (a + 2) m.
Proof. cbn [zseq]. replace (a + 1 + 1) with (a + 2) by lia. reflexivity. Qed.

Lemma odd_plus2 a : Z.odd (a + 2) = Z.odd a.
Proof. replace (a + 2) with (Z.succ (Z.succ a)) by lia. rewrite Z.odd_succ, Z.even_succ. reflexivity. Qed.

Lemma filter_even_zseq k : forall a, Z.odd a = true ->
  filter Z.even (zseq a (2 * k)) = zstep2 (a + 1) k /\ filter Z.even (zseq a (S (2 * k))) = zstep2 (a + 1) k.
Proof.
  induction k as [|k IH]; intros a Ha.
  - cbn. rewrite <- Z.negb_odd, Ha. auto.
  - replace (2 * S k)%nat with (S (S (2 * k))) by lia.
    assert (Hev : Z.even a = false) by (rewrite <- Z.negb_odd, Ha; reflexivity).
    assert (Hev1 : Z.even (a + 1) = true) by (replace (a + 1) with (Z.succ a) by lia; rewrite Z.even_succ; assumption).
    destruct (IH (a + 2)) as [IH1 IH2]; [rewrite odd_plus2; assumption|].
    rewrite !zseq_SS. cbn [filter zstep2]. rewrite Hev, Hev1.
    replace (a + 1 + 2) with (a + 2 + 1) by lia. rewrite IH1, IH2. auto.
Qed.

Lemma filter_odd_zseq k : forall a, Z.odd a = true ->
  filter Z.odd (zseq a (2 * k)) = zstep2 a k /\ filter Z.odd (zseq a (S (2 * k))) = zstep2 a (S k).
Proof.
  induction k as [|k IH]; intros a Ha.
  - cbn. rewrite Ha. auto.
  - replace (2 * S k)%nat with (S (S (2 * k))) by lia.
    assert (Hod1 : Z.odd (a + 1) = false).
    { replace (a + 1) with (Z.succ a) by lia. rewrite Z.odd_succ, <- Z.negb_odd, Ha. reflexivity. }
    destruct (IH (a + 2)) as [IH1 IH2]; [rewrite odd_plus2; assumption|].
    rewrite !zseq_SS. cbn [filter]. rewrite Ha, Hod1, IH1, IH2. cbn [zstep2]. auto.
Qed.

Lemma evens_loop n : 0 <= n -> zstep2 2 (Z.to_nat ((n - 2) / 2 + 1)) = evens n.
Proof.
  intros Hn. unfold evens, zrange.
  pose proof (Z_div_mod_eq_full n 2) as Hd. pose proof (Z.mod_pos_bound n 2) as Hm.
  pose proof (Z_div_mod_eq_full (n - 2) 2) as Hd2. pose proof (Z.mod_pos_bound (n - 2) 2) as Hm2.
  set (k := Z.to_nat (n / 2)).
  replace (Z.to_nat ((n - 2) / 2 + 1)) with k by lia.
  destruct (filter_even_zseq k 1 eq_refl) as [H1 H2].
  destruct (Z.eq_dec (n mod 2) 0) as [E|E].
  - replace (Z.to_nat (n - 1 + 1)) with (2 * k)%nat by lia. rewrite H1. reflexivity.
  - replace (Z.to_nat (n - 1 + 1)) with (S (2 * k)) by lia. rewrite H2. reflexivity.
Qed.

Lemma odds_loop n : 0 <= n -> zstep2 1 (Z.to_nat ((n - 1) / 2 + 1)) = odds n.
Proof.
  intros Hn. unfold odds, zrange.
  pose proof (Z_div_mod_eq_full n 2) as Hd. pose proof (Z.mod_pos_bound n 2) as Hm.
  pose proof (Z_div_mod_eq_full (n - 1) 2) as Hd2. pose proof (Z.mod_pos_bound (n - 1) 2) as Hm2.
  set (k := Z.to_nat (n / 2)).
  destruct (filter_odd_zseq k 1 eq_refl) as [H1 H2].
  destruct (Z.eq_dec (n mod 2) 0) as [E|E].
  - replace (Z.to_nat (n - 1 + 1)) with (2 * k)%nat by lia.
    replace (Z.to_nat ((n - 1) / 2 + 1)) with k by lia. rewrite H1. reflexivity.
  - replace (Z.to_nat (n - 1 + 1)) with (S (2 * k)) by lia.
    replace (Z.to_nat ((n - 1) / 2 + 1)) with (S k) by lia. rewrite H2. reflexivity.
Qed.

Lemma col_calc_spec n e : 0 <= n -> forall cp,
  calc_spec (list Z) col_put col_fill n e cp =
  if expr_fails n e then Err else Ok (fold_left (col_step n) e cp).
Proof.
  intros Hn. induction e as [|t e IH]; intros cp; [reflexivity|].
  cbn [calc_spec expr_fails existsb fold_left]. destruct t as [| |k r]; cbn [tok_spec term_fails orb col_step].
  - rewrite col_fill_list, evens_loop by assumption. apply IH.
  - rewrite col_fill_list, odds_loop by assumption. apply IH.
  - destruct (term_err n r); [reflexivity|]. cbn [orb]. unfold R.
    assert (Hf : forall l, filter (fun q => negb (existsb (Z.eqb q) (zrange (fst (bounds n r)) (snd (bounds n r))))) l
                           = filter (fun q => negb (in_term n r q)) l).
    { apply filter_ext. intros q. rewrite existsb_zrange. reflexivity. }
    destruct k; cbn [negated].
    + rewrite col_put_list_pos. apply IH.
    + rewrite col_put_list_neg, IH, Hf. reflexivity.
    + rewrite col_put_list_neg, IH, Hf. reflexivity.
Qed.

Lemma col_step_in_range n acc t :
  Forall (in_pages n) acc -> Forall (in_pages n) (col_step n acc t).
Proof.
  intros H. destruct t as [| |k r]; cbn [col_step].
  - apply Forall_app. split; [assumption|]. apply Forall_forall. intros p Hp.
    apply filter_In in Hp as [Hp _]. apply in_zrange in Hp. exact Hp.
  - apply Forall_app. split; [assumption|]. apply Forall_forall. intros p Hp.
    apply filter_In in Hp as [Hp _]. apply in_zrange in Hp. exact Hp.
  - destruct (negated k).
    + apply Forall_forall. intros p Hp. apply filter_In in Hp as [Hp _].
      rewrite Forall_forall in H. auto.
    + apply Forall_app. split; [assumption|]. apply Forall_forall. intros p Hp.
      apply in_zrange in Hp. unfold bounds in Hp. cbn [fst snd] in Hp. unfold in_pages. lia.
Qed.

Lemma col_den_in_range n e : forall acc,
  Forall (in_pages n) acc -> Forall (in_pages n) (fold_left (col_step n) e acc).
Proof.
  induction e as [|t e IH]; intros acc H; cbn [fold_left]; [assumption|].
  apply IH, col_step_in_range, H.
Qed.
