(* C19 — reference data for the key-list theorems: the entries of the document catalog
   (ISO 32000-1 Table 28, plus /Extensions of the Adobe supplement), of a page object (Table 30)
   and the inheritable entries of a page tree node (Table 29) whose values can be or contain
   indirect objects, and some PDF 2.0 (ISO 32000-2) additions.  No proofs. *)
From Coq Require Import List NArith.
From PV Require Import C19.Model.
Import ListNotations.
Definition iso32000_1_catalog_keys : list bytes := [
  [69;120;116;101;110;115;105;111;110;115]%N; (* Extensions *)
  [80;97;103;101;76;97;98;101;108;115]%N; (* PageLabels *)
  [78;97;109;101;115]%N; (* Names *)
  [68;101;115;116;115]%N; (* Dests *)
  [86;105;101;119;101;114;80;114;101;102;101;114;101;110;99;101;115]%N; (* ViewerPreferences *)
  [80;97;103;101;76;97;121;111;117;116]%N; (* PageLayout *)
  [80;97;103;101;77;111;100;101]%N; (* PageMode *)
  [79;117;116;108;105;110;101;115]%N; (* Outlines *)
  [84;104;114;101;97;100;115]%N; (* Threads *)
  [79;112;101;110;65;99;116;105;111;110]%N; (* OpenAction *)
  [65;65]%N; (* AA *)
  [85;82;73]%N; (* URI *)
  [65;99;114;111;70;111;114;109]%N; (* AcroForm *)
  [77;101;116;97;100;97;116;97]%N; (* Metadata *)
  [83;116;114;117;99;116;84;114;101;101;82;111;111;116]%N; (* StructTreeRoot *)
  [77;97;114;107;73;110;102;111]%N; (* MarkInfo *)
  [76;97;110;103]%N; (* Lang *)
  [83;112;105;100;101;114;73;110;102;111]%N; (* SpiderInfo *)
  [79;117;116;112;117;116;73;110;116;101;110;116;115]%N; (* OutputIntents *)
  [80;105;101;99;101;73;110;102;111]%N; (* PieceInfo *)
  [79;67;80;114;111;112;101;114;116;105;101;115]%N; (* OCProperties *)
  [80;101;114;109;115]%N; (* Perms *)
  [76;101;103;97;108]%N; (* Legal *)
  [82;101;113;117;105;114;101;109;101;110;116;115]%N; (* Requirements *)
  [67;111;108;108;101;99;116;105;111;110]%N; (* Collection *)
  [78;101;101;100;115;82;101;110;100;101;114;105;110;103]%N (* NeedsRendering *)
].
Definition iso32000_1_page_keys : list bytes := [
  [76;97;115;116;77;111;100;105;102;105;101;100]%N; (* LastModified *)
  [82;101;115;111;117;114;99;101;115]%N; (* Resources *)
  [77;101;100;105;97;66;111;120]%N; (* MediaBox *)
  [67;114;111;112;66;111;120]%N; (* CropBox *)
  [66;108;101;101;100;66;111;120]%N; (* BleedBox *)
  [84;114;105;109;66;111;120]%N; (* TrimBox *)
  [65;114;116;66;111;120]%N; (* ArtBox *)
  [66;111;120;67;111;108;111;114;73;110;102;111]%N; (* BoxColorInfo *)
  [67;111;110;116;101;110;116;115]%N; (* Contents *)
  [82;111;116;97;116;101]%N; (* Rotate *)
  [71;114;111;117;112]%N; (* Group *)
  [84;104;117;109;98]%N; (* Thumb *)
  [66]%N; (* B *)
  [68;117;114]%N; (* Dur *)
  [84;114;97;110;115]%N; (* Trans *)
  [65;110;110;111;116;115]%N; (* Annots *)
  [65;65]%N; (* AA *)
  [77;101;116;97;100;97;116;97]%N; (* Metadata *)
  [80;105;101;99;101;73;110;102;111]%N; (* PieceInfo *)
  [83;116;114;117;99;116;80;97;114;101;110;116;115]%N; (* StructParents *)
  [73;68]%N; (* ID *)
  [80;90]%N; (* PZ *)
  [83;101;112;97;114;97;116;105;111;110;73;110;102;111]%N; (* SeparationInfo *)
  [84;97;98;115]%N; (* Tabs *)
  [84;101;109;112;108;97;116;101;73;110;115;116;97;110;116;105;97;116;101;100]%N; (* TemplateInstantiated *)
  [80;114;101;115;83;116;101;112;115]%N; (* PresSteps *)
  [85;115;101;114;85;110;105;116]%N; (* UserUnit *)
  [86;80]%N (* VP *)
].
Definition iso32000_1_pages_keys : list bytes := [
  [82;101;115;111;117;114;99;101;115]%N; (* Resources *)
  [77;101;100;105;97;66;111;120]%N; (* MediaBox *)
  [67;114;111;112;66;111;120]%N; (* CropBox *)
  [82;111;116;97;116;101]%N (* Rotate *)
].
Definition kDSS : bytes := [68;83;83]%N.
Definition kAF : bytes := [65;70]%N.
Definition kDPartRoot : bytes := [68;80;97;114;116;82;111;111;116]%N.
Definition kOutputIntents : bytes := [79;117;116;112;117;116;73;110;116;101;110;116;115]%N.
Definition kDPart : bytes := [68;80;97;114;116]%N.
Definition kFoo : bytes := [70;111;111]%N.
