// Harness for C29: "Removing signatures removes them all and nothing else".
//
// Generates raw PDFs with AcroForm field forests (depth 1..4, mixed Tx/Btn/Ch/Sig, inherited /FT,
// merged field/widget dictionaries and separate widget kids, widgets with/without/with wrong /P,
// shared annotations, orphan widgets, /Perms DocMDP/UR3, /SigFlags, /DSS, /Extensions), runs
//
//	(a) api.ReadAndValidate with Cmd=REMOVESIGNATURES and inspects the in-memory context, and
//	(b) api.RemoveSignaturesFile end to end, re-reading the written file,
//
// and records both as correspondence cases against the extracted Coq model (K).  The property
// itself is evaluated on the re-read output (O): no signature field / widget / value / Perms /
// SigFlags / DSS left; every non-signature field and annotation, the page order and the page
// contents unchanged; documents without signatures yield ErrNoSignatures and no output.
// The signed sample PDFs shipped with pdfcpu go through (b) and the generic part of (O).
package main

import (
	"bytes"
	"errors"
	"fmt"
	"os"
	"path/filepath"
	"sort"
	"strconv"
	"strings"

	"github.com/pdfcpu/pdfcpu/pkg/api"
	"github.com/pdfcpu/pdfcpu/pkg/pdfcpu/model"
	"github.com/pdfcpu/pdfcpu/pkg/pdfcpu/types"
	"verif/vh"
)

// ---------------------------------------------------------------- document description

type node struct {
	id     int
	ft     string // "", Tx, Btn, Ch, Sig
	widget bool
	rect   bool
	p      int // page object number, 0 = no /P
	kids   []*node
	parent *node
	signed bool // has /V -> signature dictionary
}

type other struct {
	id     int
	ft     string
	widget bool
}

type pageSpec struct {
	obj    int
	annots []int
	absent bool // no /Annots entry
}

type docSpec struct {
	fields                    []*node
	sf, perm, dss, legal, ext bool
	perms                     int // bit 0: /Perms /DocMDP, bit 1: /Perms /UR3
	layout                    int // 0 regular AcroForm; no usable form: 1 no /AcroForm, 2 /AcroForm without /Fields, 3 /Fields [] with /SigFlags
	pages                     []pageSpec
	others                    []other
	next                      int // next free object number
	acroObj                   int
}

func (d *docSpec) newID() int { d.next++; return d.next - 1 }

func ftChar(ft string) string {
	switch ft {
	case "":
		return "-"
	case "Tx":
		return "T"
	case "Btn":
		return "B"
	case "Ch":
		return "C"
	case "Sig":
		return "S"
	}
	panic("ft " + ft)
}

func hx(i int) string { return strconv.FormatInt(int64(i), 16) }
func bit(b bool) string {
	if b {
		return "1"
	}
	return "0"
}

func encNode(n *node, sb *strings.Builder) {
	p := "-"
	if n.p != 0 {
		p = hx(n.p)
	}
	fmt.Fprintf(sb, "%s:%s:%s:%s:%s(", hx(n.id), ftChar(n.ft), bit(n.widget), bit(n.rect), p)
	for _, k := range n.kids {
		encNode(k, sb)
	}
	sb.WriteString(")")
}

func hexList(l []int) string {
	s := make([]string, len(l))
	for i, v := range l {
		s[i] = hx(v)
	}
	return strings.Join(s, ",")
}

// model arguments: fields, flags, pages, others
func (d *docSpec) args() []string {
	var sb strings.Builder
	for _, f := range d.fields {
		encNode(f, &sb)
	}
	flags := bit(d.sf) + bit(d.perms != 0) + bit(d.perm) + bit(d.dss) + bit(d.legal) + bit(d.ext)
	ps := make([]string, len(d.pages))
	for i, p := range d.pages {
		if p.absent {
			ps[i] = hx(p.obj) + ":-"
		} else {
			ps[i] = hx(p.obj) + ":" + hexList(p.annots)
		}
	}
	ots := make([]string, len(d.others))
	for i, o := range d.others {
		ots[i] = hx(o.id) + ":" + ftChar(o.ft)
	}
	return []string{sb.String(), flags, strings.Join(ps, "|"), strings.Join(ots, ",")}
}

// ---------------------------------------------------------------- PDF writer

const sigDict = "<</Type/Sig/Filter/Adobe.PPKLite/SubFilter/adbe.pkcs7.detached/Contents<3000>/ByteRange[0 1 2 3]>>"

func pageContent(i int) string { return fmt.Sprintf("q 0 0 %d %d re f Q", 10+i, 20+i) }

func (d *docSpec) build() []byte {
	objs := map[int]string{}
	d2 := *d // object numbers for signature values are allocated on a copy
	refs := func(l []int) string {
		s := make([]string, len(l))
		for i, v := range l {
			s[i] = fmt.Sprintf("%d 0 R", v)
		}
		return strings.Join(s, " ")
	}
	// catalog
	cat := "<</Type/Catalog/Pages 2 0 R"
	if len(d.fields) > 0 || d.layout >= 2 {
		cat += fmt.Sprintf("/AcroForm %d 0 R", d.acroObj)
	}
	switch {
	case len(d.fields) > 0:
	case d.layout == 2: // validation drops an AcroForm without /Fields and leaves xRefTable.Form nil
		objs[d.acroObj] = "<</DA(/Helv 0 Tf 0 g)/SigFlags 3>>"
	case d.layout == 3: // ... and one with an empty /Fields array
		objs[d.acroObj] = "<</Fields[]/SigFlags 3/DA(/Helv 0 Tf 0 g)>>"
	}
	if d.perms != 0 {
		pd := ""
		if d.perms&1 != 0 {
			id := d2.newID()
			objs[id] = "<</Type/Sig/Filter/Adobe.PPKLite/SubFilter/adbe.pkcs7.detached/Contents<3000>/ByteRange[0 1 2 3]" +
				"/Reference[<</Type/SigRef/TransformMethod/DocMDP/TransformParams<</Type/TransformParams/P 2/V/1.2>>>>]>>"
			pd += fmt.Sprintf("/DocMDP %d 0 R", id)
		}
		if d.perms&2 != 0 {
			id := d2.newID()
			objs[id] = "<</Type/Sig/Filter/Adobe.PPKLite/SubFilter/adbe.pkcs7.detached/Contents<3000>/ByteRange[0 1 2 3]" +
				"/Reference[<</Type/SigRef/TransformMethod/UR3/TransformParams<</Type/TransformParams/V/2.2/Document[/FullSave]>>>>]>>"
			pd += fmt.Sprintf("/UR3 %d 0 R", id)
		}
		cat += "/Perms<<" + pd + ">>"
	}
	if d.perm {
		cat += "/Perm<<>>"
	}
	if d.dss {
		cat += "/DSS<<>>"
	}
	if d.legal {
		cat += "/Legal<<>>"
	}
	if d.ext {
		cat += "/Extensions<</ADBE<</BaseVersion/1.7/ExtensionLevel 8>>>>"
	}
	objs[1] = cat + ">>"
	// pages
	pobjs := make([]int, len(d.pages))
	for i, p := range d.pages {
		pobjs[i] = p.obj
		c := d2.newID()
		body := pageContent(i)
		objs[c] = fmt.Sprintf("<</Length %d>>\nstream\n%s\nendstream", len(body), body)
		s := fmt.Sprintf("<</Type/Page/Parent 2 0 R/MediaBox[0 0 %d 200]/Contents %d 0 R", 200+i, c)
		if !p.absent {
			s += "/Annots[" + refs(p.annots) + "]"
		}
		objs[p.obj] = s + ">>"
	}
	objs[2] = fmt.Sprintf("<</Type/Pages/Kids[%s]/Count %d>>", refs(pobjs), len(pobjs))
	// form
	if len(d.fields) > 0 {
		top := make([]int, len(d.fields))
		for i, f := range d.fields {
			top[i] = f.id
		}
		s := "<</Fields[" + refs(top) + "]/DA(/Helv 0 Tf 0 g)"
		if d.sf {
			s += "/SigFlags 3"
		}
		objs[d.acroObj] = s + ">>"
	}
	var emit func(n *node)
	emit = func(n *node) {
		s := fmt.Sprintf("<</T(n%d)", n.id)
		if n.ft != "" {
			s += "/FT/" + n.ft
		}
		if n.parent != nil {
			s += fmt.Sprintf("/Parent %d 0 R", n.parent.id)
		}
		if n.widget {
			s += "/Type/Annot/Subtype/Widget"
		}
		if n.rect {
			s += fmt.Sprintf("/Rect[10 10 %d 30]", 40+n.id%50)
		}
		if n.p != 0 {
			s += fmt.Sprintf("/P %d 0 R", n.p)
		}
		if n.signed {
			v := d2.newID()
			objs[v] = sigDict
			s += fmt.Sprintf("/V %d 0 R", v)
		}
		if len(n.kids) > 0 {
			ks := make([]int, len(n.kids))
			for i, k := range n.kids {
				ks[i] = k.id
			}
			s += "/Kids[" + refs(ks) + "]"
		}
		objs[n.id] = s + ">>"
		for _, k := range n.kids {
			emit(k)
		}
	}
	for _, f := range d.fields {
		emit(f)
	}
	for _, o := range d.others {
		if o.widget {
			s := fmt.Sprintf("<</Type/Annot/Subtype/Widget/T(n%d)/Rect[10 10 40 30]", o.id)
			if o.ft != "" {
				s += "/FT/" + o.ft
			}
			objs[o.id] = s + ">>"
		} else {
			objs[o.id] = fmt.Sprintf("<</Type/Annot/Subtype/Text/NM(n%d)/Contents(note %d)/Rect[50 50 70 70]>>", o.id, o.id)
		}
	}
	// file
	max := d2.next - 1
	var b bytes.Buffer
	b.WriteString("%PDF-1.7\n%\xe2\xe3\xcf\xd3\n")
	offs := make([]int, max+1)
	for i := 1; i <= max; i++ {
		o, ok := objs[i]
		if !ok {
			o = "null"
		}
		offs[i] = b.Len()
		fmt.Fprintf(&b, "%d 0 obj\n%s\nendobj\n", i, o)
	}
	x := b.Len()
	fmt.Fprintf(&b, "xref\n0 %d\n0000000000 65535 f \n", max+1)
	for i := 1; i <= max; i++ {
		fmt.Fprintf(&b, "%010d 00000 n \n", offs[i])
	}
	fmt.Fprintf(&b, "trailer\n<</Size %d/Root 1 0 R>>\nstartxref\n%d\n%%%%EOF\n", max+1, x)
	return b.Bytes()
}

// ---------------------------------------------------------------- specification side (Go)

type nodeEff struct {
	id  int
	eff string
}

func effOf(inh, ft string) string {
	if ft != "" {
		return ft
	}
	return inh
}

func walk(n *node, inh string, out *[]nodeEff) {
	e := effOf(inh, n.ft)
	*out = append(*out, nodeEff{n.id, e})
	for _, k := range n.kids {
		walk(k, e, out)
	}
}

func (d *docSpec) forest() []nodeEff {
	var out []nodeEff
	for _, f := range d.fields {
		walk(f, "", &out)
	}
	return out
}

func (d *docSpec) onSomePage(id int) bool {
	for _, p := range d.pages {
		for _, a := range p.annots {
			if a == id {
				return true
			}
		}
	}
	return false
}

// sig_ids of the Coq model
func (d *docSpec) sigIDs() []int {
	var l []int
	for _, n := range d.forest() {
		if n.eff == "Sig" {
			l = append(l, n.id)
		}
	}
	for _, o := range d.others {
		if o.ft == "Sig" && d.onSomePage(o.id) {
			l = append(l, o.id)
		}
	}
	return l
}

func ownSig(n *node) bool {
	if n.ft == "Sig" {
		return true
	}
	for _, k := range n.kids {
		if ownSig(k) {
			return true
		}
	}
	return false
}

func keep(n *node) bool { return n.ft != "" && n.ft != "Sig" }

type op struct{ page, id int }

func ops(f *node) []op {
	var l []op
	kid := func() {
		if len(f.kids) == 1 {
			k := f.kids[0]
			if k.widget && k.rect && k.p != 0 {
				l = append(l, op{k.p, k.id})
			}
		}
	}
	if f.widget {
		if !f.rect || f.p == 0 {
			return nil
		}
		l = append(l, op{f.p, f.id})
	}
	kid()
	return l
}

// `supported` of the Coq model, computed independently (K-compared with the extracted one)
func (d *docSpec) supported() bool {
	if len(d.fields) == 0 {
		return false
	}
	for _, f := range d.fields {
		switch f.ft {
		case "":
			return false
		case "Sig":
			var ns []nodeEff
			walk(f, "", &ns)
			for _, n := range ns {
				if n.eff != "Sig" {
					return false
				}
			}
		default:
			if ownSig(f) {
				return false
			}
		}
	}
	for _, o := range d.others {
		if o.ft == "Sig" && d.onSomePage(o.id) {
			return false
		}
	}
	sig := map[int]bool{}
	for _, s := range d.sigIDs() {
		sig[s] = true
	}
	all := map[op]bool{}
	for _, f := range d.fields {
		if !keep(f) {
			for _, o := range ops(f) {
				all[o] = true
			}
		}
	}
	for _, p := range d.pages {
		for _, a := range p.annots {
			if sig[a] && !all[op{p.obj, a}] {
				return false
			}
		}
	}
	return true
}

func (d *docSpec) find(id int) *node {
	var rec func(n *node) *node
	rec = func(n *node) *node {
		if n.id == id {
			return n
		}
		for _, k := range n.kids {
			if x := rec(k); x != nil {
				return x
			}
		}
		return nil
	}
	for _, f := range d.fields {
		if x := rec(f); x != nil {
			return x
		}
	}
	return nil
}

func top(n *node) *node {
	for n.parent != nil {
		n = n.parent
	}
	return n
}

// ---------------------------------------------------------------- observation of a context

type obs struct {
	acro, sf, perms, perm, dss, legal, ext bool
	fields                                 []int
	pages                                  [][]int
	absent                                 []bool
	forest                                 []nodeEff
	contentOK                              bool
	sigValue                               bool // a dictionary with /ByteRange is in the xref table
	problems                               []string
}

func nameID(d types.Dict) int {
	for _, k := range []string{"T", "NM"} {
		if s, err := d.StringOrHexLiteralEntry(k); err == nil && s != nil {
			if strings.HasPrefix(*s, "n") {
				if v, err := strconv.Atoi((*s)[1:]); err == nil {
					return v
				}
			}
		}
	}
	return -1
}

func observe(x *model.XRefTable, wantPages int, scan bool) (o obs) {
	root, err := x.Catalog()
	if err != nil {
		o.problems = append(o.problems, "catalog: "+err.Error())
		return
	}
	_, o.acro = root.Find("AcroForm")
	_, o.perms = root.Find("Perms")
	_, o.perm = root.Find("Perm")
	_, o.dss = root.Find("DSS")
	_, o.legal = root.Find("Legal")
	_, o.ext = root.Find("Extensions")
	if o.acro {
		fd, err := x.DereferenceDict(root["AcroForm"])
		if err != nil || fd == nil {
			o.problems = append(o.problems, "acroform deref")
		} else {
			_, o.sf = fd.Find("SigFlags")
			arr, _ := x.DereferenceArray(fd["Fields"])
			seen := map[int]bool{}
			var rec func(ob types.Object, inh string, depth int)
			rec = func(ob types.Object, inh string, depth int) {
				d, err := x.DereferenceDict(ob)
				if err != nil || d == nil || depth > 64 {
					o.problems = append(o.problems, "field deref")
					return
				}
				id := nameID(d)
				if seen[id] {
					o.problems = append(o.problems, "field twice")
					return
				}
				seen[id] = true
				e := inh
				if ft := d.NameEntry("FT"); ft != nil {
					e = *ft
				}
				o.forest = append(o.forest, nodeEff{id, e})
				ks, _ := x.DereferenceArray(d["Kids"])
				for _, k := range ks {
					rec(k, e, depth+1)
				}
			}
			for _, f := range arr {
				d, _ := x.DereferenceDict(f)
				if d != nil {
					o.fields = append(o.fields, nameID(d))
				} else {
					o.fields = append(o.fields, -1)
				}
				rec(f, "", 0)
			}
		}
	}
	o.contentOK = true
	if x.PageCount != wantPages {
		o.problems = append(o.problems, fmt.Sprintf("page count %d want %d", x.PageCount, wantPages))
		o.contentOK = false
	}
	for i := 1; i <= x.PageCount; i++ {
		pd, _, _, err := x.PageDict(i, false)
		if err != nil || pd == nil {
			o.problems = append(o.problems, "page dict")
			o.pages = append(o.pages, nil)
			o.absent = append(o.absent, true)
			continue
		}
		ao, ok := pd.Find("Annots")
		if !ok {
			o.pages = append(o.pages, nil)
			o.absent = append(o.absent, true)
		} else {
			arr, _ := x.DereferenceArray(ao)
			l := []int{}
			for _, a := range arr {
				d, _ := x.DereferenceDict(a)
				if d == nil {
					l = append(l, -1)
				} else {
					l = append(l, nameID(d))
				}
			}
			o.pages = append(o.pages, l)
			o.absent = append(o.absent, false)
		}
		if wantPages > 0 {
			bb, err := x.PageContent(pd, i)
			mb := pd.ArrayEntry("MediaBox")
			if err != nil || strings.TrimSpace(string(bb)) != pageContent(i-1) || len(mb) != 4 || mb[2].String() != strconv.Itoa(200+i-1) {
				o.contentOK = false
			}
		}
	}
	if scan {
		for nr, e := range x.Table {
			if nr == 0 || e == nil || e.Free || e.Object == nil {
				continue
			}
			if d, ok := e.Object.(types.Dict); ok {
				if _, ok := d.Find("ByteRange"); ok {
					o.sigValue = true
				}
			}
		}
	}
	return
}

func (o *obs) render(d *docSpec) string {
	if len(o.pages) != len(d.pages) {
		return "ok:pages-count-mismatch"
	}
	ps := make([]string, len(o.pages))
	for i := range o.pages {
		if o.absent[i] {
			ps[i] = hx(d.pages[i].obj) + ":-"
		} else {
			ps[i] = hx(d.pages[i].obj) + ":" + hexList(o.pages[i])
		}
	}
	return fmt.Sprintf("ok:acro=%s;fields=%s;sf=%s;perms=%s;perm=%s;dss=%s;legal=%s;ext=%s;pages=%s",
		bit(o.acro), hexList(o.fields), bit(o.sf), bit(o.perms), bit(o.perm), bit(o.dss), bit(o.legal), bit(o.ext),
		strings.Join(ps, "|"))
}

func renderNodes(l []nodeEff) string {
	s := make([]string, len(l))
	for i, n := range l {
		s[i] = hx(n.id) + ":" + ftChar(n.eff)
	}
	return strings.Join(s, ",")
}

// ---------------------------------------------------------------- running the implementation

func conf(cmd model.CommandMode) *model.Configuration {
	c := model.NewDefaultConfiguration()
	c.Cmd = cmd
	return c
}

func safely(f func() error) (err error) {
	defer func() {
		if p := recover(); p != nil {
			err = fmt.Errorf("PANIC: %v", p)
		}
	}()
	return f()
}

type runner struct {
	r   *vh.Run
	dir string
	n   int
}

func errText(err error) string {
	s := err.Error()
	if len(s) > 120 {
		s = s[:120]
	}
	return vh.Hex([]byte(s))
}

func (h *runner) doc(d *docSpec, label string) {
	r := h.r
	in := d.build()
	args := d.args()
	input := map[string]any{"label": label, "fields": args[0], "flags": args[1], "pages": args[2], "others": args[3], "pdf_hex": vh.Hex(in)}

	// the generated file must be a valid PDF for pdfcpu, otherwise it says nothing about C29
	if err := safely(func() error { _, e := api.ReadAndValidate(bytes.NewReader(in), conf(model.VALIDATE)); return e }); err != nil {
		r.Count("gen:rejected-by-validation")
		if os.Getenv("C29_DEBUG") != "" {
			fmt.Fprintln(os.Stderr, "rejected:", label, err, args)
		}
		return
	}
	h.n++
	sig := d.sigIDs()
	sigSet := map[int]bool{}
	for _, s := range sig {
		sigSet[s] = true
	}
	sup := d.supported()
	r.Case("supported", args, vh.Bool(sup))
	r.Case("sigids", args, hexList(sig))
	var nonsig []nodeEff
	for _, n := range d.forest() {
		if n.eff != "Sig" {
			nonsig = append(nonsig, n)
		}
	}
	r.Case("nonsig", args, renderNodes(nonsig))
	r.Count("class:supported=" + vh.Bool(sup))
	if len(sig) == 0 {
		r.Count("class:no-signatures")
	} else {
		r.Count("class:signatures,supported=" + vh.Bool(sup))
	}
	r.Count(fmt.Sprintf("class:forest-nodes=%d", min(len(d.forest()), 12)))

	// (a) context level
	var ctx *model.Context
	err := safely(func() error {
		var e error
		ctx, e = api.ReadAndValidate(bytes.NewReader(in), conf(model.REMOVESIGNATURES))
		return e
	})
	switch {
	case err == nil:
		o := observe(ctx.XRefTable, 0, false)
		r.Case("remove", args, o.render(d))
	case errors.Is(err, api.ErrNoSignatures):
		r.Case("remove", args, "err:nosigs")
	default:
		r.Case("remove", args, "err:other:"+errText(err))
	}

	// (b) end to end through the file API
	inFile := filepath.Join(h.dir, "in.pdf")
	outFile := filepath.Join(h.dir, "out.pdf")
	os.Remove(outFile)
	if e := os.WriteFile(inFile, in, 0o644); e != nil {
		panic(e)
	}
	err = safely(func() error { return api.RemoveSignaturesFile(inFile, outFile, nil) })
	fail := func(class, detail string) {
		r.OracleFail(class, input, detail)
		r.Count("finding:" + class)
	}
	nfail := 0
	failS := func(class, detail string) { nfail++; fail(class, detail) }

	if len(sig) == 0 {
		// no signatures: ErrNoSignatures, nothing written, in-place input untouched
		switch {
		case err == nil:
			fail("no-sigs-no-error", "RemoveSignaturesFile succeeded on a document without signature dictionaries")
		case !errors.Is(err, api.ErrNoSignatures):
			fail("no-sigs-wrong-error", err.Error())
		default:
			r.OracleOK()
		}
		if _, e := os.Stat(outFile); e == nil {
			fail("no-sigs-output-written", "output file exists after ErrNoSignatures")
		} else {
			r.OracleOK()
		}
		ents, _ := os.ReadDir(h.dir)
		if len(ents) != 1 {
			fail("no-sigs-output-written", fmt.Sprintf("%d directory entries after the failed call (temp file left?)", len(ents)))
		}
		err2 := safely(func() error { return api.RemoveSignaturesFile(inFile, "", nil) })
		after, _ := os.ReadFile(inFile)
		if err2 == nil || !bytes.Equal(after, in) {
			fail("no-sigs-output-written", "in-place call changed the input file or did not fail")
		} else {
			r.OracleOK()
		}
		if d.perms&2 != 0 && err != nil {
			fail("usage-rights-only-rejected", "document whose only signature is /Perms /UR3: "+err.Error()+"; the usage-rights entry cannot be removed")
		}
		if err != nil && errors.Is(err, api.ErrNoSignatures) {
			r.Case("remove_e2e", args, "err:nosigs")
		} else if err != nil {
			r.Case("remove_e2e", args, "err:other:"+errText(err))
		} else {
			r.Case("remove_e2e", args, "ok:unexpected")
		}
		return
	}

	if err != nil {
		if errors.Is(err, api.ErrNoSignatures) {
			r.Case("remove_e2e", args, "err:nosigs")
			fail("signed-doc-reported-unsigned", err.Error())
		} else {
			r.Case("remove_e2e", args, "err:other:"+errText(err))
			fail("signed-doc-error", err.Error())
		}
		return
	}
	out, _ := os.ReadFile(outFile)
	var ctx2 *model.Context
	err = safely(func() error {
		var e error
		ctx2, e = api.ReadAndValidate(bytes.NewReader(out), conf(model.VALIDATE))
		return e
	})
	if err != nil {
		r.Case("remove_e2e", args, "err:output-unreadable")
		fail("output-invalid", err.Error())
		return
	}
	o := observe(ctx2.XRefTable, len(d.pages), true)
	r.Case("remove_e2e", args, o.render(d))
	r.Case("forest_after", args, "ok:"+renderNodes(o.forest))

	// ---- the property, on the re-read output ----
	for _, p := range o.problems {
		failS("output-structure", p)
	}
	survivingSig := false
	// 1. no signature-bearing field left in the forest
	for _, n := range o.forest {
		if n.eff == "Sig" {
			survivingSig = true
			sn := d.find(n.id)
			if sn != nil && keep(top(sn)) {
				failS("nested-sig-field-survives", fmt.Sprintf("field n%d (effective /FT /Sig) is still in the AcroForm below kept top-level field n%d", n.id, top(sn).id))
			} else {
				failS("sig-field-survives:unexplained", fmt.Sprintf("field n%d", n.id))
			}
		}
	}
	// 2. no page refers to a signature dictionary of the input
	for pi, l := range o.pages {
		for _, a := range l {
			if !sigSet[a] {
				continue
			}
			survivingSig = true
			pobj := d.pages[pi].obj
			sn := d.find(a)
			cls := "sig-widget-survives:unexplained"
			switch {
			case sn == nil:
				cls = "orphan-sig-widget-survives"
			case keep(top(sn)):
				cls = "nested-sig-field-survives"
			case top(sn).ft == "" && sn != top(sn) && !(len(top(sn).kids) == 1 && top(sn).kids[0] == sn):
				cls = "sig-widget-survives:beyond-single-kid"
			default:
				f := top(sn)
				only := len(f.kids) == 1 && f.kids[0] == sn
				switch {
				case sn != f && !only:
					cls = "sig-widget-survives:beyond-single-kid"
				case sn != f && f.widget && (!f.rect || f.p == 0):
					cls = "sig-widget-survives:parent-widget-early-return"
				case !sn.widget || !sn.rect:
					cls = "sig-widget-survives:not-a-widget-with-rect"
				case sn.p == 0:
					cls = "sig-widget-survives:no-P"
				case sn.p != pobj:
					cls = "sig-widget-survives:P-names-other-page"
				}
			}
			failS(cls, fmt.Sprintf("page %d /Annots still refers to signature dictionary n%d", pi+1, a))
		}
	}
	// 3. certification / usage rights / flags / DSS / values
	layoutName := [...]string{"", "no-acroform", "acroform-without-fields", "acroform-empty-fields"}[d.layout]
	if len(d.fields) == 0 && d.layout == 0 {
		layoutName = "no-acroform"
	}
	catalog := func(present bool, entry, regularClass string) {
		if !present {
			return
		}
		if layoutName != "" {
			failS("catalog-entry-survives:"+layoutName+":"+entry, "catalog /"+entry+" is still present after removal (document without usable AcroForm: "+layoutName+")")
		} else {
			failS(regularClass, "catalog /"+entry+" is still present after removal")
		}
	}
	catalog(o.perms, "Perms", "perms-survive")
	catalog(o.legal, "Legal", "legal-survives")
	if o.sf {
		failS("sigflags-survive", "AcroForm /SigFlags still present")
	}
	catalog(o.dss, "DSS", "dss-survives")
	if o.sigValue && !o.perms && !survivingSig {
		failS("sig-value-survives", "a signature value dictionary (/ByteRange) is still in the written file")
	}
	// 4. every non-signature field is still there, in order, with its effective type
	after := map[int]string{}
	for _, n := range o.forest {
		after[n.id] = n.eff
	}
	for _, n := range nonsig {
		if e, ok := after[n.id]; !ok || e != n.eff {
			t := top(d.find(n.id))
			cls := "non-sig-field-removed:unexplained"
			if t.ft == "" {
				cls = "non-sig-field-removed:ft-less-top-level"
			} else if t.ft == "Sig" {
				cls = "non-sig-field-removed:below-sig-parent"
			}
			failS(cls, fmt.Sprintf("field n%d (effective /FT %q) is no longer in the AcroForm (top-level ancestor n%d has /FT %q)", n.id, n.eff, t.id, t.ft))
		}
	}
	var keptOrder []nodeEff
	for _, n := range o.forest {
		if n.eff != "Sig" {
			keptOrder = append(keptOrder, n)
		}
	}
	if len(keptOrder) == len(nonsig) && renderNodes(keptOrder) != renderNodes(nonsig) {
		failS("non-sig-fields-reordered", renderNodes(keptOrder)+" vs "+renderNodes(nonsig))
	}
	// 5. pages: same count/content, every non-signature annotation still there in order
	if !o.contentOK {
		failS("pages-changed", "page count, MediaBox or content stream differs")
	}
	for pi := range d.pages {
		if pi >= len(o.pages) {
			break
		}
		var want, got []int
		for _, a := range d.pages[pi].annots {
			if !sigSet[a] {
				want = append(want, a)
			}
		}
		for _, a := range o.pages[pi] {
			if !sigSet[a] {
				got = append(got, a)
			}
		}
		if hexList(want) != hexList(got) {
			cls := "non-sig-annot-removed:unexplained"
			for _, a := range want {
				if sn := d.find(a); sn != nil && top(sn).ft == "" {
					cls = "non-sig-annot-removed:ft-less-top-level"
				} else if sn != nil && top(sn).ft == "Sig" {
					cls = "non-sig-annot-removed:below-sig-parent"
				}
			}
			failS(cls, fmt.Sprintf("page %d non-signature annotations %v, expected %v", pi+1, got, want))
		}
	}
	if nfail == 0 {
		r.OracleOK()
	} else if sup {
		fail("violation-on-supported-class", "the document is in the class for which C29_*_partial prove the property, yet the implementation violates it")
	}
}

// ---------------------------------------------------------------- generators

func (h *runner) newDoc(npages int) *docSpec {
	d := &docSpec{next: 3}
	for i := 0; i < npages; i++ {
		d.pages = append(d.pages, pageSpec{obj: d.newID()})
	}
	d.acroObj = d.newID()
	return d
}

func (d *docSpec) place(page int, id int) {
	for i := range d.pages {
		if d.pages[i].obj == page {
			d.pages[i].annots = append(d.pages[i].annots, id)
		}
	}
}

func (d *docSpec) finish() {
	for i := range d.pages {
		if len(d.pages[i].annots) == 0 {
			d.pages[i].absent = true
		}
	}
}

// W: merged field/widget placed on the page its /P names
func (d *docSpec) W(ft string, page int) *node {
	n := &node{id: d.newID(), ft: ft, widget: true, rect: true, p: page}
	if page != 0 {
		d.place(page, n.id)
	}
	return n
}

func (d *docSpec) parent(ft string, kids ...*node) *node {
	n := &node{id: d.newID(), ft: ft, kids: kids}
	for _, k := range kids {
		k.parent = n
	}
	return n
}

func (h *runner) scenarios() {
	type sc struct {
		name string
		mk   func(d *docSpec)
	}
	p := func(d *docSpec, i int) int { return d.pages[i].obj }
	list := []sc{
		{"flat-sig-and-text", func(d *docSpec) {
			d.fields = []*node{d.W("Tx", p(d, 0)), d.W("Sig", p(d, 0)), d.W("Sig", p(d, 1))}
			d.fields[1].signed = true
			d.sf = true
		}},
		{"only-sig", func(d *docSpec) { d.fields = []*node{d.W("Sig", p(d, 0))}; d.sf = true; d.dss = true; d.ext = true }},
		{"single-kid-sig", func(d *docSpec) {
			d.fields = []*node{d.parent("Sig", d.W("", p(d, 1))), d.W("Btn", p(d, 0))}
			d.sf = true
		}},
		{"no-sig", func(d *docSpec) { d.fields = []*node{d.W("Tx", p(d, 0)), d.W("Ch", p(d, 1))}; d.sf = true }},
		{"no-form", func(d *docSpec) {}},
		{"perms-docmdp", func(d *docSpec) {
			d.fields = []*node{d.W("Tx", p(d, 0)), d.W("Sig", p(d, 0))}
			d.fields[1].signed = true
			d.perms = 1
			d.sf = true
		}},
		{"perms-ur3-with-sig", func(d *docSpec) { d.fields = []*node{d.W("Sig", p(d, 0))}; d.perms = 2 }},
		{"perms-ur3-only", func(d *docSpec) { d.fields = []*node{d.W("Tx", p(d, 0))}; d.perms = 2 }},
		{"ftless-parent-mixed-kids", func(d *docSpec) {
			d.fields = []*node{d.parent("", d.W("Tx", p(d, 0)), d.W("Sig", p(d, 0)))}
			d.sf = true
		}},
		{"tx-parent-sig-kid", func(d *docSpec) {
			d.fields = []*node{d.parent("Tx", d.W("", p(d, 0)), d.W("Sig", p(d, 0)))}
			d.sf = true
		}},
		{"sig-two-widgets", func(d *docSpec) {
			d.fields = []*node{d.parent("Sig", d.W("", p(d, 0)), d.W("", p(d, 1))), d.W("Tx", 0)}
			d.sf = true
		}},
		{"sig-no-P", func(d *docSpec) {
			s := d.W("Sig", 0)
			d.place(p(d, 0), s.id)
			d.fields = []*node{s, d.W("Tx", p(d, 0))}
		}},
		{"sig-wrong-P", func(d *docSpec) {
			s := d.W("Sig", 0)
			s.p = p(d, 1)
			d.place(p(d, 0), s.id)
			d.fields = []*node{s, d.W("Tx", p(d, 1))}
		}},
		{"orphan-sig-widget", func(d *docSpec) {
			d.fields = []*node{d.W("Tx", p(d, 0))}
			o := other{id: d.newID(), ft: "Sig", widget: true}
			d.others = append(d.others, o)
			d.place(p(d, 1), o.id)
		}},
		{"depth3-sig-under-ftless", func(d *docSpec) {
			d.fields = []*node{d.parent("", d.parent("", d.W("Sig", p(d, 0)))), d.W("Tx", p(d, 1))}
		}},
		{"depth3-supported", func(d *docSpec) {
			d.fields = []*node{d.parent("Tx", d.parent("", d.W("", p(d, 0)), d.W("Btn", p(d, 1)))),
				d.W("Sig", p(d, 0)), d.parent("Sig", d.W("", p(d, 1))), d.W("Ch", 0)}
			d.sf = true
			o := other{id: d.newID()}
			d.others = append(d.others, o)
			d.place(p(d, 0), o.id)
			d.place(p(d, 1), o.id)
		}},
		{"sig-shared-on-two-pages", func(d *docSpec) {
			s := d.W("Sig", p(d, 0))
			d.place(p(d, 1), s.id)
			d.fields = []*node{s}
		}},
		{"parent-widget-no-P-single-kid", func(d *docSpec) {
			f := d.parent("Sig", d.W("", p(d, 0)))
			f.widget, f.rect = true, true
			d.fields = []*node{f, d.W("Tx", p(d, 0))}
		}},
		{"parent-widget-no-rect-single-kid", func(d *docSpec) {
			f := d.parent("Sig", d.W("", p(d, 0)))
			f.widget, f.p = true, p(d, 1)
			d.fields = []*node{f, d.W("Tx", p(d, 0))}
		}},
		{"sig-twice-on-page", func(d *docSpec) {
			s := d.W("Sig", p(d, 0))
			t := d.W("Tx", p(d, 0))
			d.place(p(d, 0), s.id)
			d.fields = []*node{s, t}
		}},
		{"text-below-sig-parent", func(d *docSpec) {
			d.fields = []*node{d.parent("Sig", d.W("Tx", p(d, 0))), d.W("Tx", p(d, 1))}
		}},
		{"ftless-parent-only-text-kid", func(d *docSpec) {
			d.fields = []*node{d.parent("", d.W("Tx", p(d, 0))), d.W("Sig", p(d, 1))}
		}},
	}
	for _, s := range list {
		for _, np := range []int{2, 3} {
			d := h.newDoc(np)
			s.mk(d)
			d.finish()
			h.r.Count("scenario:" + s.name)
			h.doc(d, "scenario:"+s.name)
		}
	}
}

// every combination of: form layout (regular flat form / no AcroForm / AcroForm without Fields /
// empty Fields with SigFlags) x Perms (none, DocMDP, UR3, both) x DSS x Legal x Extensions x
// (signature widget listed in a page's /Annots | none).  In the layouts without a usable form the
// signature widget is ONLY reachable through the page: xRefTable.Form is nil, len(ctx.Signatures) > 0.
func (h *runner) catalogGrid() {
	for layout := 0; layout <= 3; layout++ {
		for perms := 0; perms <= 3; perms++ {
			for bits := 0; bits < 8; bits++ {
				for sigw := 0; sigw < 2; sigw++ {
					d := h.newDoc(2)
					d.layout = layout
					d.perms = perms
					d.dss, d.legal, d.ext = bits&1 != 0, bits&2 != 0, bits&4 != 0
					if layout == 0 {
						d.sf = true
						d.fields = []*node{d.W("Tx", d.pages[0].obj)}
						if sigw == 1 {
							d.fields = append(d.fields, d.W("Sig", d.pages[1].obj))
						}
					} else if sigw == 1 {
						o := other{id: d.newID(), ft: "Sig", widget: true}
						d.others = append(d.others, o)
						d.place(d.pages[1].obj, o.id)
					}
					t := other{id: d.newID()}
					d.others = append(d.others, t)
					d.place(d.pages[0].obj, t.id)
					d.finish()
					h.r.Count(fmt.Sprintf("grid:layout=%d,sigwidget=%d", layout, sigw))
					h.doc(d, fmt.Sprintf("grid:layout=%d,perms=%d,dss/legal/ext=%03b,sigwidget=%d", layout, perms, bits, sigw))
				}
			}
		}
	}
}

func (h *runner) randomDoc(maxDepth int, noSig bool) *docSpec {
	rnd := h.r.Rand
	d := h.newDoc(1 + rnd.Intn(3))
	npg := len(d.pages)
	pg := func() int { return d.pages[rnd.Intn(npg)].obj }
	pickFT := func(inh string, allowNone bool) string {
		x := rnd.Intn(100)
		switch {
		case allowNone && x < 30:
			return ""
		case x < 55:
			return "Tx"
		case x < 65:
			return "Btn"
		case x < 72:
			return "Ch"
		default:
			if noSig {
				return "Tx"
			}
			return "Sig"
		}
	}
	tidy := rnd.Intn(3) == 0 // a third of the documents only use the shapes the code supports
	var gen func(depth int, inh string, forceTerminal bool) *node
	gen = func(depth int, inh string, forceTerminal bool) *node {
		n := &node{id: d.newID()}
		terminal := forceTerminal || depth >= maxDepth || rnd.Intn(100) < 55
		if terminal {
			n.widget, n.rect = true, true
			n.ft = pickFT(inh, inh != "" || (!tidy && rnd.Intn(10) == 0))
			where := pg()
			x := rnd.Intn(100)
			switch {
			case tidy || x < 70:
				n.p = where
				d.place(where, n.id)
			case x < 80: // no /P
				d.place(where, n.id)
			case x < 88: // /P names another page (or the same one if there is only one)
				n.p = pg()
				d.place(where, n.id)
			case x < 94: // on two pages
				n.p = where
				d.place(where, n.id)
				d.place(pg(), n.id)
			default: // not on any page
				n.p = where
			}
			return n
		}
		n.ft = pickFT(inh, !(tidy && depth == 0))
		if !tidy && rnd.Intn(100) < 15 {
			n.widget = true
			n.rect = rnd.Intn(100) < 70
			if rnd.Intn(100) < 70 {
				n.p = pg()
			}
			if n.rect && rnd.Intn(2) == 0 {
				d.place(pg(), n.id)
			}
		}
		nk := 1
		if rnd.Intn(2) == 0 {
			nk = 2 + rnd.Intn(2)
		}
		e := effOf(inh, n.ft)
		if tidy && e == "Sig" {
			nk = 1
		}
		for i := 0; i < nk; i++ {
			// a non-terminal field with own /FT /Sig needs a first kid with /Rect (validate: detectRectArray)
			k := gen(depth+1, e, (i == 0 && n.ft == "Sig") || (tidy && e == "Sig"))
			if tidy && e == "Sig" {
				k.ft = ""
			}
			if tidy && e != "Sig" && e != "" && k.ft == "Sig" {
				k.ft = "Tx"
			}
			k.parent = n
			n.kids = append(n.kids, k)
		}
		return n
	}
	nf := rnd.Intn(5)
	if nf == 0 && rnd.Intn(3) != 0 {
		nf = 1
	}
	for i := 0; i < nf; i++ {
		d.fields = append(d.fields, gen(0, "", false))
	}
	if tidy {
		// tidy documents: a kept top-level field must not hide a signature
		for _, f := range d.fields {
			if keep(f) {
				var scrub func(n *node)
				scrub = func(n *node) {
					if n.ft == "Sig" {
						n.ft = "Tx"
					}
					for _, k := range n.kids {
						scrub(k)
					}
				}
				scrub(f)
			}
		}
	}
	// unless asked for a document without signatures, make sure there is at least one
	if !noSig && len(d.fields) == 0 && rnd.Intn(3) != 0 {
		// no form at all: the signature widget is only listed in a page's /Annots
		o := other{id: d.newID(), ft: "Sig", widget: true}
		d.others = append(d.others, o)
		d.place(pg(), o.id)
	} else if !noSig && len((&docSpec{fields: d.fields}).sigIDs()) == 0 {
		where := pg()
		n := &node{id: d.newID(), ft: "Sig", widget: true, rect: true, p: where}
		d.place(where, n.id)
		d.fields = append(d.fields, n)
	}
	// signature values (/V) on half of the terminal signature fields
	var sign func(n *node, inh string)
	sign = func(n *node, inh string) {
		e := effOf(inh, n.ft)
		if e == "Sig" && len(n.kids) == 0 && rnd.Intn(2) == 0 {
			n.signed = true
		}
		for _, k := range n.kids {
			sign(k, e)
		}
	}
	for _, f := range d.fields {
		sign(f, "")
	}
	// other annotations
	for i := rnd.Intn(4); i > 0; i-- {
		o := other{id: d.newID()}
		if !tidy && rnd.Intn(8) == 0 {
			o.widget = true
			if !noSig && rnd.Intn(2) == 0 {
				o.ft = "Sig"
			} else {
				o.ft = "Tx"
			}
		}
		d.others = append(d.others, o)
		d.place(pg(), o.id)
		if rnd.Intn(5) == 0 {
			d.place(pg(), o.id)
		}
	}
	// shuffle each page's annotation order
	for i := range d.pages {
		a := d.pages[i].annots
		rnd.Shuffle(len(a), func(x, y int) { a[x], a[y] = a[y], a[x] })
	}
	d.sf = rnd.Intn(100) < 75
	if !tidy {
		switch x := rnd.Intn(100); {
		case x < 12:
			d.perms = 1
		case x < 17:
			d.perms = 2
		case x < 20:
			d.perms = 3
		}
	}
	if len(d.fields) == 0 {
		d.layout = 1 + rnd.Intn(3)
	}
	d.legal = rnd.Intn(6) == 0
	d.dss = rnd.Intn(5) == 0
	d.ext = rnd.Intn(5) == 0
	d.perm = rnd.Intn(8) == 0
	d.finish()
	return d
}

// ---------------------------------------------------------------- signed samples

func (h *runner) samples() {
	r := h.r
	repo := os.Getenv("VERIF_REPO")
	if repo == "" {
		repo = "/repo"
	}
	files, _ := filepath.Glob(filepath.Join(repo, "pkg/samples/signatures/*/*.pdf"))
	sort.Strings(files)
	for _, fn := range files {
		in, err := os.ReadFile(fn)
		if err != nil {
			continue
		}
		rel, _ := filepath.Rel(repo, fn)
		input := map[string]any{"sample": rel}
		r.Count("sample:files")
		var before *model.Context
		if err := safely(func() error {
			var e error
			before, e = api.ReadAndValidate(bytes.NewReader(in), conf(model.VALIDATE))
			return e
		}); err != nil {
			r.Count("sample:rejected-by-validation")
			continue
		}
		ob := observe(before.XRefTable, 0, false)
		nsig := 0
		for _, m := range before.Signatures {
			nsig += len(m)
		}
		inFile := filepath.Join(h.dir, "in.pdf")
		outFile := filepath.Join(h.dir, "out.pdf")
		os.Remove(outFile)
		os.WriteFile(inFile, in, 0o644)
		err = safely(func() error { return api.RemoveSignaturesFile(inFile, outFile, nil) })
		fail := func(class, detail string) {
			r.OracleFail(class, input, detail)
			r.Count("finding:" + class)
		}
		if err != nil {
			if _, e := os.Stat(outFile); e == nil {
				fail("no-sigs-output-written", "output exists after error "+err.Error())
			}
			switch {
			case errors.Is(err, api.ErrNoSignatures) && nsig == 0 && ob.perms:
				fail("usage-rights-only-rejected", rel+": catalog has /Perms (usage rights signature) but removal reports: "+err.Error())
			case errors.Is(err, api.ErrNoSignatures) && nsig == 0:
				r.OracleOK()
			default:
				fail("signed-doc-error", err.Error())
			}
			continue
		}
		out, _ := os.ReadFile(outFile)
		var after *model.Context
		if err := safely(func() error {
			var e error
			after, e = api.ReadAndValidate(bytes.NewReader(out), conf(model.VALIDATE))
			return e
		}); err != nil {
			fail("output-invalid", err.Error())
			continue
		}
		oa := observe(after.XRefTable, 0, true)
		bad := 0
		f2 := func(c, s string) { bad++; fail(c, rel+": "+s) }
		if oa.perms {
			f2("perms-survive", "catalog /Perms still present after removal")
		}
		if oa.sf {
			f2("sigflags-survive", "SigFlags still present")
		}
		if oa.dss {
			f2("dss-survives", "DSS still present")
		}
		for _, n := range oa.forest {
			if n.eff == "Sig" {
				f2("nested-sig-field-survives", "a field with effective /FT /Sig is still in the AcroForm")
			}
		}
		na := 0
		for _, m := range after.Signatures {
			na += len(m)
		}
		if na != 0 {
			f2("sig-widget-survives:unexplained", fmt.Sprintf("%d signature dictionaries found when validating the output", na))
		}
		if oa.sigValue && !oa.perms && na == 0 {
			f2("sig-value-survives", "a /ByteRange dictionary is still in the output")
		}
		if after.PageCount != before.PageCount {
			f2("pages-changed", "page count")
		} else {
			for i := range ob.pages {
				// every page keeps its annotations except signature widgets (all samples: one widget per signature)
				if len(oa.pages[i]) > len(ob.pages[i]) || len(ob.pages[i])-len(oa.pages[i]) > nsig {
					f2("non-sig-annot-removed:unexplained", fmt.Sprintf("page %d: %d annotations before, %d after, %d signatures", i+1, len(ob.pages[i]), len(oa.pages[i]), nsig))
				}
			}
		}
		if bad == 0 {
			r.OracleOK()
		}
	}
}

func main() {
	api.DisableConfigDir()
	r := vh.Start("C29")
	defer r.Finish()
	dir, err := os.MkdirTemp("", "c29-")
	if err != nil {
		panic(err)
	}
	defer os.RemoveAll(dir)
	h := &runner{r: r, dir: dir}
	h.scenarios()
	h.catalogGrid()
	h.samples()
	n := r.Pick(700, 30000)
	for i := 0; i < n; i++ {
		depth := 1 + r.Rand.Intn(3)
		if r.Thorough() && r.Rand.Intn(10) == 0 {
			depth = 4 + r.Rand.Intn(3)
		}
		d := h.randomDoc(depth, r.Rand.Intn(6) == 0)
		h.doc(d, fmt.Sprintf("random:%d", i))
	}
	r.CountN("gen:valid-documents", h.n)
}
