(* C19 — object numbers of the emitted records: every record is the only one under its number,
   except that a page tree node can be written a second time by the page tree traversal
   (writePagesDictDepth does not test HasWriteOffset); the later record is the one a reader finds.
   The numbers of the objects the writer CREATES (fresh info dict, encryption dict, object
   streams, xref stream) are outside the model: see the recycled-number oracle of the harness. *)
From Coq Require Import List ZArith NArith Bool.
From PV Require Import C19.Generated C19.Model C19.ProofsClosed.
Import ListNotations.

Fixpoint uniq (s : st) : Prop :=
  match s with
  | [] => True
  | (n, (md, _)) :: r => (md = MPages \/ written r n = false) /\ uniq r
  end.

Section Unique.
  Variable g : graph.

  Lemma seqm_uniq : forall (A : Type) (f : A -> st -> wres) (l : list A),
    (forall x s s', In x l -> uniq s -> f x s = WOk s' -> uniq s') ->
    forall s s', uniq s -> seqm f l s = WOk s' -> uniq s'.
  Proof.
    intros A f l. induction l as [|x l IH]; intros Hf s s' Hu H; simpl in H.
    - inversion H; subst. exact Hu.
    - destruct (f x s) as [s1| |] eqn:E; try discriminate.
      apply (IH (fun y a b Hy => Hf y a b (or_intror Hy)) s1 s'); [|exact H].
      exact (Hf x s s1 (or_introl eq_refl) Hu E).
  Qed.

  Section DeepU.
    Variable visit : bool -> bool -> N -> st -> wres.
    Hypothesis Hvisit : forall wp dest n s s', uniq s -> visit wp dest n s = WOk s' -> uniq s'.

    Lemma deep_uniq : forall o wp dest s s', uniq s -> deep visit wp dest o s = WOk s' -> uniq s'.
    Proof.
      induction o as [|tg v|z|nm|n|l IH|d IH|d x IH] using obj_ind'; intros wp dest s s' Hu H; simpl in H;
        try (inversion H; subst; exact Hu).
      - exact (Hvisit _ _ _ _ _ Hu H).
      - destruct l as [|x r]; [inversion H; subst; exact Hu|].
        rewrite Forall_forall in IH. destruct dest.
        + apply (seqm_uniq _ (deep visit wp true) r) with (s := s); [|exact Hu|exact H].
          intros y a b Hy Ha Hd. exact (IH y (or_intror Hy) wp true a b Ha Hd).
        + apply (seqm_uniq _ (deep visit wp false) (x :: r)) with (s := s); [|exact Hu|exact H].
          intros y a b Hy Ha Hd. exact (IH y Hy wp false a b Ha Hd).
      - rewrite Forall_forall in IH.
        apply (seqm_uniq _ (fun kv => deep visit wp (wp && is_dest_key (fst kv)) (snd kv)) d) with (s := s);
          [|exact Hu|exact H].
        intros y a b Hy Ha Hd. exact (IH y Hy _ _ a b Ha Hd).
    Qed.

    Lemma deep_values_uniq : forall o wp dest s s', uniq s -> deep_values visit wp dest o s = WOk s' -> uniq s'.
    Proof.
      intros o wp dest s s' Hu H. destruct o as [|tg v|z|nm|n|l|d|d x]; simpl in H;
        try (inversion H; subst; exact Hu).
      - exact (deep_uniq (OArr l) wp dest s s' Hu H).
      - exact (deep_uniq (ODict d) wp dest s s' Hu H).
      - apply (seqm_uniq _ (fun kv => deep visit wp dest (snd kv)) d) with (s := s); [|exact Hu|exact H].
        intros y a b _ Ha Hd. exact (deep_uniq (snd y) wp dest a b Ha Hd).
    Qed.
  End DeepU.

  Local Opaque deep_values.
  Lemma visit_uniq : forall fuel wp dest n s s', uniq s -> visit g fuel wp dest n s = WOk s' -> uniq s'.
  Proof.
    induction fuel as [|f IH]; intros wp dest n s s' Hu H; simpl in H.
    - destruct (written s n); [inversion H; subst; exact Hu|discriminate].
    - destruct (written s n) eqn:W; [inversion H; subst; exact Hu|].
      assert (Hgen : forall o, deep_values (visit g f) wp dest o ((n, (MGen wp dest, o)) :: s) = WOk s' -> uniq s').
      { intros o Hd. apply (deep_values_uniq (visit g f) IH o wp dest ((n, (MGen wp dest, o)) :: s) s'); [|exact Hd].
        simpl. split; [right; exact W|exact Hu]. }
      destruct (lookup g n) as [[fl o]|].
      + destruct fl.
        * destruct o as [|tg v|z|nm|k|l|d|d x]; try (exact (Hgen _ H)); try discriminate.
          destruct (is_page d && false) eqn:Pg; [rewrite andb_false_r in Pg; discriminate|]. exact (Hgen _ H).
        * destruct o as [|tg v|z|nm|k|l|d|d x]; try (exact (Hgen _ H)); try discriminate.
          destruct (is_page d); simpl in H; [inversion H; subst; exact Hu|exact (Hgen _ H)].
      + inversion H; subst. simpl. split; [right; exact W|exact Hu].
  Qed.
  Local Transparent deep_values.

  Lemma entries_uniq : forall fuel wp d keys s s', uniq s -> entries g fuel wp d keys s = WOk s' -> uniq s'.
  Proof.
    intros fuel wp d keys s s' Hu H. unfold entries in H.
    apply (seqm_uniq _ _ keys) with (s := s) in H; [exact H| |exact Hu].
    intros k a b _ Ha Hk. destruct (dfind k d) as [o|].
    - destruct o; try (exact (deep_uniq (visit g fuel) (visit_uniq fuel) _ wp false a b Ha Hk)).
      inversion Hk; subst. exact Ha.
    - inversion Hk; subst. exact Ha.
  Qed.

  Lemma page_dict_uniq : forall fuel n d s s', uniq s -> page_dict g fuel n d s = WOk s' -> uniq s'.
  Proof.
    intros fuel n d s s' Hu H. unfold page_dict in H. destruct (written s n) eqn:W; [inversion H; subst; exact Hu|].
    destruct (dfind kParent d) as [[]|]; try discriminate.
    apply entries_uniq in H; [exact H|]. simpl. split; [right; exact W|exact Hu].
  Qed.

  Section KidsU.
    Variable node : N -> st -> list N -> pres.
    Variable fuel : nat.
    Hypothesis Hnode : forall k s seen s' seen' c, uniq s -> node k s seen = POk s' seen' c -> uniq s'.

    Lemma wkids_uniq : forall a s seen acc cnt s' seen' kids' cnt',
      uniq s -> wkids g node fuel a s seen acc cnt = KOk s' seen' kids' cnt' -> uniq s'.
    Proof.
      induction a as [|o a IH]; intros s seen acc cnt s' seen' kids' cnt' Hu H; simpl in H.
      - inversion H; subst. exact Hu.
      - destruct o as [|tg v|z|nm|k|l|d|d x]; try discriminate.
        + exact (IH _ _ _ _ _ _ _ _ Hu H).
        + destruct (lookup g k) as [[fl [| | | | | |kd|]]|]; try discriminate.
          destruct (dtype kd) as [t|]; try discriminate.
          destruct (beqb t kPages).
          * destruct (node k s seen) as [s1 seen1 c| |] eqn:En; try discriminate.
            exact (IH _ _ _ _ _ _ _ _ (Hnode _ _ _ _ _ _ Hu En) H).
          * destruct (beqb t kPage); try discriminate.
            destruct (page_dict g fuel k kd s) as [s1| |] eqn:Ep; try discriminate.
            exact (IH _ _ _ _ _ _ _ _ (page_dict_uniq _ _ _ _ _ Hu Ep) H).
    Qed.
  End KidsU.

  Local Opaque entries.
  Lemma pages_node_uniq : forall depth fuel n s seen s' seen' c,
    uniq s -> pages_node g depth fuel n s seen = POk s' seen' c -> uniq s'.
  Proof.
    induction depth as [|dp IH]; intros fuel n s seen s' seen' c Hu H; simpl in H; [discriminate|].
    destruct (memn n seen); [discriminate|].
    destruct (lookup g n) as [[fl [| | | | | |d|]]|]; try discriminate.
    destruct (wkids g (pages_node g dp fuel) fuel (kids_of d) s (n :: seen) [] 0%Z) as [s1 seen1 kidsNew cnt| |] eqn:Ek;
      try discriminate.
    pose proof (wkids_uniq (pages_node g dp fuel) fuel (IH fuel) _ _ _ _ _ _ _ _ _ Hu Ek) as U1.
    match type of H with context [entries g fuel false ?dd pages_keys ?ss] =>
      destruct (entries g fuel false dd pages_keys ss) as [s2| |] eqn:Ee; try discriminate end.
    injection H as Hs Hseen Hc. subst s'.
    apply entries_uniq in Ee; [exact Ee|]. simpl. split; [left; reflexivity|exact U1].
  Qed.
  Local Transparent entries.

  Theorem write_model_uniq : forall maxd fuel delv root info s,
    write_model g maxd fuel delv root info = WOk s -> uniq s.
  Proof.
    intros maxd fuel delv root info s H. unfold write_model in H.
    destruct (write_root g maxd fuel delv root) as [s1| |] eqn:E1; try discriminate.
    assert (U1 : uniq s1).
    { unfold write_root in E1.
      destruct (lookup g root) as [[fl [| | | | | |d0|]]|]; try discriminate.
      match type of E1 with context [entries g fuel false ?dd root_keys_pre ?ss] =>
        destruct (entries g fuel false dd root_keys_pre ss) as [sa| |] eqn:Ea; try discriminate end.
      apply entries_uniq in Ea; [|simpl; split; [right; reflexivity|exact I]].
      match type of E1 with context [dfind kPages ?dd] => destruct (dfind kPages dd) as [[| | | |p| | |]|]; try discriminate end.
      destruct (pages_node g maxd fuel p sa []) as [sb seenb cb| |] eqn:Eb; try discriminate.
      apply pages_node_uniq in Eb; [|exact Ea]. exact (entries_uniq _ _ _ _ _ _ Eb E1). }
    unfold write_info in H. destruct info as [i|]; [|inversion H; subst; exact U1].
    destruct (lookup g i) as [[fl o]|]; [|inversion H; subst; exact U1].
    destruct o as [|tg v|z|nm|k|l|d|d x]; try discriminate; try (inversion H; subst; exact U1).
    destruct (written s1 i) eqn:W; [inversion H; subst; exact U1|].
    destruct (is_page d && _); [inversion H; subst; exact U1|].
    apply (deep_values_uniq (visit g fuel) (visit_uniq fuel)) in H; [exact H|].
    simpl. split; [right; exact W|exact U1].
  Qed.
End Unique.

(* when no page tree node was written twice, the numbers are pairwise distinct *)
Lemma uniq_nodup : forall s, uniq s ->
  (forall s1 n o s2, s = s1 ++ (n, (MPages, o)) :: s2 -> written s2 n = false) -> NoDup (dom s).
Proof.
  induction s as [|[n [md o]] s IH]; intros Hu Hp; simpl; [constructor|].
  destruct Hu as [Hn Hu]. constructor.
  - apply written_false. destruct Hn as [->|Hn]; [exact (Hp [] n o s eq_refl)|exact Hn].
  - apply IH; [exact Hu|]. intros s1 m o' s2 E. apply (Hp ((n, (md, o)) :: s1) m o' s2). rewrite E. reflexivity.
Qed.
