(* C01 — attachment extraction (pkg/api/attach.go): reservations-so-far list released on every failure path. *)
From stdpp Require Import gmap.
From Coq Require Import NArith Lia.
From PV Require Import C01.FS C01.FSFacts C01.Model C01.Proofs C01.ProofsMulti.

Lemma In_firstn {A} (x : A) : forall n l, In x (firstn n l) -> In x l.
Proof.
  induction n as [|n IH]; intros [|a l]; cbn; try tauto.
  intros [->|Hin]; [left; reflexivity|right; apply IH; exact Hin].
Qed.

Section AttachProofs.
Variable pl : plan.
Variable fresh : gmap positive file -> positive.
Hypothesis fresh_spec : forall m, m !! fresh m = None.
Hypothesis Hamo : amo pl.

(* reserving an unused marker name fails only through an injected fault (the model's stand-in for any
   non-EEXIST error of the open call, e.g. ENAMETOOLONG): nothing was created *)
Lemma reserve_one_cases p w :
  wfs w !! p = None ->
  (exists w', reserve_one pl p w = Fail EIO w' /\ wfs w' = wfs w /\ wcnt w' = S (wcnt w) /\ pl (wcnt w) = true) \/
  (exists w', reserve_one pl p w = Done tt w' /\ staged_inv (wfs w) p (wfs w') /\ wcnt w' = S (wcnt w)).
Proof.
  intros Hp. unfold reserve_one, call. destruct (pl (wcnt w)) eqn:Hpl.
  - left. eexists. repeat split.
  - right. rewrite Hp. eexists. split; [reflexivity|]. cbn [wfs wcnt]. split; [|reflexivity].
    apply staged_inv_insert. exact Hp.
Qed.

Lemma reserve_all_spec m0 : forall aa rr w failed rr' w',
  extends m0 rr (wfs w) ->
  base.NoDup (rr ++ map a_mark aa) ->
  (forall a, In a aa -> m0 !! a_mark a = None) ->
  reserve_all pl aa rr w = (failed, rr', w') ->
  extends m0 rr' (wfs w') /\
  (exists n, rr' = rr ++ firstn n (map a_mark aa)) /\
  (failed = true -> fired pl w') /\
  (failed = false -> rr' = rr ++ map a_mark aa).
Proof.
  induction aa as [|a rest IH]; intros rr w failed rr' w' Hext Hnd Hnew; cbn [reserve_all].
  - intros [= <- <- <-]. split; [exact Hext|]. split; [exists 0; cbn; rewrite app_nil_r; reflexivity|].
    split; [discriminate|intros _; cbn; rewrite app_nil_r; reflexivity].
  - assert (Ho : wfs w !! a_mark a = None).
    { destruct Hext as [_ He2]. rewrite He2; [apply Hnew; left; reflexivity|].
      intros Hin. cbn [map] in Hnd. apply NoDup_app in Hnd. destruct Hnd as (_ & Hdisj & _).
      apply (Hdisj (a_mark a)); [apply elem_of_list_In; exact Hin|left]. }
    destruct (reserve_one_cases (a_mark a) w Ho) as [(w1 & -> & Hf1 & Hc1 & Hp1)|(w1 & -> & Hinv1 & Hc1)];
      cbv beta iota zeta.
    + intros [= <- <- <-]. split; [eapply extends_same; [exact Hext|exact Hf1]|].
      split; [exists 0; cbn; rewrite app_nil_r; reflexivity|]. split; [|discriminate].
      intros _. exists (wcnt w). split; [lia|exact Hp1].
    + intros Hrun.
      assert (Hext' : extends m0 (rr ++ [a_mark a]) (wfs w1)).
      { eapply extends_snoc; [exact Hext|apply Hnew; left; reflexivity|exact Hinv1]. }
      assert (Hnd' : base.NoDup ((rr ++ [a_mark a]) ++ map a_mark rest)) by (rewrite <- app_assoc; exact Hnd).
      destruct (IH (rr ++ [a_mark a]) w1 failed rr' w' Hext' Hnd' (fun b Hb => Hnew b (or_intror Hb)) Hrun)
        as (I1 & (n & I2) & I3 & I4).
      split; [exact I1|]. split; [exists (S n); cbn [map firstn]; rewrite I2, <- app_assoc; reflexivity|].
      split; [exact I3|]. intros Hf. rewrite (I4 Hf). cbn [map]. rewrite <- app_assoc. reflexivity.
Qed.

Lemma release_step a fa w :
  quiet pl (wcnt w) -> wfs w !! a = Some fa ->
  failed (close pl a w) = false /\
  exists w1, remove_file pl a (world_of (close pl a w)) = (false, w1) /\
             wfs w1 = delete a (wfs w) /\ wcnt w1 = S (S (wcnt w)).
Proof.
  intros Hq Hfa. assert (Hq' : pl (S (wcnt w)) = false) by (apply Hq; lia).
  unfold remove_file, remove, close, call. rewrite (quiet_here _ _ Hq). cbn [world_of failed wfs wcnt wtr].
  rewrite Hq', Hfa. cbn [world_of remove_failed]. split; [reflexivity|]. eexists. repeat split.
Qed.

(* releasing with no fault left removes every marker and nothing else *)
Lemma release_quiet l : forall w,
  quiet pl (wcnt w) -> base.NoDup l -> (forall p, In p l -> is_Some (wfs w !! p)) ->
  (forall p, In p l -> wfs (snd (release_all pl l w)) !! p = None) /\
  (forall p, ~ In p l -> wfs (snd (release_all pl l w)) !! p = wfs w !! p) /\
  fst (release_all pl l w) = false.
Proof.
  induction l as [|a l IH]; intros w Hq Hnd Hex; cbn [release_all].
  - cbn. split; [intros p []|]. split; reflexivity.
  - inversion Hnd as [|a' l' Hnotin Hnd']; subst. rewrite elem_of_list_In in Hnotin.
    destruct (Hex a (or_introl eq_refl)) as [fa Hfa].
    destruct (release_step a fa w Hq Hfa) as (-> & w1 & -> & Hf1 & Hc1). cbv beta iota zeta.
    assert (Hq1 : quiet pl (wcnt w1)) by (rewrite Hc1; eapply quiet_mono; [exact Hq|lia]).
    assert (Hex1 : forall p, In p l -> is_Some (wfs w1 !! p)).
    { intros p Hin. rewrite Hf1. assert (p <> a) by (intros ->; contradiction).
      rewrite lookup_delete_ne by congruence. apply Hex. right. exact Hin. }
    specialize (IH w1 Hq1 Hnd' Hex1). destruct IH as (I1 & I2 & I3).
    destruct (release_all pl l w1) as [b2 w2]. cbn [fst snd] in *.
    split; [|split].
    + intros p [<-|Hin]; [|apply I1; exact Hin].
      rewrite (I2 a Hnotin). rewrite Hf1. apply lookup_delete.
    + intros p Hnin. assert (p <> a) by (intros ->; apply Hnin; left; reflexivity).
      rewrite I2 by (intros Hin; apply Hnin; right; exact Hin).
      rewrite Hf1. apply lookup_delete_ne. congruence.
    + rewrite I3. reflexivity.
Qed.

Definition atts_ok (aa : list att) : Prop := forall a, In a aa -> a_fin a = COk.

(* the hypotheses on the names: markers and outputs are pairwise distinct new names *)
Definition fresh_names (m0 : gmap positive file) (aa : list att) : Prop :=
  base.NoDup (map a_mark aa ++ map a_out aa) /\
  (forall a, In a aa -> m0 !! a_mark a = None /\ m0 !! a_out a = None).

(* A. a reservation that fails after any number of earlier reservations: all of them are released *)
Lemma extract_reserve_failure_safe k aa m0 tr rr w1 r w' :
  fresh_names m0 aa ->
  reserve_all pl aa [] (W m0 0 tr) = (true, rr, w1) ->
  extract_attachments pl fresh k aa (W m0 0 tr) = (r, w') ->
  r = CErr /\ wfs w' = m0.
Proof.
  intros [Hnd Hnew] Hres. unfold extract_attachments. rewrite Hres.
  apply NoDup_app in Hnd. destruct Hnd as (Hndm & _ & _).
  destruct (reserve_all_spec m0 aa [] (W m0 0 tr) true rr w1 (extends_nil m0) Hndm
              (fun a Ha => proj1 (Hnew a Ha)) Hres) as (Hext & (n & Hrr) & Hfired & _).
  pose proof (fired_quiet pl Hamo w1 (Hfired eq_refl)) as Hq.
  assert (Hndrr : base.NoDup rr).
  { cbn [app] in Hrr. rewrite Hrr. rewrite <- (firstn_skipn n (map a_mark aa)) in Hndm.
    apply NoDup_app in Hndm. apply Hndm. }
  destruct Hext as [He1 He2].
  destruct (release_quiet rr w1 Hq Hndrr (fun p Hin => proj2 (He1 p Hin))) as (R1 & R2 & _).
  intros [= <- <-]. split; [reflexivity|]. apply map_eq. intros p.
  destruct (in_dec Pos.eq_dec p rr) as [Hin|Hnin].
  - rewrite (R1 p Hin). symmetry. apply (He1 p Hin).
  - rewrite (R2 p Hnin). apply He2. exact Hnin.
Qed.

(* B. any failure: no marker and no staging file remains; what stays are the first n completed outputs *)
Lemma extract_keeps_prefix_gen k aa m0 tr r w' :
  k <> KAlways ->
  (forall a, In a aa -> safe_for k (a_fin a)) ->
  (quiet pl 0 \/ atts_ok aa) ->
  fresh_names m0 aa ->
  extract_attachments pl fresh k aa (W m0 0 tr) = (r, w') -> r <> COk ->
  (exists n, extends m0 (firstn n (map a_out aa)) (wfs w')) \/
  (* every reservation and every write succeeded: what failed is the final release of the markers *)
  (exists rr w1 done w2, reserve_all pl aa [] (W m0 0 tr) = (false, rr, w1) /\
                         fill_loop pl fresh k (map att_part aa) [] w1 = (COk, done, w2)).
Proof.
  intros Hna Hsafe Hcause Hfn Hrun Hr.
  destruct (reserve_all pl aa [] (W m0 0 tr)) as [[failed rr] w1] eqn:Hres.
  destruct failed.
  { destruct (extract_reserve_failure_safe k aa m0 tr rr w1 r w' Hfn Hres Hrun) as [_ Heq].
    left. exists 0. cbn. rewrite Heq. apply extends_nil. }
  destruct Hfn as [Hnd Hnew]. pose proof Hnd as Hnd0.
  apply NoDup_app in Hnd. destruct Hnd as (Hndm & Hdisj & Hndo).
  destruct (reserve_all_spec m0 aa [] (W m0 0 tr) false rr w1 (extends_nil m0) Hndm
              (fun a Ha => proj1 (Hnew a Ha)) Hres) as (Hext & _ & _ & Hall).
  specialize (Hall eq_refl). cbn [app] in Hall. subst rr.
  unfold extract_attachments in Hrun. rewrite Hres in Hrun.
  destruct (fill_loop pl fresh k (map att_part aa) [] w1) as [[r1 done] w2] eqn:Hloop.
  assert (Hmapout : map p_out (map att_part aa) = map a_out aa).
  { rewrite map_map. apply map_ext. intros a. reflexivity. }
  assert (Hin_part : forall p, In p (map att_part aa) -> exists a, In a aa /\ p = att_part a).
  { intros p Hin. apply in_map_iff in Hin. destruct Hin as (a & <- & Ha). exists a. split; [exact Ha|reflexivity]. }
  assert (Hsafe' : forall p, In p (map att_part aa) -> safe_for k (p_fin p)).
  { intros p Hin. destruct (Hin_part p Hin) as (a & Ha & ->). cbn. apply Hsafe. exact Ha. }
  assert (Hcause' : quiet pl 0 \/ parts_ok (map att_part aa)).
  { destruct Hcause as [H0|Hok]; [left; exact H0|right]. intros p Hin.
    destruct (Hin_part p Hin) as (a & Ha & ->). cbn. split; [reflexivity|apply Hok; exact Ha]. }
  assert (Hnew1 : forall p, In p (map att_part aa) -> wfs w1 !! p_out p = None).
  { intros p Hin. destruct (Hin_part p Hin) as (a & Ha & ->). cbn [att_part p_out].
    destruct Hext as [_ He2]. rewrite He2; [apply (Hnew a Ha)|].
    intros Hm. apply (Hdisj (a_out a)); [apply elem_of_list_In; exact Hm|].
    apply elem_of_list_In. apply in_map. exact Ha. }
  assert (Hnd1 : base.NoDup ([] ++ map p_out (map att_part aa))) by (cbn [app]; rewrite Hmapout; exact Hndo).
  destruct (fill_loop_spec pl fresh fresh_spec Hamo k (wfs w1) (map att_part aa) [] w1 r1 done w2
              Hna Hsafe' Hcause' (extends_nil (wfs w1)) Hnd1 Hnew1 Hloop) as (Hext2 & (n & Hdone) & Hq2).
  cbn [app] in Hdone. rewrite Hmapout in Hdone.
  destruct r1.
  { right. exists (map a_mark aa), w1, done, w2. split; [reflexivity|exact Hloop]. }
  all: left; exists n; rewrite <- Hdone.
  all: assert (Hq : quiet pl (wcnt w2)) by (apply Hq2; discriminate).
  all: assert (Hmarks2 : forall p, In p (map a_mark aa) -> is_Some (wfs w2 !! p));
    [ intros p Hin; destruct Hext2 as [_ He22]; rewrite He22;
      [ apply (proj1 Hext p Hin)
      | intros Hd; rewrite Hdone in Hd; apply In_firstn in Hd;
        apply (Hdisj p); [apply elem_of_list_In; exact Hin|apply elem_of_list_In; exact Hd] ] | ].
  all: destruct (release_quiet (map a_mark aa) w2 Hq Hndm Hmarks2) as (R1 & R2 & _).
  all: destruct (release_all pl (map a_mark aa) w2) as [bad w3]; cbn [fst snd] in *.
  all: injection Hrun as _ <-.
  all: split;
    [ intros p Hin;
      assert (Hino : In p (map a_out aa)) by (rewrite Hdone in Hin; apply In_firstn in Hin; exact Hin);
      assert (Hnm : ~ In p (map a_mark aa)) by
        (intros Hm; apply (Hdisj p); [apply elem_of_list_In; exact Hm|apply elem_of_list_In; exact Hino]);
      split;
      [ apply in_map_iff in Hino; destruct Hino as (a & <- & Ha); apply (Hnew a Ha)
      | rewrite (R2 p Hnm); apply (proj1 Hext2 p Hin) ]
    | intros p Hnin; destruct (in_dec Pos.eq_dec p (map a_mark aa)) as [Hm|Hnm];
      [ rewrite (R1 p Hm); symmetry; apply (proj1 Hext p Hm)
      | rewrite (R2 p Hnm); rewrite (proj2 Hext2 p Hnin); apply (proj2 Hext p Hnm) ] ].
Qed.
End AttachProofs.

(* ---------- closed statements ---------- *)
Definition att_cause (pl : plan) (aa : list att) : Prop :=
  pl = nofault \/ (atts_ok aa /\ exists n, pl = single n).

Lemma att_cause_amo pl aa : att_cause pl aa -> amo pl /\ (quiet pl 0 \/ atts_ok aa).
Proof.
  intros [->|(Hok & n & ->)].
  - split; [apply amo_nofault|left; apply nofault_quiet].
  - split; [apply amo_single|right; exact Hok].
Qed.

(* a reservation that cannot be made — the call fails without effect, e.g. ENAMETOOLONG; in the model the
   single injected fault — after k successful reservations, for every k: all k markers are released *)
Lemma extract_reserve_failure_safe_proof fresh :
  forall n k aa m0 tr rr w1 r w',
  fresh_names m0 aa ->
  reserve_all (single n) aa [] (W m0 0 tr) = (true, rr, w1) ->
  extract_attachments (single n) fresh k aa (W m0 0 tr) = (r, w') ->
  r = CErr /\ unchanged m0 (wfs w').
Proof.
  intros n k aa m0 tr rr w1 r w' Hfn Hres Hrun.
  destruct (extract_reserve_failure_safe (single n) fresh (amo_single n) k aa m0 tr rr w1 r w' Hfn Hres Hrun) as [Hr Heq].
  split; [exact Hr|apply eq_unchanged; exact Heq].
Qed.

Lemma extract_keeps_prefix_partial_proof fresh :
  (forall m, m !! fresh m = None) ->
  forall pl aa, att_cause pl aa ->
  forall k m0 tr, k <> KAlways -> (forall a, In a aa -> safe_for k (a_fin a)) -> fresh_names m0 aa ->
  forall r w', extract_attachments pl fresh k aa (W m0 0 tr) = (r, w') -> r <> COk ->
  (exists n, extends m0 (firstn n (map a_out aa)) (wfs w')) \/
  (exists rr w1 done w2, reserve_all pl aa [] (W m0 0 tr) = (false, rr, w1) /\
                         fill_loop pl fresh k (map att_part aa) [] w1 = (COk, done, w2)).
Proof.
  intros Hfresh pl aa Hcause k m0 tr Hna Hsafe Hfn r w' Hrun Hr.
  destruct (att_cause_amo pl aa Hcause) as [Hamo Hc].
  exact (extract_keeps_prefix_gen pl fresh Hfresh Hamo k aa m0 tr r w' Hna Hsafe Hc Hfn Hrun Hr).
Qed.

(* the reserving function with one error return that drops the list (`return nil, err`): the caller releases
   nothing and the marker of the earlier attachment stays *)
Fixpoint reserve_all_drop (pl : plan) (aa : list att) (rr : list positive) (w : world) : bool * list positive * world :=
  match aa with
  | [] => (false, rr, w)
  | a :: rest =>
      match reserve_one pl (a_mark a) w with
      | Done _ w' => reserve_all_drop pl rest (rr ++ [a_mark a]) w'
      | Fail _ w' => (true, [], w')
      end
  end.
Definition extract_drop (pl : plan) (aa : list att) (w : world) : ctl * world :=
  let '(failed, rr, w1) := reserve_all_drop pl aa [] w in
  if failed then (CErr, snd (release_all pl rr w1)) else (COk, w1).

Lemma dropped_reservations_leak_refuted_proof :
  exists r w', extract_drop (single 1) [Att 2%positive 3%positive [] COk; Att 4%positive 5%positive [] COk] (W ∅ 0 []) = (r, w') /\
    r = CErr /\ wfs w' !! 2%positive = Some (File [] mode_tmp).
Proof. eexists _, _. split; [vm_compute; reflexivity|]. split; [reflexivity|vm_compute; reflexivity]. Qed.

(* the function as it is: the same run leaves nothing *)
Lemma kept_reservations_example :
  exists r w', extract_attachments (single 1) fresh_path KNone
                 [Att 2%positive 3%positive [] COk; Att 4%positive 5%positive [] COk] (W ∅ 0 []) = (r, w') /\
    r = CErr /\ map_to_list (wfs w') = [].
Proof. eexists _, _. split; [vm_compute; reflexivity|]. split; [reflexivity|vm_compute; reflexivity]. Qed.
