(* C32 — proofs: the tree-level operations refine their list-level specifications. *)
From Coq Require Import ZArith List Bool Lia ZifyBool ZifyNat.
From PV Require Import Lib.GoInt C33.Pages C33.ProofsSplit C33.ProofsMerge C32.Model.
Import ListNotations.
Open Scope Z_scope.

Definition wid (w : wpage) : Z := pg_id (fst w).

(* ---------- walk vs resolve ---------- *)
Lemma walk_resolve : forall t inh, resolve inh t = map eff (walk inh t).
Proof.
  induction t as [d|a c kids IH] using tree_ind'; intros inh; [reflexivity|].
  simpl. induction IH as [|k ks Hk _ IHks]; simpl; [reflexivity|].
  rewrite map_app, Hk, IHks. reflexivity.
Qed.

Lemma ids_walk t : ids_of t = map wid (wpages t).
Proof.
  unfold ids_of, pages_of, rpages, wpages. rewrite walk_resolve, !map_map. reflexivity.
Qed.

Lemma pages_walk t : pages_of t = map (fun w => view (eff w)) (wpages t).
Proof. unfold pages_of, rpages, wpages. rewrite walk_resolve, map_map. reflexivity. Qed.

Lemma lenZ_app {A} (a b : list A) : lenZ (a ++ b) = lenZ a + lenZ b.
Proof. unfold lenZ. rewrite app_length. lia. Qed.

Lemma lenZ_cons {A} (x : A) l : lenZ (x :: l) = 1 + lenZ l.
Proof. unfold lenZ. simpl length. lia. Qed.

Lemma count_walk t : wf_count t = true -> forall inh, count_of t = lenZ (walk inh t).
Proof.
  intros H inh. rewrite (wf_count_len t H inh), walk_resolve. unfold lenZ. rewrite map_length. reflexivity.
Qed.

(* ---------- per-page updates ---------- *)
Section UpdProof.
  Variable sel : Z -> bool.
  Variable pf : pageD -> attrs -> pageD.

  Lemma upd_list_app l1 : forall p l2,
    upd_list sel pf p (l1 ++ l2) = upd_list sel pf p l1 ++ upd_list sel pf (p + lenZ l1) l2.
  Proof.
    induction l1 as [|[d i] l1 IH]; intros p l2; simpl.
    - unfold lenZ. simpl. rewrite Z.add_0_r. reflexivity.
    - rewrite IH, lenZ_cons. do 3 f_equal. lia.
  Qed.

  Lemma upd_list_length l : forall p, lenZ (upd_list sel pf p l) = lenZ l.
  Proof.
    induction l as [|[d i] l IH]; intros p; simpl; [reflexivity|]. rewrite !lenZ_cons, IH. reflexivity.
  Qed.

  Definition upd_ok (t : tree) : Prop := forall inh p,
    walk inh (fst (upd_tree sel pf t inh p)) = upd_list sel pf p (walk inh t) /\
    snd (upd_tree sel pf t inh p) = p + lenZ (walk inh t) /\
    count_of (fst (upd_tree sel pf t inh p)) = count_of t /\
    (wf_count t = true -> wf_count (fst (upd_tree sel pf t inh p)) = true) /\
    is_node (fst (upd_tree sel pf t inh p)) = is_node t.

  Lemma upd_kids_ok : forall kids, Forall upd_ok kids -> forall inh p,
    flat_map (walk inh) (fst (upd_kids (upd_tree sel pf) kids inh p)) =
      upd_list sel pf p (flat_map (walk inh) kids) /\
    snd (upd_kids (upd_tree sel pf) kids inh p) = p + lenZ (flat_map (walk inh) kids) /\
    map count_of (fst (upd_kids (upd_tree sel pf) kids inh p)) = map count_of kids /\
    (forallb wf_count kids = true -> forallb wf_count (fst (upd_kids (upd_tree sel pf) kids inh p)) = true).
  Proof.
    induction 1 as [|k ks Hk _ IH]; intros inh p.
    - simpl. repeat split; try reflexivity. unfold lenZ. simpl. lia.
    - destruct (Hk inh p) as [K1 [K2 [K3 [K4 _]]]].
      simpl upd_kids. destruct (upd_tree sel pf k inh p) as [k' p1]. cbn [fst snd] in *.
      destruct (IH inh p1) as [I1 [I2 [I3 I4]]].
      destruct (upd_kids (upd_tree sel pf) ks inh p1) as [r' p2]. cbn [fst snd] in *.
      change (flat_map (walk inh) (k' :: r')) with (walk inh k' ++ flat_map (walk inh) r').
      change (flat_map (walk inh) (k :: ks)) with (walk inh k ++ flat_map (walk inh) ks).
      rewrite upd_list_app, K1, I1, <- K2. repeat split.
      + rewrite I2, K2, lenZ_app. lia.
      + simpl. rewrite K3, I3. reflexivity.
      + intros Hw. simpl in Hw. apply andb_true_iff in Hw. destruct Hw as [Hw1 Hw2].
        simpl. rewrite (K4 Hw1), (I4 Hw2). reflexivity.
  Qed.

  Lemma upd_tree_ok : forall t, upd_ok t.
  Proof.
    induction t as [d|a c kids IH] using tree_ind'; intros inh p.
    - simpl. destruct (sel (p + 1)); simpl; repeat split; auto; unfold lenZ; simpl; lia.
    - pose proof (upd_kids_ok kids IH (inherit inh a) p) as H.
      simpl. destruct (upd_kids (upd_tree sel pf) kids (inherit inh a) p) as [ks p1]. cbn [fst snd] in *.
      destruct H as [H1 [H2 [H3 H4]]]. simpl. repeat split; auto.
      intros Hw. apply andb_true_iff in Hw. destruct Hw as [Hc Hk].
      rewrite H3, Hc, (H4 Hk). reflexivity.
  Qed.

  Lemma upd_list_ids : (forall d e, pg_id (pf d e) = pg_id d) -> forall l p,
    map wid (upd_list sel pf p l) = map wid l.
  Proof.
    intros Hid. induction l as [|[d i] l IH]; intros p; simpl; [reflexivity|].
    rewrite IH. f_equal. destruct (sel (p + 1)); unfold wid; simpl; auto.
  Qed.

  (* page k+1 of the result: the updated page if selected, the very same page otherwise *)
  Lemma upd_list_nth : forall l p k,
    nth_error (upd_list sel pf p l) k =
    option_map (fun w => if sel (p + Z.of_nat k + 1)
                         then (pf (fst w) (inherit (snd w) (pg_attrs (fst w))), snd w) else w)
               (nth_error l k).
  Proof.
    induction l as [|[d i] l IH]; intros p k; destruct k as [|k]; simpl; try reflexivity.
    - rewrite Z.add_0_r. destruct (sel (p + 1)); reflexivity.
    - rewrite IH. replace (p + 1 + Z.of_nat k + 1) with (p + Z.pos (Pos.of_succ_nat k) + 1) by lia. reflexivity.
  Qed.
End UpdProof.

Lemma upd_op_spec sel pf t :
  wpages (upd_op sel pf t) = upd_list (selb sel) pf 0 (wpages t) /\
  count_of (upd_op sel pf t) = count_of t /\
  (wf_count t = true -> wf_count (upd_op sel pf t) = true) /\
  is_node (upd_op sel pf t) = is_node t.
Proof.
  unfold upd_op, wpages. destruct (upd_tree_ok (selb sel) pf t no_attrs 0) as [H1 [_ [H3 [H4 H5]]]].
  repeat split; assumption.
Qed.

(* rotation arithmetic: the new /Rotate is the canonical representative of current + delta mod 360 *)
Lemma compose_rot_spec cur delta :
  0 <= compose_rot cur delta < 360 /\ (compose_rot cur delta - (cur + delta)) mod 360 = 0.
Proof.
  unfold compose_rot.
  pose proof (Z.rem_bound_abs (Z.rem cur 360 + Z.rem delta 360) 360) as Hb.
  pose proof (Z.quot_rem' cur 360) as Hc. pose proof (Z.quot_rem' delta 360) as Hd.
  pose proof (Z.quot_rem' (Z.rem cur 360 + Z.rem delta 360) 360) as He.
  set (r := Z.rem (Z.rem cur 360 + Z.rem delta 360) 360) in *.
  assert (Habs : -360 < r < 360) by lia.
  destruct (r <? 0) eqn:E; (split; [lia|]).
  - replace (r + 360 - (cur + delta)) with
      ((1 - Z.quot (Z.rem cur 360 + Z.rem delta 360) 360 - Z.quot cur 360 - Z.quot delta 360) * 360) by lia.
    apply Z.mod_mul. lia.
  - replace (r - (cur + delta)) with
      ((- Z.quot (Z.rem cur 360 + Z.rem delta 360) 360 - Z.quot cur 360 - Z.quot delta 360) * 360) by lia.
    apply Z.mod_mul. lia.
Qed.

(* ---------- insert blank pages ---------- *)
Section InsProof.
  Variable sel : Z -> bool.
  Variable before : bool.
  Variable dim : option rect.

  Lemma ins_rel_app p l1 l1' : ins_rel sel before p l1 l1' -> forall l2 l2',
    ins_rel sel before (p + lenZ l1) l2 l2' -> ins_rel sel before p (l1 ++ l2) (l1' ++ l2').
  Proof.
    induction 1 as [p|p w l l' Hs _ IH|p d i mb l l' Hs _ IH]; intros l2 l2' H2.
    - unfold lenZ in H2. simpl in H2. rewrite Z.add_0_r in H2. exact H2.
    - simpl. apply ins_skip; [assumption|]. apply IH. rewrite lenZ_cons in H2.
      replace (p + 1 + lenZ l) with (p + (1 + lenZ l)) by lia. exact H2.
    - rewrite lenZ_cons in H2.
      assert (H2' : ins_rel sel before (p + 1 + lenZ l) l2 l2')
        by (replace (p + 1 + lenZ l) with (p + (1 + lenZ l)) by lia; exact H2).
      specialize (IH _ _ H2').
      pose proof (ins_sel sel before p d i mb _ _ Hs IH) as H. destruct before; exact H.
  Qed.

  Definition ins_ok (t : tree) : Prop := is_node t = true -> forall st p inh,
    ins_rel sel before p (walk inh t) (walk inh (fst (fst (ins_tree sel before dim t st p)))) /\
    snd (ins_tree sel before dim t st p) = p + lenZ (walk inh t) /\
    wf_count (fst (fst (ins_tree sel before dim t st p))) = true /\
    is_node (fst (fst (ins_tree sel before dim t st p))) = true.

  Lemma ins_kids_ok : forall kids, Forall ins_ok kids -> forall st p inh,
    let '(ks', c, st', p') := ins_kids sel before dim (ins_tree sel before dim) kids st p in
    ins_rel sel before p (flat_map (walk inh) kids) (flat_map (walk inh) ks') /\
    p' = p + lenZ (flat_map (walk inh) kids) /\
    c = sumZ (map count_of ks') /\
    forallb wf_count ks' = true.
  Proof.
    induction 1 as [|k ks Hk _ IH]; intros st p inh.
    - simpl. repeat split; try constructor. unfold lenZ. simpl. lia.
    - destruct k as [d|a c0 kk].
      + specialize (IH st (p + 1) inh). simpl ins_kids.
        destruct (ins_kids sel before dim (ins_tree sel before dim) ks st (p + 1)) as [[[r' c] st'] p'].
        destruct IH as [I1 [I2 [I3 I4]]].
        change (flat_map (walk inh) (Leaf d :: ks)) with ((d, inh) :: flat_map (walk inh) ks).
        destruct (sel (p + 1)) eqn:Es.
        * pose proof (ins_sel sel before p d inh (blank_mb dim st d) _ _ Es I1) as Hrel.
          destruct before; (split; [exact Hrel|]); (split; [rewrite I2, lenZ_cons; lia|]);
            (split; [rewrite I3; cbn [map count_of sumZ fold_right]; unfold sumZ; lia|exact I4]).
        * split; [apply ins_skip; assumption|]. split; [rewrite I2, lenZ_cons; lia|].
          split; [rewrite I3; cbn [map count_of sumZ fold_right]; unfold sumZ; lia|exact I4].
      + destruct (Hk eq_refl st p inh) as [K1 [K2 [K3 K4]]].
        change (ins_kids sel before dim (ins_tree sel before dim) (Node a c0 kk :: ks) st p) with
          (let '(k', st1, p1) := ins_tree sel before dim (Node a c0 kk) st p in
           let '(r', c, st', p') := ins_kids sel before dim (ins_tree sel before dim) ks st1 p1 in
           (k' :: r', c + count_of k', st', p')).
        destruct (ins_tree sel before dim (Node a c0 kk) st p) as [[k' st1] p1]. cbn [fst snd] in *.
        specialize (IH st1 p1 inh).
        destruct (ins_kids sel before dim (ins_tree sel before dim) ks st1 p1) as [[[r' c] st'] p'].
        destruct IH as [I1 [I2 [I3 I4]]].
        change (flat_map (walk inh) (Node a c0 kk :: ks)) with (walk inh (Node a c0 kk) ++ flat_map (walk inh) ks).
        change (flat_map (walk inh) (k' :: r')) with (walk inh k' ++ flat_map (walk inh) r').
        split; [|split; [|split]].
        * apply ins_rel_app; [exact K1|]. rewrite <- K2. exact I1.
        * rewrite I2, K2, lenZ_app. lia.
        * rewrite I3. change (sumZ (map count_of (k' :: r'))) with (count_of k' + sumZ (map count_of r')). lia.
        * change (forallb wf_count (k' :: r')) with (wf_count k' && forallb wf_count r'). rewrite K3, I4. reflexivity.
  Qed.

  Lemma ins_tree_ok : forall t, ins_ok t.
  Proof.
    induction t as [d|a c kids IH] using tree_ind'; [intros H; discriminate|].
    intros _ st p inh. pose proof (ins_kids_ok kids IH (inherit st a) p (inherit inh a)) as H.
    simpl. destruct (ins_kids sel before dim (ins_tree sel before dim) kids (inherit st a) p) as [[[ks c'] st'] p'].
    destruct H as [H1 [H2 [H3 H4]]]. cbn [fst snd]. repeat split; try assumption.
    simpl. rewrite H4, andb_true_r. apply Z.eqb_eq. exact H3.
  Qed.

  Lemma ins_rel_ids p l l' : ins_rel sel before p l l' ->
    map wid l' = ins_ids sel before p (map wid l).
  Proof.
    induction 1 as [p|p w l l' Hs _ IH|p d i mb l l' Hs _ IH]; simpl.
    - reflexivity.
    - rewrite Hs, IH. reflexivity.
    - rewrite Hs. destruct before; simpl; rewrite IH; reflexivity.
  Qed.

  (* the inserted pages are blank pages; taking them out again gives back the original list *)
  Lemma ins_rel_length p l l' : ins_rel sel before p l l' -> (length l <= length l')%nat.
  Proof.
    induction 1 as [p|p w l l' Hs _ IH|p d i mb l l' Hs _ IH]; simpl; [lia|lia|].
    destruct before; simpl; lia.
  Qed.
End InsProof.

(* ---------- remove / trim / collect = ExtractPages of a page number list ---------- *)
Definition dflt : rpage := (blank_page a4, no_attrs).

Lemma in_range_Forall n l : in_range n l = true -> Forall (fun k => 1 <= k <= n) l.
Proof.
  unfold in_range. rewrite forallb_forall, Forall_forall. intros H k Hk. specialize (H k Hk). lia.
Qed.

Lemma in_range_false n l : in_range n l = false -> Exists (fun k => ~ (1 <= k <= n)) l.
Proof.
  induction l as [|k l IH]; simpl; [discriminate|]. intros H. apply andb_false_iff in H.
  destruct H as [H|H]; [left; lia|right; apply IH; exact H].
Qed.

Lemma extract_spec t nrs t' : wf_count t = true -> extract_pages t nrs = Ok t' ->
  nrs <> [] /\ in_range (count_of t) nrs = true /\
  pages_of t' = map (fun k => xview (nth (Z.to_nat (k - 1)) (rpages t) dflt)) nrs /\
  ids_of t' = pick_ids (ids_of t) nrs /\
  wf_count t' = true /\ is_node t' = true.
Proof.
  intros Hwf. unfold extract_pages. destruct nrs as [|k0 ks0] eqn:En; [discriminate|]. rewrite <- En.
  destruct (in_range (count_of t) nrs) eqn:Er.
  - rewrite (collect_ok (rpages t) (count_of t) dflt (wf_count_len t Hwf no_attrs) nrs (in_range_Forall _ _ Er)).
    intros [= <-]. split; [congruence|]. split; [reflexivity|].
    rewrite <- map_map. rewrite pages_flat_tree_x.
    split; [rewrite map_map; reflexivity|]. split.
    + unfold ids_of. rewrite pages_flat_tree_x. unfold pick_ids, pages_of. rewrite !map_map.
      apply map_ext. intros k. rewrite xview_id.
      change 0 with (v_id (view dflt)). rewrite <- (map_map view v_id), !map_nth. reflexivity.
    + split; [|reflexivity]. unfold flat_tree. rewrite wf_node. apply andb_true_iff. split.
      * apply Z.eqb_eq. symmetry. apply sum_count_leaves.
      * apply forallb_forall. intros x Hx. apply in_map_iff in Hx. destruct Hx as [y [<- _]]. reflexivity.
  - rewrite (collect_bad (rpages t) (count_of t) nrs (in_range_false _ _ Er)). discriminate.
Qed.

Lemma filter_range_in n f : in_range n (filter f (page_range 1 n)) = true.
Proof.
  unfold in_range. apply forallb_forall. intros k Hk. apply filter_In in Hk. destruct Hk as [Hk _].
  pose proof (page_range_bounds 1 n) as Hb. rewrite Forall_forall in Hb. specialize (Hb k Hk). lia.
Qed.

(* ---------- every operation acts on the marker sequence as specified; histories ---------- *)
Lemma pf_ids :
  (forall delta d e, pg_id (pf_rotate delta d e) = pg_id d) /\
  (forall b d e, pg_id (pf_addbox b d e) = pg_id d) /\
  (forall q d e, pg_id (pf_rmbox q d e) = pg_id d).
Proof. repeat split. Qed.

Lemma upd_op_ids sel pf t : (forall d e, pg_id (pf d e) = pg_id d) ->
  ids_of (upd_op sel pf t) = ids_of t.
Proof.
  intros H. rewrite !ids_walk. destruct (upd_op_spec sel pf t) as [H1 _]. rewrite H1.
  apply upd_list_ids. exact H.
Qed.

Lemma ids_length t : wf_count t = true -> lenZ (ids_of t) = count_of t.
Proof.
  intros H. rewrite (wf_count_len t H no_attrs). unfold ids_of, pages_of, rpages, lenZ.
  rewrite !map_length. reflexivity.
Qed.

Lemma apply_op_ids o t t' : wf_count t = true -> is_node t = true -> apply_op o t = Ok t' ->
  spec_op o (ids_of t) = Some (ids_of t') /\ wf_count t' = true /\ is_node t' = true.
Proof.
  intros Hwf Hn. destruct o as [sel before dim|sel|sel|l|sel delta|sel b|sel q|sel rc]; simpl.
  - destruct t as [d|a c kids]; [discriminate|]. intros He.
    assert (Ht' : t' = fst (fst (ins_tree (selb sel) before dim (Node a c kids) no_attrs 0))) by congruence.
    subst t'. clear He.
    destruct (ins_tree_ok (selb sel) before dim (Node a c kids) eq_refl no_attrs 0 no_attrs) as [H1 [_ [H3 H4]]].
    split; [|split; assumption]. rewrite !ids_walk. unfold wpages.
    rewrite (ins_rel_ids _ _ _ _ _ H1). reflexivity.
  - intros He. destruct (extract_spec _ _ _ Hwf He) as [Hne [_ [_ [Hi [Hw' Hn']]]]].
    rewrite ids_length by assumption. unfold all_pages in *.
    destruct (filter (fun k => negb (selb sel k)) (page_range 1 (count_of t))); [congruence|].
    rewrite Hi. auto.
  - intros He. destruct (extract_spec _ _ _ Hwf He) as [Hne [_ [_ [Hi [Hw' Hn']]]]].
    rewrite ids_length by assumption. unfold all_pages in *.
    destruct (filter (selb sel) (page_range 1 (count_of t))); [congruence|].
    rewrite Hi. auto.
  - intros He. destruct (extract_spec _ _ _ Hwf He) as [Hne [Hr [_ [Hi [Hw' Hn']]]]].
    rewrite ids_length by assumption. destruct l; [congruence|]. rewrite Hr, Hi. auto.
  - destruct (Z.rem delta 90 =? 0); [|discriminate]. intros [= <-].
    destruct (upd_op_spec sel (pf_rotate delta) t) as [_ [_ [H3 H4]]].
    rewrite upd_op_ids by (intros; reflexivity). rewrite H4. auto.
  - intros [= <-]. destruct (upd_op_spec sel (pf_addbox b) t) as [_ [_ [H3 H4]]].
    rewrite upd_op_ids by (intros; reflexivity). rewrite H4. auto.
  - intros [= <-]. destruct (upd_op_spec sel (pf_rmbox q) t) as [_ [_ [H3 H4]]].
    rewrite upd_op_ids by (intros; reflexivity). rewrite H4. auto.
  - intros [= <-].
    destruct (upd_op_spec sel (pf_addbox (mkBoxReq None (Some rc) None None None)) t) as [_ [_ [H3 H4]]].
    rewrite upd_op_ids by (intros; reflexivity). rewrite H4. auto.
Qed.

Lemma run_ids : forall ops t t', wf_count t = true -> is_node t = true -> run ops t = Ok t' ->
  spec_run ops (ids_of t) = Some (ids_of t') /\ wf_count t' = true /\ is_node t' = true.
Proof.
  induction ops as [|o r IH]; intros t t' Hwf Hn; simpl.
  - intros [= <-]. auto.
  - destruct (apply_op o t) as [t1|] eqn:Ea; [|discriminate]. intros Hr.
    destruct (apply_op_ids o t t1 Hwf Hn Ea) as [Hs [Hw1 Hn1]]. rewrite Hs. apply IH; assumption.
Qed.
