From Coq Require Import Extraction ExtrOcamlBasic.
From PV Require Import Lib.ExtBase C33.Pages C33.Model.
Extraction "model.ml" ext_base_z ext_base_n ext_base_nat ext_base_res ext_base_list
  pages_of count_of wf_count span_parts along_parts split_span split_along merge_create zip_merge new_numbers.
