(* C28 / C27 — shared executable model of pdfcpu's signed-byte-range handling.
   Hand transcription (cited line by line) of
     pkg/pdfcpu/sign/sign.go : byteRangeValues, validateByteRange, copyByteRange,
                               bytesForByteRange, validateContentsGap, contentsGapMatches,
                               toUpperHex, signedData
     pkg/pdfcpu/sign.go      : collectSignedRevisionBoundaryEvidence,
                               recordSignedRevisionBoundaryEvidence,
                               applyHistoricalRevisionReporting, validateSignature (DocModified flow)
   byteRangeEnd is NOT hand-written: it comes from Generated.v (go2gallina, regenerated on
   every run from sign.go).  No proofs in this file. *)
From Coq Require Import ZArith NArith List Bool.
From PV Require Import Lib.GoInt C28.Generated.
Import ListNotations.
Open Scope Z_scope.

Definition IW : Z := 64.
Definition maxInt : Z := maxS 64.        (* math.MaxInt on the 64-bit harness platform *)

(* ---- files as byte lists; offsets are Z (Go int64) ---- *)
Definition lenZ {A} (l : list A) : Z := fold_left (fun a _ => a + 1) l 0.

Fixpoint dropZ (n : Z) (l : list N) : list N :=
  match l with
  | [] => []
  | _ :: t => if n <=? 0 then l else dropZ (n - 1) t
  end.
Fixpoint takeZ (n : Z) (l : list N) : list N :=
  match l with
  | [] => []
  | x :: t => if n <=? 0 then [] else x :: takeZ (n - 1) t
  end.
Definition slice (f : list N) (off size : Z) : list N := takeZ size (dropZ off f).

(* ---- sign.go:478 byteRangeValues.  The /ByteRange array is modelled as the list of its
   integer values (types.Integer = Go int, 64 bit); a non-integer element is rejected at
   sign.go:484 before anything else happens and is outside the model. ---- *)
Definition byteRangeValues (arr : list Z) : res (Z * Z * Z * Z) :=
  match arr with
  | [a; b; c; d] =>
      if a <? 0 then Err else if b <? 0 then Err else if c <? 0 then Err else if d <? 0 then Err
      else Ok (a, b, c, d)
  | _ => Err                                              (* len(arr) != len(values) *)
  end.

(* ---- sign.go:507 validateByteRange (byteRangeEnd: Generated.v) ---- *)
Definition validateByteRange (v : Z * Z * Z * Z) : res Z :=
  let '(o1, l1, o2, l2) := v in
  if negb (o1 =? 0) then Err else                         (* values[0] != 0 *)
  match byteRangeEnd IW o1 l1 with
  | Err => Err
  | Ok end1 =>
    if end1 >? o2 then Err else                           (* overlapping ranges *)
    match byteRangeEnd IW o2 l2 with
    | Err => Err
    | Ok _ =>
      match byteRangeEnd IW l1 l2 with
      | Err => Err
      | Ok total => if total >? maxInt then Err else Ok total
      end
    end
  end.

(* ---- sign.go:528 copyByteRange over an in-memory io.ReaderAt holding f:
   io.CopyN(w, io.NewSectionReader(ra, off, size), size) returns nil for size = 0 at any
   offset, the bytes for a range inside the file, io.EOF (-> malformed) otherwise.
   Only reached with off, size >= 0. ---- *)
Definition copyByteRange (f : list N) (off size : Z) : res (list N) :=
  if (off <? 0) || (size <? 0) then Err
  else if size =? 0 then Ok []
  else if off + size <=? lenZ f then Ok (slice f off size) else Err.

(* ---- sign.go:545 bytesForByteRange ---- *)
Definition bytesForByteRange (f : list N) (arr : list Z) : res (list N) :=
  match byteRangeValues arr with
  | Err => Err
  | Ok v =>
    match validateByteRange v with
    | Err => Err
    | Ok _ =>
      let '(o1, l1, o2, l2) := v in
      match copyByteRange f o1 l1 with
      | Err => Err
      | Ok d1 => match copyByteRange f o2 l2 with Err => Err | Ok d2 => Ok (d1 ++ d2) end
      end
    end
  end.

(* ---- sign.go:471 toUpperHex, sign.go:454 contentsGapMatches ---- *)
Definition isGapWs (b : N) : bool :=                       (* strings.ContainsRune(" \t\n\f\r", rune(b)) *)
  ((b =? 32) || (b =? 9) || (b =? 10) || (b =? 12) || (b =? 13))%N.
Definition toUpperHex (b : N) : N :=
  (if (97 <=? b) && (b <=? 102) then b - 32 else b)%N.

(* the for loop: i indexes contents; consuming the contents list is the same thing *)
Fixpoint gapLoop (inner c : list N) : bool :=
  match inner with
  | [] => match c with [] => true | _ => false end        (* return i == len(contents) *)
  | b :: t =>
      if isGapWs b then gapLoop t c
      else match c with
           | [] => false                                   (* i >= len(contents) *)
           | x :: c' => if (toUpperHex b =? toUpperHex x)%N then gapLoop t c' else false
           end
  end.

Definition contentsGapMatches (gap c : list N) : bool :=
  match gap with
  | [] => false
  | [_] => false                                           (* len(gap) < 2 *)
  | g0 :: rest =>
      (g0 =? 60)%N && (last rest 0%N =? 62)%N && gapLoop (removelast rest) c
  end.

(* ---- sign.go:429 validateContentsGap.  contents = None: no /Contents hex literal; Some c:
   the bytes of HexLiteral.Value() as produced by the PDF parser.  Called only after
   validateByteRange succeeded, so o1+l1 and o2-end1 do not wrap (plain Z arithmetic);
   len(contents)+2+2^20 cannot overflow for an in-memory string. ---- *)
Definition validateContentsGap (f : list N) (contents : option (list N)) (v : Z * Z * Z * Z) : bool :=
  match contents with
  | None => false
  | Some c =>
    let '(o1, l1, o2, l2) := v in
    match byteRangeEnd IW o1 l1 with
    | Err => false
    | Ok end1 =>
      let gapSize := o2 - end1 in
      if (gapSize <? 2) || (gapSize >? lenZ c + 2 + 2 ^ 20) then false
      else match copyByteRange f end1 gapSize with
           | Err => false
           | Ok gap => contentsGapMatches gap c
           end
    end
  end.

(* ---- sign.go:408 signedData ---- *)
Definition signedData (f : list N) (arr : list Z) (contents : option (list N)) : res (list N) :=
  match arr with
  | [_; _; _; _] =>
    match byteRangeValues arr with
    | Err => Err
    | Ok v =>
      match validateByteRange v with
      | Err => Err
      | Ok _ => if validateContentsGap f contents v then bytesForByteRange f arr else Err
      end
    end
  | _ => Err
  end.

(* ---- three-valued DocModified (model/sign.go: Unknown, False, True) ---- *)
Inductive tri := TUnknown | TFalse | TTrue.

(* pkg/pdfcpu/sign.go:326 collectSignedRevisionBoundaryEvidence: Some (signedRevisionEnd)
   when evidence is available.  fsize = ctx.Read.FileSize. *)
Definition revisionEnd (fsize : Z) (arr : list Z) : option Z :=
  if fsize <? 0 then None else
  match arr with
  | [_; _; off; size] =>
      if (off <? 0) || (size <? 0) || (off >? ssubw 64 (maxS 64) size) then None
      else Some (saddw 64 off size)
  | _ => None
  end.

(* The three classification inputs of a signature are kept apart:
     dts       : the signature FIELD was classified as a document time stamp by the sig dict's
                 /Type /DocTimeStamp (validate/form.go:cacheSig -> sig.Type == SigTypeDTS);
     sf        : the sig dict's /SubFilter (it selects the handler, sign.go:sigHandler);
     increment : the xref increment the field object was found in.
   Both revision sites below consult dts and increment only; sf is an input they do NOT look at
   (a time-stamp SubFilter without /Type /DocTimeStamp gets no exemption). *)
Inductive subFilter := SF_RFC3161 | SF_CAdES | SF_PKCS7Detached | SF_Other.

(* pkg/pdfcpu/sign.go:305 recordSignedRevisionBoundaryEvidence: true = go on validating *)
Definition boundaryOK (fsize : Z) (arr : list Z) (increment : Z) (dts : bool) (sf : subFilter) : bool :=
  match revisionEnd fsize arr with
  | None => true                                           (* !ok *)
  | Some e => negb ((increment =? 0) || dts)               (* !evidence.currentRevision *)
              || (e =? fsize)
  end.

(* pkg/pdfcpu/sign.go:285 applyHistoricalRevisionReporting (DocModified part) *)
Definition applyHistorical (increment : Z) (dts : bool) (sf : subFilter) (d : tri) : tri :=
  if (increment <=? 0) || dts then d
  else match d with TFalse => TUnknown | _ => d end.

(* pkg/pdfcpu/sign.go:168 validateSignature / :129 validateURSignature, DocModified only.
   [verdict data] stands for everything the SubFilter handler does AFTER signedData
   succeeded (CMS parsing, digest comparison, signature and certificate checks, several
   signers): external crypto, an arbitrary function here.  Every handler
   (sign/pkcs7.go:207, sign/pkcs1.go:310, sign/dts.go:329) leaves DocModified = Unknown when
   signedData fails with a malformed-ByteRange error. *)
Definition docModified (verdict : list N -> tri)
    (fsize : Z) (f : list N) (arr : list Z) (contents : option (list N))
    (increment : Z) (dts : bool) (sf : subFilter) : tri :=
  if negb (boundaryOK fsize arr increment dts sf) then TUnknown
  else match signedData f arr contents with
       | Err => TUnknown
       | Ok data => applyHistorical increment dts sf (verdict data)
       end.

(* entry point used by the harness: the handler's verdict is supplied as a value *)
Definition docModifiedWith (v : tri) := docModified (fun _ => v).
