(* C39 — Remove keeps the invariant and refines m_remove. *)
From Coq Require Import List NArith Bool Lia PeanoNat.
From PV Require Import C39.Model C39.ProofsOrder C39.Proofs.
Import ListNotations.

Lemma rm_names_spec ns k :
  match rm_names ns k with
  | Some l => In k (ekeys ns) /\ l = m_remove k ns
  | None => ~ In k (ekeys ns)
  end.
Proof.
  induction ns as [|[k' v'] ns IH]; cbn; [tauto|].
  assert (Hrec : keqb k' k = false ->
          match option_map (cons (k', v')) (rm_names ns k) with
          | Some l => (k' = k \/ In k (ekeys ns)) /\ l = (k', v') :: m_remove k ns
          | None => ~ (k' = k \/ In k (ekeys ns))
          end).
  { intros E. destruct (keqb_spec k' k) as [|Hne]; [discriminate|].
    destruct (rm_names ns k); cbn.
    - destruct IH as [Hin ->]. auto.
    - tauto. }
  destruct (kltb_spec k' k) as [Hlt|Hge].
  - destruct (keqb_spec k' k) as [->|Hne]; [order|]. apply Hrec. reflexivity.
  - destruct (keqb_spec k' k) as [->|Hne]; [auto|]. apply Hrec. reflexivity.
Qed.

Lemma m_remove_hd k m : lsorted (ekeys m) -> m <> [] -> k = khd (ekeys m) -> m_remove k m = tl m.
Proof. destruct m as [|[k' v'] m]; [congruence|]. intros _ _ ->. cbn. destruct (keqb_spec k' k'); [reflexivity|congruence]. Qed.

Lemma m_remove_last m : lsorted (ekeys m) -> m <> [] -> m_remove (klast (ekeys m)) m = removelast m.
Proof.
  induction m as [|[k1 v1] m IH]; [congruence|]. intros Hs _.
  destruct m as [|[k2 v2] m'].
  - cbn. destruct (keqb_spec k1 k1); [reflexivity|congruence].
  - assert (Hne : (k2, v2) :: m' <> []) by discriminate.
    specialize (IH (lsorted_tail _ _ Hs) Hne).
    change (klast (ekeys ((k1, v1) :: (k2, v2) :: m'))) with (klast (ekeys ((k2, v2) :: m'))).
    assert (Hlt : klt k1 (klast (ekeys ((k2, v2) :: m')))).
    { apply (lsorted_lb k1 _ Hs). apply klast_in. discriminate. }
    change (removelast ((k1, v1) :: (k2, v2) :: m')) with ((k1, v1) :: removelast ((k2, v2) :: m')).
    rewrite <- IH. set (kl := klast (ekeys ((k2, v2) :: m'))) in *.
    change (m_remove kl ((k1, v1) :: (k2, v2) :: m')) with
      (if keqb k1 kl then (k2, v2) :: m' else (k1, v1) :: m_remove kl ((k2, v2) :: m')).
    destruct (keqb_spec k1 kl); [order|reflexivity].
Qed.

Lemma m_remove_keeps_hd k m : k <> khd (ekeys m) -> khd (ekeys (m_remove k m)) = khd (ekeys m).
Proof. destruct m as [|[k' v'] m]; [reflexivity|]. cbn. intros H. destruct (keqb_spec k' k); [congruence|reflexivity]. Qed.

Lemma m_remove_keeps_last k m : k <> klast (ekeys m) -> klast (ekeys (m_remove k m)) = klast (ekeys m).
Proof.
  induction m as [|[k1 v1] m IH]; [reflexivity|]. intros H.
  destruct m as [|[k2 v2] m'].
  - cbn in *. destruct (keqb_spec k1 k); [congruence|reflexivity].
  - change (klast (ekeys ((k1, v1) :: (k2, v2) :: m'))) with (klast (ekeys ((k2, v2) :: m'))) in *.
    specialize (IH H).
    change (m_remove k ((k1, v1) :: (k2, v2) :: m')) with
      (if keqb k1 k then (k2, v2) :: m' else (k1, v1) :: m_remove k ((k2, v2) :: m')).
    destruct (keqb k1 k); [reflexivity|].
    cbn [map fst]. destruct (m_remove k ((k2, v2) :: m')) as [|e l] eqn:E.
    + exfalso. cbn in E. destruct (keqb_spec k2 k) as [->|Hne]; [|discriminate]. subst m'. cbn in H. congruence.
    + rewrite klast_cons by discriminate. exact IH.
Qed.

Lemma map_fst_last (r : list entry) : r <> [] -> fst (last r ([], 0%N)) = klast (ekeys r).
Proof.
  induction r as [|e r IH]; [congruence|]. intros _. destruct r as [|e2 r']; [reflexivity|].
  change (last (e :: e2 :: r') ([], 0%N)) with (last (e2 :: r') ([], 0%N)).
  change (klast (ekeys (e :: e2 :: r'))) with (klast (ekeys (e2 :: r'))). apply IH. discriminate.
Qed.

Definition rm_post (n : node) (k : key) (r : rres) : Prop :=
  exists n' e ok, r = R n' e ok /\
    (ok = true <-> In k (keys n)) /\
    entries n' = m_remove k (entries n) /\
    (ok = false -> n' = n /\ e = false) /\
    (e = true -> exists a b, n' = Leaf [] a b) /\
    (e = false -> wf n').

Lemma leaf_wf_of ns : ns <> [] -> lsorted (ekeys ns) -> leaf_wf ns (khd (ekeys ns)) (klast (ekeys ns)).
Proof. intros. repeat split; auto. Qed.

Lemma remove_leaf_ok ns a b k : leaf_wf ns a b -> rm_post (Leaf ns a b) k (remove_leaf ns a b k).
Proof.
  intros Hw. pose proof Hw as (Hne & Hs & Ha & Hb).
  assert (Hg : good (Leaf ns a b)) by (apply wf_good; exact Hw).
  assert (Erl : remove_leaf ns a b k = remove_leaf_names ns a b k) by (destruct ns; [congruence|reflexivity]).
  rewrite Erl. clear Erl.
  unfold remove_leaf_names, rm_post. unfold keys. cbn [entries].
  destruct (kltb k a || kltb b k) eqn:Hout.
  { exists (Leaf ns a b), false, false.
    assert (Hnin : ~ In k (ekeys ns)).
    { intros Hin. destruct (good_within _ k Hg Hin) as [H1 H2]. cbn in H1, H2.
      apply orb_true_iff in Hout. destruct Hout as [H|H]; change (klt k a) in H || change (klt b k) in H; order. }
    split; [reflexivity|]. split; [split; [discriminate|tauto]|].
    split; [cbn; symmetry; apply m_remove_notin; exact Hnin|]. split; [auto|]. split; [discriminate|auto]. }
  apply orb_false_iff in Hout. destruct Hout as [H1 H2].
  assert (Hak : kle a k) by (destruct (kltb_spec k a); [discriminate|assumption]).
  assert (Hkb : kle k b) by (destruct (kltb_spec b k); [discriminate|assumption]).
  (* facts stated on ns before it is taken apart *)
  pose proof (m_remove_last ns Hs Hne) as Hrl. rewrite <- Hb in Hrl.
  pose proof (rm_names_spec ns k) as Hr.
  pose proof (m_remove_sorted k ns Hs) as Hms.
  pose proof (m_remove_keeps_hd k ns) as Hkh. rewrite <- Ha in Hkh.
  pose proof (m_remove_keeps_last k ns) as Hkl. rewrite <- Hb in Hkl.
  assert (Hbin : In b (ekeys ns)) by (rewrite Hb; apply klast_in; apply map_ne; exact Hne).
  assert (Hlen : forall e, ns = [e] -> a = b) by (intros e ->; rewrite Ha, Hb; reflexivity).
  assert (Hm1 : m_remove k ns = [] -> length ns <= 1).
  { destruct ns as [|[k1 v1] [|e2 r]]; cbn; [lia|lia|]. destruct (keqb k1 k); discriminate. }
  destruct ns as [|[k1 v1] [|[k2 v2] r]]; [congruence| |].
  - (* single entry *)
    cbn in Ha, Hb. subst a b. assert (k = k1) by order. subst k.
    exists (Leaf [] [] []), true, true. split; [reflexivity|]. split; [split; [left; reflexivity|reflexivity]|].
    split; [cbn; destruct (keqb_spec k1 k1); [reflexivity|congruence]|].
    split; [discriminate|]. split; [eauto|discriminate].
  - assert (Ha1 : a = k1) by exact Ha.
    destruct (keqb_spec k a) as [Eka|Nka].
    + (* k == Kmin *)
      exists (Leaf ((k2, v2) :: r) k2 b), false, true. subst k a.
      split; [reflexivity|]. split; [split; [left; reflexivity|reflexivity]|].
      split; [cbn; destruct (keqb_spec k1 k1); [reflexivity|congruence]|].
      split; [discriminate|]. split; [discriminate|]. intros _.
      cbn [wf]. repeat split; [discriminate|exact (lsorted_tail _ _ Hs)|exact Hb].
    + destruct (keqb_spec k b) as [Ekb|Nkb].
      * (* k == Kmax *)
        subst k. rewrite Hrl in Hms. specialize (Hkh Nka). rewrite Hrl in Hkh.
        match type of Hrl with _ = ?X => remember X as rl eqn:Er end.
        assert (Hrne : rl <> []) by (rewrite Er; cbn; discriminate).
        destruct rl as [|e0 r0]; [congruence|].
        repeat match goal with |- context [removelast ?L] => replace (removelast L) with (e0 :: r0) by exact Er end.
        exists (Leaf (e0 :: r0) a (fst (last (e0 :: r0) ([], 0%N)))), false, true.
        split; [reflexivity|]. split; [split; [intros _; exact Hbin|reflexivity]|].
        split; [cbn [entries]; symmetry; exact Hrl|]. split; [discriminate|]. split; [discriminate|]. intros _.
        cbn [wf]. split; [discriminate|]. split; [exact Hms|]. split.
        -- symmetry. exact Hkh.
        -- apply map_fst_last. discriminate.
      * (* removeFromNames *)
        specialize (Hkh Nka). specialize (Hkl Nkb).
        match type of Hr with match ?X with _ => _ end => destruct X as [l|] end.
        -- destruct Hr as [Hin ->].
           eexists (Leaf _ a b), false, true.
           split; [reflexivity|]. split; [tauto|]. split; [reflexivity|]. split; [discriminate|]. split; [discriminate|].
           intros _. cbn [wf]. split.
           { intros E. specialize (Hm1 E). cbn in Hm1. lia. }
           split; [exact Hms|]. split; [symmetry; exact Hkh|symmetry; exact Hkl].
        -- eexists (Leaf _ a b), false, false. split; [reflexivity|]. split; [split; [discriminate|tauto]|].
           split; [cbn [entries]; symmetry; apply m_remove_notin; exact Hr|]. split; [auto|]. split; [discriminate|auto].
Qed.

Lemma good_sub n n' k : good n -> wf n' -> entries n' = m_remove k (entries n) ->
  kle (nmin n) (nmin n') /\ kle (nmax n') (nmax n).
Proof.
  intros Hg Hw' He. pose proof (wf_good n' Hw') as Hg'.
  pose proof (good_min_in n' Hg') as H1. pose proof (good_max_in n' Hg') as H2.
  unfold keys in H1, H2. rewrite He in H1, H2.
  apply m_remove_keys_incl in H1. apply m_remove_keys_incl in H2.
  split; [apply (good_within n _ Hg H1)|apply (good_within n _ Hg H2)].
Qed.

Definition kres_post (k : key) (l : list node) (r : kres) : Prop :=
  match r with
  | KNone => ~ In k (ekeys (entries_kids l))
  | KPanic => False
  | KFail l' => l' = l /\ ~ In k (ekeys (entries_kids l))
  | KKept l' => In k (ekeys (entries_kids l)) /\ l' <> [] /\ wf_kids l' /\ chain l' /\
                entries_kids l' = m_remove k (entries_kids l) /\ (forall lo, lbk lo l -> lbk lo l')
  | KDropped l' => In k (ekeys (entries_kids l)) /\ wf_kids l' /\ chain l' /\
                   entries_kids l' = m_remove k (entries_kids l) /\ (forall lo, lbk lo l -> lbk lo l')
  end.

Lemma remove_kids_ok k l :
  Forall (fun c => forall k, wf c -> rm_post c k (tremove c k)) l -> wf_kids l -> chain l ->
  kres_post k l (remove_kids k l).
Proof.
  induction l as [|c r IH]; intros HF Hk Hch; [cbn; tauto|].
  inversion HF as [|? ? Hc HFr]; subst. destruct Hk as [Hwc Hwr]. apply chain_cons in Hch. destruct Hch as [Hlb Hch].
  pose proof (wf_good c Hwc) as Hgc.
  change (remove_kids k (c :: r)) with
    (if within c k then
        match tremove c k with
        | RPanic => KPanic
        | R c' e ok => if ok then (if e then KDropped r else KKept (c' :: r)) else KFail (c' :: r)
        end
      else match remove_kids k r with
           | KNone => KNone
           | KPanic => KPanic
           | KFail l' => KFail (c :: l')
           | KKept l' => KKept (c :: l')
           | KDropped l' => KDropped (c :: l')
           end).
  unfold kres_post. rewrite (entries_kids_cons c r). fold (kres_post k r (remove_kids k r)) in IH.
  destruct (within c k) eqn:Hw.
  - assert (Hkc : kle k (nmax c)).
    { unfold within in Hw. destruct (within_lim_spec (nmin c) (nmax c) k) as [[_ H2]|]; [exact H2|discriminate]. }
    assert (Hnr : ~ In k (ekeys (entries_kids r))).
    { intros Hin. pose proof (kids_above _ r Hwr Hch Hlb k Hin). order. }
    destruct (Hc k Hwc) as (c' & e & ok & -> & Hok & He & Hno & Hemp & Hwf').
    unfold keys in Hok.
    destruct ok.
    + assert (Hin : In k (ekeys (entries c))) by (apply Hok; reflexivity).
      destruct e.
      * destruct (Hemp eq_refl) as (a0 & b0 & ->). cbn [entries] in He.
        cbn [kres_post]. split; [rewrite map_app; apply in_or_app; left; exact Hin|].
        split; [exact Hwr|]. split; [exact Hch|]. split.
        -- rewrite m_remove_app_left by exact Hin. rewrite <- He. reflexivity.
        -- intros lo Hlo. cbn [lbk] in Hlo. destruct r as [|c2 r']; [exact I|]. cbn [lbk] in *.
           pose proof (good_min_le_max c Hgc). order.
      * specialize (Hwf' eq_refl). destruct (good_sub c c' k Hgc Hwf' He) as [Hs1 Hs2].
        cbn [kres_post]. split; [rewrite map_app; apply in_or_app; left; exact Hin|].
        split; [discriminate|]. split; [split; assumption|]. split; [|split].
        -- apply chain_cons. split; [|exact Hch]. destruct r as [|c2 r']; [exact I|]. cbn [lbk] in *. order.
        -- rewrite entries_kids_cons. rewrite m_remove_app_left by exact Hin. rewrite He. reflexivity.
        -- intros lo Hlo. cbn [lbk] in *. order.
    + destruct (Hno eq_refl) as [-> _]. cbn [kres_post]. split; [reflexivity|].
      rewrite map_app. intros Hin. apply in_app_or in Hin. destruct Hin as [Hin|Hin]; [|tauto].
      apply Hok in Hin. discriminate.
  - pose proof (not_within_notin c k Hgc Hw) as Hnc. unfold keys in Hnc.
    specialize (IH HFr Hwr Hch).
    assert (Hnapp : ~ In k (ekeys (entries_kids r)) -> ~ In k (ekeys (entries c ++ entries_kids r))).
    { intros H Hin. rewrite map_app in Hin. apply in_app_or in Hin. tauto. }
    assert (Happ : In k (ekeys (entries_kids r)) -> In k (ekeys (entries c ++ entries_kids r))).
    { intros H. rewrite map_app. apply in_or_app. right; exact H. }
    destruct (remove_kids k r) as [| |l'|l'|l']; cbn [kres_post] in *.
    + auto.
    + exact IH.
    + destruct IH as [-> Hn]. auto.
    + destruct IH as (Hin & Hne' & Hw' & Hch' & He' & Hlb').
      split; [auto|]. split; [discriminate|]. split; [split; assumption|]. split; [|split].
      * apply chain_cons. split; [apply Hlb'; exact Hlb|exact Hch'].
      * rewrite entries_kids_cons. rewrite m_remove_app_right by exact Hnc. rewrite He'. reflexivity.
      * intros lo Hlo. exact Hlo.
    + destruct IH as (Hin & Hw' & Hch' & He' & Hlb').
      split; [auto|]. split; [split; assumption|]. split; [|split].
      * apply chain_cons. split; [apply Hlb'; exact Hlb|exact Hch'].
      * rewrite entries_kids_cons. rewrite m_remove_app_right by exact Hnc. rewrite He'. reflexivity.
      * intros lo Hlo. exact Hlo.
Qed.

Lemma wf_not_empty_leaf n : wf n -> is_empty_leaf n = false.
Proof. destruct n as [[|e ns] a b|kids a b]; cbn; [intros (H & _); congruence|reflexivity|reflexivity]. Qed.

Lemma remove_ok n : forall k, wf n -> rm_post n k (tremove n k).
Proof.
  induction n as [ns a b|kids a b IH] using node_ind'; intros k Hw.
  - apply remove_leaf_ok. exact Hw.
  - pose proof Hw as Hw0. apply wf_inner in Hw. destruct Hw as (Hne & Hk & Hch & Ha & Hb).
    pose proof (remove_kids_ok k kids IH Hk Hch) as Hr.
    rewrite tremove_inner. unfold rm_post, keys. rewrite entries_inner.
    destruct (remove_kids k kids) as [| |l'|l'|l']; cbn [kres_post] in Hr.
    + exists (Inner kids a b), false, false. split; [reflexivity|]. split; [split; [discriminate|tauto]|].
      split; [rewrite entries_inner; symmetry; apply m_remove_notin; exact Hr|]. split; [auto|]. split; [discriminate|auto].
    + destruct Hr.
    + destruct Hr as [-> Hn]. exists (Inner kids a b), false, false. split; [reflexivity|]. split; [split; [discriminate|tauto]|].
      split; [rewrite entries_inner; symmetry; apply m_remove_notin; exact Hn|]. split; [auto|]. split; [discriminate|auto].
    + destruct Hr as (Hin & Hne' & Hw' & Hch' & He' & _).
      eexists _, false, true. split; [reflexivity|]. split; [tauto|]. split; [rewrite entries_inner; exact He'|].
      split; [discriminate|]. split; [discriminate|]. intros _.
      apply wf_inner. rewrite (hd_ne _ empty_tree _ Hne'), (last_ne _ empty_tree _ Hne'). auto.
    + destruct Hr as (Hin & Hw' & Hch' & He' & _).
      destruct l' as [|c1 [|c2 r]].
      * exists (Leaf [] a b), true, true. split; [reflexivity|]. split; [tauto|]. split; [exact He'|].
        split; [discriminate|]. split; [eauto|discriminate].
      * destruct Hw' as [Hw1 _]. exists c1, false, true. rewrite (wf_not_empty_leaf c1 Hw1).
        split; [reflexivity|]. split; [tauto|]. split; [rewrite <- He'; cbn; rewrite app_nil_r; reflexivity|].
        split; [discriminate|]. split; [discriminate|auto].
      * eexists _, false, true. split; [reflexivity|]. split; [tauto|]. split; [rewrite entries_inner; exact He'|].
        split; [discriminate|]. split; [discriminate|]. intros _.
        apply wf_inner. cbn [hd]. rewrite (last_ne _ empty_tree (c1 :: c2 :: r)) by discriminate.
        split; [discriminate|auto].
Qed.
