package main

import (
	"encoding/json"
	"fmt"
	"os"
	"os/exec"
	"path/filepath"
	"strings"

	"github.com/pdfcpu/pdfcpu/pkg/api"
	"github.com/pdfcpu/pdfcpu/pkg/pdfcpu"
	"github.com/pdfcpu/pdfcpu/pkg/pdfcpu/model"
	"verif/vh"
)

// (c) createStagedFile's own syscalls cannot be faulted from Go (it calls os.* directly).  The harness
// re-executes itself under `strace -f -e inject=fchmod:error=EPERM`: every fchmod (= (*os.File).Chmod on the
// staging file; nothing else in these runs calls fchmod, the set-up uses chmod/fchmodat) fails with EPERM.
// With a pre-existing destination createStagedFile then takes its chmod-failure path.  Oracle: the call
// fails, the destination is byte- and mode-identical, no staging file is left.

type childResult struct {
	Ctl, Msg, Before, After string
}

// child: argv = --c01-child <op> <dir> <resultfile>
func childMain(args []string) {
	op, dir, resFile := args[0], args[1], args[2]
	api.DisableConfigDir()
	in := filepath.Join(dir, "in.pdf")
	out := filepath.Join(dir, "out.pdf")
	res := childResult{Ctl: "ok", Before: rawSnapshot(dir)}
	func() {
		defer func() {
			if p := recover(); p != nil {
				res.Ctl, res.Msg = "panic", fmt.Sprint(p)
			}
		}()
		var err error
		switch op {
		case "WriteReader":
			err = pdfcpu.WriteReader(out, strings.NewReader("new contents"))
		case "CopyFile":
			_, err = pdfcpu.CopyFile(in, out, true)
		case "WriteContext":
			var ctx *model.Context
			ctx, err = api.ReadValidateAndOptimize(mustOpen(in), model.NewDefaultConfiguration())
			if err == nil {
				ctx.Write.DirName, ctx.Write.FileName = dir, "out.pdf"
				err = pdfcpu.WriteContext(ctx)
			}
		case "SplitFile":
			err = api.SplitFile(in, dir, 1, nil)
		case "ExtractPagesFile":
			err = api.ExtractPagesFile(in, dir, []string{"1"}, nil)
		default:
			err = fmt.Errorf("unknown op %s", op)
		}
		if err != nil {
			res.Ctl, res.Msg = "err", err.Error()
		}
	}()
	res.After = rawSnapshot(dir)
	b, _ := json.Marshal(res)
	os.WriteFile(resFile, b, 0o644)
}

func partStraceFchmod(r *vh.Run) {
	strace, err := exec.LookPath("strace")
	if err != nil {
		r.Count("strace:unavailable")
		return
	}
	self, err := os.Executable()
	if err != nil {
		r.Count("strace:no-executable")
		return
	}
	repo := os.Getenv("VERIF_REPO")
	if repo == "" {
		repo = "/repo"
	}
	small := filepath.Join(repo, "pkg/testdata/test.pdf")
	n := 0
	for _, op := range []string{"WriteReader", "CopyFile", "WriteContext", "SplitFile", "ExtractPagesFile"} {
		for _, inject := range []bool{false, true} {
			n++
			dir := mkdir(r, "s", n)
			copyFile(small, filepath.Join(dir, "in.pdf"), 0o644)
			// the pre-existing destinations (mode differs from the default so that chmod is needed)
			for _, name := range []string{"out.pdf", "in_1.pdf", "in_page_1.pdf"} {
				p := filepath.Join(dir, name)
				os.WriteFile(p, []byte("PRE-EXISTING "+name), 0o600)
				os.Chmod(p, 0o600)
			}
			resFile := filepath.Join(scratch, fmt.Sprintf("sres-%d-%d.json", os.Getpid(), n))
			var cmd *exec.Cmd
			if inject {
				straceLog := resFile + ".strace"
				cmd = exec.Command(strace, "-f", "-qq", "-e", "trace=fchmod", "-e", "inject=fchmod:error=EPERM", "-o", straceLog,
					self, "--c01-child", op, dir, resFile)
				defer os.Remove(straceLog)
			} else {
				cmd = exec.Command(self, "--c01-child", op, dir, resFile)
			}
			cmd.Env = os.Environ()
			outb, runErr := cmd.CombinedOutput()
			b, rerr := os.ReadFile(resFile)
			os.Remove(resFile)
			var res childResult
			if runErr != nil || rerr != nil || json.Unmarshal(b, &res) != nil {
				r.Count("strace:child-failed:" + op)
				r.Sample(map[string]any{"strace_child_failed": op, "inject": inject, "err": fmt.Sprint(runErr), "out": truncs(string(outb))})
				os.RemoveAll(dir)
				continue
			}
			injected := false
			if inject {
				lb, _ := os.ReadFile(resFile + ".strace")
				injected = strings.Contains(string(lb), "(INJECTED)")
				os.Remove(resFile + ".strace")
			}
			os.RemoveAll(dir)
			input := map[string]any{"part": "strace-fchmod", "op": op, "inject_fchmod_EPERM": inject, "injected": injected}
			r.Count(fmt.Sprintf("strace:%s:inject=%v:%s", op, inject, res.Ctl))
			switch {
			case !inject:
				if res.Ctl != "ok" {
					r.OracleFail("strace-baseline-fails:"+op, input, res.Msg)
				} else {
					r.OracleOK()
				}
			case !injected:
				r.Count("strace:not-injected:" + op)
			case res.Ctl == "ok":
				r.OracleFail("chmod-failure-ignored:"+op, input, "fchmod on the staging file failed with EPERM but the operation reported success")
			case res.After != res.Before:
				r.OracleFail(classifyWhole(wholeOp{name: op, multi: op == "SplitFile" || op == "ExtractPagesFile"}, "existing",
					wholeResult{ctl: res.Ctl, before: res.Before, after: res.After}), input,
					fmt.Sprintf("result=%s (%s) before=%s after=%s", res.Ctl, res.Msg, res.Before, res.After))
			default:
				r.OracleOK()
			}
		}
	}
}

func truncs(s string) string {
	if len(s) > 300 {
		return s[:300]
	}
	return s
}
