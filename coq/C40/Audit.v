(* C40: the AUDITED inventory of package-level state under pkg/ (hand-maintained).
   A new package-level variable of a non-immutable type, or a variable that starts being written /
   having methods called on it outside init(), is not in these lists: C40_shared_state_audited breaks
   until somebody audits it and adds it here WITH its justification. *)
From Coq Require Import NArith List String.
Import ListNotations.
Open Scope string_scope.

(* every variable that is written, has its address taken or has methods called on it, and why that is
   compatible with concurrent operations on independent inputs *)
Definition audited_mutable : list string := [
  "api.mutexDisableConfigDir";   (* a lock *)
  "color.Black";   (* ADDRESS ESCAPES (&color.Black passed as *SimpleColor to draw helpers); pointee only read *)
  "color.Green";   (* ADDRESS ESCAPES; pointee only read *)
  "color.Red";   (* ADDRESS ESCAPES; pointee only read *)
  "font.UserFontDir";   (* SET-UP ONLY: written by EnsureDefaultConfigAt (config-dir mode), constant while the config dir is disabled; part of env in the model *)
  "font.loadUserFontsErr";   (* GUARDED: in the lock-discipline table (loadUserFontsMutex) *)
  "font.loadUserFontsMutex";   (* a lock *)
  "font.loadUserFontsOnce";   (* GUARDED: in the lock-discipline table (loadUserFontsMutex) *)
  "font.userFontMetrics";   (* GUARDED: in the lock-discipline table (userFontMetricsLock) *)
  "font.userFontMetricsLock";   (* a lock *)
  "form.imgParamMap";   (* READ-ONLY: method with value-like map receiver that only looks parameters up *)
  "log.CLI";   (* SET-UP ONLY: logger, set by log.Set*Logger before the concurrent phase; Printf on it only reads the field (documented outside the model) *)
  "log.Debug";   (* SET-UP ONLY: logger, set by log.Set*Logger before the concurrent phase; Printf on it only reads the field (documented outside the model) *)
  "log.Info";   (* SET-UP ONLY: logger, set by log.Set*Logger before the concurrent phase; Printf on it only reads the field (documented outside the model) *)
  "log.Optimize";   (* SET-UP ONLY: logger, set by log.Set*Logger before the concurrent phase; Printf on it only reads the field (documented outside the model) *)
  "log.Parse";   (* SET-UP ONLY: logger, set by log.Set*Logger before the concurrent phase; Printf on it only reads the field (documented outside the model) *)
  "log.Read";   (* SET-UP ONLY: logger, set by log.Set*Logger before the concurrent phase; Printf on it only reads the field (documented outside the model) *)
  "log.Stats";   (* SET-UP ONLY: logger, set by log.Set*Logger before the concurrent phase; Printf on it only reads the field (documented outside the model) *)
  "log.Trace";   (* SET-UP ONLY: logger, set by log.Set*Logger before the concurrent phase; Printf on it only reads the field (documented outside the model) *)
  "log.Validate";   (* SET-UP ONLY: logger, set by log.Set*Logger before the concurrent phase; Printf on it only reads the field (documented outside the model) *)
  "log.Write";   (* SET-UP ONLY: logger, set by log.Set*Logger before the concurrent phase; Printf on it only reads the field (documented outside the model) *)
  "model.ConfigPath";   (* in the lock-discipline table; discipline REFUTED (C40_configpath_discipline_refuted), reported finding *)
  "model.TrustedCertDir";   (* SET-UP ONLY: as UserFontDir *)
  "model.UserCertPool";   (* GUARDED: in the lock-discipline table (written under trustedCertificatePool, never read) *)
  "model.certFilesEU";   (* READ-ONLY: embed.FS, only read methods *)
  "model.certificateStoreRevision";   (* ATOMIC: atomic.Uint64, only Load/Add *)
  "model.loadedDefaultConfig";   (* SET-UP ONLY: written only when a config dir is parsed (parseConfig*.go); never with ConfigPath == "disable" *)
  "model.zero";   (* ADDRESS ESCAPES: &zero is stored as Offset/Generation of xref entries of every document; pointee must never be written through an entry (race detector watches) *)
  "pdfcpu.trustedCertificatePool";   (* GUARDED: its fields are in the lock-discipline table (embedded RWMutex) *)
  "pdfcpu.zero";   (* ADDRESS ESCAPES: as model.zero *)
  "types.PaperSize"   (* READ-ONLY: lookup table *)
].

(* every package-level variable whose declared type is not immutable (maps, slices, structs, pointers,
   interfaces, funcs, sync primitives ...); those not in audited_mutable are never written outside their
   initialiser: read-only tables *)
Definition audited_all : list string := [
  "api.mutexDisableConfigDir";
  "cli.closeListAttachmentsInput";
  "cli.closeListImagesInput";
  "cli.closeListKeywordsInput";
  "cli.closeListPermissionsInput";
  "cli.closeListPropertiesInput";
  "cli.createTemporaryInputFile";
  "cli.dispatchTable";
  "cli.openListImagesInput";
  "cli.rewindTemporaryInputFile";
  "color.Black";
  "color.Blue";
  "color.DarkGray";
  "color.Gray";
  "color.Green";
  "color.LightGray";
  "color.Red";
  "color.White";
  "color.Yellow";
  "font.cjkParms";
  "font.loadUserFontsErr";
  "font.loadUserFontsMutex";
  "font.loadUserFontsOnce";
  "font.userFontMetrics";
  "font.userFontMetricsLock";
  "form.imgParamMap";
  "log.CLI";
  "log.Debug";
  "log.Info";
  "log.Optimize";
  "log.Parse";
  "log.Read";
  "log.Stats";
  "log.Trace";
  "log.Validate";
  "log.Write";
  "matrix.IdentMatrix";
  "model.AnnotTypeStrings";
  "model.AnnotTypes";
  "model.CutParamMap";
  "model.DestinationTypeStrings";
  "model.ResizeParamMap";
  "model.SignatureReasonStrings";
  "model.SignatureStatusStrings";
  "model.UserCertPool";
  "model.ZoomParamMap";
  "model.certFilesEU";
  "model.certificateStoreRevision";
  "model.configFileBytes";
  "model.loadedDefaultConfig";
  "model.resourceTypes";
  "model.robotoFontFileBytes";
  "model.unicodeToCP1252";
  "pdfcpu.NUpValues";
  "pdfcpu.impParamMap";
  "pdfcpu.inlineImageFilterAliases";
  "pdfcpu.nUpDims";
  "pdfcpu.nUpValuesForBooklets";
  "pdfcpu.nullPad32";
  "pdfcpu.nupParamMap";
  "pdfcpu.pParamMap";
  "pdfcpu.pad";
  "pdfcpu.perm";
  "pdfcpu.testAudioFileWAV";
  "pdfcpu.trustedCertificatePool";
  "pdfcpu.wmParamMap";
  "pkcs7.OIDData";
  "pkcs7.OIDDigestAlgorithmDSA";
  "pkcs7.OIDDigestAlgorithmDSASHA1";
  "pkcs7.OIDDigestAlgorithmECDSASHA1";
  "pkcs7.OIDDigestAlgorithmECDSASHA256";
  "pkcs7.OIDDigestAlgorithmECDSASHA384";
  "pkcs7.OIDDigestAlgorithmECDSASHA512";
  "pkcs7.OIDDigestAlgorithmSHA1";
  "pkcs7.OIDDigestAlgorithmSHA256";
  "pkcs7.OIDDigestAlgorithmSHA384";
  "pkcs7.OIDDigestAlgorithmSHA512";
  "pkcs7.OIDEncryptionAlgorithmECDSAP256";
  "pkcs7.OIDEncryptionAlgorithmECDSAP384";
  "pkcs7.OIDEncryptionAlgorithmECDSAP521";
  "pkcs7.OIDEncryptionAlgorithmECPUBLICKEY";
  "pkcs7.OIDEncryptionAlgorithmEd25519";
  "pkcs7.OIDEncryptionAlgorithmRSA";
  "pkcs7.OIDEncryptionAlgorithmRSAPSS";
  "pkcs7.OIDEncryptionAlgorithmRSASHA1";
  "pkcs7.OIDEncryptionAlgorithmRSASHA256";
  "pkcs7.OIDEncryptionAlgorithmRSASHA384";
  "pkcs7.OIDEncryptionAlgorithmRSASHA512";
  "pkcs7.OIDSignedData";
  "pkcs7.oidAttributeContentType";
  "pkcs7.oidAttributeMessageDigest";
  "pkcs7.oidMaskGenAlgorithmMGF1";
  "primitives.ISO639Codes";
  "primitives.dateFormats";
  "primitives.imageBoxUserAgent";
  "sign.oidAdvSigLTVPolicy";
  "sign.oidAdvSigPolicy";
  "sign.oidArchiveTimestamp";
  "sign.oidCertificateValues";
  "sign.oidCommitmentType";
  "sign.oidCompleteCertificateRefs";
  "sign.oidCompleteRevocationRefs";
  "sign.oidContentTimestamp";
  "sign.oidData";
  "sign.oidDeltaCRLIndicator";
  "sign.oidETSIQCPublicWithSSCD";
  "sign.oidExtensionExtendedKeyUsage";
  "sign.oidExtensionKeyUsage";
  "sign.oidFreshestCRL";
  "sign.oidIssuingDistributionPoint";
  "sign.oidMessageDigest";
  "sign.oidOCSPNoCheck";
  "sign.oidProofOfApproval";
  "sign.oidProofOfCreation";
  "sign.oidProofOfDelivery";
  "sign.oidProofOfOrigin";
  "sign.oidProofOfReceipt";
  "sign.oidProofOfSender";
  "sign.oidQCESeal";
  "sign.oidQCESign";
  "sign.oidQESLTVPolicy";
  "sign.oidQWebAuthCert";
  "sign.oidQualSealPolicy";
  "sign.oidRSAESOAEP";
  "sign.oidRevocationInfoArchival";
  "sign.oidRevocationValues";
  "sign.oidSigPolicy";
  "sign.oidSigPolicyID";
  "sign.oidSigningCertificate";
  "sign.oidSigningCertificateV2";
  "sign.oidSigningTime";
  "sign.oidTSTInfo";
  "sign.oidTimestampToken";
  "types.PaperSize";
  "types.pdfDocEncoding"
].

(* ---- variables whose ADDRESS escapes into per-document structures ("pointee only read") ----
   Their own class: nothing may ever write THROUGH a pointer that can hold one of these addresses.
   model.zero / pdfcpu.zero: &zero becomes the Offset of repaired free-list heads and of free entries
   with generation 65535 in EVERY document, and pdfcpu.tryXRefSection returns &zero as its "this is not
   an xref section" marker.  color.*: passed as *SimpleColor to drawing helpers that only read them. *)
Definition audited_escaping : list string :=
  ["color.Black"; "color.Green"; "color.Red"; "model.zero"; "pdfcpu.zero"].

Definition audited_addr_flows : list (string * string) := [
  ("color.Black", "arg:draw.DrawRect");                   (* read-only parameter *)
  ("color.Black", "field:col");                           (* primitives: border colour, only read when rendering *)
  ("color.Black", "other:primitives.ImageBox.render");    (* local default colour, only read *)
  ("color.Black", "return:primitives.Border.calc");       (* returned as the border colour, only read *)
  ("color.Green", "arg:draw.DrawRect");
  ("color.Red", "arg:draw.DrawCircle");
  ("color.Red", "arg:draw.DrawRect");
  ("color.Red", "arg:model.NewLinkAnnotation");           (* stored as annotation border colour, only rendered *)
  ("model.zero", "field:Offset");                         (* XRefTableEntry.Offset of free heads / forever-free entries *)
  ("pdfcpu.zero", "field:Offset");                        (* read.go: free head created from scratch *)
  ("pdfcpu.zero", "return:pdfcpu.tryXRefSection")         (* marker compared with 0 by buildXRefTableStartingAt *)
].

(* every explicit write through a dereference that could hit such a pointee, and why it cannot:
   (function, (field or *identifier, number of such writes in the function)) *)
Definition audited_deref_writes : list (string * (string * N)) := [
  ("model.XRefTable.EnsureValidFreeList", ("Generation", 1%N));   (* *head.Generation: the head's own cell (file entry or fresh g0), never &zero *)
  ("model.XRefTable.EnsureValidFreeList", ("Offset", 2%N));       (* *head.Offset = 0 only if it is not 0 already (so never while it is &zero);
                                                                     *lastValid.Offset: lastValid had a non-zero Offset, so not &zero *)
  ("model.XRefTable.FreeObject", ("Generation", 1%N));            (* in-use entry: own generation cell *)
  ("model.XRefTable.UndeleteObject", ("Generation", 1%N));        (* own generation cell *)
  ("model.XRefTable.UndeleteObject", ("Offset", 1%N));            (* *f.Offset where int of f.Offset = objNr <> 0 was just followed: not &zero *)
  ("model.XRefTable.validateFreeList", ("Offset", 1%N));          (* *e.Offset = 0 inside `for f != 0` with f = *e.Offset: not &zero *)
  ("model.skipComment", ("*off", 1%N));                           (* local cursor *)
  ("model.skipStringLit", ("*off", 1%N));                         (* local cursor *)
  ("pdfcpu.buildXRefTableStartingAt", ("*offset", 1%N));          (* the caller's startxref value, before any tryXRefSection result is used *)
  ("pdfcpu.createXRefTableEntry", ("Offset", 1%N));               (* entry created a few lines above with its own offset *)
  ("pdfcpu.parseAndLoad", ("*offset", 2%N));                      (* bypassXrefSection's local cursor *)
  ("pdfcpu.processObject", ("*offset", 1%N));                     (* bypassXrefSection's local cursor *)
  ("pdfcpu.processXRefStream", ("*offset", 1%N))                  (* the offset being parsed: non-zero (tryXRefSection's &zero is never passed on: `*off != 0`) *)
].
