From Coq Require Import Extraction ExtrOcamlBasic.
From PV Require Import Lib.ExtBase C37.Model.
Extraction "model.ml" ext_base_z ext_base_n ext_base_nat ext_base_res ext_base_list
  export_form fill_form api_fill trim_space atoi itoa parse_options.
