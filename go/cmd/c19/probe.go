package main

// -probe <file.pdf | gen:<seed>:<count>> [config-name]: developer aid, prints what the harness sees.

import (
	"fmt"
	"math/rand"
	"os"
	"strconv"
	"strings"
)

func probe(args []string) {
	var docs []docCase
	if strings.HasPrefix(args[0], "gen:") {
		p := strings.Split(args[0], ":")
		seed, _ := strconv.Atoi(p[1])
		n, _ := strconv.Atoi(p[2])
		rr := rand.New(rand.NewSource(int64(seed)))
		for i := 0; i < n; i++ {
			opt := genOpts{allowHazards: true}
			if len(p) > 3 {
				if strings.HasPrefix(p[3], "s") {
					k, _ := strconv.Atoi(p[3][1:])
					nr, _ := strconv.Atoi(p[4])
					opt = genOpts{sparse: sparseKinds[(k+i)%len(sparseKinds)], sparseNr: []int{nr}}
				} else {
					d, _ := strconv.Atoi(p[3])
					opt = genOpts{dangling: 1 + (i+d)%6}
				}
			}
			doc, di := genDoc(rr, opt)
			docs = append(docs, docCase{name: fmt.Sprintf("gen-%d", i), doc: doc, hazards: di.hazards, desc: strings.Join(di.desc, ",")})
		}
	} else {
		b, err := os.ReadFile(args[0])
		if err != nil {
			panic(err)
		}
		docs = append(docs, docCase{name: args[0], doc: b})
	}
	configs := allConfigs()
	if len(args) > 1 {
		var cs []wconf
		for _, c := range configs {
			if c.name == args[1] {
				cs = append(cs, c)
			}
		}
		configs = cs
	}
	verbose := os.Getenv("PROBE_VERBOSE") != ""
	for _, dc := range docs {
		fmt.Printf("== %s %s\n", dc.name, dc.desc)
		groups := map[string][]string{}
		for _, c := range configs {
			ctx1, bd, err := readInput(dc.doc, c.conf())
			if bd != "" {
				fmt.Printf("  bind diff: %s\n", bd)
			}
			if err != nil {
				fmt.Printf("  %s: input rejected: %v\n", c.name, err)
				break
			}
			before, err := snap(ctx1, nil)
			if err != nil {
				fmt.Printf("  %s: snap: %v\n", c.name, err)
				break
			}
			out, err := writeOut(ctx1)
			if err != nil {
				fmt.Printf("  %s: write error: %v\n", c.name, err)
				continue
			}
			ctx2, err := readBack(out, c)
			if err != nil {
				fmt.Printf("  %s: reread error: %v\n", c.name, err)
				continue
			}
			after, err := snap(ctx2, nil)
			if err != nil {
				fmt.Printf("  %s: snap2: %v\n", c.name, err)
				continue
			}
			ac := after.canon
			if before.info < 0 {
				ac = stripFreshInfo(ac)
			}
			same := strings.Join(before.canon, "\n") == strings.Join(ac, "\n")
			msg := fmt.Sprintf("objs %d -> %d, canon same=%v pages %d->%d dangling=%v", len(before.tv.nrs), len(after.tv.nrs), same, len(before.pages), len(after.pages), danglingRefs(after.tv, ctx2))
			if !same {
				d := firstDiff(before.canon, ac)
				if len(d) > 700 && !verbose {
					d = d[:700]
				}
				msg += "\n    " + d
			}
			groups[msg] = append(groups[msg], c.name)
			if verbose {
				fmt.Printf("    before: %s\n    after:  %s\n", before.tv.text(nil), after.tv.text(nil))
				os.WriteFile("/tmp/c19-scratch/probe-out.pdf", out, 0o644)
				os.WriteFile("/tmp/c19-scratch/probe-in.pdf", dc.doc, 0o644)
			}
		}
		for m, cs := range groups {
			if strings.Contains(m, "same=true") && !verbose {
				continue
			}
			fmt.Printf("  %v: %s\n", cs, m)
		}
	}
}
