(* C06 — Batch installs of fonts and certificates are all-or-nothing.
   Property theorems only; each is closed by an exact lemma and followed by Print Assumptions.

   commit_batch is the Gallina transcription of the commit protocol that pdfcpu repeats in
   font.commitCollectionFonts (variant VColl), api.commitStagedFontsWithOperations and
   api.publishCheatSheets (variant VCheat): make a backup directory, for every name move an existing
   target into the backup, move the staged file in, sync; on failure rollbackCollectionFonts /
   rollbackCommittedFonts / rollbackCheatSheets.  Every filesystem call consults the fault plan `pl`.
   The statements hold for EVERY batch (any length, any subset of names pre-existing), every tree,
   every directory-name supply that returns unused names, and every fault plan / every single fault. *)
From stdpp Require Import gmap.
From PV Require Import C01.FS C01.FSFacts C06.Model C06.Proofs.

(* The operation says "published" (Go: commit loop ran to its end) => every target holds the staged
   file and no other file of the target directory changed; a nil error means published; with no error
   and no warning no backup directory (nor anything else) is left. *)
Theorem commit_ok_publishes_all :
  forall pl freshd, fresh_ok freshd ->
  forall (F G : list positive) names w cF0 cS0 v r w',
  wt w !! F = Some cF0 -> wt w !! G = Some cS0 -> F <> G -> NoDup names ->
  (forall n, In n names -> is_Some (cS0 !! n)) ->
  commit_batch pl freshd v F G names w = (r, w') ->
  (r_err r = None -> r_pub r = true) /\
  (r_pub r = true ->
     exists cF', wt w' !! F = Some cF' /\
       (forall n, In n names -> cF' !! n = cS0 !! n) /\ (forall n, ~ In n names -> cF' !! n = cF0 !! n)) /\
  (r_pub r = true -> r_err r = None -> r_warn r = [] ->
     forall x, x <> F -> x <> G -> wt w' !! x = wt w !! x).
Proof. intros pl freshd Hf F G names w cF0 cS0 v r w' HF HG HFG Hnd Hst. exact (commit_batch_publishes pl freshd Hf F G names w cF0 cS0 HF HG HFG Hnd Hst v r w'). Qed.
Print Assumptions commit_ok_publishes_all.

(* One injected failure at ANY operation index (amo: at most one call of the whole run fails; every
   rollback operation after it succeeds): if the batch was not published, an error is returned and the
   whole tree is exactly as before - the target directory has its previous names and bytes, the backup
   directory is gone - except that staged files may have left the staging directory G (which the callers
   remove as a whole). *)
Theorem single_fault_restores :
  forall pl freshd, fresh_ok freshd -> amo pl ->
  forall (F G : list positive) names w cF0 cS0 v r w',
  wt w !! F = Some cF0 -> wt w !! G = Some cS0 -> F <> G -> NoDup names ->
  (forall n, In n names -> is_Some (cS0 !! n)) ->
  commit_batch pl freshd v F G names w = (r, w') -> r_pub r = false ->
  r_err r <> None /\ forall x, x <> G -> wt w' !! x = wt w !! x.
Proof. intros pl freshd Hf Ha F G names w cF0 cS0 v r w' HF HG HFG Hnd Hst. exact (commit_batch_restores pl freshd Hf F G names w cF0 cS0 HF HG HFG Hnd Hst v r w' Ha). Qed.
Print Assumptions single_fault_restores.

(* ANY number of failures (so also failing rollback steps): if the backup directory still exists when
   the operation returns, the returned error (or, after a successful publication, a warning) names it. *)
Theorem rollback_failure_names_backup :
  forall pl freshd, fresh_ok freshd ->
  forall (F G : list positive) names w cF0 cS0 v r w',
  wt w !! F = Some cF0 -> wt w !! G = Some cS0 -> F <> G -> NoDup names ->
  (forall n, In n names -> is_Some (cS0 !! n)) ->
  commit_batch pl freshd v F G names w = (r, w') ->
  wt w' !! (F ++ [freshd (wt w) F]) <> None ->
  (exists m, r_err r = Some m /\ In (PDir (F ++ [freshd (wt w) F])) m) \/
  (exists m, In m (r_warn r) /\ In (PDir (F ++ [freshd (wt w) F])) m).
Proof. intros pl freshd Hf F G names w cF0 cS0 v r w' HF HG HFG Hnd Hst. exact (commit_batch_names_backup pl freshd Hf F G names w cF0 cS0 HF HG HFG Hnd Hst v r w'). Qed.
Print Assumptions rollback_failure_names_backup.

(* The precondition "targets pairwise distinct" (NoDup names above; staged name = target name = <sanitised
   PostScript name>.gob, so the list of names IS the list of (staged, target) pairs) is established by the staging
   phase: installTrueTypeCollectionMembers reserves every member's SANITISED name before staging it.  Whatever
   fails, a staging phase that returns nil yields pairwise distinct names, exactly the members' sanitised names in
   order, and this happens only if the pure staging decision accepts (no member unparsable, no sanitised name twice). *)
Theorem staging_establishes_distinct_targets :
  forall pl freshn kp (G : list positive) ms w names w',
  stage_members pl freshn kp G ms [] w = (None, names, w') ->
  NoDup names /\ names = flat_map member_target ms /\ stage_decide ms [] 0 = Accept.
Proof.
  intros pl freshn kp G ms w names w' H.
  destruct (stage_members_distinct pl freshn kp G ms [] w names w' (NoDup_nil_2) H) as (H1 & H2 & H3).
  split; [exact H1|]. split; [exact H2|exact (H3 0)].
Qed.
Print Assumptions staging_establishes_distinct_targets.

(* ... and a collection the decision rejects never reaches the commit. *)
Theorem rejected_collection_is_not_committed :
  forall pl freshn kp (G : list positive) ms w,
  stage_decide ms [] 0 <> Accept -> fst (fst (stage_members pl freshn kp G ms [] w)) <> None.
Proof. exact stage_reject_is_error. Qed.
Print Assumptions rejected_collection_is_not_committed.

(* The precondition is necessary: WITHOUT any injected failure, committing the same target twice over a
   pre-existing file destroys it - the second round moves the freshly committed file over the original in the
   backup directory, its commit rename finds nothing to move, and the rollback deletes the target and cannot
   restore the original; the emptied backup directory is left behind (named by the error). *)
Theorem duplicate_targets_destroy_original_refuted :
  exists names t, ~ NoDup names /\
    let r := commit_batch nofault fresh_child VColl [1%positive] [1%positive; 2%positive] names (w_init t) in
    lookup_file t [1%positive] 16%positive = Some (File [160%N] 420%N) /\
    r_pub (fst r) = false /\ r_err (fst r) <> None /\
    lookup_file (wt (snd r)) [1%positive] 16%positive = None /\
    wt (snd r) !! ([1%positive] ++ [fresh_child t [1%positive]]) <> None.
Proof.
  exists [16%positive; 16%positive],
         (tree_of_list [([1%positive], [(16%positive, File [160%N] 420%N)]);
                        ([1%positive; 2%positive], [(16%positive, File [192%N] 420%N)])]).
  split.
  - intros H. apply NoDup_cons in H. destruct H as (H & _). apply H. left.
  - vm_compute. repeat split; congruence.
Qed.
Print Assumptions duplicate_targets_destroy_original_refuted.

(* non-vacuity: the hypotheses are satisfiable (the extracted name supply is fresh, single-fault plans are
   amo) and both outcomes occur on a two-name batch whose first name pre-exists *)
Example C06_nonvacuous :
  fresh_ok fresh_child /\ amo (single 6) /\
  let t := tree_of_list [([1%positive], [(16%positive, File [160%N] 420%N); (63%positive, File [238%N] 420%N)]);
                         ([1%positive; 2%positive], [(16%positive, File [192%N] 420%N); (17%positive, File [193%N] 420%N)])] in
  let run f := commit_batch (plan_of f) fresh_child VColl [1]%positive [1; 2]%positive [16; 17]%positive (w_init t) in
  r_pub (fst (run None)) = true /\ r_err (fst (run None)) = None /\
  lookup_file (wt (snd (run None))) [1%positive] 16%positive = Some (File [192%N] 420%N) /\
  r_pub (fst (run (Some 6))) = false /\
  lookup_file (wt (snd (run (Some 6)))) [1%positive] 16%positive = Some (File [160%N] 420%N) /\
  lookup_file (wt (snd (run (Some 6)))) [1%positive] 17%positive = None.
Proof. split; [exact fresh_child_ok|]. split; [apply amo_single|]. vm_compute. repeat split; reflexivity. Qed.
