package main

import (
	"encoding/json"
	"fmt"
	"os"
	"path/filepath"
	"strings"

	"github.com/pdfcpu/pdfcpu/pkg/api"
	"github.com/pdfcpu/pdfcpu/pkg/log"
	"github.com/pdfcpu/pdfcpu/pkg/pdfcpu/form"
	"verif/vh"
)

// (b') form multi-fill: api.MultiFillFormFile / api.MultiFillForm, JSON and CSV, merge and non-merge
// mode, data files of 1..4 records with the failing record at every position (an option value that
// is not among the combo box's options / a CSV row that affects no field), plus a panicking logger
// at log-call indices.  Oracle: the output directory (which also holds the form, the data file and a
// bystander) is snapshotted before and after; when the call does not return nil nothing may be new.

type mfCase struct {
	entry  string // MultiFillFormFile | MultiFillForm
	format string // json | csv
	merge  bool
	n      int  // records
	bad    int  // 1-based position of the failing record, 0 = none
	preex  bool // a file with the name of the first intermediate/part exists beforehand
	at     int  // panic at this log call (-1: none)
}

func (c mfCase) input() map[string]any {
	return map[string]any{"part": "multifill", "entry": c.entry, "format": c.format, "merge": c.merge,
		"records": c.n, "failing_record": c.bad, "preexisting_part": c.preex, "panic_at_log_call": c.at}
}

type mfSetup struct {
	formPDF string
	form0   []byte         // one exported form instance (JSON)
	doc     map[string]any // the exported document
}

func newMFSetup(r *vh.Run, repo string) *mfSetup {
	s := &mfSetup{formPDF: filepath.Join(repo, "pkg/samples/form/primitives/combobox.pdf")}
	if _, err := os.Stat(s.formPDF); err != nil {
		panic("missing sample " + s.formPDF)
	}
	d := mkdir(r, "mfsetup", 0)
	defer os.RemoveAll(d)
	exp := filepath.Join(d, "export.json")
	if err := api.ExportFormFile(s.formPDF, exp, nil); err != nil {
		panic("cannot export the sample form: " + err.Error())
	}
	b, _ := os.ReadFile(exp)
	if err := json.Unmarshal(b, &s.doc); err != nil {
		panic(err)
	}
	s.form0, _ = json.Marshal(s.doc["forms"].([]any)[0])
	return s
}

func (s *mfSetup) data(c mfCase) []byte {
	if c.format == "csv" {
		var sb strings.Builder
		sb.WriteString("rresex,tcegender\n")
		for i := 1; i <= c.n; i++ {
			if i == c.bad {
				sb.WriteString(",\n") // affects no field: "no form fields affected"
			} else {
				sb.WriteString("female,male\n")
			}
		}
		return []byte(sb.String())
	}
	var forms []any
	for i := 1; i <= c.n; i++ {
		var f map[string]any
		json.Unmarshal(s.form0, &f)
		cb := f["combobox"].([]any)[0].(map[string]any)
		cb["value"] = "female"
		if i == c.bad {
			cb["value"] = "NOT-AN-OPTION"
		}
		forms = append(forms, f)
	}
	doc := map[string]any{}
	for k, v := range s.doc {
		doc[k] = v
	}
	doc["forms"] = forms
	o, _ := json.Marshal(doc)
	return o
}

func runMF(r *vh.Run, n int, s *mfSetup, c mfCase) wholeResult {
	dir := mkdir(r, "m", n)
	defer os.RemoveAll(dir)
	formPDF := filepath.Join(dir, "form.pdf")
	copyFile(s.formPDF, formPDF, 0o644)
	dataFile := filepath.Join(dir, "data."+c.format)
	os.WriteFile(dataFile, s.data(c), 0o640)
	os.WriteFile(filepath.Join(dir, "other.dat"), []byte("other"), 0o600)
	if c.preex {
		os.WriteFile(filepath.Join(dir, "batch_01.pdf"), []byte("PRE-EXISTING batch_01"), 0o600)
		os.Chmod(filepath.Join(dir, "batch_01.pdf"), 0o600)
	}
	res := wholeResult{ctl: "ok", before: rawSnapshot(dir)}
	l := &panicLogger{at: c.at}
	install(l)
	func() {
		defer func() {
			if p := recover(); p != nil {
				res.ctl = "panic"
				res.msg = fmt.Sprint(p)
			}
		}()
		var err error
		if c.entry == "MultiFillFormFile" {
			err = api.MultiFillFormFile(formPDF, dataFile, dir, "batch.pdf", c.merge, nil)
		} else {
			f, oerr := os.Open(dataFile)
			if oerr != nil {
				panic(oerr)
			}
			defer f.Close()
			format := form.JSON
			if c.format == "csv" {
				format = form.CSV
			}
			err = api.MultiFillForm(formPDF, f, dir, "batch.pdf", format, c.merge, nil)
		}
		if err != nil {
			res.ctl = "err"
			res.msg = err.Error()
		}
	}()
	log.DisableLoggers()
	res.calls = l.n
	res.after = rawSnapshot(dir)
	return res
}

// what a failed multi-fill left behind
func classifyMF(c mfCase, res wholeResult) string {
	b := map[string]string{}
	for _, e := range strings.Split(res.before, ";") {
		b[strings.SplitN(e, ":", 2)[0]] = e
	}
	staging, damaged, parts, merged := false, false, 0, false
	for _, e := range strings.Split(res.after, ";") {
		name := strings.SplitN(e, ":", 2)[0]
		old, existed := b[name]
		delete(b, name)
		switch {
		case strings.Contains(name, ".tmp-"):
			staging = true
		case existed && old != e:
			damaged = true
		case !existed && name == "batch.pdf":
			merged = true
		case !existed:
			parts++
		}
	}
	if len(b) > 0 {
		damaged = true
	}
	cause := "failure"
	if res.ctl == "panic" {
		cause = "panic"
	}
	mode := ""
	if c.merge {
		mode = "-merge"
	}
	switch {
	case damaged:
		return cause + "-damages-existing-file:" + c.entry + mode
	case staging:
		return cause + "-leaks-staging:" + c.entry + mode
	case merged:
		// the merged output (and possibly intermediates) stayed although the call did not return nil
		return cause + "-leaves-merged-output:" + c.entry + mode
	case c.merge && parts > 0:
		return cause + "-leaves-intermediates:" + c.entry + mode
	case parts > 0 && cause == "panic":
		// a panic while a part is being written can also leave that (partial) part behind
		return "panic-multi-output-leaves-parts:" + c.entry
	case parts > 0:
		return "multi-output-keeps-earlier-parts:" + c.entry
	}
	return cause + "-leaves-files:" + c.entry + mode
}

func partMultiFill(r *vh.Run) {
	repo := os.Getenv("VERIF_REPO")
	if repo == "" {
		repo = "/repo"
	}
	s := newMFSetup(r, repo)
	n := 0
	check := func(c mfCase, res wholeResult) {
		key := fmt.Sprintf("mf:%s:%s:merge=%v:%s", c.entry, c.format, c.merge, res.ctl)
		r.Count(key)
		if res.ctl == "ok" {
			if c.bad != 0 {
				r.OracleFail("multifill-bad-record-accepted:"+c.entry, c.input(), "a data file with a failing record was processed without error")
			} else {
				r.OracleOK()
			}
			return
		}
		if c.bad == 0 && c.at < 0 {
			r.OracleFail("multifill-good-data-fails:"+c.entry, c.input(), res.msg)
			return
		}
		if res.after != res.before {
			r.OracleFail(classifyMF(c, res), c.input(), fmt.Sprintf("result=%s (%s) before=%s after=%s", res.ctl, res.msg, res.before, res.after))
		} else {
			r.OracleOK()
		}
	}
	for _, entry := range []string{"MultiFillFormFile", "MultiFillForm"} {
		for _, format := range []string{"json", "csv"} {
			for _, merge := range []bool{false, true} {
				// the failing record at every position of 1..4 records
				for recs := 1; recs <= 4; recs++ {
					if entry == "MultiFillForm" && !r.Thorough() && recs != 3 {
						continue
					}
					for bad := 0; bad <= recs; bad++ {
						c := mfCase{entry, format, merge, recs, bad, false, -1}
						n++
						check(c, runMF(r, n, s, c))
					}
				}
				// a file named like the first part already exists
				c := mfCase{entry, format, merge, 3, 2, true, -1}
				n++
				check(c, runMF(r, n, s, c))
				// panic at log-call indices of a 3-record run with good data
				if entry == "MultiFillForm" && !r.Thorough() {
					continue
				}
				base := mfCase{entry, format, merge, 3, 0, false, -1}
				n++
				rec := runMF(r, n, s, base)
				if rec.ctl != "ok" {
					continue // reported above by the bad == 0 case
				}
				var idx []int
				seen := map[int]bool{}
				add := func(i int) {
					if i >= 0 && i < rec.calls && !seen[i] {
						seen[i] = true
						idx = append(idx, i)
					}
				}
				steps := r.Pick(10, 60)
				for j := 0; j < steps; j++ {
					add(j * rec.calls / steps)
				}
				add(rec.calls - 1)
				add(rec.calls - 2)
				for _, i := range idx {
					c := base
					c.at = i
					n++
					check(c, runMF(r, n, s, c))
				}
			}
		}
	}
}
