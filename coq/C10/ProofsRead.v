(* C10 — structural facts about read_prog, for every shape. *)
From Coq Require Import NArith List Bool Lia ZifyBool ZifyNat ZifyN.
From PV Require Import Lib.GoInt C10.Model C10.Proofs.
Import ListNotations.
Open Scope N_scope.

(* "exit-like" programs: tight, late polls bounded by a (started cancelled) / b *)
Record ex (a b : N) (p : prog) : Prop := mkex {
  ex_t : tight p = true;
  ex_c : lc p <= a;
  ex_b : lb p <= b;
  ex_g : guard p = true \/ lc p = 0 }.

Lemma ex_weaken : forall a b a' b' p, ex a b p -> a <= a' -> b <= b' -> ex a' b' p.
Proof. intros a b a' b' p [Ht Hc Hb Hg] Ha Hbb. constructor; [assumption|lia|lia|assumption]. Qed.

Lemma ex_skip : ex 0 0 Skip.
Proof. constructor; simpl; [reflexivity|lia|lia|right; reflexivity]. Qed.
Lemma ex_poll : ex 1 1 Poll.
Proof. constructor; simpl; [reflexivity|lia|lia|left; reflexivity]. Qed.

Lemma ex_seq : forall a b a' b' p q, ex a b p -> ex a' b' q ->
  ex (N.max a a') (N.max b (N.max b' a')) (Seq p q).
Proof.
  intros a b a' b' p q [Ht Hc Hb Hg] [Ht' Hc' Hb' Hg'].
  constructor; simpl.
  - rewrite Ht, Ht'. reflexivity.
  - destruct (guard p) eqn:Eg.
    + lia.
    + destruct Hg as [Hg|Hg]; [discriminate|]. lia.
  - rewrite Ht. lia.
  - destruct (guard p) eqn:Eg.
    + left. reflexivity.
    + destruct Hg as [Hg|Hg]; [discriminate|].
      destruct Hg' as [Hg'|Hg'].
      * left. exact Hg'.
      * right. lia.
Qed.

Lemma ex_seqs : forall a b l, a <= b -> (forall p, In p l -> ex a b p) -> ex a b (seqs l).
Proof.
  intros a b l Hab. induction l as [|p l IH]; intros Hall.
  - simpl. apply (ex_weaken 0 0); [exact ex_skip|lia|lia].
  - simpl. apply (ex_weaken (N.max a a) (N.max b (N.max b a))); [|lia|lia].
    apply ex_seq.
    + apply Hall. left. reflexivity.
    + apply IH. intros q Hq. apply Hall. right. exact Hq.
Qed.

Lemma guard_seqs_cons : forall p l, guard p = true -> guard (seqs (p :: l)) = true.
Proof. intros p l H. simpl. rewrite H. reflexivity. Qed.

Lemma ex_pollsN : forall n, ex 1 1 (pollsN n).
Proof.
  intro n. unfold pollsN. apply ex_seqs; [lia|].
  intros p Hp. apply repeat_spec in Hp. subst p. exact ex_poll.
Qed.

Lemma pollsN_guard_or_nofail : forall n, guard (pollsN n) = true \/ nofail (pollsN n) = true.
Proof. intro n. destruct n as [|n]; [right|left]; reflexivity. Qed.

Lemma ex_retry : forall a b a' b' p q, ex a b p -> ex a' b' q ->
  (guard p = true \/ nofail p = true) ->
  ex (a + 1) (N.max (b + 1) (N.max b' a')) (Retry p q Skip).
Proof.
  intros a b a' b' p q [Ht Hc Hb Hg] [Ht' Hc' Hb' Hg'] Hgn.
  constructor; simpl.
  - rewrite Ht, Ht'. reflexivity.
  - destruct (guard p); destruct (nofail p); lia.
  - rewrite Ht. destruct (nofail p); lia.
  - destruct (guard p) eqn:Eg.
    + left. reflexivity.
    + destruct Hgn as [Hgn|Hgn]; [discriminate|]. rewrite Hgn.
      destruct Hg as [Hg|Hg]; [discriminate|]. right. lia.
Qed.

Lemma ex_retry_polls : forall k, ex 2 2 (Retry (pollsN k) (pollsN k) Skip).
Proof.
  intro k. apply (ex_weaken (1 + 1) (N.max (1 + 1) (N.max 1 1))); [|lia|lia].
  apply ex_retry; [apply ex_pollsN|apply ex_pollsN|apply pollsN_guard_or_nofail].
Qed.

Lemma ex_pass : forall d, ex 1 1 (pass d).
Proof.
  intro d. unfold pass, scan.
  apply (ex_weaken (N.max 1 1) (N.max 1 (N.max 1 1))); [|lia|lia].
  apply ex_seq; [exact ex_poll|apply ex_pollsN].
Qed.

Lemma ex_buffer : forall o, ex 1 1 (buffer_polls o).
Proof.
  intro o. unfold buffer_polls.
  apply (ex_weaken (N.max 1 1) (N.max 1 (N.max 1 1))); [|lia|lia].
  apply ex_seq; [apply ex_pass|].
  apply ex_seqs; [lia|]. intros p Hp. apply in_map_iff in Hp.
  destruct Hp as [d [Hd _]]. subst p. apply ex_pass.
Qed.

(* the scan loop of DetectKeywordsWithContext: at most ONE of its polls sees the cancelled context,
   however many iterations (string literals, comments) the object needs *)
Lemma scan_late_le_1 : forall poll iters s o s', mono poll ->
  run poll (scan iters) s = (o, s') -> late s' <= late s + 1.
Proof.
  intros poll iters s o s' Hm H. pose proof (late_bound_lbc poll _ s o s' Hm H) as Hb.
  destruct (ex_pollsN iters) as [_ Hc Hl _]. unfold scan, lbc in *. lia.
Qed.

Lemma ex_parse_obj : forall o, ex 2 2 (parse_obj o).
Proof.
  intro o. unfold parse_obj.
  apply (ex_weaken (N.max 1 2) (N.max 1 (N.max 2 2))); [|lia|lia].
  apply ex_seq; [apply ex_buffer|apply ex_retry_polls].
Qed.
Lemma guard_parse_obj : forall o, guard (parse_obj o) = true.
Proof. reflexivity. Qed.

Lemma ex_pal : forall o, ex 2 2 (parse_and_load o).
Proof.
  intro o. unfold parse_and_load.
  apply (ex_weaken (N.max 2 1) (N.max 2 (N.max 1 1))); [|lia|lia].
  apply ex_seq; [apply ex_parse_obj|apply ex_pollsN].
Qed.
Lemma guard_pal : forall o, guard (parse_and_load o) = true.
Proof. reflexivity. Qed.

Lemma ex_ostream : forall x, ex 2 2 (ostream_prog x).
Proof.
  intro x. unfold ostream_prog.
  apply (ex_weaken (N.max 1 2) (N.max 1 (N.max 2 2))); [|lia|lia].
  apply ex_seq; [exact ex_poll|].
  apply (ex_weaken (N.max 2 1) (N.max 2 (N.max 1 1))); [|lia|lia].
  apply ex_seq; [apply ex_pal|apply ex_pollsN].
Qed.

Lemma ex_ostreams : forall l, ex 2 2 (seqs (map ostream_prog l)).
Proof.
  intro l. apply ex_seqs; [lia|]. intros p Hp. apply in_map_iff in Hp.
  destruct Hp as [x [Hx _]]. subst p. apply ex_ostream.
Qed.

(* second loop of dereferenceObjects* *)
Lemma ex_loop2 : forall es, ex 1 1 (seqs (map entry_poll2 es)).
Proof.
  intro es. apply ex_seqs; [lia|]. intros p Hp. apply in_map_iff in Hp.
  destruct Hp as [e [He _]]. subst p. destruct e; simpl.
  - apply (ex_weaken 0 0); [exact ex_skip|lia|lia].
  - exact ex_poll.
  - exact ex_poll.
Qed.

(* strict first loop *)
Lemma ex_entry_strict : forall ro e, ex 2 2 (entry_prog false ro e).
Proof.
  intros ro e. destruct e as [| |o]; simpl.
  - apply (ex_weaken 1 1); [exact ex_poll|lia|lia].
  - apply (ex_weaken 1 1); [exact ex_poll|lia|lia].
  - apply (ex_weaken (N.max 1 2) (N.max 1 (N.max 2 2))); [|lia|lia].
    apply ex_seq; [exact ex_poll|apply ex_pal].
Qed.

(* relaxed first loop: every entry program is guarded, lc <= 1, lb <= 2 *)
Lemma swallow_entry_facts : forall p q (ro : bool), ex 2 2 p -> guard p = true -> ex 1 1 q ->
  let e := Seq Poll (Try p (if ro then Try p Skip q else Skip) q) in
  guard e = true /\ lc e <= 1 /\ lb e <= 4.
Proof.
  intros p q ro [Ht Hc Hb _] Hg [Ht' Hc' Hb' _]. destruct ro; simpl; rewrite Ht, Hg;
    (split; [reflexivity|split; lia]).
Qed.

Lemma entry_relaxed_facts : forall ro e,
  guard (entry_prog true ro e) = true /\ lc (entry_prog true ro e) <= 1
  /\ lb (entry_prog true ro e) <= 4.
Proof.
  intros ro e. destruct e as [| |o].
  - simpl. split; [reflexivity|split; lia].
  - simpl. split; [reflexivity|split; lia].
  - apply swallow_entry_facts; [apply ex_parse_obj|apply guard_parse_obj|apply ex_pollsN].
Qed.

Lemma loop1_relaxed_facts : forall ro es,
  lc (seqs (map (entry_prog true ro) es)) <= 1 /\ lb (seqs (map (entry_prog true ro) es)) <= 5.
Proof.
  intro ro. induction es as [|e es IH].
  - simpl. lia.
  - destruct IH as [IHc IHb]. destruct (entry_relaxed_facts ro e) as [Hg [Hc Hb]].
    change (seqs (map (entry_prog true ro) (e :: es)))
      with (Seq (entry_prog true ro e) (seqs (map (entry_prog true ro) es))).
    remember (entry_prog true ro e) as p. remember (seqs (map (entry_prog true ro) es)) as rest.
    simpl. rewrite Hg. destruct (tight p); lia.
Qed.

Lemma loop1_tight_or_loop2_guard : forall ro es,
  tight (seqs (map (entry_prog true ro) es)) = true \/ guard (seqs (map entry_poll2 es)) = true.
Proof.
  intro ro. induction es as [|e es IH].
  - left. reflexivity.
  - destruct e as [| |o].
    + destruct IH as [IH|IH].
      * left. simpl. simpl in IH. rewrite IH. reflexivity.
      * right. simpl. exact IH.
    + right. reflexivity.
    + right. reflexivity.
Qed.

Lemma guard_loop1 : forall rx ro e es, guard (seqs (map (entry_prog rx ro) (e :: es))) = true.
Proof. intros rx ro e es. destruct e; destruct rx; reflexivity. Qed.

Lemma ex_deref : forall rx ro es, ex 2 6 (deref rx ro es).
Proof.
  intros rx ro es. unfold deref. destruct rx.
  - destruct (ex_loop2 es) as [Ht2 Hc2 Hb2 Hg2].
    destruct (loop1_relaxed_facts ro es) as [Hc1 Hb1].
    remember (seqs (map (entry_prog true ro) es)) as l1 eqn:E1.
    remember (seqs (map entry_poll2 es)) as l2 eqn:E2.
    constructor; simpl.
    + rewrite Ht2. simpl.
      destruct (loop1_tight_or_loop2_guard ro es) as [H|H]; rewrite <- ?E1, <- ?E2 in H; rewrite H.
      * reflexivity.
      * apply orb_true_r.
    + destruct (guard l1); lia.
    + destruct (tight l1); lia.
    + destruct es as [|e es].
      * right. subst l1 l2. reflexivity.
      * left. pose proof (guard_loop1 true ro e es) as Hg1. rewrite <- E1 in Hg1. rewrite Hg1. reflexivity.
  - apply (ex_weaken (N.max 2 1) (N.max 2 (N.max 1 1))); [|lia|lia].
    apply ex_seq; [|apply ex_loop2].
    apply ex_seqs; [lia|]. intros p Hp. apply in_map_iff in Hp.
    destruct Hp as [e [He _]]. subst p. apply ex_entry_strict.
Qed.

Lemma guard_deref : forall rx ro e es, guard (deref rx ro (e :: es)) = true.
Proof.
  intros rx ro e es. unfold deref. pose proof (guard_loop1 rx ro e es) as H.
  remember (seqs (map (entry_prog rx ro) (e :: es))) as l1. simpl. rewrite H. reflexivity.
Qed.

Definition tail_prog (s : shape) : prog :=
  Seq (pollsN (s_enc s)) (Seq (seqs (map ostream_prog (s_ostreams s))) (deref (s_relaxed s) (s_repoff s) (s_entries s))).

Lemma ex_tail : forall s, ex 2 6 (tail_prog s).
Proof.
  intro s. unfold tail_prog.
  apply (ex_weaken (N.max 1 2) (N.max 1 (N.max 6 2))); [|lia|lia].
  apply ex_seq; [apply ex_pollsN|].
  apply (ex_weaken (N.max 2 2) (N.max 2 (N.max 6 2))); [|lia|lia].
  apply ex_seq; [apply ex_ostreams|apply ex_deref].
Qed.

Lemma guard_tail : forall s, s_entries s <> [] -> guard (tail_prog s) = true.
Proof.
  intros s Hne. unfold tail_prog. destruct (s_entries s) as [|e es]; [congruence|].
  pose proof (guard_deref (s_relaxed s) (s_repoff s) e es) as H.
  remember (deref (s_relaxed s) (s_repoff s) (e :: es)) as d. simpl. rewrite H. rewrite !orb_true_r. reflexivity.
Qed.

Lemma read_prog_eq : forall s,
  read_prog s = Seq (if s_prefail s then Fail else Skip)
                    (Seq (chain (s_relaxed s) (s_file s) (s_sections s)) (tail_prog s)).
Proof. reflexivity. Qed.

Lemma tight_read : forall s, s_entries s <> [] -> tight (read_prog s) = true.
Proof.
  intros s Hne. rewrite read_prog_eq. destruct (ex_tail s) as [Ht _ _ _].
  pose proof (guard_tail s Hne) as Hg.
  remember (tail_prog s) as t. remember (chain (s_relaxed s) (s_file s) (s_sections s)) as c.
  simpl. rewrite Ht, Hg. rewrite orb_true_r. simpl.
  destruct (s_prefail s); reflexivity.
Qed.

(* Fail-free programs never report an input error *)
Fixpoint failfree (p : prog) : bool :=
  match p with
  | Skip | Poll => true | Fail => false
  | Seq p q => failfree p && failfree q
  | Try p q r => failfree p && failfree q && failfree r
  | Retry p q r => failfree p && failfree r   (* q runs only after an input error of p *)
  end.

Lemma failfree_no_inerr : forall poll p s o s', mono poll -> failfree p = true ->
  run poll p s = (o, s') -> o <> InErr.
Proof.
  intros poll p. induction p as [| | |p IHp q IHq|p IHp q IHq r IHr|p IHp q IHq r IHr];
    intros s o s' Hm Hf H; simpl in H, Hf; try discriminate.
  - inversion H; subst. discriminate.
  - destruct (poll (polls s)); inversion H; subst; discriminate.
  - apply andb_prop in Hf. destruct Hf as [Hp Hq].
    destruct (run poll p s) as [o1 s1] eqn:E1. destruct (is_done o1).
    + apply (IHq _ _ _ Hm Hq H).
    + inversion H; subst. apply (IHp _ _ _ Hm Hp E1).
  - apply andb_prop in Hf. destruct Hf as [Hf Hr]. apply andb_prop in Hf. destruct Hf as [Hp Hq].
    destruct (run poll p s) as [o1 s1] eqn:E1. destruct (is_done o1).
    + apply (IHr _ _ _ Hm Hr H).
    + apply (IHq _ _ _ Hm Hq H).
  - apply andb_prop in Hf. destruct Hf as [Hp Hr].
    destruct (run poll p s) as [o1 s1] eqn:E1. destruct (is_done o1) eqn:Ed.
    + apply (IHr _ _ _ Hm Hr H).
    + (* p failed: not with an input error, so with the context's; then the probe sees it *)
      pose proof (IHp _ _ _ Hm Hp E1) as Hni.
      destruct o1 as [|e1|]; [discriminate Ed| |congruence].
      pose proof (ctxerr_late _ _ _ _ _ E1) as Hl.
      assert (Hc1 : cancelled poll s1).
      { apply (late_means_cancelled poll p s (CtxErr e1) s1 Hm E1). lia. }
      unfold cancelled in Hc1. destruct (poll (polls s1)); [|congruence].
      inversion H; subst. discriminate.
Qed.

Lemma failfree_seqs : forall l, (forall p, In p l -> failfree p = true) -> failfree (seqs l) = true.
Proof.
  induction l as [|p l IH]; intro H; [reflexivity|]. simpl.
  rewrite (H p (or_introl eq_refl)). rewrite IH; [reflexivity|].
  intros q Hq. apply H. right. exact Hq.
Qed.
Lemma failfree_pollsN : forall n, failfree (pollsN n) = true.
Proof. intro n. apply failfree_seqs. intros p Hp. apply repeat_spec in Hp. subst. reflexivity. Qed.
Lemma ff_seq : forall p q, failfree p = true -> failfree q = true -> failfree (Seq p q) = true.
Proof. intros p q Hp Hq. simpl. rewrite Hp, Hq. reflexivity. Qed.
Lemma ff_try : forall p q r, failfree p = true -> failfree q = true -> failfree r = true ->
  failfree (Try p q r) = true.
Proof. intros p q r Hp Hq Hr. simpl. rewrite Hp, Hq, Hr. reflexivity. Qed.
Lemma ff_retry : forall p q, failfree p = true -> failfree q = true -> failfree (Retry p q Skip) = true.
Proof. intros p q Hp Hq. simpl. rewrite Hp. reflexivity. Qed.
Lemma ff_retry3 : forall p q r, failfree p = true -> failfree r = true ->
  failfree (Retry p q r) = true.
Proof. intros p q r Hp Hr. simpl. rewrite Hp, Hr. reflexivity. Qed.

Lemma failfree_buffer : forall o, failfree (buffer_polls o) = true.
Proof.
  intro o. unfold buffer_polls, pass, scan. apply ff_seq.
  - apply ff_seq; [reflexivity|apply failfree_pollsN].
  - apply failfree_seqs. intros p Hp. apply in_map_iff in Hp. destruct Hp as [d [Hd _]]. subst p.
    apply ff_seq; [reflexivity|apply failfree_pollsN].
Qed.
Lemma failfree_pal : forall o, failfree (parse_and_load o) = true.
Proof.
  intro o. unfold parse_and_load, parse_obj.
  apply ff_seq; [|apply failfree_pollsN]. apply ff_seq.
  - apply failfree_buffer.
  - apply ff_retry; apply failfree_pollsN.
Qed.
Lemma failfree_process_object : forall rx o, failfree (process_object rx o) = true.
Proof.
  intros rx o. unfold process_object. apply ff_retry3; [apply failfree_pal|reflexivity].
Qed.
Lemma failfree_bypass : forall rx f, failfree (bypass rx f) = true.
Proof.
  intros rx f. apply failfree_seqs. intros p Hp. apply in_map_iff in Hp.
  destruct Hp as [i [Hi _]]. subst p. destruct i as [o|k]; unfold bypass_item.
  - apply failfree_process_object.
  - apply ff_retry; apply failfree_pollsN.
Qed.
Lemma failfree_chain : forall rx f l, failfree (chain rx f l) = true.
Proof.
  intros rx f l. induction l as [|x l IH]; [reflexivity|].
  destruct x as [k|o].
  - change (chain rx f (STable k :: l))
      with (Seq Poll (Seq (Retry (pollsN k) (pollsN k) Skip) (chain rx f l))).
    apply ff_seq; [reflexivity|]. apply ff_seq; [|exact IH].
    apply ff_retry; apply failfree_pollsN.
  - change (chain rx f (SStream o :: l))
      with (Seq Poll (Retry (parse_and_load o) (bypass rx f) (chain rx f l))).
    apply ff_seq; [reflexivity|]. apply ff_retry3; [apply failfree_pal|exact IH].
Qed.
Lemma failfree_tail : forall s, failfree (tail_prog s) = true.
Proof.
  intro s. unfold tail_prog, deref.
  apply ff_seq; [apply failfree_pollsN|]. apply ff_seq; [|apply ff_seq].
  - apply failfree_seqs. intros p Hp. apply in_map_iff in Hp. destruct Hp as [x [Hx _]]. subst p.
    unfold ostream_prog. apply ff_seq; [reflexivity|].
    apply ff_seq; [apply failfree_pal|apply failfree_pollsN].
  - apply failfree_seqs. intros p Hp. apply in_map_iff in Hp. destruct Hp as [e [He _]]. subst p.
    destruct e as [| |o]; try reflexivity. unfold entry_prog.
    assert (Hpo : failfree (parse_obj o) = true).
    { unfold parse_obj. apply ff_seq.
      - apply failfree_buffer.
      - apply ff_retry; apply failfree_pollsN. }
    apply ff_seq; [reflexivity|]. destruct (s_relaxed s).
    + apply ff_try; [exact Hpo| |apply failfree_pollsN].
      destruct (s_repoff s); [|reflexivity].
      apply ff_try; [exact Hpo|reflexivity|apply failfree_pollsN].
    + apply failfree_pal.
  - apply failfree_seqs. intros p Hp. apply in_map_iff in Hp. destruct Hp as [e [He _]]. subst p.
    destruct e; reflexivity.
Qed.

Lemma failfree_read : forall s, s_prefail s = false -> failfree (read_prog s) = true.
Proof.
  intros s Hp. rewrite read_prog_eq. rewrite Hp.
  apply ff_seq; [reflexivity|]. apply ff_seq; [apply failfree_chain|apply failfree_tail].
Qed.

(* ---- the late-poll bound, for every shape ---- *)

Lemma ex_fail : ex 0 0 Fail.
Proof. constructor; simpl; [reflexivity|lia|lia|left; reflexivity]. Qed.

Lemma ex_process_object : forall rx o, ex 3 3 (process_object rx o).
Proof.
  intros rx o. unfold process_object.
  apply (ex_weaken (2 + 1) (N.max (2 + 1) (N.max 0 0))); [|lia|lia].
  apply ex_retry; [apply ex_pal|destruct rx; [exact ex_skip|exact ex_fail]|left; apply guard_pal].
Qed.

Lemma ex_bypass : forall rx f, ex 3 3 (bypass rx f).
Proof.
  intros rx f. unfold bypass. apply ex_seqs; [lia|]. intros p Hp. apply in_map_iff in Hp.
  destruct Hp as [i [Hi _]]. subst p. destruct i as [o|k]; simpl.
  - apply ex_process_object.
  - apply (ex_weaken 2 2); [apply ex_retry_polls|lia|lia].
Qed.

Lemma chain_lc : forall rx f l, lc (chain rx f l) <= 1.
Proof. intros rx f l. destruct l as [|x l]; [simpl; lia|]. destruct x; simpl; lia. Qed.

Lemma nofail_pal : forall o, nofail (parse_and_load o) = false.
Proof. reflexivity. Qed.

Lemma chain_lb : forall rx f l, lb (chain rx f l) <= 4.
Proof.
  intros rx f l. induction l as [|x l IH].
  - simpl. lia.
  - pose proof (chain_lc rx f l) as Hcl.
    destruct x as [k|o].
    + destruct (ex_retry_polls k) as [Ht Hc Hb Hg].
      change (chain rx f (STable k :: l))
        with (Seq Poll (Seq (Retry (pollsN k) (pollsN k) Skip) (chain rx f l))).
      remember (Retry (pollsN k) (pollsN k) Skip) as r. remember (chain rx f l) as c.
      simpl. rewrite Ht. destruct (guard r); lia.
    + destruct (ex_pal o) as [Ht Hc Hb _]. pose proof (guard_pal o) as Hgp.
      pose proof (nofail_pal o) as Hnf.
      destruct (ex_bypass rx f) as [Htb Hcb Hbb _].
      change (chain rx f (SStream o :: l))
        with (Seq Poll (Retry (parse_and_load o) (bypass rx f) (chain rx f l))).
      remember (parse_and_load o) as p. remember (bypass rx f) as b. remember (chain rx f l) as c.
      simpl. rewrite Ht, Hgp, Hnf. lia.
Qed.

Lemma read_lbc : forall s, lbc (read_prog s) <= stage_bound.
Proof.
  intros s. rewrite read_prog_eq.
  pose proof (chain_lb (s_relaxed s) (s_file s) (s_sections s)) as Hb.
  pose proof (chain_lc (s_relaxed s) (s_file s) (s_sections s)) as Hc.
  destruct (ex_tail s) as [Htt Htc Htb _].
  remember (tail_prog s) as t. remember (chain (s_relaxed s) (s_file s) (s_sections s)) as c.
  unfold lbc, stage_bound. destruct (s_prefail s); simpl.
  - destruct (tight c); destruct (guard c); lia.
  - destruct (tight c); destruct (guard c); lia.
Qed.

(* ---- the property-level statements ---- *)

Lemma flip_at_mono : forall k e, mono (flip_at k e).
Proof.
  intros k e i j e' Hij H. unfold flip_at in *. destruct k as [k|]; [|discriminate].
  destruct (k <=? i) eqn:E; [|discriminate]. apply N.leb_le in E.
  assert (E' : (k <=? j) = true) by (apply N.leb_le; lia). rewrite E'. exact H.
Qed.

Lemma precancelled_fails : forall s poll e, s_sections s <> [] -> poll 0 = Some e ->
  read poll s = if s_prefail s then (InErr, st0) else (CtxErr e, mkst 1 1).
Proof.
  intros s poll e Hne H0. unfold read. rewrite read_prog_eq.
  destruct (s_prefail s); [reflexivity|].
  destruct (s_sections s) as [|x l]; [congruence|].
  destruct x as [k|o]; simpl; rewrite H0; reflexivity.
Qed.

Lemma cancel_any_time : forall s poll e, mono poll ->
  (forall i e', poll i = Some e' -> e' = e) -> s_entries s <> [] ->
  forall o st, read poll s = (o, st) ->
  (o = Done /\ late st = 0) \/ o = CtxErr e \/ (o = InErr /\ s_prefail s = true /\ st = st0).
Proof.
  intros s poll e Hm Hone Hne o st H. unfold read in H.
  destruct (s_prefail s) eqn:Ep.
  - rewrite read_prog_eq in H. rewrite Ep in H. simpl in H. inversion H; subst.
    right. right. split; [reflexivity|split; reflexivity].
  - destruct o as [|e'|].
    + left. split; [reflexivity|].
      apply (tight_sound poll (read_prog s) st0 st Hm (tight_read s Hne) H).
    + right. left. destruct (ctxerr_from_poll poll _ _ _ _ H) as [i Hi].
      rewrite (Hone i e' Hi). reflexivity.
    + exfalso.
      apply (failfree_no_inerr poll (read_prog s) st0 InErr st Hm (failfree_read s Ep) H). reflexivity.
Qed.

(* the probe: whatever error is pending, a cancelled context makes the fallback decision
   return the CONTEXT's error *)
Lemma probe_returns_context_error : forall poll p q r s o s1 e,
  run poll p s = (o, s1) -> o <> Done -> poll (polls s1) = Some e ->
  run poll (Retry p q r) s = (CtxErr e, tick_late s1).
Proof.
  intros poll p q r s o s1 e E Hnd Hp. simpl. rewrite E.
  destruct o; [congruence| |]; simpl; rewrite Hp; reflexivity.
Qed.

Lemma late_polls_bounded : forall s poll, mono poll ->
  late (snd (read poll s)) <= stage_bound.
Proof.
  intros s poll Hm. unfold read. destruct (run poll (read_prog s) st0) as [o st] eqn:E.
  pose proof (late_bound_lbc poll (read_prog s) st0 o st Hm E) as H.
  pose proof (read_lbc s) as Hb. simpl in *. lia.
Qed.

