// Harness for C22 (encrypt/decrypt round trip) and, with --mode c23, C23 (no plaintext in encrypted output).
//
// C22: K = exported primitives (RC4, decryptKey, AES-CBC de-chaining/unpadding with the real block
// cipher supplied as a table, object walkers, /Perms) against the extracted model;
// O = round-trip oracles on the primitives and end-to-end api.Encrypt -> api.Decrypt / open on generated
// and sample documents for RC4-40/RC4-128/AES-128/AES-256 x password pairs x permissions.
package main

import (
	"bytes"
	"fmt"
	"os"
	"path/filepath"
	"sort"
	"strings"

	"github.com/pdfcpu/pdfcpu/pkg/api"
	"github.com/pdfcpu/pdfcpu/pkg/pdfcpu/model"
	"verif/vh"
)

func modeArg() string {
	for i, a := range os.Args {
		if (a == "--mode" || a == "-mode") && i+1 < len(os.Args) {
			m := os.Args[i+1]
			os.Args = append(os.Args[:i], os.Args[i+2:]...)
			return m
		}
	}
	return "c22"
}

func main() {
	mode := modeArg()
	api.DisableConfigDir()
	if mode == "c23" {
		r := vh.Start("C23")
		defer r.Finish()
		mainC23(r)
		return
	}
	r := vh.Start("C22")
	defer r.Finish()
	primsRC4(r)
	primsAES(r)
	primsTrees(r)
	primsPerms(r)
	primsPasswords(r)
	readerDispatch(r)
	e2eC22(r)
	e2ePasswords(r)
	e2eEmdFalse(r)
}

type testDoc struct {
	Name       string
	Bytes      []byte
	Markers    []marker
	ObjStreams bool // the input uses object streams (its members are kept as lazy objects by the reader)
	Private    bool // has string-carrying objects reachable only through keys the validator does not visit
	Lazy       int  // undecoded object-stream members left after reading (countLazy)
}

func genDocs(r *vh.Run) []testDoc {
	var docs []testDoc
	extra := [][]byte{{}, []byte("()\\\r\n"), bytes.Repeat([]byte{0x10}, 16), bytes.Repeat([]byte{'x'}, 15), bytes.Repeat([]byte{'y'}, 17), {0}, {16}, {1}}
	add := func(name string, o docOpts, objStreams bool) {
		g := buildDoc(r.Rand, name, o)
		b := g.Bytes
		if objStreams {
			var err error
			b, err = optimizeBytes(g.Bytes, true)
			if err != nil {
				// api.Optimize (cmd OPTIMIZE) may refuse what the encrypt pipeline accepts: use that pipeline's reader
				r.Count("note:api.Optimize-failed:" + name + ":" + err.Error())
				b, err = plainRewrite(g.Bytes, true)
			}
			if err != nil {
				r.Count("skip:gen-optimize-failed:" + err.Error())
				return
			}
			if !bytes.Contains(b, []byte("/ObjStm")) {
				r.Count("skip:gen-no-object-streams")
				return
			}
		}
		docs = append(docs, testDoc{Name: name, Bytes: b, Markers: g.Markers, ObjStreams: objStreams, Private: o.Private})
	}
	add("gen-classic", docOpts{Pages: 2, ExtraStrs: extra}, false)
	add("gen-classic-private", docOpts{Pages: 1, Private: true, ExtraStrs: extra}, false)
	add("gen-objstreams", docOpts{Pages: 2, ExtraStrs: extra}, true)
	add("gen-objstreams-private", docOpts{Pages: 1, Private: true, ExtraStrs: extra}, true)
	allCrypt := "embedded,xobject,content,metadata"
	add("gen-cryptfilters", docOpts{Pages: 1, Crypt: allCrypt}, false)
	add("gen-cryptfilters-objstreams", docOpts{Pages: 2, Crypt: allCrypt}, true)
	add("gen-twice", docOpts{Pages: 2, Twice: true}, false)
	add("gen-twice-objstreams", docOpts{Pages: 2, Twice: true}, true)
	add("gen-sig", docOpts{Pages: 1, Sig: true}, false)
	add("gen-sig-objstreams", docOpts{Pages: 1, Sig: true}, true)
	if r.Thorough() {
		for i := 0; i < 6; i++ {
			add(fmt.Sprintf("gen-rand-%d", i), docOpts{Pages: 1 + r.Rand.Intn(4), Private: i%2 == 0, Sig: i%3 == 0, ExtraStrs: [][]byte{rbytes(r, r.Rand.Intn(40)), rbytes(r, 16)}}, i%2 == 1)
		}
	}
	return docs
}

func sampleDocs(r *vh.Run) []testDoc {
	repo := os.Getenv("VERIF_REPO")
	if repo == "" {
		repo = "/repo"
	}
	emptied := map[string]bool{}
	if b, err := os.ReadFile("/root/.vp/EMPTIED_FILES.txt"); err == nil {
		for _, l := range strings.Split(string(b), "\n") {
			emptied[strings.TrimSpace(l)] = true
		}
	}
	dir := filepath.Join(repo, "pkg", "testdata")
	ents, _ := os.ReadDir(dir)
	var names []string
	for _, e := range ents {
		if strings.HasSuffix(strings.ToLower(e.Name()), ".pdf") && !emptied["pkg/testdata/"+e.Name()] {
			names = append(names, e.Name())
		}
	}
	sort.Strings(names)
	// a sample whose private (AAPL:AKExtras) objects live in object streams and are never decoded: first, in both tiers
	for i, n := range names {
		if n == "annotTest.pdf" {
			names = append([]string{n}, append(names[:i:i], names[i+1:]...)...)
			break
		}
	}
	limit := int64(r.Pick(250_000, 3_000_000))
	maxN := r.Pick(6, 40)
	var docs []testDoc
	for _, n := range names {
		if len(docs) >= maxN {
			break
		}
		p := filepath.Join(dir, n)
		st, err := os.Stat(p)
		if err != nil || st.Size() == 0 || st.Size() > limit {
			continue
		}
		b, err := os.ReadFile(p)
		if err != nil {
			continue
		}
		docs = append(docs, testDoc{Name: "testdata/" + n, Bytes: b, ObjStreams: bytes.Contains(b, []byte("/ObjStm"))})
	}
	return docs
}

type pwPair struct{ U, O string }

func pwPairs(r *vh.Run, a alg) []pwPair {
	long := strings.Repeat("LongPassword0123456789", 3) // > 32 bytes
	ps := []pwPair{{"", "owner"}, {"user", "owner"}, {"Us3r", "Us3r"}, {long, long + "O"}}
	if a.Len != 256 {
		// the AES-256 reader prepares passwords with a PRECIS profile the writer does not apply (C24/C25):
		// spaces and non-ASCII only for the other algorithms
		ps = append(ps, pwPair{"my pass", "öwner pässword"})
	}
	if !r.Thorough() {
		i := r.Rand.Intn(len(ps))
		return []pwPair{ps[0], ps[i]}
	}
	return ps
}

var permSets = []model.PermissionFlags{model.PermissionsNone, model.PermissionsPrint, model.PermissionsAll,
	model.PermissionsNone + model.PermissionModify + model.PermissionExtract, model.PermissionsNone + model.PermissionFillRev3 + model.PermissionAssembleRev3}

// classify an end-to-end difference: the one known hole (undecoded object-stream members are written
// without encryption) has its own class; it can only be hit by documents that still hold such members
// after reading (countLazy > 0) and shows as string/presence differences, never as structural ones.
func diffClass(d testDoc, diffs []string, what string) string {
	if d.Lazy > 0 {
		all := true
		for _, x := range diffs {
			if !(strings.Contains(x, "string differs") || strings.Contains(x, "key present") || strings.Contains(x, "nil mismatch") ||
				strings.Contains(x, "ciphertext") || strings.Contains(x, "string vs") || strings.Contains(x, "vs string")) {
				all = false
			}
		}
		if all {
			return "lazy-objstream-member-not-encrypted"
		}
	}
	return what
}

func e2eC22(r *vh.Run) {
	docs := append(genDocs(r), sampleDocs(r)...)
	for _, d := range docs {
		b1, err := plainRewrite(d.Bytes, d.ObjStreams)
		if err != nil {
			fmt.Fprintln(os.Stderr, "baseline:", d.Name, err)
			r.Count("skip:baseline-optimize-failed")
			continue
		}
		b2, err := plainRewrite(b1, d.ObjStreams)
		if err != nil {
			r.Count("skip:baseline-optimize-failed")
			continue
		}
		c1, e1 := readCtx(b1, "", "")
		c2, e2 := readCtx(b2, "", "")
		if e1 != nil || e2 != nil {
			r.Count("skip:baseline-read-failed")
			continue
		}
		r.Count("doc:" + d.Name)
		d.Lazy = countLazy(d.Bytes)
		if d.Lazy > 0 {
			r.Count("doc-with-undecoded-objstream-members")
		}
		for _, a := range algs {
			pairs := pwPairs(r, a)
			for pi, pw := range pairs {
				perm := permSets[(pi+len(a.Name))%len(permSets)]
				if r.Thorough() {
					perm = permSets[r.Rand.Intn(len(permSets))]
				}
				in := map[string]any{"doc": d.Name, "alg": a.Name, "upw": pw.U, "opw": pw.O, "perm": int(perm)}
				enc, err := encryptBytesDoc(d.Bytes, confFor(a, pw.U, pw.O, perm, d.ObjStreams))
				if err != nil {
					r.OracleFail("encrypt-failed", in, err.Error())
					continue
				}
				r.Count("e2e:" + a.Name)
				// permissions reported = requested
				pc := model.NewDefaultConfiguration()
				pc.UserPW, pc.OwnerPW = pw.U, ""
				var got *int16
				err = guard(func() error {
					var e error
					got, e = api.GetPermissions(bytes.NewReader(enc), pc)
					return e
				})
				if err != nil || got == nil || *got != int16(perm) {
					g := "nil"
					if got != nil {
						g = fmt.Sprint(*got)
					}
					r.OracleFail("permissions-reported", in, fmt.Sprintf("requested %d reported %s err %v", int16(perm), g, err))
				} else {
					r.OracleOK()
				}
				// open with the user password: object graph = the (once optimized) original
				if co, err := readCtx(enc, pw.U, ""); err != nil {
					r.OracleFail(diffClass(d, []string{err.Error()}, "open-userpw-failed"), in, err.Error())
				} else if diffs, ns, nm := compareDocs(c1, co); len(diffs) > 0 {
					r.OracleFail(diffClass(d, diffs, "open-differs"), in, strings.Join(diffs, " | "))
				} else {
					r.OracleOK()
					r.CountN("compared:strings", ns)
					r.CountN("compared:streams", nm)
				}
				// decrypt with either password
				for who, c := range map[string]*model.Configuration{
					"user":  confFor(a, pw.U, "", perm, d.ObjStreams),
					"owner": confFor(a, "", pw.O, perm, d.ObjStreams),
				} {
					in2 := map[string]any{"doc": d.Name, "alg": a.Name, "upw": pw.U, "opw": pw.O, "perm": int(perm), "decrypt-with": who}
					dec, err := decryptBytesDoc(enc, c)
					if err != nil {
						r.OracleFail(diffClass(d, []string{err.Error()}, "decrypt-failed:"+who), in2, err.Error())
						continue
					}
					if bytes.Contains(dec, []byte("/Encrypt")) {
						r.OracleFail("decrypted-still-encrypted", in2, "output of Decrypt has /Encrypt")
						continue
					}
					cd, err := readCtx(dec, "", "")
					if err != nil {
						r.OracleFail(diffClass(d, []string{err.Error()}, "decrypted-unreadable"), in2, err.Error())
						continue
					}
					if diffs, _, _ := compareDocs(c2, cd); len(diffs) > 0 {
						r.OracleFail(diffClass(d, diffs, "roundtrip-differs"), in2, strings.Join(diffs, " | "))
					} else {
						r.OracleOK()
					}
				}
			}
		}
	}
}
