(* C33 — the property-level lemmas assembled from ProofsSplit / ProofsMerge. *)
From Coq Require Import ZArith List Bool Lia ZifyBool ZifyNat.
From PV Require Import Lib.GoInt C33.Pages C33.Model C33.ProofsSplit C33.ProofsMerge.
Import ListNotations.
Open Scope Z_scope.

Lemma ids_concat docs : concat (map ids_of docs) = map v_id (concat (map pages_of docs)).
Proof. rewrite concat_map, map_map. reflexivity. Qed.

Lemma count_nonneg t : wf_count t = true -> 0 <= count_of t.
Proof. intros H. rewrite (wf_count_len t H no_attrs). unfold lenZ. lia. Qed.

Definition part_ok (doc : tree) (p : Z * Z) : Prop :=
  lenZ (pages_of doc) = snd p - fst p + 1 /\ wf_count doc = true.

(* ---------------- split ---------------- *)
Lemma split_cover_ids t parts : wf_count t = true ->
  Forall (fun p => 1 <= fst p <= snd p /\ snd p <= count_of t) parts ->
  concat (map rng parts) = page_range 1 (count_of t) ->
  exists docs, extract_parts t parts = Ok docs /\
    concat (map ids_of docs) = ids_of t /\
    (Forall xsafe (rpages t) -> concat (map npages_of docs) = npages_of t) /\
    Forall2 part_ok docs parts.
Proof.
  intros Hwf Hall Hcat. destruct (split_cover t parts Hwf Hall Hcat) as [docs [He [Hc HF]]].
  exists docs. split; [assumption|]. split; [|split; [|exact HF]].
  - rewrite ids_concat, Hc. unfold ids_of, pages_of. rewrite !map_map. apply map_ext. apply xview_id.
  - intros Hs. unfold npages_of.
    rewrite <- (map_map pages_of (map norm_view)), <- concat_map, Hc. unfold pages_of.
    apply map_xview_safe; [apply resolve_own|assumption].
Qed.

Lemma split_span_main t span : wf_count t = true -> 1 <= span ->
  exists parts docs,
    span_parts (count_of t) span = Ok parts /\ split_span t span = Ok docs /\
    concat (map ids_of docs) = ids_of t /\
    (Forall xsafe (rpages t) -> concat (map npages_of docs) = npages_of t) /\
    Forall2 part_ok docs parts.
Proof.
  intros Hwf Hs.
  destruct (span_parts_ok (count_of t) span (count_nonneg t Hwf) Hs) as [full [last [Hp [Hc [_ [_ [_ Hb]]]]]]].
  destruct (split_cover_ids t (full ++ last) Hwf Hb Hc) as [docs [He H]].
  exists (full ++ last), docs. split; [assumption|]. split; [|exact H].
  unfold split_span. rewrite Hp. exact He.
Qed.

Lemma split_along_main t nrs : wf_count t = true -> valid_page_nrs (count_of t) nrs = true ->
  exists parts docs,
    along_parts (count_of t) nrs = Ok parts /\ split_along t nrs = Ok docs /\
    concat (map ids_of docs) = ids_of t /\
    (Forall xsafe (rpages t) -> concat (map npages_of docs) = npages_of t) /\
    Forall2 part_ok docs parts.
Proof.
  intros Hwf Hv.
  destruct (along_parts_ok (count_of t) nrs Hv) as [parts [Hp [Hc [Hb _]]]].
  destruct (split_cover_ids t parts Hwf Hb Hc) as [docs [He H]].
  exists parts, docs. split; [assumption|]. split; [|exact H].
  unfold split_along. rewrite Hp. exact He.
Qed.

Lemma split_invalid t span nrs :
  (span <= 0 -> split_span t span = Err) /\
  (valid_page_nrs (count_of t) nrs = false -> split_along t nrs = Err).
Proof.
  split; intros H.
  - unfold split_span. rewrite span_parts_invalid by assumption. reflexivity.
  - unfold split_along. rewrite along_parts_invalid by assumption. reflexivity.
Qed.

(* ---------------- merge ---------------- *)
Lemma merge_concat docs : docs <> [] -> Forall (fun d => is_node d = true) docs ->
  exists t, merge_create docs false = Ok t /\
    pages_of t = concat (map pages_of docs) /\
    (Forall (fun d => wf_count d = true) docs -> wf_count t = true).
Proof.
  intros Hne Hn. destruct docs as [|d r]; [congruence|]. inversion Hn; subst.
  simpl. destruct (merge_all_nodiv_ok r d) as [t Ht]; [assumption|].
  exists t. split; [assumption|]. destruct (merge_all_spec false r d t Ht) as [Hs Hw].
  rewrite merge_spec_nodiv in Hs. inversion Hs as [Hs']. split; [reflexivity|].
  intros Hall. inversion Hall; subst. apply Hw; assumption.
Qed.

Lemma merge_divider d r t : merge_create (d :: r) true = Ok t ->
  ids_of t = ids_of d ++ flat_map (fun x => 0 :: ids_of x) r /\
  (exists divs, Forall2 (fun (_ : list vpage) v => is_blank v) (map pages_of r) divs /\
     pages_of t = pages_of d ++ concat (map (fun dv => snd dv :: fst dv) (combine (map pages_of r) divs))) /\
  (Forall (fun x => wf_count x = true) (d :: r) -> wf_count t = true).
Proof.
  simpl. intros Ht. destruct (merge_all_spec true r d t Ht) as [Hs Hw]. split; [|split].
  - unfold ids_of. rewrite (merge_spec_div_ids _ _ _ Hs). f_equal.
    rewrite flat_map_concat_map, map_map, <- flat_map_concat_map. reflexivity.
  - apply (merge_spec_div_shape _ _ _ Hs).
  - intros Hall. inversion Hall; subst. apply Hw; assumption.
Qed.

(* ---------------- zip ---------------- *)
Lemma zip_ids dest src : is_node dest = true ->
  exists t, zip_merge dest src = Ok t /\
    ids_of t = interleave (ids_of dest) (ids_of src) /\ wf_count t = true.
Proof.
  intros Hn.
  assert (Hex : exists t, zip_merge dest src = Ok t).
  { unfold zip_merge. destruct dest; [discriminate|].
    destruct (zip_tree (Node a count kids) (rpages src)) as [d1 [|r0 rest]]; eexists; reflexivity. }
  destruct Hex as [t Ht]. exists t. split; [assumption|].
  assert (Hw : forall (inh : attrs) (s : rpage), True -> True ->
            pg_id (fst (weave_page s, inherit inh (pg_attrs (weave_page s)))) = pg_id (fst s)).
  { intros inh [p a] _ _. reflexivity. }
  destruct (zip_merge_gen (fun r => pg_id (fst r)) (fun r => pg_id (fst r))
              (fun _ => True) (fun _ => true) (fun _ => True) (fun _ _ _ _ => I) Hw dest src t I
              (nodes_ok_true dest)) as [H1 H2].
  - apply Forall_forall. intros; exact I.
  - assumption.
  - split; [|assumption]. unfold ids_of, pages_of. rewrite !map_map. exact H1.
Qed.

Definition crop_own (r : rpage) : Prop := a_crop (snd r) = a_crop (pg_attrs (fst r)).

Lemma no_crop_resolve : forall t inh, a_crop inh = None -> nodes_ok no_crop t = true ->
  Forall crop_own (resolve inh t).
Proof.
  induction t as [p|a c kids IH] using tree_ind'; intros inh Hi Hok.
  - simpl. constructor; [|constructor]. unfold crop_own. simpl. rewrite Hi.
    destruct (a_crop (pg_attrs p)); reflexivity.
  - simpl in Hok. apply andb_true_iff in Hok. destruct Hok as [Ha Hk].
    assert (Hi' : a_crop (inherit inh a) = None).
    { unfold no_crop in Ha. simpl. destruct (a_crop a); [discriminate|exact Hi]. }
    simpl. rewrite forallb_forall in Hk.
    induction IH as [|k ks Hk0 _ IHks]; simpl; [constructor|].
    apply Forall_app. split.
    + apply Hk0; [assumption|]. apply Hk. left. reflexivity.
    + apply IHks. intros x Hx. apply Hk. right. assumption.
Qed.

Lemma zip_pages dest src t : zip_merge dest src = Ok t ->
  no_node_crop dest = true ->
  Forall (fun v => v_media v <> None) (pages_of src) ->
  pages_of t = interleave (pages_of dest) (pages_of src).
Proof.
  intros Ht Hd Hm.
  assert (HQ : forall inh a : attrs, a_crop inh = None -> no_crop a = true -> a_crop (inherit inh a) = None).
  { intros inh a Hi Ha. unfold no_crop in Ha. simpl. destruct (a_crop a); [discriminate|exact Hi]. }
  assert (Hw : forall (inh : attrs) (s : rpage), a_crop inh = None ->
            own_consistent s /\ a_media (snd s) <> None ->
            view (weave_page s, inherit inh (pg_attrs (weave_page s))) = view s).
  { intros inh [p a] Hi [[i0 Hown] Hmed]. simpl in *.
    unfold view. simpl. unfold rot_of at 1. simpl.
    destruct (a_media a) as [m|]; [|congruence]. simpl. rewrite Hi. subst a. simpl.
    destruct (a_crop (pg_attrs p)); [reflexivity|]. destruct (a_crop i0); reflexivity. }
  assert (Hsrc : Forall (fun s => own_consistent s /\ a_media (snd s) <> None) (rpages src)).
  { unfold pages_of in Hm. rewrite Forall_map in Hm.
    pose proof (resolve_own src no_attrs) as Hc. fold (rpages src) in Hc.
    rewrite Forall_forall in *. intros x Hx. split; [apply Hc|apply (Hm x)]; assumption. }
  destruct (zip_merge_gen view view (fun inh => a_crop inh = None) no_crop
              (fun s => own_consistent s /\ a_media (snd s) <> None) HQ Hw dest src t eq_refl Hd Hsrc Ht) as [H1 _].
  exact H1.
Qed.

(* ---------------- witnesses: inherited attributes that the copies drop ---------------- *)
Definition mb1 : rect := (0, 0, 300, 400).
Definition cb1 : rect := (10, 10, 200, 300).
Definition plain_page (id : Z) : pageD := mkPage id (mkAttrs None (Some mb1) None true) None None None.

(* a page inheriting its CropBox from its parent /Pages node *)
Definition doc_inh_crop : tree :=
  Node no_attrs 1 [Node (mkAttrs None None (Some cb1) false) 1 [Leaf (plain_page 1)]].
(* a page inheriting /Rotate -90 *)
Definition doc_inh_negrot : tree :=
  Node no_attrs 1 [Node (mkAttrs (Some (-90)) None None false) 1 [Leaf (plain_page 1)]].
Definition doc_plain : tree := Node no_attrs 1 [Leaf (plain_page 7)].

(* after the fix of addPage the two documents that used to lose attributes are reproduced exactly *)
Lemma split_witnesses_fixed :
  (exists docs, split_span doc_inh_crop 1 = Ok docs /\ concat (map pages_of docs) = pages_of doc_inh_crop) /\
  (exists docs, split_span doc_inh_negrot 1 = Ok docs /\ concat (map pages_of docs) = pages_of doc_inh_negrot).
Proof. split; eexists; (split; [vm_compute; reflexivity|]); reflexivity. Qed.

(* a source page that inherits its CropBox keeps it when woven into another document (since the fix of
   weaveInPage / AppendPages) ... *)
Lemma zip_witness_fixed :
  exists t, zip_merge doc_plain doc_inh_crop = Ok t /\
    pages_of t = interleave (pages_of doc_plain) (pages_of doc_inh_crop).
Proof. eexists. split; [vm_compute; reflexivity|]. reflexivity. Qed.

(* ... but a source page WITHOUT any CropBox still picks up the CropBox inherited at its new position *)
Lemma zip_refuted :
  exists t, zip_merge doc_inh_crop doc_plain = Ok t /\
    pages_of t <> interleave (pages_of doc_inh_crop) (pages_of doc_plain).
Proof. eexists. split; [vm_compute; reflexivity|]. vm_compute. congruence. Qed.
