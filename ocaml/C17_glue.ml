open Model
open Common
(* optional int parameter: "-" = key absent from the parms map *)
let optz s = if s = "-" then None else Some (z_of_hex s)
let obytes = function Some l -> "ok:" ^ hex_of_bytes l | None -> "err"
let dispatch fn args = match fn, args with
  | "paeth", [a; b; c] -> hex_of_n (paeth (n_of_hex a) (n_of_hex b) (n_of_hex c))
  | "abs", [x] -> hex_of_z (go_abs (z_of_hex x))
  | "rowparams", [p; colors; bpc; columns] ->
    (match predictorRowParams (z_of_hex p) (z_of_hex colors) (z_of_hex bpc) (z_of_hex columns) with
     | Some ((rs, rl), bpp) -> "ok:" ^ hex_of_z rs ^ "," ^ hex_of_z rl ^ "," ^ hex_of_z bpp
     | None -> "err")
  | "processRow", [pr; cr; p; colors; bpp] ->
    obytes (processRow (bytes_of_hex pr) (bytes_of_hex cr) (z_of_hex p) (z_of_hex colors) (z_of_hex bpp))
  | "filterPaeth", [cdat; pdat; bpp] ->
    obytes (filterPaeth (bytes_of_hex cdat) (bytes_of_hex pdat) (nat_of_int (int_of_z (z_of_hex bpp))))
  | "decode", [p; colors; bpc; columns; data] ->
    obytes (decode (optz p) (optz colors) (optz bpc) (optz columns) (bytes_of_hex data))
  | "lzw", [p; data] -> obytes (lzwDecodePost (optz p) (bytes_of_hex data))
  | _ -> failwith ("unknown function " ^ fn)
let () = main dispatch
