(* C39 — Name trees stay sorted, bounded and consistent under edits.
   Property theorems only; each is closed by an exact lemma and followed by Print Assumptions.

   Model (C39/Model.v, transcribed from pkg/pdfcpu/model/nameTree.go): tadd rn = Node.Add
   (rn: the NameMap m has an entry for the key, "rename mode"), tremove = Node.Remove,
   tvalue = Node.Value, entries = Node.Process/KeyList order.  Specification: a strictly
   sorted association list with m_add (keep an existing binding) / m_remove / m_lookup.

   Inv t  := wf t \/ t is an empty root leaf;  wf: every leaf is non-empty, strictly sorted and
   its (Kmin,Kmax) are its first/last key; every intermediate node has kids, all wf, with strictly
   increasing ranges, and its (Kmin,Kmax) are its first kid's Kmin / last kid's Kmax.
   Inv covers trees of ANY shape (wide nodes, long leaves, single-kid chains), not only pdfcpu's. *)
From Coq Require Import List NArith.
From PV Require Import C39.Model C39.ProofsOrder C39.Proofs C39.ProofsRemove C39.ProofsHistory C39.ProofsBounded.
Import ListNotations.

(* Add (m == nil, or the key is not in m): invariant kept, contents = sorted-map insert that keeps
   an existing binding (a duplicate key is NOT replaced). Covers the empty root and leaf splits. *)
Theorem C39_add_inv : forall t k v, Inv t ->
  Inv (tadd false t k v) /\ entries (tadd false t k v) = m_add k v (entries t).
Proof. exact add_inv. Qed.
Print Assumptions C39_add_inv.

(* Remove, whenever it returns: invariant kept, contents = sorted-map delete, ok says whether the key
   was present (missing key: nothing changes), empty says whether the last key went away. *)
Theorem C39_remove_inv : forall t k t' e ok, Inv t -> tremove t k = R t' e ok ->
  Inv t' /\ entries t' = m_remove k (entries t) /\ (ok = true <-> In k (keys t)) /\
  (ok = true -> (e = true <-> entries t' = [])).
Proof. exact remove_inv. Qed.
Print Assumptions C39_remove_inv.

(* FULL statement (refuted below for rename mode): for ANY history of Add / Add-in-rename-mode / Remove
   from any Inv tree no step panics and the result satisfies Inv and refines the map.
   PROVED (partial only in rn_fresh): for every history in which rename-mode Adds use keys not yet in
   the tree, NO step panics (Remove of any key, incl. "" on the empty tree), the tree satisfies Inv, its
   in-order contents are exactly the specification's sorted list, keys are strictly sorted and unique,
   and every lookup agrees with the map. *)
Theorem C39_history_partial : forall ops t, Inv t -> rn_fresh (entries t) ops ->
  exists t', run ops t = Some t' /\ Inv t' /\ entries t' = spec_run ops (entries t) /\
             lsorted (keys t') /\ NoDup (keys t') /\
             (forall k, tvalue t' k = m_lookup k (spec_run ops (entries t))).
Proof. exact history_full. Qed.
Print Assumptions C39_history_partial.

(* every node's limits match the keys below it (for every node s of an Inv tree) *)
Theorem C39_limits_exact : forall t s, Inv t -> subnode s t -> entries s <> [] ->
  lsorted (keys s) /\ nmin s = khd (keys s) /\ nmax s = klast (keys s).
Proof. exact limits_exact. Qed.
Print Assumptions C39_limits_exact.

(* the specification really is a finite map on strictly sorted lists *)
Theorem C39_spec_is_map : forall k v m k', lsorted (ekeys m) ->
  lsorted (ekeys (m_add k v m)) /\ lsorted (ekeys (m_remove k m)) /\
  m_lookup k' (m_add k v m) =
    (if keqb k k' then match m_lookup k m with Some x => Some x | None => Some v end else m_lookup k' m) /\
  m_lookup k' (m_remove k m) = (if keqb k k' then None else m_lookup k' m).
Proof. exact spec_is_map. Qed.
Print Assumptions C39_spec_is_map.

(* Remove never panics, on ANY tree (well-formed or not, empty root included); on an empty root leaf
   it is a no-op reporting (false, false), whatever the stale limits are. *)
Theorem C39_remove_never_panics : forall t k, tremove t k <> RPanic.
Proof. exact remove_total. Qed.
Print Assumptions C39_remove_never_panics.
Theorem C39_remove_empty_root_noop : forall a b k, tremove (Leaf [] a b) k = R (Leaf [] a b) false false.
Proof. exact remove_empty_leaf. Qed.
Print Assumptions C39_remove_empty_root_noop.

(* regression for the fixed defect (commit 259840a1): Remove("") on the empty tree, fresh or after the
   last key was removed, leaves the empty tree *)
Theorem C39_remove_empty_key_regression :
  run [ORemove []] empty_tree = Some empty_tree /\
  run [OAdd kA 1%N; ORemove kA; ORemove []] empty_tree = Some empty_tree.
Proof. split; [exact remove_empty_key_on_empty_tree_ok|exact remove_after_last_key_ok]. Qed.
Print Assumptions C39_remove_empty_key_regression.

(* DEFECT witness (open finding add-rename-dup-crosses-leaf): rename mode (AddAttachment, bookmarks) adding a,b,b,c,b yields the key b\x01 twice *)
Theorem C39_add_rename_refuted :
  exists t, run rename_witness empty_tree = Some t /\ ~ NoDup (keys t) /\ ~ lsorted (keys t).
Proof. exact rename_breaks_uniqueness. Qed.
Print Assumptions C39_add_rename_refuted.

(* rename mode with a key that is not in the tree is the plain Add (so C39_add_inv applies) *)
Theorem C39_add_rename_fresh_partial : forall t k v,
  m_lookup k (entries t) = None -> tadd true t k v = tadd false t k v.
Proof. exact add_rn_fresh. Qed.
Print Assumptions C39_add_rename_fresh_partial.

(* the model's fuel for the unbounded Go loop in insertUniqueIntoLeaf is never exhausted *)
Theorem C39_rename_loop_terminates : forall rn ns k v, ins_unique (S (length ns)) rn ns k v <> IFuel.
Proof. exact ins_unique_never_out_of_fuel. Qed.
Print Assumptions C39_rename_loop_terminates.

(* pdfcpu's own shape bound (what the code guarantees for trees it grows itself: a leaf holds at most
   maxEntries = 3 names, an intermediate node has exactly 2 kids) is kept by Add and Remove; Remove
   reports empty only with the canonical empty root Leaf [] "" "". Foreign trees are not re-balanced. *)
Theorem C39_shape_bound : forall t k v, bounded t ->
  bounded (tadd false t k v) /\ (forall t' e ok, wf t -> tremove t k = R t' e ok -> bounded t' /\ (e = true -> t' = empty_tree)).
Proof. intros t k v Hb. split; [apply add_bounded; exact Hb|]. intros t' e ok Hw E. exact (remove_bounded t k t' e ok Hw Hb E). Qed.
Print Assumptions C39_shape_bound.

(* Histories from the empty tree: if rename-mode Adds use fresh keys (the only restriction; the general
   case is refuted above), NO step panics, the tree stays well-formed and within the shape bound, equals
   the specification's sorted list, is sorted and every lookup agrees with the map. *)
Theorem C39_history_from_empty_partial : forall ops, rn_fresh [] ops ->
  exists t, run ops empty_tree = Some t /\ Inv0 t /\ entries t = spec_run ops [] /\ lsorted (keys t) /\ (forall k, tvalue t k = m_lookup k (spec_run ops [])).
Proof. exact history_from_empty. Qed.
Print Assumptions C39_history_from_empty_partial.

(* non-vacuity: a multi-level tree built by the model satisfies wf; a history with all kinds of
   steps satisfies the hypotheses of C39_history_partial *)
Definition nv_ops : list op :=
  [OAdd kB 1%N; OAdd kA 2%N; OAddRn kC 3%N; OAdd [100%N] 4%N; OAdd kB 9%N; OAdd [101%N] 5%N;
   ORemove kA; ORemove [122%N]; OAdd [] 6%N; ORemove kB].
Example C39_nonvacuous :
  (exists t, run nv_ops empty_tree = Some t /\ keys t = [[]; kC; [100%N]; [101%N]]
             /\ exists kids a b, t = Inner kids a b)
  /\ rn_fresh (entries empty_tree) nv_ops /\ Inv empty_tree.
Proof.
  split; [|split; [|exact inv_empty]].
  - eexists. split; [vm_compute; reflexivity|]. split; [reflexivity|]. do 3 eexists. reflexivity.
  - cbn. repeat split; reflexivity.
Qed.
