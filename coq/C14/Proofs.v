(* C14 — proofs about coq/C14/Model.v *)
From Coq Require Import ZArith NArith List Bool Lia ZifyBool ZifyNat ZifyN.
From PV Require Import Lib.GoInt C14.Model.
Import ListNotations.
Open Scope Z_scope.
Ltac Zify.zify_post_hook ::= Z.to_euclidean_division_equations.

Arguments digit_char : simpl never.

Definition isdig (d : Z) : Prop := 0 <= d <= 9.

(* ---------------- printing ---------------- *)

Lemma digits_fuel_lt f x : x < 10 -> digits_fuel (S f) x = [digit_char x].
Proof. intros Hx. simpl. destruct (Z.ltb_spec x 10); [reflexivity | lia]. Qed.

Lemma digits_fuel_ge f x : 10 <= x ->
  digits_fuel (S f) x = digits_fuel f (x / 10) ++ [digit_char (x mod 10)].
Proof. intros Hx. simpl. destruct (Z.ltb_spec x 10); [lia | reflexivity]. Qed.

Lemma dc0 : digit_char 0 = b_0.
Proof. reflexivity. Qed.

Lemma fmt0_2 x : 0 <= x <= 99 -> fmt0 2 x = dec2 x.
Proof.
  intros Hx. unfold fmt0, digits, dec2.
  destruct (Z.ltb_spec x 0) as [Hn|_]; [lia|].
  destruct (Z_lt_le_dec x 10) as [Hs|Hs].
  - rewrite digits_fuel_lt by lia. simpl.
    replace (x / 10) with 0 by lia. replace (x mod 10) with x by lia. reflexivity.
  - rewrite digits_fuel_ge by lia. rewrite digits_fuel_lt by lia. reflexivity.
Qed.

Lemma fmt0_4 x : 0 <= x <= 9999 -> fmt0 4 x = dec4 x.
Proof.
  intros Hx. unfold fmt0, digits, dec4.
  destruct (Z.ltb_spec x 0) as [Hn|_]; [lia|].
  destruct (Z_lt_le_dec x 10) as [H1|H1].
  { rewrite digits_fuel_lt by lia. simpl.
    replace (x / 1000) with 0 by lia. replace (x / 100 mod 10) with 0 by lia.
    replace (x / 10 mod 10) with 0 by lia. replace (x mod 10) with x by lia. reflexivity. }
  rewrite digits_fuel_ge by lia.
  destruct (Z_lt_le_dec x 100) as [H2|H2].
  { rewrite digits_fuel_lt by lia. simpl.
    replace (x / 1000) with 0 by lia. replace (x / 100 mod 10) with 0 by lia.
    replace (x / 10 mod 10) with (x / 10) by lia. reflexivity. }
  rewrite digits_fuel_ge by lia.
  destruct (Z_lt_le_dec x 1000) as [H3|H3].
  { rewrite digits_fuel_lt by lia. simpl.
    replace (x / 1000) with 0 by lia.
    replace (x / 100 mod 10) with (x / 10 / 10) by lia. reflexivity. }
  rewrite digits_fuel_ge by lia. rewrite digits_fuel_lt by lia. simpl.
  replace (x / 1000) with (x / 10 / 10 / 10) by (rewrite !Z.div_div by lia; reflexivity).
  replace (x / 100) with (x / 10 / 10) by (rewrite !Z.div_div by lia; reflexivity). reflexivity.
Qed.

(* ---------------- digit characters ---------------- *)

Lemma char_digit_dc d : isdig d -> char_digit (digit_char d) = Some d.
Proof.
  unfold isdig, char_digit, digit_char. intros Hd.
  destruct (N.leb_spec 48 (Z.to_N (48 + d))); destruct (N.leb_spec (Z.to_N (48 + d)) 57);
    cbn [andb]; try lia. f_equal. lia.
Qed.

Lemma dc_neq d c : isdig d -> (c < 48 \/ 57 < c)%N -> (digit_char d =? c)%N = false.
Proof. unfold isdig, digit_char. intros Hd Hc. apply N.eqb_neq. lia. Qed.

Lemma dc_tzsep d : isdig d -> timezoneSeparator (digit_char d) = false.
Proof.
  intros Hd. unfold timezoneSeparator, b_plus, b_minus, b_Z.
  rewrite !dc_neq by (auto; lia). reflexivity.
Qed.

(* ---------------- Atoi on digit strings ---------------- *)

Lemma atoi_digits_dc acc d r : isdig d ->
  atoi_digits acc (digit_char d :: r) = atoi_digits (acc * 10 + d) r.
Proof. intros Hd. cbn [atoi_digits]. rewrite char_digit_dc by assumption. reflexivity. Qed.

Lemma atoi_body_pos r v : r <> [] -> atoi_digits 0 r = Some v -> 0 <= v <= 9999 ->
  atoi_body false r = Some v.
Proof.
  intros Hr Hd Hv. unfold atoi_body. destruct r as [|b r]; [congruence|]. rewrite Hd.
  change (minS 64) with (-9223372036854775808). change (maxS 64) with 9223372036854775807.
  destruct (Z.leb_spec (-9223372036854775808) v); destruct (Z.leb_spec v 9223372036854775807);
    simpl; try lia. reflexivity.
Qed.

Lemma atoi_dc2 a b : isdig a -> isdig b ->
  atoi [digit_char a; digit_char b] = Some (10 * a + b).
Proof.
  intros Ha Hb. unfold atoi, b_minus, b_plus.
  rewrite !dc_neq by (auto; lia).
  apply atoi_body_pos; [discriminate| |unfold isdig in *; lia].
  rewrite !atoi_digits_dc by assumption. cbn [atoi_digits]. f_equal. lia.
Qed.

Lemma atoi_dc1 a : isdig a -> atoi [digit_char a] = Some a.
Proof.
  intros Ha. unfold atoi, b_minus, b_plus.
  rewrite !dc_neq by (auto; lia).
  apply atoi_body_pos; [discriminate| |unfold isdig in *; lia].
  rewrite !atoi_digits_dc by assumption. cbn [atoi_digits]. f_equal.
Qed.

Lemma atoi_dc4 a b c d : isdig a -> isdig b -> isdig c -> isdig d ->
  atoi [digit_char a; digit_char b; digit_char c; digit_char d] = Some (1000 * a + 100 * b + 10 * c + d).
Proof.
  intros Ha Hb Hc Hd. unfold atoi, b_minus, b_plus.
  rewrite !dc_neq by (auto; lia).
  apply atoi_body_pos; [discriminate| |unfold isdig in *; lia].
  rewrite !atoi_digits_dc by assumption. cbn [atoi_digits]. f_equal. lia.
Qed.
