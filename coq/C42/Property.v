(* C42 — Checked integer arithmetic is exact or reports overflow.
   Property theorems only; each is closed by an exact lemma and followed by Print Assumptions. *)
From PV Require Import Lib.GoInt C42.Generated C42.Proofs.
Open Scope Z_scope.

(* For all pairs of int-sized (32- or 64-bit, any width >= 2) integers: *)
Theorem C42_AddInt : forall w a b, 2 <= w -> inS w a -> inS w b ->
  AddInt w a b = if (0 <=? a) && (0 <=? b) && (a + b <=? maxS w) then Ok (a + b) else Err.
Proof. exact AddInt_correct. Qed.
Print Assumptions C42_AddInt.

Theorem C42_MultiplyInt : forall w a b, 2 <= w -> inS w a -> inS w b ->
  MultiplyInt w a b = if (0 <=? a) && (0 <=? b) && (a * b <=? maxS w) then Ok (a * b) else Err.
Proof. exact MultiplyInt_correct. Qed.
Print Assumptions C42_MultiplyInt.

Theorem C42_MultiplyInt64 : forall w a b, inS 64 a -> inS 64 b ->
  MultiplyInt64 w a b = if (0 <=? a) && (0 <=? b) && (a * b <=? maxS 64) then Ok (a * b) else Err.
Proof. exact MultiplyInt64_correct. Qed.
Print Assumptions C42_MultiplyInt64.

(* non-vacuity: the hypotheses are satisfiable and both branches occur *)
Example C42_nonvacuous :
  inS 64 (maxS 64) /\ AddInt 64 (maxS 64) 1 = Err /\ AddInt 64 (maxS 64 - 1) 1 = Ok (maxS 64)
  /\ MultiplyInt 32 65536 32768 = Err /\ MultiplyInt 32 65536 32767 = Ok 2147418112.
Proof. vm_compute. repeat split; congruence. Qed.
