From Coq Require Import Extraction ExtrOcamlBasic.
From PV Require Import Lib.ExtBase C18.Model.
Extraction "model.ml" ext_base_z ext_base_n ext_base_nat ext_base_res ext_base_list
  layout check_file check_stage check_rows check_xref_stream xref_stream_content w2_width mk_xrow entry_line int64ToBuf be_value dec value free_object undelete_object ensure_valid_free_list pathb obj_header chain_ok mk_input.
