// Harness for C40 (concurrent use of the API is race-free and deterministic).
//
//	K  correspondence: random section sequences with environment changes ("seq") and random
//	   schedules of well-formed operations ("sched") are executed, section by section, on the REAL
//	   package-level state (font.LoadUserFonts / ReloadUserFonts / UserFont / UserFontNames,
//	   api.DisableConfigDir, pdfcpu.LoadCertificates / InvalidateCertificatePool / pool) and by the
//	   extracted model; results are diffed.
//	O  oracle: the harness builds itself once more with `go build -race` (worker.go) and runs
//	   goroutines x GOMAXPROCS sweeps of mixed API calls on independent in-memory inputs, comparing
//	   every call's normalised result with its sequential result (class nondeterministic:<op>) and
//	   reporting every race-detector report (class race:<...>), crash or hang.
package main

import (
	"crypto/ecdsa"
	"crypto/elliptic"
	"crypto/rand"
	"crypto/x509"
	"crypto/x509/pkix"
	"encoding/gob"
	"encoding/pem"
	"fmt"
	"math/big"
	"os"
	"path/filepath"
	"sort"
	"strconv"
	"strings"
	"time"

	"github.com/pdfcpu/pdfcpu/pkg/api"
	"github.com/pdfcpu/pdfcpu/pkg/font"
	"github.com/pdfcpu/pdfcpu/pkg/pdfcpu"
	"github.com/pdfcpu/pdfcpu/pkg/pdfcpu/model"
	"verif/vh"
)

func main() {
	if len(os.Args) > 1 && os.Args[1] == "--worker" {
		workerMain(os.Args[2:])
		return
	}
	r := vh.Start("C40")
	api.DisableConfigDir()
	base, err := os.MkdirTemp("", "c40-")
	if err != nil {
		panic(err)
	}
	partK(r, base)
	broken := partO(r, base)
	os.RemoveAll(base)
	r.Finish()
	if len(broken) > 0 {
		// a worker that died for reasons that are not pdfcpu's: the run decides nothing (neither OK nor a
		// property violation); the non-zero exit makes the framework report the run as broken
		fmt.Fprintln(os.Stderr, "C40: BROKEN RUN (harness / race runtime / resources, not attributable to pdfcpu):")
		for _, b := range broken {
			fmt.Fprintln(os.Stderr, b)
		}
		os.Exit(5)
	}
}

// ---------------------------------------------------------------- synthetic environments

func fontName(n int) string { return "f" + strconv.FormatInt(int64(n), 16) }

// writeFontGob writes a minimal valid TTFLight (glyph count = v) as <dir>/<name>.gob.
func writeFontGob(dir, name string, v int) {
	fd := font.TTFLight{
		PostscriptName: "Synth-" + name, UnitsPerEm: 1000, Ascent: 800, Descent: -200, CapHeight: 700,
		FirstChar: 65, LastChar: 65, LLx: 0, LLy: -200, URx: 1000, URy: 800,
		HorMetricsCount: 1, GlyphCount: v, GlyphWidths: make([]int, v),
		Chars: map[uint32]uint16{65: 0}, ToUnicode: map[uint16]uint32{0: 65}, Planes: map[int]bool{0: true},
	}
	for i := range fd.GlyphWidths {
		fd.GlyphWidths[i] = 500
	}
	if err := font.ValidateTTFLight(fd); err != nil {
		panic(err)
	}
	f, err := os.Create(filepath.Join(dir, name+".gob"))
	if err != nil {
		panic(err)
	}
	if err := gob.NewEncoder(f).Encode(fd); err != nil {
		panic(err)
	}
	f.Close()
}

type fontEnv struct {
	dir  string
	wire string // "-" | "" | name:val,...  (sorted by name)
}

// newFontEnv creates a font directory; kind: 0 normal, 1 empty UserFontDir (""), 2 missing dir, 3 corrupt gob.
func newFontEnv(base string, seq int, kind int, tab map[int]int) fontEnv {
	switch kind {
	case 1:
		return fontEnv{"", ""}
	case 2:
		return fontEnv{filepath.Join(base, fmt.Sprintf("nofonts%d", seq)), "-"}
	}
	dir := filepath.Join(base, fmt.Sprintf("fonts%d", seq))
	if err := os.MkdirAll(dir, 0o755); err != nil {
		panic(err)
	}
	var keys []int
	for k := range tab {
		keys = append(keys, k)
	}
	sort.Slice(keys, func(i, j int) bool { return fontName(keys[i]) < fontName(keys[j]) })
	var parts []string
	for _, k := range keys {
		writeFontGob(dir, fontName(k), tab[k])
		parts = append(parts, fmt.Sprintf("%x:%x", k, tab[k]))
	}
	// files that doLoadUserFonts must ignore
	os.WriteFile(filepath.Join(dir, "README.txt"), []byte("not a font"), 0o644)
	if kind == 3 {
		os.WriteFile(filepath.Join(dir, "zz-corrupt.gob"), []byte("this is not a gob stream"), 0o644)
		return fontEnv{dir, "-"}
	}
	return fontEnv{dir, strings.Join(parts, ",")}
}

func makeCertPEM(cn string) []byte {
	key, err := ecdsa.GenerateKey(elliptic.P256(), rand.Reader)
	if err != nil {
		panic(err)
	}
	tmpl := &x509.Certificate{SerialNumber: big.NewInt(time.Now().UnixNano()), Subject: pkix.Name{CommonName: cn},
		NotBefore: time.Now().Add(-time.Hour), NotAfter: time.Now().Add(24 * time.Hour), IsCA: true,
		KeyUsage: x509.KeyUsageCertSign | x509.KeyUsageDigitalSignature, BasicConstraintsValid: true}
	der, err := x509.CreateCertificate(rand.Reader, tmpl, tmpl, &key.PublicKey, key)
	if err != nil {
		panic(err)
	}
	return pem.EncodeToMemory(&pem.Block{Type: "CERTIFICATE", Bytes: der})
}

type certEnv struct {
	dir  string
	id   int
	pool string // "-" | count
}

var pemCache [][]byte

func certPEM(i int) []byte {
	for len(pemCache) <= i {
		pemCache = append(pemCache, makeCertPEM(fmt.Sprintf("C40 test CA %d", len(pemCache))))
	}
	return pemCache[i]
}

// newCertEnv creates <base>/<name> holding k certificates (one of them in a sub-directory, plus a
// file that must be ignored); id identifies the directory on the wire.  k < 0: the directory is missing.
func newCertEnv(base, name string, id, k int) certEnv {
	dir := filepath.Join(base, name)
	if k < 0 {
		return certEnv{dir, id, "-"}
	}
	os.MkdirAll(filepath.Join(dir, "sub"), 0o755)
	for i := 0; i < k; i++ {
		d := dir
		if i == 2 {
			d = filepath.Join(dir, "sub")
		}
		os.WriteFile(filepath.Join(d, fmt.Sprintf("ca%d.pem", i)), certPEM(i), 0o644)
	}
	os.WriteFile(filepath.Join(dir, "notes.txt"), []byte("ignored"), 0o644)
	return certEnv{dir, id, fmt.Sprintf("%x", k)}
}

// addCert installs one more certificate into an existing directory (what api.ImportCertificates does to the store).
func (c *certEnv) addCert() {
	if c.pool == "-" {
		return
	}
	k, _ := strconv.ParseInt(c.pool, 16, 64)
	os.WriteFile(filepath.Join(c.dir, fmt.Sprintf("extra%d.pem", k)), certPEM(int(k)), 0o644)
	c.pool = fmt.Sprintf("%x", k+1)
}

// makeCertEnvs: directories certs0..certs3 with 0..3 certificates and a missing directory (used by the worker).
func makeCertEnvs(base string) []certEnv {
	var out []certEnv
	for k := 0; k <= 3; k++ {
		out = append(out, newCertEnv(base, fmt.Sprintf("certs%d", k), k+1, k))
	}
	out = append(out, newCertEnv(base, "certs-missing", 9, -1))
	return out
}

// ---------------------------------------------------------------- part K

type kenv struct {
	f fontEnv
	c certEnv
}

func (e kenv) apply() string {
	font.UserFontDir = e.f.dir
	model.TrustedCertDir = e.c.dir
	return fmt.Sprintf("%s;%x;%x;%s", e.f.wire, e.c.id, model.CertificateStoreRevision(), e.c.pool)
}

func resetShared() {
	font.VerifC40ResetUserFonts()
	pdfcpu.VerifC40ResetCertPool()
	model.ConfigPath = "default" // start-up value; nothing below calls NewDefaultConfiguration while it is set
}

func errRes(err error) string {
	if err != nil {
		return "e"
	}
	return "u"
}

func poolRes() string {
	n := pdfcpu.VerifC40UserCertificatePoolSize()
	if n < 0 {
		return "p-"
	}
	return fmt.Sprintf("p%x", n)
}

func namesRes(ss []string) string {
	sort.Strings(ss)
	out := make([]string, len(ss))
	for i, s := range ss {
		out[i] = strings.TrimPrefix(s, "f")
	}
	return "n" + strings.Join(out, ".")
}

// execSec runs one critical section on the real shared state. raw: use the read-locked tails
// (hooks) for K/N instead of the public accessors (which call LoadUserFonts first).
func execSec(s string, raw bool) string {
	switch s[0] {
	case 'L':
		return errRes(font.LoadUserFonts())
	case 'R':
		return errRes(font.ReloadUserFonts())
	case 'K':
		name := "f" + s[1:]
		if raw {
			gc, ok := font.VerifC40RawLookup(name)
			if !ok {
				return "f-"
			}
			return fmt.Sprintf("f%x", gc)
		}
		ttf, ok, err := font.UserFont(name)
		if err != nil {
			return "e"
		}
		isUF, err2 := font.IsUserFont(name)
		if err2 != nil || isUF != ok {
			return "inconsistent-IsUserFont"
		}
		if !ok {
			return "f-"
		}
		return fmt.Sprintf("f%x", ttf.GlyphCount)
	case 'N':
		if raw {
			return namesRes(font.VerifC40RawNames())
		}
		ss, err := font.UserFontNames()
		if err != nil {
			return "e"
		}
		return namesRes(ss)
	case 'D':
		api.DisableConfigDir()
		return "u"
	case 'C':
		if model.ConfigPath == "disable" {
			return "c1"
		}
		return "c0"
	case 'T':
		return errRes(pdfcpu.LoadCertificates())
	case 'I':
		pdfcpu.InvalidateCertificatePool()
		return "u"
	case 'P':
		return poolRes()
	}
	panic("bad section " + s)
}

func partK(r *vh.Run, base string) {
	defer func() {
		resetShared()
		api.DisableConfigDir()
		font.UserFontDir = ""
		model.TrustedCertDir = ""
	}()
	seq := 0
	cseq := 0
	certDirID := map[string]int{"": 0}
	randCertEnv := func() certEnv {
		cseq++
		k := r.Rand.Intn(5) - 1 // -1: missing directory
		c := newCertEnv(base, fmt.Sprintf("kcerts%d", cseq), cseq, k)
		certDirID[c.dir] = c.id
		return c
	}
	// what can be observed of the shared state besides the results: the pool cache fields and the raw font table
	observe := func() string {
		loaded, dir, rev := pdfcpu.VerifC40CertPoolCache()
		l := 0
		if loaded {
			l = 1
		}
		return fmt.Sprintf("s%d.%x.%x.%s", l, certDirID[dir], rev, namesRes(font.VerifC40RawNames()))
	}
	randFontEnv := func() fontEnv {
		seq++
		k := r.Rand.Intn(10)
		kind := 0
		switch {
		case k == 0:
			kind = 1
		case k == 1:
			kind = 2
		case k == 2:
			kind = 3
		}
		tab := map[int]int{}
		for i := 1; i <= 6; i++ {
			if r.Rand.Intn(2) == 0 {
				tab[i] = 1 + r.Rand.Intn(200)
			}
		}
		return newFontEnv(base, seq, kind, tab)
	}
	randSec := func() string {
		switch r.Rand.Intn(12) {
		case 0, 1:
			return "L"
		case 2:
			return "R"
		case 3, 4:
			return fmt.Sprintf("K%x", 1+r.Rand.Intn(7))
		case 5:
			return "N"
		case 6:
			return "D"
		case 7:
			return "C"
		case 8, 9:
			return "T"
		case 10:
			return "I"
		}
		return "P"
	}
	// --- seq: arbitrary section sequences (also ill-formed ones) with environment changes between them
	nseq := r.Pick(250, 4000)
	for i := 0; i < nseq; i++ {
		resetShared()
		args := []string{"init"}
		var res []string
		e := kenv{randFontEnv(), randCertEnv()}
		nseg := 1 + r.Rand.Intn(5)
		for g := 0; g < nseg; g++ {
			if g > 0 {
				switch r.Rand.Intn(7) {
				case 0:
					e.f = randFontEnv()
					r.Count("seq:font-dir-changed")
				case 1:
					e.c = randCertEnv()
					r.Count("seq:cert-dir-changed")
				case 2:
					model.MarkCertificateStoreChanged()
					r.Count("seq:store-revision-bumped")
				case 3, 4:
					e.c.addCert()
					model.MarkCertificateStoreChanged()
					r.Count("seq:certificate-imported+revision-bumped")
				case 5:
					e.c.addCert() // files changed behind the cache's back: a stale hit is the modelled behaviour
					r.Count("seq:certificate-added-without-revision-bump")
				}
			}
			args = append(args, "env:"+e.apply())
			var secs []string
			for n := 1 + r.Rand.Intn(6); n > 0; n-- {
				s := randSec()
				secs = append(secs, s)
				res = append(res, execSec(s, true))
			}
			args = append(args, "secs:"+strings.Join(secs, ","), "obs:")
			res = append(res, observe())
		}
		r.Case("seq", args, strings.Join(res, ","))
	}
	// --- sched: schedules of well-formed operations through the public accessors
	catalogue := func() string {
		switch r.Rand.Intn(14) {
		case 0:
			return "L"
		case 1:
			return "R"
		case 2, 3, 4:
			return fmt.Sprintf("L.K%x", 1+r.Rand.Intn(7)) // IsUserFont / UserFont / CharWidth
		case 5:
			return "L.N" // UserFontNames
		case 6:
			return fmt.Sprintf("L.K%x.L.K%x", 1+r.Rand.Intn(7), 1+r.Rand.Intn(7)) // two lookups in one operation
		case 7:
			return "D"
		case 8:
			return "D.C" // DisableConfigDir; NewDefaultConfiguration
		case 9:
			return "C"
		case 10:
			return "T" // LoadCertificates
		case 11:
			return "I"
		case 12:
			return "R.N" // font install: reload, then list
		}
		return "T.P" // ValidateSignatures: LoadCertificates, then userCertificatePool
	}
	nsched := r.Pick(250, 4000)
	for i := 0; i < nsched; i++ {
		resetShared()
		api.DisableConfigDir()
		e := kenv{randFontEnv(), randCertEnv()}
		envs := e.apply()
		nth := 1 + r.Rand.Intn(5)
		type entry struct {
			op   string
			rest []string
		}
		progs := make([][]entry, nth)
		var ths []string
		total := 0
		for t := range progs {
			var ops []string
			for n := 1 + r.Rand.Intn(4); n > 0; n-- {
				o := catalogue()
				ops = append(ops, o)
				ss := strings.Split(o, ".")
				total += len(ss)
				progs[t] = append(progs[t], entry{o, ss})
			}
			ths = append(ths, strings.Join(ops, ";"))
		}
		// a random schedule: usually long enough to complete everything, sometimes truncated,
		// sometimes naming threads that do not exist
		n := total + r.Rand.Intn(total+2)
		if r.Rand.Intn(5) == 0 {
			n = r.Rand.Intn(total + 1)
		}
		var sched []string
		var evs []string
		for ; n > 0; n-- {
			t := r.Rand.Intn(nth)
			if r.Rand.Intn(40) == 0 {
				t = nth + r.Rand.Intn(2)
			}
			sched = append(sched, fmt.Sprintf("%x", t))
			if t >= nth || len(progs[t]) == 0 {
				continue
			}
			// the scheduler of Model.tstep, with the section executed by the real code
			cur := &progs[t][0]
			res := execSec(cur.rest[0], false)
			cur.rest = cur.rest[1:]
			if res == "e" || len(cur.rest) == 0 {
				evs = append(evs, fmt.Sprintf("%d:%s=%s", t, cur.op, res))
				progs[t] = progs[t][1:]
			}
		}
		r.Case("sched", []string{envs, strings.Join(ths, "/"), strings.Join(sched, ",")}, strings.Join(evs, " "))
		r.Count("sched:threads=" + strconv.Itoa(nth))
	}
	// the operations of the catalogue are well-formed in the sense of the theorem
	for _, o := range []string{"L", "R", "L.K1", "L.N", "L.K1.L.K2", "D", "D.C", "C", "T", "I", "R.N", "T.P"} {
		r.Case("wf", []string{o}, "true")
	}
	for _, o := range []string{"K1", "N", "P", "T.K1", "L.P"} {
		r.Case("wf", []string{o}, "false")
	}
}
