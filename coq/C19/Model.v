(* C19 — executable model of pdfcpu's document writer as a transformation of the object graph
   (pkg/pdfcpu/write.go, writeObjects.go, writePages.go), hand-transcribed; NO proofs here.

   A document is a finite map  object number -> (valid flag, object)  (the in-use entries of
   model.XRefTable.Table; free and missing entries are absent) plus the trailer roots.
   The writer is modelled as the traversal that decides WHICH objects are emitted and WHAT is
   emitted for each of them (object numbers are kept: pdfcpu's renumbering is the identity;
   the theorems are stated for an arbitrary injective renumbering).  The byte level (PDFString,
   parser, xref/object-stream layout, encryption) enters the theorems as Section variables.

   The key lists (which catalog / page / pages entries are followed) live in C19.Generated,
   regenerated from the Go source on every run. *)
From Coq Require Import List ZArith NArith Bool.
From PV Require Import C19.Generated.
Import ListNotations.

Definition bytes := list N.

(* types.Object.  OAtom: Boolean / Float / StringLiteral / HexLiteral (tag + canonical bytes; the
   traversal never looks inside).  OStream: dict + a token for the raw content. *)
Inductive obj :=
| ONull
| OAtom (tag : N) (v : bytes)
| OInt (z : Z)
| OName (s : bytes)
| ORef (nr : N)
| OArr (l : list obj)
| ODict (d : list (bytes * obj))
| OStream (d : list (bytes * obj)) (data : bytes).

Definition dict := list (bytes * obj).

Fixpoint beqb (a b : bytes) : bool :=
  match a, b with
  | [], [] => true
  | x :: a', y :: b' => N.eqb x y && beqb a' b'
  | _, _ => false
  end.

Fixpoint memk (k : bytes) (l : list bytes) : bool :=
  match l with [] => false | x :: r => beqb x k || memk k r end.

(* Go map lookup d[key] (Dict.Find) *)
Fixpoint dfind (k : bytes) (d : dict) : option obj :=
  match d with
  | [] => None
  | (k', v) :: r => if beqb k' k then Some v else dfind k r
  end.

(* Dict.Delete *)
Fixpoint ddel (k : bytes) (d : dict) : dict :=
  match d with
  | [] => []
  | (k', v) :: r => if beqb k' k then ddel k r else (k', v) :: ddel k r
  end.

(* Dict.Update: replace in place, or add *)
Fixpoint dset (k : bytes) (v : obj) (d : dict) : dict :=
  match d with
  | [] => [(k, v)]
  | (k', v') :: r => if beqb k' k then (k', v) :: r else (k', v') :: dset k v r
  end.

Definition kType : bytes := [84;121;112;101]%N.
Definition kPage : bytes := [80;97;103;101]%N.
Definition kPages : bytes := [80;97;103;101;115]%N.
Definition kKids : bytes := [75;105;100;115]%N.
Definition kCount : bytes := [67;111;117;110;116]%N.
Definition kParent : bytes := [80;97;114;101;110;116]%N.
Definition kVersion : bytes := [86;101;114;115;105;111;110]%N.
Definition kDest : bytes := [68;101;115;116]%N.
Definition kD : bytes := [68]%N.

(* Dict.Type() = NameEntry("Type"): only a direct name counts *)
Definition dtype (d : dict) : option bytes :=
  match dfind kType d with Some (OName s) => Some s | _ => None end.
(* Dict.IsPage *)
Definition is_page (d : dict) : bool :=
  match dtype d with Some s => beqb s kPage | None => false end.

(* the xref table: in-use entries.  FValid / FInvalid: XRefTableEntry.Valid (set by validation).
   An entry that is still an undecoded types.LazyObjectStreamObject is decoded by
   writeIndirectObject (ctx.Dereference) before it is written, so it appears here as the object
   it decodes to (never validated: FInvalid). *)
Inductive eflag := FValid | FInvalid.
Definition graph := list (N * (eflag * obj)).
Fixpoint lookup (g : graph) (n : N) : option (eflag * obj) :=
  match g with
  | [] => None
  | (m, e) :: r => if N.eqb m n then Some e else lookup r n
  end.

(* How a record was written (ghost information for the proofs; the real writer does not
   record it): generically by writeIndirectObject with the flags ctx.WritingPages / ctx.Dest
   as they were when the object was reached, as the catalog, as a page tree node, as a page. *)
Inductive mode := MGen (wp dest : bool) | MRoot | MPages | MPage.

(* emitted records, most recent first: ctx.Write.Table (which numbers have a write offset)
   together with what was printed for the number *)
Definition rcd := (N * (mode * obj))%type.
Definition st := list rcd.
Fixpoint written (s : st) (n : N) : bool :=          (* ctx.Write.HasWriteOffset *)
  match s with [] => false | (m, _) :: r => N.eqb m n || written r n end.

(* WFail: the real writer returns an error.  WFuel: the model ran out of fuel. *)
Inductive wres := WOk (s : st) | WFail | WFuel.

Definition is_dest_key (k : bytes) : bool := beqb k kDest || beqb k kD.

(* run f over the elements, threading the state *)
Section Seq.
  Context {A : Type}.
  Variable f : A -> st -> wres.
  Fixpoint seqm (l : list A) (s : st) : wres :=
    match l with
    | [] => WOk s
    | x :: r => match f x s with WOk s' => seqm r s' | e => e end
    end.
End Seq.

Section Deep.
  (* writeIndirectObject, at some fuel *)
  Variable visit : bool -> bool -> N -> st -> wres.

  (* writeDeepObject on a direct object = writeDirectObject; on a reference = writeIndirectObject.
     wp = ctx.WritingPages, dest = ctx.Dest.  Dict: the value of key Dest/D is walked with
     ctx.Dest = true while pages are written, every other value with ctx.Dest = false (see the
     note on the leak of the flag in props/C19.json); Array: element 0 is skipped when ctx.Dest. *)
  Fixpoint deep (wp dest : bool) (o : obj) (s : st) {struct o} : wres :=
    match o with
    | ORef n => visit wp dest n s
    | OArr l =>
        match l with
        | [] => WOk s
        | _ :: r => if dest then seqm (deep wp dest) r s else seqm (deep wp dest) l s
        end
    | ODict d => seqm (fun kv => deep wp (wp && is_dest_key (fst kv)) (snd kv)) d s
    | _ => WOk s
    end.

  (* the loops over the values of an indirect dict (writeDeepDict), array (writeDeepArray),
     stream dict (writeDeepStreamDict: ctx.Dest is left as it is) *)
  Definition deep_values (wp dest : bool) (o : obj) (s : st) : wres :=
    match o with
    | ODict d => deep wp dest (ODict d) s
    | OArr l => deep wp dest (OArr l) s
    | OStream d _ => seqm (fun kv => deep wp dest (snd kv)) d s
    | _ => WOk s
    end.
End Deep.

Section Graph.
  Variable g : graph.

  (* writeIndirectObject + writeObjectGeneric.
     - already has a write offset: nothing;
     - missing / free entry or a nil object: "null" is written under the number;
     - a page dict whose entry is not marked Valid: nothing is written (writeDeepDict);
     - entry.Object is itself an IndirectRef: error. *)
  Fixpoint visit (fuel : nat) (wp dest : bool) (n : N) (s : st) : wres :=
    if written s n then WOk s else
    match fuel with
    | O => WFuel
    | S f =>
      match lookup g n with
      | None => WOk ((n, (MGen wp dest, ONull)) :: s)
      | Some (fl, o) =>
        match o with
        | ORef _ => WFail
        | ODict d =>
            if is_page d && match fl with FValid => false | _ => true end then WOk s
            else deep_values (visit f) wp dest o ((n, (MGen wp dest, o)) :: s)
        | _ => deep_values (visit f) wp dest o ((n, (MGen wp dest, o)) :: s)
        end
      end
    end.

  (* writeEntry for each key of a list, in order: d.Find(key), then writeDeepObject *)
  Definition entries (fuel : nat) (wp : bool) (d : dict) (keys : list bytes) (s : st) : wres :=
    seqm (fun k s => match dfind k d with
                     | Some ONull | None => WOk s
                     | Some o => deep (visit fuel) wp false o s
                     end) keys s.

  (* writePageDict *)
  Definition page_dict (fuel : nat) (n : N) (d : dict) (s : st) : wres :=
    if written s n then WOk s else
    match dfind kParent d with
    | Some (ORef _) => entries fuel true d page_keys ((n, (MPage, ODict d)) :: s)
    | _ => WFail
    end.

  (* writeKids + writePagesDictDepth.  depth is counted down from MaxRecursionDepth+1;
     seen = PageTreeVisit.seen (ancestors is a subset of seen, so one test covers both errors).
     Result: new state, seen, and the rewritten Count (and Kids, for writeKids). *)
  Inductive pres := POk (s : st) (seen : list N) (count : Z) | PFail | PFuel.
  Inductive kres := KOk (s : st) (seen : list N) (kids : list obj) (count : Z) | KFail | KFuel.

  Definition memn (n : N) (l : list N) : bool := existsb (N.eqb n) l.

  Section Kids.
    Variable node : N -> st -> list N -> pres.      (* writePagesDictDepth one level down *)
    Variable fuel : nat.
    (* writeKids: acc = kids kept so far, reversed *)
    Fixpoint wkids (a : list obj) (s : st) (seen : list N) (acc : list obj) (cnt : Z) {struct a} : kres :=
      match a with
      | [] => KOk s seen (rev acc) cnt
      | o :: r =>
        match o with
        | ONull => wkids r s seen acc cnt                         (* o == nil: continue *)
        | ORef k =>
          match lookup g k with
          | Some (_, ODict kd) =>
            match dtype kd with
            | Some t =>
              if beqb t kPages then
                match node k s seen with
                | POk s' seen' c => wkids r s' seen' (o :: acc) (cnt + c)%Z
                | PFail => KFail
                | PFuel => KFuel
                end
              else if beqb t kPage then
                match page_dict fuel k kd s with
                | WOk s' => wkids r s' seen (o :: acc) (cnt + 1)%Z
                | WFail => KFail
                | WFuel => KFuel
                end
              else KFail                                          (* unexpected dict type *)
            | None => KFail                                       (* missing page node dict type *)
            end
          | _ => KFail                                            (* page node dict is null / not a dict *)
          end
        | _ => KFail                                              (* missing indirect reference *)
        end
      end.
  End Kids.

  (* d.ArrayEntry("Kids"): only a direct array counts *)
  Definition kids_of (d : dict) : list obj :=
    match dfind kKids d with Some (OArr a) => a | _ => [] end.

  Fixpoint pages_node (depth : nat) (fuel : nat) (n : N) (s : st) (seen : list N) : pres :=
    match depth with
    | O => PFail                                   (* CheckRecursionDepth *)
    | S dp =>
      if memn n seen then PFail else               (* visit.Enter *)
      match lookup g n with
      | Some (_, ODict d) =>
        match wkids (pages_node dp fuel) fuel (kids_of d) s (n :: seen) [] 0%Z with
        | KOk s1 seen1 kidsNew cnt =>
            let d' := dset kCount (OInt cnt) (dset kKids (OArr kidsNew) d) in
            match entries fuel false d' pages_keys ((n, (MPages, ODict d')) :: s1) with
            | WOk s2 => POk s2 seen1 cnt
            | WFail => PFail
            | WFuel => PFuel
            end
        | KFail => PFail
        | KFuel => PFuel
        end
      | _ => PFail
      end
    end.

  (* writeRootObject: the catalog (minus /Version when ctx.RootVersion != nil), then /Version,
     the page tree, and the listed entries; then writeDocumentInfoDict; ctx.AdditionalStreams
     and the encryption dict are outside the model. *)
  Definition write_root (maxd fuel : nat) (delv : bool) (root : N) : wres :=
    match lookup g root with
    | Some (_, ODict d0) =>
      let d := if delv then ddel kVersion d0 else d0 in
      let s0 := [(root, (MRoot, ODict d))] in
      match entries fuel false d root_keys_pre s0 with
      | WOk s1 =>
        match dfind kPages d with
        | Some (ORef p) =>
          match pages_node maxd fuel p s1 [] with
          | POk s2 _ _ => entries fuel false d root_keys_post s2
          | PFail => WFail
          | PFuel => WFuel
          end
        | _ => WFail
        end
      | e => e
      end
    | _ => WFail
    end.

  (* writeDocumentInfoDict: DereferenceDict (which decodes a lazy entry), then writeDeepObject *)
  Definition write_info (fuel : nat) (info : option N) (s : st) : wres :=
    match info with
    | None => WOk s
    | Some i =>
      match lookup g i with
      | Some (fl, ODict d) =>
          if written s i then WOk s
          else if is_page d && match fl with FValid => false | _ => true end then WOk s
          else deep_values (visit fuel) false false (ODict d) ((i, (MGen false false, ODict d)) :: s)
      | Some (_, ONull) | None => WOk s          (* DereferenceDict gives nil: return *)
      | _ => WFail
      end
    end.

  Definition write_model (maxd fuel : nat) (delv : bool) (root : N) (info : option N) : wres :=
    match write_root maxd fuel delv root with
    | WOk s => write_info fuel info s
    | e => e
    end.
End Graph.

(* ---------- what a reader sees ---------- *)

(* the re-read table: the most recent record of every number *)
Fixpoint rfind (s : st) (n : N) : option obj :=
  match s with
  | [] => None
  | (m, (_, o)) :: r => if N.eqb m n then Some o else rfind r n
  end.

(* all references of an object *)
Fixpoint refs (o : obj) : list N :=
  match o with
  | ORef n => [n]
  | OArr l => flat_map refs l
  | ODict d => flat_map (fun kv => refs (snd kv)) d
  | OStream d _ => flat_map (fun kv => refs (snd kv)) d
  | _ => []
  end.

(* the references writeDeepObject follows (deep, deep_values) *)
Fixpoint wrefs (wp dest : bool) (o : obj) : list N :=
  match o with
  | ORef n => [n]
  | OArr l =>
      match l with
      | [] => []
      | _ :: r => if dest then flat_map (wrefs wp dest) r else flat_map (wrefs wp dest) l
      end
  | ODict d => flat_map (fun kv => wrefs wp (wp && is_dest_key (fst kv)) (snd kv)) d
  | _ => []
  end.
Definition wrefs_values (wp dest : bool) (o : obj) : list N :=
  match o with
  | OStream d _ => flat_map (fun kv => wrefs wp dest (snd kv)) d
  | OArr _ | ODict _ => wrefs wp dest o
  | _ => []
  end.
Definition wrefs_entries (wp : bool) (d : dict) (keys : list bytes) : list N :=
  flat_map (fun k => match dfind k d with Some o => wrefs wp false o | None => [] end) keys.
Definition kids_refs (d : dict) : list N :=
  match dfind kKids d with Some (OArr a) => flat_map refs a | _ => [] end.
Definition pages_ref (d : dict) : list N :=
  match dfind kPages d with Some (ORef p) => [p] | _ => [] end.

(* the references the writer followed when it emitted a record *)
Definition followed (r : mode * obj) : list N :=
  match r with
  | (MGen wp dest, o) => wrefs_values wp dest o
  | (MRoot, ODict d) => wrefs_entries false d root_keys_pre ++ pages_ref d ++ wrefs_entries false d root_keys_post
  | (MPages, ODict d) => kids_refs d ++ wrefs_entries false d pages_keys
  | (MPage, ODict d) => wrefs_entries true d page_keys
  | _ => []
  end.

Definition memN (n : N) (l : list N) : bool := existsb (N.eqb n) l.

(* references of emitted objects that no emitted object answers *)
Definition dangling (s : st) : list N :=
  filter (fun m => negb (written s m)) (flat_map (fun r => refs (snd (snd r))) s).

(* one-step unfolding of the re-read graph and depth-bounded unfolding (the reader's view,
   independent of object numbers): a reference is replaced by what it denotes. *)
Section Unfold.
  Variable tbl : N -> option obj.
  Definition deref1 (n : N) : obj := match tbl n with Some o => o | None => ONull end.
  Fixpoint unfold (depth : nat) (o : obj) {struct depth} : obj :=
    match depth with
    | O => ONull
    | S dp =>
      match o with
      | ORef n => unfold dp (deref1 n)
      | OArr l => OArr (map (unfold dp) l)
      | ODict d => ODict (map (fun kv => (fst kv, unfold dp (snd kv))) d)
      | OStream d x => OStream (map (fun kv => (fst kv, unfold dp (snd kv))) d) x
      | _ => o
      end
    end.
End Unfold.

(* renumbering *)
Section Rename.
  Variable phi : N -> N.
  Fixpoint rename (o : obj) : obj :=
    match o with
    | ORef n => ORef (phi n)
    | OArr l => OArr (map rename l)
    | ODict d => ODict (map (fun kv => (fst kv, rename (snd kv))) d)
    | OStream d x => OStream (map (fun kv => (fst kv, rename (snd kv))) d) x
    | _ => o
    end.
End Rename.

(* ---------- the page list of an unfolded catalog (ISO 32000 7.7.3.4 inheritance) ---------- *)
Definition kResources : bytes := [82;101;115;111;117;114;99;101;115]%N.
Definition kMediaBox : bytes := [77;101;100;105;97;66;111;120]%N.
Definition kCropBox : bytes := [67;114;111;112;66;111;120]%N.
Definition kRotate : bytes := [82;111;116;97;116;101]%N.
Definition kContents : bytes := [67;111;110;116;101;110;116;115]%N.

Definition inh := (option obj * option obj * option obj * option obj)%type. (* Resources MediaBox CropBox Rotate *)
Definition orelse (a b : option obj) : option obj := match a with Some _ => a | None => b end.
Definition inherit (d : dict) (i : inh) : inh :=
  match i with (r, m, c, t) =>
    (orelse (dfind kResources d) r, orelse (dfind kMediaBox d) m,
     orelse (dfind kCropBox d) c, orelse (dfind kRotate d) t) end.

(* a page as the reader sees it: effective inheritable attributes + the page dict itself *)
Definition pageview := (inh * dict)%type.

(* o is an unfolded page tree node (no references) *)
Fixpoint flatten (depth : nat) (i : inh) (o : obj) : list pageview :=
  match depth with
  | O => []
  | S dp =>
    match o with
    | ODict d =>
      match dtype d with
      | Some t =>
        if beqb t kPage then [(inherit d i, ddel kParent d)]
        else match dfind kKids d with
             | Some (OArr a) => flat_map (flatten dp (inherit d i)) a
             | _ => []
             end
      | None => []
      end
    | _ => []
    end
  end.

Definition doc_pages (depth : nat) (catalog : obj) : list pageview :=
  match catalog with
  | ODict d => match dfind kPages d with
               | Some p => flatten depth (None, None, None, None) p
               | None => []
               end
  | _ => []
  end.

(* ---------- entry points for the harness ---------- *)
Fixpoint all_refs (g : graph) : list N :=
  match g with [] => [] | (n, (_, o)) :: r => n :: refs o ++ all_refs r end.
Definition fuel_for (g : graph) : nat := S (length (all_refs g)).

Definition run_write (g : graph) (maxd : nat) (delv : bool) (root : N) (info : option N)
  : wres :=
  write_model g maxd (fuel_for g) delv root info.

Definition run_dangling (g : graph) (maxd : nat) (delv : bool) (root : N) (info : option N) : list N :=
  match write_model g maxd (fuel_for g) delv root info with
  | WOk s => dangling s
  | _ => []
  end.
