(* Go fixed-width integer arithmetic over Z with explicit wrap-around.
   Used by every file that go2gallina generates.  No proofs here. *)
From Coq Require Export ZArith Bool List.
Export ListNotations.
Open Scope Z_scope.

(* result of a Go function returning (T, error) *)
Inductive res (A : Type) := Ok (a : A) | Err.
Arguments Ok {A}. Arguments Err {A}.

(* two's complement wrap to w bits, signed *)
Definition wrapS (w z : Z) : Z := (z + 2 ^ (w - 1)) mod 2 ^ w - 2 ^ (w - 1).
(* unsigned wrap *)
Definition wrapU (w z : Z) : Z := z mod 2 ^ w.

Definition maxS (w : Z) : Z := 2 ^ (w - 1) - 1.
Definition minS (w : Z) : Z := - 2 ^ (w - 1).
Definition maxU (w : Z) : Z := 2 ^ w - 1.

Definition inS (w z : Z) : Prop := minS w <= z <= maxS w.
Definition inU (w z : Z) : Prop := 0 <= z <= maxU w.
Definition inSb (w z : Z) : bool := (minS w <=? z) && (z <=? maxS w).

(* signed ops *)
Definition saddw (w a b : Z) := wrapS w (a + b).
Definition ssubw (w a b : Z) := wrapS w (a - b).
Definition smulw (w a b : Z) := wrapS w (a * b).
Definition squow (w a b : Z) := wrapS w (Z.quot a b).   (* Go: truncated; b = 0 panics in Go, is 0 here *)
Definition sremw (w a b : Z) := wrapS w (Z.rem a b).
Definition snegw (w a : Z) := wrapS w (- a).
Definition sandw (w a b : Z) := wrapS w (Z.land a b).
Definition sorw  (w a b : Z) := wrapS w (Z.lor a b).
Definition sxorw (w a b : Z) := wrapS w (Z.lxor a b).
Definition sshlw (w a b : Z) := wrapS w (Z.shiftl a b).
Definition sshrw (w a b : Z) := wrapS w (Z.shiftr a b).
(* unsigned ops *)
Definition uaddw (w a b : Z) := wrapU w (a + b).
Definition usubw (w a b : Z) := wrapU w (a - b).
Definition umulw (w a b : Z) := wrapU w (a * b).
Definition uquow (w a b : Z) := wrapU w (Z.quot a b).
Definition uremw (w a b : Z) := wrapU w (Z.rem a b).
Definition unegw (w a : Z) := wrapU w (- a).
Definition uandw (w a b : Z) := wrapU w (Z.land a b).
Definition uorw  (w a b : Z) := wrapU w (Z.lor a b).
Definition uxorw (w a b : Z) := wrapU w (Z.lxor a b).
Definition ushlw (w a b : Z) := wrapU w (Z.shiftl a b).
Definition ushrw (w a b : Z) := wrapU w (Z.shiftr a b).
