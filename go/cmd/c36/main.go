package main

import (
	"bytes"
	"encoding/json"
	"fmt"
	"strings"

	"github.com/pdfcpu/pdfcpu/pkg/api"
	"github.com/pdfcpu/pdfcpu/pkg/pdfcpu"
	"github.com/pdfcpu/pdfcpu/pkg/pdfcpu/color"
)

func makePDF(k int) []byte {
	var b bytes.Buffer
	offs := []int{}
	obj := func(s string) {
		offs = append(offs, b.Len())
		fmt.Fprintf(&b, "%d 0 obj\n%s\nendobj\n", len(offs), s)
	}
	b.WriteString("%PDF-1.4\n")
	obj("<< /Type /Catalog /Pages 2 0 R >>")
	kids := make([]string, k)
	for i := 0; i < k; i++ {
		kids[i] = fmt.Sprintf("%d 0 R", 3+2*i)
	}
	obj(fmt.Sprintf("<< /Type /Pages /Kids [%s] /Count %d >>", strings.Join(kids, " "), k))
	for i := 0; i < k; i++ {
		obj(fmt.Sprintf("<< /Type /Page /Parent 2 0 R /MediaBox [0 0 %d 300] /Resources << >> /Contents %d 0 R >>", 200+i%5, 4+2*i))
		content := fmt.Sprintf("0 0 m %d 100 l S", 10+i)
		obj(fmt.Sprintf("<< /Length %d >>\nstream\n%s\nendstream", len(content), content))
	}
	x := b.Len()
	fmt.Fprintf(&b, "xref\n0 %d\n0000000000 65535 f \n", len(offs)+1)
	for _, o := range offs {
		fmt.Fprintf(&b, "%010d 00000 n \n", o)
	}
	fmt.Fprintf(&b, "trailer\n<< /Size %d /Root 1 0 R >>\nstartxref\n%d\n%%%%EOF\n", len(offs)+1, x)
	return b.Bytes()
}

func rt(bms []pdfcpu.Bookmark, pages int) {
	tree := pdfcpu.BookmarkTree{Bookmarks: bms}
	js, _ := json.Marshal(tree)
	var out bytes.Buffer
	err := api.ImportBookmarks(bytes.NewReader(makePDF(pages)), bytes.NewReader(js), &out, true, nil)
	if err != nil {
		fmt.Println("import err:", err)
		return
	}
	var ex bytes.Buffer
	err = api.ExportBookmarksJSON(bytes.NewReader(out.Bytes()), &ex, "x.pdf", nil)
	if err != nil {
		fmt.Println("export err:", err)
		return
	}
	var t2 pdfcpu.BookmarkTree
	json.Unmarshal(ex.Bytes(), &t2)
	j2, _ := json.Marshal(t2.Bookmarks)
	j1, _ := json.Marshal(bms)
	fmt.Println("IN ", string(j1))
	fmt.Println("OUT", string(j2))
}

func main() {
	api.DisableConfigDir()
	c := color.SimpleColor{R: 0.3, G: 0.5, B: 1}
	rt([]pdfcpu.Bookmark{{Title: "A", PageFrom: 1}, {Title: "A", PageFrom: 2}, {Title: "B", PageFrom: 3}, {Title: "0", PageFrom: 4}, {Title: "A", PageFrom: 5}}, 6)
	rt([]pdfcpu.Bookmark{{Title: "Ünï ♥ 😀 (x) \\ y", PageFrom: 1, Bold: true, Color: &c, Kids: []pdfcpu.Bookmark{{Title: "k", PageFrom: 1, Italic: true}, {Title: "k", PageFrom: 3}}}, {Title: "z", PageFrom: 2}}, 6)
	rt([]pdfcpu.Bookmark{{Title: "a\x01b", PageFrom: 1}, {Title: "\x02", PageFrom: 2}, {Title: "", PageFrom: 2}, {Title: "q", PageFrom: 7}}, 6)
	rt([]pdfcpu.Bookmark{{Title: "q", PageFrom: 0}}, 6)
	rt([]pdfcpu.Bookmark{{Title: "q", PageFrom: 2, Kids: []pdfcpu.Bookmark{{Title: "k", PageFrom: 1}}}}, 6)
}
