(* C01 — the row type of the generated table of file-writing functions (coq/C01/Generated.v is
   written by go/cmd/genc01 from pkg/api/*.go, pkg/pdfcpu/write.go, pkg/pdfcpu/io.go on every run). *)
From Coq Require Import String List.

(* how a function produces its output file(s) *)
Inductive helper :=
| HStaged      (* api.stagedOutput: openStagedOutput + staged.cleanup / staged.commit (pkg/api/file.go) *)
| HPdfStaged   (* pdfcpu.createStagedFile + finishStagedFile (pkg/pdfcpu/io.go) *)
| HCut         (* api.writeCutOutputWith (pkg/api/cut.go) *)
| HNewFile     (* pdfcpu.writeNewFile: O_EXCL create, remove on error *)
| HMultiRollback (* a multi-output transaction (form multi-fill): every part is written through HStaged, the
                    parts written so far are recorded, and in merge mode a rollback registered before the
                    first part removes all of them on every exit *)
| HMultiReserve (* attachment extraction: a hidden reservation marker is created per output first; the
                   reservations made so far are released on every failure path and after the writes *)
| HStagingCtor (* pdfcpu.createStagedFile: creates the staging file (no commit decision of its own) *)
| HMulti       (* several outputs, each written through one of the helpers above; earlier outputs stay *)
| HReadOnly    (* creates no file *)
| HInPlace.    (* overwrites bytes of an existing file in place (PatchFile) *)

(* what the commit/cleanup decision after the body is keyed on *)
Inductive dkey :=
| DFlag        (* deferred, reads a completion flag assigned after the last fallible step *)
| DErr         (* deferred, reads the named error result *)
| DShadowedErr (* deferred, reads a local `err` that shadows the named result and is nil whenever the
                  defer was registered: the commit branch is taken however the body ended *)
| DRollbackFirst (* multi-output transaction: the deferred rollback is registered before the record loop and
                    is unconditional; every part is recorded before the loop returns its error *)
| DReleaseAlways (* reservations: every error return of the reserving function hands the list reserved so far
                    to the caller, which releases it; the release after the writes is deferred and unconditional *)
| DRemovesStaging (* createStagedFile: every error return after the staging file exists closes it and removes
                     f.Name() (the staging file), never the destination *)
| DNoDefer     (* not deferred: runs only when the body returns *)
| DNA.         (* no decision (read-only / multi-output driver) *)

Record frow := FRow { f_pkg : string; f_name : string; f_helper : helper; f_key : dkey; f_via : string }.

Definition helper_eqb (a b : helper) : bool :=
  match a, b with
  | HStaged, HStaged | HPdfStaged, HPdfStaged | HCut, HCut | HNewFile, HNewFile
  | HMulti, HMulti | HMultiRollback, HMultiRollback | HMultiReserve, HMultiReserve | HStagingCtor, HStagingCtor | HReadOnly, HReadOnly | HInPlace, HInPlace => true
  | _, _ => false
  end.
Definition dkey_eqb (a b : dkey) : bool :=
  match a, b with
  | DFlag, DFlag | DErr, DErr | DShadowedErr, DShadowedErr | DNoDefer, DNoDefer | DRollbackFirst, DRollbackFirst | DReleaseAlways, DReleaseAlways | DRemovesStaging, DRemovesStaging | DNA, DNA => true
  | _, _ => false
  end.
