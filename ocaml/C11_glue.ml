(* C11 glue: object trees and parse results travel as a small ASCII term language
     n | t | f | i<hexint>; | r<0|1><hexN>;   (real, mantissa at 10^-12; tree input only)
     R<text>;                                  (real, "%.12f" rendering; canonical output only)
     N<hexbytes>; | S<hexbytes>; | H<hexbytes>; | p<hexint>,<hexint>; | [ obj* ] | { (K<hexbytes>; obj)* }
   Dict entries of a canonical output are sorted by key bytes (the Go side sorts its map keys). *)
open Model
open Common

let str_of_bytes (l : n list) : string =
  let b = Buffer.create 16 in List.iter (fun c -> Buffer.add_char b (Char.chr (int_of_n c land 255))) l; Buffer.contents b

(* ---- decoding a tree *)
let rec dec (s : string) (i : int ref) : obj =
  let until ch = let j = String.index_from s !i ch in let r = String.sub s !i (j - !i) in i := j + 1; r in
  let c = s.[!i] in incr i;
  match c with
  | 'n' -> ONull
  | 't' -> OBool true
  | 'f' -> OBool false
  | 'i' -> OInt (z_of_hex (until ';'))
  | 'r' -> let neg = s.[!i] = '1' in incr i; let m = n_of_hex (until ';') in OReal (neg, m, z_of_int (-12))
  | 'N' -> OName (bytes_of_hex (until ';'))
  | 'S' -> OStr (bytes_of_hex (until ';'))
  | 'H' -> OHex (bytes_of_hex (until ';'))
  | 'p' -> let a = z_of_hex (until ',') in let b = z_of_hex (until ';') in ORef (a, b)
  | '[' -> let acc = ref [] in
           while s.[!i] <> ']' do acc := dec s i :: !acc done; incr i; OArr (List.rev !acc)
  | '{' -> let acc = ref [] in
           while s.[!i] <> '}' do
             if s.[!i] <> 'K' then failwith "dict key expected"; incr i;
             let k = bytes_of_hex (until ';') in
             let v = dec s i in acc := (k, v) :: !acc done; incr i; ODict (List.rev !acc)
  | _ -> failwith "bad tree"

let tree s = let i = ref 0 in let o = dec s i in if !i <> String.length s then failwith "trailing tree text"; o

(* ---- canonical output *)
let real_text neg m e =
  let ms = str_of_bytes (utoa m) in
  let f = float_of_string ((if neg then "-" else "") ^ ms ^ "e" ^ string_of_int (int_of_z e)) in
  Printf.sprintf "%.12f" f

let rec canon (b : Buffer.t) (o : obj) : unit =
  match o with
  | ONull -> Buffer.add_char b 'n'
  | OBool true -> Buffer.add_char b 't'
  | OBool false -> Buffer.add_char b 'f'
  | OInt z -> Buffer.add_string b ("i" ^ hex_of_z z ^ ";")
  | OReal (neg, m, e) -> Buffer.add_string b ("R" ^ real_text neg m e ^ ";")
  | OName s -> Buffer.add_string b ("N" ^ hex_of_bytes s ^ ";")
  | OStr s -> Buffer.add_string b ("S" ^ hex_of_bytes s ^ ";")
  | OHex s -> Buffer.add_string b ("H" ^ hex_of_bytes s ^ ";")
  | ORef (x, y) -> Buffer.add_string b ("p" ^ hex_of_z x ^ "," ^ hex_of_z y ^ ";")
  | OArr l -> Buffer.add_char b '['; List.iter (canon b) l; Buffer.add_char b ']'
  | ODict d ->
    let d' = List.map (fun (k, v) -> (str_of_bytes k, k, v)) d in
    let d' = List.stable_sort (fun (a, _, _) (c, _, _) -> compare a c) d' in
    Buffer.add_char b '{';
    List.iter (fun (_, k, v) -> Buffer.add_string b ("K" ^ hex_of_bytes k ^ ";"); canon b v) d';
    Buffer.add_char b '}'

let canon_s o = let b = Buffer.create 64 in canon b o; Buffer.contents b

let pres_s (r : pres) : string = match r with
  | POk (o, rest) -> "ok:" ^ canon_s o ^ "|" ^ hex_of_bytes rest
  | PErr EDepth -> "errdepth"
  | PErr EOther -> "err"
  | POOF -> "OUT-OF-FUEL"

let dispatch fn args = match fn, args with
  | "print", [t] -> hex_of_bytes (print_S (tree t))
  | "printA", [t] -> hex_of_bytes (print_A (tree t))
  | "parse", [h; maxd; level] -> pres_s (parse_top (z_of_hex maxd) (z_of_hex level) (bytes_of_hex h))
  | "escape", [h] -> hex_of_bytes (escape (bytes_of_hex h))
  | "expect", [t] ->
    (* what the theorem promises for this tree: wf + depth <= 100 -> norm and residue *)
    let o = tree t in
    if wf o && int_of_z (depth o) <= 100 then "wf:" ^ canon_s (norm o) ^ "|" ^ hex_of_bytes (residue o) else "nowf"
  | _ -> failwith ("unknown function " ^ fn)
let () = main dispatch
