package main

import (
	"fmt"
	"math/rand"
	"os"
	"path/filepath"
	"sort"

	"github.com/pdfcpu/pdfcpu/pkg/api"
	"verif/cmd/c33/pgdoc"
)

func main() {
	api.DisableConfigDir()
	dir := "/tmp/c33-scratch/probe"
	os.RemoveAll(dir)
	os.MkdirAll(dir, 0o755)
	r := rand.New(rand.NewSource(1))
	for it := 0; it < 6; it++ {
		t := pgdoc.Gen(r, 5, pgdoc.GenOpt{MaxDepth: 2, NodeRot: true, NodeMedia: true, NodeCrop: it%2 == 0, NegRot: true, PageBoxes: true, RootAttrs: true})
		in := filepath.Join(dir, "in.pdf")
		pgdoc.WritePDF(t, in)
		fmt.Println("TREE", t.Encode())
		ps, err := pgdoc.ReadPages(in)
		fmt.Println("READ", err, pgdoc.Canon(ps, false))
		fmt.Println("WANT", pgdoc.Canon(pgdoc.Flatten(t), false))
		out := filepath.Join(dir, "out")
		os.RemoveAll(out)
		os.MkdirAll(out, 0o755)
		err = api.SplitFile(in, out, 2, nil)
		fmt.Println("SPLIT", err)
		fs, _ := filepath.Glob(out + "/*.pdf")
		sort.Strings(fs)
		for _, f := range fs {
			ps, err := pgdoc.ReadPages(f)
			fmt.Println("  ", filepath.Base(f), err, pgdoc.Canon(ps, false))
		}
		t2 := pgdoc.Gen(r, 3, pgdoc.GenOpt{MaxDepth: 1, NodeRot: true, NodeMedia: true, NodeCrop: true, FirstID: 100, RootAttrs: true})
		in2 := filepath.Join(dir, "in2.pdf")
		pgdoc.WritePDF(t2, in2)
		fmt.Println("TREE2", t2.Encode())
		fmt.Println("WANT2", pgdoc.Canon(pgdoc.Flatten(t2), false))
		mo := filepath.Join(dir, "m.pdf")
		err = api.MergeCreateFile([]string{in, in2}, mo, true, nil)
		ps, e2 := pgdoc.ReadPages(mo)
		fmt.Println("MERGE", err, e2, pgdoc.Canon(ps, false))
		err = api.MergeCreateZipFile(in, in2, mo, nil)
		ps, e2 = pgdoc.ReadPages(mo)
		fmt.Println("ZIP", err, e2, pgdoc.Canon(ps, false))
		err = api.MergeCreateZipFile(in2, in, mo, nil)
		ps, e2 = pgdoc.ReadPages(mo)
		fmt.Println("ZIP2", err, e2, pgdoc.Canon(ps, false))
	}
}
