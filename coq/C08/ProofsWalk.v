(* C08 — proofs about the page tree walk (Model.walk / page_number). *)
From Coq Require Import NArith ZArith List Bool Lia ZifyBool ZifyNat ZifyN.
From PV Require Import C08.Model.
Import ListNotations.
Open Scope N_scope.

(* ------------------------------------------------------------------ basics *)

Lemma mem_In : forall n l, mem n l = true <-> In n l.
Proof.
  intros n l. unfold mem. rewrite existsb_exists. split.
  - intros [x [Hin Heq]]. apply N.eqb_eq in Heq. subst. exact Hin.
  - intros Hin. exists n. split; [exact Hin | apply N.eqb_refl].
Qed.

Lemma mem_false : forall n l, mem n l = false <-> ~ In n l.
Proof.
  intros n l. rewrite <- mem_In. destruct (mem n l); split; intro H; congruence.
Qed.

Lemma filter_notin : forall n l, ~ In n l -> filter (fun x => negb (x =? n)) l = l.
Proof.
  intros n l. induction l as [|a l IH]; intros Hn; simpl; [reflexivity|].
  destruct (N.eqb_spec a n) as [E|E].
  - exfalso. apply Hn. left. exact E.
  - simpl. f_equal. apply IH. intro Hi. apply Hn. right. exact Hi.
Qed.

(* `defer visit.Leave(objNr)` undoes exactly what Enter did to the ancestors map:
   this is why Model.walk may thread [anc] functionally. *)
Lemma leave_enter : forall n anc seen anc1 seen1,
  enter n anc seen = inr (anc1, seen1) -> leave n anc1 = anc.
Proof.
  intros n anc seen anc1 seen1. unfold enter, leave.
  destruct (N.eqb_spec n 0) as [E|E].
  - intros H. inversion H. reflexivity.
  - destruct (mem n anc) eqn:Ha; [discriminate|].
    destruct (mem n seen) eqn:Hs; [discriminate|].
    intros H. inversion H. subst. simpl. rewrite N.eqb_refl. simpl.
    apply filter_notin. apply mem_false. exact Ha.
Qed.

(* ancestors is always a subset of seen *)
Lemma enter_incl : forall n anc seen anc1 seen1,
  incl anc seen -> enter n anc seen = inr (anc1, seen1) -> incl anc1 seen1.
Proof.
  intros n anc seen anc1 seen1 Hi. unfold enter.
  destruct (n =? 0); [intros H; inversion H; subst; exact Hi|].
  destruct (mem n anc); [discriminate|]. destruct (mem n seen); [discriminate|].
  intros H. inversion H. subst. intros x [Hx|Hx]; [left; exact Hx | right; apply Hi; exact Hx].
Qed.

(* ------------------------------------------------------------------ termination: the visit sets *)

Definition keys (g : graph) : list N := map fst g.

Lemma lookup_keys : forall g n v, lookup g n = Some v -> In n (keys g).
Proof.
  induction g as [|[k v0] g IH]; intros n v; simpl; [discriminate|].
  destruct (N.eqb_spec k n) as [E|E]; intros H.
  - left. exact E.
  - right. eapply IH. exact H.
Qed.

Lemma kids_loop_no_oof : forall rec g target ks seen count,
  (forall k s c, rec k s c <> WOOF) -> kids_loop rec g target ks seen count <> WOOF.
Proof.
  intros rec g target ks. induction ks as [|k ks IH]; intros seen count Hrec; simpl; [discriminate|].
  destruct k as [|n|]; [apply IH; exact Hrec | | discriminate].
  destruct (lookup g n) as [[|[| | |] kk]|]; try discriminate.
  - destruct (rec n seen count) as [s' c'| | |] eqn:E; try discriminate.
    + apply IH. exact Hrec.
    + exfalso. eapply Hrec. exact E.
  - destruct (Z.of_N n =? target)%Z; [discriminate | apply IH; exact Hrec].
  - apply IH. exact Hrec.
Qed.

(* With the ancestors duplicate-free and inside the table's keys, length anc + fuel > |keys| is enough:
   no use is made of the depth limit. Needs object 0 not to be a dict with kids (Enter ignores 0). *)
Lemma walk_no_oof_gen : forall fuel g maxd target depth root anc seen count,
  lookup g 0 = None -> NoDup anc -> incl anc (keys g) ->
  (length (keys g) < length anc + fuel)%nat ->
  walk fuel g maxd target depth root anc seen count <> WOOF.
Proof.
  induction fuel as [|f IH]; intros g maxd target depth root anc seen count H0 Hnd Hincl Hlen.
  - exfalso. pose proof (NoDup_incl_length Hnd Hincl). lia.
  - simpl. destruct (depth_exceeded maxd depth); [discriminate|].
    destruct (lookup g root) as [[|ty ks]|] eqn:El; [discriminate| |].
    + unfold enter. destruct (N.eqb_spec root 0) as [E0|E0]; [subst; congruence|].
      destruct (mem root anc) eqn:Ha; [discriminate|].
      destruct (mem root seen) eqn:Hs; [discriminate|].
      apply kids_loop_no_oof. intros k s c. apply IH.
      * exact H0.
      * constructor; [apply mem_false; exact Ha | exact Hnd].
      * intros x [Hx|Hx]; [subst; eapply lookup_keys; exact El | apply Hincl; exact Hx].
      * simpl. lia.
    + destruct (enter root anc seen) as [e|[a1 s1]]; [discriminate|]. simpl. discriminate.
Qed.

Lemma keys_length : forall g, length (keys g) = length g.
Proof. intros g. unfold keys. apply map_length. Qed.

Lemma walk_terminates_visit : forall fuel g maxd target root seen count,
  lookup g 0 = None -> (length g < fuel)%nat ->
  walk fuel g maxd target 0 root [] seen count <> WOOF.
Proof.
  intros fuel g maxd target root seen count H0 Hf. apply walk_no_oof_gen.
  - exact H0.
  - constructor.
  - intros x Hx. destruct Hx.
  - rewrite keys_length. simpl. lia.
Qed.

(* The depth guard alone bounds the recursion on ANY table (also when object 0 is a page node). *)
Lemma walk_no_oof_depth : forall fuel g maxd target depth root anc seen count,
  (depth <= eff_depth maxd + 1)%Z -> (eff_depth maxd + 1 - depth < Z.of_nat fuel)%Z ->
  walk fuel g maxd target depth root anc seen count <> WOOF.
Proof.
  induction fuel as [|f IH]; intros g maxd target depth root anc seen count Hd Hf.
  - exfalso. lia.
  - simpl. unfold depth_exceeded. destruct (Z.ltb_spec (eff_depth maxd) depth) as [Hx|Hx]; [discriminate|].
    destruct (lookup g root) as [[|ty ks]|]; [discriminate| |].
    + destruct (enter root anc seen) as [e|[a1 s1]]; [discriminate|].
      apply kids_loop_no_oof. intros k s c. apply IH; lia.
    + destruct (enter root anc seen) as [e|[a1 s1]]; [discriminate|]. simpl. discriminate.
Qed.

(* ------------------------------------------------------------------ what the walk accepts *)

(* the unfolding of the /Pages nodes below a root: the call tree of the walk without any guard *)
Inductive tree := T (n : N) (ts : list tree).
Fixpoint pre (t : tree) : list N := match t with T n ts => n :: flat_map pre ts end.
Fixpoint hgt (t : tree) : nat :=
  match t with T _ ts => S (fold_right (fun t m => Nat.max (hgt t) m) O ts) end.
Definition maxh (ts : list tree) : nat := fold_right (fun t m => Nat.max (hgt t) m) O ts.

Definition kids_of (g : graph) (n : N) : list kid :=
  match lookup g n with Some (NDict _ ks) => ks | _ => [] end.

Inductive Unfold (g : graph) : N -> tree -> Prop :=
| U_node : forall n ts, lookup g n <> Some NNotDict -> UnfoldKids g (kids_of g n) ts -> Unfold g n (T n ts)
with UnfoldKids (g : graph) : list kid -> list tree -> Prop :=
| UK_nil : UnfoldKids g [] []
| UK_null : forall ks ts, UnfoldKids g ks ts -> UnfoldKids g (KNull :: ks) ts
| UK_pages : forall k ks0 t ks ts, lookup g k = Some (NDict TPages ks0) ->
    Unfold g k t -> UnfoldKids g ks ts -> UnfoldKids g (KRef k :: ks) (t :: ts)
| UK_page : forall k ks0 ks ts, lookup g k = Some (NDict TPage ks0) ->
    UnfoldKids g ks ts -> UnfoldKids g (KRef k :: ks) ts
| UK_other : forall k ks0 ks ts, lookup g k = Some (NDict TOther ks0) ->
    UnfoldKids g ks ts -> UnfoldKids g (KRef k :: ks) ts.

Scheme Unfold_mind := Induction for Unfold Sort Prop
  with UnfoldKids_mind := Induction for UnfoldKids Sort Prop.
Combined Scheme Unfold_mutind from Unfold_mind, UnfoldKids_mind.

Lemma maxh_le : forall ts z, (Z.of_nat (maxh ts) <= z)%Z <-> (0 <= z)%Z /\ Forall (fun t => (Z.of_nat (hgt t) <= z)%Z) ts.
Proof.
  induction ts as [|t ts IH]; intros z; simpl.
  - split; [intros H; split; [lia | constructor] | intros [H _]; lia].
  - fold (maxh ts). split.
    + intros H. assert (Hz : (Z.of_nat (maxh ts) <= z)%Z) by lia. apply IH in Hz. destruct Hz as [Hz0 Hf].
      split; [exact Hz0 | constructor; [lia | exact Hf]].
    + intros [Hz0 Hf]. inversion Hf as [|x l Hx Hl]; subst.
      assert (Hz : (Z.of_nat (maxh ts) <= z)%Z) by (apply IH; split; assumption). lia.
Qed.

Lemma nodup_app_r : forall (l l' : list N), NoDup (l ++ l') -> NoDup l'.
Proof.
  induction l as [|a l IH]; intros l' H; simpl in H; [exact H|].
  inversion H; subst. apply IH. assumption.
Qed.

Lemma hgt_T : forall n ts, hgt (T n ts) = S (maxh ts).
Proof. reflexivity. Qed.

(* soundness: a walk that comes back without error or hit has seen exactly the nodes of a finite
   unfolding, each once, within the depth limit *)
Section Sound.
Variable g : graph.
Variable maxd target : Z.
Hypothesis Htarget : (target < 0)%Z.
Hypothesis H0 : lookup g 0 = None.

Definition rec_sound (rec : N -> list N -> Z -> wres) (d : Z) : Prop :=
  forall k s c s' c', k <> 0 -> NoDup s -> rec k s c = WNone s' c' ->
    exists t, Unfold g k t /\ s' = rev (pre t) ++ s /\ NoDup s' /\ (d + Z.of_nat (hgt t) <= eff_depth maxd + 1)%Z.

Lemma kids_loop_sound : forall rec d, rec_sound rec d ->
  forall ks s c s' c', NoDup s -> kids_loop rec g target ks s c = WNone s' c' ->
    exists ts, UnfoldKids g ks ts /\ s' = rev (flat_map pre ts) ++ s /\ NoDup s'
               /\ Forall (fun t => (d + Z.of_nat (hgt t) <= eff_depth maxd + 1)%Z) ts.
Proof.
  intros rec d Hrec ks. induction ks as [|k ks IH]; intros s c s' c' Hnd Hk; simpl in Hk.
  - inversion Hk. subst. exists []. split; [constructor | split; [reflexivity | split; [exact Hnd | constructor]]].
  - destruct k as [|n|]; [| |discriminate].
    + destruct (IH _ _ _ _ Hnd Hk) as [ts [Hu [Hs [Hn Hf]]]].
      exists ts. split; [|split; [|split]]; [constructor; exact Hu | exact Hs | exact Hn | exact Hf].
    + destruct (lookup g n) as [[|[| | |] kk]|] eqn:El; try discriminate.
      * destruct (rec n s c) as [s1 c1| | |] eqn:Er; try discriminate.
        assert (Hn0 : n <> 0) by (intro E; subst; congruence).
        destruct (Hrec _ _ _ _ _ Hn0 Hnd Er) as [t [Hut [Hs1 [Hnd1 Hh]]]].
        destruct (IH _ _ _ _ Hnd1 Hk) as [ts [Hu [Hs [Hn Hf]]]].
        exists (t :: ts). split; [|split; [|split]].
        -- eapply UK_pages; eassumption.
        -- simpl. rewrite rev_app_distr, <- app_assoc, <- Hs1. exact Hs.
        -- exact Hn.
        -- constructor; assumption.
      * destruct (Z.eqb_spec (Z.of_N n) target) as [E|E]; [lia|].
        destruct (IH _ _ _ _ Hnd Hk) as [ts [Hu [Hs [Hn Hf]]]].
        exists ts. split; [|split; [|split]]; [eapply UK_page; eassumption | exact Hs | exact Hn | exact Hf].
      * destruct (IH _ _ _ _ Hnd Hk) as [ts [Hu [Hs [Hn Hf]]]].
        exists ts. split; [|split; [|split]]; [eapply UK_other; eassumption | exact Hs | exact Hn | exact Hf].
Qed.

Lemma walk_sound : forall fuel depth anc, rec_sound (fun k s c => walk fuel g maxd target depth k anc s c) depth.
Proof.
  induction fuel as [|f IH]; intros depth anc k s c s' c' Hk Hnd Hw; simpl in Hw; [discriminate|].
  unfold depth_exceeded in Hw. destruct (Z.ltb_spec (eff_depth maxd) depth) as [Hx|Hx]; [discriminate|].
  assert (Hkids : exists ks, kids_of g k = ks /\ lookup g k <> Some NNotDict /\
           match enter k anc s with inl e => WErr e | inr (a1, s1) =>
             kids_loop (fun k0 s0 c0 => walk f g maxd target (depth + 1) k0 a1 s0 c0) g target ks s1 c end
           = WNone s' c').
  { unfold kids_of. destruct (lookup g k) as [[|ty ks]|]; [discriminate| |].
    - exists ks. split; [reflexivity | split; [discriminate | exact Hw]].
    - exists []. split; [reflexivity | split; [discriminate | exact Hw]]. }
  destruct Hkids as [ks [Hko [Hnn He]]].
  unfold enter in He. destruct (N.eqb_spec k 0) as [E0|E0]; [contradiction|].
  destruct (mem k anc); [discriminate|]. destruct (mem k s) eqn:Hms; [discriminate|].
  assert (Hnd1 : NoDup (k :: s)) by (constructor; [apply mem_false; exact Hms | exact Hnd]).
  destruct (kids_loop_sound _ (depth + 1)%Z (IH (depth + 1)%Z (k :: anc)) _ _ _ _ _ Hnd1 He)
    as [ts [Hu [Hs [Hn Hf]]]].
  exists (T k ts). split; [|split; [|split]].
  - constructor; [exact Hnn | rewrite Hko; exact Hu].
  - simpl. rewrite <- app_assoc. simpl. exact Hs.
  - exact Hn.
  - rewrite hgt_T.
    assert (Hm : (Z.of_nat (maxh ts) <= eff_depth maxd - depth)%Z).
    { apply maxh_le. split; [lia|]. eapply Forall_impl; [|exact Hf]. simpl. intros t Ht. lia. }
    lia.
Qed.
End Sound.

(* completeness: on a finite unfolding without repeated node and within the depth limit the walk,
   unless it runs out of fuel, comes back with exactly these nodes seen *)
Section Complete.
Variable g : graph.
Hypothesis H0 : lookup g 0 = None.

Definition okish (r : wres) (s : list N) : Prop := r = WOOF \/ exists c, r = WNone s c.

Definition Pn (n : N) (t : tree) : Prop :=
  forall fuel maxd target depth anc seen count, (target < 0)%Z -> n <> 0 -> incl anc seen ->
    NoDup (rev (pre t) ++ seen) -> (depth + Z.of_nat (hgt t) <= eff_depth maxd + 1)%Z ->
    okish (walk fuel g maxd target depth n anc seen count) (rev (pre t) ++ seen).
Definition Pk (ks : list kid) (ts : list tree) : Prop :=
  forall f maxd target d anc seen count, (target < 0)%Z -> incl anc seen ->
    NoDup (rev (flat_map pre ts) ++ seen) ->
    Forall (fun t => (d + Z.of_nat (hgt t) <= eff_depth maxd + 1)%Z) ts ->
    okish (kids_loop (fun k s c => walk f g maxd target d k anc s c) g target ks seen count)
          (rev (flat_map pre ts) ++ seen).

Lemma walk_complete_mut :
  (forall n t, Unfold g n t -> Pn n t) /\ (forall ks ts, UnfoldKids g ks ts -> Pk ks ts).
Proof.
  apply Unfold_mutind with (P := fun n t _ => Pn n t) (P0 := fun ks ts _ => Pk ks ts).
  - (* U_node *)
    intros n ts Hnn Hu IHk. unfold Pn. intros fuel maxd target depth anc seen count Ht Hn0 Hincl Hnd Hh.
    destruct fuel as [|f]; [left; reflexivity|]. simpl.
    rewrite hgt_T in Hh. unfold depth_exceeded.
    destruct (Z.ltb_spec (eff_depth maxd) depth) as [Hx|Hx]; [lia|].
    simpl in Hnd. rewrite <- app_assoc in Hnd. simpl in Hnd.
    assert (Hns : ~ In n seen).
    { apply NoDup_remove_2 in Hnd. intro Hi. apply Hnd. apply in_or_app. right. exact Hi. }
    assert (He : enter n anc seen = inr (n :: anc, n :: seen)).
    { unfold enter. destruct (N.eqb_spec n 0) as [E|E]; [contradiction|].
      assert (Ha : mem n anc = false) by (apply mem_false; intro Hi; apply Hns; apply Hincl; exact Hi).
      assert (Hs : mem n seen = false) by (apply mem_false; exact Hns).
      rewrite Ha, Hs. reflexivity. }
    assert (Hgoal : okish (kids_loop (fun k s c => walk f g maxd target (depth + 1) k (n :: anc) s c)
                             g target (kids_of g n) (n :: seen) count)
                          (rev (flat_map pre ts) ++ n :: seen)).
    { apply IHk.
      - exact Ht.
      - intros x [Hx1|Hx1]; [left; exact Hx1 | right; apply Hincl; exact Hx1].
      - exact Hnd.
      - assert (Hm : (Z.of_nat (maxh ts) <= eff_depth maxd - depth)%Z) by lia.
        apply maxh_le in Hm. destruct Hm as [_ Hf]. eapply Forall_impl; [|exact Hf]. simpl. intros t Hq. lia. }
    simpl. rewrite <- app_assoc. simpl.
    unfold kids_of in Hgoal.
    destruct (lookup g n) as [[|ty ks]|]; [congruence| |]; rewrite He; exact Hgoal.
  - (* UK_nil *)
    unfold Pk. intros. simpl. right. eexists. reflexivity.
  - (* UK_null *)
    intros ks ts Hu IH. unfold Pk. intros. simpl. apply IH; assumption.
  - (* UK_pages *)
    intros k ks0 t ks ts El Hut IHt Huk IHk. unfold Pk.
    intros f maxd target d anc seen count Ht Hincl Hnd Hf. simpl. rewrite El.
    simpl in Hnd. rewrite rev_app_distr, <- app_assoc in Hnd.
    inversion Hf as [|x l Hhx Hfl]; subst.
    assert (Hk0 : k <> 0) by (intro E; subst; congruence).
    assert (Hndt : NoDup (rev (pre t) ++ seen)) by (apply nodup_app_r in Hnd; exact Hnd).
    destruct (IHt f maxd target d anc seen count Ht Hk0 Hincl Hndt Hhx) as [Ho|[c1 Hc1]].
    + rewrite Ho. left. reflexivity.
    + rewrite Hc1. simpl. rewrite rev_app_distr, <- app_assoc. apply IHk.
      * exact Ht.
      * intros x Hx. apply in_or_app. right. apply Hincl. exact Hx.
      * exact Hnd.
      * exact Hfl.
  - (* UK_page *)
    intros k ks0 ks ts El Huk IHk. unfold Pk.
    intros f maxd target d anc seen count Ht Hincl Hnd Hf. simpl. rewrite El.
    destruct (Z.eqb_spec (Z.of_N k) target) as [E|E]; [lia|]. apply IHk; assumption.
  - (* UK_other *)
    intros k ks0 ks ts El Huk IHk. unfold Pk.
    intros f maxd target d anc seen count Ht Hincl Hnd Hf. simpl. rewrite El. apply IHk; assumption.
Qed.
End Complete.

(* ------------------------------------------------------------------ the statements used by Property.v *)

Lemma unfold_incl :
  forall g, (forall n t, Unfold g n t -> incl (pre t) (n :: keys g))
         /\ (forall ks ts, UnfoldKids g ks ts -> incl (flat_map pre ts) (keys g)).
Proof.
  intros g.
  apply Unfold_mutind with (P := fun n t _ => incl (pre t) (n :: keys g))
                           (P0 := fun ks ts _ => incl (flat_map pre ts) (keys g)).
  - intros n ts Hnn Hu IH. simpl. intros x [Hx|Hx]; [left; exact Hx | right; apply IH; exact Hx].
  - intros x Hx. destruct Hx.
  - intros ks ts Hu IH. exact IH.
  - intros k ks0 t ks ts El Hut IHt Huk IHk. simpl. intros x Hx. apply in_app_or in Hx.
    destruct Hx as [Hx|Hx]; [|apply IHk; exact Hx].
    apply IHt in Hx. destruct Hx as [Hx|Hx]; [subst; eapply lookup_keys; exact El | exact Hx].
  - intros k ks0 ks ts El Huk IHk. exact IHk.
  - intros k ks0 ks ts El Huk IHk. exact IHk.
Qed.

Lemma walk_ok_iff : forall g maxd target root,
  (target < 0)%Z -> lookup g 0 = None -> root <> 0 ->
  ((exists s c, page_number g maxd target root = WNone s c) <->
   (exists t, Unfold g root t /\ NoDup (pre t) /\ (Z.of_nat (hgt t) <= eff_depth maxd + 1)%Z)).
Proof.
  intros g maxd target root Ht H0 Hr. unfold page_number. split.
  - intros [s [c Hw]].
    destruct (walk_sound g maxd target Ht H0 _ _ _ _ _ _ _ _ Hr (NoDup_nil N) Hw) as [t [Hu [Hs [Hn Hh]]]].
    exists t. split; [exact Hu|]. split; [|lia].
    subst s. rewrite app_nil_r in Hn. apply NoDup_rev in Hn. rewrite rev_involutive in Hn. exact Hn.
  - intros [t [Hu [Hn Hh]]].
    destruct (walk_complete_mut g H0) as [Hc _].
    assert (Hnd : NoDup (rev (pre t) ++ [])) by (rewrite app_nil_r; apply NoDup_rev; exact Hn).
    destruct (Hc _ _ Hu (walk_fuel g maxd) maxd target 0%Z [] [] 0%Z Ht Hr (incl_refl _) Hnd ltac:(lia)) as [Ho|[c Hcw]].
    + exfalso. eapply walk_terminates_visit; [exact H0 | | exact Ho]. unfold walk_fuel. lia.
    + eexists. eexists. exact Hcw.
Qed.

Lemma walk_visits_bound : forall g maxd target root s c,
  (target < 0)%Z -> lookup g 0 = None -> root <> 0 ->
  page_number g maxd target root = WNone s c ->
  NoDup s /\ (length s <= S (length g))%nat.
Proof.
  intros g maxd target root s c Ht H0 Hr Hw. unfold page_number in Hw.
  destruct (walk_sound g maxd target Ht H0 _ _ _ _ _ _ _ _ Hr (NoDup_nil N) Hw) as [t [Hu [Hs [Hn Hh]]]].
  split; [exact Hn|].
  destruct (unfold_incl g) as [Hi _]. specialize (Hi _ _ Hu).
  subst s. rewrite app_nil_r in *. 
  assert (Hincl : incl (rev (pre t)) (root :: keys g)).
  { intros x Hx. apply Hi. apply in_rev. exact Hx. }
  pose proof (NoDup_incl_length Hn Hincl) as Hl. simpl in Hl. rewrite keys_length in Hl. exact Hl.
Qed.

Lemma eff_depth_pos : forall maxd, (0 < eff_depth maxd)%Z.
Proof. intros maxd. unfold eff_depth, default_max_depth. destruct (Z.leb_spec maxd 0); lia. Qed.

Lemma walk_terminates_depth : forall fuel g maxd target root anc seen count,
  (eff_depth maxd + 1 < Z.of_nat fuel)%Z -> walk fuel g maxd target 0 root anc seen count <> WOOF.
Proof.
  intros fuel g maxd target root anc seen count H. pose proof (eff_depth_pos maxd).
  apply walk_no_oof_depth; lia.
Qed.

(* page_number's own fuel is never exhausted, on any table *)
Lemma page_number_total : forall g maxd target root, page_number g maxd target root <> WOOF.
Proof.
  intros g maxd target root. unfold page_number. apply walk_terminates_depth.
  pose proof (eff_depth_pos maxd). unfold walk_fuel. lia.
Qed.
