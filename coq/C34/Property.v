From PV Require Import Lib.GoInt C34.Generated C34.Model.
Open Scope Z_scope.
