(* C17 — Predictor decoding matches the PNG and TIFF specifications.
   Model: C17/Model.v (hand transcription of pkg/filter/flateDecode.go, paeth.go, lzwDecode.go,
   tied to the code by the correspondence harness go/cmd/c17).  Specification: C17/Spec.v
   (RFC 2083 section 6, TIFF 6.0 section 14), written independently of the code.
   Property theorems only; each is closed by an exact lemma and followed by Print Assumptions. *)
From Coq Require Import ZArith NArith List Bool.
From PV Require Import Lib.GoInt C17.Model C17.Spec C17.ProofsBase C17.ProofsPng C17.ProofsRows C17.ProofsTiff.
Import ListNotations.
Open Scope Z_scope.

(* paeth.go's branch-free, reordered Paeth function is the pseudo-code of RFC 2083 6.6 for every
   triple of bytes (algebra over abs; no enumeration). *)
Theorem paeth_code_eq_spec : forall a b c : N,
  (a < 256)%N -> (b < 256)%N -> (c < 256)%N -> paeth a b c = PaethPredictor a b c.
Proof. exact paeth_eq. Qed.
Print Assumptions paeth_code_eq_spec.

(* For Predictor 10..15, any Colors >= 1, BitsPerComponent in {1,2,4,8,16}, any Columns >= 1 whose
   row size fits an int, and ANY number of rows of 1 + rowbytes bytes each: decodePostProcess over
   the concatenated rows returns exactly what RFC 2083 row un-filtering returns (with an all-zero
   row before the first one), including "error" exactly when the specification has no answer
   (a filter-type byte above 4). *)
Theorem png_rows_match_spec : forall predictor colors bpc columns rows,
  10 <= predictor <= 15 -> 1 <= colors -> In bpc [1; 2; 4; 8; 16] -> 1 <= columns ->
  colors * bpc * columns + 8 <= maxInt ->
  Forall (row_ok (S (Z.to_nat (spec_rowbytes colors bpc columns)))) rows ->
  decode (Some predictor) (Some colors) (Some bpc) (Some columns) (concat rows) =
  spec_png colors bpc columns rows.
Proof. exact png_decode_ok. Qed.
Print Assumptions png_rows_match_spec.

(* ... and the code reports an error if and only if some row starts with an invalid filter type. *)
Theorem png_error_iff_invalid_filter_type : forall predictor colors bpc columns rows,
  10 <= predictor <= 15 -> 1 <= colors -> In bpc [1; 2; 4; 8; 16] -> 1 <= columns ->
  colors * bpc * columns + 8 <= maxInt ->
  Forall (row_ok (S (Z.to_nat (spec_rowbytes colors bpc columns)))) rows ->
  (decode (Some predictor) (Some colors) (Some bpc) (Some columns) (concat rows) = None
   <-> Exists (fun r => (4 < hd 0 r)%N) rows).
Proof. exact png_error_iff. Qed.
Print Assumptions png_error_iff_invalid_filter_type.

(* The row parameters the code computes are the specification's (bytes per complete pixel and bytes
   per row, both rounded up), and 1 <= bytesPerPixel <= rowSize: the indices used by the row loops
   (cdat[i-bpp], cdat[i] for i < bpp) stay inside the row. *)
Theorem row_params_match_spec : forall predictor colors bpc columns,
  1 <= colors -> 1 <= bpc -> 1 <= columns -> colors * bpc * columns + 8 <= maxInt ->
  predictorRowParams predictor colors bpc columns =
    Some (spec_rowbytes colors bpc columns,
          (if predictor =? 2 then spec_rowbytes colors bpc columns else spec_rowbytes colors bpc columns + 1),
          spec_bpp colors bpc)
  /\ 1 <= spec_bpp colors bpc <= spec_rowbytes colors bpc columns.
Proof.
  intros predictor colors bpc columns Hc Hb Hn Hmax. split.
  - exact (rowparams_ok predictor colors bpc columns Hc Hb Hn Hmax).
  - exact (row_params_facts colors bpc columns Hc Hb Hn).
Qed.
Print Assumptions row_params_match_spec.

(* TIFF predictor.  Full statement (what the property asks for):
     forall colors >= 1, bpc in {1,2,4,8,16}, columns >= 1, rows of rowbytes bytes each,
       decode (Some 2) (Some colors) (Some bpc) (Some columns) (concat rows) = Some (spec_tiff colors bpc columns rows).
   It is FALSE for the transcribed code (tiff_refuted below): applyHorDiff adds bytes, not samples.
   Proved part: exactly the class bpc = 8. *)
Theorem tiff8_matches_spec_partial : forall colors columns rows,
  1 <= colors -> 1 <= columns -> colors * 8 * columns + 8 <= maxInt ->
  Forall (row_ok (Z.to_nat (spec_rowbytes colors 8 columns))) rows ->
  decode (Some 2) (Some colors) (Some 8) (Some columns) (concat rows) =
  Some (spec_tiff colors 8 columns rows).
Proof. exact tiff8_decode_ok. Qed.
Print Assumptions tiff8_matches_spec_partial.

(* Witnesses for bpc <> 8 (class tiff-predictor-bpc!=8): 16-bit samples 0001 0001 decode to
   00 01 01 02 instead of 00 01 00 02; 1-bit samples 10000000 stay 0x80 instead of 0xff. *)
Theorem tiff_refuted : exists colors bpc columns rows,
  1 <= colors /\ In bpc [1; 2; 4; 16] /\ 1 <= columns /\
  Forall (row_ok (Z.to_nat (spec_rowbytes colors bpc columns))) rows /\
  decode (Some 2) (Some colors) (Some bpc) (Some columns) (concat rows) <>
  Some (spec_tiff colors bpc columns rows).
Proof.
  exists 1, 16, 2, [[0; 1; 0; 1]%N].
  split; [vm_compute; congruence|]. split; [simpl; tauto|]. split; [vm_compute; congruence|].
  split.
  - constructor; [|constructor]. split; [reflexivity|]. repeat constructor.
  - destruct tiff16_witness as [Hd Hs]. change (concat [[0; 1; 0; 1]%N]) with [0; 1; 0; 1]%N. rewrite Hd, Hs. discriminate.
Qed.
Print Assumptions tiff_refuted.

(* LZWDecode: the property also covers LZW + predictor; lzwDecode.DecodeLength rejects every
   Predictor > 1 although the specification defines the result (class lzw-predictor-rejected). *)
Theorem lzw_predictor_refuted : exists predictor colors bpc columns rows o,
  10 <= predictor <= 15 /\ 1 <= colors /\ In bpc [1; 2; 4; 8; 16] /\ 1 <= columns /\
  Forall (row_ok (S (Z.to_nat (spec_rowbytes colors bpc columns)))) rows /\
  spec_png colors bpc columns rows = Some o /\
  lzwDecodePost (Some predictor) (concat rows) = None.
Proof.
  exists 12, 1, 8, 2, [[2; 1; 2]%N; [2; 1; 1]%N], [1; 2; 2; 3]%N.
  split; [split; vm_compute; congruence|]. split; [vm_compute; congruence|].
  split; [simpl; tauto|]. split; [vm_compute; congruence|].
  split; [|split; vm_compute; reflexivity].
  constructor; [|constructor; [|constructor]]; (split; [reflexivity|repeat constructor]).
Qed.
Print Assumptions lzw_predictor_refuted.

(* proved part for LZW: without a predictor (absent or 1) the expanded stream is returned as is *)
Theorem lzw_no_predictor_partial : forall data,
  lzwDecodePost None data = Some data /\ lzwDecodePost (Some 1) data = Some data.
Proof. intros data. split; reflexivity. Qed.
Print Assumptions lzw_no_predictor_partial.

(* non-vacuity: the hypotheses are satisfiable, both outcomes occur, every filter type is exercised *)
Example C17_nonvacuous :
  let rows := [[1; 10; 20; 30]; [2; 1; 1; 1]; [3; 4; 6; 8]; [4; 250; 3; 7]; [0; 9; 9; 9]]%N in
  Forall (row_ok (S (Z.to_nat (spec_rowbytes 3 8 1)))) rows /\
  decode (Some 15) (Some 3) (Some 8) (Some 1) (concat rows) = spec_png 3 8 1 rows /\
  spec_png 3 8 1 rows = Some [10; 20; 30; 11; 21; 31; 9; 16; 23; 3; 19; 30; 9; 9; 9]%N /\
  decode (Some 15) (Some 3) (Some 8) (Some 1) [5; 0; 0; 0]%N = None /\
  decode (Some 2) (Some 2) (Some 8) (Some 2) [1; 2; 3; 4]%N = Some [1; 2; 4; 6]%N /\
  spec_tiff 2 8 2 [[1; 2; 3; 4]%N] = [1; 2; 4; 6]%N.
Proof.
  cbv zeta. split; [|vm_compute; repeat split; reflexivity].
  repeat constructor.
Qed.
