(* C34 — Booklet and n-up imposition place every selected page exactly once.
   Property theorems only.  Model: coq/C34/Generated.v (position functions, regenerated from
   pkg/pdfcpu/booklet.go and nup.go on every run) + coq/C34/Model.v (dispatch, padding, multi-folio loop).

   Reading: `pages` is the sorted list of selected page numbers (sortSelectedPages), k = slice_len pages;
   a slot is (page number, rotate), page number 0 = blank; `accepted N bt` = the configurations
   api.Booklet accepts: N in {2,4,6,8}, booklet type in {Booklet, BookletAdvanced, BookletPerfectBound};
   binding bd, orientation ls (landscape), fold tf are arbitrary; IW = width of Go's int;
   `fits IW n` = 2 <= IW and 4n + 256 <= MaxInt (no arithmetic overflow in the position functions). *)
From PV Require Import Lib.GoInt C34.Generated C34.Model C34.ProofsBase C34.ProofsOrder C34.ProofsNup C34.ProofsTop C34.ProofsMap.
From Coq Require Import Sorted.
From Coq Require Import Permutation Lia.
Open Scope Z_scope.

(* Plain booklets, every selected-page count (k = 0 included), every accepted configuration:
   no panic, and the slot sequence is a permutation of the selected pages plus blanks only. *)
Theorem C34_ordering_is_permutation : forall IW N bt bd ls tf folio pages,
  accepted N bt -> fits IW (slice_len pages + 2 * N) ->
  exists slots, getBookletOrdering IW N bt bd ls tf false folio pages = Ok slots /\
    Permutation (map fst slots) (pages ++ repeat 0 (Z.to_nat (Z.of_nat (length slots) - slice_len pages))).
Proof. exact ordering_is_permutation_lemma. Qed.
Print Assumptions C34_ordering_is_permutation.

(* ... the number of slots is a whole number of sheets (2N slots per sheet) and the padding is less than one sheet *)
Theorem C34_slots_whole_sheets : forall IW N bt bd ls tf folio pages,
  accepted N bt -> fits IW (slice_len pages + 2 * N) ->
  exists slots, getBookletOrdering IW N bt bd ls tf false folio pages = Ok slots /\
    Z.of_nat (length slots) mod (2 * N) = 0 /\
    0 <= Z.of_nat (length slots) - slice_len pages < 2 * N.
Proof. exact slots_whole_sheets_lemma. Qed.
Print Assumptions C34_slots_whole_sheets.

(* counting form: with distinct non-zero page numbers every selected page occupies exactly one slot,
   no other page number occurs, and the blanks are exactly the padding *)
Theorem C34_each_page_exactly_once : forall IW N bt bd ls tf folio pages,
  accepted N bt -> fits IW (slice_len pages + 2 * N) -> NoDup pages -> ~ In 0 pages ->
  exists slots, getBookletOrdering IW N bt bd ls tf false folio pages = Ok slots /\
    (forall p, In p pages -> count_occ Z.eq_dec (map fst slots) p = 1%nat) /\
    (forall p, p <> 0 -> ~ In p pages -> count_occ Z.eq_dec (map fst slots) p = 0%nat) /\
    Z.of_nat (count_occ Z.eq_dec (map fst slots) 0) = Z.of_nat (length slots) - slice_len pages.
Proof. exact each_page_exactly_once_lemma. Qed.
Print Assumptions C34_each_page_exactly_once.

(* Multi-folio booklets: proved for the folio sizes whose signature (4 * folio pages, as the code
   computes it for every N) is a whole number of sheets: every folio size for N = 2, even ones for
   N = 4, multiples of 3 for N = 6, multiples of 4 for N = 8.
   FULL STATEMENT (false for the code, see C34_multifolio_refuted): the same without the
   hypothesis (4 * folio) mod (2 * N) = 0.  Missing: nothing provable - the code panics there. *)
Theorem C34_multifolio_partial : forall IW N bt bd ls tf folio pages,
  accepted N bt -> 1 <= folio -> (4 * folio) mod (2 * N) = 0 -> 1 <= slice_len pages ->
  fits IW (slice_len pages + 2 * N) ->
  exists slots, getBookletOrdering IW N bt bd ls tf true folio pages = Ok slots /\
    Permutation (map fst slots) (pages ++ repeat 0 (Z.to_nat (Z.of_nat (length slots) - slice_len pages))) /\
    Z.of_nat (length slots) mod (2 * N) = 0 /\
    0 <= Z.of_nat (length slots) - slice_len pages < 2 * N.
Proof. exact multifolio_partial_lemma. Qed.
Print Assumptions C34_multifolio_partial.

(* The defect: an accepted multi-folio configuration with N >= 4 on which the model of
   getBookletOrdering (and the real function, see the harness) panics: N = 4, folio size 1, 9 pages. *)
Theorem C34_multifolio_refuted : exists N bt bd ls tf folio pages,
  accepted N bt /\ 1 <= folio /\ 1 <= slice_len pages /\ fits 64 (slice_len pages + 2 * N) /\
  getBookletOrdering 64 N bt bd ls tf true folio pages = Err.
Proof. exact multifolio_refuted_lemma. Qed.
Print Assumptions C34_multifolio_refuted.

(* n-up and grid (nup.go impositionPages, N = cells per output page): the slots are the selected
   pages in order followed by blanks, a whole number of output pages, padding below one page ... *)
Theorem C34_nup_in_order : forall IW N sorted, 0 < N ->
  exists blanks, nupSlots IW N sorted = sorted ++ repeat 0 (Z.to_nat blanks) /\
    0 <= blanks < N /\ (slice_len sorted + blanks) mod N = 0.
Proof. exact nup_in_order_lemma. Qed.
Print Assumptions C34_nup_in_order.

(* ... and the number of output pages is ceil(k / N) *)
Theorem C34_nup_pages : forall N sorted, 0 < N -> 1 <= slice_len sorted ->
  nupOutputPages N sorted = (slice_len sorted + N - 1) / N.
Proof. exact nup_pages_lemma. Qed.
Print Assumptions C34_nup_pages.

(* ---- over the selected-page MAP (types.IntSet; api.PagesForPageSelection stores a deselected page
   as pages[n] = false).  m = association list with distinct keys, any order; selected = keys mapped to
   true; selectedCount m = their number.  sortSelectedPages (nup.go, used by booklet, n-up and grid): *)
Theorem C34_map_sorted_selection : forall m,
  Sorted Z.le (sortSelectedPages m) /\
  (forall p, In p (sortSelectedPages m) <-> In (p, true) m) /\
  (NoDup (map fst m) -> NoDup (sortSelectedPages m)) /\
  (NoDup (map fst m) -> forall p, In (p, false) m -> ~ In p (sortSelectedPages m)).
Proof. exact sortSelectedPages_spec_lemma. Qed.
Print Assumptions C34_map_sorted_selection.

(* plain booklet from the map: every selected page in exactly one slot, deselected and absent page
   numbers in none, blanks = padding, whole sheets, padding below one sheet *)
Theorem C34_map_booklet_selected_exactly_once : forall IW N bt bd ls tf folio m,
  accepted N bt -> fits IW (selectedCount m + 2 * N) -> NoDup (map fst m) -> ~ In (0, true) m ->
  exists slots, getBookletOrderingOfMap IW N bt bd ls tf false folio m = Ok slots /\
    (forall p, In (p, true) m -> count_occ Z.eq_dec (map fst slots) p = 1%nat) /\
    (forall p, p <> 0 -> ~ In (p, true) m -> count_occ Z.eq_dec (map fst slots) p = 0%nat) /\
    (forall p, p <> 0 -> In (p, false) m -> count_occ Z.eq_dec (map fst slots) p = 0%nat) /\
    Z.of_nat (count_occ Z.eq_dec (map fst slots) 0) = Z.of_nat (length slots) - selectedCount m /\
    Z.of_nat (length slots) mod (2 * N) = 0 /\ 0 <= Z.of_nat (length slots) - selectedCount m < 2 * N.
Proof. exact map_booklet_lemma. Qed.
Print Assumptions C34_map_booklet_selected_exactly_once.

(* multi-folio from the map, same restriction as C34_multifolio_partial *)
Theorem C34_map_multifolio_partial : forall IW N bt bd ls tf folio m,
  accepted N bt -> 1 <= folio -> (4 * folio) mod (2 * N) = 0 -> 1 <= selectedCount m ->
  fits IW (selectedCount m + 2 * N) -> NoDup (map fst m) -> ~ In (0, true) m ->
  exists slots, getBookletOrderingOfMap IW N bt bd ls tf true folio m = Ok slots /\
    (forall p, In (p, true) m -> count_occ Z.eq_dec (map fst slots) p = 1%nat) /\
    (forall p, p <> 0 -> ~ In (p, true) m -> count_occ Z.eq_dec (map fst slots) p = 0%nat) /\
    (forall p, p <> 0 -> In (p, false) m -> count_occ Z.eq_dec (map fst slots) p = 0%nat) /\
    Z.of_nat (count_occ Z.eq_dec (map fst slots) 0) = Z.of_nat (length slots) - selectedCount m /\
    Z.of_nat (length slots) mod (2 * N) = 0 /\ 0 <= Z.of_nat (length slots) - selectedCount m < 2 * N.
Proof. exact map_multifolio_partial_lemma. Qed.
Print Assumptions C34_map_multifolio_partial.

(* n-up / grid from the map: slots = the selected keys ascending (see C34_map_sorted_selection: exactly
   the keys mapped to true), then blanks; ceil(selected / N) output pages *)
Theorem C34_map_nup : forall IW N m, 0 < N ->
  exists blanks, nupSlotsOfMap IW N m = sortSelectedPages m ++ repeat 0 (Z.to_nat blanks) /\
    0 <= blanks < N /\ (selectedCount m + blanks) mod N = 0 /\
    (1 <= selectedCount m -> nupOutputPagesOfMap N m = (selectedCount m + N - 1) / N).
Proof. exact map_nup_lemma. Qed.
Print Assumptions C34_map_nup.

(* non-vacuity: hypotheses are satisfiable, concrete orderings *)
Example C34_nonvacuous :
  accepted 2 0 /\ accepted 8 2 /\ fits 64 (slice_len [1;2;3;4;5] + 2 * 8) /\
  getBookletOrdering 64 2 0 0 false false false 8 [1;2;3;4;5]
    = Ok [(0,true);(1,true);(0,false);(2,false);(0,true);(3,true);(5,false);(4,false)] /\
  (4 * 3) mod (2 * 6) = 0 /\
  nupSlots 64 4 [1;3;5;7;9] = [1;3;5;7;9;0;0;0] /\ nupOutputPages 4 [1;3;5;7;9] = 2 /\
  sortSelectedPages [(4,true);(2,false);(1,true);(5,false);(3,true)] = [1;3;4] /\
  nupSlotsOfMap 64 2 [(4,true);(2,false);(1,true);(5,false);(3,true)] = [1;3;4;0].
Proof. unfold accepted, fits, maxS. vm_compute. repeat split; try congruence; lia. Qed.
