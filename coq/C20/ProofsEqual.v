(* C20 — soundness of EqualObjects (with the visited-pairs shortcut) for the unfolding
   relation, on arbitrary (cyclic) graphs. *)
From Coq Require Import List ZArith NArith Bool Lia Arith.Wf_nat.
From PV Require Import C20.Model C20.Spec C20.Proofs.
Import ListNotations.
Open Scope Z_scope.

(* ---- the flat pairs slice ---- *)
Fixpoint evenlen (l : list Z) : bool :=
  match l with [] => true | [_] => false | _ :: _ :: t => evenlen t end.

Lemma pair_ind : forall (P : list Z -> Prop),
  P [] -> (forall x, P [x]) -> (forall x y t, P t -> P (x :: y :: t)) -> forall l, P l.
Proof.
  intros P H0 H1 H2 l.
  assert (P l /\ forall a, P (a :: l)) as [H _]; [|exact H].
  induction l as [|b l [IHa IHb]]; split; auto.
Qed.

Lemma cpF_app : forall p x y a b, evenlen p = true ->
  containsPairF (p ++ [x; y]) a b = containsPairF p a b || ((x =? a) && (y =? b)).
Proof.
  intros p x y a b. induction p as [| z | z w t IH] using pair_ind; simpl; intro H.
  - rewrite orb_false_r. reflexivity.
  - discriminate.
  - rewrite IH by exact H. rewrite orb_assoc. reflexivity.
Qed.
Lemma evenlen_app2 : forall p x y, evenlen p = true -> evenlen (p ++ [x; y]) = true.
Proof.
  intros p x y. induction p as [| z | z w t IH] using pair_ind; simpl; intro H; auto.
Qed.
Lemma evenlen_appendPair : forall p a b, evenlen p = true -> evenlen (appendPair p a b) = true.
Proof. intros p a b H. unfold appendPair. destruct (b <? a); apply evenlen_app2; exact H. Qed.

(* every pair on the visited list is indistinguishable up to depth n *)
Definition Phyp (n : nat) (g : graph) (pairs : list Z) : Prop :=
  forall a b, containsPairF pairs a b = true ->
  forall k, (k <= n)%nat -> sim k g (ORef a 0) g (ORef b 0).

Lemma Phyp_le : forall n k g pairs, (k <= n)%nat -> Phyp n g pairs -> Phyp k g pairs.
Proof. intros n k g pairs L H a b C j Lj. apply (H a b C). lia. Qed.

Lemma Phyp_contains : forall n g pairs n1 g1 n2 g2,
  Phyp n g pairs -> containsPair pairs n1 n2 = true -> sim n g (ORef n1 g1) g (ORef n2 g2).
Proof.
  intros n g pairs n1 g1 n2 g2 H C. unfold containsPair in C.
  apply (sim_ref_gen_l n g n1 0). apply (sim_ref_gen_r n g _ g n2 0).
  destruct (n2 <? n1).
  - apply sim_sym. apply (H n2 n1 C). lia.
  - apply (H n1 n2 C). lia.
Qed.

Lemma Phyp_append : forall m g pairs n1 n2,
  evenlen pairs = true -> Phyp m g pairs ->
  (forall k, (k <= m)%nat -> sim k g (ORef n1 0) g (ORef n2 0)) ->
  Phyp m g (appendPair pairs n1 n2).
Proof.
  intros m g pairs n1 n2 Ev H New a b C k Lk. unfold appendPair in C.
  destruct (n2 <? n1); rewrite cpF_app in C by exact Ev; apply orb_true_iff in C; destruct C as [C|C].
  - apply (H a b C k Lk).
  - apply andb_true_iff in C. destruct C as [C1 C2]. apply Z.eqb_eq in C1. apply Z.eqb_eq in C2. subst.
    apply sim_sym. apply New. exact Lk.
  - apply (H a b C k Lk).
  - apply andb_true_iff in C. destruct C as [C1 C2]. apply Z.eqb_eq in C1. apply Z.eqb_eq in C2. subst.
    apply New. exact Lk.
Qed.

(* ---- well-formedness plumbing ---- *)
Lemma wf_deref : forall g o, wfg g -> wfo o = true -> wfo (deref g o) = true.
Proof. intros g o Hg Ho. destruct o; simpl; auto. Qed.
Lemma wf_dict_entry : forall (d : dict) (k : bytes) (v : obj), forallb (fun kv => wfo (snd kv)) d = true -> In (k, v) d -> wfo v = true.
Proof. intros d k v H Hin. rewrite forallb_forall in H. apply (H (k, v) Hin). Qed.

(* ---- join ---- *)
Lemma join_CT : forall a b, join a b = CT -> a = CT /\ b = CT.
Proof. intros a b H. destruct a, b; simpl in H; try discriminate; auto. Qed.
Lemma fold_join_CT : forall (f : bytes * obj -> cmp) d,
  fold_right (fun kv acc => join (f kv) acc) CT d = CT -> forall kv, In kv d -> f kv = CT.
Proof.
  intros f d. induction d as [|x r IH]; simpl; intros H kv Hin. contradiction.
  apply join_CT in H. destruct H as [H1 H2]. destruct Hin as [Hin|Hin]. subst. exact H1. apply IH; assumption.
Qed.

Section Sound.
  Variable g : graph.
  Hypothesis Hg : wfg g.
  Variable m : nat.
  Variable rec : obj -> obj -> list Z -> cmp.
  Variable pairs : list Z.
  Hypothesis Hrec : forall x y, wfo x = true -> wfo y = true -> rec x y pairs = CT -> sim m g x g y.

  Lemma equalArrayElems_sound : forall a1 a2,
    length a1 = length a2 -> forallb wfo a1 = true -> forallb wfo a2 = true ->
    equalArrayElems rec a1 a2 pairs = CT -> Forall2 (fun x y => sim m g x g y) a1 a2.
  Proof.
    induction a1 as [|x t1 IH]; destruct a2 as [|y t2]; simpl; intros L W1 W2 H; try discriminate; constructor.
    - apply andb_true_iff in W1. apply andb_true_iff in W2. destruct W1, W2.
      destruct (rec x y pairs) eqn:E; try discriminate. apply Hrec; auto.
    - apply andb_true_iff in W1. apply andb_true_iff in W2. destruct W1, W2.
      destruct (rec x y pairs) eqn:E; try discriminate. apply IH; auto.
  Qed.

  Lemma equalArrays_sound : forall a1 a2,
    forallb wfo a1 = true -> forallb wfo a2 = true ->
    equalArrays rec a1 a2 pairs = CT -> Forall2 (fun x y => sim m g x g y) a1 a2.
  Proof.
    intros a1 a2 W1 W2 H. unfold equalArrays in H.
    destruct (Nat.eqb (length a1) (length a2)) eqn:E; simpl in H; try discriminate.
    apply Nat.eqb_eq in E. apply equalArrayElems_sound; auto.
  Qed.

  Lemma typeIsFontDirect_isfont : forall d, typeIsFontDirect d = true -> isfont g d = true.
  Proof.
    intros d H. unfold typeIsFontDirect in H. unfold isfont.
    destruct (lookup kType d) as [t|]; try discriminate. destruct t; try discriminate. simpl. exact H.
  Qed.

  Lemma equalDicts_sound : forall d1 d2,
    nodupb (map fst d1) = true -> forallb (fun kv => wfo (snd kv)) d1 = true ->
    forallb (fun kv => wfo (snd kv)) d2 = true ->
    equalDicts g rec d1 d2 pairs = CT ->
    simdict (fun x y => sim m g x g y) g g d1 d2.
  Proof.
    intros d1 d2 N1 W1 W2 H. unfold equalDicts in H.
    destruct (Nat.eqb (length d1) (length d2)) eqn:EL; simpl in H; try discriminate.
    apply Nat.eqb_eq in EL.
    set (fd := typeIsFontDirect d1 && typeIsFontDirect d2) in *.
    pose proof (fold_join_CT (dictEntry g rec fd d2 pairs) d1 H) as Hall. clear H.
    (* every key of d1 is a key of d2, hence (pigeonhole) the key sets coincide *)
    assert (incl (map fst d1) (map fst d2)) as Hincl.
    { intros k Hin. apply in_lookup in Hin. destruct Hin as [v Hv]. apply lookup_In in Hv.
      pose proof (Hall _ Hv) as He. unfold dictEntry in He. simpl in He.
      destruct (lookup k d2) eqn:E2; try discriminate. eapply lookup_Some_in; eauto. }
    assert (incl (map fst d2) (map fst d1)) as Hincl2.
    { apply NoDup_length_incl. apply nodupb_NoDup; exact N1. rewrite !map_length. lia. exact Hincl. }
    (* raw agreement per key, except for the font-name entries of two direct font dicts *)
    assert (forall k, match lookup k d1, lookup k d2 with
                      | None, None => True
                      | Some v1, Some v2 =>
                          if fd && special k then equalFontNames g v1 v2 = CT else sim m g v1 g v2
                      | _, _ => False end) as Hraw.
    { intro k. destruct (lookup k d1) as [v1|] eqn:E1.
      - pose proof (lookup_In _ _ _ E1) as Hin. pose proof (Hall _ Hin) as He.
        unfold dictEntry in He. simpl in He.
        destruct (lookup k d2) as [v2|] eqn:E2; try discriminate.
        destruct (fd && special k). exact He.
        apply Hrec; auto.
        apply (wf_dict_entry d1 k v1 W1 Hin).
        apply (wf_dict_entry d2 k v2 W2). apply lookup_In. exact E2.
      - destruct (lookup k d2) as [v2|] eqn:E2; auto.
        apply lookup_None_notin in E1. apply E1. apply Hincl2. eapply lookup_Some_in; eauto. }
    assert (special kType = false) as HsT by reflexivity.
    assert (type_agree m g d1 g d2) as HT.
    { unfold type_agree. pose proof (Hraw kType) as Ht. rewrite HsT, andb_false_r in Ht. exact Ht. }
    intro k. pose proof (Hraw k) as Hk.
    destruct (lookup k d1) as [v1|] eqn:E1, (lookup k d2) as [v2|] eqn:E2; try contradiction; auto.
    destruct (fd && special k) eqn:Efs.
    - apply andb_true_iff in Efs. destruct Efs as [Efd Esp]. unfold fd in Efd.
      apply andb_true_iff in Efd. destruct Efd as [F1 F2].
      unfold norm. rewrite (typeIsFontDirect_isfont _ F1), (typeIsFontDirect_isfont _ F2), Esp. simpl.
      unfold equalFontNames in Hk. unfold fontval.
      destruct (deref g v1); try discriminate. destruct (deref g v2); try discriminate.
      destruct (beqb (strip s) (strip s0)) eqn:Eb; try discriminate. apply beqb_eq in Eb. rewrite Eb.
      apply sim_refl.
    - apply norm_sim; assumption.
  Qed.

  Lemma compareDeref_sound : forall o1 o2,
    wfo o1 = true -> wfo o2 = true ->
    compareDeref g rec o1 o2 pairs = CT -> sim (S m) g o1 g o2.
  Proof.
    intros o1 o2 W1 W2 H. simpl.
    pose proof (wf_deref g o1 Hg W1) as V1. pose proof (wf_deref g o2 Hg W2) as V2.
    unfold compareDeref in H.
    destruct (deref g o1) eqn:E1, (deref g o2) eqn:E2; simpl; try discriminate; auto.
    - destruct (Bool.eqb b b0) eqn:E; try discriminate. apply Bool.eqb_prop. exact E.
    - destruct (z =? z0) eqn:E; try discriminate. apply Z.eqb_eq. exact E.
    - destruct (beqb t t0) eqn:E; try discriminate. apply beqb_eq. exact E.
    - destruct (beqb s s0) eqn:E; try discriminate. apply beqb_eq. exact E.
    - destruct (beqb s s0) eqn:E; try discriminate. apply beqb_eq. exact E.
    - destruct (beqb s s0) eqn:E; try discriminate. apply beqb_eq. exact E.
    - simpl in V1, V2. apply equalArrays_sound; assumption.
    - simpl in V1, V2. apply andb_true_iff in V1. apply andb_true_iff in V2. destruct V1, V2.
      apply equalDicts_sound; assumption.
    - simpl in V1, V2. apply andb_true_iff in V1. apply andb_true_iff in V2. destruct V1, V2.
      unfold equalStreamDicts in H.
      destruct (equalDicts g rec d d0 pairs) eqn:ED; try discriminate.
      destruct raw as [b1|]; try discriminate.
      destruct (beqb b1 (rawbytes raw0)) eqn:Eb; try discriminate. apply beqb_eq in Eb.
      split. apply equalDicts_sound; assumption. simpl. exact Eb.
  Qed.
End Sound.

Lemma equalObjectsD_nonrefs : forall f limit g o1 o2 pairs depth,
  isref o1 && isref o2 = false -> (limit <? depth) = false ->
  equalObjectsD (S f) limit g o1 o2 pairs depth =
  compareDeref g (fun x y p => equalObjectsD f limit g x y p (depth + 1)) o1 o2 pairs.
Proof.
  intros f limit g o1 o2 pairs depth H L. simpl. rewrite L.
  destruct o1, o2; simpl in *; try reflexivity; discriminate.
Qed.

Lemma eq_sound_gen : forall g limit, wfg g -> forall n fuel o1 o2 pairs depth,
  wfo o1 = true -> wfo o2 = true -> evenlen pairs = true ->
  equalObjectsD fuel limit g o1 o2 pairs depth = CT -> Phyp n g pairs -> sim n g o1 g o2.
Proof.
  intros g limit Hg n. induction n as [n IH] using lt_wf_ind.
  intros fuel o1 o2 pairs depth W1 W2 Ev H HP.
  destruct n as [|m]. exact I.
  destruct fuel as [|f]. discriminate.
  destruct (limit <? depth) eqn:EL. simpl in H. rewrite EL in H. discriminate.
  destruct (isref o1 && isref o2) eqn:ER.
  - apply andb_true_iff in ER. destruct ER as [R1 R2].
    destruct o1; try discriminate. destruct o2; try discriminate.
    rename nr into n1, gen into g1, nr0 into n2, gen0 into g2.
    pose proof H as H0. simpl in H. rewrite EL in H.
    destruct ((n1 =? n2) && (g1 =? g2)) eqn:Esame.
    + apply andb_true_iff in Esame. destruct Esame as [En _]. apply Z.eqb_eq in En. subst.
      apply (sim_ref_gen_l (S m) g n2 g2). apply sim_refl.
    + destruct (containsPair pairs n1 n2) eqn:EC.
      * apply Phyp_contains with (pairs := pairs); assumption.
      * apply compareDeref_sound with (rec := fun x y p => equalObjectsD f limit g x y p (depth + 1))
                                      (pairs := appendPair pairs n1 n2); auto.
        intros x y Wx Wy Hxy. apply (IH m (Nat.lt_succ_diag_r m) f x y (appendPair pairs n1 n2) (depth + 1)); auto.
        apply evenlen_appendPair. exact Ev.
        apply Phyp_append. exact Ev. apply Phyp_le with (n := S m). lia. exact HP.
        intros k Lk. apply (sim_ref_gen_l k g n1 g1). apply (sim_ref_gen_r k g _ g n2 g2).
        assert (k < S m)%nat as Lk' by lia.
        apply (IH k Lk' (S f) (ORef n1 g1) (ORef n2 g2) pairs depth); auto.
        apply Phyp_le with (n := S m). lia. exact HP.
  - rewrite equalObjectsD_nonrefs in H by assumption.
    apply compareDeref_sound with (rec := fun x y p => equalObjectsD f limit g x y p (depth + 1)) (pairs := pairs); auto.
    intros x y Wx Wy Hxy. apply (IH m (Nat.lt_succ_diag_r m) f x y pairs (depth + 1)); auto.
    apply Phyp_le with (n := S m). lia. exact HP.
Qed.

Lemma Phyp_nil : forall n g, Phyp n g [].
Proof. intros n g a b C. simpl in C. discriminate. Qed.

Theorem equal_objects_sound : forall g limit fuel o1 o2,
  wfg g -> wfo o1 = true -> wfo o2 = true ->
  EqualObjects fuel limit g o1 o2 [] = CT -> same_unfolding g o1 g o2.
Proof.
  intros g limit fuel o1 o2 Hg W1 W2 H n.
  apply (eq_sound_gen g limit Hg n fuel o1 o2 [] 0 W1 W2 eq_refl H (Phyp_nil n g)).
Qed.
