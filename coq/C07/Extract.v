From Coq Require Import Extraction ExtrOcamlBasic.
From PV Require Import Lib.ExtBase C01.FS C06.Model C07.Model.
Extraction "model.ml" ext_base_z ext_base_n ext_base_nat ext_base_res ext_base_list
  check_trace durable_after run_gob run_fonts run_collection tree_of_list content_of_list.
