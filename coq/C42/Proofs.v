(* C42: the checked arithmetic helpers, as translated from the source, are exact or report overflow. *)
From PV Require Import Lib.GoInt Lib.GoIntFacts C42.Generated.
From Coq Require Import Lia.
Open Scope Z_scope.

(* Specification, independent of the code: exact result when both operands are
   non-negative and the exact result fits in a signed w-bit integer; error otherwise. *)
Definition spec (w : Z) (exact : Z) (a b : Z) : res Z :=
  if (0 <=? a) && (0 <=? b) && (exact <=? maxS w) then Ok exact else Err.

Lemma maxS_pos w : 2 <= w -> 1 <= maxS w.
Proof. intros. unfold maxS. replace (w - 1) with (Z.succ (w - 2)) by lia.
  rewrite Z.pow_succ_r by lia. pose proof (pow2_pos (w - 2) ltac:(lia)). lia. Qed.

Lemma maxS_inS w : 1 <= w -> inS w (maxS w).
Proof. intros. unfold inS, minS, maxS. pose proof (pow2_pos (w - 1) ltac:(lia)). lia. Qed.

Lemma AddInt_correct w a b : 2 <= w -> inS w a -> inS w b ->
  AddInt w a b = spec w (a + b) a b.
Proof.
  intros Hw Ha Hb. unfold AddInt, spec, ssubw, saddw.
  pose proof (maxS_pos w Hw) as Hm. unfold inS in *.
  assert (Hmin : minS w = - maxS w - 1) by (unfold minS, maxS; lia).
  destruct (Z.ltb_spec a 0) as [Ha0|Ha0]; cbn [orb andb].
  { destruct (Z.leb_spec 0 a); [lia|]. reflexivity. }
  destruct (Z.ltb_spec b 0) as [Hb0|Hb0]; cbn [orb andb].
  { destruct (Z.leb_spec 0 a); [|lia]. destruct (Z.leb_spec 0 b); [lia|]. reflexivity. }
  rewrite (wrapS_id w (maxS w - b)) by (unfold inS; lia).
  destruct (Z.leb_spec 0 a); [|lia]. destruct (Z.leb_spec 0 b); [|lia]. cbn [andb].
  destruct (Z.gtb_spec a (maxS w - b)); destruct (Z.leb_spec (a + b) (maxS w)); try lia; try reflexivity.
  rewrite wrapS_id by (unfold inS; lia). reflexivity.
Qed.

Lemma quot_le_iff m a b : 0 < a -> 0 <= b -> 0 <= m -> (b <= Z.quot m a <-> a * b <= m).
Proof.
  intros Ha Hb Hm. rewrite Z.quot_div_nonneg by lia.
  split; intros H.
  - pose proof (Z.mul_div_le m a Ha). nia.
  - apply Z.div_le_lower_bound; lia.
Qed.

Lemma MultiplyInt_gen w a b : 2 <= w -> inS w a -> inS w b ->
  (if (((a <? 0) || (b <? 0)) || ((negb (a =? 0)) && (b >? (squow w (maxS w) a)))) then Err else (Ok (smulw w a b)))
  = spec w (a * b) a b.
Proof.
  intros Hw Ha Hb. unfold spec, squow, smulw.
  pose proof (maxS_pos w Hw) as Hm. unfold inS in *.
  assert (Hmin : minS w = - maxS w - 1) by (unfold minS, maxS; lia).
  destruct (Z.ltb_spec a 0) as [Ha0|Ha0]; cbn [orb andb].
  { destruct (Z.leb_spec 0 a); [lia|]. reflexivity. }
  destruct (Z.ltb_spec b 0) as [Hb0|Hb0]; cbn [orb andb].
  { destruct (Z.leb_spec 0 a); [|lia]. destruct (Z.leb_spec 0 b); [lia|]. reflexivity. }
  destruct (Z.leb_spec 0 a); [|lia]. destruct (Z.leb_spec 0 b); [|lia]. cbn [andb].
  destruct (Z.eqb_spec a 0) as [->|Hne]; cbn [negb andb].
  { rewrite Z.mul_0_l. destruct (Z.leb_spec 0 (maxS w)); [|lia].
    rewrite wrapS_id by (unfold inS; lia). reflexivity. }
  assert (Hq : 0 <= Z.quot (maxS w) a <= maxS w).
  { rewrite Z.quot_div_nonneg by lia. split; [apply Z.div_pos; lia|].
    apply Z.div_le_upper_bound; nia. }
  rewrite (wrapS_id w (Z.quot (maxS w) a)) by (unfold inS; lia).
  pose proof (quot_le_iff (maxS w) a b ltac:(lia) ltac:(lia) ltac:(lia)) as Hiff.
  destruct (Z.gtb_spec b (Z.quot (maxS w) a)) as [Hgt|Hle];
    destruct (Z.leb_spec (a * b) (maxS w)) as [Hfit|Hnofit]; try reflexivity.
  - exfalso. apply Hiff in Hfit. lia.
  - rewrite wrapS_id by (unfold inS; nia). reflexivity.
  - exfalso. apply Hiff in Hle. lia.
Qed.

Lemma MultiplyInt_correct w a b : 2 <= w -> inS w a -> inS w b ->
  MultiplyInt w a b = spec w (a * b) a b.
Proof. intros; unfold MultiplyInt; apply MultiplyInt_gen; assumption. Qed.

Lemma MultiplyInt64_correct w a b : inS 64 a -> inS 64 b ->
  MultiplyInt64 w a b = spec 64 (a * b) a b.
Proof. intros; unfold MultiplyInt64; apply MultiplyInt_gen; try assumption; lia. Qed.

(* "never a wrapped value": whenever Ok v is returned, v is the exact result and fits. *)
Lemma spec_ok_exact w exact a b v : spec w exact a b = Ok v -> v = exact /\ 0 <= a /\ 0 <= b /\ exact <= maxS w.
Proof.
  unfold spec. destruct (Z.leb_spec 0 a); destruct (Z.leb_spec 0 b); destruct (Z.leb_spec exact (maxS w));
  cbn [andb]; intros He; inversion He; lia.
Qed.
