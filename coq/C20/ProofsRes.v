(* C20 — resource consolidation: pruning the unused names of one page's (cloned) category
   dict leaves the resolution of every name of every page unchanged; without the clone it
   does not. *)
From Coq Require Import List ZArith NArith Bool Lia.
From PV Require Import C20.Model C20.Proofs.
Import ListNotations.
Open Scope Z_scope.

Lemma lookupR_prune : forall used n d,
  memb n used = true -> lookupR n (pruneR used d) = lookupR n d.
Proof.
  intros used n d Hn. induction d as [|[k v] r IH]; simpl. reflexivity.
  destruct (memb k used) eqn:Ek; simpl.
  - destruct (beqb k n); auto.
  - destruct (beqb k n) eqn:E; auto. apply beqb_eq in E. subst. congruence.
Qed.

Lemma lookupR_prune_unused : forall used n d,
  memb n used = false -> lookupR n (pruneR used d) = None.
Proof.
  intros used n d Hn. induction d as [|[k v] r IH]; simpl. reflexivity.
  destruct (memb k used) eqn:Ek; simpl; auto.
  destruct (beqb k n) eqn:E; auto. apply beqb_eq in E. subst. congruence.
Qed.

Lemma consolidateCloned_store : forall st pages, fst (consolidateCloned st pages) = st.
Proof.
  intros st pages. induction pages as [|p r IH]; simpl. reflexivity.
  destruct (consolidateCloned st r) as [st' ds]. simpl in *. exact IH.
Qed.

Lemma consolidateCloned_pages : forall st pages,
  snd (consolidateCloned st pages) = map (fun p => pruneR (snd p) (st (fst p))) pages.
Proof.
  intros st pages. induction pages as [|p r IH]; simpl. reflexivity.
  destruct (consolidateCloned st r) as [st' ds]. simpl in *. rewrite IH. reflexivity.
Qed.

(* every page, whatever the other pages use and share, resolves every name its content uses
   to the object the shared dict gave before the pass; the shared dicts are unchanged *)
Theorem consolidate_preserves_resolution : forall st pages,
  fst (consolidateCloned st pages) = st /\
  length (snd (consolidateCloned st pages)) = length pages /\
  forall i p d n, nth_error pages i = Some p ->
    nth_error (snd (consolidateCloned st pages)) i = Some d ->
    memb n (snd p) = true -> lookupR n d = lookupR n (st (fst p)).
Proof.
  intros st pages. split. apply consolidateCloned_store. split.
  - rewrite consolidateCloned_pages. apply map_length.
  - intros i p d n Hp Hd Hn. rewrite consolidateCloned_pages in Hd.
    rewrite (map_nth_error (fun p => pruneR (snd p) (st (fst p))) i pages Hp) in Hd. inversion Hd; subst.
    apply lookupR_prune. exact Hn.
Qed.

Definition nF1 : bytes := [70;49]%N.
Definition nF2 : bytes := [70;50]%N.
(* two pages share category dict 5 = {F1 -> 10, F2 -> 11}; page 1 uses F1, page 2 uses F2 *)
Definition share_st : rstore := fun i => if i =? 5 then [(nF1, 10); (nF2, 11)] else [].
Definition share_pages : list rpage := [(5, [nF1]); (5, [nF2])].

Theorem consolidate_inplace_refuted : exists st pages i p d n,
  nth_error pages i = Some p /\ nth_error (snd (consolidateInPlace st pages)) i = Some d /\
  memb n (snd p) = true /\ lookupR n (st (fst p)) = Some 11 /\ lookupR n d = None.
Proof.
  exists share_st, share_pages, 1%nat, (5, [nF2]), [], nF2.
  repeat split; vm_compute; reflexivity.
Qed.

(* ---- removeEmptyContentStreams ---- *)
Lemma removeEmpty_content : forall l, pageContent (removeEmpty l) = pageContent l.
Proof.
  unfold pageContent, removeEmpty. induction l as [|c r IH]; simpl. reflexivity.
  destruct c as [|x c']; simpl. exact IH. rewrite IH. reflexivity.
Qed.
Lemma removeEmpty_keeps : forall l c, In c (removeEmpty l) <-> In c l /\ c <> [].
Proof.
  intros l c. unfold removeEmpty. rewrite filter_In. split; intros [H1 H2]; split; auto.
  - intro E. subst. discriminate.
  - destruct c. contradiction. reflexivity.
Qed.
