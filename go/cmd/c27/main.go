// Harness for C27: tampering with signed bytes never validates.
// K: signedData / bytesForByteRange / contentsGapMatches of pdfcpu against the extracted model
//    on (file, tampered file) pairs.
// O: (1) on the real signedData: a byte changed inside the signed ranges changes the bytes
//    handed to the digest; (2) on the real ValidateSignatures: synthesised signed PDFs (CMS
//    made with the repo's pkcs7 package over a throw-away RSA key) and the shipped signed
//    samples, every single-byte change inside the signed ranges (exhaustive for the small
//    synthesised files, sampled for the samples), edits of the /Contents hex string and of
//    the /ByteRange values must never be reported valid / unmodified.
package main

import (
	"bytes"
	"crypto/sha1"
	"encoding/hex"
	"fmt"
	"os"
	"path/filepath"
	"strings"

	"github.com/pdfcpu/pdfcpu/pkg/api"
	"github.com/pdfcpu/pdfcpu/pkg/pdfcpu/model"
	"github.com/pdfcpu/pdfcpu/pkg/pdfcpu/pkcs7"
	"github.com/pdfcpu/pdfcpu/pkg/pdfcpu/sign"
	"github.com/pdfcpu/pdfcpu/pkg/pdfcpu/types"
	"verif/cmd/c28/synth"
	"verif/vh"
)

var r *vh.Run

func ints64(l []int64) string {
	s := make([]string, len(l))
	for i, v := range l {
		s[i] = vh.Int(v)
	}
	return strings.Join(s, ",")
}

func arrOf(l []int64) types.Array {
	a := types.Array{}
	for _, v := range l {
		a = append(a, types.Integer(int(v)))
	}
	return a
}

func resBytes(b []byte, err error) string {
	if err != nil {
		if sign.VerifC28IsMalformedByteRange(err) {
			return "err"
		}
		return "fatal:" + err.Error()
	}
	return "ok:" + vh.Hex(b)
}

const hexU = "0123456789ABCDEF"

func randHex(n int) string {
	b := make([]byte, n)
	for i := range b {
		b[i] = hexU[r.Rand.Intn(16)]
	}
	return string(b)
}

func inSigned(a []int64, i int64) bool {
	return len(a) == 4 && ((a[0] <= i && i < a[0]+a[1]) || (a[2] <= i && i < a[2]+a[3]))
}

// ---------- pure level: real signedData on (f, f') ----------
func pure() {
	n := r.Pick(2500, 25000)
	for k := 0; k < n; k++ {
		pre := make([]byte, 1+r.Rand.Intn(30))
		r.Rand.Read(pre)
		post := make([]byte, r.Rand.Intn(30))
		r.Rand.Read(post)
		c := randHex(2 * r.Rand.Intn(8))
		g := "<" + c + ">"
		if r.Rand.Intn(3) == 0 {
			g = "<" + strings.ToLower(c) + " >"
		}
		f := append(append(append([]byte{}, pre...), g...), post...)
		arr := []int64{0, int64(len(pre)), int64(len(pre) + len(g)), int64(len(post))}
		switch r.Rand.Intn(8) {
		case 0:
			arr[3] -= int64(r.Rand.Intn(3)) // not up to the end: still a valid ByteRange for signedData
			if arr[3] < 0 {
				arr[3] = 0
			}
		case 1:
			arr[1]--
		case 2:
			arr[2]++
		}
		i := r.Rand.Intn(len(f))
		f2 := append([]byte{}, f...)
		f2[i] ^= 1 << uint(r.Rand.Intn(8))
		d := types.Dict{"ByteRange": arrOf(arr), "Contents": types.HexLiteral(c)}
		func() {
			defer func() {
				if x := recover(); x != nil {
					r.OracleFail("c27-panic-signedData", map[string]any{"file": vh.Hex(f), "byteRange": arr}, fmt.Sprint(x))
				}
			}()
			o1, e1 := sign.VerifC28SignedData(bytes.NewReader(f), d)
			o2, e2 := sign.VerifC28SignedData(bytes.NewReader(f2), d)
			ca := "v" + vh.Hex([]byte(c))
			r.Case("signedData", []string{vh.Hex(f), ints64(arr), ca}, resBytes(o1, e1))
			r.Case("signedData", []string{vh.Hex(f2), ints64(arr), ca}, resBytes(o2, e2))
			b1, e3 := sign.VerifC28BytesForByteRange(bytes.NewReader(f), arrOf(arr))
			b2, e4 := sign.VerifC28BytesForByteRange(bytes.NewReader(f2), arrOf(arr))
			r.Case("bytesForByteRange", []string{vh.Hex(f2), ints64(arr)}, resBytes(b2, e4))
			gi := int64(i)
			switch {
			case inSigned(arr, gi):
				r.Count("pure:flip-in-signed-range")
				if e3 == nil && e4 == nil {
					if bytes.Equal(b1, b2) {
						r.OracleFail("c27-signed-data-unchanged-by-covered-byte", map[string]any{"file": vh.Hex(f), "byteRange": arr, "offset": i},
							"bytesForByteRange returns the same bytes although a covered byte differs")
					} else {
						r.OracleOK()
					}
				}
				if e1 == nil && e2 == nil && bytes.Equal(o1, o2) {
					r.OracleFail("c27-signed-data-unchanged-by-covered-byte", map[string]any{"file": vh.Hex(f), "byteRange": arr, "offset": i},
						"signedData returns the same bytes although a covered byte differs")
				}
			case gi >= arr[1] && gi < arr[2]:
				r.Count("pure:flip-in-gap")
				// an edit inside the gap, /Contents unchanged: accepted only if the hex digits are the same
				if e1 == nil && e2 == nil {
					n1, n2 := norm(f[arr[1]:arr[2]]), norm(f2[arr[1]:arr[2]])
					if n1 != n2 {
						r.OracleFail("c27-gap-edit-accepted", map[string]any{"file": vh.Hex(f2), "byteRange": arr, "offset": i},
							"the gap's hex digits changed but it still matches the unchanged /Contents")
					} else {
						r.OracleOK()
					}
				}
			default:
				r.Count("pure:flip-outside")
			}
			if arr[1] <= arr[2] && arr[2] <= int64(len(f2)) {
				g2 := f2[arr[1]:arr[2]]
				r.Case("contentsGapMatches", []string{vh.Hex(g2), vh.Hex([]byte(c))}, vh.Bool(sign.VerifC28ContentsGapMatches(g2, c)))
			}
		}()
	}
}

// protectedRegions locates, inside a CMS blob, the bytes the signer's signature protects or
// consists of: every signed attribute value (message digest, content type, ...) and the
// signature bits (EncryptedDigest).  Certificate copies, version numbers and algorithm
// parameters are not the signature value proper.
func protectedRegions(cms []byte) [][2]int {
	var out [][2]int
	defer func() { _ = recover() }()
	p7, err := pkcs7.Parse(cms)
	if err != nil {
		return nil
	}
	for _, sg := range p7.Signers {
		if len(sg.EncryptedDigest) > 0 {
			if k := bytes.Index(cms, sg.EncryptedDigest); k >= 0 {
				out = append(out, [2]int{k, k + len(sg.EncryptedDigest)})
			}
		}
		for _, a := range sg.AuthenticatedAttributes {
			if len(a.Value.Bytes) > 0 {
				if k := bytes.Index(cms, a.Value.Bytes); k >= 0 {
					out = append(out, [2]int{k, k + len(a.Value.Bytes)})
				}
			}
		}
	}
	return out
}

func inRegions(rs [][2]int, p int) bool {
	for _, x := range rs {
		if p >= x[0] && p < x[1] {
			return true
		}
	}
	return false
}

// isPadding: position p of the hex text lies in the run of '0' digits that ends the text and
// is longer than 16 digits (zero padding behind the DER blob).
func isPadding(hx []byte, p int) bool {
	e := len(hx)
	for e > 0 && hx[e-1] == '0' {
		e--
	}
	return len(hx)-e > 16 && p >= e+2
}

func norm(g []byte) string {
	var sb strings.Builder
	for _, c := range g {
		if strings.ContainsRune(" \t\n\f\r", rune(c)) {
			continue
		}
		if c >= 'a' && c <= 'f' {
			c -= 'a' - 'A'
		}
		sb.WriteByte(c)
	}
	return sb.String()
}

// ---------- end to end ----------
var baselineOK = map[string]int{}

// accepted reports whether some non-skipped signature result says valid / unmodified.
func verdicts(f []byte, shift int, onlyDTS bool) (valid, unmodified bool, parsed bool, panicMsg string) {
	infos, err := synth.Validate(f, shift)
	if err != nil && strings.HasPrefix(err.Error(), "PANIC") {
		return false, false, false, err.Error()
	}
	if infos == nil {
		return false, false, false, ""
	}
	for _, si := range infos {
		if si.Result == nil || (onlyDTS && !si.DTS) {
			continue
		}
		if si.Result.Status == model.SignatureStatusValid {
			valid = true
		}
		if si.Result.DocModified == model.False {
			unmodified = true
		}
	}
	return valid, unmodified, err == nil, ""
}

func tamperCheck(class, label string, f []byte, shift int, onlyDTS bool, what map[string]any) {
	valid, unmod, parsed, pm := verdicts(f, shift, onlyDTS)
	what["label"] = label
	what["shift"] = shift
	if pm != "" {
		what["file"] = vh.Hex(f)
		r.OracleFail("c27-panic-validate", what, pm)
		return
	}
	if !parsed {
		r.Count("e2e:tampered-file-rejected-by-reader")
	}
	if valid || unmod {
		if len(f) <= 1<<14 {
			what["file"] = vh.Hex(f)
		}
		r.OracleFail(class, what, fmt.Sprintf("tampered document reported valid=%v unmodified=%v", valid, unmod))
		return
	}
	r.OracleOK()
}

func e2eSynth(s *synth.Signer) {
	docs := r.Pick(2, 12)
	for k := 0; k < docs; k++ {
		payload := make([]byte, r.Rand.Intn(40))
		for j := range payload {
			payload[j] = " BTETqQ0123456789.\n"[r.Rand.Intn(19)]
		}
		d, err := synth.Build(s, synth.Options{Payload: payload, ExtraObjs: r.Rand.Intn(2), Lower: k%3 == 2})
		if err != nil {
			panic(err)
		}
		for _, shift := range []int{0, 1} {
			v, u, _, _ := verdicts(d.Bytes, shift, false)
			if shift == 1 && u {
				baselineOK["synth"]++
			}
			r.Count(fmt.Sprintf("e2e:baseline shift=%d valid=%v unmodified=%v", shift, v, u))
		}
		// every byte offset inside the signed ranges, one random bit each (all 8 bits in the thorough tier for the first docs)
		for i := 0; i < len(d.Bytes); i++ {
			if !inSigned(d.ByteRange, int64(i)) {
				continue
			}
			bits := []uint{uint(r.Rand.Intn(8))}
			if r.Thorough() && k < 3 {
				bits = []uint{0, 1, 2, 3, 4, 5, 6, 7}
			}
			for _, b := range bits {
				f := append([]byte{}, d.Bytes...)
				f[i] ^= 1 << b
				shift := 1
				if r.Rand.Intn(4) == 0 {
					shift = 0
				}
				r.Count("e2e:flip-in-signed-range")
				tamperCheck("c27-tampered-signed-byte-accepted", "synth", f, shift, false, map[string]any{"offset": i, "bit": b})
			}
		}
		// edits of the /Contents hex string (no padding: every digit belongs to the DER blob)
		for i := d.GapStart + 1; i < d.GapEnd-1; i++ {
			if !r.Thorough() && r.Rand.Intn(3) != 0 {
				continue
			}
			f := append([]byte{}, d.Bytes...)
			old := f[i]
			for f[i] == old || (f[i]|0x20) == (old|0x20) {
				f[i] = hexU[r.Rand.Intn(16)]
			}
			r.Count("e2e:contents-digit-edit")
			contentsEdit(f, i, d, s)
		}
		// edits of the /ByteRange values without re-signing
		n := int64(len(d.Bytes))
		for _, br := range [][]int64{
			{0, d.ByteRange[1] - 1, d.ByteRange[2], d.ByteRange[3]},
			{0, d.ByteRange[1], d.ByteRange[2] + 1, d.ByteRange[3] - 1},
			{0, d.ByteRange[1], d.ByteRange[2], d.ByteRange[3] - 1},
			{0, d.ByteRange[1], d.ByteRange[2], 0},
			{0, 0, d.ByteRange[2], d.ByteRange[3]},
			{0, d.ByteRange[1], d.ByteRange[2], n},
			{1, d.ByteRange[1] - 1, d.ByteRange[2], d.ByteRange[3]},
			{d.ByteRange[2], d.ByteRange[3], 0, d.ByteRange[1]},
			{0, d.ByteRange[1], d.ByteRange[2]},
			{0, d.ByteRange[1], d.ByteRange[2], d.ByteRange[3], 0},
			{0, 9223372036854775807, d.ByteRange[2], d.ByteRange[3]},
			{0, d.ByteRange[1], d.ByteRange[2], 9223372036854775807 - d.ByteRange[2]},
			{0, -1, d.ByteRange[2], d.ByteRange[3]},
		} {
			ss := make([]string, len(br))
			for i, v := range br {
				ss[i] = fmt.Sprint(v)
			}
			txt := "[" + strings.Join(ss, " ") + "]"
			if len(txt) > d.BRWidth {
				continue
			}
			f := append([]byte{}, d.Bytes...)
			copy(f[d.BRStart:d.BRStart+d.BRWidth], []byte(txt+strings.Repeat(" ", d.BRWidth-len(txt))))
			for _, shift := range []int{0, 1} {
				r.Count("e2e:byterange-edit")
				tamperCheck("c27-edited-byterange-accepted", "synth", f, shift, false, map[string]any{"byteRange": br})
			}
		}
		// appended data
		for _, shift := range []int{0, 1} {
			tamperCheck("c27-appended-data-accepted", "synth", append(append([]byte{}, d.Bytes...), '\n'), shift, false, map[string]any{"appended": 1})
			tamperCheck("c27-appended-data-accepted", "synth", synth.Increment(d.Bytes, "x"), shift, false, map[string]any{"appended": "increment"})
		}
	}
	if baselineOK["synth"] == 0 {
		r.OracleFail("c27-harness-baseline-never-unmodified", map[string]any{"what": "synthesised documents"},
			"no intact synthesised document is reported unmodified: the tamper oracle would be vacuous")
	}
}

// A changed digit of the signature value: never "valid"; "unmodified" is tolerated only when the
// changed byte lies in the CMS certificate copy (not protected by the signature itself; the
// changed certificate then fails the trust path) - counted, not failed.
func contentsEdit(f []byte, i int, d *synth.Doc, s *synth.Signer) {
	valid, unmod, _, pm := verdicts(f, 1, false)
	in := map[string]any{"label": "synth", "offset": i, "file": vh.Hex(f)}
	if pm != "" {
		r.OracleFail("c27-panic-validate", in, pm)
		return
	}
	if valid {
		r.OracleFail("c27-edited-signature-value-accepted", in, "edited /Contents reported valid")
		return
	}
	if unmod {
		cms, _ := hex.DecodeString(d.Hex)
		c0 := bytes.Index(cms, s.Cert.Raw)
		off := (i - d.GapStart - 1) / 2
		where := "unsigned-cms-field"
		if c0 >= 0 && off >= c0 && off < c0+len(s.Cert.Raw) {
			where = "certificate-copy"
		}
		if inRegions(protectedRegions(cms), off) {
			in["cmsOffset"] = off
			r.OracleFail("c27-edited-signature-value-still-unmodified", in,
				"a digit of the signature bits / signed attributes inside /Contents was changed; DocModified is still False")
			return
		}
		r.Count("observation:contents-edit-outside-signed-attributes-still-unmodified " + where)
	}
	r.OracleOK()
}

// ---------- forged eContent under a detached SubFilter ----------
type verdict struct {
	ok      bool
	status  model.SignatureStatus
	reason  model.SignatureReason
	docmod  int
	si      synth.SigInfo
	panicMs string
}

func verdictOf(f []byte, shift int) verdict {
	infos, err := synth.Validate(f, shift)
	if err != nil && strings.HasPrefix(err.Error(), "PANIC") {
		return verdict{panicMs: err.Error()}
	}
	for _, si := range infos {
		if si.Result != nil && !si.DTS {
			return verdict{ok: true, status: si.Result.Status, reason: si.Result.Reason, docmod: si.Result.DocModified, si: si}
		}
	}
	return verdict{}
}

func triS(d int) string {
	switch d {
	case model.False:
		return "F"
	case model.True:
		return "T"
	}
	return "U"
}

func contentsArg(c *string) string {
	if c == nil {
		return "-"
	}
	return "v" + vh.Hex([]byte(*c))
}

// forgedCheck: a document whose signed-range bytes are NOT what the signer signed (D) but whose
// CMS was given eContent must never get the genuine document's verdict or a better one.
func forgedCheck(label string, genuine verdict, forged []byte, shift int, D, cmsContent []byte, kOK bool) {
	vf := verdictOf(forged, shift)
	in := map[string]any{"label": label, "shift": shift, "file": vh.Hex(forged)}
	if vf.panicMs != "" {
		r.OracleFail("c27-panic-validate", in, vf.panicMs)
		return
	}
	if !vf.ok {
		r.Count("e2e:forged-econtent-rejected-by-reader")
		r.OracleOK()
		return
	}
	r.Count("e2e:forged-econtent " + label + " docmodified-" + triS(vf.docmod))
	same := genuine.ok && vf.status == genuine.status && vf.reason == genuine.reason && vf.docmod == genuine.docmod
	if vf.docmod == model.False || vf.status == model.SignatureStatusValid || same {
		r.OracleFail("c27-forged-econtent-accepted", in, fmt.Sprintf(
			"signed-range bytes differ from what the signer signed, CMS carries eContent: genuine (status=%v reason=%v docModified=%s) forged (status=%v reason=%v docModified=%s)",
			genuine.status, genuine.reason, triS(genuine.docmod), vf.status, vf.reason, triS(vf.docmod)))
	} else {
		r.OracleOK()
	}
	if kOK && vf.si.Arr != nil {
		data := synth.Lenient(forged, vf.si.Arr)
		h := sha1.Sum(data)
		r.Case("docModifiedP7", []string{vh.Hex(D), "", "true", vh.Bool(bytes.Equal(h[:], cmsContent)), "true", vh.Hex(cmsContent),
			vh.Int(int64(len(forged))), vh.Hex(forged), ints64(vf.si.Arr), contentsArg(vf.si.Contents),
			vh.Int(int64(vf.si.Increment)), "false"}, triS(vf.docmod))
	}
}

func randPayload(n int) []byte {
	p := make([]byte, n)
	for j := range p {
		p[j] = " BTETqQ0123456789.\n"[r.Rand.Intn(19)]
	}
	return p
}

func e2eForgedContent(s *synth.Signer) {
	docs := r.Pick(6, 40)
	for k := 0; k < docs; k++ {
		sub := []string{"adbe.pkcs7.detached", "ETSI.CAdES.detached"}[k%2]
		g, err := synth.Build(s, synth.Options{Payload: randPayload(5 + r.Rand.Intn(30)), SubFilter: sub})
		if err != nil {
			panic(err)
		}
		D := synth.Lenient(g.Bytes, g.ByteRange)
		cms, _ := hex.DecodeString(g.Hex)
		for _, shift := range []int{0, 1} {
			vg := verdictOf(g.Bytes, shift)
			if shift == 1 && vg.ok && vg.docmod == model.False {
				baselineOK["forged-genuine"]++
			}
			// K on the genuine document: no eContent
			if vg.ok && vg.si.Arr != nil {
				r.Case("docModifiedP7", []string{vh.Hex(D), "", "true", "false", "true", "", vh.Int(int64(len(g.Bytes))), vh.Hex(g.Bytes),
					ints64(vg.si.Arr), contentsArg(vg.si.Contents), vh.Int(int64(vg.si.Increment)), "false"}, triS(vg.docmod))
			}
			// (a) the originally signed bytes as eContent, a different page payload in the file
			if forgedCMS, err := synth.InjectContent(cms, D); err == nil {
				f, err := synth.Build(s, synth.Options{Payload: randPayload(5 + r.Rand.Intn(30)), SubFilter: sub,
					FixedCMS: forgedCMS, ExtraObjs: r.Rand.Intn(2)})
				if err == nil {
					forgedCheck("signed-bytes-as-econtent", vg, f.Bytes, shift, D, D, true)
				}
			}
			// (b) SHA-1 of the forged signed-range bytes as eContent (adbe.pkcs7.sha1 style)
			probe := bytes.Repeat([]byte{0x5a}, 20)
			if forgedCMS, err := synth.InjectContent(cms, probe); err == nil {
				opt := synth.Options{Payload: randPayload(5 + r.Rand.Intn(30)), SubFilter: sub, FixedCMS: forgedCMS}
				if f, err := synth.Build(s, opt); err == nil {
					// two passes: the digest of the final signed-range bytes goes into the eContent (same length)
					h := sha1.Sum(synth.Lenient(f.Bytes, f.ByteRange))
					fc, _ := synth.InjectContent(cms, h[:])
					hx := strings.ToUpper(hex.EncodeToString(fc))
					b := append([]byte{}, f.Bytes...)
					copy(b[f.GapStart+1:], hx)
					forgedCheck("sha1-of-forged-bytes-as-econtent", vg, b, shift, D, h[:], true)
				}
			}
		}
	}
	if baselineOK["forged-genuine"] == 0 {
		r.OracleFail("c27-harness-baseline-never-unmodified", map[string]any{"what": "genuine documents of the forged-eContent family"},
			"no genuine document is reported unmodified: the forged-eContent oracle would be vacuous")
	}
	// the shipped samples' CMS, given the sample's signed bytes as eContent, inside a synthesised shell
	repo := os.Getenv("VERIF_REPO")
	if repo == "" {
		repo = "/repo"
	}
	for _, path := range []string{"pkg/samples/signatures/ETSI.CAdES.detached/testPAdES_BB.pdf", "pkg/samples/signatures/adbe.pkcs7.detached/sample2.pdf"} {
		b, err := os.ReadFile(filepath.Join(repo, path))
		if err != nil {
			continue
		}
		label := filepath.Base(path)
		for _, shift := range []int{0, 1} {
			vg := verdictOf(b, shift)
			if !vg.ok || len(vg.si.Arr) != 4 || vg.si.Contents == nil || vg.si.Result == nil {
				r.Count("e2e:forged-econtent-sample-unusable " + label)
				continue
			}
			D := synth.Lenient(b, vg.si.Arr)
			cms, err := hex.DecodeString(*vg.si.Contents)
			if err != nil {
				continue
			}
			forgedCMS, err := synth.InjectContent(cms, D)
			if err != nil {
				r.Count("e2e:forged-econtent-sample-not-der " + label)
				continue
			}
			f, err := synth.Build(s, synth.Options{Payload: randPayload(20), SubFilter: vg.si.Result.Details.SubFilter, FixedCMS: forgedCMS})
			if err != nil {
				continue
			}
			forgedCheck("sample-cms-with-econtent "+label, vg, f.Bytes, shift, D, D, shift == 1)
		}
	}
}

// ---------- signature kinds: (encapsulated?, signed attributes?) and adbe.x509.rsa_sha1 ----------
type kind struct {
	name      string
	subFilter string
	hasAttrs  bool
	encaps    bool
	p1        bool
	baseline  bool // an intact document of this kind is expected to be reported unmodified (shift=1)
}

var kinds = []kind{
	{"pkcs7-detached+attrs", "adbe.pkcs7.detached", true, false, false, true},
	{"pkcs7-detached-noattrs", "adbe.pkcs7.detached", false, false, false, false},
	{"pkcs7-sha1+attrs", "adbe.pkcs7.sha1", true, true, false, true},
	{"pkcs7-sha1-noattrs", "adbe.pkcs7.sha1", false, true, false, true},
	{"x509-rsa-sha1", "adbe.x509.rsa_sha1", false, false, true, true},
}

func buildKind(s *synth.Signer, k kind) (*synth.Doc, error) {
	opt := synth.Options{Payload: randPayload(5 + r.Rand.Intn(30)), SubFilter: k.subFilter, ExtraObjs: r.Rand.Intn(2)}
	switch {
	case k.p1:
		opt.MakeCMS = s.P1Contents
		opt.ExtraSigEntries = s.CertEntry()
	case k.encaps:
		opt.MakeCMS = func(data []byte) ([]byte, error) {
			h := sha1.Sum(data)
			cms, err := s.CMS(h[:]) // messageDigest attribute = SHA-256 of the encapsulated SHA-1 value
			if err != nil {
				return nil, err
			}
			if cms, err = synth.InjectContent(cms, h[:]); err != nil {
				return nil, err
			}
			if !k.hasAttrs {
				return s.StripAttrs(cms, h[:])
			}
			return cms, nil
		}
	case !k.hasAttrs:
		opt.MakeCMS = func(data []byte) ([]byte, error) {
			cms, err := s.CMS(data)
			if err != nil {
				return nil, err
			}
			return s.StripAttrs(cms, data)
		}
	}
	return synth.Build(s, opt)
}

// K: the model's decision for a document of kind k whose /Contents blob is untouched
func kindCase(k kind, d *synth.Doc, D []byte, f []byte, v verdict) {
	if !v.ok || v.si.Arr == nil || v.si.SubFilter != k.subFilter || v.si.Contents == nil || !strings.EqualFold(*v.si.Contents, d.Hex) {
		return
	}
	tail := []string{vh.Int(int64(len(f))), vh.Hex(f), ints64(v.si.Arr), contentsArg(v.si.Contents), vh.Int(int64(v.si.Increment)), "false"}
	if k.p1 {
		r.Case("docModifiedP1", append([]string{vh.Hex(D)}, tail...), triS(v.docmod))
		return
	}
	var content []byte
	if k.encaps {
		h := sha1.Sum(D)
		content = h[:]
	}
	signedOver := D
	if k.encaps {
		signedOver = content
	}
	good, goodSig := "", ""
	if k.hasAttrs {
		good = vh.Hex(signedOver)
	} else {
		goodSig = vh.Hex(signedOver)
	}
	h := sha1.Sum(synth.Lenient(f, v.si.Arr))
	r.Case("docModifiedP7", append([]string{good, goodSig, vh.Bool(k.hasAttrs), vh.Bool(k.encaps && bytes.Equal(h[:], content)), "true", vh.Hex(content)}, tail...), triS(v.docmod))
	r.Count("k:" + k.name)
}

func e2eKinds(s *synth.Signer) {
	for _, k := range kinds {
		for n := 0; n < r.Pick(1, 3); n++ {
			d, err := buildKind(s, k)
			if err != nil {
				r.OracleFail("c27-harness-cannot-build-kind", map[string]any{"kind": k.name}, err.Error())
				continue
			}
			D := synth.Lenient(d.Bytes, d.ByteRange)
			for _, shift := range []int{0, 1} {
				v := verdictOf(d.Bytes, shift)
				r.Count(fmt.Sprintf("kind-baseline %s shift=%d docmodified=%s", k.name, shift, triS(v.docmod)))
				if shift == 1 && v.ok && v.docmod == model.False {
					baselineOK[k.name]++
				}
				kindCase(k, d, D, d.Bytes, v)
			}
			// named regions, always; then every signed offset (every second one in the quick tier)
			b := d.Bytes
			regions := map[string]int{
				"range1-header":  11,
				"range1-catalog": bytes.Index(b, []byte("/Catalog")) + 3,
				"range1-payload": bytes.Index(b, []byte("stream\n")) + 8,
				"after-contents": d.GapEnd,
				"after-contents+1": d.GapEnd + 1,
				"xref-entry":     bytes.LastIndex(b, []byte("\nxref\n")) + 31,
				"trailer":        bytes.LastIndex(b, []byte("trailer")) + 12,
				"startxref-val":  bytes.LastIndex(b, []byte("startxref\n")) + 10,
				"eof-marker":     bytes.LastIndex(b, []byte("%%EOF")) + 2,
				"last-byte":      len(b) - 1,
			}
			tamper := func(region string, i int, bit uint, shift int, withK bool) {
				f := append([]byte{}, b...)
				f[i] ^= 1 << bit
				v := verdictOf(f, shift)
				in := map[string]any{"kind": k.name, "region": region, "offset": i, "bit": bit, "shift": shift}
				switch {
				case v.panicMs != "":
					in["file"] = vh.Hex(f)
					r.OracleFail("c27-panic-validate", in, v.panicMs)
				case v.ok && (v.docmod == model.False || v.status == model.SignatureStatusValid):
					in["file"] = vh.Hex(f)
					r.OracleFail("c27-tampered-signed-byte-accepted", in, fmt.Sprintf("tampered %s document reported status=%v docModified=%s", k.name, v.status, triS(v.docmod)))
				default:
					r.OracleOK()
				}
				if withK && (i < d.DictStart || i >= d.DictEnd) {
					kindCase(k, d, D, f, v)
				}
			}
			for name, i := range regions {
				if i < 0 || i >= len(b) || !inSigned(d.ByteRange, int64(i)) {
					continue
				}
				for _, bit := range []uint{0, 5} {
					for _, shift := range []int{0, 1} {
						r.Count("kind-tamper:" + name)
						tamper(name, i, bit, shift, true)
					}
				}
			}
			for i := 0; i < len(b); i++ {
				if !inSigned(d.ByteRange, int64(i)) || (!r.Thorough() && r.Rand.Intn(2) == 0) {
					continue
				}
				region := "range1"
				if i >= d.GapEnd {
					region = "range2"
				}
				r.Count("kind-tamper:" + k.name + " " + region)
				shift := 1
				if r.Rand.Intn(4) == 0 {
					shift = 0
				}
				tamper(region, i, uint(r.Rand.Intn(8)), shift, r.Rand.Intn(12) == 0)
			}
		}
		if k.baseline && baselineOK[k.name] == 0 {
			r.OracleFail("c27-harness-baseline-never-unmodified", map[string]any{"what": "synthesised " + k.name + " documents"},
				"no intact document of this kind is reported unmodified: its tamper oracle would be vacuous")
		}
	}
}

// ---------- several signers in one CMS ----------
func nthIndex(b, pat []byte, n int) int {
	off := 0
	for k := 0; ; k++ {
		i := bytes.Index(b[off:], pat)
		if i < 0 {
			return -1
		}
		if k == n {
			return off + i
		}
		off += i + 1
	}
}

func statusKey(st model.SignatureStatus) string {
	switch st {
	case model.SignatureStatusValid:
		return "valid"
	case model.SignatureStatusInvalid:
		return "invalid"
	}
	return "unknown"
}

func e2eMultiSigner(ss []*synth.Signer) {
	type cfg struct {
		n    int
		algs []string
	}
	cfgs := []cfg{{2, []string{"sha256", "sha256"}}, {2, []string{"sha256", "sha512"}}, {3, []string{"sha256", "sha384", "sha256"}}, {3, []string{"sha512", "sha256", "sha384"}}}
	if !r.Thorough() {
		cfgs = cfgs[:3]
	}
	for _, c := range cfgs {
		signers := ss[:c.n]
		d, err := synth.Build(signers[0], synth.Options{Payload: randPayload(10 + r.Rand.Intn(20)),
			MakeCMS: func(data []byte) ([]byte, error) { return synth.MultiCMS(signers, c.algs, data) }})
		if err != nil {
			r.OracleFail("c27-harness-cannot-build-kind", map[string]any{"kind": "multi-signer"}, err.Error())
			continue
		}
		cms, _ := hex.DecodeString(d.Hex)
		p7, err := pkcs7.Parse(cms)
		if err != nil || len(p7.Signers) != c.n {
			r.OracleFail("c27-harness-cannot-build-kind", map[string]any{"kind": "multi-signer"}, fmt.Sprint("parse: ", err))
			continue
		}
		verdictAll := func(f []byte, shift int, all bool) verdict {
			infos, err := synth.ValidateAll(f, shift, all)
			if err != nil && strings.HasPrefix(err.Error(), "PANIC") {
				return verdict{panicMs: err.Error()}
			}
			for _, si := range infos {
				if si.Result != nil {
					return verdict{ok: true, status: si.Result.Status, reason: si.Result.Reason, docmod: si.Result.DocModified, si: si}
				}
			}
			return verdict{}
		}
		flags := func(tampered int) string {
			t := make([]string, c.n)
			for i := range t {
				t[i] = "110" // signature and digest fine, revocation status unknown offline
				if i == tampered {
					t[i] = "010"
				}
			}
			return strings.Join(t, ",")
		}
		for _, shift := range []int{0, 1} {
			for _, all := range []bool{false, true} {
				g := verdictAll(d.Bytes, shift, all)
				r.Count(fmt.Sprintf("multi-signer baseline n=%d shift=%d all=%v status=%s docmodified=%s", c.n, shift, all, statusKey(g.status), triS(g.docmod)))
				if g.ok {
					r.Case("p7Status", []string{"true", vh.Bool(all), flags(-1)}, statusKey(g.status))
					if shift == 1 && g.docmod == model.False {
						baselineOK["multi"]++
					}
				}
				for k := 0; k < c.n; k++ {
					type target struct {
						what string
						off  int // offset inside the CMS
						k    bool
					}
					var ts []target
					sg := p7.Signers[k]
					if i := bytes.Index(cms, sg.EncryptedDigest); i >= 0 {
						for _, o := range []int{0, len(sg.EncryptedDigest) / 2, len(sg.EncryptedDigest) - 1} {
							ts = append(ts, target{"signature-value", i + o, true})
						}
					}
					for _, a := range sg.AuthenticatedAttributes {
						if len(a.Value.Bytes) >= 22 { // the messageDigest attribute value (OCTET STRING)
							same := 0
							for j := 0; j < k; j++ {
								for _, a2 := range p7.Signers[j].AuthenticatedAttributes {
									if bytes.Equal(a2.Value.Bytes, a.Value.Bytes) {
										same++
									}
								}
							}
							if i := nthIndex(cms, a.Value.Bytes, same); i >= 0 {
								ts = append(ts, target{"signed-attribute", i + len(a.Value.Bytes) - 1, true})
							}
						}
					}
					if k < len(p7.Certificates) {
						if i := bytes.Index(cms, signers[k].Cert.Raw); i >= 0 {
							ts = append(ts, target{"certificate", i + len(signers[k].Cert.Raw) - 3, false})
						}
					}
					for _, t := range ts {
						f := append([]byte{}, d.Bytes...)
						pos := d.GapStart + 1 + 2*t.off + r.Rand.Intn(2)
						old := f[pos]
						for f[pos] == old {
							f[pos] = hexU[r.Rand.Intn(16)]
						}
						v := verdictAll(f, shift, all)
						in := map[string]any{"signers": c.n, "algs": c.algs, "tamperedSigner": k + 1, "what": t.what, "all": all, "shift": shift, "file": vh.Hex(f)}
						r.Count(fmt.Sprintf("multi-signer tamper signer=%d %s all=%v", k+1, t.what, all))
						switch {
						case v.panicMs != "":
							r.OracleFail("c27-panic-validate", in, v.panicMs)
						case !v.ok:
							r.OracleOK()
						case v.status == model.SignatureStatusValid:
							r.OracleFail("c27-tampered-signer-accepted", in, "a tampered signer and status valid")
						case all && g.ok && v.status == g.status && v.reason == g.reason && v.docmod == g.docmod:
							r.OracleFail("c27-tampered-signer-accepted", in, fmt.Sprintf(
								"validateAll: signer %d of %d was tampered (%s) but the verdict is the genuine one (status=%v reason=%v docModified=%s): the signer was not verified",
								k+1, c.n, t.what, v.status, v.reason, triS(v.docmod)))
						default:
							r.OracleOK()
						}
						if v.ok && t.k {
							r.Case("p7Status", []string{"true", vh.Bool(all), flags(k)}, statusKey(v.status))
						}
					}
				}
			}
		}
	}
	if baselineOK["multi"] == 0 {
		r.OracleFail("c27-harness-baseline-never-unmodified", map[string]any{"what": "multi-signer documents"},
			"no intact multi-signer document is reported unmodified: the multi-signer oracle would be vacuous")
	}
}

func e2eSamples() {
	repo := os.Getenv("VERIF_REPO")
	if repo == "" {
		repo = "/repo"
	}
	type sample struct {
		path    string
		shift   int
		onlyDTS bool
	}
	for _, sm := range []sample{
		{"pkg/samples/signatures/ETSI.CAdES.detached/testPAdES_BLTA.pdf", 0, true},
		{"pkg/samples/signatures/ETSI.CAdES.detached/testPAdES_BB.pdf", 1, false},
		{"pkg/samples/signatures/adbe.pkcs7.detached/sample2.pdf", 1, false},
	} {
		b, err := os.ReadFile(filepath.Join(repo, sm.path))
		if err != nil {
			r.Count("e2e:sample-missing")
			continue
		}
		label := filepath.Base(sm.path)
		infos, err := synth.Validate(b, sm.shift)
		if err != nil || infos == nil {
			r.Count("e2e:sample-unreadable " + label)
			continue
		}
		var arr []int64
		base := false
		for _, si := range infos {
			if si.Result != nil && si.Result.DocModified == model.False && (!sm.onlyDTS || si.DTS) && len(si.Arr) == 4 {
				base = true
				arr = si.Arr
			}
		}
		r.Count(fmt.Sprintf("e2e:sample-baseline %s unmodified=%v", label, base))
		if !base {
			continue
		}
		baselineOK["sample"]++
		n := r.Pick(40, 400)
		for k := 0; k < n; k++ {
			var i int64
			if r.Rand.Intn(2) == 0 {
				i = r.Rand.Int63n(arr[1])
			} else {
				i = arr[2] + r.Rand.Int63n(arr[3])
			}
			f := append([]byte{}, b...)
			bit := uint(r.Rand.Intn(8))
			f[i] ^= 1 << bit
			r.Count("e2e:sample-flip-in-signed-range")
			tamperCheck("c27-tampered-signed-byte-accepted", label, f, sm.shift, sm.onlyDTS, map[string]any{"offset": i, "bit": bit})
		}
		tamperCheck("c27-appended-data-accepted", label, append(append([]byte{}, b...), '\n'), sm.shift, sm.onlyDTS, map[string]any{"appended": 1})
		// edits of the signature value (/Contents hex digits) of the sample
		m := r.Pick(30, 300)
		for k := 0; k < m; k++ {
			i := arr[1] + 1 + r.Rand.Int63n(arr[2]-arr[1]-2)
			f := append([]byte{}, b...)
			old := f[i]
			if !strings.ContainsRune("0123456789abcdefABCDEF", rune(old)) {
				continue
			}
			for f[i] == old || (f[i]|0x20) == (old|0x20) {
				f[i] = hexU[r.Rand.Intn(16)]
			}
			// trailing zero padding behind the DER blob is not part of the signature value
			if isPadding(b[arr[1]+1:arr[2]-1], int(i-arr[1]-1)) {
				r.Count("e2e:sample-contents-edit-in-padding-skipped")
				continue
			}
			r.Count("e2e:sample-contents-digit-edit")
			valid, unmod, _, pm := verdicts(f, sm.shift, sm.onlyDTS)
			in := map[string]any{"label": label, "offset": i, "digit": string(f[i]), "shift": sm.shift}
			switch {
			case pm != "":
				r.OracleFail("c27-panic-validate", in, pm)
			case valid:
				r.OracleFail("c27-edited-signature-value-accepted", in, "edited /Contents reported valid")
			case unmod:
				hx := b[arr[1]+1 : arr[2]-1]
				cms, _ := hex.DecodeString(string(hx[:len(hx)&^1]))
				if inRegions(protectedRegions(cms), int(i-arr[1]-1)/2) {
					r.OracleFail("c27-edited-signature-value-still-unmodified", in,
						"a digit of the signature bits / signed attributes of the shipped sample was changed; DocModified is still False")
				} else {
					r.Count("observation:contents-edit-outside-signed-attributes-still-unmodified " + label)
					r.OracleOK()
				}
			default:
				r.OracleOK()
			}
		}
	}
	if baselineOK["sample"] == 0 {
		r.OracleFail("c27-harness-baseline-never-unmodified", map[string]any{"what": "shipped signed samples"},
			"no shipped signed sample is reported unmodified: the sample tamper oracle would be vacuous")
	}
}

func main() {
	r = vh.Start("C27")
	defer r.Finish()
	api.DisableConfigDir()
	pure()
	s, err := synth.NewSigner()
	if err != nil {
		panic(err)
	}
	if err := s.InstallTrust(filepath.Join(r.Dir, "certs")); err != nil {
		panic(err)
	}
	e2eSynth(s)
	e2eForgedContent(s)
	e2eKinds(s)
	ss := []*synth.Signer{s}
	for i := 1; i < 3; i++ {
		x, err := synth.NewSignerNamed(fmt.Sprintf("verif throw-away signer %d", i+1), int64(0x2728+i))
		if err != nil {
			panic(err)
		}
		if err := x.InstallTrust(filepath.Join(r.Dir, "certs")); err != nil {
			panic(err)
		}
		ss = append(ss, x)
	}
	e2eMultiSigner(ss)
	e2eSamples()
}
