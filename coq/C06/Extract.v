From Coq Require Import Extraction ExtrOcamlBasic.
From PV Require Import Lib.ExtBase C01.FS C06.Model.
Extraction "model.ml" ext_base_z ext_base_n ext_base_nat ext_base_res ext_base_list
  run_gob run_commit run_collection run_fonts run_cheat run_certs run_decide tree_of_list tree_to_list content_of_list.
