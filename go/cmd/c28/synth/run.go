package synth

import (
	"bytes"
	"fmt"

	"github.com/pdfcpu/pdfcpu/pkg/api"
	"github.com/pdfcpu/pdfcpu/pkg/pdfcpu"
	"github.com/pdfcpu/pdfcpu/pkg/pdfcpu/model"
	"github.com/pdfcpu/pdfcpu/pkg/pdfcpu/types"
)

// SigInfo is what the implementation sees and says for one signature.
type SigInfo struct {
	ObjNr     int
	Increment int   // as passed to validateSignature
	DTS       bool
	Arr       []int64 // /ByteRange values; nil if not an array of integers
	ArrLen    int
	Contents  *string // HexLiteral.Value() of /Contents
	Result    *model.SignatureValidationResult
	DictObjNr int    // object number of the signature dictionary (/V of the field)
	SubFilter string // /SubFilter of the signature dictionary as the reader sees it
	TypeName  string // /Type of the signature dictionary ("" = absent)
}

// Validate parses b and runs pdfcpu.ValidateSignatures(all=true). shift is subtracted from the
// xref increment numbers under which the reader filed the signatures (the reader counts the
// newest xref section as 1; shift=1 presents it as increment 0 = "current revision").
// A panic inside pdfcpu is returned as an error starting with "PANIC".
func Validate(b []byte, shift int) (infos []SigInfo, err error) { return ValidateAll(b, shift, true) }

// ValidateAll is Validate with the "all" flag of ValidateSignatures (false: only the
// authoritative / certified signature and its first signer).
func ValidateAll(b []byte, shift int, all bool) (infos []SigInfo, err error) {
	defer func() {
		if r := recover(); r != nil {
			err = fmt.Errorf("PANIC: %v", r)
		}
	}()
	conf := model.NewDefaultConfiguration()
	conf.Offline = true
	conf.Cmd = model.VALIDATESIGNATURES
	rs := bytes.NewReader(b)
	ctx, err := api.ReadValidateAndOptimize(rs, conf)
	if err != nil {
		return nil, err
	}
	if len(ctx.Signatures) == 0 {
		return nil, fmt.Errorf("no signatures")
	}
	if err := pdfcpu.LoadCertificates(); err != nil {
		return nil, err
	}
	if shift != 0 {
		m := map[int]map[int]model.Signature{}
		for k, v := range ctx.Signatures {
			m[k-shift] = v
		}
		ctx.Signatures = m
	}
	byObj := map[int]*SigInfo{}
	for inc, sigs := range ctx.Signatures {
		for objNr, sig := range sigs {
			si := SigInfo{ObjNr: objNr, Increment: inc, DTS: sig.Type == model.SigTypeDTS}
			if fd, e := ctx.DereferenceDict(*types.NewIndirectRef(objNr, 0)); e == nil && fd != nil {
				if ir := fd.IndirectRefEntry("V"); ir != nil {
					si.DictObjNr = ir.ObjectNumber.Value()
					if sd, e := ctx.DereferenceDict(*ir); e == nil && sd != nil {
						if n := sd.NameEntry("SubFilter"); n != nil {
							si.SubFilter = *n
						}
						if n := sd.NameEntry("Type"); n != nil {
							si.TypeName = *n
						}
						arr := sd.ArrayEntry("ByteRange")
						si.ArrLen = len(arr)
						ok := arr != nil
						var vals []int64
						for _, o := range arr {
							iv, isInt := o.(types.Integer)
							if !isInt {
								ok = false
								break
							}
							vals = append(vals, int64(iv.Value()))
						}
						if ok {
							si.Arr = vals
						}
						if hl := sd.HexLiteralEntry("Contents"); hl != nil {
							v := hl.Value()
							si.Contents = &v
						}
					}
				}
			}
			infos = append(infos, si)
		}
	}
	for i := range infos {
		byObj[infos[i].ObjNr] = &infos[i]
	}
	results, err := pdfcpu.ValidateSignatures(rs, ctx, all)
	if err != nil {
		return infos, err
	}
	for _, r := range results {
		if si := byObj[r.Signature.ObjNr]; si != nil && si.Result == nil {
			si.Result = r
		}
	}
	return infos, nil
}
