(* C39 — pdfcpu's own shape bound (trees grown from the empty tree): a leaf holds at most
   maxEntries names, an intermediate node has exactly two kids; histories from the empty tree. *)
From Coq Require Import List NArith Bool Lia PeanoNat.
From PV Require Import C39.Model C39.ProofsOrder C39.Proofs C39.ProofsRemove C39.ProofsHistory.
Import ListNotations.

Fixpoint bounded (n : node) : Prop :=
  match n with
  | Leaf ns _ _ => length ns <= maxEntries
  | Inner kids _ _ =>
      length kids = 2 /\
      (fix all (l : list node) : Prop := match l with [] => True | c :: r => bounded c /\ all r end) kids
  end.

Lemma bounded_inner2 c1 c2 a b : bounded (Inner [c1; c2] a b) <-> bounded c1 /\ bounded c2.
Proof. cbn. tauto. Qed.

Lemma bounded_inner_inv kids a b : bounded (Inner kids a b) -> exists c1 c2, kids = [c1; c2] /\ bounded c1 /\ bounded c2.
Proof.
  intros [Hl Ha]. destruct kids as [|c1 [|c2 [|c3 r]]]; try discriminate Hl.
  exists c1, c2. cbn in Ha. tauto.
Qed.

Lemma split_bounded ns a b : length ns <= S maxEntries -> bounded (split_check ns a b).
Proof.
  intros Hl. unfold split_check. destruct (Nat.eqb (length ns) (S maxEntries)) eqn:E.
  - apply Nat.eqb_eq in E. destruct ns as [|e1 [|e2 [|e3 [|e4 [|? ?]]]]]; try discriminate E.
    cbn. unfold maxEntries. lia.
  - apply Nat.eqb_neq in E. cbn. lia.
Qed.

Lemma handle_leaf_bounded ns a b k v : length ns <= maxEntries -> bounded (handle_leaf false ns a b k v).
Proof.
  intros Hl. destruct ns as [|e ns']; [cbn; unfold maxEntries; lia|].
  rewrite handle_leaf_ne by discriminate.
  destruct (kltb k a); [apply split_bounded; cbn in *; lia|].
  destruct (kltb b k); [apply split_bounded; rewrite app_length; cbn in *; lia|].
  cbn [ins_unique]. pose proof (ins_spec (e :: ns') k v) as Hi.
  destruct (ins (e :: ns') k v) as [[l at_end]|]; cbn [negb]; [|exact Hl].
  destruct Hi as [-> _]. apply split_bounded. pose proof (m_add_length k v (e :: ns')). lia.
Qed.

Lemma add_bounded n : forall k v, bounded n -> bounded (tadd false n k v).
Proof.
  induction n as [ns a b|kids a b IH] using node_ind'; intros k v Hb.
  - apply handle_leaf_bounded. exact Hb.
  - destruct (bounded_inner_inv _ _ _ Hb) as (c1 & c2 & -> & H1 & H2).
    inversion IH as [|? ? I1 IH']; subst. inversion IH' as [|? ? I2 _]; subst.
    rewrite tadd_inner.
    change (add_kids false k v [c1; c2]) with
      (if kltb k (nmin c1) || within c1 k then [tadd false c1 k v; c2] else [c1; tadd false c2 k v]).
    destruct (kltb k (nmin c1) || within c1 k); apply bounded_inner2; auto.
Qed.

Lemma m_remove_length k m : length (m_remove k m) <= length m.
Proof. induction m as [|[k' v'] m IH]; cbn; [lia|]. destruct (keqb k' k); cbn; lia. Qed.

(* removal from a leaf returns a leaf; "empty" is reported only for the canonical empty tree *)
Lemma remove_leaf_shape ns a b k n' e ok : remove_leaf ns a b k = R n' e ok ->
  (exists ns' a' b', n' = Leaf ns' a' b') /\ (e = true -> n' = empty_tree).
Proof.
  unfold remove_leaf. destruct ns as [|e1 r0].
  { intros E; inversion E; subst. split; [eauto|discriminate]. }
  unfold remove_leaf_names. destruct (kltb k a || kltb b k).
  { intros E; inversion E; subst. split; [eauto|discriminate]. }
  destruct r0 as [|e2 r].
  - intros E; inversion E; subst. split; [eauto|reflexivity].
  - destruct (keqb k a).
    { destruct e2. intros E; inversion E; subst. split; [eauto|discriminate]. }
    destruct (keqb k b).
    { cbv zeta. destruct (removelast (e1 :: e2 :: r)); [discriminate|].
      intros E; inversion E; subst. split; [eauto|discriminate]. }
    destruct (rm_names (e1 :: e2 :: r) k); intros E; inversion E; subst; (split; [eauto|discriminate]).
Qed.

Lemma remove_bounded n : forall k n' e ok, wf n -> bounded n -> tremove n k = R n' e ok ->
  bounded n' /\ (e = true -> n' = empty_tree).
Proof.
  induction n as [ns a b|kids a b IH] using node_ind'; intros k n' e ok Hw Hb E.
  - cbn [tremove] in E. destruct (remove_leaf_shape _ _ _ _ _ _ _ E) as [(ns' & a' & b' & ->) He].
    split; [|exact He].
    destruct (remove_ok (Leaf ns a b) k Hw) as (n2 & e2 & ok2 & E2 & _ & Hent & _).
    cbn [tremove] in E2. rewrite E in E2. inversion E2; subst. cbn in Hent. cbn. rewrite Hent.
    pose proof (m_remove_length k ns). cbn in Hb. lia.
  - destruct (bounded_inner_inv _ _ _ Hb) as (c1 & c2 & -> & H1 & H2).
    inversion IH as [|? ? I1 IH']; subst. inversion IH' as [|? ? I2 _]; subst.
    apply wf_inner in Hw. destruct Hw as (_ & (Hw1 & Hw2 & _) & _).
    rewrite tremove_inner in E.
    change (remove_kids k [c1; c2]) with
      (if within c1 k then
         match tremove c1 k with
         | RPanic => KPanic
         | R c' e ok => if ok then (if e then KDropped [c2] else KKept [c'; c2]) else KFail [c'; c2]
         end
       else match (if within c2 k then
                     match tremove c2 k with
                     | RPanic => KPanic
                     | R c' e ok => if ok then (if e then KDropped [] else KKept [c']) else KFail [c']
                     end
                   else KNone) with
            | KNone => KNone
            | KPanic => KPanic
            | KFail l' => KFail (c1 :: l')
            | KKept l' => KKept (c1 :: l')
            | KDropped l' => KDropped (c1 :: l')
            end) in E.
    destruct (within c1 k).
    + destruct (tremove c1 k) as [|c1' e1 ok1] eqn:E1; [discriminate|].
      destruct (I1 k c1' e1 ok1 Hw1 H1 E1) as [Hb1 _].
      destruct ok1; [destruct e1|]; inversion E; subst.
      * rewrite (wf_not_empty_leaf _ Hw2). split; [exact H2|discriminate].
      * split; [apply bounded_inner2; auto|discriminate].
      * split; [apply bounded_inner2; auto|discriminate].
    + destruct (within c2 k).
      * destruct (tremove c2 k) as [|c2' e2 ok2] eqn:E2; [discriminate|].
        destruct (I2 k c2' e2 ok2 Hw2 H2 E2) as [Hb2 _].
        destruct ok2; [destruct e2|]; inversion E; subst.
        -- rewrite (wf_not_empty_leaf _ Hw1). split; [exact H1|discriminate].
        -- split; [apply bounded_inner2; auto|discriminate].
        -- split; [apply bounded_inner2; auto|discriminate].
      * inversion E; subst. split; [apply bounded_inner2; auto|discriminate].
Qed.

(* reachable trees: the canonical empty tree, or well-formed and within pdfcpu's shape bound *)
Definition Inv0 (t : node) : Prop := t = empty_tree \/ (wf t /\ bounded t).

Lemma inv0_inv t : Inv0 t -> Inv t.
Proof. intros [->|[Hw _]]; [apply inv_empty|left; exact Hw]. Qed.

Lemma add_inv0 t k v : Inv0 t -> Inv0 (tadd false t k v) /\ entries (tadd false t k v) = m_add k v (entries t).
Proof.
  intros Hi. destruct (add_inv t k v (inv0_inv t Hi)) as [Hi' He]. split; [|exact He].
  right. split.
  - destruct Hi' as [Hw|(a & b & Hemp)]; [exact Hw|]. exfalso.
    rewrite Hemp in He. cbn in He. symmetry in He. exact (m_add_ne k v _ He).
  - destruct Hi as [->|[_ Hb]]; [cbn; unfold maxEntries; lia|apply add_bounded; exact Hb].
Qed.

Lemma history_from_reachable ops : forall t, Inv0 t -> rn_fresh (entries t) ops ->
  exists t', run ops t = Some t' /\ Inv0 t' /\ entries t' = spec_run ops (entries t).
Proof.
  induction ops as [|o r IH]; intros t Hi Hs.
  - exists t. split; [reflexivity|]. split; [exact Hi|reflexivity].
  - destruct Hs as [Ho Hs]. unfold spec_run. cbn [fold_left]. fold (spec_run r (spec_step (entries t) o)).
    cbn [run]. destruct o as [k v|k v|k]; cbn [step spec_step] in *.
    + destruct (add_inv0 t k v Hi) as [Hi' He]. rewrite <- He in *. exact (IH _ Hi' Hs).
    + rewrite (add_rn_fresh t k v Ho).
      destruct (add_inv0 t k v Hi) as [Hi' He]. rewrite <- He in *. exact (IH _ Hi' Hs).
    + destruct Hi as [->|[Hw Hb]].
      * cbn [entries empty_tree] in *. unfold empty_tree. rewrite remove_empty_leaf.
        cbn [m_remove] in Hs. apply (IH (Leaf [] [] [])); [left; reflexivity|exact Hs].
      * destruct (remove_ok t k Hw) as (n' & e & ok & E & _ & He & _ & _ & Hwf).
        rewrite E. destruct (remove_bounded t k n' e ok Hw Hb E) as [Hb' Hemp].
        rewrite <- He in Hs. rewrite <- He. apply IH; [|exact Hs].
        destruct e; [left; apply Hemp; reflexivity|right; split; [apply Hwf; reflexivity|exact Hb']].
Qed.

Lemma history_from_empty ops : rn_fresh [] ops ->
  exists t, run ops empty_tree = Some t /\ Inv0 t /\ entries t = spec_run ops [] /\
            lsorted (keys t) /\ (forall k, tvalue t k = m_lookup k (spec_run ops [])).
Proof.
  intros Hs. destruct (history_from_reachable ops empty_tree (or_introl eq_refl) Hs) as (t & Hr & Hi & He).
  exists t. split; [exact Hr|]. split; [exact Hi|]. split; [exact He|].
  pose proof (inv0_inv t Hi) as Hi'. split; [apply inv_sorted; exact Hi'|].
  intros k. change (@nil entry) with (entries empty_tree) in He. cbn in He. rewrite <- He. apply inv_value. exact Hi'.
Qed.
