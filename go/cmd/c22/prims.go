// Correspondence cases (model vs implementation) and direct round-trip oracles on the exported primitives.
package main

import (
	"bytes"
	"crypto/aes"
	"encoding/hex"
	"fmt"
	"sort"
	"strings"

	"github.com/pdfcpu/pdfcpu/pkg/pdfcpu"
	"github.com/pdfcpu/pdfcpu/pkg/pdfcpu/model"
	"github.com/pdfcpu/pdfcpu/pkg/pdfcpu/types"
	"verif/vh"
)

func resBytes(b []byte, err error) string {
	if err != nil {
		return "err"
	}
	return "ok:" + vh.Hex(b)
}

func rbytes(r *vh.Run, n int) []byte {
	b := make([]byte, n)
	r.Rand.Read(b)
	return b
}

func clone(b []byte) []byte { return append([]byte{}, b...) }

var dataLens = []int{0, 1, 2, 15, 16, 17, 31, 32, 33, 47, 48, 64, 100, 255, 256, 257}

// ---- RC4 + decryptKey ----

func primsRC4(r *vh.Run) {
	keyLens := []int{1, 5, 10, 16, 32, 255, 256}
	for _, kl := range keyLens {
		for _, dl := range dataLens {
			key, data := rbytes(r, kl), rbytes(r, dl)
			out, err := pdfcpu.VerifC22ApplyRC4Bytes(clone(data), clone(key))
			r.Case("rc4", []string{vh.Hex(key), vh.Hex(data)}, resBytes(out, err))
			if err == nil {
				back, err2 := pdfcpu.VerifC22ApplyRC4Bytes(clone(out), clone(key))
				if err2 != nil || !bytes.Equal(back, data) {
					r.OracleFail("rc4-not-involutive", map[string]any{"key": vh.Hex(key), "data": vh.Hex(data)}, "rc4(rc4(x)) != x")
				} else {
					r.OracleOK()
				}
			}
		}
	}
	for _, kl := range []int{0, 257, 300} { // KeySizeError
		key, data := rbytes(r, kl), rbytes(r, 8)
		out, err := pdfcpu.VerifC22ApplyRC4Bytes(clone(data), clone(key))
		r.Case("rc4", []string{vh.Hex(key), vh.Hex(data)}, resBytes(out, err))
	}
	n := r.Pick(60, 600)
	for i := 0; i < n; i++ {
		key, data := rbytes(r, 1+r.Rand.Intn(32)), rbytes(r, r.Rand.Intn(600))
		out, err := pdfcpu.VerifC22ApplyRC4Bytes(clone(data), clone(key))
		r.Case("rc4", []string{vh.Hex(key), vh.Hex(data)}, resBytes(out, err))
	}
	// decryptKey: boundaries of object / generation numbers, key lengths 5 (40 bit) .. 16 and 32
	objs := []int{-1, 0, 1, 2, 255, 256, 65535, 65536, 1<<24 - 1, 1 << 24, 1<<24 + 5, 1<<32 - 1, 1 << 32, 1<<32 + 7}
	gens := []int{-1, 0, 1, 255, 256, 65534, 65535, 65536}
	for _, kl := range []int{0, 5, 10, 11, 12, 16, 32} {
		for _, o := range objs {
			for _, g := range gens {
				for _, a := range []bool{false, true} {
					key := rbytes(r, kl)
					out, err := pdfcpu.VerifC22DecryptKey(o, g, clone(key), a)
					r.Case("decryptKey", []string{vh.Int(int64(o)), vh.Int(int64(g)), vh.Hex(key), vh.Bool(a)}, resBytes(out, err))
				}
			}
		}
	}
	for i := 0; i < n; i++ {
		key := rbytes(r, []int{5, 16}[r.Rand.Intn(2)])
		o, g := r.Rand.Intn(1<<24), r.Rand.Intn(3)
		rr := []int{2, 3, 4}[r.Rand.Intn(3)]
		data := rbytes(r, r.Rand.Intn(200))
		out, err := pdfcpu.VerifC22EncryptBytes(clone(data), o, g, clone(key), false, rr)
		r.Case("rc4bytes", []string{vh.Hex(data), vh.Int(int64(o)), vh.Int(int64(g)), vh.Hex(key), vh.Int(int64(rr))}, resBytes(out, err))
		out, err = pdfcpu.VerifC22EncryptStream(clone(data), o, g, clone(key), false, rr)
		r.Case("rc4stream", []string{vh.Hex(data), vh.Int(int64(o)), vh.Int(int64(g)), vh.Hex(key), vh.Int(int64(rr))}, resBytes(out, err))
	}
}

// ---- AES-CBC + padding ----

func tableOf(m map[string]string) string {
	ks := make([]string, 0, len(m))
	for k := range m {
		ks = append(ks, k)
	}
	sort.Strings(ks)
	var sb strings.Builder
	for i, k := range ks {
		if i > 0 {
			sb.WriteByte(',')
		}
		sb.WriteString(k + ":" + m[k])
	}
	return sb.String()
}

// decTable maps every 16-byte block of ct (after the IV) to its AES decryption under key.
func decTable(ct, key []byte) (dec map[string]string, enc map[string]string) {
	dec, enc = map[string]string{}, map[string]string{}
	cb, err := aes.NewCipher(key)
	if err != nil {
		return
	}
	for i := 16; i+16 <= len(ct); i += 16 {
		d := make([]byte, 16)
		cb.Decrypt(d, ct[i:i+16])
		dec[vh.Hex(ct[i:i+16])] = vh.Hex(d)
		enc[vh.Hex(d)] = vh.Hex(ct[i : i+16])
	}
	return
}

func aesErr(err error) string {
	return "err:" + pdfcpu.VerifC22AESErrClass(err)
}

func primsAES(r *vh.Run) {
	lens := append([]int{}, dataLens...)
	n := r.Pick(40, 400)
	for i := 0; i < n; i++ {
		lens = append(lens, r.Rand.Intn(700))
	}
	for _, kl := range []int{16, 32} {
		for _, dl := range lens {
			key, data := rbytes(r, kl), rbytes(r, dl)
			if r.Rand.Intn(4) == 0 && dl > 0 { // plaintexts that end like padding
				data[dl-1] = byte(r.Rand.Intn(18))
			}
			ct, err := pdfcpu.VerifC22EncryptAESBytes(clone(data), clone(key))
			if err != nil {
				r.OracleFail("aes-encrypt-error", map[string]any{"key": vh.Hex(key), "data": vh.Hex(data)}, err.Error())
				continue
			}
			dec, enc := decTable(ct, key)
			// model encrypts with the real IV and the real block cipher (by table): must give the same ciphertext
			r.Case("aesEncrypt", []string{vh.Hex(data), vh.Hex(ct[:16]), tableOf(enc)}, "ok:"+vh.Hex(ct))
			back, err := pdfcpu.VerifC22DecryptAESBytes(clone(ct), clone(key))
			r.Case("aesDecrypt", []string{vh.Hex(ct), tableOf(dec)}, resOrAES(back, err))
			if err != nil || !bytes.Equal(back, data) {
				r.OracleFail("aes-cbc-pad-roundtrip", map[string]any{"key": vh.Hex(key), "data": vh.Hex(data)}, fmt.Sprintf("decrypt(encrypt(x)) = %x, %v", back, err))
			} else {
				r.OracleOK()
			}
			r.Count(fmt.Sprintf("class:aes-len-mod16=%d", dl%16))
		}
	}
	// arbitrary (foreign / malformed) ciphertexts: short, unaligned, unpadded, last byte 0 / > 16
	for i := 0; i < r.Pick(120, 1200); i++ {
		key := rbytes(r, []int{16, 32}[r.Rand.Intn(2)])
		var l int
		switch r.Rand.Intn(4) {
		case 0:
			l = r.Rand.Intn(40)
		case 1:
			l = 16 * (2 + r.Rand.Intn(5))
		default:
			l = 32 + r.Rand.Intn(80)
		}
		ct := rbytes(r, l)
		dec, _ := decTable(ct, key)
		if l >= 32 && l%16 == 0 && r.Rand.Intn(2) == 0 {
			// force a chosen last plaintext byte: pick last plain block, encrypt backwards
			cb, _ := aes.NewCipher(key)
			p := rbytes(r, 16)
			p[15] = byte([]int{0, 1, 15, 16, 17, 32, 200}[r.Rand.Intn(7)])
			x := make([]byte, 16)
			for j := range x {
				x[j] = p[j] ^ ct[l-32+j]
			}
			cb.Encrypt(ct[l-16:], x)
			dec, _ = decTable(ct, key)
		}
		back, err := guardBytes(func() ([]byte, error) { return pdfcpu.VerifC22DecryptAESBytes(clone(ct), clone(key)) })
		r.Case("aesDecrypt", []string{vh.Hex(ct), tableOf(dec)}, resOrAES(back, err))
	}
	// full string / stream decrypt path (per-object key + AES) for AES-128 (R4) and AES-256 (R5/R6)
	for i := 0; i < r.Pick(60, 600); i++ {
		rr := []int{4, 5, 6}[r.Rand.Intn(3)]
		key := rbytes(r, 16)
		if rr != 4 {
			key = rbytes(r, 32)
		}
		o, g := r.Rand.Intn(1<<20), r.Rand.Intn(2)
		data := rbytes(r, r.Rand.Intn(100))
		ct, err := pdfcpu.VerifC22EncryptBytes(clone(data), o, g, clone(key), true, rr)
		if err != nil {
			r.OracleFail("aes-encrypt-error", map[string]any{"key": vh.Hex(key)}, err.Error())
			continue
		}
		k := key
		if rr == 4 {
			k, _ = pdfcpu.VerifC22DecryptKey(o, g, clone(key), true)
		}
		dec, _ := decTable(ct, k)
		back, err := pdfcpu.VerifC22DecryptBytes(clone(ct), o, g, clone(key), true, rr)
		r.Case("aesBytesDec", []string{vh.Hex(ct), vh.Int(int64(o)), vh.Int(int64(g)), vh.Hex(key), vh.Int(int64(rr)), tableOf(dec)}, resBytes(back, err))
		if err != nil || !bytes.Equal(back, data) {
			r.OracleFail("string-cipher-roundtrip", map[string]any{"key": vh.Hex(key), "data": vh.Hex(data), "r": rr}, "decryptBytes(encryptBytes(x)) != x")
		} else {
			r.OracleOK()
		}
		ct, err = pdfcpu.VerifC22EncryptStream(clone(data), o, g, clone(key), true, rr)
		if err == nil {
			dec, _ = decTable(ct, k)
			back, err = pdfcpu.VerifC22DecryptStream(clone(ct), o, g, clone(key), true, rr)
			r.Case("aesStreamDec", []string{vh.Hex(ct), vh.Int(int64(o)), vh.Int(int64(g)), vh.Hex(key), vh.Int(int64(rr)), tableOf(dec)}, resBytes(back, err))
			if err != nil || !bytes.Equal(back, data) {
				r.OracleFail("stream-cipher-roundtrip", map[string]any{"key": vh.Hex(key), "data": vh.Hex(data), "r": rr}, "decryptStream(encryptStream(x)) != x")
			} else {
				r.OracleOK()
			}
		}
	}
}

func guardBytes(f func() ([]byte, error)) (b []byte, err error) {
	defer func() {
		if x := recover(); x != nil {
			err = fmt.Errorf("PANIC: %v", x)
		}
	}()
	return f()
}

func resOrAES(b []byte, err error) string {
	if err != nil {
		if strings.HasPrefix(err.Error(), "PANIC") {
			return "panic"
		}
		return aesErr(err)
	}
	return "ok:" + vh.Hex(b)
}

// ---- object trees ----

type tnode struct {
	kind byte // n t f i r N s h R A D
	z    int64
	g    int64
	b    []byte
	kids []*tnode
	keys []string
}

var keyPool = []string{"A", "B", "Contents", "FT", "Type", "K", "Subtype", "V", "Z"}
var namePool = []string{"Sig", "DocTimeStamp", "Tx", "Annot", "Metadata", "XRef", "Sig2", "sig"}

func genTree(r *vh.Run, depth int) *tnode {
	k := r.Rand.Intn(14)
	if depth <= 0 && k >= 10 {
		k = r.Rand.Intn(10)
	}
	switch k {
	case 0:
		return &tnode{kind: 'n'}
	case 1:
		return &tnode{kind: []byte{'t', 'f'}[r.Rand.Intn(2)]}
	case 2:
		return &tnode{kind: 'i', z: int64(r.Rand.Intn(2000) - 1000)}
	case 3:
		return &tnode{kind: 'N', b: []byte(namePool[r.Rand.Intn(len(namePool))])}
	case 4:
		return &tnode{kind: 'R', z: int64(1 + r.Rand.Intn(500)), g: int64(r.Rand.Intn(2))}
	case 5, 6, 7:
		return &tnode{kind: 's', b: strBytesGen(r)}
	case 8, 9:
		return &tnode{kind: 'h', b: strBytesGen(r)}
	case 10, 11:
		n := r.Rand.Intn(4)
		t := &tnode{kind: 'A'}
		for i := 0; i < n; i++ {
			t.kids = append(t.kids, genTree(r, depth-1))
		}
		return t
	default:
		return genDict(r, depth)
	}
}

func genDict(r *vh.Run, depth int) *tnode {
	t := &tnode{kind: 'D'}
	used := map[string]bool{}
	n := r.Rand.Intn(6)
	for i := 0; i < n; i++ {
		k := keyPool[r.Rand.Intn(len(keyPool))]
		if used[k] {
			continue
		}
		used[k] = true
		t.keys = append(t.keys, k)
	}
	sort.Strings(t.keys)
	for _, k := range t.keys {
		var v *tnode
		if (k == "FT" || k == "Type") && r.Rand.Intn(5) != 0 {
			v = &tnode{kind: 'N', b: []byte(namePool[r.Rand.Intn(len(namePool))])}
			if r.Rand.Intn(8) == 0 {
				v = &tnode{kind: 'n'}
			}
		} else {
			v = genTree(r, depth-1)
		}
		t.kids = append(t.kids, v)
	}
	return t
}

func sortTree(t *tnode) {
	idx := make([]int, len(t.keys))
	for i := range idx {
		idx[i] = i
	}
	sort.Slice(idx, func(a, b int) bool { return t.keys[idx[a]] < t.keys[idx[b]] })
	ks, vs := make([]string, len(idx)), make([]*tnode, len(idx))
	for i, j := range idx {
		ks[i], vs[i] = t.keys[j], t.kids[j]
	}
	t.keys, t.kids = ks, vs
}

func strBytesGen(r *vh.Run) []byte {
	switch r.Rand.Intn(6) {
	case 0:
		return []byte{}
	case 1:
		return []byte("()\\\r\n\t\b\f") // everything Escape touches
	case 2:
		return rbytes(r, 16*(1+r.Rand.Intn(2)))
	default:
		return rbytes(r, 1+r.Rand.Intn(24))
	}
}

func (t *tnode) ser() string {
	switch t.kind {
	case 'n', 't', 'f':
		return string(t.kind)
	case 'i':
		return "i" + vh.Int(t.z)
	case 'r', 'N', 's', 'h':
		return string(t.kind) + vh.Hex(t.b)
	case 'R':
		return "R" + vh.Int(t.z) + "," + vh.Int(t.g)
	case 'A':
		parts := []string{fmt.Sprintf("A%d", len(t.kids))}
		for _, k := range t.kids {
			parts = append(parts, k.ser())
		}
		return strings.Join(parts, " ")
	default:
		parts := []string{fmt.Sprintf("D%d", len(t.kids))}
		for i, k := range t.kids {
			parts = append(parts, "k"+vh.Hex([]byte(t.keys[i])), k.ser())
		}
		return strings.Join(parts, " ")
	}
}

func (t *tnode) obj() types.Object {
	switch t.kind {
	case 'n':
		return nil
	case 't':
		return types.Boolean(true)
	case 'f':
		return types.Boolean(false)
	case 'i':
		return types.Integer(t.z)
	case 'N':
		return types.Name(string(t.b))
	case 's':
		s, _ := types.Escape(string(t.b))
		return types.StringLiteral(*s)
	case 'h':
		return types.NewHexLiteral(t.b)
	case 'R':
		return *types.NewIndirectRef(int(t.z), int(t.g))
	case 'A':
		a := types.Array{}
		for _, k := range t.kids {
			a = append(a, k.obj())
		}
		return a
	default:
		d := types.NewDict()
		for i, k := range t.kids {
			d[t.keys[i]] = k.obj()
		}
		return d
	}
}

// serObj canonicalises a pdfcpu object into the wire format (dict keys sorted).
func serObj(o types.Object) string {
	switch v := o.(type) {
	case nil:
		return "n"
	case types.Boolean:
		if v {
			return "t"
		}
		return "f"
	case types.Integer:
		return "i" + vh.Int(int64(v))
	case types.Name:
		return "N" + vh.Hex([]byte(v))
	case types.StringLiteral:
		b, err := types.Unescape(v.Value())
		if err != nil {
			return "s!unescape"
		}
		return "s" + vh.Hex(b)
	case types.HexLiteral:
		b, err := hex.DecodeString(v.Value())
		if err != nil {
			return "h!hex"
		}
		return "h" + vh.Hex(b)
	case types.IndirectRef:
		return "R" + vh.Int(int64(v.ObjectNumber)) + "," + vh.Int(int64(v.GenerationNumber))
	case types.Array:
		parts := []string{fmt.Sprintf("A%d", len(v))}
		for _, k := range v {
			parts = append(parts, serObj(k))
		}
		return strings.Join(parts, " ")
	case types.Dict:
		ks := make([]string, 0, len(v))
		for k := range v {
			ks = append(ks, k)
		}
		sort.Strings(ks)
		parts := []string{fmt.Sprintf("D%d", len(v))}
		for _, k := range ks {
			parts = append(parts, "k"+vh.Hex([]byte(k)), serObj(v[k]))
		}
		return strings.Join(parts, " ")
	}
	return fmt.Sprintf("?%T", o)
}

// the walkers return (nil,nil) for "modified in place / unchanged"
func walked(in types.Object, out types.Object, err error) string {
	if err != nil {
		return "err"
	}
	if out == nil {
		out = in
	}
	return "ok:" + serObj(out)
}

func primsTrees(r *vh.Run) {
	n := r.Pick(400, 4000)
	type algo struct {
		aes bool
		kl  int
		r   int
	}
	algos := []algo{{false, 5, 2}, {false, 16, 3}, {true, 16, 4}, {true, 32, 5}, {true, 32, 6}}
	for i := 0; i < n; i++ {
		t := genTree(r, 4)
		if i%3 == 0 {
			t = genDict(r, 4)
		}
		if i%7 == 3 { // signature dictionaries (Type or FT = Sig | DocTimeStamp) with a /Contents string, also nested
			t = sigDictTree(r)
			if r.Rand.Intn(2) == 0 {
				t.keys, t.kids = append(t.keys, "Z"), append(t.kids, genDict(r, 2))
			}
			if r.Rand.Intn(3) == 0 {
				for j, k := range t.keys {
					if k == "Type" {
						t.keys[j] = "FT"
					}
				}
				sortTree(t)
			}
			if r.Rand.Intn(3) == 0 {
				t = &tnode{kind: 'A', kids: []*tnode{{kind: 's', b: strBytesGen(r)}, t}}
			}
			r.Count("class:tree-sigdict")
		}
		o, g := 1+r.Rand.Intn(1<<16), r.Rand.Intn(2)
		a := algos[r.Rand.Intn(2)]
		key := rbytes(r, a.kl)
		// K: RC4 walkers against the model
		in := t.obj()
		out, err := guardObj(func() (types.Object, error) { return pdfcpu.VerifC22EncryptDeepObject(in, o, g, clone(key), false, a.r) })
		r.Case("encryptDeep", []string{t.ser(), vh.Int(int64(o)), vh.Int(int64(g)), vh.Hex(key), vh.Int(int64(a.r))}, walked(in, out, err))
		in2 := t.obj()
		out2, err2 := guardObj(func() (types.Object, error) { return pdfcpu.VerifC22DecryptDeepObject(in2, o, g, clone(key), false, a.r) })
		r.Case("decryptDeep", []string{t.ser(), vh.Int(int64(o)), vh.Int(int64(g)), vh.Hex(key), vh.Int(int64(a.r))}, walked(in2, out2, err2))
		if t.kind == 'D' {
			r.Count("class:tree-dict")
		}
		// O: decryptDeep(encryptDeep(o)) == o on the implementation, all five algorithm/revision pairs
		for _, al := range algos {
			k2 := rbytes(r, al.kl)
			x := t.obj()
			e, err := guardObj(func() (types.Object, error) { return pdfcpu.VerifC22EncryptDeepObject(x, o, g, clone(k2), al.aes, al.r) })
			if err != nil {
				r.OracleFail("deep-encrypt-error", map[string]any{"tree": t.ser(), "r": al.r, "aes": al.aes}, err.Error())
				continue
			}
			if e == nil {
				e = x
			}
			encSer := serObj(e)
			d, err := guardObj(func() (types.Object, error) { return pdfcpu.VerifC22DecryptDeepObject(e, o, g, clone(k2), al.aes, al.r) })
			if d == nil {
				d = e
			}
			if err != nil || serObj(d) != t.ser() {
				r.OracleFail("deep-roundtrip", map[string]any{"tree": t.ser(), "r": al.r, "aes": al.aes, "key": vh.Hex(k2), "obj": o, "gen": g},
					fmt.Sprintf("decryptDeep(encryptDeep(o)) = %s (%v)", serObj(d), err))
			} else {
				r.OracleOK()
			}
			// C23-style: every non-exempt, non-empty-path string leaf differs from the original
			_ = encSer
		}
	}
}

func guardObj(f func() (types.Object, error)) (o types.Object, err error) {
	defer func() {
		if x := recover(); x != nil {
			err = fmt.Errorf("PANIC: %v", x)
		}
	}()
	return f()
}

// ---- /Perms ----

func primsPerms(r *vh.Run) {
	ps := []int{0, 1, -1, -4, -44, -1849, -3904, 0xF0C3, 0xFFFF, 1<<31 - 1, -(1 << 31), 1 << 31, -(1 << 31) - 1, 1 << 32, 1<<32 - 1, 1<<63 - 1, -(1 << 63), 255, 256, 65535, 65536, -65536, 0x01020304, -0x01020304}
	for i := 0; i < r.Pick(50, 500); i++ {
		ps = append(ps, int(int32(r.Rand.Uint32())), int(int16(r.Rand.Uint32())))
	}
	for _, p := range ps {
		pb, err := pdfcpu.VerifC22PermissionBytes(p)
		r.Case("permBytes", []string{vh.Int(int64(p))}, resBytes(pb[:], err))
		r.Case("pReported", []string{vh.Int(int64(p))}, vh.Int(int64(int16(int(int16(p))))))
		for _, emd := range []bool{true, false} {
			key := rbytes(r, 32)
			ctx := &model.Context{XRefTable: &model.XRefTable{}}
			ctx.EncKey = key
			ctx.E = &model.Enc{R: []int{5, 6}[r.Rand.Intn(2)], P: p, Emd: emd, Perms: make([]byte, 16)}
			d := types.NewDict()
			err := pdfcpu.VerifC22WritePermissions(ctx, d)
			if err != nil {
				r.Case("permsBlock", []string{vh.Int(int64(p)), vh.Bool(emd)}, "err")
				continue
			}
			cb, _ := aes.NewCipher(key)
			blk := make([]byte, 16)
			cb.Decrypt(blk, ctx.E.Perms)
			r.Case("permsBlock", []string{vh.Int(int64(p)), vh.Bool(emd)}, "ok:"+vh.Hex(blk))
			// /Perms in the dict is what the reader parses
			hl, _ := d["Perms"].(types.HexLiteral)
			pb2, _ := hl.Bytes()
			ok, err := pdfcpu.VerifC22ValidatePermissions(ctx)
			if err != nil || !ok || !bytes.Equal(pb2, ctx.E.Perms) {
				r.OracleFail("perms-roundtrip", map[string]any{"p": p, "emd": emd}, fmt.Sprintf("validatePermissions(writePermissions) = %v, %v", ok, err))
			} else {
				r.OracleOK()
			}
			// tampered block / other P / other Emd: model (identity cipher on the decrypted block) vs implementation
			for j := 0; j < 6; j++ {
				b2 := clone(blk)
				q, emd2 := p, emd
				switch j {
				case 0:
				case 1:
					b2[r.Rand.Intn(4)] ^= byte(1 + r.Rand.Intn(255))
				case 2:
					b2[8+r.Rand.Intn(4)] ^= byte(1 + r.Rand.Intn(255))
				case 3:
					emd2 = !emd
				case 4:
					q = int(int32(r.Rand.Uint32()))
				case 5:
					b2[8] = []byte{'T', 'F', 't', 0}[r.Rand.Intn(4)]
				}
				c2 := &model.Context{XRefTable: &model.XRefTable{}}
				c2.EncKey = key
				enc := make([]byte, 16)
				cb.Encrypt(enc, b2)
				c2.E = &model.Enc{R: 6, P: q, Emd: emd2, Perms: enc}
				ok, err := pdfcpu.VerifC22ValidatePermissions(c2)
				res := "err"
				if err == nil {
					res = "ok:" + vh.Bool(ok)
				}
				r.Case("validatePerms", []string{vh.Hex(b2), vh.Int(int64(q)), vh.Bool(emd2)}, res)
			}
		}
	}
}
