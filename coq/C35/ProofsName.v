(* C35 — property names: DecodeName (EncodeName k) = k; the Info entries survive write + read. *)
From Coq Require Import NArith List Bool Lia.
From PV Require Import C35.Model C35.ProofsStr.
Import ListNotations.
Open Scope N_scope.

Lemma unhex_hexd : forall n, n < 16 -> unhex (hexd n) = Some n.
Proof.
  intros n H.
  assert (E : n = 0 \/ n = 1 \/ n = 2 \/ n = 3 \/ n = 4 \/ n = 5 \/ n = 6 \/ n = 7 \/ n = 8 \/ n = 9
              \/ n = 10 \/ n = 11 \/ n = 12 \/ n = 13 \/ n = 14 \/ n = 15) by lia.
  repeat (destruct E as [->|E]; [reflexivity|]). subst. reflexivity.
Qed.

Definition byte_nz (c : N) : Prop := c < 256 /\ c <> 0.

Lemma decode_encode_name : forall s, Forall byte_nz s -> decode_name (encode_name s) = Some s.
Proof.
  induction s as [|c r IH]; intros H; [reflexivity|].
  inversion H as [|? ? [Hc Hz] Hr]; subst. specialize (IH Hr). simpl.
  destruct (needs_hex c) eqn:NH.
  - cbn [decode_name]. change (35 =? 0) with false. change (35 =? 35) with true. cbv iota.
    assert (H1 : c / 16 < 16) by (apply N.div_lt_upper_bound; lia).
    assert (H2 : c mod 16 < 16) by (apply N.mod_lt; lia).
    rewrite (unhex_hexd _ H1), (unhex_hexd _ H2).
    assert (E : 16 * (c / 16) + c mod 16 = c) by (symmetry; apply N.div_mod; lia).
    rewrite E. apply N.eqb_neq in Hz. rewrite Hz. now rewrite IH.
  - cbn [decode_name]. apply N.eqb_neq in Hz. rewrite Hz.
    unfold needs_hex in NH. repeat (apply orb_false_iff in NH as [NH ?]).
    match goal with Hh : (c =? 35) = false |- _ => rewrite Hh end. now rewrite IH.
Qed.

Lemma name_bytes_spec : forall k, name_bytes k = true -> Forall byte_nz k.
Proof.
  unfold name_bytes. induction k as [|c r IH]; simpl; intros H; [constructor|].
  apply andb_true_iff in H as [Hc Hr]. apply andb_true_iff in Hc as [H1 H2].
  apply negb_true_iff in H1. apply N.ltb_lt in H2. apply N.eqb_neq in H1.
  constructor; [now split|now apply IH].
Qed.

(* invariant of the Info entries kept by the refinement *)
Definition good_entry (e : str * str) : Prop := wfname (fst e) = true /\ snd e <> [].

Lemma wfname_spec : forall k, wfname k = true -> name_bytes k = true /\ std_key k = false.
Proof.
  intros k H. unfold wfname in H. apply andb_true_iff in H as [H1 H2].
  apply negb_true_iff in H2. now split.
Qed.

Lemma persist_info_id : forall i, msorted i -> Forall good_entry i -> persist_info i = i.
Proof.
  induction i as [|[k v] r IH]; intros Hs Hg; [reflexivity|].
  inversion Hg as [|? ? [Hk _] Hr]; subst. destruct Hs as [Hlt Hs]. simpl in Hk.
  destruct (wfname_spec _ Hk) as [Hn _]. pose proof (name_bytes_spec _ Hn) as Hb.
  simpl. rewrite (decode_encode_name _ Hb). rewrite (IH Hs Hr). now apply m_set_head.
Qed.

Lemma props_read_id : forall i, msorted i -> Forall good_entry i -> props_read i = i.
Proof.
  induction i as [|[k v] r IH]; intros Hs Hg; [reflexivity|].
  inversion Hg as [|? ? [Hk Hv] Hr]; subst. destruct Hs as [Hlt Hs]. simpl in Hk, Hv.
  destruct (wfname_spec _ Hk) as [Hn Hstd].
  simpl. rewrite (IH Hs Hr), Hstd. destruct v as [|c v]; [congruence|].
  now rewrite m_set_head.
Qed.

(* removeAllProperties: delete(d, k) for every listed k *)
Lemma fold_del_all : forall (ps m : info),
  fold_left (fun a kv => m_del (fst kv) a) ps m
  = filter (fun e => negb (existsb (fun kv => seqb (fst kv) (fst e)) ps)) m.
Proof.
  induction ps as [|p r IH]; simpl; intros m.
  - symmetry. now apply filter_all_true.
  - rewrite IH.
    unfold m_del. clear. induction m as [|e m IHm]; simpl; [reflexivity|].
    destruct (seqb (fst p) (fst e)); simpl; [apply IHm|].
    destruct (existsb (fun kv => seqb (fst kv) (fst e)) r); simpl; [apply IHm|]. f_equal. apply IHm.
Qed.

Lemma remove_all_props : forall (i : info), fold_left (fun a kv => m_del (fst kv) a) i i = [].
Proof.
  intros i. rewrite fold_del_all.
  assert (G : forall l : info, (forall e, In e l -> In e i) ->
              filter (fun e => negb (existsb (fun kv => seqb (fst kv) (fst e)) i)) l = []).
  { induction l as [|e l IHl]; simpl; intros Hin; [reflexivity|].
    assert (X : existsb (fun kv => seqb (fst kv) (fst e)) i = true).
    { apply existsb_exists. exists e. split; [apply Hin; now left|apply seqb_refl]. }
    rewrite X. simpl. apply IHl. intros e' He'. apply Hin. now right. }
  apply G. auto.
Qed.
