// Local-zone part of the C14 harness.
//
// types.DateString reads the zone offset with t.Zone(), i.e. the offset in effect AT THE INSTANT t in
// t's Location.  For FixedZone/UTC times that is a constant; for time.Local it depends on the process'
// TZ and on the instant (DST phases, historical changes).  To be independent of the sandbox's zone the
// harness re-executes itself as a CHILD PROCESS with TZ=<zone>; the child builds time.Local values
// (time.Unix(sec,0) and time.Date(..., time.Local)), calls the real DateString / DateTime and reports
// raw results.  The parent derives the civil fields and the offset independently (time.LoadLocation of
// the same name, lookup on the UTC instant), feeds those to the model (correspondence on the emitted
// bytes, offset included) and evaluates the round-trip oracle.
package main

import (
	"bufio"
	"bytes"
	"encoding/hex"
	"fmt"
	"os"
	"os/exec"
	"strings"
	"time"
	_ "time/tzdata" // zone database embedded: no dependency on the host's zoneinfo

	"verif/vh"
)

const childEnv = "C14_CHILD_ZONE"

var localZones = []string{"Europe/Vienna", "America/New_York", "Australia/Lord_Howe", "Asia/Kathmandu", "Pacific/Apia", "UTC"}

// childMain: one request per stdin line, one reply per stdout line.
//   U <unix>            -> time.Unix(unix, 0)                       (Location == time.Local)
//   D y mo d h mi s     -> time.Date(y, mo, d, h, mi, s, 0, time.Local)
// reply: <unix> <own t.Zone() offset> <isLocal> <hex(DateString(t))|panic> <parse result of that string>
func childMain() {
	in := bufio.NewScanner(os.Stdin)
	in.Buffer(make([]byte, 1<<16), 1<<16)
	out := bufio.NewWriterSize(os.Stdout, 1<<20)
	defer out.Flush()
	for in.Scan() {
		f := strings.Fields(in.Text())
		if len(f) == 0 {
			continue
		}
		var t time.Time
		switch f[0] {
		case "U":
			var u int64
			fmt.Sscan(f[1], &u)
			t = time.Unix(u, 0)
		case "D":
			var y, mo, d, h, mi, s int
			fmt.Sscan(strings.Join(f[1:], " "), &y, &mo, &d, &h, &mi, &s)
			t = time.Date(y, time.Month(mo), d, h, mi, s, 0, time.Local)
		default:
			fmt.Fprintln(os.Stderr, "bad request", in.Text())
			os.Exit(3)
		}
		_, own := t.Zone()
		ds, p := dateString(t)
		dsHex, res := "panic", "-"
		if !p {
			dsHex = hex.EncodeToString([]byte(ds))
			t2, ok, pp := dateTime(ds)
			switch {
			case pp:
				res = "panic"
			case !ok:
				res = "err"
			default:
				_, off2 := t2.Zone()
				res = "ok:" + vh.Int(t2.Unix()) + "," + vh.Int(int64(off2))
			}
		}
		fmt.Fprintf(out, "%d %d %v %s %s\n", t.Unix(), own, t.Location() == time.Local, dsHex, res)
	}
}

func offAt(loc *time.Location, u int64) int {
	_, o := time.Unix(u, 0).In(loc).Zone()
	return o
}

// instants at which the zone offset of loc changes (first second of the new offset), found by scanning
func transitions(loc *time.Location, fromYear, toYear int) []int64 {
	var out []int64
	const step = 6 * 3600
	t0 := time.Date(fromYear, 1, 1, 0, 0, 0, 0, time.UTC).Unix()
	end := time.Date(toYear, 1, 1, 0, 0, 0, 0, time.UTC).Unix()
	prev := offAt(loc, t0)
	for t := t0 + step; t < end; t += step {
		o := offAt(loc, t)
		if o != prev {
			lo, hi := t-step, t // offAt(lo) == prev, offAt(hi) != prev
			for hi-lo > 1 {
				mid := lo + (hi-lo)/2
				if offAt(loc, mid) == prev {
					lo = mid
				} else {
					hi = mid
				}
			}
			out = append(out, hi)
		}
		prev = o
	}
	return out
}

func localRequests(loc *time.Location) []string {
	var reqs []string
	U := func(u int64) { reqs = append(reqs, fmt.Sprintf("U %d", u)) }
	D := func(t time.Time) { // wall clock reading t (in whatever zone t is) re-interpreted in time.Local by the child
		reqs = append(reqs, fmt.Sprintf("D %d %d %d %d %d %d", t.Year(), int(t.Month()), t.Day(), t.Hour(), t.Minute(), t.Second()))
	}
	trs := transitions(loc, 1840, 2045)
	if !r.Thorough() && len(trs) > 120 { // keep the oldest and the newest, sample the middle
		keep := append([]int64{}, trs[:30]...)
		keep = append(keep, trs[len(trs)-50:]...)
		for i := 0; i < 40; i++ {
			keep = append(keep, trs[30+r.Rand.Intn(len(trs)-80)])
		}
		trs = keep
	}
	for _, T := range trs {
		for _, d := range []int64{-86400, -3600, -1800, -1, 0, 1, 1799, 3599, 3600, 86400} {
			U(T + d)
		}
		// wall-clock readings around the change: fall into the gap or the overlap
		D(time.Unix(T, 0).In(loc))
		D(time.Unix(T-1, 0).In(loc))
		D(time.Unix(T-1, 0).In(loc).Add(time.Second))
		D(time.Unix(T, 0).In(loc).Add(-30 * time.Minute))
	}
	// both DST phases of every year around the supported rules, and far future (TZ rule extension)
	for y := 1850; y <= 2110; y += r.Pick(3, 1) {
		U(time.Date(y, 1, 15, 12, 0, 0, 0, time.UTC).Unix())
		U(time.Date(y, 7, 15, 12, 0, 0, 0, time.UTC).Unix())
		D(time.Date(y, 1, 15, 12, 0, 0, 0, time.UTC))
		D(time.Date(y, 7, 15, 12, 0, 0, 0, time.UTC))
	}
	for _, y := range []int{0, 1, 999, 1000, 1582, 5000, 9998, 9999} {
		for _, md := range [][2]int{{1, 1}, {2, 28}, {7, 1}, {12, 31}} {
			D(time.Date(y, time.Month(md[0]), md[1], 23, 59, 59, 0, time.UTC))
			D(time.Date(y, time.Month(md[0]), md[1], 0, 0, 0, 0, time.UTC))
		}
	}
	lo := time.Date(0, 1, 1, 0, 0, 0, 0, time.UTC).Unix()
	hi := time.Date(9999, 12, 31, 23, 59, 59, 0, time.UTC).Unix()
	for _, d := range []int64{-86400, 0, 50400, 86400} {
		U(lo + d)
		U(hi - d)
	}
	m0 := time.Date(1900, 1, 1, 0, 0, 0, 0, time.UTC).Unix()
	m1 := time.Date(2045, 1, 1, 0, 0, 0, 0, time.UTC).Unix()
	n := r.Pick(1200, 40000)
	for i := 0; i < n; i++ {
		U(m0 + r.Rand.Int63n(m1-m0))
		if i%3 == 0 {
			U(lo + r.Rand.Int63n(hi-lo))
		}
	}
	return reqs
}

func runLocalZones() {
	exe, err := os.Executable()
	if err != nil {
		panic(err)
	}
	for _, name := range localZones {
		loc, err := time.LoadLocation(name)
		if err != nil {
			panic("zone database unavailable: " + err.Error())
		}
		reqs := localRequests(loc)
		cmd := exec.Command(exe)
		cmd.Env = append(os.Environ(), "TZ="+name, childEnv+"="+name)
		cmd.Stdin = strings.NewReader(strings.Join(reqs, "\n") + "\n")
		var stdout, stderr bytes.Buffer
		cmd.Stdout, cmd.Stderr = &stdout, &stderr
		if err := cmd.Run(); err != nil {
			panic(fmt.Sprintf("child for TZ=%s failed: %v %s", name, err, stderr.String()))
		}
		lines := strings.Split(strings.TrimSpace(stdout.String()), "\n")
		if len(lines) != len(reqs) {
			panic(fmt.Sprintf("child for TZ=%s answered %d of %d requests", name, len(lines), len(reqs)))
		}
		offsSeen := map[int]bool{}
		for i, ln := range lines {
			var u int64
			var own int
			var isLocal bool
			var dsHex, res string
			if _, err := fmt.Sscan(ln, &u, &own, &isLocal, &dsHex, &res); err != nil {
				panic("bad child reply: " + ln)
			}
			// independent reading of the instant: zone lookup on the UTC instant in the named location
			c := civOf(time.Unix(u, 0).In(loc))
			if !isLocal || own != c.off {
				// the child's time.Local is not the requested zone: environment problem, the run proves nothing
				panic(fmt.Sprintf("TZ=%s not in effect in the child (request %q: local=%v own offset %d, expected %d)", name, reqs[i], isLocal, own, c.off))
			}
			offsSeen[c.off] = true
			in := map[string]any{"TZ": name, "request": reqs[i], "unix": u, "y": c.y, "mo": c.mo, "d": c.d, "h": c.h, "mi": c.mi, "s": c.s,
				"offset_seconds_at_t": c.off, "location": "time.Local"}
			if dsHex == "panic" {
				r.OracleFail("datestring-panic:local", in, "DateString panicked")
				continue
			}
			// K: the model gets the offset in effect at t (computed here, not by pdfcpu); the emitted bytes must agree
			r.Case("DateString", c.args(), dsHex)
			r.Case("DateTime", []string{dsHex}, res)
			r.Count("class:local-time:" + name)
			if !c.inScope() {
				r.Count("class:local-time-out-of-scope")
				continue
			}
			b, _ := hex.DecodeString(dsHex)
			s := string(b)
			in["written"] = s
			want := "ok:" + vh.Int(u) + "," + vh.Int(int64(c.off))
			switch {
			case !isoValid(s):
				r.OracleFail("datestring-not-iso:local"+tag(c), in, "DateString output is not a full ISO 32000 date string")
			case res == "panic":
				r.OracleFail("roundtrip-panic:local"+tag(c), in, "DateTime(DateString(t), false) panicked")
			case res == "err":
				r.OracleFail("roundtrip-rejected:local"+tag(c), in, "DateTime(DateString(t), false) is not ok")
			case !strings.HasPrefix(res, "ok:"+vh.Int(u)+","):
				r.OracleFail("roundtrip-instant:local"+tag(c), in, "parsed (unix,offset) "+res+" want "+want)
			case res != want:
				r.OracleFail("roundtrip-offset:local"+tag(c), in, "parsed (unix,offset) "+res+" want "+want)
			default:
				r.OracleOK()
			}
		}
		r.CountN("class:local-distinct-offsets:"+name, len(offsSeen))
	}
}
