(* C41 — CLI streams and machine-readable output behave like the file interface.
   Property theorems only; each is closed by an exact lemma and followed by Print Assumptions.

   Full statement (properties.jsonl): for every CLI command that accepts '-', stdin/stdout
   invocation produces the same document as the file invocation, no log text is mixed into
   document or JSON output on stdout, JSON commands print exactly one valid JSON document, a
   failing command exits non-zero.
   Proved here over the model of pkg/cli/io.go + runCommandWithOutput + main and over the tables
   regenerated from pkg/cli and cmd/pdfcpu: routing, logger switch-off before the first stdout
   byte, stdout = document bytes for every logger destination/state, equality with the file
   variant, exit status, clean-up.  NOT provable in Coq and checked only dynamically by the
   harness on the real binary: that api.X(rs, w) computes the same document from the temporary
   stdin copy as api.XFile does from the file, that loggers other than the CLI logger stay off
   stdout, and that the printed JSON text is one valid JSON value. *)
From Coq Require Import ZArith NArith List Bool String.
From PV Require Import C41.Model C41.Generated C41.Proofs.
Import ListNotations.
Local Open Scope list_scope.

(* whenever streamInOutForOperation picks stdout as the sink, the CLI logger is off afterwards,
   the switch-off is one of its effects, nothing has been written to stdout yet, and the
   effective output argument was "-" *)
Theorem C41_stdout_sink_disables_cli_log : forall i o e c s tr on',
  streamInOut i o e c = POk s SnkStdout tr on' ->
  on' = false /\ In EvLogOff tr /\ stdout_of tr = [] /\ eff_out i o = ADash.
Proof. exact stdout_sink_disables_cli_log_l. Qed.
Print Assumptions C41_stdout_sink_disables_cli_log.

(* the sink is stdout exactly for out = "-" or (in = "-" and out = "") *)
Theorem C41_sink_decision : forall i o e c s k tr on',
  streamInOut i o e c = POk s k tr on' ->
  (k = SnkStdout <-> (o = ADash \/ (i = ADash /\ o = AEmpty))).
Proof. exact sink_decision_l. Qed.
Print Assumptions C41_sink_decision.

(* totality: the decision is the explicit table decision_spec; the logger state changes only
   when the sink is stdout *)
Theorem C41_decision_total : forall i o e c,
  match streamInOut i o e c with
  | PErr cl _ on' => decision_spec i o e = inl cl /\ on' = c
  | POk s k _ on' => decision_spec i o e = inr (s, k)
                     /\ on' = (if match k with SnkStdout => true | _ => false end then false else c)
  end.
Proof. exact decision_total_l. Qed.
Print Assumptions C41_decision_total.

(* stdout sink: stdout carries exactly the bytes the operation wrote — for every destination and
   initial state of the CLI logger and any interleaving of log calls with writes;
   file sink: those bytes are in the file (and stdout is empty with this tree's stderr logger);
   failed preparation: nothing anywhere and the command fails *)
Theorem C41_stream_stdout_is_document : forall d c i o e acts ok,
  match streamInOut i o e c with
  | POk _ SnkStdout _ _ =>
      stdout_of (fst (run_stream d c i o e acts ok)) = writes_of acts
  | POk _ _ _ _ =>
      outfile_of (fst (run_stream d c i o e acts ok)) = writes_of acts
      /\ (d = DStderr -> stdout_of (fst (run_stream d c i o e acts ok)) = [])
  | PErr _ _ _ =>
      stdout_of (fst (run_stream d c i o e acts ok)) = []
      /\ outfile_of (fst (run_stream d c i o e acts ok)) = []
      /\ snd (run_stream d c i o e acts ok) = false
  end.
Proof. exact stream_stdout_is_document_l. Qed.
Print Assumptions C41_stream_stdout_is_document.

(* stream variant = file variant: same operation, same bytes, whatever the two invocations'
   logger states, sources and environments *)
Theorem C41_stream_equals_file :
  forall d1 c1 i1 o1 e1 d2 c2 i2 o2 e2 acts ok1 ok2 s1 tr1 on1 s2 k2 tr2 on2,
  streamInOut i1 o1 e1 c1 = POk s1 SnkStdout tr1 on1 ->
  streamInOut i2 o2 e2 c2 = POk s2 k2 tr2 on2 -> k2 <> SnkStdout ->
  stdout_of (fst (run_stream d1 c1 i1 o1 e1 acts ok1))
  = outfile_of (fst (run_stream d2 c2 i2 o2 e2 acts ok2)).
Proof. exact stream_equals_file_l. Qed.
Print Assumptions C41_stream_equals_file.

(* a failing operation makes the command fail, and a failed command exits with status <> 0 *)
Theorem C41_failing_command_nonzero_exit : forall d c i o e acts,
  snd (run_stream d c i o e acts false) = false
  /\ exit_status (snd (run_stream d c i o e acts false)) <> 0%Z
  /\ (forall ok, exit_status ok = 0%Z <-> ok = true).
Proof.
  intros d c i o e acts. split; [apply failing_stream_fails_l|].
  split; [apply exit_status_nonzero_l; apply failing_stream_fails_l|exact exit_status_zero_l].
Qed.
Print Assumptions C41_failing_command_nonzero_exit.

(* after any stream command the temporary stdin copy and the temporary output are gone; a
   failed one leaves the output path absent (fresh file) or untouched (existing file / stdout) *)
Theorem C41_stream_residue : forall d c i o e acts ok init,
  let r := run_stream d c i o e acts ok in
  let k := match streamInOut i o e c with POk _ k _ _ => k | _ => SnkFile end in
  let f := final_fs k init (fst r) in
  f_tin f = false /\ f_tmp f = false /\
  (snd r = false ->
     match streamInOut i o e c with
     | POk _ SnkFile _ _ => f_out f = 0%N
     | _ => f_out f = init
     end).
Proof. exact stream_residue_l. Qed.
Print Assumptions C41_stream_residue.

(* a successful stream command leaves the document at the output path (file sinks) or does not
   touch the file system (stdout sink) *)
Theorem C41_stream_success_fs : forall d c i o e acts init,
  let r := run_stream d c i o e acts true in
  match streamInOut i o e c with
  | POk _ SnkStdout _ _ => snd r = true /\ f_out (final_fs SnkStdout init (fst r)) = init
  | POk _ k _ _ => snd r = true -> f_out (final_fs k init (fst r)) = 2%N
  | PErr _ _ _ => snd r = false
  end.
Proof. exact stream_success_fs_l. Qed.
Print Assumptions C41_stream_success_fs.

(* T: every function of pkg/cli (table regenerated from the source on every run) that uses
   os.Stdout switches the CLI logger off first — hence its stdout is exactly the document —;
   os.Stdin is read only by the two readers; every function that looks at "-" and does I/O goes
   through the stream helper, a stdin helper or a guarded os.Stdout, or refuses "-";
   a function calling streamInOutForOperation hands no text lines to the printer *)
Theorem C41_cli_table_routes : forall r, In r cli_table ->
  (c_stdout r = true -> c_stdout_guarded r = true /\
     forall d c acts, stdout_of (run_direct_stdout (c_stdout_guarded r) d c acts) = writes_of acts)
  /\ (c_stdin r = true -> In (c_name r) stdin_readers)
  /\ (c_ndash r <> 0 -> c_does_io r = true ->
        c_reach_stream r = true \/ c_reach_stdin r = true \/ c_stdout r = true \/ c_stdin r = true
        \/ c_nreject r = c_ndash r)
  /\ (c_stream_direct r = true -> c_ret_nil r = true /\ forall q, stdout_of (print_lines q []) = []).
Proof. exact cli_rows_l. Qed.
Print Assumptions C41_cli_table_routes.

(* the guard matters: an unguarded writer with a logger pointed at stdout mixes text in *)
Theorem C41_guard_is_necessary : exists d c acts,
  stdout_of (run_direct_stdout false d c acts) <> writes_of acts.
Proof. exact direct_stdout_unguarded_leaks. Qed.
Print Assumptions C41_guard_is_necessary.

(* T, partial: every JSON-printing command (one row per "json" flag of cmd/pdfcpu) switches the
   CLI logger off in its handler — then stdout is exactly the JSON line for all log traffic —
   or in the function that executes it — then stdout is exactly the JSON line provided no CLI
   log call precedes the switch-off (missing: a static proof of that proviso and of the
   well-formedness of the JSON text; both are checked on the real binary by the harness) *)
Theorem C41_json_table_logoff_partial : forall r, In r json_table ->
  (j_handler_logoff r = true /\
     forall d c pre post json, stdout_of (run_json (j_handler_logoff r) d c pre post json) = json ++ [nl])
  \/ (j_cli_logoff r = true /\
     forall d c post json, stdout_of (run_json (j_handler_logoff r) d c [] post json) = json ++ [nl]).
Proof. exact json_rows_l. Qed.
Print Assumptions C41_json_table_logoff_partial.

(* with the CLI logger this tree installs (stderr) the JSON line is alone on stdout in any case *)
Theorem C41_json_stderr_logger : forall hl c pre post json,
  stdout_of (run_json hl DStderr c pre post json) = json ++ [nl].
Proof. exact json_stderr_logger_l. Qed.
Print Assumptions C41_json_stderr_logger.

(* SEVERAL inputs (ListInfo / ListInfoFiles and the commands built the same way): for every
   list of inputs, text or JSON, the stdin-aware loop and the file-only function return the
   same lines and the same success flag — also when some input is unreadable *)
Theorem C41_multi_stream_equals_file : forall json render ins,
  list_info_stream json render ins = list_info_files json render ins.
Proof. exact multi_stream_equals_file_l. Qed.
Print Assumptions C41_multi_stream_equals_file.

(* failing_command_nonzero_exit over input lists: as soon as one input is unreadable both
   variants exit non-zero and, in JSON mode, print nothing on stdout (no JSON document) *)
Theorem C41_multi_failing_command_nonzero_exit : forall json render ins quiet,
  existsb (fun r => negb (in_ok r)) ins = true ->
  snd (run_multi quiet (list_info_stream json render ins)) <> 0%Z
  /\ snd (run_multi quiet (list_info_files json render ins)) <> 0%Z
  /\ (json = true -> stdout_of (fst (run_multi quiet (list_info_stream json render ins))) = []
                  /\ stdout_of (fst (run_multi quiet (list_info_files json render ins))) = []).
Proof. exact multi_failing_l. Qed.
Print Assumptions C41_multi_failing_command_nonzero_exit.

(* the command succeeds exactly when every input is readable; then JSON mode prints exactly one
   line rendered from one entry per input, in input order *)
Theorem C41_multi_success : forall json render ins,
  snd (list_info_stream json render ins) = forallb in_ok ins
  /\ (forallb in_ok ins = true ->
      list_info_stream true render ins
      = ([render (map (fun r => match r with IOk _ e => e | IErr => [] end) ins)], true)).
Proof. intros json render ins. split; [apply multi_ok_iff_l|apply multi_json_success_l]. Qed.
Print Assumptions C41_multi_success.

Example C41_multi_nonvacuous :
  list_info_stream true (fun es => [N.of_nat (List.length es)]) [IOk [[1%N]] [1%N]; IErr] = ([], false)
  /\ list_info_stream true (fun es => [N.of_nat (List.length es)]) [IOk [[1%N]] [1%N]; IOk [[2%N]] [2%N]] = ([[2%N]], true)
  /\ fst (list_info_stream false (fun es => []) [IOk [[1%N]] [1%N]; IErr]) = [[1%N]; []].
Proof. vm_compute. repeat split; reflexivity. Qed.

(* PAGE SELECTIONS.  The selection is a finite map page -> bool (negated pages present with
   false); selected = keys with value true.  The counting loop of extractSelectedPageToStdout
   decides on `selected` alone: stdout gets a page exactly when one key has value true *)
Theorem C41_stdout_page_decision : forall m,
  stdout_page m = match selected m with [p] => Some p | _ => None end.
Proof. exact stdout_page_spec_l. Qed.
Print Assumptions C41_stdout_page_decision.

(* … independently of the order in which Go iterates the map *)
Theorem C41_stdout_page_order_independent : forall m m',
  Permutation.Permutation m m' -> stdout_page m = stdout_page m'.
Proof. exact stdout_page_perm_l. Qed.
Print Assumptions C41_stdout_page_order_independent.

(* stdout mode = file mode for every selection: the page document is on stdout with exit 0
   exactly when file mode writes exactly one file (and it is that file); otherwise stdout is
   empty and the exit status is 1 *)
Theorem C41_stdout_mode_equals_file_mode : forall doc m,
  stdout_mode doc m = match file_mode_outputs doc m with
                      | [d] => (d, 0%Z)
                      | _ => ([], 1%Z)
                      end.
Proof. exact stdout_mode_spec_l. Qed.
Print Assumptions C41_stdout_mode_equals_file_mode.

(* counting keys (len(pages) == 1, take the only key) is wrong both ways: '2-3,!2' would be
   refused and '!2' would write page 2 *)
Theorem C41_counting_keys_refuted :
  (exists m, stdout_page m = Some 3%Z /\ naive_stdout_page m = None)
  /\ (exists m, stdout_page m = None /\ naive_stdout_page m = Some 2%Z).
Proof. exact naive_stdout_page_wrong. Qed.
Print Assumptions C41_counting_keys_refuted.

(* T: in the regenerated table of functions consuming api.PagesForPageSelection, whoever ranges
   over the map has the count-by-value loop followed by `if count != 1 { return … }`, and no
   function uses len() or indexing on it *)
Theorem C41_selection_consumers_count_by_value : forall r, In r sel_table ->
  s_uses_len r = false /\ s_uses_index r = false
  /\ (s_ranges r = true -> s_counts_by_value r = true /\ s_single_guard r = true).
Proof. exact sel_rows_l. Qed.
Print Assumptions C41_selection_consumers_count_by_value.

Example C41_selection_nonvacuous :
  stdout_page [(2%Z, false); (3%Z, true)] = Some 3%Z
  /\ stdout_page [(1%Z, false); (2%Z, false); (3%Z, true)] = Some 3%Z
  /\ stdout_page [(5%Z, true); (6%Z, false)] = Some 5%Z
  /\ stdout_page [(2%Z, false)] = None
  /\ stdout_page [(1%Z, true); (3%Z, true)] = None
  /\ sel_table_has_stdout_fn = true.
Proof. vm_compute. repeat split; reflexivity. Qed.

(* READING STDIN.  stdin is a list of read results; read_all is an error as soon as ANY read
   fails, wherever it occurs, and otherwise the concatenated data *)
Theorem C41_read_all : forall cs,
  (In CErr cs -> read_all cs = None /\ stdin_res_of cs = SCopyFail)
  /\ (~ In CErr cs ->
      read_all cs = Some (flat_map (fun c => match c with CData b => b | CErr => [] end) cs)).
Proof. exact read_all_spec_l. Qed.
Print Assumptions C41_read_all.

(* stdin_error_is_fatal: a failing read at any position (also after a partial read) makes every
   command that reads "-" fail: non-zero exit status, nothing on stdout, nothing written to the
   output, temporary copy removed, output path untouched — for every output argument, logger
   state, operation and environment *)
Theorem C41_stdin_error_is_fatal : forall cs, In CErr cs ->
  forall d c o e acts ok init, e_stdin e = stdin_res_of cs ->
  let r := run_stream d c ADash o e acts ok in
  snd r = false /\ exit_status (snd r) <> 0%Z
  /\ stdout_of (fst r) = [] /\ outfile_of (fst r) = []
  /\ f_tin (final_fs SnkFile init (fst r)) = false
  /\ f_out (final_fs SnkFile init (fst r)) = init.
Proof. exact stdin_error_is_fatal_l. Qed.
Print Assumptions C41_stdin_error_is_fatal.

(* looking at the read error only when zero bytes arrived accepts a truncated stdin *)
Theorem C41_merged_stdin_checks_refuted :
  exists cs, In CErr cs /\ stdin_res_merged cs = SOk /\ stdin_res_of cs = SCopyFail.
Proof. exact stdin_merged_refuted. Qed.
Print Assumptions C41_merged_stdin_checks_refuted.

(* T: in the regenerated shape of readSeekerFromStdin the statement directly after
   `n, copyErr := io.Copy(f, os.Stdin)` is `if copyErr != nil { … return nil, err }`, its
   condition does not involve n, and the empty-stdin check `if n == 0` comes separately *)
Theorem C41_stdin_copy_error_checked_first : stdin_copy_shape_ok = true.
Proof. exact stdin_copy_shape_l. Qed.
Print Assumptions C41_stdin_copy_error_checked_first.

Example C41_stdin_nonvacuous :
  stdin_res_of [CData [37%N; 80%N]; CErr] = SCopyFail
  /\ stdin_res_of [CErr] = SCopyFail /\ stdin_res_of [] = SEmpty
  /\ stdin_res_of [CData [37%N]; CData [80%N]] = SOk
  /\ read_all [CData [37%N]; CData [80%N]] = Some [37%N; 80%N].
Proof. vm_compute. repeat split; reflexivity. Qed.

(* T: within one function of pkg/cli a generic slot of Command (BoolVal1/2/3, IntVal, StringVal)
   is bound to ONE parameter name of the api functions it is passed to — the stdin branch and
   the file branch cannot hand the --json flag to the parameter the --all flag belongs to *)
Theorem C41_flag_slots_consistent : forall r, In r flag_table -> fl_nnames r = 1%nat.
Proof. exact flag_rows_l. Qed.
Print Assumptions C41_flag_slots_consistent.

(* non-vacuity: both sinks and an error occur; the tables are non-empty and contain the helpers *)
Example C41_nonvacuous :
  (exists tr, streamInOut ADash AEmpty (mkEnv SOk true CNew true) true = POk SrcStdin SnkStdout tr false)
  /\ (exists tr, streamInOut APath APath (mkEnv SOk true CReplace true) true = POk SrcFile SnkTemp tr true)
  /\ (exists tr, streamInOut ADash APath (mkEnv SEmpty true CNew true) true = PErr ErrStdinEmpty tr true)
  /\ stdout_of (fst (run_stream DStdout true APath ADash (mkEnv SOk true CNew true)
                                [ALog [76%N]; AWrite [1%N; 2%N]; ALog [76%N]] true)) = [1%N; 2%N]
  /\ helper_facts_ok = true.
Proof.
  repeat split; try (eexists; vm_compute; reflexivity); vm_compute; reflexivity.
Qed.
