open Model
open Common
let b = bool_of_str
let outcome = function
  | Proceed -> "ok" | Denied -> "denied" | InvalidPerms -> "invalid-perms"
  | OwnerRequired -> "owner-required" | WrongPassword -> "wrong-password"
  | EncryptedUnsupported -> "encrypted-unsupported" | NotEncrypted -> "not-encrypted"
let kind = function
  | KFree -> "free" | KExtract -> "extract" | KModify -> "modify" | KEither -> "either" | KRow -> "row"
let rec len l = match l with [] -> 0 | _ :: t -> 1 + len t
let dispatch fn args = match fn, args with
  | "maskExtract", [m; r] -> hex_of_z (maskExtract (z_of_hex m) (z_of_hex r))
  | "maskModify", [m; r] -> hex_of_z (maskModify (z_of_hex m) (z_of_hex r))
  | "hasNeeded", [m; p; r] -> str_of_bool (hasNeededPermissions (z_of_hex m) (z_of_hex p) (z_of_hex r))
  | "needsBoth", [m] -> str_of_bool (needsOwnerAndUserPassword (z_of_hex m))
  | "permRow", [m] ->
    (match perm_lookup perm_table (z_of_hex m) with
     | None -> "none"
     | Some (e, mo) -> hex_of_z e ^ "," ^ hex_of_z mo)
  | "apiEntryCount", [] -> string_of_int (len api_entry_mode_lists)
  | "apiEntry", [i] ->
    (match List.nth_opt api_entry_mode_lists (int_of_string i) with
     | None -> "none"
     | Some l -> string_of_zlist l)
  | "tableSize", [] -> string_of_int (len perm_table)
  (* opw / upw: the raw password bytes as hex pairs ("" = empty string) *)
  | "handlePermissions", [pok; opw; upw; m; p; r] ->
    outcome (handlePermissions (b pok) (bytes_of_hex opw) (bytes_of_hex upw) (z_of_hex m) (z_of_hex p) (z_of_hex r))
  | "access", [enc; ook; uok; pok; opw; upw; m; p; r] ->
    outcome (checkForEncryption (b enc) (b ook) (b uok) (b pok) (bytes_of_hex opw) (bytes_of_hex upw) (z_of_hex m) (z_of_hex p) (z_of_hex r))
  | "validateOwnerPassword", [r; opw; matches] ->
    str_of_bool (validateOwnerPassword (z_of_hex r) (bytes_of_hex opw) (b matches))
  | "noCredentials", [opw; upw] -> str_of_bool (noCredentialsSupplied (bytes_of_hex opw) (bytes_of_hex upw))
  | "specKind", [m] -> kind (spec_kind (z_of_hex m))
  | "specMustRefuse", [m; p; r] -> str_of_bool (spec_must_refuse (spec_kind (z_of_hex m)) (z_of_hex p) (z_of_hex r))
  | _ -> failwith ("unknown function " ^ fn)
let () = main dispatch
