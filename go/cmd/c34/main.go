// Harness for C34: booklet and n-up placement.
//
//	K  position functions (translated into coq/C34/Generated.v) against the real ones, slot by slot;
//	   getBookletOrdering (hand model, incl. the multi-folio loop) against the real one for every
//	   selected-page count x configuration x folio size; n-up/grid slot sequence and output page
//	   count recovered from the PDF written by api.NUp / api.Grid against nupSlots / nupOutputPages.
//	O  the property itself on the implementation: every selected page exactly once, blanks only as
//	   padding (< one sheet), whole sheets; n-up: ceil(k/N) pages, pages in order; the same on the
//	   files written by api.Booklet. Panics are recovered and reported.
package main

import (
	"bytes"
	"fmt"
	"regexp"
	"sort"
	"strconv"
	"strings"

	"github.com/pdfcpu/pdfcpu/pkg/api"
	"github.com/pdfcpu/pdfcpu/pkg/pdfcpu"
	"github.com/pdfcpu/pdfcpu/pkg/pdfcpu/model"
	"github.com/pdfcpu/pdfcpu/pkg/pdfcpu/types"
	"verif/vh"
)

const classMultiFolio = "booklet-multifolio-N>=4"

type cfg struct {
	n          int // pages per sheet side
	cols, rows int
	btype      model.BookletType
	binding    model.BookletBinding
	dim        types.Dim
	multifolio bool
	folio      int
}

func (c cfg) nup() *model.NUp {
	nup := pdfcpu.DefaultBookletConfig()
	d := c.dim
	nup.PageDim = &d
	nup.Grid = &types.Dim{Width: float64(c.cols), Height: float64(c.rows)}
	nup.BookletType = c.btype
	nup.BookletBinding = c.binding
	nup.MultiFolio = c.multifolio
	nup.FolioSize = c.folio
	return nup
}

func (c cfg) input(pages []int) map[string]any {
	return map[string]any{"N": c.n, "grid": fmt.Sprintf("%dx%d", c.cols, c.rows), "btype": c.btype.String(), "binding": c.binding.String(),
		"pageDim": fmt.Sprintf("%gx%g", c.dim.Width, c.dim.Height), "multifolio": c.multifolio, "folioSize": c.folio,
		"selectedPages": len(pages), "pages": summarize(pages)}
}

func summarize(p []int) string {
	if len(p) > 24 {
		return fmt.Sprint(p[:24]) + "..."
	}
	return fmt.Sprint(p)
}

func fmtBP(bp []model.BookletPage) string {
	ss := make([]string, len(bp))
	for i, b := range bp {
		ss[i] = vh.Int(int64(b.Number))
		if b.Rotate {
			ss[i] += "r"
		}
	}
	return "ok:" + strings.Join(ss, ",")
}

// selMap returns k selected pages (ascending) and a set of deselected pages: the real selection
// map stores a deselected page n as m[n] = false (api.PagesForPageSelection), it does not delete it.
func selMap(r *vh.Run, k int, mode int) (pages, desel []int) {
	switch mode % 5 {
	case 0: // 1..k selected, the pages after the last one deselected
		pages = selPages(r, k, 0)
		if k%2 == 1 {
			desel = []int{k + 1, k + 2}
		}
	case 1: // odd pages selected, every even page deselected
		pages = selPages(r, k, 1)
		for i := 1; i <= k; i++ {
			desel = append(desel, 2*i)
		}
	case 2: // random gaps, each gap page deselected or absent
		pages = selPages(r, k, 2)
		in := map[int]bool{}
		for _, p := range pages {
			in[p] = true
		}
		for p := 1; p <= pages[len(pages)-1]+2; p++ {
			if !in[p] && r.Rand.Intn(2) == 0 {
				desel = append(desel, p)
			}
		}
	case 3: // first page, a run in the middle and the last page deselected
		u := k + 5
		run := 2 + r.Rand.Intn(k+1)
		out := map[int]bool{1: true, run: true, run + 1: true, run + 2: true, u: true}
		for p := 1; p <= u; p++ {
			if out[p] {
				desel = append(desel, p)
			} else {
				pages = append(pages, p)
			}
		}
		pages = pages[:k]
	default: // a random subset of 1..u selected, all others deselected (the map api.PagesForPageSelection builds for "1-u,!a,!b-c")
		u := k + r.Rand.Intn(k+3)
		perm := r.Rand.Perm(u)
		in := map[int]bool{}
		for _, j := range perm[:k] {
			in[j+1] = true
		}
		for p := 1; p <= u; p++ {
			if in[p] {
				pages = append(pages, p)
			} else {
				desel = append(desel, p)
			}
		}
	}
	return pages, desel
}

func fullSet(pages, desel []int) types.IntSet {
	m := types.IntSet{}
	for _, p := range pages {
		m[p] = true
	}
	for _, p := range desel {
		m[p] = false
	}
	return m
}

// mapArg encodes a selection map for the model, in the (arbitrary) iteration order of the Go map.
func mapArg(m types.IntSet) string {
	ss := make([]string, 0, len(m))
	for k, v := range m {
		b := "0"
		if v {
			b = "1"
		}
		ss = append(ss, vh.Int(int64(k))+":"+b)
	}
	return strings.Join(ss, ",")
}

func intSet(pages []int) types.IntSet {
	m := types.IntSet{}
	for _, p := range pages {
		m[p] = true
	}
	return m
}

// ordering calls the real getBookletOrdering, recovering panics.
func ordering(m types.IntSet, nup *model.NUp) (bp []model.BookletPage, panicked string) {
	defer func() {
		if x := recover(); x != nil {
			panicked = fmt.Sprint(x)
		}
	}()
	return pdfcpu.VerifC34GetBookletOrdering(m, nup), ""
}

func pageOrdering(nup *model.NUp, pages []int, n int) (bp []model.BookletPage, panicked string) {
	defer func() {
		if x := recover(); x != nil {
			panicked = fmt.Sprint(x)
		}
	}()
	return pdfcpu.VerifC34GetBookletPageOrdering(nup, pages, n), ""
}

func posFn(name string, i, n int, pages []int, nup *model.NUp) (s string) {
	defer func() {
		if x := recover(); x != nil {
			s = "panic"
		}
	}()
	p, rot := pdfcpu.VerifC34PositionFn(name, i, n, pages, nup)
	s = vh.Int(int64(p))
	if rot {
		s += "r"
	}
	return s
}

// checkPlacement is the property oracle on a slot sequence: "" if it holds.
func checkPlacement(slots []int, pages []int, sheet int) string {
	if len(slots)%sheet != 0 {
		return fmt.Sprintf("%d slots is not a whole number of sheets of %d", len(slots), sheet)
	}
	if len(slots)-len(pages) >= sheet || len(slots) < len(pages) {
		return fmt.Sprintf("%d slots for %d pages: padding is not less than one sheet of %d", len(slots), len(pages), sheet)
	}
	seen := map[int]int{}
	for _, s := range slots {
		if s != 0 {
			seen[s]++
		}
	}
	for _, p := range pages {
		if seen[p] != 1 {
			return fmt.Sprintf("page %d placed %d times", p, seen[p])
		}
		delete(seen, p)
	}
	for s := range seen {
		return fmt.Sprintf("page %d placed but not selected", s)
	}
	return ""
}

func selPages(r *vh.Run, k int, mode int) []int {
	pages := make([]int, 0, k)
	switch mode {
	case 0:
		for i := 1; i <= k; i++ {
			pages = append(pages, i)
		}
	case 1: // odd pages
		for i := 0; i < k; i++ {
			pages = append(pages, 2*i+1)
		}
	default: // random gaps
		p := 0
		for i := 0; i < k; i++ {
			p += 1 + r.Rand.Intn(4)
			pages = append(pages, p)
		}
	}
	return pages
}

var grids = map[int][][2]int{2: {{2, 1}, {1, 2}}, 4: {{2, 2}}, 6: {{3, 2}, {2, 3}}, 8: {{4, 2}, {2, 4}}}
var dims = []types.Dim{{Width: 595, Height: 842}, {Width: 842, Height: 595}, {Width: 600, Height: 600}}

func main() {
	api.DisableConfigDir()
	r := vh.Start("C34")
	defer r.Finish()

	positionFunctions(r)
	bookletOrderings(r)
	pageOrderingsOffGrid(r)
	smallFunctions(r)
	apiRuns(r)
}

// ---- K: the translated position functions, on and off their intended domain

func positionFunctions(r *vh.Run) {
	names := []string{"nup2OutputPageNr", "nup4OutputPageNr", "nup4BasicSideFoldOutputPageNr", "nup4BasicTopFoldOutputPageNr",
		"nup4AdvancedSideFoldOutputPageNr", "nupLRTBOutputPageNr", "nup8OutputPageNr", "nupPerfectBound"}
	maxN := r.Pick(40, 100)
	for _, name := range names {
		for _, n := range []int{2, 4, 6, 8} {
			if strings.HasPrefix(name, "nup4") && n != 4 && !r.Thorough() {
				continue
			}
			g := grids[n][0]
			for bt := model.Booklet; bt <= model.BookletPerfectBound; bt++ {
				for _, bd := range []model.BookletBinding{model.LongEdge, model.ShortEdge} {
					for _, d := range dims {
						c := cfg{n: n, cols: g[0], rows: g[1], btype: bt, binding: bd, dim: d}
						nup := c.nup()
						for cnt := 0; cnt <= maxN; cnt++ {
							if cnt > 20 && cnt%(2*n) != 0 && r.Rand.Intn(6) != 0 {
								continue
							}
							k := cnt - r.Rand.Intn(2*n)
							if k < 0 || r.Rand.Intn(5) == 0 {
								k = cnt
							}
							pages := selPages(r, k, r.Rand.Intn(3))
							for rep := 0; rep < 3; rep++ {
								i := 0
								if cnt > 0 {
									i = r.Rand.Intn(cnt)
								}
								impl := posFn(name, i, cnt, pages, nup)
								if impl == "panic" {
									// index out of range off the intended domain: 0 in the model by the translator's convention
									r.Count("class:pos-offdomain-panic")
									continue
								}
								r.Case("pos", []string{name, vh.Int(int64(i)), vh.Int(int64(cnt)), vh.Ints(pages), vh.Int(int64(nup.N())),
									vh.Int(int64(nup.BookletType)), vh.Bool(nup.PageDim.Landscape()), vh.Bool(nup.IsTopFoldBinding())}, impl)
							}
						}
					}
				}
			}
		}
	}
}

// ---- K + O: getBookletOrdering for every count x configuration x folio size

func bookletOrderings(r *vh.Run) {
	type triple struct {
		bt model.BookletType
		bd model.BookletBinding
		d  types.Dim
	}
	var all []triple
	for bt := model.Booklet; bt <= model.BookletPerfectBound; bt++ {
		for _, bd := range []model.BookletBinding{model.LongEdge, model.ShortEdge} {
			for _, d := range dims {
				all = append(all, triple{bt, bd, d})
			}
		}
	}
	some := func(m int) []triple {
		if m >= len(all) {
			return all
		}
		out := make([]triple, m)
		for i, j := range r.Rand.Perm(len(all))[:m] {
			out[i] = all[j]
		}
		return out
	}
	// every count x N x folio size (0 = multi-folio off); type x binding x page orientation exhaustively
	// for the small counts, a seeded sample of them for the larger ones (the model is slow: ~60us per slot)
	maxK := r.Pick(60, 200)
	exhaustiveUpTo := r.Pick(20, 60)
	perFolio := r.Pick(1, 2)
	for k := 1; k <= maxK; k++ {
		for _, n := range []int{2, 4, 6, 8} {
			for folio := 0; folio <= 12; folio++ {
				var ts []triple
				switch {
				case folio == 0 && k <= exhaustiveUpTo:
					ts = all
				case folio == 0:
					ts = some(6)
				default:
					ts = some(perFolio)
				}
				for ti, t := range ts {
					g := grids[n][0]
					if len(grids[n]) > 1 && (k+ti+folio)%5 == 0 {
						g = grids[n][1] // the other grid shape with the same N
					}
					c := cfg{n: n, cols: g[0], rows: g[1], btype: t.bt, binding: t.bd, dim: t.d, multifolio: folio > 0, folio: folio}
					if folio == 0 {
						c.folio = 8
					}
					pages, desel := selMap(r, k, k+folio+ti)
					oneOrdering(r, c, pages, desel)
				}
			}
		}
	}
}

func oneOrdering(r *vh.Run, c cfg, pages, desel []int) {
	nup := c.nup()
	m := fullSet(pages, desel)
	bp, pan := ordering(m, nup)
	impl := "panic"
	if pan == "" {
		impl = fmtBP(bp)
	}
	r.Case("orderingmap", []string{vh.Int(int64(nup.N())), vh.Int(int64(nup.BookletType)), vh.Int(int64(nup.BookletBinding)),
		vh.Bool(nup.PageDim.Landscape()), vh.Bool(nup.IsTopFoldBinding()), vh.Bool(nup.MultiFolio), vh.Int(int64(nup.FolioSize)), mapArg(m)}, impl)
	if len(desel) > 0 {
		r.Count("class:selection-with-deselected-entries")
	}
	if c.multifolio {
		r.Count(fmt.Sprintf("class:booklet-multifolio-N%d", c.n))
	} else {
		r.Count(fmt.Sprintf("class:booklet-N%d-%s", c.n, strings.ReplaceAll(c.btype.String(), " ", "")))
	}
	class := "booklet-placement"
	if c.multifolio && c.n >= 4 {
		class = classMultiFolio
	}
	if pan != "" {
		if class != classMultiFolio {
			class = "booklet-panic"
		}
		r.OracleFail(class, c.input(pages), "getBookletOrdering panics: "+pan)
		return
	}
	slots := make([]int, len(bp))
	for i, b := range bp {
		slots[i] = b.Number
	}
	for _, s := range slots {
		if v, ok := m[s]; ok && !v {
			inp := c.input(pages)
			inp["deselected"] = summarize(desel)
			r.OracleFail("deselected-page-placed", inp, fmt.Sprintf("page %d is in the selection map with value false and is placed in a slot", s))
			return
		}
	}
	if msg := checkPlacement(slots, pages, 2*c.n); msg != "" {
		inp := c.input(pages)
		inp["deselected"] = summarize(desel)
		r.OracleFail(class, inp, msg)
		return
	}
	r.OracleOK()
}

// getBookletPageOrdering with page counts that are not multiples of the sheet (as the multi-folio loop produces them)
func pageOrderingsOffGrid(r *vh.Run) {
	for _, n := range []int{2, 4, 6, 8, 3, 9} { // 3 and 9: no position function is selected (nil func value)
		g := [2]int{n, 1}
		if n%2 == 0 {
			g = grids[n][0]
		}
		for bt := model.Booklet; bt <= model.BookletPerfectBound+1; bt++ {
			for _, bd := range []model.BookletBinding{model.LongEdge, model.ShortEdge} {
				for _, d := range dims {
					c := cfg{n: n, cols: g[0], rows: g[1], btype: bt, binding: bd, dim: d}
					nup := c.nup()
					for cnt := 0; cnt <= r.Pick(24, 64); cnt += 1 + r.Rand.Intn(3) {
						k := r.Rand.Intn(cnt + 1)
						pages := selPages(r, k, 2)
						bp, pan := pageOrdering(nup, pages, cnt)
						impl := "panic"
						if pan == "" {
							impl = fmtBP(bp)
						} else if strings.Contains(pan, "index out of range") {
							// pageNumbers[negative]: 0 in the model by the translator's convention; only off the intended domain
							r.Count("class:pageordering-offdomain-panic")
							continue
						}
						r.Case("pageordering", []string{vh.Int(int64(nup.N())), vh.Int(int64(nup.BookletType)), vh.Int(int64(nup.BookletBinding)),
							vh.Bool(nup.PageDim.Landscape()), vh.Bool(nup.IsTopFoldBinding()), vh.Ints(pages), vh.Int(int64(cnt))}, impl)
					}
				}
			}
		}
	}
}

func smallFunctions(r *vh.Run) {
	for k := 0; k < r.Pick(40, 120); k++ {
		for mode := 0; mode < 5; mode++ {
			if k == 0 && (mode == 2 || mode == 3) {
				continue
			}
			pages, desel := selMap(r, k, mode)
			m := fullSet(pages, desel)
			got := pdfcpu.VerifC34SortSelectedPages(m)
			r.Case("sortsel", []string{mapArg(m)}, vh.Ints(got))
			if fmt.Sprint(got) != fmt.Sprint(pages) && !(len(got) == 0 && len(pages) == 0) {
				r.OracleFail("selection-sorted-list", map[string]any{"selected": summarize(pages), "deselected": summarize(desel)},
					"sortSelectedPages returns "+summarize(got))
			} else {
				r.OracleOK()
			}
		}
	}
	for pos := 0; pos < 40; pos++ {
		for _, l := range []bool{false, true} {
			r.Case("get4upPos", []string{vh.Int(int64(pos)), vh.Bool(l)}, vh.Int(int64(pdfcpu.VerifC34Get4upPos(pos, l))))
		}
	}
	for k := 0; k < 12; k++ {
		pages := selPages(r, k, 2)
		for i := 0; i < 16; i++ {
			r.Case("getPageNumber", []string{vh.Ints(pages), vh.Int(int64(i))}, vh.Int(int64(pdfcpu.VerifC34GetPageNumber(pages, i))))
			r.Case("nupPageNumber", []string{vh.Int(int64(i)), vh.Ints(pages)}, vh.Int(int64(pdfcpu.VerifC34NupPageNumber(i, pages))))
		}
	}
}

// ---- API level: real files through api.Booklet / api.NUp / api.Grid

// makePDF returns a k page PDF; every page has a content stream.
func makePDF(k int) []byte {
	var b bytes.Buffer
	offs := []int{}
	obj := func(s string) {
		offs = append(offs, b.Len())
		fmt.Fprintf(&b, "%d 0 obj\n%s\nendobj\n", len(offs), s)
	}
	b.WriteString("%PDF-1.4\n")
	obj("<< /Type /Catalog /Pages 2 0 R >>")
	kids := make([]string, k)
	for i := 0; i < k; i++ {
		kids[i] = fmt.Sprintf("%d 0 R", 3+2*i)
	}
	obj(fmt.Sprintf("<< /Type /Pages /Kids [%s] /Count %d >>", strings.Join(kids, " "), k))
	for i := 0; i < k; i++ {
		obj(fmt.Sprintf("<< /Type /Page /Parent 2 0 R /MediaBox [0 0 %d 300] /Resources << >> /Contents %d 0 R >>", 200+i%5, 4+2*i))
		content := fmt.Sprintf("0 0 m %d 100 l S", 10+i)
		obj(fmt.Sprintf("<< /Length %d >>\nstream\n%s\nendstream", len(content), content))
	}
	x := b.Len()
	fmt.Fprintf(&b, "xref\n0 %d\n0000000000 65535 f \n", len(offs)+1)
	for _, o := range offs {
		fmt.Fprintf(&b, "%010d 00000 n \n", o)
	}
	fmt.Fprintf(&b, "trailer\n<< /Size %d /Root 1 0 R >>\nstartxref\n%d\n%%%%EOF\n", len(offs)+1, x)
	return b.Bytes()
}

var reDo = regexp.MustCompile(`/Fm(\d+) Do`)

// placed returns, per output page, the sequence of source page numbers drawn on it.
func placed(out []byte) (res [][]int, err error) {
	defer func() {
		if x := recover(); x != nil {
			err = fmt.Errorf("panic reading output: %v", x)
		}
	}()
	ctx, err := api.ReadAndValidate(bytes.NewReader(out), model.NewDefaultConfiguration())
	if err != nil {
		return nil, err
	}
	for p := 1; p <= ctx.PageCount; p++ {
		d, _, _, err := ctx.PageDict(p, false)
		if err != nil {
			return nil, err
		}
		bb, err := ctx.PageContent(d, p)
		if err != nil && err != model.ErrNoContent {
			return nil, err
		}
		seq := []int{}
		for _, m := range reDo.FindAllSubmatch(bb, -1) {
			n, _ := strconv.Atoi(string(m[1]))
			seq = append(seq, n)
		}
		res = append(res, seq)
	}
	return res, nil
}

func guard(f func() error) (err error, pan string) {
	defer func() {
		if x := recover(); x != nil {
			pan = fmt.Sprint(x)
		}
	}()
	return f(), ""
}

// apiSelection builds a page selection for a k page document, several of them with negations
// ("1-9,!2-4": api.PagesForPageSelection then stores pages 2..4 with value false), and the pages it
// selects, computed here independently.
func apiSelection(r *vh.Run, k, variant int) (expr string, expected []int) {
	out := map[int]bool{}
	switch {
	case variant%6 == 1 && k >= 5:
		expr = fmt.Sprintf("1-%d,!2-4", k)
		out[2], out[3], out[4] = true, true, true
	case variant%6 == 2 && k >= 5:
		expr = fmt.Sprintf("1-%d,!5", k)
		out[5] = true
	case variant%6 == 3 && k >= 3:
		expr = fmt.Sprintf("1-,!1,!%d", k)
		out[1], out[k] = true, true
	case variant%6 == 4 && k >= 4:
		a := 1 + r.Rand.Intn(k-2)
		b := a + r.Rand.Intn(k-a)
		x := 1 + r.Rand.Intn(k)
		expr = fmt.Sprintf("1-%d,!%d-%d,n%d", k, a, b, x)
		for p := a; p <= b; p++ {
			out[p] = true
		}
		out[x] = true
	case variant%6 == 5 && k >= 5:
		expr = "odd"
		for p := 2; p <= k; p += 2 {
			out[p] = true
		}
	}
	for p := 1; p <= k; p++ {
		if !out[p] {
			expected = append(expected, p)
		}
	}
	return expr, expected
}

func apiRuns(r *vh.Run) {
	conf := model.NewDefaultConfiguration()
	ks := []int{1, 2, 5, 9, 12, 17}
	if r.Thorough() {
		ks = []int{1, 2, 3, 4, 5, 7, 8, 9, 12, 15, 16, 17, 23, 24, 25, 31, 32, 33, 40, 47, 64, 65, 97}
	}
	pdfs := map[int][]byte{}
	for _, k := range ks {
		pdfs[k] = makePDF(k)
	}
	// n-up and grid
	type nupCase struct {
		label      string
		n          int
		rows, cols int
	}
	var ncs []nupCase
	for _, n := range pdfcpu.NUpValues {
		ncs = append(ncs, nupCase{label: "nup", n: n})
	}
	for rows := 1; rows <= 5; rows++ {
		for cols := 1; cols <= 5; cols++ {
			if r.Thorough() || (rows+cols)%2 == 1 || rows == cols {
				ncs = append(ncs, nupCase{label: "grid", n: rows * cols, rows: rows, cols: cols})
			}
		}
	}
	for ci, nc := range ncs {
		for ki, k := range ks {
			expr, pages := apiSelection(r, k, ci+ki)
			sel, err := api.ParsePageSelection(expr)
			if err != nil {
				r.OracleFail("selection-rejected", map[string]any{"selection": expr}, err.Error())
				continue
			}
			selMapReal, err := api.PagesForPageSelection(k, sel, true, false)
			if err != nil {
				r.OracleFail("selection-rejected", map[string]any{"selection": expr}, err.Error())
				continue
			}
			if len(pages) == 0 {
				continue
			}
			for _, v := range selMapReal {
				if !v {
					r.Count("class:api-selection-with-false-entries")
					break
				}
			}
			var nup *model.NUp
			if nc.label == "nup" {
				nup, err = api.PDFNUpConfig(nc.n, "", conf)
			} else {
				nup, err = api.PDFGridConfig(nc.rows, nc.cols, "", conf)
			}
			inp := map[string]any{"op": nc.label, "N": nc.n, "rows": nc.rows, "cols": nc.cols, "pages": k, "selection": expr}
			if err != nil {
				r.OracleFail("nup-config-rejected", inp, err.Error())
				continue
			}
			var out bytes.Buffer
			err, pan := guard(func() error {
				if nc.label == "nup" {
					return api.NUp(bytes.NewReader(pdfs[k]), &out, nil, sel, nup, conf)
				}
				return api.Grid(bytes.NewReader(pdfs[k]), &out, nil, sel, nup, conf)
			})
			r.Count("class:api-" + nc.label)
			if pan != "" || err != nil {
				r.OracleFail("nup-api-fails", inp, fmt.Sprint(pan, err))
				continue
			}
			seqs, err := placed(out.Bytes())
			if err != nil {
				r.OracleFail("nup-output-unreadable", inp, err.Error())
				continue
			}
			// correspondence: slot sequence (blank cells of the last page restored as 0) and page count
			var slots []int
			ok := true
			for _, s := range seqs {
				if len(s) > nc.n {
					ok = false
				}
				slots = append(slots, s...)
				for j := len(s); j < nc.n; j++ {
					slots = append(slots, 0)
				}
			}
			r.Case("nupslotsmap", []string{vh.Int(int64(nc.n)), mapArg(selMapReal)}, vh.Ints(slots))
			r.Case("nuppagesmap", []string{vh.Int(int64(nc.n)), mapArg(selMapReal)}, vh.Int(int64(len(seqs))))
			// oracle: ceil(k/N) pages, selected pages in order, N per page
			want := (len(pages) + nc.n - 1) / nc.n
			var flat []int
			for i, s := range seqs {
				flat = append(flat, s...)
				if i < len(seqs)-1 && len(s) != nc.n {
					ok = false
				}
			}
			if !ok || len(seqs) != want || fmt.Sprint(flat) != fmt.Sprint(pages) {
				r.OracleFail("nup-placement", inp, fmt.Sprintf("output pages %d (want %d), placed %v", len(seqs), want, seqs))
				continue
			}
			r.OracleOK()
		}
	}
	// booklets through the API, configurations as the command line accepts them
	for _, n := range []int{2, 4, 6, 8} {
		for _, bt := range []string{"booklet", "bookletadvanced", "perfectbound"} {
			for _, bd := range []string{"long", "short"} {
				for _, fs := range []string{"A4", "A4L"} {
					for _, folio := range []int{0, 1, 2, 3, 4} {
						desc := fmt.Sprintf("formsize:%s, btype:%s, binding:%s", fs, bt, bd)
						if folio > 0 {
							desc += fmt.Sprintf(", multifolio:on, foliosize:%d", folio)
						}
						nup0, err := api.PDFBookletConfig(n, desc, conf)
						if err != nil {
							r.Count("class:api-booklet-config-rejected")
							continue
						}
						for _, k := range ks {
							if !r.Thorough() && (k+n+folio)%3 != 0 {
								continue
							}
							nup := *nup0
							pd := *nup0.PageDim
							nup.PageDim = &pd
							gd := *nup0.Grid
							nup.Grid = &gd
							expr, want := apiSelection(r, k, k+n+folio+len(desc))
							sel, err := api.ParsePageSelection(expr)
							if err != nil || len(want) == 0 {
								continue
							}
							inp := map[string]any{"op": "api.Booklet", "N": n, "desc": desc, "pages": k, "selection": expr, "multifolio": folio > 0, "folioSize": folio}
							class := "booklet-api-placement"
							if folio > 0 && n >= 4 {
								class = classMultiFolio
							}
							var out bytes.Buffer
							err, pan := guard(func() error { return api.Booklet(bytes.NewReader(pdfs[k]), &out, nil, sel, &nup, conf) })
							r.Count("class:api-booklet")
							if pan != "" {
								if class != classMultiFolio {
									class = "booklet-panic"
								}
								r.OracleFail(class, inp, "api.Booklet panics: "+pan)
								continue
							}
							if err != nil {
								r.OracleFail(class, inp, "api.Booklet fails: "+err.Error())
								continue
							}
							seqs, err := placed(out.Bytes())
							if err != nil {
								r.OracleFail("booklet-output-unreadable", inp, err.Error())
								continue
							}
							var flat []int
							for _, s := range seqs {
								flat = append(flat, s...)
							}
							sorted := append([]int(nil), flat...)
							sort.Ints(sorted)
							msg := ""
							if fmt.Sprint(sorted) != fmt.Sprint(want) {
								msg = fmt.Sprintf("selected %v, pages drawn: %v", want, seqs)
							} else if len(seqs)%2 != 0 || (len(seqs)*n-len(want)) >= 2*n {
								msg = fmt.Sprintf("%d output pages of %d cells for %d selected pages: not whole sheets with padding below one sheet", len(seqs), n, len(want))
							}
							if msg != "" {
								r.OracleFail(class, inp, msg)
								continue
							}
							r.OracleOK()
						}
					}
				}
			}
		}
	}
}
