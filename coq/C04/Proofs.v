(* C04 -- lemmas. Part A: the three guards (all inputs). Part B: a command run.
   Part C: the generated command table (finite obligations by vm_compute, lifted to
   every row with forallb_forall) and the guards applied through the table. *)
From Coq Require Import String List NArith Bool.
From PV Require Import C04.Model C04.Generated C04.Lookup.
Import ListNotations.
Open Scope string_scope.

(* something is there: os.Stat succeeds *)
Definition present (s : pstate) : bool :=
  match s with RegFile | EmptyDir | NonEmptyDir => true | Absent | StatErr => false end.

(* ---------------- Part A: guards ---------------- *)

Lemma file_guard_refuses : forall s, present s = true ->
  ensureOutputFileAvailable Named false s = Refuse MsgFile.
Proof. intros s Hs. destruct s; simpl in *; try discriminate; reflexivity. Qed.

Lemma file_guard_allows : forall n force s,
  force = true \/ n <> Named \/ s = Absent ->
  ensureOutputFileAvailable n force s = Proceed.
Proof.
  intros n force s [Hf | [Hn | Hs]].
  - subst. destruct n; reflexivity.
  - destruct n; try reflexivity. congruence.
  - subst. destruct n, force; reflexivity.
Qed.

(* exact characterisation = totality: every input falls in exactly one of three classes *)
Lemma file_guard_exact : forall n force s,
  (ensureOutputFileAvailable n force s = Refuse MsgFile <-> n = Named /\ force = false /\ present s = true)
  /\ (ensureOutputFileAvailable n force s = Fail <-> n = Named /\ force = false /\ s = StatErr)
  /\ (ensureOutputFileAvailable n force s = Proceed <-> n <> Named \/ force = true \/ s = Absent)
  /\ ensureOutputFileAvailable n force s <> Refuse MsgDir.
Proof.
  intros n force s.
  destruct n, force, s; simpl; repeat split; intros; try discriminate; try congruence;
    try tauto;
    try (match goal with H : _ /\ _ |- _ => destruct H as [H1 [H2 H3]]; discriminate end);
    try (match goal with H : _ \/ _ \/ _ |- _ => destruct H as [H1 | [H1 | H1]]; congruence end);
    try (left; discriminate); try (right; left; reflexivity); try (right; right; reflexivity).
Qed.

Lemma dir_guard_refuses : ensureOutputDirEmpty Named false NonEmptyDir = Refuse MsgDir.
Proof. reflexivity. Qed.

Lemma dir_guard_allows : forall n force s,
  force = true \/ n <> Named \/ s = Absent \/ s = EmptyDir ->
  ensureOutputDirEmpty n force s = Proceed.
Proof.
  intros n force s [Hf | [Hn | [Hs | Hs]]].
  - subst. destruct n; reflexivity.
  - destruct n; try reflexivity. congruence.
  - subst. destruct n, force; reflexivity.
  - subst. destruct n, force; reflexivity.
Qed.

Lemma dir_guard_exact : forall n force s,
  (ensureOutputDirEmpty n force s = Refuse MsgDir <-> n = Named /\ force = false /\ s = NonEmptyDir)
  /\ (ensureOutputDirEmpty n force s = Fail <-> n = Named /\ force = false /\ (s = RegFile \/ s = StatErr))
  /\ (ensureOutputDirEmpty n force s = Proceed <-> n <> Named \/ force = true \/ s = Absent \/ s = EmptyDir)
  /\ ensureOutputDirEmpty n force s <> Refuse MsgFile.
Proof.
  intros n force s.
  destruct n, force, s; simpl; repeat split; intros; try discriminate; try congruence;
    try tauto;
    try (match goal with H : _ /\ _ /\ (_ \/ _) |- _ => destruct H as [H1 [H2 [H3 | H3]]]; discriminate end);
    try (match goal with H : _ /\ _ |- _ => destruct H as [H1 [H2 H3]]; discriminate end);
    try (match goal with H : _ \/ _ \/ _ \/ _ |- _ => destruct H as [H1 | [H1 | [H1 | H1]]]; congruence end);
    try (left; discriminate); try (right; left; reflexivity);
    try (right; right; left; reflexivity); try (right; right; right; reflexivity).
Qed.

Lemma dirfile_guard_no_file : forall d j force sd sj,
  ensureOutputDirOrFileAvailable d NoName j force sd sj = ensureOutputDirEmpty d force sd.
Proof. reflexivity. Qed.

Lemma dirfile_guard_with_file : forall d f j force sd sj, f <> NoName ->
  ensureOutputDirOrFileAvailable d f j force sd sj = ensureOutputFileAvailable j force sj.
Proof. intros d f j force sd sj Hf. destruct f; try reflexivity. congruence. Qed.

(* the property for "outDir [ outFile ]" commands, refuted in the faithful model:
   with an outFile named, a non-empty output directory is not refused (only an existing
   outDir/outFile is looked at -- and that is not the name the parts are written under). *)
Lemma dirfile_guard_nonempty_dir_refuted :
  exists f j sj, ensureOutputDirOrFileAvailable Named f j false NonEmptyDir sj = Proceed.
Proof. exists Named, Named, Absent. reflexivity. Qed.

(* ---------------- Part B: a run ---------------- *)

Lemma run_refused : forall (FS : Type) m (op : FS -> bool * FS) fs,
  run (Refuse m) op fs = mkOutcome true (Some m) fs.
Proof. reflexivity. Qed.

Lemma run_not_proceed_no_fs_change : forall (FS : Type) d (op : FS -> bool * FS) fs,
  d <> Proceed -> fs_after (run d op fs) = fs /\ exit_nonzero (run d op fs) = true.
Proof. intros FS d op fs Hd. destruct d; simpl; auto. congruence. Qed.

Lemma run_proceeds : forall (FS : Type) (op : FS -> bool * FS) fs,
  run Proceed op fs = mkOutcome (fst (op fs)) None (snd (op fs)).
Proof. reflexivity. Qed.

(* ---------------- Part C: the table ---------------- *)

Definition is_import (r : row) : bool := String.eqb (r_path r) "import".

Lemma table_guarded_bool : forallb (fun r => is_import r || guarded r) table = true.
Proof. vm_compute. reflexivity. Qed.

Lemma every_output_command_guarded_partial : forall r, In r table -> r_path r <> "import" -> guarded r = true.
Proof.
  intros r Hin Hp.
  pose proof (proj1 (forallb_forall _ table) table_guarded_bool r Hin) as H.
  apply orb_true_iff in H. destruct H as [H | H]; [|exact H].
  unfold is_import in H. apply String.eqb_eq in H. contradiction.
Qed.

Lemma import_unguarded_refuted :
  exists r, find is_import table = Some r /\ guarded r = false /\ r_guards r = [] /\
    forall d f j force sd sf sj, decide_row r d f j force sd sf sj = Proceed.
Proof.
  eexists. split; [vm_compute; reflexivity|].
  split; [vm_compute; reflexivity|]. split; [reflexivity|]. intros. reflexivity.
Qed.

Lemma find_in : forall (f : row -> bool) l r, find f l = Some r -> In r l.
Proof. intros f l r H. apply find_some in H. tauto. Qed.

Lemma guarded_guards : forall r, guarded r = true -> r_guards r = [expected_guard (r_kind r)].
Proof.
  intros r H. unfold guarded in H.
  repeat (apply andb_true_iff in H; destruct H as [H ?]).
  destruct (r_guards r) as [|g [|g' gs]]; try discriminate.
  destruct g, (r_kind r); simpl in *; try discriminate; reflexivity.
Qed.

Lemma guarded_conds : forall r, guarded r = true ->
  forall c, In c (r_conds r) -> cond_ok (r_path r) c = true.
Proof.
  intros r H. unfold guarded in H.
  repeat (apply andb_true_iff in H; destruct H as [H ?]).
  apply forallb_forall. assumption.
Qed.

Lemma guarded_covered : forall r, guarded r = true -> r_uncovered r = 0%N /\ (0 < r_dispatches r)%N.
Proof.
  intros r H. unfold guarded in H.
  repeat (apply andb_true_iff in H; destruct H as [H ?]).
  split; [apply N.eqb_eq; assumption | apply N.ltb_lt; assumption].
Qed.

Lemma import_is_file_bool :
  forallb (fun r => negb (is_import r) || match r_kind r with OFile => true | _ => false end) table = true.
Proof. vm_compute. reflexivity. Qed.

Lemma non_file_not_import : forall r, In r table -> r_kind r <> OFile -> r_path r <> "import".
Proof.
  intros r Hin Hk He.
  pose proof (proj1 (forallb_forall _ table) import_is_file_bool r Hin) as H.
  unfold is_import in H. rewrite He in H. simpl in H. destruct (r_kind r); try discriminate. congruence.
Qed.

(* file outputs: existing + named + no --force => refusal, non-zero exit, file system untouched *)
Lemma rows_file_refuse : forall r, In r table -> r_path r <> "import" -> r_kind r = OFile ->
  forall (FS : Type) (op : FS -> bool * FS) fs d j sd sj s, present s = true ->
  run (decide_row r d Named j false sd s sj) op fs = mkOutcome true (Some MsgFile) fs.
Proof.
  intros r Hin Hp Hk FS op fs d j sd sj s Hs.
  pose proof (guarded_guards r (every_output_command_guarded_partial r Hin Hp)) as Hg.
  unfold decide_row. rewrite Hg, Hk. simpl expected_guard. cbv iota.
  rewrite (file_guard_refuses s Hs). reflexivity.
Qed.

(* directory outputs: non-empty + no --force => refusal *)
Lemma rows_dir_refuse : forall r, In r table -> r_kind r = ODir ->
  forall (FS : Type) (op : FS -> bool * FS) fs f j sf sj,
  run (decide_row r Named f j false NonEmptyDir sf sj) op fs = mkOutcome true (Some MsgDir) fs.
Proof.
  intros r Hin Hk FS op fs f j sf sj.
  assert (Hp : r_path r <> "import") by (apply (non_file_not_import r Hin); rewrite Hk; discriminate).
  pose proof (guarded_guards r (every_output_command_guarded_partial r Hin Hp)) as Hg.
  unfold decide_row. rewrite Hg, Hk. reflexivity.
Qed.

(* outDir [ outFile ] commands: only without an outFile (the exact complement of the refuted class) *)
Lemma rows_dirfile_refuse_partial : forall r, In r table -> r_kind r = ODirFile ->
  forall (FS : Type) (op : FS -> bool * FS) fs j sf sj,
  run (decide_row r Named NoName j false NonEmptyDir sf sj) op fs = mkOutcome true (Some MsgDir) fs.
Proof.
  intros r Hin Hk FS op fs j sf sj.
  assert (Hp : r_path r <> "import") by (apply (non_file_not_import r Hin); rewrite Hk; discriminate).
  pose proof (guarded_guards r (every_output_command_guarded_partial r Hin Hp)) as Hg.
  unfold decide_row. rewrite Hg, Hk. reflexivity.
Qed.

Lemma rows_dirfile_named_refuted :
  exists r, In r table /\ r_kind r = ODirFile /\ guarded r = true /\
    exists f j sf sj, decide_row r Named f j false NonEmptyDir sf sj = Proceed.
Proof.
  eexists. split; [eapply find_in with (f := fun r => match r_kind r with ODirFile => true | _ => false end); vm_compute; reflexivity|].
  split; [reflexivity|]. split; [vm_compute; reflexivity|].
  exists Named, Named, Absent, Absent. reflexivity.
Qed.

(* every row (import included): --force, or nothing named / stdout, or nothing there => the guard lets the command run *)
Lemma rows_proceed : forall r, In r table ->
  forall d f j force sd sf sj,
    force = true
    \/ (d <> Named /\ f <> Named /\ j <> Named)
    \/ (sd = Absent /\ sf = Absent /\ sj = Absent) ->
  forall (FS : Type) (op : FS -> bool * FS) fs,
  run (decide_row r d f j force sd sf sj) op fs = mkOutcome (fst (op fs)) None (snd (op fs)).
Proof.
  intros r _ d f j force sd sf sj H FS op fs.
  assert (Hd : decide_row r d f j force sd sf sj = Proceed).
  { unfold decide_row.
    destruct (r_guards r) as [|g [|g' gs]]; [reflexivity | | destruct g; reflexivity].
    destruct g.
    - apply file_guard_allows. destruct H as [H | [[_ [H _]] | [_ [H _]]]]; auto.
    - apply dir_guard_allows. destruct H as [H | [[H _] | [H _]]]; auto.
    - unfold ensureOutputDirOrFileAvailable. destruct f.
      + apply dir_guard_allows. destruct H as [H | [[H _] | [H _]]]; auto.
      + apply file_guard_allows. destruct H as [H | [[_ [_ H]] | [_ [_ H]]]]; auto.
      + apply file_guard_allows. destruct H as [H | [[_ [_ H]] | [_ [_ H]]]]; auto. }
  rewrite Hd. reflexivity.
Qed.

(* the in-place case of the property for file commands: no outFile named => proceeds, whatever is on disk *)
Definition file_row_shape (r : row) : bool :=
  match r_kind r, r_guards r with
  | OFile, [] | OFile, [GFile] => true
  | OFile, _ => false
  | _, _ => true
  end.

Lemma table_file_shape : forallb file_row_shape table = true.
Proof. vm_compute. reflexivity. Qed.

Lemma rows_file_unnamed_proceed : forall r, In r table -> r_kind r = OFile ->
  forall d f j force sd sf sj, f <> Named ->
  decide_row r d f j force sd sf sj = Proceed.
Proof.
  intros r Hin Hk d f j force sd sf sj Hf.
  pose proof (proj1 (forallb_forall _ table) table_file_shape r Hin) as H.
  unfold file_row_shape in H. rewrite Hk in H. unfold decide_row.
  destruct (r_guards r) as [|g [|g' gs]]; [reflexivity | | destruct g; discriminate].
  destruct g; try discriminate. apply file_guard_allows. auto.
Qed.

(* the source text of the guards is what Model.v was transcribed from *)
Lemma guard_sources_as_transcribed :
  src_ensureOutputFileAvailable = expected_src_ensureOutputFileAvailable
  /\ src_ensureOutputDirEmpty = expected_src_ensureOutputDirEmpty
  /\ src_ensureOutputDirOrFileAvailable = expected_src_ensureOutputDirOrFileAvailable.
Proof. repeat split; vm_compute; reflexivity. Qed.

(* root.go binds --force (default false) to the global the guards read, and nothing else writes it *)
Lemma force_flag_binding : force_flag_ok = true.
Proof. reflexivity. Qed.

(* the extracted lookup (Lookup.v) answers with the table's rows *)

Lemma lookup_is_table : forall i d f j force sd sf sj,
  decide_idx i d f j force sd sf sj =
  option_map (fun r => decide_row r d f j force sd sf sj) (nth_error table (N.to_nat i))
  /\ guarded_idx i = option_map guarded (nth_error table (N.to_nat i)).
Proof.
  intros i d f j force sd sf sj. unfold decide_idx, guarded_idx.
  change core_table with (map core_of table). change guarded_flags with (map guarded table).
  rewrite !nth_error_map. destruct (nth_error table (N.to_nat i)); simpl; split; reflexivity.
Qed.
