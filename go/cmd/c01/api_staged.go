package main

import (
	"fmt"
	"os"

	"github.com/pdfcpu/pdfcpu/pkg/api"
	"verif/vh"
)

// One run of the *File skeleton of pkg/api over the REAL stagedOutput (open / cleanup / commit through
// the verif export) with a recording + faulting operation table.  The skeleton itself (open inputs,
// deferred decision keyed on a flag or on err) is replicated here; that the real functions have this
// shape is the translator's table (coq/C01/Generated.v).
type apiCase struct {
	fault  int
	key    string
	ins    []int
	inF    int
	outF   int
	init   []fsEntry
	chunks [][]byte
	fin    string
}

func (c apiCase) args() []string {
	return []string{faultArg(c.fault), c.key, idsArg(c.ins), idArg(c.inF), idArg(c.outF), fsArg(c.init), chunksArg(c.chunks), c.fin}
}

func apiSkeleton(e *env, c apiCase) (err error) {
	var files []*os.File
	for _, id := range c.ins {
		f, oerr := e.openRd(e.path(id))
		if oerr != nil {
			for _, g := range files {
				e.closeFile(g)
			}
			return oerr
		}
		files = append(files, f)
	}
	inFile, outFile := e.path(c.inF), e.path(c.outF)
	tmpFile := ""
	if outFile != "" && inFile != outFile {
		tmpFile = outFile
	}
	var input *os.File
	if len(files) > 0 {
		input = files[0]
	}
	staged, err := api.VerifOpenStagedOutput(input, inFile, tmpFile, "verif", e.ops())
	if err != nil {
		for _, g := range files {
			e.closeFile(g)
		}
		return err
	}
	for i, g := range files {
		if i > 0 {
			staged = staged.WithInput(g, "verif: close input")
		}
	}
	ok := false
	defer func() {
		if c.key == "flag" {
			if !ok {
				err = staged.Cleanup(err)
				return
			}
		} else {
			if err != nil {
				err = staged.Cleanup(err)
				return
			}
		}
		err = staged.Commit()
	}()
	if err = e.body(staged.File(), c.chunks, c.fin); err != nil {
		return err
	}
	ok = true
	return nil
}

func runAPICase(r *vh.Run, n int, c apiCase) (res string, calls int) {
	dir := mkdir(r, "a", n)
	defer os.RemoveAll(dir)
	populate(dir, c.init)
	before := snapshot(dir)
	e := &env{dir: dir, faultAt: c.fault}
	ctl := "ok"
	func() {
		defer func() {
			if p := recover(); p != nil {
				ctl = "panic"
			}
		}()
		if err := apiSkeleton(e, c); err != nil {
			ctl = "err"
		}
	}()
	closeLeaked()
	after := snapshot(dir)
	res = ctl + "|" + joinTrace(e.trace) + "|" + after
	r.Case("api", c.args(), res)

	// oracle: exactly one cause of failure, result not ok => directory unchanged
	oneCause := c.fault < 0 || c.fin == "ok"
	faultHit := c.fault >= 0 && c.fault < e.n
	if oneCause && !(c.key == "err" && c.fin == "panic") {
		if ctl != "ok" && after != before {
			class := "staged-output-not-restored"
			if len(c.ins) > 0 && faultHit && c.fin == "ok" && e.trace[c.fault] == "close("+idArg(c.ins[0])+")=eio" {
				class = "close-input-fault-keeps-new-output:stagedOutput.commit"
			}
			for _, id := range c.ins[min(1, len(c.ins)):] {
				if faultHit && e.trace[c.fault] == "close("+idArg(id)+")=eio" {
					class = "close-input-fault-keeps-new-output:stagedOutput.commit"
				}
			}
			r.OracleFail(class, map[string]any{"part": "api-staged", "case": c.args(), "trace": e.trace},
				fmt.Sprintf("result=%s before=%s after=%s", ctl, before, after))
		} else {
			r.OracleOK()
		}
	}
	return res, e.n
}

func joinTrace(t []string) string {
	s := ""
	for i, x := range t {
		if i > 0 {
			s += ";"
		}
		s += x
	}
	return s
}

func partAPIStaged(r *vh.Run) {
	rb := func(n int) []byte {
		b := make([]byte, n)
		r.Rand.Read(b)
		return b
	}
	in := func() fsEntry { return fsEntry{2, 0o644, rb(5)} }
	in2 := func() fsEntry { return fsEntry{4, 0o640, rb(4)} }
	other := func() fsEntry { return fsEntry{5, 0o600, rb(3)} }
	out := func(mode os.FileMode) fsEntry { return fsEntry{3, mode, rb(6)} }
	type rel struct {
		name string
		ins  []int
		inF  int
		outF int
		init []fsEntry
	}
	rels := []rel{
		{"inplace", []int{2}, 2, 0, []fsEntry{in(), other()}},
		{"inplace-same-out", []int{2}, 2, 2, []fsEntry{{2, 0o755, rb(5)}}},
		{"new-output", []int{2}, 2, 3, []fsEntry{in()}},
		{"existing-output", []int{2}, 2, 3, []fsEntry{in(), out(0o600), other()}},
		{"existing-output-0755", []int{2}, 2, 3, []fsEntry{in(), out(0o755)}},
		{"merge-new", nil, 0, 3, []fsEntry{in()}},
		{"merge-existing", nil, 0, 3, []fsEntry{in(), out(0o640)}},
		{"zip-new", []int{2, 4}, 0, 3, []fsEntry{in(), in2()}},
		{"zip-existing", []int{2, 4}, 0, 3, []fsEntry{in(), in2(), out(0o644)}},
		{"missing-input", []int{2}, 2, 3, []fsEntry{other()}},
		{"second-input-missing", []int{2, 4}, 0, 3, []fsEntry{in()}},
		{"no-names", nil, 0, 0, []fsEntry{other()}},
	}
	bodies := [][][]byte{nil, {rb(3)}, {rb(2), {}, rb(4)}}
	if r.Thorough() {
		bodies = append(bodies, [][]byte{rb(1), rb(1), rb(1), rb(1), rb(1), rb(7)})
	}
	n := 0
	for _, rl := range rels {
		for _, chunks := range bodies {
			for _, key := range []string{"flag", "err"} {
				for _, fin := range []string{"ok", "err", "panic"} {
					base := apiCase{-1, key, rl.ins, rl.inF, rl.outF, rl.init, chunks, fin}
					n++
					_, calls := runAPICase(r, n, base)
					r.Count("rel:" + rl.name)
					r.Count("fin:" + fin)
					if fin != "ok" && key == "err" && !r.Thorough() {
						continue
					}
					// every fault index of this run, plus one past the end
					for i := 0; i <= calls; i++ {
						c := base
						c.fault = i
						n++
						runAPICase(r, n, c)
					}
				}
			}
		}
	}
}
