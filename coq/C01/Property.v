(* C01 — A failed or aborted operation never damages or leaves behind files.
   Property theorems only; each is closed by an exact lemma and followed by Print Assumptions. *)
From stdpp Require Import gmap.
From Coq Require Import NArith String List Bool.
From PV Require Import C01.FS C01.FSFacts C01.Model C01.Proofs C01.ProofsPdf C01.ProofsAll C01.ProofsMulti C01.ProofsAttach C01.Table C01.Generated C01.ProofsTable.

(* staged_fault_safe for the api skeleton (every single-output *File function of pkg/api:
   open inputs, openStagedOutput, deferred cleanup/commit, body).
   For every temp-name supply that returns unused names, every initial filesystem m0, every path
   relation (inF / outF / what exists in m0), every body (any list of write chunks) and exactly
   one cause of failure (one injected fault at any call index with a succeeding body, or a body ending
   in Err/Panic with no injected fault; `safe_for k fin`: any ending for a flag-keyed skeleton, no Panic for
   an err-keyed or undeferred one, nothing for a shadowed-err one):
   if the run does not return Ok then every path has the same contents and mode as before and the
   set of paths is the same — unless the output is a new file, inputs are open, and the single
   fault hit the close of an input inside commit (then the complete new output is kept). *)
Theorem api_staged_fault_safe_partial : forall fresh,
  (forall m, m !! fresh m = None) ->
  forall pl fin, one_cause pl fin ->
  forall k ins inF outF chunks m0 tr, safe_for k fin ->
  forall r w', api_file pl fresh k ins inF outF chunks fin (W m0 0 tr) = (r, w') -> r <> COk ->
  unchanged m0 (wfs w') \/
  (fin = COk /\ pl <> nofault /\ kept_new_output m0 ins inF outF (wfs w')).
Proof. exact api_staged_fault_safe_partial_proof. Qed.
Print Assumptions api_staged_fault_safe_partial.

(* full strength whenever no input is held open (MergeCreateFile) or the output is not a new file
   (in place / existing output) *)
Theorem api_staged_fault_safe : forall fresh,
  (forall m, m !! fresh m = None) ->
  forall pl fin, one_cause pl fin ->
  forall k ins inF outF chunks m0 tr, safe_for k fin ->
  (ins = [] \/ forall o, outF = Some o -> opt_eqb inF outF = false -> is_Some (m0 !! o)) ->
  forall r w', api_file pl fresh k ins inF outF chunks fin (W m0 0 tr) = (r, w') -> r <> COk ->
  unchanged m0 (wfs w').
Proof. exact api_staged_fault_safe_proof. Qed.
Print Assumptions api_staged_fault_safe.

Theorem api_close_input_fault_keeps_new_output_refuted :
  exists n r w', api_file (single n) fresh_path KFlag [1%positive] (Some 1%positive) (Some 2%positive) [[1%N]] COk
                   (W {[ 1%positive := File [5%N] mode_new ]} 0 []) = (r, w') /\
    r = CErr /\ wfs w' !! 2%positive = Some (File [1%N] mode_new).
Proof. exact api_close_input_fault_keeps_new_output_refuted_proof. Qed.
Print Assumptions api_close_input_fault_keeps_new_output_refuted.

Theorem flag_keyed_panic_safe : forall fresh,
  (forall m, m !! fresh m = None) ->
  forall ins inF outF chunks m0 tr r w',
  api_file nofault fresh KFlag ins inF outF chunks CPanic (W m0 0 tr) = (r, w') ->
  r <> COk /\ unchanged m0 (wfs w').
Proof. exact flag_keyed_panic_safe_proof. Qed.
Print Assumptions flag_keyed_panic_safe.

Theorem err_keyed_panic_refuted :
  exists r w', api_file nofault fresh_path KErr [] None (Some 2%positive) [[1%N]] CPanic (W refute_m0 0 []) = (r, w') /\
    r = CPanic /\
    refute_m0 !! 2%positive = Some (File [7%N; 7%N] mode_new) /\
    wfs w' !! 2%positive = Some (File [1%N] mode_new) /\
    ~ unchanged refute_m0 (wfs w').
Proof. exact err_keyed_panic_refuted_proof. Qed.
Print Assumptions err_keyed_panic_refuted.

(* staged_fault_safe for the write path of pkg/pdfcpu (createStagedFile + finishStagedFile:
   WriteContext's file path, writeReader, CopyFile): full strength, no residual case *)
Theorem pdf_staged_fault_safe : forall fresh,
  (forall m, m !! fresh m = None) ->
  forall pl fin, one_cause pl fin ->
  forall k input path chunks m0 tr, safe_for k fin ->
  forall r w', pdf_staged pl fresh k input path chunks fin (W m0 0 tr) = (r, w') -> r <> COk ->
  unchanged m0 (wfs w').
Proof. exact pdf_staged_fault_safe_proof. Qed.
Print Assumptions pdf_staged_fault_safe.

(* pdfcpu.writeNewFile (no overwrite): the reserved file is removed on every error return *)
Theorem write_new_file_fault_safe :
  forall pl fin, one_cause pl fin -> fin <> CPanic ->
  forall path chunks m0 tr r w', write_new_file pl path chunks fin (W m0 0 tr) = (r, w') -> r <> COk ->
  unchanged m0 (wfs w').
Proof. exact write_new_file_fault_safe_proof. Qed.
Print Assumptions write_new_file_fault_safe.

(* the current pdfcpu.WriteContext file path: safe for every ending of the body, panic included *)
Theorem write_context_fault_safe : forall fresh,
  (forall m, m !! fresh m = None) ->
  forall pl fin, one_cause pl fin ->
  forall path chunks m0 tr r w',
  pdf_staged pl fresh KFlag None path chunks fin (W m0 0 tr) = (r, w') -> r <> COk ->
  unchanged m0 (wfs w').
Proof. exact write_context_fault_safe_proof. Qed.
Print Assumptions write_context_fault_safe.

(* the three refuted statements below are about the ABSTRACT err-keyed / shadowed-err / undeferred
   skeletons (what MergeCreateFile, MergeCreateZipFile, WriteContext, WriteContextFile looked like before
   fixes ab14e02e / 4c8f77e6); the table theorem below shows no function has the first two shapes any more *)
Theorem write_context_panic_refuted :
  exists r w', pdf_staged nofault fresh_path KErr None 2%positive [[1%N]] CPanic (W refute_m0 0 []) = (r, w') /\
    r = CPanic /\ wfs w' !! 2%positive = Some (File [1%N] mode_new) /\ ~ unchanged refute_m0 (wfs w').
Proof. exact write_context_panic_refuted_proof. Qed.
Print Assumptions write_context_panic_refuted.

Theorem shadowed_err_commits_on_error_refuted :
  exists r w', pdf_staged nofault fresh_path KAlways None 2%positive [[1%N]] CErr (W refute_m0 0 []) = (r, w') /\
    r = CErr /\ wfs w' !! 2%positive = Some (File [1%N] mode_new) /\ ~ unchanged refute_m0 (wfs w').
Proof. exact shadowed_err_commits_on_error_refuted_proof. Qed.
Print Assumptions shadowed_err_commits_on_error_refuted.

Theorem nodefer_panic_leaks_refuted :
  exists r w' t, pdf_staged nofault fresh_path KNone None 2%positive [[1%N]] CPanic (W refute_m0 0 []) = (r, w') /\
    r = CPanic /\ refute_m0 !! t = None /\ wfs w' !! t = Some (File [1%N] mode_new).
Proof. exact nodefer_panic_leaks_refuted_proof. Qed.
Print Assumptions nodefer_panic_leaks_refuted.

(* staged_fault_safe: the three statements above as one, for every modelled protocol instance P
   (api skeleton / pdfcpu staged write / writeNewFile, with its key and path arguments), every temp-name
   supply, every initial filesystem, every body and exactly one cause of failure: if the run does not
   return Ok, every path has its old contents and mode and the set of paths is unchanged. *)
Theorem staged_fault_safe : forall fresh,
  (forall m, m !! fresh m = None) ->
  forall pl fin, one_cause pl fin ->
  forall P chunks m0 tr, protocol_safe_for P fin m0 ->
  forall r w', run_protocol pl fresh P chunks fin (W m0 0 tr) = (r, w') -> r <> COk ->
  unchanged m0 (wfs w').
Proof. exact staged_fault_safe_proof. Qed.
Print Assumptions staged_fault_safe.

(* ---------- form multi-fill: a multi-output transaction with rollback ---------- *)
(* merge mode.  For every list of records (any number, any contents), every key of the record writer other
   than the shadowed one, new pairwise distinct part names, and exactly one cause of failure — no fault
   and any record (after any number k of written parts) or the merge step ending in an error / a record
   failing before its output is opened / a panic where the writer's key tolerates it; or a single injected
   fault anywhere with data that would succeed: if the run does not return Ok, the filesystem is unchanged
   (every part written so far is removed again), unless every record and the merge succeeded and the fault
   hit the final clean-up of the intermediates. *)
Theorem multi_fill_merge_fault_safe : forall fresh,
  (forall m, m !! fresh m = None) ->
  forall pl parts mfin, multi_cause pl parts mfin ->
  forall k final mchunks m0 tr,
  k <> KAlways -> (forall p, In p parts -> safe_for k (p_fin p)) ->
  base.NoDup (map p_out parts) -> (forall p, In p parts -> m0 !! p_out p = None) ->
  forall r w', multi_fill pl fresh true k parts final mchunks mfin (W m0 0 tr) = (r, w') -> r <> COk ->
  unchanged m0 (wfs w') \/
  (exists done w1, fill_loop pl fresh k parts [] (W m0 0 tr) = (COk, done, w1) /\
                   fst (api_file pl fresh KFlag [] None (Some final) mchunks mfin w1) = COk).
Proof. exact multi_fill_merge_fault_safe_proof. Qed.
Print Assumptions multi_fill_merge_fault_safe.

(* non-merge mode, and the shape of every multi-output operation without rollback (split, extract, cut):
   after a failure the filesystem is the original one plus exactly the first n completed parts.
   Full statement of the property ("nothing new remains") fails here by design: see the refuted witness. *)
Theorem multi_fill_keeps_prefix_partial : forall fresh,
  (forall m, m !! fresh m = None) ->
  forall pl parts mfin, multi_cause pl parts mfin ->
  forall k final mchunks m0 tr,
  k <> KAlways -> (forall p, In p parts -> safe_for k (p_fin p)) ->
  base.NoDup (map p_out parts) -> (forall p, In p parts -> m0 !! p_out p = None) ->
  forall r w', multi_fill pl fresh false k parts final mchunks mfin (W m0 0 tr) = (r, w') ->
  exists n, extends m0 (firstn n (map p_out parts)) (wfs w').
Proof. exact multi_fill_keeps_prefix_partial_proof. Qed.
Print Assumptions multi_fill_keeps_prefix_partial.

(* a rollback that is only registered once the merge step is reached leaves the parts of the records
   written before a failing record *)
Theorem late_rollback_leaves_parts_refuted :
  exists r w', multi_fill_late nofault fresh_path KNone
                 [Part COk 2%positive [[1%N]] COk; Part CErr 3%positive [] COk] 4%positive [] COk (W ∅ 0 []) = (r, w') /\
    r = CErr /\ wfs w' !! 2%positive = Some (File [1%N] mode_new).
Proof. exact late_rollback_leaves_parts_refuted_proof. Qed.
Print Assumptions late_rollback_leaves_parts_refuted.

(* the table: both multi-fill transactions register the rollback before the record loop (so `multi_fill`
   is their model) and their record writer is error- and fault-safe with a key other than the shadowed one *)
Theorem multi_fill_rows :
  (forall r, In r table -> is_tx r = true -> f_key r = DRollbackFirst) /\
  existsb (fun r => String.eqb (f_name r) "multiFillFormJSONWith" && is_tx r) table = true /\
  existsb (fun r => String.eqb (f_name r) "multiFillFormCSVWith" && is_tx r) table = true /\
  (forall r, In r table -> f_name r = "writeMultiFillOutputWith"%string ->
     exists k, key_of_dkey (f_key r) = Some k /\ k <> KAlways /\ forall fin, fin <> CPanic -> safe_for k fin).
Proof. exact multi_fill_rows_proof. Qed.
Print Assumptions multi_fill_rows.

(* ---------- attachment extraction: reservations released on every failure path ---------- *)
(* A reservation that cannot be made (the open call fails without effect: ENAMETOOLONG, EIO, ... — the single
   injected fault of the model), after k successful reservations for every k and any list of attachments with
   pairwise distinct new marker and output names: the call returns an error and every marker reserved so far
   has been released: the filesystem is unchanged. *)
Theorem extract_reserve_failure_safe : forall fresh,
  forall n k aa m0 tr rr w1 r w',
  fresh_names m0 aa ->
  reserve_all (single n) aa [] (W m0 0 tr) = (true, rr, w1) ->
  extract_attachments (single n) fresh k aa (W m0 0 tr) = (r, w') ->
  r = CErr /\ unchanged m0 (wfs w').
Proof. exact extract_reserve_failure_safe_proof. Qed.
Print Assumptions extract_reserve_failure_safe.

(* Any failure of the extraction (one cause: no fault and any attachment's write ending in an error / a panic
   the writer's key tolerates, or a single fault anywhere): no marker and no staging file remains; the
   filesystem is the original one plus the first n completed attachments (documented multi-output
   behaviour) — unless every reservation and every write succeeded and the fault hit the final release. *)
Theorem extract_keeps_prefix_partial : forall fresh,
  (forall m, m !! fresh m = None) ->
  forall pl aa, att_cause pl aa ->
  forall k m0 tr, k <> KAlways -> (forall a, In a aa -> safe_for k (a_fin a)) -> fresh_names m0 aa ->
  forall r w', extract_attachments pl fresh k aa (W m0 0 tr) = (r, w') -> r <> COk ->
  (exists n, extends m0 (firstn n (map a_out aa)) (wfs w')) \/
  (exists rr w1 done w2, reserve_all pl aa [] (W m0 0 tr) = (false, rr, w1) /\
                         fill_loop pl fresh k (map att_part aa) [] w1 = (COk, done, w2)).
Proof. exact extract_keeps_prefix_partial_proof. Qed.
Print Assumptions extract_keeps_prefix_partial.

(* a reserving function with an error return that drops the list (`return nil, err`) leaks the markers of the
   earlier attachments *)
Theorem dropped_reservations_leak_refuted :
  exists r w', extract_drop (single 1) [Att 2%positive 3%positive [] COk; Att 4%positive 5%positive [] COk] (W ∅ 0 []) = (r, w') /\
    r = CErr /\ wfs w' !! 2%positive = Some (File [] mode_tmp).
Proof. exact dropped_reservations_leak_refuted_proof. Qed.
Print Assumptions dropped_reservations_leak_refuted.

Theorem attachment_rows :
  existsb (fun r => String.eqb (f_name r) "writeAttachments" && helper_eqb (f_helper r) HMultiReserve
                    && dkey_eqb (f_key r) DReleaseAlways) table = true /\
  (forall r, In r table -> helper_eqb (f_helper r) HMultiReserve = true -> f_key r = DReleaseAlways) /\
  (forall r, In r table -> f_name r = "writeAttachmentToPath"%string ->
     exists k, key_of_dkey (f_key r) = Some k /\ k <> KAlways /\ forall fin, fin <> CPanic -> safe_for k fin).
Proof. exact attachment_rows_proof. Qed.
Print Assumptions attachment_rows.

(* createStagedFile's error paths (chmod of the staging file fails while the destination exists): the model
   create_staged_file closes and removes the STAGING file; that the code has this shape is the table row *)
Theorem create_staged_file_row :
  existsb (fun r => String.eqb (f_name r) "createStagedFile" && helper_eqb (f_helper r) HStagingCtor
                    && dkey_eqb (f_key r) DRemovesStaging) table = true.
Proof. exact create_staged_file_row_proof. Qed.
Print Assumptions create_staged_file_row.

(* the wrong-variable shape (remove the destination instead of the staging file) on the chmod failure path:
   the existing destination is deleted and the staging file stays *)
Theorem remove_destination_refuted :
  exists w', (let w0 := W refute_m0 0 [] in
              match create_temp (single 2) fresh_path mode_new w0 with
              | Done t w1 => match stat (single 2) 2%positive w1 with
                             | Done fi w2 => match chmod (single 2) t (fmode fi) w2 with
                                             | Fail _ w3 => world_of (remove (single 2) 2%positive (world_of (close (single 2) t w3)))
                                             | Done _ w3 => w3 end
                             | Fail _ w2 => w2 end
              | Fail _ w1 => w1 end) = w' /\
    wfs w' !! 2%positive = None /\ refute_m0 !! 2%positive <> None /\ wfs w' !! 3%positive = Some (File [] mode_new).
Proof. eexists. split; [reflexivity|]. split; [vm_compute; reflexivity|]. split; [vm_compute; discriminate|vm_compute; reflexivity]. Qed.
Print Assumptions remove_destination_refuted.

(* all_file_functions_safe: in the table regenerated from the Go sources, every function that writes one
   output through a staging helper and is not one of the undeferred functions pdfcpu WriteReader / CopyFile / Write and api writeMultiFillOutputWith / writeAttachmentToPath
   (panic_unsafe) keys its
   deferred decision on a completion flag; so api_staged_fault_safe* / pdf_staged_fault_safe apply to it
   with k = KFlag for every ending of the body, panic included *)
Theorem all_file_functions_safe :
  forall r, In r table -> single_output r = true -> name_in panic_unsafe r = false ->
  key_of_dkey (f_key r) = Some KFlag /\ forall fin, safe_for KFlag fin.
Proof. exact all_file_functions_safe_proof. Qed.
Print Assumptions all_file_functions_safe.

(* every single-output function is at least fault- and error-safe (empty exception list) *)
Theorem all_file_functions_fault_safe :
  forall r, In r table -> single_output r = true ->
  exists k, key_of_dkey (f_key r) = Some k /\ forall fin, fin <> CPanic -> safe_for k fin.
Proof. exact all_file_functions_fault_safe_proof. Qed.
Print Assumptions all_file_functions_fault_safe.

(* non-vacuity: the temp-name supply used for extraction satisfies the hypothesis; both causes exist *)
Example C01_nonvacuous :
  (forall m, m !! fresh_path m = None) /\ (forall m, m !! fresh_hi m = None) /\
  one_cause nofault CPanic /\ one_cause (single 3) COk /\ safe_for KErr CErr /\ safe_for KFlag CPanic.
Proof.
  split; [exact fresh_path_spec|]. split; [exact fresh_hi_spec|]. split; [left; reflexivity|].
  split; [right; split; [reflexivity|exists 3; reflexivity]|]. split; [right; split; discriminate|left; reflexivity].
Qed.
Example C01_table_nonvacuous :
  existsb (fun r => String.eqb (f_name r) "TrimFile" && dkey_eqb (f_key r) DFlag) table = true /\
  existsb (fun r => String.eqb (f_name r) "MergeAppendFile" && dkey_eqb (f_key r) DFlag) table = true /\
  existsb (fun r => String.eqb (f_name r) "writeCutOutputWith" && dkey_eqb (f_key r) DFlag) table = true /\
  existsb (fun r => String.eqb (f_name r) "WriteContext" && dkey_eqb (f_key r) DFlag) table = true /\
  existsb (fun r => String.eqb (f_name r) "MergeCreateFile" && dkey_eqb (f_key r) DFlag) table = true /\
  60 <= length (filter single_output table).
Proof. exact table_nonvacuous_proof. Qed.
