(* C09 — resource limits.  Executable model, no proofs.
   Go int / int64 values are Z; every arithmetic step the code performs before a check is
   written with the wrap-around operators of Lib.GoInt at width 64, so that an overflow in
   the code would show in the model. *)
From Coq Require Import ZArith List Bool String.
From PV Require Import Lib.GoInt.
Import ListNotations.
Open Scope Z_scope.

Definition W := 64.
Definition maxInt64 := maxS W.
Definition DefaultMaxDecodeBytes : Z := 512 * 2 ^ 20.     (* filter.go:48 *)

Inductive dres := DOk (len : Z) | DErrLimit | DErrEOF (len : Z).

(* filter.go baseFilter.decodeLimit *)
Definition decodeLimit (maxDecodeBytes maxLen : Z) : Z :=
  if 0 <=? maxLen then maxLen
  else if maxDecodeBytes =? 0 then DefaultMaxDecodeBytes
  else maxDecodeBytes.

(* filter.go baseFilter.copyDecoded.  avail = number of bytes the decoder r would produce.
   io.CopyN(b, r, n): min(avail, n) bytes, io.EOF when avail < n (the buffer is still returned).
   io.Copy over LimitedReader{N: limit+1}: min(avail, limit+1) bytes. *)
Definition copyDecoded (maxDecodeBytes avail maxLen : Z) : dres :=
  if 0 <=? maxLen then
    (if avail <? maxLen then DErrEOF avail else DOk maxLen)
  else
    let limit := decodeLimit maxDecodeBytes maxLen in
    if limit <? 0 then DOk avail
    else if limit =? maxInt64 then DOk avail
    else
      let n := saddw W limit 1 in                       (* limit + 1 *)
      let got := Z.min avail n in
      if limit <? got then DErrLimit else DOk got.

(* what a caller can rely on: the largest buffer copyDecoded may hand back *)
Definition effLimit (maxDecodeBytes maxLen avail : Z) : Z :=
  if 0 <=? maxLen then maxLen
  else let limit := decodeLimit maxDecodeBytes maxLen in
       if (limit <? 0) || (limit =? maxInt64) then avail else limit.

(* read.go readStreamContent, the length gate before make([]byte, streamLength):
   returns the size of the allocation, or Err; streamLength <= 0 goes to the blind reader
   (bounded separately by maxStreamBytes) — not modelled here. *)
Definition streamAlloc (streamLength maxStreamBytes : Z) : res Z :=
  if streamLength <=? 0 then Ok 0
  else if maxStreamBytes <? streamLength then Err
  else Ok streamLength.

Record limits := mklim { MaxObjectCount : Z; MaxXRefEntries : Z;
                         MaxObjectStreamCount : Z; MaxObjectStreamFirst : Z;
                         MaxImagePixels : Z; MaxImageBytes : Z }.

(* parse.go xRefStreamSize (Size present) *)
Definition xRefStreamSize (size : Z) (l : limits) : res Z :=
  if size <=? 0 then Err
  else if MaxObjectCount l <? size then Err
  else Ok size.

(* parse.go xRefStreamObjectsFromIndex over the (start, count) pairs of /Index.
   Returns (number of entries appended, make() capacity, new size). *)
Fixpoint fromIndex (idx : list (Z * Z)) (size total : Z) (l : limits) (relaxed : bool)
  : res (Z * Z) :=
  match idx with
  | [] => Ok (total, size)
  | (start, n) :: rest =>
    if (start <? 0) || (n <? 0) || (ssubw W (MaxObjectCount l) n <? start) then Err
    else
      let e := saddw W start n in
      if (size <? e) && negb relaxed then Err
      else
        let size' := if size <? e then e else size in
        if ssubw W (MaxXRefEntries l) total <? n then Err
        else fromIndex rest size' (saddw W total n) l relaxed
  end.

(* parse.go xRefStreamObjectsFromSize *)
Definition fromSize (size : Z) (l : limits) : res (Z * Z) :=
  if MaxXRefEntries l <? size then Err else Ok (size, size).

(* ParseXRefStreamDictWithLimits: Size, then Index or Size expansion.
   Ok (entries, cap, size): len(objs) = entries, make(.., 0, cap) *)
Definition xrefObjects (size : Z) (idx : option (list (Z * Z))) (l : limits) (relaxed : bool)
  : res (Z * Z * Z) :=
  match xRefStreamSize size l with
  | Err => Err
  | Ok sz =>
    match idx with
    | Some ix => match fromIndex ix sz 0 l relaxed with
                 | Ok (tot, sz') => Ok (tot, sz, sz') | Err => Err end
    | None => match fromSize sz l with
              | Ok (tot, sz') => Ok (tot, sz, sz') | Err => Err end
    end
  end.

(* parse.go ObjectStreamDictWithLimits *)
Definition objStreamOK (n first : Z) (l : limits) : bool :=
  negb ((n <=? 0) || (MaxObjectStreamCount l <? n)) &&
  negb ((first <? 0) || (MaxObjectStreamFirst l <? first)).

(* parse.go ObjectStreamDictWithLimits, the struct it builds: ObjCount, FirstObjOffset and the
   MaxDecodeBytes field := limits.MaxDecodeBytes (mdb) that the lazy full decode will use *)
Record osd := mkosd { o_count : Z; o_first : Z; o_mdb : Z }.
Definition objectStreamDictWithLimits (n first : Z) (l : limits) (mdb : Z) : res osd :=
  if objStreamOK n first l then Ok (mkosd n first mdb) else Err.

(* read.go parseObjectStream: the prolog decode DecodeLengthWithLimit(FirstObjOffset, limits.MaxDecodeBytes) *)
Definition osdPrologDecode (o : osd) (mdb avail : Z) : dres := copyDecoded mdb avail (o_first o).
(* streamdict.go LazyObjectStreamObject.GetData: osd.DecodeWithLimit(osd.MaxDecodeBytes)
   = DecodeLengthWithLimit(-1, osd.MaxDecodeBytes): the whole content, under the limit stored in the struct *)
Definition osdFullDecode (o : osd) (avail : Z) : dres := copyDecoded (o_mdb o) avail (-1).

(* safemath.MultiplyInt64 as proved in C42 (exact or error, negative operands rejected) *)
Definition mul64 (a b : Z) : res Z :=
  if (0 <=? a) && (0 <=? b) && (a * b <=? maxInt64) then Ok (a * b) else Err.

(* image.go validateImageResourceLimits: Ok (pixels, renderBytes) *)
Definition imageOK (w h : Z) (l : limits) : res (Z * Z) :=
  if (w <=? 0) || (h <=? 0) then Err
  else match mul64 w h with
       | Err => Err
       | Ok px =>
         if MaxImagePixels l <? px then Err
         else match mul64 px 4 with
              | Err => Err
              | Ok rb => if MaxImageBytes l <? rb then Err else Ok (px, rb)
              end
       end.

(* ---- FlateDecode predictor stage: the row buffers ---- *)
(* safemath.AddInt at Go int width 64 (exact or error, negative operands rejected: property C42) *)
Definition addInt (a b : Z) : res Z :=
  if (0 <=? a) && (0 <=? b) && (a + b <=? maxInt64) then Ok (a + b) else Err.

(* flateDecode.go predictorRowParams: Ok (rowSize, rowLen, bytesPerPixel) *)
Definition predictorRowParams (predictor colors bpc columns : Z) : res (Z * Z * Z) :=
  match mul64 bpc colors with Err => Err | Ok bitsPerPixel =>
  match addInt bitsPerPixel 7 with Err => Err | Ok bppRounded =>
  match mul64 bitsPerPixel columns with Err => Err | Ok rowBits =>
  match addInt rowBits 7 with Err => Err | Ok rowBitsRounded =>
    let rowSize := rowBitsRounded / 8 in
    if predictor =? 2 then Ok (rowSize, rowSize, bppRounded / 8)      (* PredictorTIFF: no row filter byte *)
    else match addInt rowSize 1 with Err => Err | Ok rowLen => Ok (rowSize, rowLen, bppRounded / 8) end
  end end end end.

(* flateDecode.go validatePredictor / flate.parameters (None = entry absent from /DecodeParms) *)
Definition validPredictor (p : Z) : bool := (p =? 2) || ((10 <=? p) && (p <=? 15)).
Definition flateParameters (colors bpc columns : option Z) : res (Z * Z * Z) :=
  let oc := match colors with Some c => if c <=? 0 then None else Some c | None => Some 1 end in
  let ob := match bpc with
            | Some b => if (b =? 1) || (b =? 2) || (b =? 4) || (b =? 8) || (b =? 16) then Some b else None
            | None => Some 8 end in
  let ocol := match columns with Some c => if c <=? 0 then None else Some c | None => Some 1 end in
  match oc, ob, ocol with Some c, Some b, Some col => Ok (c, b, col) | _, _, _ => Err end.

Inductive rowres := RPassThru | RErr | RErrLimit | RAlloc (rowSize rowLen : Z).

(* flateDecode.go decodePostProcess up to the allocation in decodePostProcessRows
   (cr, pr := make([]byte, rowLen) twice; the output grows by rowSize per row).
   maxLen is the DecodeLength argument (-1 = full decode, >= 0 = partial decode, e.g. the object stream
   prolog): the row pre-check uses decodeLimit(-1), i.e. it does NOT depend on maxLen — the parameter is
   kept so that the theorem speaks about both decode modes and K drives both. *)
Definition rowGuard (mdb : Z) (predictor colors bpc columns : option Z) (maxLen : Z) : rowres :=
  match predictor with
  | None => RPassThru
  | Some p =>
    if p =? 1 then RPassThru
    else if negb (validPredictor p) then RErr
    else match flateParameters colors bpc columns with
         | Err => RErr
         | Ok (c, b, col) =>
           match predictorRowParams p c b col with
           | Err => RErr
           | Ok (rs, rl, _) =>
             let limit := decodeLimit mdb (-1) in
             if (0 <=? limit) && (limit <? rl) then RErrLimit else RAlloc rs rl
           end
         end
  end.

(* ---- RunLengthDecode: the decode loop with its own limit counter ---- *)
(* runLengthDecode.go decode.  Bytes are N (< 256).  The counter `written` is incremented ONCE PER BYTE
   written and compared with `limit == written` BEFORE every byte: that pairing is what keeps
   written <= limit.  rlres carries the bytes written so far (the caller drops them on error). *)
Inductive rlres := RLOk (out : list N) | RLErrLimit (out : list N) | RLErrEOF (out : list N) | RLFuel.

Inductive rlstep := RLStop (r : rlres) | RLCont (src : list N) (written : Z) (out : list N).

Definition rl_at_limit (limit written : Z) : bool := (0 <=? limit) && (limit =? written).
Definition rl_stop (maxLen : Z) (out : list N) : rlres :=
  if 0 <=? maxLen then RLOk (rev out) else RLErrLimit (rev out).

(* literal run: for range c { check; w.WriteByte(src[i]); written++; i++ } *)
Fixpoint rl_literal (c : nat) (src : list N) (limit maxLen written : Z) (out : list N) : rlstep :=
  match c with
  | O => RLCont src written out
  | S c' =>
    if rl_at_limit limit written then RLStop (rl_stop maxLen out)
    else match src with
         | [] => RLStop (RLErrEOF (rev out))          (* unreachable: len(src)-i >= c was checked *)
         | x :: src' => rl_literal c' src' limit maxLen (written + 1) (x :: out)
         end
  end.

(* repeat run: for range c { check; w.WriteByte(src[i]); written++ } *)
Fixpoint rl_repeat (c : nat) (x : N) (limit maxLen written : Z) (out : list N) : rlstep :=
  match c with
  | O => RLCont [] written out
  | S c' =>
    if rl_at_limit limit written then RLStop (rl_stop maxLen out)
    else rl_repeat c' x limit maxLen (written + 1) (x :: out)
  end.

Fixpoint rl_loop (fuel : nat) (src : list N) (limit maxLen written : Z) (out : list N) : rlres :=
  match fuel with
  | O => match src with [] => RLOk (rev out) | _ => RLFuel end
  | S fuel' =>
    match src with
    | [] => RLOk (rev out)
    | b :: rest =>
      if (b =? 128)%N then RLOk (rev out)                                   (* eod *)
      else if (b <? 128)%N then
        let c := S (N.to_nat b) in
        if (length rest <? c)%nat then RLErrEOF (rev out)
        else match rl_literal c rest limit maxLen written out with
             | RLStop r => r
             | RLCont src' w' out' => rl_loop fuel' src' limit maxLen w' out'
             end
      else match rest with
           | [] => RLErrEOF (rev out)
           | x :: rest' =>
             match rl_repeat (N.to_nat (257 - b)) x limit maxLen written out with
             | RLStop r => r
             | RLCont _ w' out' => rl_loop fuel' rest' limit maxLen w' out'
             end
           end
    end
  end.

Definition rlDecode (mdb maxLen : Z) (src : list N) : rlres :=
  rl_loop (length src) src (decodeLimit mdb maxLen) maxLen 0 [].

Definition rl_out (r : rlres) : list N :=
  match r with RLOk o | RLErrLimit o | RLErrEOF o => o | RLFuel => [] end.

(* ---- ASCIIHexDecode: the length gate before make([]byte, maxLen) ----
   digits = hex digits left after white space / EOD removal and padding to an even count *)
Inductive ahxres := AHAlloc (n : Z) | AHErrLimit | AHErrEOF | AHErrOverflow.
Definition ahxGate (mdb digits maxLen : Z) : ahxres :=
  let decodedLen := digits / 2 in
  if maxLen <? 0 then
    let limit := decodeLimit mdb (-1) in
    if (0 <=? limit) && (limit <? decodedLen) then AHErrLimit
    else if maxInt64 / 2 <? decodedLen then AHErrOverflow else AHAlloc decodedLen
  else if decodedLen <? maxLen then AHErrEOF
  else if maxInt64 / 2 <? maxLen then AHErrOverflow else AHAlloc maxLen.

(* ---- decode call sites (table produced by go/cmd/genc09 into Generated.v) ---- *)
(* LField: the limit is read from a struct field X.MaxDecodeBytes (LazyObjectStreamObject.GetData reads
   osd.MaxDecodeBytes); what it holds is decided by the constructions of that struct (second table) *)
Inductive limit_kind := LConfigured | LDefault | LField.
(* decode mode of the call: MFull = the whole stream (maxLen = -1), MPartial = DecodeLength with a maxLen
   expression (object stream prolog, image headers ...); MNone for NewFilter / struct literals *)
Inductive decode_mode := MFull | MPartial | MNone.
Record site := mksite { s_file : string; s_func : string; s_call : string; s_kind : limit_kind;
                        s_mode : decode_mode }.
Definition is_partial (s : site) : bool := match s_mode s with MPartial => true | _ => false end.

Definition is_configured (s : site) : bool :=
  match s_kind s with LConfigured => true | LDefault => false | LField => true end.
Definition is_field (s : site) : bool :=
  match s_kind s with LField => true | _ => false end.
Definition same_site (a : string * string) (s : site) : bool :=
  (String.eqb (fst a) (s_file s)) && (String.eqb (snd a) (s_func s)).
Definition site_ok (known : list (string * string)) (s : site) : bool :=
  is_configured s || existsb (fun a => same_site a s) known.
