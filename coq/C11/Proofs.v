(* C11 — the statements used by Property.v, derived from ProofsTree.rt_all. *)
From Coq Require Import NArith ZArith List Bool Lia ZifyBool ZifyNat ZifyN.
From PV Require Import Lib.GoInt C11.Model C11.ProofsLex C11.ProofsLeaf C11.ProofsUnfold C11.ProofsTree.
Import ListNotations.
Open Scope N_scope.

Lemma print_nonempty : forall o rest, print_S o ++ rest <> [].
Proof. intros o rest. destruct (print_first o) as (c & t & E & _). rewrite E. discriminate. Qed.

Lemma roundtrip_S : forall o maxd level rest,
  wf o = true -> (level + depth o <= eff_depth maxd)%Z -> follow rest = true ->
  parse_top maxd level (print_S o ++ rest) = POk (norm o) (residue o ++ rest).
Proof.
  intros o maxd level rest Hwf Hd Hf. unfold parse_top.
  destruct (print_S o ++ rest) as [|c t] eqn:E; [exfalso; exact (print_nonempty o rest E)|].
  rewrite <- E.
  rewrite (rt_all o Hwf (parse_fuel (print_S o ++ rest)) false maxd level rest Hd Hf); [reflexivity|].
  unfold fuel_ok, parse_fuel. lia.
Qed.

Lemma roundtrip_A : forall o maxd level rest,
  wf o = true -> (level + depth o <= eff_depth maxd)%Z -> follow rest = true ->
  parse_top maxd level (print_A o ++ rest) = POk (norm o) (residue o ++ rest).
Proof. intros. rewrite print_A_S. apply roundtrip_S; assumption. Qed.

(* the simple sufficient condition on what follows: nothing, or one of / < ( [ ] > *)
Lemma follow_simple : forall rest,
  match rest with [] => True | c :: _ => in_set set_num2 c = true end -> follow rest = true.
Proof. intros [|c t] H; [reflexivity|apply follow_delim; exact H]. Qed.

Lemma escape_output_wf : forall s, bal_wf 1 false (escape s) = true.
Proof. intros s. rewrite escape_bal by lia. reflexivity. Qed.

(* without the finiteness bound a written "real" at or above the float64 overflow threshold reads
   back as null (strconv.ParseFloat: ErrRange; parse.go:parseFloat "skip junk") *)
Lemma real_bound_needed :
  let m := (Z.to_N f64_over * pow12)%N in
  parse_top 0 0 (print_S (OReal false m (-12))) = POk ONull [].
Proof. vm_compute. reflexivity. Qed.
