From Coq Require Import Extraction ExtrOcamlBasic.
From PV Require Import Lib.ExtBase C13.Model.
Extraction "model.ml" ext_base_z ext_base_n ext_base_nat ext_base_res ext_base_list
  EncodeUTF16String EncodeUTF16Runes decodeUTF16String decodeUTF16Runes EscapedUTF16String
  Escape Unescape StringLiteralToString HexLiteralToString NewHexLiteral hex_decode
  IsUTF16BE IsStringUTF16BE runes_of_string utf8_valid utf8_of_runes utf16_Encode utf16_Decode
  pdfDocEncodingRune ByteForOctalString.
