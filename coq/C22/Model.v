(* C22 / C23 — shared executable model of pdfcpu's document encryption.
   Transcribed from /repo/pkg/pdfcpu/crypto.go, writeObjects.go, read.go.  NO proofs here.

   External primitives are FUNCTION ARGUMENTS of the model functions (never axioms):
     md5      : bytes -> bytes                crypto/md5 (used by decryptKey)
     aenc/adec: bytes -> bytes -> bytes       AES block cipher  key -> 16-byte block -> block
   RC4 is modelled concretely (KSA + PRGA).  The random IV of encryptAESBytes is an argument. *)
From Coq Require Import ZArith NArith List Bool.
From PV Require Import Lib.GoInt.
Import ListNotations.
Open Scope N_scope.

Definition bytes := list N.

Fixpoint lenN (l : bytes) : N := match l with [] => 0 | _ :: t => N.succ (lenN t) end.

Fixpoint bytes_eqb (a b : bytes) : bool :=
  match a, b with
  | [], [] => true
  | x :: a', y :: b' => (x =? y) && bytes_eqb a' b'
  | _, _ => false
  end.

(* ------------------------------------------------------------------ RC4 (crypto/rc4) *)

Definition nthN (s : list N) (i : N) : N := nth (N.to_nat i) s 0.
Definition setN (s : list N) (i v : N) : list N :=
  firstn (N.to_nat i) s ++ v :: skipn (S (N.to_nat i)) s.
Definition swapN (s : list N) (i j : N) : list N :=
  let a := nthN s i in let b := nthN s j in setN (setN s i b) j a.

Fixpoint iotaN (n : nat) (from : N) : list N :=
  match n with O => [] | S n' => from :: iotaN n' (from + 1) end.

(* rc4.NewCipher: for i in 0..255 { j += s[i] + key[i % k]; swap } (j is uint8) *)
Fixpoint ksa_loop (n : nat) (i j : N) (s key : list N) (klen : N) : list N :=
  match n with
  | O => s
  | S n' =>
      let j' := (j + nthN s i + nthN key (i mod klen)) mod 256 in
      ksa_loop n' (i + 1) j' (swapN s i j') key klen
  end.
Definition ksa (key : bytes) : list N := ksa_loop 256 0 0 (iotaN 256 0) key (lenN key).

(* XORKeyStream *)
Fixpoint prga (s : list N) (i j : N) (data : bytes) : bytes :=
  match data with
  | [] => []
  | b :: rest =>
      let i' := (i + 1) mod 256 in
      let j' := (j + nthN s i') mod 256 in
      let s' := swapN s i' j' in
      let k := nthN s' ((nthN s' i' + nthN s' j') mod 256) in
      N.lxor b k :: prga s' i' j' rest
  end.

(* rc4.NewCipher rejects key sizes < 1 and > 256 (KeySizeError) *)
Definition rc4 (key data : bytes) : res bytes :=
  if (lenN key =? 0) || (256 <? lenN key) then Err else Ok (prga (ksa key) 0 0 data).

(* ------------------------------------------------------------------ decryptKey (crypto.go) *)

Definition le_bytes3 (z : Z) : bytes :=
  [Z.to_N (z mod 256); Z.to_N ((z / 256) mod 256); Z.to_N ((z / 65536) mod 256)].
Definition le_bytes2 (z : Z) : bytes :=
  [Z.to_N (z mod 256); Z.to_N ((z / 256) mod 256)].
Definition sAlT : bytes := [115; 65; 108; 84].

Definition decryptKey (md5 : bytes -> bytes) (objNr gen : Z) (key : bytes) (aes : bool) : res bytes :=
  if ((objNr <? 0) || (4294967295 <? objNr))%Z then Err else
  if ((gen <? 0) || (65535 <? gen))%Z then Err else
  let b := key ++ le_bytes3 objNr ++ le_bytes2 gen ++ (if aes then sAlT else []) in
  let dk := md5 b in
  let l := lenN key + 5 in
  Ok (if l <? 16 then firstn (N.to_nat l) dk else dk).

(* ------------------------------------------------------------------ AES-CBC with PKCS#5 padding *)

Fixpoint xorb (a b : bytes) : bytes :=
  match a, b with
  | x :: a', y :: b' => N.lxor x y :: xorb a' b'
  | _, _ => []
  end.

(* split into 16-byte blocks; cur = current partial block reversed, k = bytes still missing *)
Fixpoint chunk_go (cur : bytes) (k : nat) (l : bytes) : list bytes :=
  match l with
  | [] => match cur with [] => [] | _ => [rev cur] end
  | b :: rest =>
      match k with
      | S O => rev (b :: cur) :: chunk_go [] 16 rest
      | S k' => chunk_go (b :: cur) k' rest
      | O => chunk_go (b :: cur) O rest      (* unreachable: k >= 1 *)
      end
  end.
Definition chunk16 (l : bytes) : list bytes := chunk_go [] 16 l.

Fixpoint cbc_enc (E : bytes -> bytes) (prev : bytes) (blocks : list bytes) : list bytes :=
  match blocks with
  | [] => []
  | p :: rest => let c := E (xorb prev p) in c :: cbc_enc E c rest
  end.
Fixpoint cbc_dec (D : bytes -> bytes) (prev : bytes) (blocks : list bytes) : list bytes :=
  match blocks with
  | [] => []
  | c :: rest => xorb prev (D c) :: cbc_dec D c rest
  end.

Fixpoint repeatN (v : N) (n : nat) : bytes := match n with O => [] | S n' => v :: repeatN v n' end.

(* encryptAESBytes: c = 16 - len%16 (16 when aligned), append c bytes of value c *)
Definition pkcs_pad (b : bytes) : bytes :=
  let l := lenN b mod 16 in
  b ++ repeatN (16 - l) (N.to_nat (16 - l)).

Definition encryptAES (aenc : bytes -> bytes -> bytes) (key iv b : bytes) : bytes :=
  iv ++ concat (cbc_enc (aenc key) iv (chunk16 (pkcs_pad b))).

Inductive aesres := AOk (b : bytes) | AShort | AUnaligned.

(* decryptAESBytes: strip padding only if the last byte is <= 0x10 *)
Definition unpad (data : bytes) : bytes :=
  match rev data with
  | [] => data
  | last :: _ => if last <=? 16 then firstn (N.to_nat (lenN data - last)) data else data
  end.

Definition decryptAES (adec : bytes -> bytes -> bytes) (key b : bytes) : aesres :=
  if lenN b <? 32 then AShort else
  if negb (lenN b mod 16 =? 0) then AUnaligned else
  let iv := firstn 16 b in
  let data := skipn 16 b in
  AOk (unpad (concat (cbc_dec (adec key) iv (chunk16 data)))).

(* ------------------------------------------------------------------ string / stream ciphers *)

Record cparams := { cp_md5 : bytes -> bytes;
                    cp_aenc : bytes -> bytes -> bytes;
                    cp_adec : bytes -> bytes -> bytes;
                    cp_key : bytes;       (* ctx.EncKey *)
                    cp_aes : bool;        (* needAES *)
                    cp_r : Z;             (* ctx.E.R *)
                    cp_obj : Z; cp_gen : Z }.

Definition is_r56 (r : Z) : bool := ((r =? 5) || (r =? 6))%Z.

(* encryptBytes (iv = the random IV drawn by encryptAESBytes) *)
Definition encryptBytes (c : cparams) (iv b : bytes) : res bytes :=
  if cp_aes c then
    match (if is_r56 (cp_r c) then Ok (cp_key c) else decryptKey (cp_md5 c) (cp_obj c) (cp_gen c) (cp_key c) true) with
    | Err => Err
    | Ok k => Ok (encryptAES (cp_aenc c) k iv b)
    end
  else
    match decryptKey (cp_md5 c) (cp_obj c) (cp_gen c) (cp_key c) false with
    | Err => Err
    | Ok k => rc4 k b
    end.

Definition decryptBytes (c : cparams) (b : bytes) : res bytes :=
  if cp_aes c then
    match (if is_r56 (cp_r c) then Ok (cp_key c) else decryptKey (cp_md5 c) (cp_obj c) (cp_gen c) (cp_key c) true) with
    | Err => Err
    | Ok k => match decryptAES (cp_adec c) k b with AOk p => Ok p | _ => Err end
    end
  else
    match decryptKey (cp_md5 c) (cp_obj c) (cp_gen c) (cp_key c) false with
    | Err => Err
    | Ok k => rc4 k b
    end.

(* encryptStream / decryptStream: key derivation uses needAES for the salt; r 5/6 use the file key *)
Definition encryptStream (c : cparams) (iv b : bytes) : res bytes :=
  match (if is_r56 (cp_r c) then Ok (cp_key c) else decryptKey (cp_md5 c) (cp_obj c) (cp_gen c) (cp_key c) (cp_aes c)) with
  | Err => Err
  | Ok k => if cp_aes c then Ok (encryptAES (cp_aenc c) k iv b) else rc4 k b
  end.
Definition decryptStream (c : cparams) (b : bytes) : res bytes :=
  match (if is_r56 (cp_r c) then Ok (cp_key c) else decryptKey (cp_md5 c) (cp_obj c) (cp_gen c) (cp_key c) (cp_aes c)) with
  | Err => Err
  | Ok k => if cp_aes c then match decryptAES (cp_adec c) k b with AOk p => Ok p | _ => Err end else rc4 k b
  end.

(* ------------------------------------------------------------------ object trees *)

(* Strings are modelled at the byte level (StringLiteral after types.Unescape, HexLiteral after
   hex decoding): Escape/Unescape are property C12.  A Go nil object (PDF null) is ONull.
   Stream dictionaries are never nested (they are always indirect objects): see iobj. *)
Inductive obj :=
| ONull | OBool (b : bool) | OInt (z : Z) | OReal (repr : bytes) | OName (n : bytes)
| OStr (b : bytes) | OHex (b : bytes) | ORef (n g : Z)
| OArr (l : list obj) | ODict (d : list (bytes * obj)).

Definition dict := list (bytes * obj).

Fixpoint lookup (k : bytes) (d : dict) : option obj :=
  match d with
  | [] => None
  | (k', v) :: t => if bytes_eqb k k' then Some v else lookup k t
  end.

Definition kFT : bytes := [70; 84].
Definition kType : bytes := [84; 121; 112; 101].
Definition kContents : bytes := [67; 111; 110; 116; 101; 110; 116; 115].
Definition nSig : bytes := [83; 105; 103].
Definition nDocTimeStamp : bytes := [68; 111; 99; 84; 105; 109; 101; 83; 116; 97; 109; 112].
Definition nXRef : bytes := [88; 82; 101; 102].
Definition nMetadata : bytes := [77; 101; 116; 97; 100; 97; 116; 97].
Definition nCrypt : bytes := [67; 114; 121; 112; 116].

(* d["k"] in Go: a missing key and a nil value are both nil *)
Definition goget (k : bytes) (d : dict) : obj :=
  match lookup k d with Some v => v | None => ONull end.

(* encryptDict / decryptDict: ft := d["FT"]; if ft == nil { ft = d["Type"] }; Name Sig | DocTimeStamp *)
Definition is_sig (d : dict) : bool :=
  let ft := match goget kFT d with ONull => goget kType d | v => v end in
  match ft with
  | OName n => bytes_eqb n nSig || bytes_eqb n nDocTimeStamp
  | _ => false
  end.

(* mapres f l: apply f to every element, first error wins (Go: return on the first err) *)
Section MapRes.
  Context {A B : Type} (f : A -> res B).
  Fixpoint mapres (l : list A) : res (list B) :=
    match l with
    | [] => Ok []
    | x :: t => match f x with
                | Err => Err
                | Ok y => match mapres t with Err => Err | Ok t' => Ok (y :: t') end
                end
    end.
End MapRes.

(* one dictionary entry: `if isSig && k == "Contents" { continue }` else recurse *)
Definition on_entry (sg : bool) (rec : obj -> res obj) (kv : bytes * obj) : res (bytes * obj) :=
  let (k, v) := kv in
  match (if sg && bytes_eqb k kContents then Ok v else rec v) with
  | Err => Err
  | Ok v' => Ok (k, v')
  end.

(* encryptDeepObject.  E is the string cipher (encryptBytes with the object's parameters).
   Returning (nil, nil) in Go means "leave the entry as it is". *)
Fixpoint encryptDeep (E : bytes -> res bytes) (o : obj) : res obj :=
  match o with
  | OStr b => match E b with Ok c => Ok (OStr c) | Err => Err end
  | OHex b => match E b with Ok c => Ok (OHex c) | Err => Err end
  | OArr l => match mapres (encryptDeep E) l with Err => Err | Ok l' => Ok (OArr l') end
  | ODict d =>
      match mapres (on_entry (is_sig d) (encryptDeep E)) d with
      | Err => Err | Ok d' => Ok (ODict d')
      end
  | _ => Ok o
  end.

Definition encryptDict (E : bytes -> res bytes) (d : dict) : res dict :=
  match encryptDeep E (ODict d) with Ok (ODict d') => Ok d' | _ => Err end.

(* decryptStringLiteral / decryptHexLiteral: the empty string is returned unchanged *)
Definition dec_str (D : bytes -> res bytes) (b : bytes) : res bytes :=
  match b with [] => Ok [] | _ => D b end.

Fixpoint decryptDeep (D : bytes -> res bytes) (o : obj) : res obj :=
  match o with
  | OStr b => match dec_str D b with Ok c => Ok (OStr c) | Err => Err end
  | OHex b => match dec_str D b with Ok c => Ok (OHex c) | Err => Err end
  | OArr l => match mapres (decryptDeep D) l with Err => Err | Ok l' => Ok (OArr l') end
  | ODict d =>
      match mapres (on_entry (is_sig d) (decryptDeep D)) d with
      | Err => Err | Ok d' => Ok (ODict d')
      end
  | _ => Ok o
  end.

Definition decryptDict (D : bytes -> res bytes) (d : dict) : res dict :=
  match decryptDeep D (ODict d) with Ok (ODict d') => Ok d' | _ => Err end.

(* ------------------------------------------------------------------ indirect objects: writer and reader *)

(* What the xref table holds for one object number. *)
Inductive iobj :=
| IObj (o : obj)                                        (* anything but a stream *)
| IStream (d : dict) (filters : list bytes) (raw : bytes) (* StreamDict: dict, FilterPipeline names, Raw *)
| ILazy (o : obj).                                       (* LazyObjectStreamObject: undecoded member of an object stream of the input *)

Definition type_is (n : bytes) (d : dict) : bool :=
  match goget kType d with OName t => bytes_eqb t n | _ => false end.

(* The ONE decision "this stream is not enciphered because of its crypt filter": /Crypt is the sole filter
   (whatever its DecodeParms say).  Both the writer and the reader must take exactly this decision. *)
Definition skips_crypt (filters : list bytes) : bool :=
  match filters with [f] => bytes_eqb f nCrypt | _ => false end.

(* writeStreamDictObject: !(len(sd.FilterPipeline) == 1 && sd.FilterPipeline[0].Name == "Crypt") *)
Definition write_skips_crypt (filters : list bytes) : bool :=
  Nat.eqb (length filters) 1 && bytes_eqb (nth 0 filters []) nCrypt.

(* saveDecodedStreamContentWithLimit: len(sd.FilterPipeline) == 1 && sd.FilterPipeline[0].Name == "Crypt" *)
Definition read_skips_crypt (filters : list bytes) : bool :=
  Nat.eqb (length filters) 1 && bytes_eqb (nth 0 filters []) nCrypt.

(* What reaches the output for one indirect object. *)
Inductive emitted :=
| EmTop (o : obj)                       (* "n g obj" + PDFString(o) + "endobj" *)
| EmTopStream (d : dict) (raw : bytes)  (* dict + stream data *)
| EmMember (o : obj).                   (* appended in clear to the current object stream, whose data is
                                           later written through the IStream path (stopObjectStream) *)

(* writeObjectGeneric / writeFlatObject dispatch with ctx.EncKey != nil.
   to_os = writeToObjectStream(...) answered true for this object.
   strE = string cipher, stmE = stream cipher of this object number. *)
Definition write_keyed (strE stmE : bytes -> res bytes) (to_os : bool) (io : iobj) : res emitted :=
  match io with
  | IObj o =>
      match o with
      | OInt _ | ONull => Ok (EmTop o)             (* writeIntegerObject / writePDFNullObject: never in an object stream *)
      | _ => if to_os then Ok (EmMember o) else
             match encryptDeep strE o with Ok o' => Ok (EmTop o') | Err => Err end
      end
  | IStream d filters raw =>                       (* writeDeepStreamDict + writeStreamDictObject *)
      match encryptDict strE d with
      | Err => Err
      | Ok d' =>
          if type_is nXRef d' || write_skips_crypt filters then Ok (EmTopStream d' raw)
          else match stmE raw with Ok raw' => Ok (EmTopStream d' raw') | Err => Err end
      end
  | ILazy o => Ok (EmTop o)                        (* writeLazyObjectStreamObject: raw bytes, NO encryption;
                                                      not reachable through writeIndirectObject when a key is set *)
  end.

(* the same dispatch with ctx.EncKey == nil: nothing is enciphered *)
Definition write_plain (to_os : bool) (io : iobj) : res emitted :=
  match io with
  | IObj o =>
      match o with
      | OInt _ | ONull => Ok (EmTop o)
      | _ => if to_os then Ok (EmMember o) else Ok (EmTop o)
      end
  | IStream d filters raw => Ok (EmTopStream d raw)
  | ILazy o => Ok (EmTop o)
  end.

(* writeIndirectObject: o, err := ctx.Dereference(ir) — an undecoded object-stream member is always
   decoded first (keyed or not) and then takes the normal path; the ILazy cases of write_keyed /
   write_plain (writeObjectGeneric's LazyObjectStreamObject case) are no longer reachable through it *)
Definition deref_for_write (io : iobj) : iobj :=
  match io with
  | ILazy o => IObj o
  | _ => io
  end.

Definition write_iobj (keyed : bool) (strE stmE : bytes -> res bytes) (to_os : bool) (io : iobj) : res emitted :=
  if keyed then write_keyed strE stmE to_os (deref_for_write io)
  else write_plain to_os (deref_for_write io).

(* Reader: resolveObject (dict()/decryptDeepObject) and saveDecodedStreamContent/decryptStreamContent.
   emd = ctx.E.Emd.  A member of an object stream is parsed from the decrypted stream data and is not
   decrypted again (compressedObject). *)
Definition read_emitted (strD stmD : bytes -> res bytes) (emd : bool) (filters : list bytes) (e : emitted) : res iobj :=
  match e with
  | EmTop o => match decryptDeep strD o with Ok o' => Ok (IObj o') | Err => Err end
  | EmMember o => Ok (IObj o)
  | EmTopStream d raw =>
      match decryptDict strD d with
      | Err => Err
      | Ok d' =>
          if read_skips_crypt filters then Ok (IStream d' filters raw)
          else if type_is nXRef d' then Ok (IStream d' filters raw)      (* xref streams are parsed before ctx.E exists *)
          else match raw with
               | [] => Ok (IStream d' filters raw)
               | _ => if negb emd && type_is nMetadata d' then Ok (IStream d' filters raw)   (* unencryptedMetadata *)
                      else match stmD raw with Ok raw' => Ok (IStream d' filters raw') | Err => Err end
               end
      end
  end.

(* ------------------------------------------------------------------ /Perms (R 5/6) *)

Definition permissionBytes (p : Z) : res bytes :=
  if ((p <? -2147483648) || (2147483647 <? p))%Z then Err else
  let u := (p mod 18446744073709551616)%Z in
  Ok [Z.to_N (u mod 256); Z.to_N ((u / 256) mod 256); Z.to_N ((u / 65536) mod 256); Z.to_N ((u / 16777216) mod 256)].

(* writePermissions: the 16-byte block that is ECB-encrypted into /Perms *)
Definition permsBlock (p : Z) (emd : bool) : res bytes :=
  match permissionBytes p with
  | Err => Err
  | Ok pb => Ok (pb ++ [255; 255; 255; 255] ++ [(if emd then 84 else 70); 97; 100; 98] ++ [0; 0; 0; 0])
  end.
Definition writePermissions (aenc : bytes -> bytes -> bytes) (key : bytes) (p : Z) (emd : bool) : res bytes :=
  match permsBlock p emd with Err => Err | Ok b => Ok (aenc key b) end.

(* validatePermissions *)
Definition validatePermissions (adec : bytes -> bytes -> bytes) (key perms : bytes) (p : Z) (emd : bool) : res bool :=
  let b := adec key perms in
  if negb (bytes_eqb (firstn 3 (skipn 9 b)) [97; 100; 98]) then Ok false else
  let c := nthN b 8 in
  if negb ((c =? 84) || (c =? 70)) then Ok false else
  if negb (Bool.eqb (c =? 84) emd) then Ok false else
  match permissionBytes p with
  | Err => Err
  | Ok pb => Ok (bytes_eqb (firstn 4 b) pb)
  end.

(* /P as written by newEncryptDict (int16(ctx.Permissions)) and reported by api.GetPermissions (int16(ctx.E.P)) *)
Definition p_written (requested : Z) : Z := wrapS 16 requested.
Definition p_reported (p_in_dict : Z) : Z := wrapS 16 p_in_dict.

(* ------------------------------------------------------------------ passwords, R2-R4 (Algorithms 2, 3, 4/5, 6, 7)
   crypto.go: encKey, key, o, u, validateUserPassword, validateOwnerPassword.  A password is the byte
   string []byte(pw) of the Go string.  Three sites pad/truncate a password to 32 bytes: encKey (2a),
   key (3a) and o (3e); each is transcribed separately and calls pad32. *)

Definition pad_const : bytes :=
  [40; 191; 78; 94; 78; 117; 138; 65; 100; 0; 78; 86; 255; 250; 1; 8;
   46; 46; 0; 182; 208; 104; 62; 128; 47; 12; 169; 254; 100; 83; 105; 122].

(* if len(pw) >= 32 { pw = pw[:32] } else { pw = append(pw, pad[:32-len(pw)]...) } *)
Definition pad32 (pw : bytes) : bytes :=
  if 32 <=? lenN pw then firstn 32 pw else pw ++ firstn (N.to_nat (32 - lenN pw)) pad_const.

Fixpoint iterN {A : Type} (f : A -> A) (n : nat) (x : A) : A :=
  match n with O => x | S n' => iterN f n' (f x) end.

Definition le_bytes4 (z : Z) : bytes :=
  let u := (z mod 4294967296)%Z in
  [Z.to_N (u mod 256); Z.to_N ((u / 256) mod 256); Z.to_N ((u / 65536) mod 256); Z.to_N ((u / 16777216) mod 256)].

(* encKey (Algorithm 2) *)
Definition encKey (md5 : bytes -> bytes) (upw o_entry : bytes) (p : Z) (id : bytes) (r : Z) (emd : bool) (l : Z) : bytes :=
  let h := md5 (pad32 upw ++ o_entry ++ le_bytes4 p ++ id ++
                (if (r =? 4)%Z && negb emd then [255; 255; 255; 255] else [])) in
  let n := Z.to_nat (l / 8) in
  if (3 <=? r)%Z then firstn n (iterN (fun k => md5 (firstn n k)) 50 h) else firstn 5 h.

(* key (Algorithm 3 a-d): the owner password, or the user password when there is none *)
Definition ownerKey (md5 : bytes -> bytes) (opw upw : bytes) (r l : Z) : bytes :=
  let pw := match opw with [] => upw | _ => opw end in
  let k := md5 (pad32 pw) in
  if (3 <=? r)%Z then firstn (Z.to_nat (l / 8)) (iterN md5 50 k) else firstn 5 k.

Definition xorkey (key : bytes) (i : N) : bytes := map (fun b => N.lxor b i) key.

Fixpoint rc4_chain (ks : list bytes) (d : bytes) : res bytes :=
  match ks with
  | [] => Ok d
  | k :: t => match rc4 k d with Err => Err | Ok c => rc4_chain t c end
  end.

Definition up_1_19 : list N := [1; 2; 3; 4; 5; 6; 7; 8; 9; 10; 11; 12; 13; 14; 15; 16; 17; 18; 19].
Definition down_19_0 : list N := [19; 18; 17; 16; 15; 14; 13; 12; 11; 10; 9; 8; 7; 6; 5; 4; 3; 2; 1; 0].

(* o (Algorithm 3 e-g): RC4 of the padded USER password under the owner key(s) *)
Definition compute_o (md5 : bytes -> bytes) (opw upw : bytes) (r l : Z) : res bytes :=
  let key := ownerKey md5 opw upw r l in
  rc4_chain (key :: (if (3 <=? r)%Z then map (xorkey key) up_1_19 else [])) (pad32 upw).

(* u (Algorithms 4/5): returns (U, file key) *)
Definition compute_u (md5 : bytes -> bytes) (upw o_entry : bytes) (p : Z) (id : bytes) (r : Z) (emd : bool) (l : Z)
  : res (bytes * bytes) :=
  let key := encKey md5 upw o_entry p id r emd l in
  match rc4 key [] with
  | Err => Err
  | Ok _ =>
      match (if (r =? 2)%Z then rc4 key pad_const
             else if ((r =? 3) || (r =? 4))%Z
                  then rc4_chain (key :: map (xorkey key) up_1_19) (md5 (pad_const ++ id))
                  else Ok []) with
      | Err => Err
      | Ok u => Ok (u ++ repeatN 0 (32 - length u), key)
      end
  end.

(* validateUserPassword (Algorithm 6): (ok, ctx.EncKey) *)
Definition validateUser (md5 : bytes -> bytes) (upw o_entry u_entry : bytes) (p : Z) (id : bytes) (r : Z) (emd : bool) (l : Z)
  : res (bool * bytes) :=
  match compute_u md5 upw o_entry p id r emd l with
  | Err => Err
  | Ok (u, key) =>
      Ok ((if (r =? 2)%Z then bytes_eqb u_entry u
           else if ((r =? 3) || (r =? 4))%Z
                then (16 <=? lenN u_entry) && bytes_eqb (firstn 16 u_entry) (firstn 16 u)
                else false), key)
  end.

(* the RC4 keys that undo /O: validateOwnerPassword 7b *)
Definition recover_chain (key : bytes) (r : Z) : list bytes :=
  if (r =? 2)%Z then [key]
  else if ((r =? 3) || (r =? 4))%Z then map (xorkey key) down_19_0 else [].

(* validateOwnerPassword (Algorithm 7): recover the user password from /O, then Algorithm 6 with it *)
Definition validateOwner (md5 : bytes -> bytes) (opw upw_ctx o_entry u_entry : bytes) (p : Z) (id : bytes) (r : Z) (emd : bool) (l : Z)
  : res (bool * bytes) :=
  let key := ownerKey md5 opw upw_ctx r l in
  match rc4_chain (recover_chain key r) o_entry with
  | Err => Err
  | Ok rec => validateUser md5 rec o_entry u_entry p id r emd l
  end.
