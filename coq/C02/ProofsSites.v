(* C02 — the staging-name table regenerated from the sources (Generated.v): every site creates its
   staging file in the directory of the destination under a name that starts with ".<base>.tmp-". *)
From Coq Require Import NArith String List Bool.
From PV Require Import C02.Model C02.Generated.
Import ListNotations.
Open Scope list_scope.

Lemma is_prefix_app a : forall x, is_prefix a (a ++ x) = true.
Proof.
  induction a as [|c a IH]; intros x; cbn; [reflexivity|].
  rewrite N.eqb_refl. cbn. apply IH.
Qed.

Lemma is_prefix_inv a : forall b, is_prefix a b = true -> exists x, b = a ++ x.
Proof.
  induction a as [|c a IH]; intros b Hp; cbn in *; [exists b; reflexivity|].
  destruct b as [|y b]; [discriminate|]. apply andb_true_iff in Hp. destruct Hp as [Hc Hp].
  apply N.eqb_eq in Hc. subst y. destruct (IH b Hp) as [x ->]. exists x. reflexivity.
Qed.

Lemma bytes_eqb_refl a : bytes_eqb a a = true.
Proof. induction a as [|c a IH]; cbn; [reflexivity|]. rewrite N.eqb_refl. exact IH. Qed.

Lemma bytes_eqb_eq a : forall b, bytes_eqb a b = true -> a = b.
Proof.
  induction a as [|c a IH]; intros [|y b] Hb; cbn in *; try discriminate; [reflexivity|].
  apply andb_true_iff in Hb. destruct Hb as [Hc Hb]. apply N.eqb_eq in Hc. subst y.
  rewrite (IH b Hb). reflexivity.
Qed.

(* a site of the required shape renders, for every destination and every random suffix, a name that is
   hidden next to the destination *)
Lemma site_shape_hidden s target suffix :
  site_shape_ok s = true ->
  exists n, render_site s target suffix = Some n /\ hidden_next_to target n = true.
Proof.
  destruct s as [d p]. unfold site_shape_ok. cbn [site_dir site_pat].
  destruct d; [|discriminate].
  destruct p as [|t1 p]; [discriminate|]. destruct t1 as [a| |]; try discriminate.
  destruct p as [|t2 p]; [discriminate|]. destruct t2 as [?| |]; try discriminate.
  destruct p as [|t3 p]; [discriminate|]. destruct t3 as [b| |]; try discriminate.
  destruct p as [|t4 p]; [|discriminate].
  intros Hshape. apply andb_true_iff in Hshape. destruct Hshape as [Ha Hb].
  apply bytes_eqb_eq in Ha. subst a. apply is_prefix_inv in Hb. destruct Hb as [rest ->].
  unfold render_site. cbn [site_dir site_pat render_pat flat_map N.eqb Pos.eqb app].
  eexists. split; [reflexivity|].
  unfold hidden_next_to. cbn [pn_dir pn_base]. rewrite bytes_eqb_refl. cbn [andb].
  unfold hidden_prefix. cbn [is_prefix]. rewrite N.eqb_refl. cbn [andb].
  rewrite app_nil_r.
  match goal with |- is_prefix _ (_ ++ _ :: _ :: _ :: _ :: _ :: ?X) = true =>
    replace (pn_base target ++ 46%N :: 116%N :: 109%N :: 112%N :: 45%N :: X)
      with ((pn_base target ++ [46; 116; 109; 112; 45]%N) ++ X) by (rewrite <- app_assoc; reflexivity)
  end.
  apply is_prefix_app.
Qed.

Lemma all_sites_shape : forallb (fun x => site_shape_ok (snd x)) staging_sites = true.
Proof. vm_compute. reflexivity. Qed.

Lemma staging_names_hidden_proof :
  forall name s, In (name, s) staging_sites ->
  forall target suffix, exists n, render_site s target suffix = Some n /\ hidden_next_to target n = true.
Proof.
  intros name s Hin target suffix. apply site_shape_hidden.
  pose proof all_sites_shape as Hall. rewrite forallb_forall in Hall. exact (Hall _ Hin).
Qed.

Lemma sites_listed_proof :
  map fst staging_sites =
  ["openStagedOutputWithOperations"; "createStreamOutput"; "writeCutOutputWith"; "createStagedFile"]%string.
Proof. reflexivity. Qed.

(* every function that opens the output of a publish protocol inspects the destination with os.Stat only and
   opens files with O_CREATE|O_EXCL only (no O_TRUNC / O_APPEND, no os.Create / os.WriteFile / os.Open) *)
Lemma publish_sites_exclusive_proof :
  forall name s, In (name, s) publish_sites ->
  (forall k, In k (ps_stats s) -> k = SStat) /\
  (forall fl, In fl (ps_opens s) -> open_exclusive fl = true) /\
  ps_opens s <> [].
Proof.
  assert (Hall : forallb (fun x => pubsite_ok (snd x) && negb (Nat.eqb (length (ps_opens (snd x))) 0)) publish_sites = true)
    by (vm_compute; reflexivity).
  intros name s Hin. rewrite forallb_forall in Hall. specialize (Hall _ Hin). cbn [snd] in Hall.
  apply andb_true_iff in Hall. destruct Hall as [Hok Hne]. unfold pubsite_ok in Hok.
  apply andb_true_iff in Hok. destruct Hok as [Hs Ho]. rewrite forallb_forall in Hs, Ho.
  split; [|split].
  - intros k Hk. specialize (Hs k Hk). destruct k; [reflexivity|discriminate].
  - exact Ho.
  - intros Hnil. rewrite Hnil in Hne. discriminate.
Qed.

Lemma publish_sites_listed_proof :
  map fst publish_sites =
  ["createStreamOutput"; "openStagedOutputWithOperations"; "createStagedFile"; "writeCutOutputWith"]%string.
Proof. reflexivity. Qed.
