(* C33 — split and merge on the page-tree model.  Executable Gallina only; NO proofs here.
   Transcribed from pkg/api/split.go, pkg/api/merge.go, pkg/pdfcpu/merge.go and
   pkg/pdfcpu/model/xreftable.go (InsertPages / AppendPages). *)
From Coq Require Import ZArith List Bool.
From PV Require Import Lib.GoInt C33.Pages.
Import ListNotations.
Open Scope Z_scope.

(* ---------------- split.go: writePageSpans / pageSpans ----------------
     if span <= 0 -> ErrInvalidSplitSpan
     for i := 0; i < PageCount/span; i++ { start := i*span; from, thru := start+1, start+span; ... }
     if PageCount%span > 0 { start := (PageCount/span)*span; from, thru := start+1, PageCount; ... }   *)
Definition span_parts (n span : Z) : res (list (Z * Z)) :=
  if span <=? 0 then Err else
  let q := Z.quot n span in
  let full := map (fun i => let start := Z.of_nat i * span in (start + 1, start + span))
                  (seq 0 (Z.to_nat q)) in
  let last := if 0 <? Z.rem n span then [(q * span + 1, n)] else [] in
  Ok (full ++ last).

(* ---------------- split.go: validateSplitPageNumbers ---------------- *)
Fixpoint strictly_inc (prev : Z) (l : list Z) : bool :=
  match l with
  | [] => true
  | x :: r => (prev <? x) && strictly_inc x r
  end.

Definition valid_page_nrs (n : Z) (nrs : list Z) : bool :=
  match nrs with
  | [] => false                                           (* ErrMissingSplitPageNumbers *)
  | p :: r => (2 <=? p) && (p <=? n) && strictly_inc p r   (* ErrInvalidSplitPageNumberSequence *)
  end.

(* ---------------- split.go: writePageSpansSplitAlongPages ----------------
     from, thru := 1, 0
     for i := range pageNrs { thru = pageNrs[i]-1; if thru >= PageCount { break }; write(from,thru); from = thru+1 }
     thru = PageCount; write(from, thru)                                               *)
Fixpoint along_loop (n from : Z) (nrs : list Z) : list (Z * Z) :=
  match nrs with
  | [] => [(from, n)]
  | p :: r => let thru := p - 1 in
              if n <=? thru then [(from, n)] else (from, thru) :: along_loop n (thru + 1) r
  end.

Definition along_parts (n : Z) (nrs : list Z) : res (list (Z * Z)) :=
  if valid_page_nrs n nrs then Ok (along_loop n 1 nrs) else Err.

(* pageSpan: ExtractPages(ctx, PagesForPageRange(from, thru), false) for every part *)
Fixpoint extract_parts (t : tree) (parts : list (Z * Z)) : res (list tree) :=
  match parts with
  | [] => Ok []
  | (f, th) :: r =>
      match extract_pages t (page_range f th), extract_parts t r with
      | Ok x, Ok xs => Ok (x :: xs)
      | _, _ => Err
      end
  end.

Definition split_span (t : tree) (span : Z) : res (list tree) :=
  match span_parts (count_of t) span with Ok ps => extract_parts t ps | Err => Err end.

Definition split_along (t : tree) (nrs : list Z) : res (list tree) :=
  match along_parts (count_of t) nrs with Ok ps => extract_parts t ps | Err => Err end.

(* ---------------- pkg/pdfcpu/merge.go: appendSourcePageTreeToDestPageTree ---------------- *)
(* hasInheritedPageAttrs *)
Definition has_inh (a : attrs) : bool :=
  a_res a || isSome (a_media a) || isSome (a_crop a) || isSome (a_rot a).

(* ensureNeutralPageTreeRoot: a root with inheritable attributes is wrapped into a fresh root *)
Definition neutral_root (t : tree) : tree :=
  match t with
  | Node a c kids => if has_inh a then Node no_attrs c [t] else t
  | Leaf _ => t
  end.

(* createDividerPagesDict: the blank page takes PageDims()[last] of the destination
   (effective MediaBox dimensions, swapped when Rot%180 != 0) *)
Definition last_dims_v (l : list vpage) : option rect :=
  match rev l with
  | [] => None
  | v :: _ =>
      match v_media v with
      | None => None
      | Some (x0, y0, x1, y1) =>
          let w := Z.abs (x1 - x0) in let h := Z.abs (y1 - y0) in
          if Z.rem (v_rot v) 180 =? 0 then Some (0, 0, w, h) else Some (0, 0, h, w)
      end
  end.
Definition last_dims (t : tree) : option rect := last_dims_v (pages_of t).

Definition divider_node (mb : rect) : tree := Node no_attrs 1 [Leaf (blank_page mb)].

Definition append_tree (dest src : tree) (divider : bool) : res tree :=
  match neutral_root dest with
  | Node a c kids =>
      if divider then
        match last_dims dest with
        | Some mb => Ok (Node a (c + count_of src + 1) (kids ++ [divider_node mb] ++ [src]))
        | None => Err
        end
      else Ok (Node a (c + count_of src) (kids ++ [src]))
  | Leaf _ => Err
  end.

(* api.Merge / MergeRaw: the first document is the destination, the others are appended in order *)
Fixpoint merge_all (dest : tree) (srcs : list tree) (divider : bool) : res tree :=
  match srcs with
  | [] => Ok dest
  | s :: r => match append_tree dest s divider with
              | Ok d => merge_all d r divider
              | Err => Err
              end
  end.

Definition merge_create (docs : list tree) (divider : bool) : res tree :=
  match docs with
  | [] => Err                       (* ErrMissingPDFInput *)
  | d :: r => merge_all d r divider
  end.

(* ---------------- zip: xreftable.go weaveInPage / insertPagesDepth / AppendPages ----------------
   weaveInPage (and the loop of AppendPages): the source page dict gets Parent := dest parent, and
   Rotate / MediaBox / CropBox / Resources are pinned into the dict from the inherited values when the
   dict has no own entry (CropBox and Resources only if an inherited value exists). *)
Definition weave_page (r : rpage) : pageD :=
  let (p, a) := r in
  mkPage (pg_id p)
    (mkAttrs (Some (rot_of a)) (a_media a)
             (orelse (a_crop (pg_attrs p)) (a_crop a))
             (a_res (pg_attrs p) || a_res a))
    (pg_trim p) (pg_bleed p) (pg_art p).

(* insertPagesDepth: walk the destination tree; after the p-th destination page the p-th source page
   is woven in while p <= source.PageCount.  The running counter p is modelled by the list of source
   pages not yet consumed.  Returns the new kids, their page count and the remaining source pages. *)
Section ZipKids.
  Variable zt : tree -> list rpage -> tree * list rpage.
  Fixpoint zip_kids (ks : list tree) (src : list rpage) : list tree * Z * list rpage :=
    match ks with
    | [] => ([], 0, src)
    | k :: ks' =>
        match k with
        | Leaf p =>
            match src with
            | s :: src' =>
                let '(r, c, rest) := zip_kids ks' src' in
                (Leaf p :: Leaf (weave_page s) :: r, c + 2, rest)
            | [] =>
                let '(r, c, rest) := zip_kids ks' [] in (Leaf p :: r, c + 1, rest)
            end
        | Node _ _ _ =>
            let '(k', src') := zt k src in
            let '(r, c, rest) := zip_kids ks' src' in
            (k' :: r, count_of k' + c, rest)
        end
    end.
End ZipKids.

Fixpoint zip_tree (t : tree) (src : list rpage) : tree * list rpage :=
  match t with
  | Leaf _ => (t, src)
  | Node a _ kids =>
      let '(kids', c, rest) := zip_kids zip_tree kids src in (Node a c kids', rest)
  end.

(* zipSourcePageTreeIntoDestPageTree: InsertPages, then AppendPages for the longer source:
   new root [old root; Pages node with the remaining source pages] *)
Definition zip_merge (dest src : tree) : res tree :=
  match dest with
  | Leaf _ => Err
  | Node _ _ _ =>
    let '(d1, rest) := zip_tree dest (rpages src) in
    match rest with
    | [] => Ok d1
    | _ => Ok (Node no_attrs (count_of d1 + lenZ rest)
                 [d1; Node no_attrs (lenZ rest) (map (fun r => Leaf (weave_page r)) rest)])
    end
  end.

(* a1 b1 a2 b2 ... then the remainder of the longer list *)
Fixpoint interleave {A} (a b : list A) : list A :=
  match a with
  | [] => b
  | x :: a' => match b with
               | [] => a
               | y :: b' => x :: y :: interleave a' b'
               end
  end.

(* specification of merge on page lists: documents in order, exactly one blank divider page
   between consecutive documents when requested (its size comes from the last page before it) *)
Definition divider_view (mb : rect) : vpage := mkV 0 0 (Some mb) None None None None.

Fixpoint merge_spec (acc : list vpage) (rest : list (list vpage)) (divider : bool) : option (list vpage) :=
  match rest with
  | [] => Some acc
  | d :: r =>
      if divider then
        match last_dims_v acc with
        | Some mb => merge_spec (acc ++ [divider_view mb] ++ d) r divider
        | None => None
        end
      else merge_spec (acc ++ d) r divider
  end.

(* ---------------- pkg/pdfcpu/merge.go: object renumbering of the source ----------------
   patchSourceObjectNumbers:  objNrs := objNrsIntSet(ctxSrc)          (all source numbers except 0)
                              lookup := lookupTable(objNrs, *ctxDest.Size)
   lookupTable(keys, i):      for k := range keys { m[k] = i; i++ }    (map order: ANY order of the keys)
   appendSourceObjectsToDest: for objNr, entry := range ctxSrc.Table (renumbered) { ctxDest.Table[objNr] = entry; *ctxDest.Size++ }
   `keys` is the list of source object numbers in the order the map iteration happens to produce. *)
Definition renumber (keys : list Z) (dsize : Z) : list (Z * Z) :=
  combine keys (map (fun i => dsize + Z.of_nat i) (seq 0 (length keys))).
Definition new_numbers (keys : list Z) (dsize : Z) : list Z := map snd (renumber keys dsize).

(* object tables as partial functions; the source as a list of (number, object) in iteration order *)
Definition merged_table {O : Type} (dest : Z -> option O) (src : list (Z * O)) (dsize : Z) : Z -> option O :=
  fun n =>
    match find (fun kv => fst kv =? n) (combine (new_numbers (map fst src) dsize) (map snd src)) with
    | Some kv => Some (snd kv)          (* ctxDest.Table[objNr] = entry overwrites whatever was there *)
    | None => dest n
    end.
Definition merged_size {O : Type} (src : list (Z * O)) (dsize : Z) : Z := dsize + lenZ src.
