// Harness for C39: pdfcpu's name tree (pkg/pdfcpu/model/nameTree.go) against the
// extracted Coq model, step by step over random edit histories, plus the direct
// oracle: after every step the real structure must have strictly sorted unique keys,
// exact limits on every node, and agree with a Go map; finally a write/read round trip.
package main

import (
	"bytes"
	"fmt"
	"os"
	"runtime/debug"
	"sort"
	"strings"

	"github.com/pdfcpu/pdfcpu/pkg/api"
	"github.com/pdfcpu/pdfcpu/pkg/pdfcpu"
	"github.com/pdfcpu/pdfcpu/pkg/pdfcpu/model"
	"github.com/pdfcpu/pdfcpu/pkg/pdfcpu/types"
	"verif/vh"
)

type kv struct {
	k string
	v int
}

// entries of ONE leaf node (Names has an unexported element type; Process on a leaf visits exactly its Names).
func leafEntries(n *model.Node) []kv {
	var out []kv
	_ = n.Process(nil, func(_ *model.XRefTable, k string, o *types.Object) error {
		out = append(out, kv{k, objVal(*o)})
		return nil
	})
	return out
}

func objVal(o types.Object) int {
	switch x := o.(type) {
	case types.Integer:
		return x.Value()
	case types.Array: // dest array [pageRef /XYZ v 0 0]
		if len(x) >= 3 {
			if i, ok := x[2].(types.Integer); ok {
				return i.Value()
			}
		}
	}
	return -1
}

func ser(n *model.Node) string {
	var sb strings.Builder
	var rec func(n *model.Node)
	rec = func(n *model.Node) {
		if len(n.Kids) == 0 {
			sb.WriteString("L" + vh.Hex([]byte(n.Kmin)) + "|" + vh.Hex([]byte(n.Kmax)) + "[")
			for i, e := range leafEntries(n) {
				if i > 0 {
					sb.WriteByte(',')
				}
				sb.WriteString(vh.Hex([]byte(e.k)) + "=" + vh.Int(int64(e.v)))
			}
			sb.WriteByte(']')
			return
		}
		if len(n.Names) != 0 {
			sb.WriteString("X") // intermediate node with Names: outside the model
		}
		sb.WriteString("I" + vh.Hex([]byte(n.Kmin)) + "|" + vh.Hex([]byte(n.Kmax)) + "(")
		for _, c := range n.Kids {
			rec(c)
		}
		sb.WriteByte(')')
	}
	rec(n)
	return sb.String()
}

// ---- direct oracle on the real structure ----

type shape struct {
	keys     []kv
	problems []string
	maxLeaf  int
	minKids  int
	maxKids  int
}

func inspect(root *model.Node) *shape {
	s := &shape{minKids: 1 << 30}
	var rec func(n *model.Node, isRoot bool) (first, last string, cnt int)
	rec = func(n *model.Node, isRoot bool) (string, string, int) {
		if len(n.Kids) == 0 {
			es := leafEntries(n)
			if len(es) > s.maxLeaf {
				s.maxLeaf = len(es)
			}
			if len(es) == 0 {
				if !isRoot {
					s.problems = append(s.problems, "empty non-root leaf")
				}
				return "", "", 0
			}
			s.keys = append(s.keys, es...)
			if n.Kmin != es[0].k || n.Kmax != es[len(es)-1].k {
				s.problems = append(s.problems, fmt.Sprintf("leaf limits (%q,%q) but keys %q..%q", n.Kmin, n.Kmax, es[0].k, es[len(es)-1].k))
			}
			return es[0].k, es[len(es)-1].k, len(es)
		}
		if len(n.Kids) < s.minKids {
			s.minKids = len(n.Kids)
		}
		if len(n.Kids) > s.maxKids {
			s.maxKids = len(n.Kids)
		}
		first, last, cnt := "", "", 0
		for _, c := range n.Kids {
			f, l, k := rec(c, false)
			if k == 0 {
				continue
			}
			if cnt == 0 {
				first = f
			}
			last = l
			cnt += k
		}
		if cnt == 0 {
			s.problems = append(s.problems, "intermediate node without keys")
		} else if n.Kmin != first || n.Kmax != last {
			s.problems = append(s.problems, fmt.Sprintf("node limits (%q,%q) but keys below %q..%q", n.Kmin, n.Kmax, first, last))
		}
		return first, last, cnt
	}
	rec(root, true)
	for i := 1; i < len(s.keys); i++ {
		if !(s.keys[i-1].k < s.keys[i].k) {
			s.problems = append(s.problems, fmt.Sprintf("keys not strictly sorted: %q then %q", s.keys[i-1].k, s.keys[i].k))
			break
		}
	}
	return s
}

func sortedMap(m map[string]int) []kv {
	out := make([]kv, 0, len(m))
	for k, v := range m {
		out = append(out, kv{k, v})
	}
	sort.Slice(out, func(i, j int) bool { return out[i].k < out[j].k })
	return out
}

var alphabet = []string{"", "a", "aa", "ab", "b", "B", "\x00", "\xff", "a\x00", "a\x01", "a\x01\x01", "b\x01", "aa\x01",
	"c", "d", "e", "f", "g", "prefix/common/long/a", "prefix/common/long/b", "prefix/common/long/a\x01", "prefix/common/long",
	"\x00\x00", "\xff\xff", "\x01", "z"}

type gen struct {
	r     *vh.Run
	ascii bool // only bytes < 0x80 (keys that the PDF string codec reads back unchanged)
}

func (g gen) key() string {
	for {
		k := g.key0()
		if !g.ascii || isASCII(k) {
			return k
		}
	}
}

func isASCII(k string) bool {
	for i := 0; i < len(k); i++ {
		// PDFDocEncoding remaps 0x18..0x1f and >= 0x7f; a backslash in a hex-literal key is unescaped
		// again on reading (string codec, properties C12/C13) - not part of the tree logic
		if k[i] >= 0x7f || (k[i] >= 0x18 && k[i] < 0x20) || k[i] == 0x5c {
			return false
		}
	}
	return true
}

func (g gen) key0() string {
	switch x := g.r.Rand.Intn(10); {
	case x < 7:
		return alphabet[g.r.Rand.Intn(len(alphabet))]
	case x < 9:
		n := 1 + g.r.Rand.Intn(2)
		b := make([]byte, n)
		for i := range b {
			b[i] = "ab\x00\x01\xff"[g.r.Rand.Intn(5)]
		}
		return string(b)
	default:
		n := g.r.Rand.Intn(6)
		b := make([]byte, n)
		g.r.Rand.Read(b)
		return string(b)
	}
}

func (g gen) sortedKeys(n int) []string {
	set := map[string]bool{}
	for tries := 0; len(set) < n && tries < 20*n; tries++ {
		set[g.key()] = true
	}
	out := make([]string, 0, len(set))
	for k := range set {
		out = append(out, k)
	}
	sort.Strings(out)
	return out
}

var valCounter = 100

func newVal() int { valCounter++; return valCounter }

// foreign (not pdfcpu-shaped) but well-formed tree: wide kids, long leaves, single-kid chains
func (g gen) foreign(keys []string, depth int, m map[string]int) *model.Node {
	n := &model.Node{}
	if depth == 0 || len(keys) <= 1 || g.r.Rand.Intn(4) == 0 && len(keys) <= 7 {
		for _, k := range keys {
			v := newVal()
			m[k] = v
			n.AppendToNames(k, types.Integer(v))
		}
	} else {
		parts := 1 + g.r.Rand.Intn(5)
		if parts > len(keys) {
			parts = len(keys)
		}
		cuts := map[int]bool{}
		for len(cuts) < parts-1 {
			cuts[1+g.r.Rand.Intn(len(keys)-1)] = true
		}
		var idx []int
		for c := range cuts {
			idx = append(idx, c)
		}
		sort.Ints(idx)
		idx = append(idx, len(keys))
		prev := 0
		for _, c := range idx {
			n.Kids = append(n.Kids, g.foreign(keys[prev:c], depth-1, m))
			prev = c
		}
	}
	if len(keys) > 0 {
		n.Kmin, n.Kmax = keys[0], keys[len(keys)-1]
	}
	return n
}

// damage a tree (K only: the model must follow the code on malformed input too)
func (g gen) damage(root *model.Node) {
	var nodes []*model.Node
	var rec func(n *model.Node)
	rec = func(n *model.Node) {
		nodes = append(nodes, n)
		for _, c := range n.Kids {
			rec(c)
		}
	}
	rec(root)
	n := nodes[g.r.Rand.Intn(len(nodes))]
	switch g.r.Rand.Intn(4) {
	case 0:
		n.Kmin = g.key()
	case 1:
		n.Kmax = g.key()
	case 2:
		if len(n.Kids) >= 2 {
			i := g.r.Rand.Intn(len(n.Kids) - 1)
			n.Kids[i], n.Kids[i+1] = n.Kids[i+1], n.Kids[i]
		} else {
			n.Kmax = g.key()
		}
	default:
		if len(n.Kids) == 0 {
			n.AppendToNames(g.key(), types.Integer(newVal()))
		} else {
			n.Kmin = g.key()
		}
	}
}

type history struct {
	g       gen
	r       *vh.Run
	t       *model.Node
	m       map[string]int // shadow map; nil = oracle off (malformed start)
	built   bool           // started from the empty tree: pdfcpu's own shape bounds apply
	kind    string
	log     []string
	stopped bool
}

func (h *history) input() map[string]any {
	return map[string]any{"start": h.kind, "ops": h.log}
}

func (h *history) fail(class, detail string) {
	h.r.OracleFail(class, h.input(), detail)
	h.stopped = true
}

// oracle after a step
func (h *history) check(opClass string) {
	if h.m == nil || h.stopped {
		return
	}
	s := inspect(h.t)
	if len(s.problems) > 0 {
		if opClass == "add-rename-dup-crosses-leaf" {
			// the narrow class is only the order/uniqueness failure between neighbouring leaves;
			// wrong limits or empty nodes after a rename-mode Add are a different failure
			for _, p := range s.problems {
				if !strings.HasPrefix(p, "keys not strictly sorted") {
					opClass = "add-breaks-invariant"
				}
			}
		}
		h.fail(opClass, strings.Join(s.problems, "; ")+" tree="+h.t.String())
		return
	}
	want := sortedMap(h.m)
	if len(want) != len(s.keys) {
		h.fail(opClass+"-content", fmt.Sprintf("tree has %d keys, map has %d", len(s.keys), len(want)))
		return
	}
	for i := range want {
		if want[i] != s.keys[i] {
			h.fail(opClass+"-content", fmt.Sprintf("entry %d: tree (%q,%d) map (%q,%d)", i, s.keys[i].k, s.keys[i].v, want[i].k, want[i].v))
			return
		}
	}
	// lookups agree with the map, for present keys and absent neighbours
	probe := append([]string{}, alphabet...)
	for k := range h.m {
		probe = append(probe, k, k+"\x00", k+"\x01")
	}
	for _, k := range probe {
		o, ok := h.t.Value(k)
		v, present := h.m[k]
		if ok != present || (ok && objVal(o) != v) {
			h.fail("lookup-mismatch", fmt.Sprintf("Value(%q) = %v,%v; map has %v,%v", k, o, ok, v, present))
			return
		}
	}
	kl, err := h.t.KeyList()
	if err != nil || len(kl) != len(want) {
		h.fail("keylist-mismatch", fmt.Sprintf("KeyList len %d err %v, want %d", len(kl), err, len(want)))
		return
	}
	for i, e := range want {
		if kl[i] != fmt.Sprintf("%s %d", e.k, e.v) {
			h.fail("keylist-mismatch", fmt.Sprintf("KeyList[%d]=%q want %q %d", i, kl[i], e.k, e.v))
			return
		}
	}
	if h.built {
		if s.maxLeaf > 3 || (s.maxKids > 0 && (s.minKids != 2 || s.maxKids != 2)) {
			h.fail("shape-bound", fmt.Sprintf("maxLeaf=%d kids=%d..%d tree=%s", s.maxLeaf, s.minKids, s.maxKids, h.t.String()))
			return
		}
	}
	h.r.OracleOK()
}

func (h *history) add(rn bool, k string, v int) {
	pre := ser(h.t)
	var nm model.NameMap
	if rn {
		nm = model.NameMap{k: nil}
	}
	var err error
	panicked := func() (p any) {
		defer func() { p = recover() }()
		err = h.t.Add(nil, k, types.Integer(v), nm, []string{"F", "UF"})
		return nil
	}()
	h.log = append(h.log, fmt.Sprintf("add rn=%v %q %d", rn, k, v))
	if panicked != nil || err != nil {
		h.r.Case("add", []string{vh.Bool(rn), pre, vh.Hex([]byte(k)), vh.Int(int64(v))}, fmt.Sprintf("panic-or-error:%v %v", panicked, err))
		h.fail("add-panic-or-error", fmt.Sprintf("%v %v", panicked, err))
		h.stopped = true
		return
	}
	h.r.Case("add", []string{vh.Bool(rn), pre, vh.Hex([]byte(k)), vh.Int(int64(v))}, ser(h.t))
	class := "add-breaks-invariant"
	if h.m != nil {
		_, present := h.m[k]
		if !present {
			h.m[k] = v
			h.r.Count("op:add-new")
		} else if !rn {
			h.r.Count("op:add-duplicate-kept")
		} else {
			// rename mode: the name is stored under the first free k+"\x01"*j
			kk := k
			for {
				if _, p := h.m[kk]; !p {
					break
				}
				kk += "\x01"
			}
			h.m[kk] = v
			class = "add-rename-dup-crosses-leaf"
			h.r.Count("op:add-duplicate-renamed")
		}
	}
	h.check(class)
}

func (h *history) remove(k string) {
	pre := ser(h.t)
	wasEmptyLeaf := len(h.t.Kids) == 0 && len(h.t.Names) == 0
	var empty, ok bool
	var err error
	panicked := func() (p any) {
		defer func() { p = recover() }()
		empty, ok, err = h.t.Remove(nil, k)
		return nil
	}()
	h.log = append(h.log, fmt.Sprintf("remove %q", k))
	if panicked != nil {
		h.r.Case("remove", []string{pre, vh.Hex([]byte(k))}, "panic")
		if h.m != nil {
			if wasEmptyLeaf {
				h.fail("remove-on-empty-tree-panic", fmt.Sprint(panicked))
			} else {
				h.fail("remove-panic", fmt.Sprint(panicked))
			}
		}
		h.stopped = true
		h.r.Count("op:remove-panic")
		return
	}
	if err != nil {
		h.r.Case("remove", []string{pre, vh.Hex([]byte(k))}, "error")
		h.fail("remove-error", err.Error())
		return
	}
	h.r.Case("remove", []string{pre, vh.Hex([]byte(k))}, ser(h.t)+" "+vh.Bool(empty)+" "+vh.Bool(ok))
	if h.m != nil {
		_, present := h.m[k]
		delete(h.m, k)
		if ok != present {
			h.fail("remove-ok-flag", fmt.Sprintf("ok=%v but key present=%v", ok, present))
			return
		}
		// (empty is only meaningful when something was removed: a miss on a leaf returns false)
		if ok && empty != (len(h.m) == 0) {
			h.fail("remove-empty-flag", fmt.Sprintf("empty=%v but %d keys remain", empty, len(h.m)))
			return
		}
		if present {
			h.r.Count("op:remove-present")
			if len(h.m) == 0 {
				h.r.Count("op:remove-last-key")
			}
		} else {
			h.r.Count("op:remove-missing")
		}
	}
	h.check("remove-breaks-invariant")
}

func (h *history) probes() {
	for i := 0; i < 2; i++ {
		k := h.g.key()
		if h.m != nil && len(h.m) > 0 && h.r.Rand.Intn(2) == 0 {
			for kk := range sortedMapIdx(h.m, h.r.Rand.Intn(len(h.m))) {
				k = kk
			}
		}
		o, ok := h.t.Value(k)
		res := "none"
		if ok {
			res = "some:" + vh.Int(int64(objVal(o)))
		}
		h.r.Case("value", []string{ser(h.t), vh.Hex([]byte(k))}, res)
	}
	var sb []string
	s := inspect(h.t)
	for _, e := range s.keys {
		sb = append(sb, vh.Hex([]byte(e.k))+"="+vh.Int(int64(e.v)))
	}
	h.r.Case("keys", []string{ser(h.t)}, strings.Join(sb, ","))
}

func sortedMapIdx(m map[string]int, i int) map[string]bool {
	l := sortedMap(m)
	return map[string]bool{l[i].k: true}
}

func (h *history) steps(n int) {
	for i := 0; i < n && !h.stopped; i++ {
		x := h.r.Rand.Intn(100)
		present := ""
		if h.m != nil && len(h.m) > 0 {
			present = sortedMap(h.m)[h.r.Rand.Intn(len(h.m))].k
		} else if h.m == nil {
			if s := inspect(h.t); len(s.keys) > 0 {
				present = s.keys[h.r.Rand.Intn(len(s.keys))].k
			}
		}
		switch {
		case x < 42:
			h.add(false, h.g.key(), newVal())
		case x < 47:
			h.add(false, present, newVal()) // duplicate
		case x < 55:
			h.add(true, h.g.key(), newVal())
		case x < 60:
			h.add(true, present, newVal()) // duplicate, rename mode
		case x < 85:
			h.remove(present)
		default:
			h.remove(h.g.key())
		}
		if !h.stopped && (i%3 == 0 || h.r.Thorough()) {
			h.probes()
		}
	}
}

func main() {
	api.DisableConfigDir()
	r := vh.Start("C39")
	defer r.Finish()
	g := gen{r: r}

	// string order used by the model = Go's
	for _, a := range alphabet {
		for _, b := range alphabet {
			r.Case("less", []string{vh.Hex([]byte(a)), vh.Hex([]byte(b))}, vh.Bool(a < b))
		}
	}

	// fixed regression histories (the two documented shapes + root handling)
	fixed := [][]string{
		{"-"},
		{"+a", "-a", "-"},
		{"+a", "+b", "+c", "+d", "-a", "-b", "-c", "-d", "+a"},
		{"*a", "*b", "*b", "*c", "*b"},
		{"+a", "*a", "+a\x00", "+0", "*a"},
		{"+a", "+b", "+c", "+d", "+e", "+f", "+g", "-d", "-c", "-a", "-b", "-g", "-f", "-e", "-e"},
		{"+"},                          // only key "": round trip (finding roundtrip-empty-key-tree-dropped)
		{"+", "+a"},                    // root leaf starting with "": round trip (finding roundtrip-empty-key-root-kmin)
		{"+a", "+b", "+c", "+d", "+e"}, // plain multi-level tree: round trip must be exact incl. root limits
	}
	for _, ops := range fixed {
		h := &history{g: g, r: r, t: &model.Node{}, m: map[string]int{}, built: true, kind: "empty"}
		for _, o := range ops {
			if h.stopped {
				break
			}
			switch o[0] {
			case '+':
				h.add(false, o[1:], newVal())
			case '*':
				h.add(true, o[1:], newVal())
			case '-':
				h.remove(o[1:])
			}
			if !h.stopped {
				h.probes()
			}
		}
		if !h.stopped && len(h.m) > 0 {
			ascii := true
			for k := range h.m {
				ascii = ascii && isASCII(k)
			}
			if ascii {
				roundTrip(r, h)
			}
		}
	}

	nh := r.Pick(260, 4000)
	for i := 0; i < nh; i++ {
		g := gen{r: r, ascii: i%4 == 0 || i%8 == 2}
		h := &history{g: g, r: r}
		switch i % 4 {
		case 0, 1:
			h.t, h.m, h.built, h.kind = &model.Node{}, map[string]int{}, true, "empty"
			if i%8 == 1 { // pre-built multi-level pdfcpu tree
				for _, k := range g.sortedKeys(6 + r.Rand.Intn(20)) {
					h.add(false, k, newVal())
				}
				h.kind = "empty+bulk"
			}
		case 2:
			h.m = map[string]int{}
			h.t = g.foreign(g.sortedKeys(1+r.Rand.Intn(24)), 1+r.Rand.Intn(3), h.m)
			h.kind = "foreign:" + ser(h.t)
		default:
			mm := map[string]int{}
			h.t = g.foreign(g.sortedKeys(1+r.Rand.Intn(16)), 1+r.Rand.Intn(3), mm)
			g.damage(h.t)
			h.kind = "malformed:" + ser(h.t)
		}
		r.Count("start:" + strings.SplitN(h.kind, ":", 2)[0])
		n := 60
		if r.Thorough() && i%5 == 0 {
			n = 200
		}
		h.steps(n)
		if h.m != nil && !h.stopped && g.ascii {
			roundTrip(r, h)
		}
	}
}

// ---- write / read round trip of the tree as the Dests name tree of a generated document ----

func roundTrip(r *vh.Run, h *history) {
	defer func() {
		if p := recover(); p != nil {
			r.OracleFail("roundtrip-panic", h.input(), fmt.Sprint(p)+" "+firstLines(string(debug.Stack()), 24))
		}
	}()
	want := sortedMap(h.m)
	if len(want) == 0 {
		return
	}
	xrt, err := pdfcpu.CreateDemoXRef()
	if err != nil {
		r.OracleFail("roundtrip-setup", nil, err.Error())
		return
	}
	mb := types.RectForFormat("A4")
	p := model.Page{MediaBox: mb, Fm: model.FontMap{}, Buf: new(bytes.Buffer)}
	rootDict, err := xrt.Catalog()
	if err != nil {
		r.OracleFail("roundtrip-setup", nil, err.Error())
		return
	}
	if err := pdfcpu.AddPageTreeWithSamplePage(xrt, rootDict, p); err != nil {
		r.OracleFail("roundtrip-setup", nil, err.Error())
		return
	}
	ctx := pdfcpu.CreateContext(xrt, model.NewDefaultConfiguration())
	pageRef, err := firstPageRef(ctx)
	if err != nil {
		r.OracleFail("roundtrip-setup", nil, err.Error())
		return
	}
	// rebuild the same shape with destination arrays as values
	var clone func(n *model.Node) *model.Node
	clone = func(n *model.Node) *model.Node {
		c := &model.Node{Kmin: n.Kmin, Kmax: n.Kmax}
		for _, e := range leafEntries(n) {
			c.AppendToNames(e.k, types.Array{*pageRef, types.Name("XYZ"), types.Integer(e.v), types.Integer(0), types.Integer(0)})
		}
		if len(n.Kids) > 0 {
			c.Names = nil
		}
		for _, k := range n.Kids {
			c.Kids = append(c.Kids, clone(k))
		}
		return c
	}
	tree := clone(h.t)
	before := ser(tree)
	if err := ctx.LocateNameTree("Dests", true); err != nil {
		r.OracleFail("roundtrip-setup", nil, err.Error())
		return
	}
	tree.D = ctx.Names["Dests"].D
	ctx.Names["Dests"] = tree
	var buf bytes.Buffer
	if err := api.WriteContext(ctx, &buf); err != nil {
		r.OracleFail("roundtrip-write", h.input(), err.Error())
		return
	}
	conf := model.NewDefaultConfiguration()
	conf.ValidationMode = model.ValidationStrict
	ctx2, err := api.ReadValidateAndOptimize(bytes.NewReader(buf.Bytes()), conf)
	if err != nil {
		class := "roundtrip-read"
		if _, has := h.m[""]; has && len(tree.Kids) > 0 {
			// validateNameTreeDictNamesEntry / validateNameTreeKids take "" as "no first key yet"
			class = "roundtrip-empty-key-as-limit"
		}
		r.OracleFail(class, h.input(), err.Error()+" tree="+before)
		return
	}
	t2 := ctx2.Names["Dests"]
	_, hasEmptyKey := h.m[""]
	if t2 == nil {
		class := "roundtrip-lost"
		if hasEmptyKey && len(h.m) == 1 {
			// validate.validateNames (xReftable.go) internalizes a tree only if Kmin != "" && Kmax != "":
			// a tree whose only key is "" is taken for empty and removed from the catalog on READ
			class = "roundtrip-empty-key-tree-dropped"
		}
		r.OracleFail(class, h.input(), "no Dests tree after reading; written tree="+before)
		return
	}
	after := ser(t2)
	// The root's limits are not written (a root has no Limits entry) but recomputed on reading; the tree is
	// not empty here, so they must come back as first/last key.
	if before != after {
		class := "roundtrip-differs"
		if hasEmptyKey && stripRootLimits(before) == stripRootLimits(after) {
			// validateNameTreeDictNamesEntry takes "" as "no first key yet": the root comes back with
			// Kmin = its second key and Value("") no longer finds the entry
			class = "roundtrip-empty-key-root-kmin"
		}
		r.OracleFail(class, h.input(), "before="+before+" after="+after)
		return
	}
	r.Count("roundtrip:ok")
	r.OracleOK()
}

func stripRootLimits(s string) string {
	i := strings.IndexAny(s, "[(")
	if i < 0 {
		return s
	}
	return s[:1] + s[i:]
}

func firstPageRef(ctx *model.Context) (*types.IndirectRef, error) {
	if err := ctx.EnsurePageCount(); err != nil {
		return nil, err
	}
	_, ir, _, err := ctx.PageDict(1, false)
	return ir, err
}

func firstLines(s string, n int) string {
	l := strings.Split(s, "\n")
	if len(l) > n {
		l = l[:n]
	}
	return strings.Join(l, " | ")
}

var _ = os.Exit
