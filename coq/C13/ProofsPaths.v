(* C13 proofs, part 3: Go-string level round trip, Escape / Unescape, the literal-string path
   and the hex-literal path. *)
From Coq Require Import NArith ZArith List Bool Lia ZifyBool ZifyNat ZifyN.
From PV Require Import Lib.GoInt C13.Model C13.ProofsUtf16 C13.ProofsUtf8.
Import ListNotations.
Open Scope N_scope.
Ltac Zify.zify_post_hook ::= Z.div_mod_to_equations.

(* ---------------------------------------------------------------- Go strings *)

Lemma string_roundtrip : forall s, utf8_valid s = true ->
  decodeUTF16String (EncodeUTF16String s) = Ok s.
Proof.
  intros s Hv. destruct (valid_string s Hv) as [Hs Hsc].
  unfold decodeUTF16String, EncodeUTF16String. rewrite utf16_roundtrip by exact Hsc.
  rewrite Hs. reflexivity.
Qed.

Lemma text_roundtrip : forall cps, Forall scalar cps ->
  utf8_valid (utf8_of_runes cps) = true
  /\ decodeUTF16String (EncodeUTF16String (utf8_of_runes cps)) = Ok (utf8_of_runes cps).
Proof.
  intros cps H. destruct (runes_of_text cps H) as [_ Hv]. split; [exact Hv |].
  apply string_roundtrip. exact Hv.
Qed.

(* decoding a well-formed UTF-16BE text string never fails and yields the UTF-8 of its scalars *)
Lemma decode_wellformed_string : forall b cps, wf_utf16be b cps ->
  decodeUTF16String b = Ok (utf8_of_runes cps).
Proof. intros b cps H. unfold decodeUTF16String. rewrite (decode_wellformed b cps H). reflexivity. Qed.

Lemma decode_string_inv : forall b s, decodeUTF16String b = Ok s ->
  exists rr, decodeUTF16Runes b = Ok rr /\ s = utf8_of_runes rr.
Proof.
  intros b s H. unfold decodeUTF16String in H. destruct (decodeUTF16Runes b) as [rr |]; [| discriminate].
  injection H as <-. exists rr. split; reflexivity.
Qed.

(* ---------------------------------------------------------------- Escape / Unescape *)

Lemma unescape_loop_app : forall a b st,
  unescape_loop (a ++ b) st
  = match unescape_loop a st with Err => Err | Ok st' => unescape_loop b st' end.
Proof.
  induction a as [| c a IH]; intros b st; [reflexivity |].
  cbn [app unescape_loop]. destruct (unescape_step st c); [apply IH | reflexivity].
Qed.

Definition clean (out : list N) : ust := mkU false false [] out.

Lemma unescape_escape_byte : forall c out,
  unescape_loop (escape_byte c) (clean out) = Ok (clean (c :: out)).
Proof.
  intros c out. unfold escape_byte, clean.
  destruct (c =? 0x0A) eqn:E1; [apply N.eqb_eq in E1; subst; reflexivity |].
  destruct (c =? 0x0D) eqn:E2; [apply N.eqb_eq in E2; subst; reflexivity |].
  destruct (c =? 0x09) eqn:E3; [apply N.eqb_eq in E3; subst; reflexivity |].
  destruct (c =? 0x08) eqn:E4; [apply N.eqb_eq in E4; subst; reflexivity |].
  destruct (c =? 0x0C) eqn:E5; [apply N.eqb_eq in E5; subst; reflexivity |].
  destruct (c =? 0x5c) eqn:E6; [apply N.eqb_eq in E6; subst; reflexivity |].
  destruct (c =? 40) eqn:E7; [apply N.eqb_eq in E7; subst; reflexivity |].
  destruct (c =? 41) eqn:E8; [apply N.eqb_eq in E8; subst; reflexivity |].
  cbn [orb unescape_loop]. unfold unescape_step. cbn [u_long u_oct u_out u_esc is_nil negb andb].
  rewrite E1, E6. reflexivity.
Qed.

Lemma unescape_loop_Escape : forall s out,
  unescape_loop (Escape s) (clean out) = Ok (clean (rev s ++ out)).
Proof.
  induction s as [| c s IH]; intro out; [reflexivity |].
  unfold Escape in *. cbn [flat_map]. rewrite unescape_loop_app, unescape_escape_byte, IH.
  cbn [rev]. rewrite <- app_assoc. reflexivity.
Qed.

(* Unescape is a left inverse of Escape, for every byte string *)
Lemma Unescape_Escape : forall s, Unescape (Escape s) = Ok s.
Proof.
  intro s. unfold Unescape. fold (clean []). rewrite unescape_loop_Escape. unfold clean.
  cbn [u_oct u_out is_nil negb]. rewrite app_nil_r, rev_involutive. reflexivity.
Qed.

(* ---------------------------------------------------------------- literal string path *)

Lemma literal_roundtrip : forall s, utf8_valid s = true ->
  exists e, EscapedUTF16String s = Ok e /\ StringLiteralToString e = Ok s.
Proof.
  intros s Hv. exists (Escape (EncodeUTF16String s)). unfold EscapedUTF16String. rewrite Hv. cbn [negb].
  split; [reflexivity |]. unfold StringLiteralToString. rewrite Unescape_Escape.
  unfold EncodeUTF16String at 1. rewrite IsUTF16BE_Encode. apply string_roundtrip. exact Hv.
Qed.

(* invalid UTF-8 is refused, it is never stored *)
Lemma escaped_rejects_invalid : forall s, utf8_valid s = false -> EscapedUTF16String s = Err.
Proof. intros s H. unfold EscapedUTF16String. rewrite H. reflexivity. Qed.

(* ---------------------------------------------------------------- hex literal path *)

Lemma hexval_hexdigit : forall x, x < 16 -> hexval (hexdigit x) = Some x.
Proof.
  intros x Hx. unfold hexval, hexdigit. destruct (x <? 10) eqn:E.
  - ev. f_equal. lia.
  - ev. f_equal. lia.
Qed.

Lemma hex_decode_encode : forall b, bytes_ok b = true -> hex_decode (NewHexLiteral b) = Ok b.
Proof.
  induction b as [| v b IH]; intro Hb; [reflexivity |].
  cbn [bytes_ok forallb] in Hb. apply andb_true_iff in Hb as [Hv Hb]. unfold is_byte in Hv.
  unfold NewHexLiteral in *. cbn [flat_map app hex_decode]. rewrite (IH Hb).
  change 0x0f with (N.ones 4). rewrite land_mask, shr_div. change (2 ^ 4) with 16.
  rewrite !hexval_hexdigit by lia.
  rewrite lor_shiftl_add by (change (2 ^ 4) with 16; lia). change (2 ^ 4) with 16.
  do 2 f_equal. lia.
Qed.

Lemma bytes_ok_app : forall a b, bytes_ok (a ++ b) = bytes_ok a && bytes_ok b.
Proof. intros. apply forallb_app. Qed.

Lemma bytes_ok_units : forall us, bytes_ok (flat_map unit_bytes us) = true.
Proof.
  induction us as [| u us IH]; [reflexivity |].
  cbn [flat_map]. rewrite bytes_ok_app, IH. unfold unit_bytes, byte. cbn [bytes_ok forallb]. unfold is_byte.
  rewrite !andb_true_r. apply andb_true_iff. split; apply N.ltb_lt; apply N.mod_lt; discriminate.
Qed.

Lemma bytes_ok_Encode : forall rr, bytes_ok (EncodeUTF16Runes rr) = true.
Proof.
  intro rr. unfold EncodeUTF16Runes. rewrite bytes_ok_app, bytes_ok_units. reflexivity.
Qed.

Lemma hex_roundtrip : forall s, utf8_valid s = true ->
  HexLiteralToString (NewHexLiteral (EncodeUTF16String s)) = Ok s.
Proof.
  intros s Hv. unfold HexLiteralToString.
  rewrite hex_decode_encode by apply bytes_ok_Encode.
  unfold EncodeUTF16String at 1. rewrite IsUTF16BE_Encode. apply string_roundtrip. exact Hv.
Qed.


(* ---------------------------------------------------------------- the unescaped literal
   primitives/dateField.go stores its tooltip as types.StringLiteral(types.EncodeUTF16String(tip)),
   i.e. WITHOUT Escape.  Read back by StringLiteralToString this is the identity only when the
   UTF-16BE bytes contain no backslash (and, outside this model, no unbalanced parenthesis for the
   PDF parser). *)

Definition no_backslash (b : list N) : bool := forallb (fun c => negb (c =? 0x5c)) b.

Lemma unescape_loop_plain : forall s out, no_backslash s = true ->
  unescape_loop s (clean out) = Ok (clean (rev s ++ out)).
Proof.
  induction s as [| c s IH]; intros out H; [reflexivity |].
  cbn [no_backslash forallb] in H. apply andb_true_iff in H as [Hc Hs].
  cbn [unescape_loop]. unfold unescape_step, clean. cbn [u_long u_oct u_out u_esc is_nil negb andb].
  rewrite Hc. cbn [andb]. fold (clean (c :: out)). rewrite (IH (c :: out) Hs).
  cbn [rev]. rewrite <- app_assoc. reflexivity.
Qed.

Lemma Unescape_plain : forall s, no_backslash s = true -> Unescape s = Ok s.
Proof.
  intros s H. unfold Unescape. fold (clean []). rewrite unescape_loop_plain by exact H. unfold clean.
  cbn [u_oct u_out is_nil negb]. rewrite app_nil_r, rev_involutive. reflexivity.
Qed.

Lemma unescaped_literal_partial : forall s, utf8_valid s = true ->
  no_backslash (EncodeUTF16String s) = true ->
  StringLiteralToString (EncodeUTF16String s) = Ok s.
Proof.
  intros s Hv Hn. unfold StringLiteralToString. rewrite Unescape_plain by exact Hn.
  unfold EncodeUTF16String at 1. rewrite IsUTF16BE_Encode. apply string_roundtrip. exact Hv.
Qed.

Lemma unescaped_literal_refuted :
  exists s, utf8_valid s = true /\ StringLiteralToString (EncodeUTF16String s) <> Ok s.
Proof. exists [0x5c]. split; [reflexivity |]. vm_compute. discriminate. Qed.
